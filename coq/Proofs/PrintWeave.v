(* C09 (a), part 2: the text of journal.Print IS a woven text of the format printer.
   Every model directive is written exactly as Model/SynRender.v [render_sem] renders its meaning
   [PrintSem.sem_of_mdir] ([render_mdir]; a multi-line assertion's rendering includes the newline
   behind its last balance line), and between the directives journal.Print writes nothing but
   newlines ([print_journal_zipcat], [day_gaps]).  Hence [print_journal days] =
   [weave ([] :: gaps) renderings] with a file structure FL whose gaps are runs of newlines
   ([print_journal_woven], [FL_newline_gaps]), which is what RoundTripFile.parse_woven reads. *)
From Coq Require Import ZArith List Bool Lia.
From Knut Require Import Model.Bytes Model.Utf8 Model.UnicodeTables Model.Scanner Model.Parser Model.SynPrinter
     Spec.FormatSpec Model.SynRender.
From Knut Require Import Model.Str Model.Dec Model.Date Model.Account Model.Ledger Model.Journal Model.Pipeline
     Model.Table Model.Report Model.JPrinter.
From Knut Require Import Proofs.BuilderProofs Proofs.RoundTripBase Proofs.RoundTripLeaf Proofs.RoundTripInv Proofs.RoundTripRuns
     Proofs.PrintProofs Proofs.PrintRegroup Proofs.PrintSem.
Import ListNotations.
Open Scope bool_scope.
Open Scope Z_scope.

Notation udec := Utf8M.decode.

(* ------------------------------------------------------------------ one directive *)

(* fmt's rune count (Model/Table.v: non-continuation bytes) and the format printer's
   (decoding steps) agree on s *)
Definition rc_ok (s : Str.str) : Prop := Table.rune_count s = SynPrintM.rune_count udec s.

Definition posting_rc (p : posting) : Prop :=
  rc_ok (acc_name (p_other p)) /\ rc_ok (acc_name (p_acc p)) /\ rc_ok (to_string (p_qty p)).

Definition mdir_rc (d : Ledger.directive) : Prop :=
  match d with DTxn t => Forall posting_rc (odd_postings (t_postings t)) | _ => True end.

(* the bytes of one directive as the format printer delimits it *)
Definition mdir_text (pad : Z) (d : Ledger.directive) : Str.str :=
  match d with
  | DPrice dt c p t => print_price dt (c, p, t)
  | DOpen dt a => print_open dt a
  | DClose dt a => print_close dt a
  | DAssert dt bs => print_assertion dt bs ++ (match bs with [_] => [] | _ => [10] end)
  | DTxn t => print_txn pad t
  end.

Lemma join_same sep l : Str.join sep l = SynPrintM.join sep l.
Proof.
  induction l as [|x l IH]; [reflexivity|]. destruct l as [|y l]; [reflexivity|].
  change (Str.join sep (x :: y :: l)) with (x ++ sep ++ Str.join sep (y :: l)).
  change (SynPrintM.join sep (x :: y :: l)) with (x ++ sep ++ SynPrintM.join sep (y :: l)).
  now rewrite IH.
Qed.

Lemma render_posting_printed pad p : posting_rc p ->
  render_posting udec pad (sem_booking_of p) = print_posting pad p.
Proof.
  intros (H1 & H2 & H3). unfold render_posting, print_posting, sem_booking_of, sem_acc_of.
  cbn [sb_credit sb_debit sb_quantity sb_commodity fst].
  unfold SynPrintM.pad_right, SynPrintM.pad_left, JPrinter.pad_right, pad10, Table.pad_left.
  unfold rc_ok in *. rewrite <- H1, <- H2, <- H3. reflexivity.
Qed.

Lemma concat_nl_shift {A} (f : A -> Str.str) l :
  concat (map (fun b => [10] ++ f b) l) ++ [10] = [10] ++ concat (map (fun b => f b ++ [10]) l).
Proof.
  induction l as [|b l IH]; [reflexivity|]. cbn [map concat].
  rewrite <- ?app_assoc. rewrite IH. rewrite <- ?app_assoc. reflexivity.
Qed.

Theorem render_mdir pad d : mdir_rc d -> render_sem udec pad (sem_of_mdir d) = Some (mdir_text pad d).
Proof.
  destruct d as [dt c p t|dt a|dt a|dt bs|t]; cbn [mdir_rc sem_of_mdir render_sem mdir_text]; intros H; try reflexivity; f_equal.
  - unfold print_assertion. rewrite <- !app_assoc.
    apply (f_equal (app (format_date dt))). apply (f_equal (app JPrinter.s_balance)).
    destruct bs as [|b [|b2 bs]].
    + reflexivity.
    + cbn [map]. rewrite app_nil_r. reflexivity.
    + set (l := b :: b2 :: bs).
      change (map sem_balance_of l) with (sem_balance_of b :: sem_balance_of b2 :: map sem_balance_of bs).
      cbv iota beta.
      change (sem_balance_of b :: sem_balance_of b2 :: map sem_balance_of bs) with (map sem_balance_of l).
      rewrite map_map. symmetry. exact (concat_nl_shift print_balance_line l).
  - unfold print_txn. rewrite map_map, app_nil_l.
    assert (Ht : match t_targets t with
                 | Some ts => s_perf_open ++ SynPrintM.join s_comma ts ++ s_perf_close ++ s_nl
                 | None => [] end =
                 match t_targets t with
                 | Some ts => s_performance ++ Str.join [44] ts ++ [41; 10]
                 | None => [] end).
    { destruct (t_targets t) as [ts|]; [|reflexivity].
      exact (f_equal (fun j => s_perf_open ++ j ++ [41; 10]) (eq_sym (join_same [44] ts))). }
    assert (Hc : concat (map (fun x => render_posting udec pad (sem_booking_of x) ++ s_nl) (odd_postings (t_postings t))) =
                 concat (map (fun p => print_posting pad p ++ [10]) (odd_postings (t_postings t)))).
    { f_equal. apply map_ext_in. intros p Hp. rewrite Forall_forall in H. now rewrite (render_posting_printed pad p (H p Hp)). }
    apply (f_equal2 (@app Z)); [exact Ht|]. apply (f_equal (app (format_date (t_date t)))).
    exact (f_equal (fun z => 32 :: 34 :: t_desc t ++ 34 :: 10 :: z) Hc).
Qed.

Lemma render_all_mdirs pad ds : Forall mdir_rc ds ->
  render_all udec pad (map sem_of_mdir ds) = Some (map (mdir_text pad) ds).
Proof.
  induction 1 as [|d ds Hd Hds IH]; [reflexivity|]. cbn [map render_all]. now rewrite (render_mdir pad d Hd), IH.
Qed.

(* ------------------------------------------------------------------ the gaps *)

(* p1 ++ g1 ++ p2 ++ g2 ++ ... *)
Fixpoint zipcat (ps gs : list Str.str) : Str.str :=
  match ps, gs with
  | p :: ps', g :: gs' => p ++ g ++ zipcat ps' gs'
  | _, _ => []
  end.

Lemma zipcat_app p1 g1 p2 g2 : length p1 = length g1 ->
  zipcat (p1 ++ p2) (g1 ++ g2) = zipcat p1 g1 ++ zipcat p2 g2.
Proof.
  revert g1. induction p1 as [|p p1 IH]; intros [|g g1] H; cbn [length] in H; try discriminate; [reflexivity|].
  cbn [app zipcat]. rewrite IH by lia. now rewrite <- !app_assoc.
Qed.

Lemma weave_zipcat ps : forall gs g0, length ps = length gs -> weave (g0 :: gs) ps = g0 ++ zipcat ps gs.
Proof.
  induction ps as [|p ps IH]; intros [|g gs] g0 H; cbn [length] in H; try discriminate.
  - cbn [weave zipcat]. reflexivity.
  - rewrite weave_cons. cbn [zipcat]. rewrite IH by lia. reflexivity.
Qed.

(* behind the directives of a group (prices, opens, closes): a newline, and a blank line after the last *)
Fixpoint group_gaps {A} (l : list A) : list Str.str :=
  match l with
  | [] => []
  | [_] => [[10; 10]]
  | _ :: r => [10] :: group_gaps r
  end.

Fixpoint assert_gaps (l : list (list Ledger.balance)) : list Str.str :=
  match l with
  | [] => []
  | a :: rest => (match a, rest with [_], [] => [10; 10] | _, _ => [10] end) :: assert_gaps rest
  end.

Definition day_gaps (d : day) : list Str.str :=
  group_gaps (d_prices d) ++ group_gaps (d_opens d) ++ map (fun _ => [10]) (d_txns d) ++
  assert_gaps (d_asserts d) ++ group_gaps (d_closes d).

Lemma group_gaps_length {A} (l : list A) : length (group_gaps l) = length l.
Proof. induction l as [|x [|y l] IH]; cbn [group_gaps length] in *; try reflexivity. now rewrite IH. Qed.

Lemma assert_gaps_length l : length (assert_gaps l) = length l.
Proof. induction l as [|a l IH]; [reflexivity|]. cbn [assert_gaps length]. now rewrite IH. Qed.

Lemma group_zipcat {A} (f : A -> Str.str) l :
  concat (map (fun x => f x ++ [10]) l) ++ (match l with [] => [] | _ => [10] end) = zipcat (map f l) (group_gaps l).
Proof.
  induction l as [|x [|y l] IH]; [reflexivity| |].
  - cbn [map concat group_gaps zipcat]. rewrite !app_nil_r, <- app_assoc. reflexivity.
  - change (map (fun x => f x ++ [10]) (x :: y :: l)) with ((f x ++ [10]) :: map (fun x => f x ++ [10]) (y :: l)).
    change (group_gaps (x :: y :: l)) with ([10] :: group_gaps (y :: l)).
    change (map f (x :: y :: l)) with (f x :: map f (y :: l)).
    cbn [concat zipcat]. rewrite <- IH, <- !app_assoc. reflexivity.
Qed.

Lemma txns_zipcat (f : txn -> Str.str) l :
  concat (map (fun x => f x ++ [10]) l) = zipcat (map f l) (map (fun _ => [10]) l).
Proof. induction l as [|x l IH]; [reflexivity|]. cbn [map concat zipcat]. now rewrite IH, <- app_assoc. Qed.

Lemma print_asserts_cons2 dt a b rest :
  print_asserts dt (a :: b :: rest) =
  print_assertion dt a ++ [10] ++ (match a with [_] => [] | _ => [10] end) ++ print_asserts dt (b :: rest).
Proof. reflexivity. Qed.

Lemma assert_gaps_cons2 a b rest : assert_gaps (a :: b :: rest) = [10] :: assert_gaps (b :: rest).
Proof. destruct a as [|x [|y a']]; reflexivity. Qed.

Lemma asserts_zipcat pad dt l :
  print_asserts dt l ++ (match l with [] => [] | _ => [10] end) =
  zipcat (map (fun a => mdir_text pad (DAssert dt a)) l) (assert_gaps l).
Proof.
  induction l as [|a rest IH]; [reflexivity|].
  destruct rest as [|b rest'].
  - cbn [map assert_gaps zipcat print_asserts mdir_text].
    destruct a as [|x [|y a']]; rewrite ?app_nil_r, <- ?app_assoc; reflexivity.
  - rewrite print_asserts_cons2, assert_gaps_cons2.
    change (map (fun a0 => mdir_text pad (DAssert dt a0)) (a :: b :: rest'))
      with (mdir_text pad (DAssert dt a) :: map (fun a0 => mdir_text pad (DAssert dt a0)) (b :: rest')).
    cbn [zipcat]. rewrite <- IH. cbn [mdir_text]. rewrite <- !app_assoc.
    destruct a as [|x [|y a']]; reflexivity.
Qed.

Lemma print_day_zipcat pad d :
  print_day pad d = zipcat (map (mdir_text pad) (day_directives d)) (day_gaps d).
Proof.
  unfold print_day, day_directives, day_gaps. rewrite !map_app, !map_map.
  rewrite !zipcat_app by (rewrite ?map_length; first [symmetry; apply group_gaps_length|symmetry; apply assert_gaps_length|reflexivity]).
  rewrite <- (group_zipcat (fun x => mdir_text pad (price_directive (d_date d) x)) (d_prices d)).
  rewrite <- (group_zipcat (fun x => mdir_text pad (DOpen (d_date d) x)) (d_opens d)).
  rewrite <- (group_zipcat (fun x => mdir_text pad (DClose (d_date d) x)) (d_closes d)).
  rewrite <- (txns_zipcat (fun x => mdir_text pad (DTxn x)) (d_txns d)).
  rewrite <- (asserts_zipcat pad (d_date d) (d_asserts d)).
  rewrite <- !app_assoc.
  rewrite (map_ext (fun x => mdir_text pad (price_directive (d_date d) x) ++ [10]) (fun x => print_price (d_date d) x ++ [10]))
    by (intros [[c p] t]; reflexivity).
  reflexivity.
Qed.

Definition days_gaps (D : list day) : list Str.str := flat_map day_gaps D.

Lemma day_gaps_length d : length (day_gaps d) = length (day_directives d).
Proof.
  unfold day_gaps, day_directives. rewrite !app_length, !map_length, !group_gaps_length, assert_gaps_length. reflexivity.
Qed.

Lemma days_zipcat pad D :
  concat (map (print_day pad) D) = zipcat (map (mdir_text pad) (flat_map day_directives D)) (days_gaps D).
Proof.
  induction D as [|d D IH]; [reflexivity|]. cbn [map concat flat_map days_gaps].
  rewrite map_app, zipcat_app by (rewrite map_length; symmetry; apply day_gaps_length).
  now rewrite print_day_zipcat, IH.
Qed.

Lemma days_gaps_length D : length (days_gaps D) = length (flat_map day_directives D).
Proof. induction D as [|d D IH]; [reflexivity|]. cbn [days_gaps flat_map]. rewrite !app_length, day_gaps_length. unfold days_gaps in IH. now rewrite IH. Qed.

(* the text of journal.Print as a woven text *)
Theorem print_journal_woven D :
  print_journal D =
  weave ([] :: days_gaps (sort_days D))
        (map (mdir_text (padding_of (sort_days D))) (printed_model_dirs D)).
Proof.
  unfold print_journal, printed_model_dirs. cbv zeta. rewrite days_zipcat.
  rewrite weave_zipcat by (rewrite map_length; symmetry; apply days_gaps_length). reflexivity.
Qed.

(* ------------------------------------------------------------------ the file structure *)

Definition nl_run (g : Str.str) : Prop := exists n, g = repeat 10 (S n).

Lemma group_gaps_nl {A} (l : list A) : Forall nl_run (group_gaps l).
Proof.
  induction l as [|x [|y l] IH]; cbn [group_gaps]; [constructor| |].
  - constructor; [exists 1%nat; reflexivity|constructor].
  - constructor; [exists 0%nat; reflexivity|exact IH].
Qed.

Lemma assert_gaps_nl l : Forall nl_run (assert_gaps l).
Proof.
  induction l as [|a l IH]; cbn [assert_gaps]; constructor; [|exact IH].
  destruct a as [|x [|y a']], l; (exists 0%nat; reflexivity) || (exists 1%nat; reflexivity).
Qed.

Lemma days_gaps_nl D : Forall nl_run (days_gaps D).
Proof.
  induction D as [|d D IH]; [constructor|]. cbn [days_gaps flat_map]. apply Forall_app. split; [|exact IH].
  unfold day_gaps. repeat (apply Forall_app; split); try apply group_gaps_nl; try apply assert_gaps_nl.
  apply Forall_forall. intros g Hg. apply in_map_iff in Hg. destruct Hg as (_ & <- & _). exists 0%nat. reflexivity.
Qed.

Section FLNewlines.
Variables letter digit : Z -> bool.
Notation FL := (FL udec letter digit).
Notation LexDir := (LexDir udec letter digit).

Lemma FL_nl_run n gst ds : FL MHead [] gst ds -> FL MNL (repeat 10 (S n)) gst ds.
Proof.
  intros H. induction n as [|n IH]; cbn [repeat].
  - now apply FL_nl.
  - apply FL_nl. apply (FL_blank udec letter digit [] (repeat 10 (S n)) gst ds); [constructor|discriminate|exact IH].
Qed.

Theorem FL_newline_gaps sems : forall gs,
  Forall LexDir sems -> length sems = length gs -> Forall nl_run gs -> FL MHead [] gs sems.
Proof.
  induction sems as [|d ds IH]; intros [|g gs] Hl Hlen Hg; cbn [length] in Hlen; try discriminate.
  - apply FL_eof.
  - inversion Hl as [|? ? Hd Hds]; subst. inversion Hg as [|? ? (n & ->) Hgs]; subst.
    apply (FL_dir udec letter digit d ds [] (repeat 10 (S n)) gs); [exact Hd|constructor|]. apply FL_nl_run. apply IH; [exact Hds|lia|exact Hgs].
Qed.
End FLNewlines.
