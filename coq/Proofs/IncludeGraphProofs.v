(* Proofs about Spec/IncludeGraph.v: on a finite include graph (cyclic or not) the enumeration
   [walks] with fuel [length univ] unfolds without running out of fuel, and the visits below the
   root are exactly the include paths from the root whose proper prefix is simple; a cycle is
   reachable iff some visit closes a cycle; on a ranked (acyclic) graph the files of the visits are
   the include tree [expand] of Model/PipeLoader.v, and that list is the visit list [gvisits].  *)
From Coq Require Import List Bool Arith PeanoNat Lia Permutation.
From Knut Require Import Model.PipeLoader Spec.IncludeGraph Proofs.PipeLoaderProofs.
Import ListNotations.

Lemma memn_true : forall x l, memn x l = true <-> In x l.
Proof.
  intros x l. unfold memn. rewrite existsb_exists. split.
  - intros (y & Hy & E). apply Nat.eqb_eq in E. subst y. exact Hy.
  - intros H. exists x. split; [exact H|apply Nat.eqb_refl].
Qed.

Lemma memn_false : forall x l, memn x l = false <-> ~ In x l.
Proof.
  intros x l. rewrite <- memn_true. destruct (memn x l); split; intro H; try reflexivity; try discriminate.
  exfalso. apply H. reflexivity.
Qed.

Lemma NoDup_snoc : forall (l : list nat) x, NoDup l -> ~ In x l -> NoDup (l ++ [x]).
Proof.
  induction l as [|y l IH]; intros x ND NI; simpl.
  - constructor; [intros []|constructor].
  - inversion ND as [|? ? Hy ND']; subst. constructor.
    + intros H. apply in_app_or in H. destruct H as [H|[H|[]]]; [contradiction|].
      subst. apply NI. left. reflexivity.
    + apply IH; [assumption|]. intros H. apply NI. right. exact H.
Qed.

Lemma NoDup_snoc_inv : forall (l : list nat) x, NoDup (l ++ [x]) -> NoDup l /\ ~ In x l.
Proof.
  induction l as [|y l IH]; intros x ND; simpl in *.
  - split; [constructor|intros []].
  - inversion ND as [|? ? Hy ND']; subst. destruct (IH x ND') as [A B]. split.
    + constructor; [|exact A]. intros H. apply Hy. apply in_or_app. left. exact H.
    + intros [H|H]; [|contradiction]. subst. apply Hy. apply in_or_app. right. left. reflexivity.
Qed.

Lemma map_flat_map : forall (A B C : Type) (g : B -> C) (f : A -> list B) l,
  map g (flat_map f l) = flat_map (fun a => map g (f a)) l.
Proof. induction l as [|a l IH]; simpl; [reflexivity|]. rewrite map_app, IH. reflexivity. Qed.

Lemma forallb_flat_map : forall (A B : Type) (p : B -> bool) (f : A -> list B) l,
  forallb p (flat_map f l) = forallb (fun a => forallb p (f a)) l.
Proof. induction l as [|a l IH]; simpl; [reflexivity|]. rewrite forallb_app, IH. reflexivity. Qed.

Lemma length_flat_map : forall (A B : Type) (f : A -> list B) l,
  length (flat_map f l) = list_sum (map (fun a => length (f a)) l).
Proof. induction l as [|a l IH]; simpl; [reflexivity|]. rewrite app_length, IH. reflexivity. Qed.

Lemma filter_flat_map : forall (A B : Type) (p : B -> bool) (f : A -> list B) l,
  filter p (flat_map f l) = flat_map (fun a => filter p (f a)) l.
Proof. induction l as [|a l IH]; simpl; [reflexivity|]. rewrite filter_app, IH. reflexivity. Qed.

Lemma filter_all : forall (A : Type) (p : A -> bool) l, (forall x, In x l -> p x = true) -> filter p l = l.
Proof.
  induction l as [|a l IH]; intros H; simpl; [reflexivity|].
  rewrite (H a (or_introl eq_refl)), IH; [reflexivity|]. intros; apply H; right; assumption.
Qed.

Section GraphProofs.
  Variable inc : nat -> list nat.

  Notation walks := (walks inc).
  Notation ipath_from := (ipath_from inc).
  Notation ipath := (ipath inc).

  Lemma walks_head : forall fuel anc f, exists tl, walks fuel anc f = (anc, f) :: tl.
  Proof. intros [|d] anc f; simpl; eexists; reflexivity. Qed.

  Lemma walks_cyc : forall fuel anc f, memn f anc = true -> walks fuel anc f = [(anc, f)].
  Proof. intros [|d] anc f H; simpl; rewrite H; reflexivity. Qed.

  Lemma ipath_from_trans : forall a f b g c h,
    ipath_from a f b g -> ipath_from b g c h -> ipath_from a f c h.
  Proof.
    intros a f b g c h H1 H2. induction H2 as [|anc x y H2 IH Hy]; [exact H1|].
    apply ipath_step; assumption.
  Qed.

  (* every enumerated visit is an include path whose ancestors are distinct (no fuel condition) *)
  Lemma walks_sound : forall fuel anc0 f0 anc f, NoDup anc0 ->
    In (anc, f) (walks fuel anc0 f0) -> ipath_from anc0 f0 anc f /\ NoDup anc.
  Proof.
    induction fuel as [|d IH]; intros anc0 f0 anc f ND H; simpl in H.
    - destruct H as [H|H].
      + injection H as <- <-. split; [constructor|exact ND].
      + destruct (memn f0 anc0); destruct H.
    - destruct H as [H|H].
      + injection H as <- <-. split; [constructor|exact ND].
      + destruct (memn f0 anc0) eqn:M; [destruct H|].
        apply in_flat_map in H. destruct H as (g & Hg & H).
        apply memn_false in M.
        destruct (IH (anc0 ++ [f0]) g anc f (NoDup_snoc _ _ ND M) H) as [P N].
        split; [|exact N].
        apply (ipath_from_trans anc0 f0 (anc0 ++ [f0]) g); [|exact P].
        apply ipath_step; [constructor|exact Hg].
  Qed.

  (* ---------------------------------------------------------------- a finite graph *)
  Variable univ : list nat.
  Hypothesis Hclosed : forall f g, In f univ -> In g (inc f) -> In g univ.

  (* a task (anc, f) that can occur: distinct ancestors, all files known *)
  Definition gvalid (anc : list nat) (f : nat) : Prop := NoDup anc /\ incl anc univ /\ In f univ.

  Definition Wk (anc : list nat) (f : nat) : list visit := walks (length univ - length anc) anc f.

  Lemma gvalid_step : forall anc f g, gvalid anc f -> memn f anc = false -> In g (inc f) -> gvalid (anc ++ [f]) g.
  Proof.
    intros anc f g (ND & I & U) M Hg. apply memn_false in M. repeat split.
    - apply NoDup_snoc; assumption.
    - intros x Hx. apply in_app_or in Hx. destruct Hx as [Hx|[<-|[]]]; [apply I; exact Hx|exact U].
    - apply (Hclosed f); assumption.
  Qed.

  Lemma gvalid_length : forall anc f, gvalid anc f -> memn f anc = false -> length anc < length univ.
  Proof.
    intros anc f (ND & I & U) M. apply memn_false in M.
    assert (L : length (anc ++ [f]) <= length univ).
    { apply NoDup_incl_length; [apply NoDup_snoc; assumption|].
      intros x Hx. apply in_app_or in Hx. destruct Hx as [Hx|[<-|[]]]; [apply I; exact Hx|exact U]. }
    rewrite app_length in L. simpl in L. lia.
  Qed.

  Lemma Wk_unfold : forall anc f, gvalid anc f ->
    Wk anc f = (anc, f) :: (if memn f anc then [] else flat_map (Wk (anc ++ [f])) (inc f)).
  Proof.
    intros anc f V. unfold Wk at 1. destruct (memn f anc) eqn:M.
    - apply walks_cyc. exact M.
    - pose proof (gvalid_length anc f V M) as L.
      destruct (length univ - length anc) as [|d] eqn:D; [lia|].
      simpl. rewrite M. do 2 f_equal.
      unfold Wk. rewrite app_length. simpl.
      replace (length univ - (length anc + 1)) with d by lia. reflexivity.
  Qed.

  Lemma Wk_head_in : forall anc f, In (anc, f) (Wk anc f).
  Proof. intros anc f. unfold Wk. destruct (walks_head (length univ - length anc) anc f) as (tl & ->). left. reflexivity. Qed.

  (* the enumeration is closed under following an include directive of a visit that is not a cycle *)
  Lemma Wk_closed : forall n anc0 f0, length univ - length anc0 <= n -> gvalid anc0 f0 ->
    forall anc f g, In (anc, f) (Wk anc0 f0) -> memn f anc = false -> In g (inc f) ->
    In (anc ++ [f], g) (Wk anc0 f0).
  Proof.
    induction n as [|n IH]; intros anc0 f0 Hn V anc f g H M Hg.
    - rewrite (Wk_unfold _ _ V) in H. destruct H as [H|H].
      + injection H as <- <-. pose proof (gvalid_length _ _ V M). lia.
      + destruct (memn f0 anc0) eqn:M0; [destruct H|].
        pose proof (gvalid_length _ _ V M0). lia.
    - rewrite (Wk_unfold _ _ V) in H. rewrite (Wk_unfold _ _ V). destruct H as [H|H].
      + injection H as <- <-. rewrite M. right. apply in_flat_map. exists g. split; [exact Hg|apply Wk_head_in].
      + destruct (memn f0 anc0) eqn:M0; [destruct H|].
        apply in_flat_map in H. destruct H as (h & Hh & H).
        right. apply in_flat_map. exists h. split; [exact Hh|].
        apply IH; auto.
        * rewrite app_length. simpl. pose proof (gvalid_length _ _ V M0). lia.
        * apply gvalid_step; assumption.
  Qed.

  Lemma walks_complete : forall anc0 f0 anc f, gvalid anc0 f0 ->
    ipath_from anc0 f0 anc f -> NoDup anc -> In (anc, f) (Wk anc0 f0).
  Proof.
    intros anc0 f0 anc f V P. induction P as [|anc f g P IH Hg]; intros ND.
    - apply Wk_head_in.
    - destruct (NoDup_snoc_inv _ _ ND) as [ND' NI].
      apply (Wk_closed (length univ - length anc0)); auto.
      apply memn_false. exact NI.
  Qed.

  (* the visits of a load of [root] are exactly the include paths from the root whose ancestors are
     distinct: simple paths, and simple paths followed by one include back into the path *)
  Theorem walks_spec : forall root anc f, In root univ ->
    (In (anc, f) (all_visits inc univ root) <-> ipath root anc f /\ NoDup anc).
  Proof.
    intros root anc f Hr. unfold all_visits. split.
    - apply walks_sound. constructor.
    - intros [P ND]. assert (V : gvalid [] root) by (repeat split; [constructor|intros x []|exact Hr]).
      pose proof (walks_complete [] root anc f V P ND) as H. unfold Wk in H. simpl in H.
      rewrite Nat.sub_0_r in H. exact H.
  Qed.

  Lemma all_visits_Wk : forall root, all_visits inc univ root = Wk [] root.
  Proof. intros. unfold all_visits, Wk. simpl. rewrite Nat.sub_0_r. reflexivity. Qed.

  Theorem simple_paths_spec : forall root anc f, In root univ ->
    (In (anc, f) (simple_paths inc univ root) <-> ipath root anc f /\ NoDup (anc ++ [f])).
  Proof.
    intros root anc f Hr. unfold simple_paths. rewrite filter_In, (walks_spec root anc f Hr).
    unfold v_simple, v_cyc. simpl. rewrite negb_true_iff, memn_false. split.
    - intros [[P ND] NI]. split; [exact P|apply NoDup_snoc; assumption].
    - intros [P ND]. destruct (NoDup_snoc_inv _ _ ND). auto.
  Qed.

  (* a path that comes back to itself has a shortest such prefix *)
  Lemma first_repeat : forall root anc f, ipath root anc f ->
    NoDup anc \/ exists anc' f', ipath root anc' f' /\ NoDup anc' /\ In f' anc'.
  Proof.
    intros root anc f P. induction P as [|anc f g P IH Hg].
    - left. constructor.
    - destruct IH as [ND|R]; [|right; exact R].
      destruct (in_dec Nat.eq_dec f anc) as [I|NI].
      + right. exists anc, f. auto.
      + left. apply NoDup_snoc; assumption.
  Qed.

  Theorem cycle_reachable_spec : forall root, In root univ ->
    (cycle_reachable inc root <-> cycle_closings inc univ root <> []).
  Proof.
    intros root Hr. unfold cycle_reachable, cycle_closings. split.
    - intros (anc & f & P & I).
      assert (R : exists anc' f', ipath root anc' f' /\ NoDup anc' /\ In f' anc').
      { destruct (first_repeat root anc f P) as [ND|R]; [exists anc, f; auto|exact R]. }
      destruct R as (anc' & f' & P' & ND' & I').
      assert (H : In (anc', f') (filter v_cyc (all_visits inc univ root))).
      { apply filter_In. split; [apply walks_spec; auto|]. unfold v_cyc. simpl. apply memn_true. exact I'. }
      intros E. rewrite E in H. destruct H.
    - intros H. destruct (filter v_cyc (all_visits inc univ root)) as [|[anc f] l] eqn:E; [contradiction|].
      assert (I : In (anc, f) (filter v_cyc (all_visits inc univ root))) by (rewrite E; left; reflexivity).
      apply filter_In in I. destruct I as [I C]. apply walks_spec in I; [|exact Hr].
      exists anc, f. split; [apply I|]. apply memn_true. exact C.
  Qed.
End GraphProofs.

(* ------------------------------------------------------------------------------------------
   ranked (acyclic) graphs: the connection to [expand] (Model/PipeLoader.v) and to [gvisits] *)
Section Ranked.
  Variable inc : nat -> list nat.
  Variable rank : nat -> nat.
  Hypothesis Hrank : forall f g, In g (inc f) -> rank g < rank f.

  Notation E := (E inc rank).

  Lemma E_head : forall f, In f (E f).
  Proof. intros f. rewrite (E_unfold inc rank Hrank). left. reflexivity. Qed.

  (* the files of the include tree below f are closed under include *)
  Lemma E_closed : forall n f, rank f <= n -> forall x g, In x (E f) -> In g (inc x) -> In g (E f).
  Proof.
    induction n as [|n IH]; intros f Hn x g Hx Hg; rewrite (E_unfold inc rank Hrank) in Hx |- *.
    - destruct Hx as [<-|Hx].
      + pose proof (Hrank _ _ Hg). lia.
      + simpl in Hx. apply in_flat_map in Hx. destruct Hx as (h & Hh & _). pose proof (Hrank _ _ Hh). lia.
    - destruct Hx as [<-|Hx].
      + right. apply in_flat_map. exists g. split; [exact Hg|apply E_head].
      + simpl in Hx. apply in_flat_map in Hx. destruct Hx as (h & Hh & Hx).
        right. apply in_flat_map. exists h. split; [exact Hh|].
        pose proof (Hrank _ _ Hh). apply (IH h ltac:(lia) x g); assumption.
  Qed.

  Lemma ranked_finite : forall root, finite_graph inc (E root) root.
  Proof.
    intros root. split; [apply E_head|]. intros f g Hf Hg. apply (E_closed (rank root) root (le_n _) f g); assumption.
  Qed.

  (* on a ranked graph no visit closes a cycle and the files of the visits are the include tree *)
  Lemma Wk_ranked : forall univ, (forall f g, In f univ -> In g (inc f) -> In g univ) ->
    forall n anc f, rank f <= n -> gvalid univ anc f -> (forall a, In a anc -> rank f < rank a) ->
    map snd (Wk inc univ anc f) = E f /\ forallb v_simple (Wk inc univ anc f) = true.
  Proof.
    intros univ Hc. induction n as [|n IH]; intros anc f Hn V Ha.
    - assert (M : memn f anc = false).
      { apply memn_false. intros I. pose proof (Ha f I). lia. }
      rewrite (Wk_unfold inc univ anc f V), M, (E_unfold inc rank Hrank).
      destruct (inc f) as [|g r] eqn:I.
      + simpl. unfold v_simple, v_cyc. simpl. rewrite M. auto.
      + pose proof (Hrank f g) as R. rewrite I in R. specialize (R (or_introl eq_refl)). lia.
    - assert (M : memn f anc = false).
      { apply memn_false. intros I. pose proof (Ha f I). lia. }
      rewrite (Wk_unfold inc univ anc f V), M, (E_unfold inc rank Hrank).
      assert (S : forall g, In g (inc f) ->
                map snd (Wk inc univ (anc ++ [f]) g) = E g /\ forallb v_simple (Wk inc univ (anc ++ [f]) g) = true).
      { intros g Hg. pose proof (Hrank _ _ Hg) as R. apply IH; [lia|apply (gvalid_step inc univ Hc); assumption|].
        intros a Ia. apply in_app_or in Ia. destruct Ia as [Ia|[<-|[]]]; [pose proof (Ha a Ia); lia|exact R]. }
      split.
      + cbn [map snd app]. f_equal. rewrite map_flat_map. apply flat_map_ext_in'. intros g Hg. apply (S g Hg).
      + cbn [forallb]. unfold v_simple at 1, v_cyc. cbn [fst snd]. rewrite M. cbn [negb andb].
        rewrite forallb_flat_map. apply forallb_forall. intros g Hg. apply (S g Hg).
  Qed.

  Theorem all_visits_ranked : forall root,
    map snd (all_visits inc (E root) root) = E root /\
    cycle_closings inc (E root) root = [] /\
    simple_paths inc (E root) root = all_visits inc (E root) root.
  Proof.
    intros root. destruct (ranked_finite root) as [Hr Hc].
    rewrite (all_visits_Wk inc (E root) root) at 1.
    destruct (Wk_ranked (E root) Hc (rank root) [] root (le_n _)) as [A B].
    { repeat split; [constructor|intros x []|exact Hr]. }
    { intros a []. }
    split; [exact A|]. unfold cycle_closings, simple_paths. rewrite (all_visits_Wk inc (E root) root).
    rewrite forallb_forall in B. split.
    - destruct (filter v_cyc (Wk inc (E root) [] root)) as [|v l] eqn:F; [reflexivity|].
      assert (I : In v (filter v_cyc (Wk inc (E root) [] root))) by (rewrite F; left; reflexivity).
      apply filter_In in I. destruct I as [I C]. specialize (B v I). unfold v_simple in B. rewrite C in B. discriminate.
    - apply filter_all. exact B.
  Qed.

  (* the include tree in depth-first order is the visit list of C05_layout *)
  Lemma gvisits_E : forall n f, rank f <= n -> gvisits inc f (E f).
  Proof.
    induction n as [|n IH]; intros f Hn; rewrite (E_unfold inc rank Hrank).
    - destruct (inc f) as [|g r] eqn:I.
      + pose proof (gvisits_file inc f [] ) as G. rewrite I in G. simpl. apply G. constructor.
      + pose proof (Hrank f g) as R. rewrite I in R. specialize (R (or_introl eq_refl)). lia.
    - replace ([f] ++ flat_map E (inc f)) with (f :: concat (map E (inc f)))
        by (rewrite <- flat_map_concat_map; reflexivity).
      constructor.
      assert (S : forall g, In g (inc f) -> gvisits inc g (E g)).
      { intros g Hg. pose proof (Hrank _ _ Hg). apply IH. lia. }
      revert S. generalize (inc f) as l. induction l as [|g l IHl]; intros S; simpl; constructor.
      + apply S. left. reflexivity.
      + apply IHl. intros h Hh. apply S. right. exact Hh.
  Qed.

  Theorem gvisits_ranked : forall root, gvisits inc root (E root).
  Proof. intros root. apply (gvisits_E (rank root)). apply le_n. Qed.
End Ranked.

(* gvisits is nested in Forall2: its induction principle with the hypothesis for every include *)
Lemma gvisits_ind2 (inc : nat -> list nat) (P : nat -> list nat -> Prop) :
  (forall f vss, Forall2 (fun g vs => gvisits inc g vs /\ P g vs) (inc f) vss -> P f (f :: concat vss)) ->
  forall f vs, gvisits inc f vs -> P f vs.
Proof.
  intros Hstep. fix IH 3. intros f vs H. destruct H as [f vss HF].
  apply (Hstep f vss). revert HF. generalize (inc f) as ts. revert vss.
  fix IHF 3. intros vss ts HF. destruct HF as [|t vs ts' vss' Hv HF']; constructor.
  - split; [exact Hv|apply IH; exact Hv].
  - apply IHF. exact HF'.
Qed.

(* the visit list is unique *)
Lemma gvisits_det (inc : nat -> list nat) : forall f vs, gvisits inc f vs -> forall vs', gvisits inc f vs' -> vs = vs'.
Proof.
  intros f vs H. induction H as [f vss HF] using gvisits_ind2. intros vs' H'.
  destruct H' as [f vss' HF']. f_equal. f_equal.
  revert vss' HF'. induction HF as [|g vs l vss [_ IHg] HF IH]; intros vss' HF'; inversion HF'; subst; [reflexivity|].
  f_equal; [apply IHg; assumption|apply IH; assumption].
Qed.
