(* C09 (b), reports: ComputePrices and Valuate under value-equal quantities, and the balance
   command for every configuration ([balance_csv_v]). *)
From Coq Require Import ZArith List Bool Lia.
From Knut Require Import Model.Str Model.Dec Model.Date Model.Account Model.Ledger Model.Price Model.Journal
     Model.Check Model.Pipeline Model.Table Model.Report Model.Cli.
From Knut Require Import Proofs.DecProofs Proofs.DecEqProofs Proofs.OrderProofs Proofs.OrderCmd Proofs.CheckQuant
     Proofs.PrintRequant Proofs.QuantSim Proofs.QuantReport Proofs.QuantNum Proofs.QuantStages.
Import ListNotations.
Open Scope bool_scope.
Open Scope Z_scope.

(* ------------------------------------------------------------------ string maps with related values *)

Section SMapRel.
  Context {V : Type} (RV : V -> V -> Prop).
  Definition sm_v (m m' : smap V) : Prop := Forall2 (fun x y => fst x = fst y /\ RV (snd x) (snd y)) m m'.

  Lemma sm_get_v m m' k : sm_v m m' ->
    match sm_get m k, sm_get m' k with Some x, Some y => RV x y | None, None => True | _, _ => False end.
  Proof.
    induction 1 as [|[k1 v1] [k2 v2] m m' (Hk & Hv) Hm IH]; cbn [sm_get]; [exact I|].
    cbn [fst snd] in *. subst k2. destruct (str_eqb k k1); [exact Hv|exact IH].
  Qed.

  Lemma sm_put_v m m' k v v' : sm_v m m' -> RV v v' -> sm_v (sm_put m k v) (sm_put m' k v').
  Proof.
    intros Hm Hv. induction Hm as [|[k1 v1] [k2 v2] m m' Hx Hm IH]; cbn [sm_put].
    - constructor; [split; [reflexivity|exact Hv]|constructor].
    - pose proof Hx as (Hk & _). cbn [fst] in Hk. subst k2.
      destruct (str_cmp k k1).
      + constructor; [split; [reflexivity|exact Hv]|exact Hm].
      + constructor; [split; [reflexivity|exact Hv]|constructor; assumption].
      + constructor; [exact Hx|exact IH].
  Qed.

  Lemma sm_has_v m m' k : sm_v m m' -> sm_has m k = sm_has m' k.
  Proof. intros H. unfold sm_has. pose proof (sm_get_v m m' k H) as G. destruct (sm_get m k), (sm_get m' k); tauto. Qed.
End SMapRel.

Definition np_rel (m m' : nprices) : Prop := sm_v deqv m m'.
Definition prices_rel (p p' : prices) : Prop := sm_v np_rel p p'.

Lemma np_v_some m m' : np_rel m m' -> np_v (Some m) (Some m').
Proof. intros H. exact H. Qed.

Lemma add_price_v ps ps' t c p p' : prices_rel ps ps' -> deqv p p' -> prices_rel (add_price ps t c p) (add_price ps' t c p').
Proof.
  intros H Hp. unfold add_price. apply sm_put_v; [exact H|].
  pose proof (sm_get_v (V:=smap dec) np_rel ps ps' t H) as G. apply sm_put_v; [|exact Hp].
  destruct (sm_get ps t), (sm_get ps' t); try contradiction; [exact G|constructor].
Qed.

Lemma prices_insert_v ps ps' c p p' t : prices_rel ps ps' -> deqv p p' ->
  match prices_insert ps c p t, prices_insert ps' c p' t with
  | InsOk x, InsOk y => prices_rel x y
  | InsErrZero, InsErrZero => True
  | InsPanic, InsPanic => True
  | _, _ => False
  end.
Proof.
  intros H Hp. unfold prices_insert. rewrite (deqv_is_zero _ _ Hp). destruct (is_zero p'); [exact I|].
  rewrite (div_deqv one one p p' (deqv_refl _) Hp). destruct (div one p') as [inv|]; [|exact I].
  apply add_price_v; [now apply add_price_v|apply deqv_refl].
Qed.

(* ------------------------------------------------------------------ normalisation *)

Lemma visit_neighbours_v nb nb' pc pc' res res' queue :
  np_rel nb nb' -> deqv pc pc' -> np_rel res res' ->
  np_rel (fst (visit_neighbours nb pc res queue)) (fst (visit_neighbours nb' pc' res' queue)) /\
  snd (visit_neighbours nb pc res queue) = snd (visit_neighbours nb' pc' res' queue).
Proof.
  intros Hnb Hpc. revert res res' queue.
  induction Hnb as [|[n p] [n' p'] nb nb' (Hn & Hp) Hnb IH]; intros res res' queue Hres; cbn [visit_neighbours].
  - split; [exact Hres|reflexivity].
  - cbn [fst snd] in *. subst n'. rewrite (sm_has_v deqv res res' n Hres).
    destruct (sm_has res' n); [now apply IH|]. apply IH. apply sm_put_v; [exact Hres|now apply multiply_deqv].
Qed.

Lemma bfs_v fuel ps ps' : prices_rel ps ps' -> forall queue res res', np_rel res res' ->
  match bfs fuel ps queue res, bfs fuel ps' queue res' with
  | Some x, Some y => np_rel x y
  | None, None => True
  | _, _ => False
  end.
Proof.
  intros Hps. induction fuel as [|f IH]; intros queue res res' Hres; destruct queue as [|c rest]; cbn [bfs]; try exact Hres; try exact I.
  pose proof (sm_get_v (V:=smap dec) np_rel ps ps' c Hps) as Gn. pose proof (sm_get_v deqv res res' c Hres) as Gp.
  set (nb := match sm_get ps c with Some m => m | None => [] end).
  set (nb' := match sm_get ps' c with Some m => m | None => [] end).
  set (pc := match sm_get res c with Some p => p | None => one end).
  set (pc' := match sm_get res' c with Some p => p | None => one end).
  assert (Hnb : np_rel nb nb') by (unfold nb, nb'; destruct (sm_get ps c), (sm_get ps' c); try contradiction; [exact Gn|constructor]).
  assert (Hpc : deqv pc pc') by (unfold pc, pc'; destruct (sm_get res c), (sm_get res' c); try contradiction; [exact Gp|apply deqv_refl]).
  destruct (visit_neighbours_v nb nb' pc pc' res res' rest Hnb Hpc Hres) as (H1 & H2).
  destruct (visit_neighbours nb pc res rest) as [r1 q1], (visit_neighbours nb' pc' res' rest) as [r2 q2]. cbn [fst snd] in *. subst q2.
  now apply IH.
Qed.

Lemma Forall2_len {A B} (R : A -> B -> Prop) l l' : Forall2 R l l' -> length l = length l'.
Proof. induction 1; cbn [length]; congruence. Qed.

Lemma normalize_v ps ps' t : prices_rel ps ps' ->
  match normalize ps t, normalize ps' t with Some x, Some y => np_rel x y | None, None => True | _, _ => False end.
Proof.
  intros H. unfold normalize. assert (E : length ps = length ps') by exact (Forall2_len _ _ _ H). rewrite E. apply bfs_v; [exact H|].
  constructor; [split; [reflexivity|apply deqv_refl]|constructor].
Qed.

(* ------------------------------------------------------------------ ComputePrices *)

Definition Rcp (s s' : cp_state) : Prop := prices_rel (cp_prices s) (cp_prices s') /\ np_v (cp_previous s) (cp_previous s').

Theorem cp_stage_v v D D' : Forall2 day_v D D' ->
  req (RSDs Rcp) (process_days (compute_prices_proc v) (mkCp [] None) D) (process_days (compute_prices_proc v) (mkCp [] None) D').
Proof.
  intros H. apply process_days_v; [| | | | | | | |exact H|split; [constructor|exact I]];
    cbn [compute_prices_proc pr_day_start pr_price pr_open pr_txn pr_posting pr_balance pr_close pr_day_end]; try exact I.
  - intros s s' [[c p] t] [[c' p'] t'] (Hp & Hn) (Hc & Ht & Hq). cbn [fst snd] in *. subst c' t'. unfold cp_price_cb.
    pose proof (prices_insert_v (cp_prices s) (cp_prices s') c p p' t Hp Hq) as G.
    destruct (prices_insert (cp_prices s) c p t), (prices_insert (cp_prices s') c p' t); cbn [req]; try contradiction; try exact I.
    split; assumption.
  - intros s s' d d' (Hp & Hn) Hd. unfold cp_day_end.
    pose proof Hd as (E0 & E1 & E2 & E3 & E4 & E5 & E6).
    assert (Hset : forall n n', np_v n n' -> day_v (set_normalized d n) (set_normalized d' n')).
    { intros n n' Hnn. repeat split; cbn [set_normalized d_date d_prices d_opens d_txns d_asserts d_closes d_normalized]; assumption. }
    destruct E1 as [|x y l l' Hx Hl]; cbn [req].
    + split; cbn [fst snd]; [split; assumption|now apply Hset].
    + pose proof (normalize_v (cp_prices s) (cp_prices s') v Hp) as G.
      destruct (normalize (cp_prices s) v), (normalize (cp_prices s') v); cbn [req]; try contradiction; try exact I.
      split; cbn [fst snd]; [split; cbn [cp_prices cp_previous]; assumption|now apply Hset].
Qed.

(* ------------------------------------------------------------------ Valuate *)

Definition Rval (s s' : val_state) : Prop :=
  np_v (v_prev s) (v_prev s') /\ np_v (v_cur s) (v_cur s') /\ Forall2 ent_q (v_qty s) (v_qty s').

Lemma np_price_opt_v n n' c : np_v n n' ->
  match np_price_opt n c, np_price_opt n' c with Some x, Some y => deqv x y | None, None => True | _, _ => False end.
Proof.
  intros H. unfold np_price_opt, np_price. destruct n as [m|], n' as [m'|]; cbn [np_v] in H; try contradiction; [|exact I].
  exact (sm_get_v deqv m m' c H).
Qed.

Lemma val_adjustments_v v date prev prev' cur cur' pos pos' :
  np_v prev prev' -> np_v cur cur' -> Forall2 ent_q pos pos' ->
  req (Forall2 txn_v) (val_adjustments v date prev cur pos) (val_adjustments v date prev' cur' pos').
Proof.
  intros Hp Hc. induction 1 as [|[k [[a c] q]] [k' [[a' c'] q']] pos pos' (Hk & Ha & Hcc & Hq) Hpos IH]; cbn [val_adjustments]; [constructor|].
  cbn [fst snd] in *. subst k' a' c'. rewrite (deqv_is_zero _ _ Hq).
  destruct (str_eqb c v || negb (is_AL a) || is_zero q'); [exact IH|].
  pose proof (np_price_opt_v prev prev' c Hp) as G1. pose proof (np_price_opt_v cur cur' c Hc) as G2.
  destruct (np_price_opt prev c) as [pp|], (np_price_opt prev' c) as [pp'|]; cbn [req]; try contradiction; try exact I.
  destruct (np_price_opt cur c) as [cp|], (np_price_opt cur' c) as [cp'|]; cbn [req]; try contradiction; try exact I.
  pose proof (sub_deqv _ _ _ _ G2 G1) as Hd. rewrite (deqv_is_zero _ _ Hd).
  destruct (is_zero (sub cp' pp')); [exact IH|].
  eapply req_bind; [exact IH|]. intros ts ts' Hts. cbn [req]. constructor; [|exact Hts].
  repeat split; cbn [t_date t_desc t_targets t_postings]. apply pair_build_v; [apply deqv_refl|now apply multiply_deqv].
Qed.

Theorem val_stage_v v D D' : Forall2 day_v D D' ->
  req (RSDs Rval) (process_days (valuate_proc v) (mkVal None None []) D) (process_days (valuate_proc v) (mkVal None None []) D').
Proof.
  intros H. apply process_days_v; [| | | | | | | |exact H|repeat split; constructor];
    cbn [valuate_proc pr_day_start pr_price pr_open pr_txn pr_posting pr_balance pr_close pr_day_end]; try exact I.
  - intros s s' d d' (Hp & Hc & Hq) Hd. unfold val_day_start.
    pose proof Hd as (E0 & E1 & E2 & E3 & E4 & E5 & E6). rewrite <- E0.
    eapply req_bind; [apply (val_adjustments_v v (d_date d) _ _ _ _ _ _ Hp E6 Hq)|].
    intros ts ts' Hts. cbn [req]. split; cbn [fst snd].
    + repeat split; cbn [v_prev v_cur v_qty]; assumption.
    + repeat split; cbn [set_txns d_date d_prices d_opens d_txns d_asserts d_closes d_normalized]; try assumption.
      now apply Forall2_app.
  - intros s s' t t' x x' (Hp & Hc & Hq) _ Hx. unfold val_posting.
    pose proof Hx as (Ha & Ho & Hcm & Hqq & Hvv). rewrite <- Ha, <- Ho, <- Hcm, (deqv_is_zero _ _ Hqq).
    destruct (is_zero (p_qty x')); cbn [req]; [split; cbn [fst snd]; [repeat split; assumption|exact Hx]|].
    assert (Hs' : Rval (if is_AL (p_acc x) then mkVal (v_prev s) (v_cur s) (pos_add (v_qty s) (p_acc x) (p_com x) (p_qty x)) else s)
                       (if is_AL (p_acc x) then mkVal (v_prev s') (v_cur s') (pos_add (v_qty s') (p_acc x) (p_com x) (p_qty x')) else s')).
    { destruct (is_AL (p_acc x)); repeat split; cbn [v_prev v_cur v_qty]; try assumption. now apply pos_add_q. }
    destruct (str_eqb v (p_com x)); cbn [req].
    + split; cbn [fst snd]; [exact Hs'|]. repeat split; cbn [p_acc p_other p_com p_qty p_val]; assumption.
    + destruct (v_cur s) as [n|], (v_cur s') as [n'|]; cbn [np_v] in Hc; try contradiction; cbn [req]; try exact I.
      unfold np_valuate. pose proof (sm_get_v deqv n n' (p_com x) Hc) as G.
      destruct (sm_get n (p_com x)) as [pr|], (sm_get n' (p_com x)) as [pr'|]; try contradiction; cbn [req]; try exact I.
      split; cbn [fst snd]; [exact Hs'|]. repeat split; cbn [p_acc p_other p_com p_qty p_val]; try assumption. now apply multiply_deqv.
  - intros s s' d d' (Hp & Hc & Hq) Hd. unfold val_day_end. cbn [req]. split; cbn [fst snd]; [|exact Hd].
    repeat split; cbn [v_prev v_cur v_qty]; try assumption. apply Hd.
Qed.

(* ------------------------------------------------------------------ knut balance, every configuration *)

Theorem balance_report_v cfg X X' b b' :
  load X = COk b -> load X' = COk b' ->
  Forall2 day_v (b_days b) (b_days b') -> b_min b = b_min b' -> b_max b = b_max b' ->
  ceq (fun a a' => report_v (fst a) (fst a') /\ snd a = snd a') (balance_report cfg X) (balance_report cfg X').
Proof.
  intros HX HX' Hd Hmin Hmax. unfold balance_report. rewrite HX, HX'.
  destruct (match bc_valuation cfg with Some v => if valid_commodity v then COk tt else CErr k_valuation v | None => COk tt end);
    cbn [cbind ceq]; try exact I.
  rewrite (cfg_partition_equiv cfg b b' Hmin Hmax).
  destruct (cfg_partition cfg b') as [part| |]; cbn [cbind ceq]; try exact I. cbv zeta.
  set (c := if bc_close cfg then builder_touch b (start_dates part) else b).
  set (c' := if bc_close cfg then builder_touch b' (start_dates part) else b').
  assert (Hc : Forall2 day_v (b_days c) (b_days c')).
  { unfold c, c'. destruct (bc_close cfg); [now apply builder_touch_v|exact Hd]. }
  eapply ceq_bind; [apply ceq_run, (check_stage_v (bc_lenient cfg)); exact Hc|].
  intros [s1 d1] [s1' d1'] (_ & H1). cbn [fst snd cbind] in *.
  eapply (ceq_bind (fun l l' => Forall2 day_v l l')).
  { destruct (bc_valuation cfg) as [v|]; [|exact H1].
    eapply ceq_bind; [apply ceq_run, (cp_stage_v v); exact H1|].
    intros [s2 d2] [s2' d2'] (_ & H2). cbn [fst snd] in *.
    eapply ceq_bind; [apply ceq_run, (val_stage_v v); exact H2|].
    intros [s3 d3] [s3' d3'] (_ & H3). exact H3. }
  intros dv dv' Hv.
  eapply ceq_bind; [apply ceq_run, (filter_stage_v (span part)); exact Hv|].
  intros [s4 d4] [s4' d4'] (_ & H4). cbn [fst snd] in *.
  eapply (ceq_bind (fun l l' => Forall2 day_v l l')).
  { destruct (bc_close cfg); [|exact H4].
    eapply ceq_bind; [apply ceq_run, (close_stage_v (start_dates part)); exact H4|].
    intros [s5 d5] [s5' d5'] (_ & H5). exact H5. }
  intros d6 d6' H6.
  eapply ceq_bind; [apply ceq_run, (query_stage_v _ _ _ _ _ H6 (report_v_refl new_report))|].
  intros [r7 d7] [r7' d7'] (H7 & _). cbn [fst snd cbind ceq] in *. split; [exact H7|reflexivity].
Qed.

Theorem balance_table_v cfg X X' b b' :
  load X = COk b -> load X' = COk b' ->
  Forall2 day_v (b_days b) (b_days b') -> b_min b = b_min b' -> b_max b = b_max b' ->
  ceq table_v (balance_table cfg X) (balance_table cfg X').
Proof.
  intros HX HX' Hd Hmin Hmax. unfold balance_table.
  eapply ceq_bind; [apply (balance_report_v cfg X X' b b'); assumption|].
  intros [r p] [r' p'] (Hr & Hp). cbn [fst snd ceq] in *. subst p'. now apply render_report_v.
Qed.

Theorem balance_csv_v cfg X X' b b' :
  load X = COk b -> load X' = COk b' ->
  Forall2 day_v (b_days b) (b_days b') -> b_min b = b_min b' -> b_max b = b_max b' ->
  ceq eq (balance_csv cfg X) (balance_csv cfg X').
Proof.
  intros HX HX' Hd Hmin Hmax. unfold balance_csv.
  eapply ceq_bind; [apply (balance_table_v cfg X X' b b'); assumption|].
  intros t t' Ht. cbn [ceq]. now apply render_csv_v.
Qed.
