(* C09 (a), part 3: the leaves that journal.Print writes are in the parser's lexical classes.
   [mdir_lex d] says of a model directive what the parser guarantees of every journal it has read
   (and the model layer keeps): years 0..9999; account segments and commodities are non-empty
   runs of (Unicode) letters and digits; descriptions are valid UTF-8 without a double quote; a
   transaction has a booking, an assertion a balance.  Then the meaning journal.Print writes
   (PrintSem.sem_of_mdir) satisfies RoundTripInv.LexDir ([lex_mdir]): the ISO date is a date
   token, Decimal.String a decimal token, and so on; the two rune counts (fmt's and the format
   printer's) agree on valid UTF-8 ([rc_ok_runs]); account names split back into their segments
   ([printable_mdir]). *)
From Coq Require Import ZArith List Bool Lia.
From Knut Require Import Model.Bytes Model.Utf8 Model.UnicodeTables Model.Scanner Model.Parser Model.SynPrinter
     Spec.FormatSpec Model.SynRender.
From Knut Require Import Model.Str Model.Dec Model.Date Model.Account Model.Ledger Model.Journal Model.Pipeline
     Model.Table Model.Report Model.JPrinter.
From Knut Require Import Spec.TableSpec Proofs.CalendarSweep Proofs.CalendarProofs Proofs.DecStringProofs Proofs.TableProofs
     Proofs.ScannerProofs Proofs.RoundTripBase Proofs.RoundTripLeaf Proofs.RoundTripInv Proofs.RoundTripRuns Proofs.RoundTripTop
     Proofs.PrintProofs Proofs.PrintSem Proofs.PrintWeave.
Import ListNotations.
Open Scope bool_scope.
Open Scope Z_scope.

Local Ltac Zify.zify_post_hook ::= Z.div_mod_to_equations.

Notation uletter := UnicodeM.is_letter.
Notation udigit := UnicodeM.is_digit.
Notation ualnum := (RoundTripLeaf.alnum uletter udigit).
Notation uchunk := (chunk udec).
Notation ucls := (cls udec).
Notation uruns := (runs udec).
Notation ufr := (fr udec).

(* ------------------------------------------------------------------ UTF-8: the bytes of a rune *)

Definition is_cont (b : Z) : bool := (128 <=? b) && (b <? 192).

Lemma chunk_shape c b : uchunk c b ->
  exists b0 bt, b = b0 :: bt /\ is_cont b0 = false /\ Forall (fun x => is_cont x = true) bt /\
                (b0 < 128 -> bt = [] /\ c = b0) /\ (128 <= b0 -> Forall (fun x => 128 <= x) bt).
Proof.
  intros (Hne & Hx & Hv). specialize (Hx []). rewrite app_nil_r in Hx.
  destruct b as [|s0 t]; [congruence|]. exists s0, t. split; [reflexivity|].
  unfold decode, zlen in Hx.
  repeat match type of Hx with
  | context [if ?c then _ else _] => destruct c eqn:?
  | context [match ?x with [] => _ | _ :: _ => _ end] => destruct x
  end; apply pair_equal_spec in Hx; destruct Hx as [Hc Hl]; try subst c;
  try (exfalso; apply Hv; split; [reflexivity|unfold zlen; rewrite <- Hl; reflexivity]);
  cbn [length] in Hl.
  all: repeat match goal with l : list Z |- _ => destruct l; cbn [length] in Hl; try lia end.
  all: unfold cont, second_lo, second_hi, is_cont in *; unfold in_rng in *.
  all: repeat match goal with H : context [if ?c then _ else _] |- _ => destruct c eqn:? end.
  all: try (repeat split; try (repeat constructor); try lia; fail).
Qed.

Lemma table_rc_chunk c b : uchunk c b -> Table.rune_count b = 1.
Proof.
  intros H. destruct (chunk_shape c b H) as (b0 & bt & -> & H0 & Ht & _).
  unfold Table.rune_count. cbn [filter]. fold (is_cont b0). rewrite H0. cbn [negb length].
  replace (filter (fun b => negb ((128 <=? b) && (b <? 192))) bt) with (@nil Z); [reflexivity|].
  symmetry. clear H H0. induction Ht as [|x l Hx Hl IH]; [reflexivity|]. cbn [filter]. fold (is_cont x). rewrite Hx. exact IH.
Qed.

Lemma rc_fuel_runs s : uruns s -> forall n, (length s <= n)%nat ->
  SynPrintM.rune_count_fuel udec n s = Table.rune_count s.
Proof.
  induction 1 as [|c b r Hc Hr IH]; intros n Hn.
  - destruct n; reflexivity.
  - pose proof Hc as (Hne & Hx & _). rewrite TableProofs.rune_count_app, (table_rc_chunk c b Hc).
    destruct b as [|b0 bt]; [congruence|]. destruct n as [|n]; [cbn [app length] in Hn; lia|].
    change ((b0 :: bt) ++ r) with (b0 :: (bt ++ r)). cbn [SynPrintM.rune_count_fuel].
    change (b0 :: bt ++ r) with ((b0 :: bt) ++ r). rewrite (Hx r), skipn_zlen_app.
    rewrite IH; [reflexivity|]. rewrite app_length in Hn. cbn [length] in Hn. lia.
Qed.

Theorem rc_ok_runs s : uruns s -> rc_ok s.
Proof. intros H. unfold rc_ok, SynPrintM.rune_count. symmetry. now apply rc_fuel_runs. Qed.

(* ------------------------------------------------------------------ ASCII facts about the Unicode tables *)

Lemma udigit_ascii c : 48 <= c <= 57 -> udigit c = true.
Proof.
  intros H. assert (E : c = 48 \/ c = 49 \/ c = 50 \/ c = 51 \/ c = 52 \/ c = 53 \/ c = 54 \/ c = 55 \/ c = 56 \/ c = 57) by lia.
  repeat (destruct E as [->|E]; [vm_compute; reflexivity|]). subst. vm_compute. reflexivity.
Qed.

Lemma ualnum_58 : ualnum 58 = false. Proof. vm_compute. reflexivity. Qed.
Lemma ualnum_36 : ualnum 36 = false. Proof. vm_compute. reflexivity. Qed.
Lemma udigit_46 : udigit 46 = false. Proof. vm_compute. reflexivity. Qed.

Lemma cls_digits l : forallb Dec.is_digit l = true -> ucls udigit l.
Proof.
  intros H. apply (cls_ascii udec utf8_decoder_ok). rewrite forallb_forall in H. apply Forall_forall. intros b Hb.
  specialize (H b Hb). apply is_digit_range in H. split; [lia|now apply udigit_ascii].
Qed.

(* a run of letters and digits contains no colon *)
Lemma cls_alnum_no_colon s : ucls ualnum s -> ~ In 58 s.
Proof.
  induction 1 as [|c b x Hc Hp Hx IH]; [intros []|]. intros Hin. apply in_app_or in Hin. destruct Hin as [Hin|Hin]; [|tauto].
  destruct (chunk_shape c b Hc) as (b0 & bt & -> & _ & _ & Hlo & Hhi).
  destruct (Z_lt_ge_dec b0 128) as [L|G].
  - destruct (Hlo L) as (-> & ->). destruct Hin as [E|[]]. rewrite E, ualnum_58 in Hp. discriminate.
  - destruct Hin as [E|Hin]; [lia|]. specialize (Hhi ltac:(lia)). rewrite Forall_forall in Hhi. specialize (Hhi _ Hin). lia.
Qed.

(* ------------------------------------------------------------------ dates *)

Inductive digs_list : nat -> Str.str -> Prop :=
| dl_nil : digs_list 0 []
| dl_cons k b x : 48 <= b <= 57 -> digs_list k x -> digs_list (S k) (b :: x).

Lemma digs_of_list k x : digs_list k x -> RoundTripLeaf.digs udec udigit k x.
Proof.
  induction 1 as [|k b x Hb Hx IH]; [constructor|]. change (b :: x) with ([b] ++ x).
  apply (digs_S udec udigit k b [b] x); [apply (chunk_ascii udec utf8_decoder_ok); lia|now apply udigit_ascii|exact IH].
Qed.

Lemma lex_date_printed d : date_printable d -> RoundTripInv.date_ok udec udigit (format_date d).
Proof.
  intros Hy. unfold date_printable, year_of in Hy. pose proof (civil_valid d) as Hv.
  unfold format_date. destruct (civil d) as [[y m] dd]. cbn [fst] in Hy. cbn [valid_civil] in Hv.
  destruct Hv as (Hm & Hd). pose proof (dim_pos y m) as Hdim.
  unfold four_digits, two_digits. cbn [app].
  split; [|split].
  - exists [48 + y / 1000; 48 + (y / 100) mod 10; 48 + (y / 10) mod 10; 48 + y mod 10],
           [48 + m / 10; 48 + m mod 10], [48 + dd / 10; 48 + dd mod 10].
    split; [reflexivity|]. repeat split; apply digs_of_list; repeat constructor; lia.
  - rewrite (fr_ascii udec utf8_decoder_ok) by lia. lia.
  - rewrite (fr_ascii udec utf8_decoder_ok) by lia. lia.
Qed.

(* ------------------------------------------------------------------ decimals *)

Lemma lex_decimal_printed q : RoundTripLeaf.lex_decimal udec udigit (to_string q).
Proof.
  unfold to_string. destruct (to_string_gen_shape true q) as (ip & fp & v & H1 & H2 & H3 & H4 & _).
  exists (sgn q), ip, (match fp with [] => [] | _ => [46] ++ fp end). split; [exact H1|].
  split.
  { unfold sgn. destruct (coef q <? 0); [now left|right]. split; [reflexivity|].
    destruct ip as [|c ip']; [congruence|]. cbn [forallb] in H3. apply andb_prop in H3. destruct H3 as [Hc _].
    apply is_digit_range in Hc. rewrite (fr_ascii udec utf8_decoder_ok) by lia. lia. }
  split; [now apply cls_digits|]. split; [exact H2|].
  destruct fp as [|c fp']; [now left|right]. split; [exact udigit_46|].
  exists (c :: fp'). split; [reflexivity|]. split; [now apply cls_digits|discriminate].
Qed.

Lemma decimal_runs_printed q : uruns (to_string q).
Proof. eapply decimal_runs; [exact utf8_decoder_ok|apply lex_decimal_printed]. Qed.

(* ------------------------------------------------------------------ accounts *)

Definition seg_lex (s : Str.str) : Prop := ucls ualnum s /\ s <> [].
Definition com_lex (c : Str.str) : Prop := ucls ualnum c /\ c <> [].
Definition acc_lex (a : Account.account) : Prop := a <> [] /\ Forall seg_lex a /\ valid_account a = true.

Lemma join_colon_concat seg segs : Str.join [58] (seg :: segs) = seg ++ concat (map (cons 58) segs).
Proof.
  revert seg. induction segs as [|s segs IH]; intros seg; [cbn; now rewrite app_nil_r|].
  change (Str.join [58] (seg :: s :: segs)) with (seg ++ [58] ++ Str.join [58] (s :: segs)).
  rewrite IH. cbn [map concat app]. reflexivity.
Qed.

Lemma lex_account_printed a : acc_lex a -> RoundTripInv.LexAcc udec uletter udigit (sem_acc_of a).
Proof.
  intros (Hne & Hseg & _). unfold RoundTripInv.LexAcc, sem_acc_of. cbn [fst snd RoundTripLeaf.lex_account].
  destruct a as [|seg segs]; [congruence|]. inversion Hseg as [|? ? Hs Hss]; subst.
  unfold acc_name, colon. rewrite join_colon_concat. split.
  - destruct Hs as (Hc & Hn). destruct Hc as [|c b x Hch Hp Hx]; [congruence|].
    rewrite <- !app_assoc, (fr_chunk udec c b _ Hch). intros ->. rewrite ualnum_36 in Hp. discriminate.
  - exists seg, segs. split; [reflexivity|]. split; [exact Hs|]. split; [exact Hss|]. intros _. exact ualnum_58.
Qed.

Lemma acc_printable_lex a : acc_lex a -> acc_printable a.
Proof.
  intros (Hne & Hseg & Hv). split; [exact Hne|]. split; [|exact Hv].
  eapply Forall_impl; [|exact Hseg]. intros s (Hs & _). unfold PrintProofs.seg_ok, colon. now apply cls_alnum_no_colon.
Qed.

Lemma acc_runs_lex a : acc_lex a -> uruns (acc_name a).
Proof. intros H. eapply account_runs; [exact utf8_decoder_ok|exact (lex_account_printed a H)]. Qed.

(* ------------------------------------------------------------------ directives *)

Definition posting_lex (p : posting) : Prop := acc_lex (p_acc p) /\ acc_lex (p_other p) /\ com_lex (p_com p).

Definition mdir_lex (d : Ledger.directive) : Prop :=
  match d with
  | DPrice dt c _ t => date_printable dt /\ com_lex c /\ com_lex t
  | DOpen dt a => date_printable dt /\ acc_lex a
  | DClose dt a => date_printable dt /\ acc_lex a
  | DAssert dt bs => date_printable dt /\ bs <> [] /\ Forall (fun b => acc_lex (bal_acc b) /\ com_lex (bal_com b)) bs
  | DTxn t =>
    date_printable (t_date t) /\ ucls RoundTripLeaf.notquote (t_desc t) /\ odd_postings (t_postings t) <> [] /\
    Forall posting_lex (odd_postings (t_postings t)) /\
    match t_targets t with Some ts => Forall com_lex ts | None => True end
  end.

Theorem lex_mdir d : mdir_lex d -> RoundTripInv.LexDir udec uletter udigit (sem_of_mdir d).
Proof.
  destruct d as [dt c p t|dt a|dt a|dt bs|t]; cbn [mdir_lex sem_of_mdir RoundTripInv.LexDir].
  - intros (Hd & Hc & Ht). split; [now apply lex_date_printed|]. split; [exact Hc|]. split; [apply lex_decimal_printed|exact Ht].
  - intros (Hd & Ha). split; [now apply lex_date_printed|now apply lex_account_printed].
  - intros (Hd & Ha). split; [now apply lex_date_printed|now apply lex_account_printed].
  - intros (Hd & Hne & Hb). split; [now apply lex_date_printed|]. split; [destruct bs; [congruence|discriminate]|].
    apply Forall_forall. intros x Hx. apply in_map_iff in Hx. destruct Hx as (b & <- & Hb').
    rewrite Forall_forall in Hb. destruct (Hb b Hb') as (Ha & Hc).
    unfold RoundTripInv.LexBal, sem_balance_of. cbn [fst snd].
    split; [now apply lex_account_printed|]. split; [apply lex_decimal_printed|exact Hc].
  - intros (Hd & Hq & Hne & Hp & Ht). split; [now apply lex_date_printed|]. split; [exact Hq|].
    split; [destruct (odd_postings (t_postings t)); [congruence|discriminate]|].
    split; [|split; [exact Ht|exact I]].
    apply Forall_forall. intros x Hx. apply in_map_iff in Hx. destruct Hx as (p & <- & Hp').
    rewrite Forall_forall in Hp. destruct (Hp p Hp') as (Ha & Ho & Hc).
    unfold RoundTripInv.LexBooking, sem_booking_of. cbn [sb_credit sb_debit sb_quantity sb_commodity].
    split; [now apply lex_account_printed|]. split; [now apply lex_account_printed|]. split; [apply lex_decimal_printed|exact Hc].
Qed.

Theorem rc_mdir d : mdir_lex d -> mdir_rc d.
Proof.
  destruct d as [dt c p t|dt a|dt a|dt bs|t]; cbn [mdir_lex mdir_rc]; try (intros; exact I).
  intros (_ & _ & _ & Hp & _). eapply Forall_impl; [|exact Hp]. intros p (Ha & Ho & _).
  split; [apply rc_ok_runs, acc_runs_lex, Ho|]. split; [apply rc_ok_runs, acc_runs_lex, Ha|apply rc_ok_runs, decimal_runs_printed].
Qed.

Theorem printable_mdir d : mdir_lex d -> mdir_printable d.
Proof.
  destruct d as [dt c p t|dt a|dt a|dt bs|t]; cbn [mdir_lex mdir_printable].
  - intros (Hd & _). exact Hd.
  - intros (Hd & Ha). split; [exact Hd|now apply acc_printable_lex].
  - intros (Hd & Ha). split; [exact Hd|now apply acc_printable_lex].
  - intros (Hd & _ & Hb). split; [exact Hd|]. eapply Forall_impl; [|exact Hb]. intros b (Ha & _). now apply acc_printable_lex.
  - intros (Hd & _ & _ & Hp & _). split; [exact Hd|]. eapply Forall_impl; [|exact Hp].
    intros p (Ha & Ho & _). split; now apply acc_printable_lex.
Qed.
