(* `knut register` against `knut balance`: the rows of the register with date [col], Dest account
   [row] and commodity [c] -- over all sources and descriptions -- show amounts that sum to the
   amount the balance report stores for account [row], commodity [c] under the period end [col]
   (the cell `balance --diff --close=false` prints), for the same window, valuation, mapping and
   remap, with register's --dest / --commodity filters equal to balance's --account / --commodity
   and no --source filter.

   Why: every booking is a pair of postings (p, p') with p booked on the account p' names as the
   other side, equal commodity and opposite amounts (Proofs/PairAccounts.v).  The register files
   posting p under p's OTHER account and shows the negated amount; the balance files p' under p''s
   own account.  Both commands hand the same postings to their collection (Sort only permutes the
   transactions of a day; the checker does not change the days). *)
From Coq Require Import ZArith QArith List Bool Lia Permutation.
From Knut Require Import Model.Str Model.Dec Model.Date Model.Account Model.Ledger Model.Price Model.Journal
     Model.Check Model.Pipeline Model.Table Model.Report Model.Cli Model.Loader Model.CliSafe Model.Register
     Spec.LedgerSpec Spec.WellformedSpec
     Proofs.DecProofs Proofs.DecValue Proofs.StrProofs Proofs.SMapProofs Proofs.ReportSum Proofs.Conservation
     Proofs.LedgerProofs Proofs.PairAccounts Proofs.OrderProofs Proofs.OrderStages Proofs.OrderPipeline Proofs.OrderCmd
     Proofs.CheckPerm Proofs.NoPanic Proofs.RegisterOrder.
Import ListNotations.
Open Scope bool_scope.
Open Scope Q_scope.

(* ------------------------------------------------------------------ sums over a sorted association list *)

Section VSum.
  Context {V : Type} (f : V -> Q).

  Definition vsum (m : smap V) : Q := qsum (fun kv => f (snd kv)) m.

  Lemma sorted_lt_get_none (m : smap V) k k0 v0 :
    sorted ((k0, v0) :: m) -> str_cmp k k0 = Lt -> sm_get ((k0, v0) :: m) k = None.
  Proof.
    intros Hs E. apply sm_get_none. cbn [keys map fst]. intros [H|H].
    - subst k0. rewrite str_cmp_refl in E. discriminate.
    - inversion Hs as [|? ? ? _ Hlt]; subst. specialize (Hlt k H).
      pose proof (str_cmp_lt_trans _ _ _ E Hlt) as C. rewrite str_cmp_refl in C. discriminate.
  Qed.

  Lemma vsum_put (m : smap V) k v :
    sorted m ->
    vsum (sm_put m k v) == vsum m - (match sm_get m k with Some o => f o | None => 0 end) + f v.
  Proof.
    induction 1 as [|k0 v0 m Hs IH Hlt].
    - cbn. ring.
    - assert (Hs0 : sorted ((k0, v0) :: m)) by (constructor; assumption).
      cbn [sm_put]. destruct (str_cmp k k0) eqn:E.
      + apply str_cmp_eq in E. subst k0. cbn [sm_get]. rewrite str_eqb_refl.
        unfold vsum, qsum. cbn [fold_right snd]. ring.
      + rewrite (sorted_lt_get_none m k k0 v0 Hs0 E).
        unfold vsum, qsum. cbn [fold_right snd]. ring.
      + cbn [sm_get]. assert (Hne : str_eqb k k0 = false).
        { unfold str_eqb. rewrite E. reflexivity. }
        rewrite Hne. unfold vsum, qsum in *. cbn [fold_right snd]. rewrite IH. ring.
  Qed.
End VSum.

(* ------------------------------------------------------------------ the rows of one (date, Dest, commodity) *)

Definition reg_match (col : Z) (row : account) (c : commodity) (k : Register.rkey) : bool :=
  (rk_date k =? col)%Z
  && (match rk_other k with Some a => acc_eqb a row | None => false end)
  && (match rk_com k with Some c' => str_eqb c' c | None => false end).

(* what the Amount column shows for an entry: the negated stored amount *)
Definition shown (col : Z) (row : account) (c : commodity) (kv : Register.rkey * dec) : Q :=
  if reg_match col row c (fst kv) then dvalue (neg (snd kv)) else 0.

Definition reg_rows_total (r : reg_report) (col : Z) (row : account) (c : commodity) : Q :=
  vsum (shown col row c) r.

Definition reg_sorted (r : reg_report) : Prop :=
  sorted r /\ forall k x, In (k, x) r -> k = rk_enc (fst x).

Lemma reg_sorted_new : reg_sorted new_reg_report.
Proof. split; [constructor|intros k x []]. Qed.

Lemma reg_add_sorted r k v : reg_sorted r -> reg_sorted (reg_add r k v).
Proof.
  intros [Hs Hk]. split; [apply sorted_put; exact Hs|].
  intros k0 x Hin. unfold reg_add in Hin. apply sm_put_in in Hin. destruct Hin as [E|Hin].
  - inversion E; subst. reflexivity.
  - eapply Hk. exact Hin.
Qed.

Lemma reg_rows_total_add r k v col row c :
  reg_sorted r ->
  reg_rows_total (reg_add r k v) col row c ==
  reg_rows_total r col row c + (if reg_match col row c k then - dvalue v else 0).
Proof.
  intros [Hs Hk]. unfold reg_rows_total, reg_add. rewrite (vsum_put _ r (rk_enc k) _ Hs).
  unfold reg_get. destruct (sm_get r (rk_enc k)) as [[k0 q]|] eqn:E.
  - assert (k0 = k).
    { apply sm_get_in in E. specialize (Hk _ _ E). cbn [fst] in Hk. symmetry. apply rk_enc_inj. exact Hk. }
    subst k0. unfold shown. cbn [fst snd]. destruct (reg_match col row c k); [|ring].
    rewrite !dvalue_neg, dvalue_add. ring.
  - unfold shown. cbn [fst snd]. destruct (reg_match col row c k); [|ring].
    rewrite dvalue_neg, dvalue_add.
    assert (Z0 : dvalue dec_nil == 0) by (unfold dvalue, dec_nil; cbn; ring).
    rewrite Z0. ring.
Qed.

(* ------------------------------------------------------------------ Query.Into(register report) as a sum over postings *)

Definition rq_contrib (q : reg_query) (col : Z) (row : account) (c : commodity) (dp : Z * posting) : Q :=
  let '(d, p) := dp in
  if rq_where q p then
    match rq_other q (p_other p) with
    | ShPanic => 0
    | o =>
      if reg_match col row c (mkRKey (rq_date q d) (rq_account q (p_acc p))
                                     (match o with ShAcc a => Some a | _ => None end)
                                     (rq_com q (p_com p)) (rq_desc q [])) (* description: irrelevant, see below *)
      then - dvalue (if rq_valued q then p_val p else p_qty p) else 0
    end
  else 0.

Lemma reg_match_desc col row c d a o cm s s' :
  reg_match col row c (mkRKey d a o cm s) = reg_match col row c (mkRKey d a o cm s').
Proof. reflexivity. Qed.

Section RegQueryFold.
  Variable q : reg_query.
  Variable col : Z.
  Variable row : account.
  Variable c : commodity.

  Let total r := reg_rows_total r col row c.

  Lemma reg_query_posting_sum r t p r' p' :
    reg_sorted r -> reg_query_posting q r t p = ROk (r', p') ->
    p' = p /\ reg_sorted r' /\ total r' == total r + rq_contrib q col row c (t_date t, p).
  Proof.
    intros Hs H. unfold reg_query_posting in H. unfold rq_contrib.
    destruct (rq_where q p); [|inversion H; subst; split; [reflexivity|split; [assumption|ring]]].
    destruct (rq_other q (p_other p)) as [a| |] eqn:E; try discriminate; inversion H; subst r' p'; clear H.
    - split; [reflexivity|]. split; [apply reg_add_sorted; exact Hs|].
      unfold total. rewrite reg_rows_total_add by exact Hs.
      rewrite (reg_match_desc col row c _ _ _ _ (rq_desc q (t_desc t)) (rq_desc q [])). reflexivity.
    - split; [reflexivity|]. split; [apply reg_add_sorted; exact Hs|].
      unfold total. rewrite reg_rows_total_add by exact Hs.
      rewrite (reg_match_desc col row c _ _ _ _ (rq_desc q (t_desc t)) (rq_desc q [])). reflexivity.
  Qed.

  Lemma reg_query_postings_sum t : forall ps r r' ps',
    reg_sorted r -> fold_postings (reg_query_posting q) t r ps = ROk (r', ps') ->
    ps' = ps /\ reg_sorted r' /\ total r' == total r + qsum (rq_contrib q col row c) (map (fun p => (t_date t, p)) ps).
  Proof.
    induction ps as [|p ps IH]; intros r r' ps' Hs H; cbn [fold_postings] in H.
    - inversion H; subst. split; [reflexivity|split; [assumption|]]. cbn. ring.
    - destruct (reg_query_posting q r t p) as [[r1 p1]| |] eqn:E1; try discriminate. cbn [rbind fst snd] in H.
      destruct (fold_postings (reg_query_posting q) t r1 ps) as [[r2 ps2]| |] eqn:E2; try discriminate.
      cbn [rbind fst snd] in H. inversion H; subst r' ps'. clear H.
      destruct (reg_query_posting_sum _ _ _ _ _ Hs E1) as (-> & Hs1 & Hc1).
      destruct (IH _ _ _ Hs1 E2) as (-> & Hs2 & Hc2).
      split; [reflexivity|split; [assumption|]]. cbn [map]. unfold qsum in *. cbn [fold_right]. rewrite Hc2, Hc1. ring.
  Qed.

  Lemma reg_query_txns_sum : forall ts r r' ts',
    reg_sorted r -> fold_txns (reg_query_proc q) r ts = ROk (r', ts') ->
    ts' = ts /\ reg_sorted r' /\
    total r' == total r + qsum (rq_contrib q col row c) (concat (map (fun t => map (fun p => (t_date t, p)) (t_postings t)) ts)).
  Proof.
    induction ts as [|t ts IH]; intros r r' ts' Hs H; cbn [fold_txns] in H.
    - inversion H; subst. split; [reflexivity|split; [assumption|]]. cbn. ring.
    - cbn [reg_query_proc pr_txn pr_posting rbind] in H.
      destruct (fold_postings (reg_query_posting q) t r (t_postings t)) as [[r1 ps1]| |] eqn:E1; try discriminate.
      cbn [rbind fst snd] in H.
      destruct (reg_query_postings_sum t _ _ _ _ Hs E1) as (-> & Hs1 & Hc1).
      destruct (fold_txns (reg_query_proc q) r1 ts) as [[r2 ts2]| |] eqn:E2; try discriminate.
      cbn [rbind fst snd] in H. inversion H; subst r' ts'. clear H.
      destruct (IH _ _ _ Hs1 E2) as (-> & Hs2 & Hc2).
      split; [rewrite txn_rebuild; reflexivity|split; [assumption|]].
      cbn [map concat]. rewrite qsum_app, Hc2, Hc1. ring.
  Qed.

  Lemma reg_query_day_sum r d r' d' :
    reg_sorted r -> process_day (reg_query_proc q) r d = ROk (r', d') ->
    reg_sorted r' /\ total r' == total r + qsum (rq_contrib q col row c) (day_postings d).
  Proof.
    intros Hs H. unfold process_day in H.
    cbn [reg_query_proc pr_day_start pr_price pr_open pr_balance pr_close pr_day_end rbind fst snd] in H.
    destruct (fold_txns (reg_query_proc q) r (d_txns d)) as [[r1 ts1]| |] eqn:E1; try discriminate.
    cbn [rbind fst snd] in H.
    destruct (reg_query_txns_sum _ _ _ _ Hs E1) as (-> & Hs1 & Hc1).
    rewrite fold_asserts_none in H by reflexivity. cbn [rbind] in H. inversion H; subst r' d'.
    split; [assumption|exact Hc1].
  Qed.

  Lemma reg_query_days_sum : forall ds r r' ds',
    reg_sorted r -> process_days (reg_query_proc q) r ds = ROk (r', ds') ->
    reg_sorted r' /\ total r' == total r + qsum (rq_contrib q col row c) (days_postings ds).
  Proof.
    induction ds as [|d ds IH]; intros r r' ds' Hs H; cbn [process_days] in H.
    - inversion H; subst. split; [assumption|]. cbn. ring.
    - destruct (process_day (reg_query_proc q) r d) as [[r1 d1]| |] eqn:E1; try discriminate.
      cbn [rbind fst snd] in H.
      destruct (reg_query_day_sum _ _ _ _ Hs E1) as (Hs1 & Hc1).
      destruct (process_days (reg_query_proc q) r1 ds) as [[r2 ds2]| |] eqn:E2; try discriminate.
      cbn [rbind fst snd] in H. inversion H; subst r' ds'. clear H.
      destruct (IH _ _ _ Hs1 E2) as (Hs2 & Hc2).
      split; [assumption|]. unfold days_postings. cbn [map concat]. rewrite qsum_app.
      unfold days_postings in Hc2. rewrite Hc2, Hc1. ring.
  Qed.
End RegQueryFold.

(* ------------------------------------------------------------------ the two queries on a pair of postings *)

(* the configurations agree: same window, valuation, checker, mapping, remap; register's --dest and
   --commodity are balance's --account and --commodity; no --source; commodities are kept in the keys
   (-c, or no valuation); balance without --close *)
Record cfgs_agree (rc : register_cfg) (bc : balance_cfg) : Prop := mkAgree {
  ag_from : rg_from rc = bc_from bc;
  ag_to : rg_to rc = bc_to bc;
  ag_interval : rg_interval rc = bc_interval bc;
  ag_last : rg_last rc = bc_last bc;
  ag_valuation : rg_valuation rc = bc_valuation bc;
  ag_lenient : rg_lenient rc = bc_lenient bc;
  ag_mapping : rg_mapping rc = bc_mapping bc;
  ag_remap : rg_remap rc = bc_remap bc;
  ag_sources : rg_sources rc = [];
  ag_dests : rg_dests rc = bc_accounts bc;
  ag_commodities : rg_commodities rc = bc_commodities bc;
  ag_comms : rg_comms rc = true;
  ag_close : bc_close bc = false }.

Lemma dvalue_nil : dvalue dec_nil == 0.
Proof. unfold dvalue, dec_nil. cbn. ring. Qed.

Section Pairing.
  Variables (rc : register_cfg) (bc : balance_cfg) (part : partition).
  Hypothesis AG : cfgs_agree rc bc.
  Variables (col : Z) (row : account) (c : commodity).
  Hypothesis Hcol : col <> 0%Z.

  Let qb := balance_query bc part.
  Let qr := register_query rc part.
  Let k : Report.rkey := (Some col, Some c).

  Lemma date_match d : (align_z part d =? col)%Z = oz_eqb (Date.align part d) (Some col).
  Proof.
    unfold align_z. destruct (Date.align part d) as [x|]; cbn [oz_eqb]; [reflexivity|].
    apply Z.eqb_neq. auto.
  Qed.

  (* the register's contribution of p = the balance's contribution of its partner p' *)
  Lemma pair_contrib d p p' :
    pair2_ok p p' -> rq_contrib qr col row c (d, p) == q_contrib qb row k (d, p').
  Proof.
    intros (Hc & Hq & Hv & Ha & Ho).
    unfold rq_contrib, q_contrib, qr, qb, register_query, balance_query.
    cbn [rq_where rq_other rq_account rq_com rq_desc rq_date rq_valued q_where q_account q_date q_valued].
    destruct AG as [_ _ _ _ Eval _ Emap Eremap Esrc Edst Ecom Ecomms _].
    rewrite Esrc, Edst, Ecom, Emap, Eremap, Ecomms, Eval, Ho, Hc. cbn [rxs_or_all andb].
    assert (W : rxs_or_all (bc_accounts bc) (acc_name (p_acc p')) && rxs_or_all (bc_commodities bc) (p_com p') =
                (match bc_accounts bc with [] => true | rs => rxs_match rs (acc_name (p_acc p')) end)
                && (match bc_commodities bc with [] => true | rs => rxs_match rs (p_com p') end))
      by (unfold rxs_or_all; destruct (bc_accounts bc), (bc_commodities bc); reflexivity).
    rewrite W. clear W.
    destruct ((match bc_accounts bc with [] => true | rs => rxs_match rs (acc_name (p_acc p')) end)
              && (match bc_commodities bc with [] => true | rs => rxs_match rs (p_com p') end)); [|reflexivity].
    destruct (shorten (bc_mapping bc) (remap (bc_remap bc) (p_acc p'))) as [a| |]; try reflexivity.
    - unfold reg_match, delta_at, contrib, idk, k, rkey_eqb. cbn [rk_date rk_other rk_com fst snd ocom_eqb].
      rewrite date_match.
      destruct (acc_eqb a row); [|rewrite andb_false_r; reflexivity]. rewrite andb_true_r.
      destruct (oz_eqb (Date.align part d) (Some col)); cbn [andb]; [|reflexivity].
      destruct (str_eqb (p_com p') c); [|reflexivity].
      destruct (bc_valuation bc); [rewrite Hv|rewrite Hq]; rewrite dvalue_neg; ring.
    - unfold reg_match. cbn [rk_other]. rewrite andb_false_r. reflexivity.
  Qed.

  Lemma paired_contribs d ps :
    paired2 ps ->
    qsum (rq_contrib qr col row c) (map (fun p => (d, p)) ps) == q_total qb row k (map (fun p => (d, p)) ps).
  Proof.
    induction 1 as [|p p' rest Hp Hrest IH]; [reflexivity|].
    cbn [map]. unfold qsum, q_total in *. cbn [fold_right].
    rewrite IH. rewrite (pair_contrib d p p' Hp).
    assert (Hp' : pair2_ok p' p).
    { destruct Hp as (H1 & H2 & H3 & H4 & H5). repeat split; try (symmetry; assumption).
      - rewrite H2, neg_involutive. reflexivity.
      - rewrite H3, neg_involutive. reflexivity. }
    rewrite (pair_contrib d p' p Hp'). ring.
  Qed.

  Lemma days_contribs ds :
    Forall day2_ok ds ->
    qsum (rq_contrib qr col row c) (days_postings ds) == q_total qb row k (days_postings ds).
  Proof.
    induction 1 as [|d ds Hd _ IH]; [reflexivity|].
    unfold days_postings in *. cbn [map concat]. rewrite qsum_app, q_total_app, IH.
    apply Qplus_comp; [|reflexivity].
    unfold day_postings. unfold day2_ok in Hd.
    induction Hd as [|t ts Ht _ IHt]; [reflexivity|].
    cbn [map concat]. rewrite qsum_app, q_total_app, IHt. apply Qplus_comp; [|reflexivity].
    apply paired_contribs. exact Ht.
  Qed.
End Pairing.

(* ------------------------------------------------------------------ the days the two commands hand to Query.Into *)

Lemma sort_stage_equiv l : forall (s s' : unit) l',
  process_days sort_proc s l = ROk (s', l') -> Forall2 day_equiv l l'.
Proof.
  induction l as [|d l IH]; intros s s' l' H; cbn [process_days] in H.
  - inversion H; subst. constructor.
  - destruct (process_day sort_proc s d) as [[s1 d1]| |] eqn:E; cbn [rbind fst snd] in H; try discriminate.
    destruct (process_days sort_proc s1 l) as [[s2 r]| |] eqn:E2; cbn [rbind fst snd] in H; try discriminate.
    inversion H; subst. constructor; [|eapply IH; exact E2].
    unfold process_day in E. cbn [sort_proc pr_day_start pr_price pr_open pr_txn pr_posting pr_balance pr_close pr_day_end] in E.
    cbn [rbind fst snd] in E.
    rewrite fold_txns_none in E by reflexivity. cbn [rbind fst snd] in E.
    rewrite fold_asserts_none in E by reflexivity. cbn [rbind] in E. rewrite day_eta in E.
    inversion E; subst. apply set_txns_equiv; [apply day_equiv_refl|].
    apply Permutation_sym. apply sort_by_perm.
Qed.

Lemma day_postings_perm d1 d2 : Permutation (d_txns d1) (d_txns d2) -> Permutation (day_postings d1) (day_postings d2).
Proof.
  intros P. unfold day_postings. rewrite <- !flat_map_concat_map. apply perm_flat_map. exact P.
Qed.

Lemma days_postings_perm l1 l2 : Forall2 day_equiv l1 l2 -> Permutation (days_postings l1) (days_postings l2).
Proof.
  induction 1 as [|d1 d2 l1 l2 Hd _ IH]; [constructor|].
  unfold days_postings in *. cbn [map concat]. apply Permutation_app; [|exact IH].
  apply day_postings_perm. apply Hd.
Qed.

Lemma filter_days_ok sp ds : Forall day2_ok ds ->
  Forall day2_ok (map (fun d => if period_contains sp (d_date d) then d else set_txns d []) ds).
Proof.
  induction 1 as [|d ds Hd _ IH]; cbn [map]; constructor; [|exact IH].
  destruct (period_contains sp (d_date d)); [exact Hd|constructor].
Qed.

Lemma Forall2_refl_in {A} (R : A -> A -> Prop) (P : A -> Prop) l :
  (forall a, P a -> R a a) -> Forall P l -> Forall2 R l l.
Proof. intros H. induction 1; constructor; auto. Qed.

Lemma partitions_agree rc bc b p1 p2 :
  cfgs_agree rc bc -> rg_partition rc b = COk p1 -> cfg_partition bc b = COk p2 -> p1 = p2.
Proof.
  intros AG H1 H2. destruct AG as [E1 E2 E3 E4 _ _ _ _ _ _ _ _ _].
  unfold rg_partition, cfg_partition_safe, cfg_partition in *.
  cbn [bc_from bc_to bc_interval bc_last] in H1. rewrite E1, E2, E3, E4 in H1.
  destruct (p_start _ =? 0)%Z; [discriminate|].
  destruct (new_partition _ _ _); try discriminate. congruence.
Qed.

(* ------------------------------------------------------------------ the theorem *)

Theorem register_matches_balance rc bc ds rr rb part :
  cfgs_agree rc bc -> sd_syntactic ds -> no_conflicting_prices ds ->
  register_report rc ds = COk rr -> balance_report bc ds = COk (rb, part) ->
  forall row c col, col <> 0%Z ->
    reg_rows_total rr col row c == rcell row (Some col, Some c) rb.
Proof.
  intros AG Hsyn Hnc Hr Hb row c col Hcol.
  pose proof AG as [_ _ _ _ Eval Elen _ _ _ _ _ _ Eclose].
  (* ---- balance *)
  unfold balance_report in Hb. rewrite Eclose in Hb.
  destruct (match bc_valuation bc with Some v => if valid_commodity v then COk tt else CErr k_valuation v | None => COk tt end)
    as [[]| |] eqn:Eflag; cbn [cbind] in Hb; try discriminate.
  unfold Cli.load in Hb. destruct (parse_directives ds) as [dl| |] eqn:Ep; cbn [cbind of_mresult] in Hb; try discriminate.
  destruct (cfg_partition bc (builder_of dl)) as [part0| |] eqn:Epart; cbn [cbind] in Hb; try discriminate.
  unfold run_stage in Hb.
  set (L0 := b_days (builder_of dl)) in *.
  destruct (process_days (check_proc_current (bc_lenient bc)) check_init L0) as [[s1 d1]| |] eqn:E1;
    cbn [cbind of_presult fst snd] in Hb; try discriminate.
  pose proof (check_current_stage_id _ _ _ _ _ E1) as ->.
  (* ---- register *)
  unfold register_report, register_with in Hr.
  destruct (register_flags rc) as [[]| |] eqn:Erf; cbn [cbind] in Hr; try discriminate.
  rewrite load_safe_eq, Ep in Hr. cbn [depanic of_mresult cbind] in Hr.
  unfold register_report_of in Hr.
  destruct (register_days_of rc (builder_of dl)) as [[lr partr]| |] eqn:Erd; cbn [cbind fst snd] in Hr; try discriminate.
  unfold run_stage in Hr.
  destruct (process_days (reg_query_proc (register_query rc partr)) new_reg_report lr) as [[rr' lr']| |] eqn:Erq;
    cbn [cbind of_presult fst] in Hr; try discriminate.
  inversion Hr; subst rr'. clear Hr.
  unfold register_days_of in Erd.
  destruct (rg_partition rc (builder_of dl)) as [partr0| |] eqn:Epr; cbn [cbind] in Erd; try discriminate.
  pose proof (partitions_agree rc bc _ _ _ AG Epr Epart) as ->.
  unfold run_stage in Erd. fold L0 in Erd.
  destruct (process_days sort_proc tt L0) as [[s0 L0']| |] eqn:Es; cbn [cbind of_presult fst snd] in Erd; try discriminate.
  (* facts about the builder's days *)
  assert (Hacc : Forall day_accs_ok L0) by (apply builder_accs_ok; apply Hsyn; exact Ep).
  assert (Hpc : Forall (fun x => prices_consistent (d_prices x)) L0) by (eapply builder_prices_consistent; eassumption).
  assert (Hok0 : Forall day2_ok L0) by (apply builder_of_ok; eapply parse_directives_ok; exact Ep).
  assert (H00 : Forall2 DIok L0 L0').
  { apply Forall2_DIok_join; [eapply sort_stage_equiv; exact Es|exact Hacc]. }
  (* ---- the days both sides hand to their collection *)
  assert (Hdays : exists lb, Forall2 day_equiv lb lr /\ Forall day2_ok lb /\ partr = part0 /\
            process_days (query_proc (balance_query bc part0) report_insert) new_report lb = ROk (rb, lb) /\ part0 = part).
  { rewrite <- Eval in Hb. destruct (rg_valuation rc) as [v|] eqn:Ev.
    - (* valued *)
      destruct (process_days (compute_prices_proc v) (mkCp [] None) L0) as [[c1 L1b]| |] eqn:Ecb;
        cbn [cbind of_presult fst snd] in Hb; try discriminate.
      destruct (process_days (valuate_proc v) (mkVal None None []) L1b) as [[c2 L2b]| |] eqn:Evb;
        cbn [cbind of_presult fst snd] in Hb; try discriminate.
      destruct (process_days (filter_proc (span part0)) tt L2b) as [[c3 L3b]| |] eqn:Efb;
        cbn [cbind of_presult fst snd] in Hb; try discriminate.
      destruct (process_days (query_proc (balance_query bc part0) report_insert) new_report L3b) as [[r6 d6]| |] eqn:Eqb;
        cbn [cbind of_presult fst snd] in Hb; try discriminate.
      injection Hb as Hr6 Hp0. subst r6 part0.
      destruct (process_days (compute_prices_proc v) (mkCp [] None) L0') as [[c1' L1r]| |] eqn:Ecr;
        cbn [cbind of_presult fst snd] in Erd; try discriminate.
      destruct (process_days (check_proc_current (rg_lenient rc)) check_init L1r) as [[c4 L1r']| |] eqn:Ekr;
        cbn [cbind of_presult fst snd] in Erd; try discriminate.
      pose proof (check_current_stage_id _ _ _ _ _ Ekr) as ->.
      destruct (process_days (valuate_proc v) (mkVal None None []) L1r) as [[c2' L2r]| |] eqn:Evr;
        cbn [cbind of_presult fst snd] in Erd; try discriminate.
      destruct (process_days (filter_proc (span part)) tt L2r) as [[c3' L3r]| |] eqn:Efr;
        cbn [cbind of_presult fst snd] in Erd; try discriminate.
      inversion Erd; subst lr partr. clear Erd.
      (* stage by stage *)
      pose proof (cp_stage_rel v (mkCp [] None) L0 L0' (Forall2_and_l _ _ _ _ H00 Hpc)) as R1.
      rewrite Ecb, Ecr in R1. cbn [req fst snd] in R1. destruct R1 as [_ R1].
      pose proof (val_stage_rel v (mkVal None None []) L1b L1r (fun k0 a0 c0 q0 (H : In _ []) => match H with end) R1) as R2.
      rewrite Evb, Evr in R2. cbn [req fst snd] in R2. destruct R2 as [_ R2].
      pose proof (filter_stage_rel (span part) tt L2b L2r R2) as R3.
      rewrite Efb, Efr in R3. cbn [req fst snd] in R3. destruct R3 as [_ R3].
      exists L3b. split; [apply Forall2_DIok_equiv; exact R3|].
      split.
      { rewrite (filter_stage_spec _ _ _ _ _ Efb). apply filter_days_ok.
        eapply valuate_stage_ok; [|exact Evb]. eapply prices_stage_ok; [|exact Ecb]. exact Hok0. }
      split; [reflexivity|]. split; [|reflexivity].
      destruct (query_days (balance_query bc part) row (Some col, Some c) _ _ _ _ wf_new_report Eqb) as (-> & _). exact Eqb.
    - (* not valued *)
      cbn [cbind snd] in Hb.
      destruct (process_days (filter_proc (span part0)) tt L0) as [[c3 L3b]| |] eqn:Efb;
        cbn [cbind of_presult fst snd] in Hb; try discriminate.
      destruct (process_days (query_proc (balance_query bc part0) report_insert) new_report L3b) as [[r6 d6]| |] eqn:Eqb;
        cbn [cbind of_presult fst snd] in Hb; try discriminate.
      injection Hb as Hr6 Hp0. subst r6 part0.
      cbn [cbind snd] in Erd.
      destruct (process_days (check_proc_current (rg_lenient rc)) check_init L0') as [[c4 L1r']| |] eqn:Ekr;
        cbn [cbind of_presult fst snd] in Erd; try discriminate.
      pose proof (check_current_stage_id _ _ _ _ _ Ekr) as ->.
      destruct (process_days (filter_proc (span part)) tt L0') as [[c3' L3r]| |] eqn:Efr;
        cbn [cbind of_presult fst snd] in Erd; try discriminate.
      inversion Erd; subst lr partr. clear Erd.
      pose proof (filter_stage_rel (span part) tt L0 L0' H00) as R3.
      rewrite Efb, Efr in R3. cbn [req fst snd] in R3. destruct R3 as [_ R3].
      exists L3b. split; [apply Forall2_DIok_equiv; exact R3|].
      split; [rewrite (filter_stage_spec _ _ _ _ _ Efb); apply filter_days_ok; exact Hok0|].
      split; [reflexivity|]. split; [|reflexivity].
      destruct (query_days (balance_query bc part) row (Some col, Some c) _ _ _ _ wf_new_report Eqb) as (-> & _). exact Eqb. }
  destruct Hdays as (lb & Heq & Hok & -> & Eqb & ->).
  (* ---- both sums *)
  destruct (query_days (balance_query bc part) row (Some col, Some c) _ _ _ _ wf_new_report Eqb) as (_ & _ & Hcell).
  rewrite Hcell, rcell_new, Qplus_0_l.
  destruct (reg_query_days_sum (register_query rc part) col row c _ _ _ _ reg_sorted_new Erq) as (_ & Hsum).
  rewrite Hsum.
  assert (Z0 : reg_rows_total new_reg_report col row c == 0) by reflexivity.
  rewrite Z0, Qplus_0_l.
  rewrite <- (qsum_perm _ _ _ (days_postings_perm _ _ Heq)).
  apply (days_contribs rc bc part AG col row c Hcol). exact Hok.
Qed.
