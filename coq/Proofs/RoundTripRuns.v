(* C08 round trip, part 6: the file level without a scanner.
   [FL]: the structure of (gaps, meanings) of a parsed file as parseFile's loop sees it --
   comment lines, blank lines, directives followed by the blank rest of their line -- with every
   directive's meaning in LexDir.  A rendered FL text is valid UTF-8 ([FL_runs]).
   [dranges]/[gaps_of_dranges]: directive ranges laid out like the woven text give back the
   gaps.                                                                                       *)
From Coq Require Import ZArith List Bool Lia ZifyBool.
From Knut Require Import Model.Bytes Model.Utf8 Model.Scanner Model.Parser Model.SynPrinter Spec.SyntaxSpec
  Proofs.ScannerProofs Proofs.ParserProofs Spec.FormatSpec Model.SynRender
  Proofs.RoundTripBase Proofs.RoundTripLeaf Proofs.RoundTripInv.
Import ListNotations.
Open Scope bool_scope.
Open Scope Z_scope.

Inductive mode := MHead | MNL.

Lemma some_inj0 {A} (a b : A) : Some a = Some b -> a = b.
Proof. congruence. Qed.

Lemma weave_cons g gs ps :
  weave (g :: gs) ps = g ++ match ps with [] => [] | p :: ps' => p ++ weave gs ps' end.
Proof. reflexivity. Qed.

Lemma weave_shift W g gs ps : weave ((W ++ g) :: gs) ps = W ++ weave (g :: gs) ps.
Proof. rewrite !weave_cons. now rewrite app_assoc. Qed.

Section FL.
Variable dec : str -> Z * Z.
Variables letter digit : Z -> bool.
Hypothesis Hdec : decoder_ok dec.

Notation cls := (cls dec).
Notation runs := (runs dec).
Notation wsl := (wsl dec).
Notation LexDir := (LexDir dec letter digit).

(* FL MHead g gst ds: at the head of parseFile's loop, g the rest of the current gap, gst the
   later gaps, ds the meanings of the directives still to come;
   FL MNL g gst ds: after the blanks that follow a comment / nothing / a directive *)
Inductive FL : mode -> str -> list str -> list sem_directive -> Prop :=
| FL_eof : FL MHead [] [] []
| FL_dir d ds W g0 gst : LexDir d -> wsl W -> FL MNL g0 gst ds -> FL MHead [] ((W ++ g0) :: gst) (d :: ds)
| FL_comment m body g0 gst ds : In m markers -> cls notnl body -> FL MNL g0 gst ds ->
    FL MHead (m ++ body ++ g0) gst ds
| FL_blank W g0 gst ds : wsl W -> W ++ g0 <> [] -> FL MNL g0 gst ds -> FL MHead (W ++ g0) gst ds
| FL_nl_eof : FL MNL [] [] []
| FL_nl g gst ds : FL MHead g gst ds -> FL MNL (10 :: g) gst ds.

(* ---- every class is valid UTF-8 ---- *)

Lemma runs_ascii x : Forall ascii x -> runs x.
Proof using Hdec. intros H. rewrite <- (app_nil_r x). apply runs_ascii_app; [assumption|assumption|constructor]. Qed.

Lemma runs_spaces n : runs (spaces n).
Proof using Hdec.
  apply runs_ascii. unfold spaces. induction (Z.to_nat n); cbn [repeat]; constructor; auto. unfold ascii. lia.
Qed.

Lemma commodity_runs w : lex_commodity dec letter digit w -> runs w.
Proof using. intros (H & _). eapply cls_runs; eauto. Qed.

Lemma decimal_runs w : lex_decimal dec digit w -> runs w.
Proof using Hdec.
  intros (sg & ip & fp & -> & Hsg & Hip & _ & Hfp).
  apply runs_app; [|apply runs_app].
  - destruct Hsg as [->|(-> & _)]; [apply runs_ascii; repeat constructor; unfold ascii; lia|constructor].
  - eapply cls_runs; eauto.
  - destruct Hfp as [->|(_ & f & -> & Hf & _)]; [constructor|].
    apply runs_cons_ascii; [assumption|lia|eapply cls_runs; eauto].
Qed.

Lemma account_runs w m : lex_account dec letter digit w m -> runs w.
Proof using Hdec.
  destruct m; cbn [lex_account].
  - intros (l & -> & Hl & _). apply runs_cons_ascii; [assumption|lia|eapply cls_runs; eauto].
  - intros (_ & seg & segs & -> & (Hs & _) & Hsegs & _). apply runs_app; [eapply cls_runs; eauto|].
    induction Hsegs as [|x segs (Hx & _) _ IH]; cbn [map concat]; [constructor|].
    cbn [app]. apply runs_cons_ascii; [assumption|lia|]. apply runs_app; [eapply cls_runs; eauto|exact IH].
Qed.

Lemma date_runs w : lex_date dec digit w -> runs w.
Proof using Hdec.
  intros (y & m & d & -> & Hy & Hm & Hd).
  apply runs_app; [eapply digs_runs; eauto|]. apply runs_cons_ascii; [assumption|lia|].
  apply runs_app; [eapply digs_runs; eauto|]. apply runs_cons_ascii; [assumption|lia|]. eapply digs_runs; eauto.
Qed.

Lemma interval_runs w : lex_interval w -> runs w.
Proof using Hdec.
  intros H. unfold lex_interval in H. cbn [In] in H. destruct H as [<-|[<-|[<-|[<-|[]]]]]; apply runs_ascii; repeat constructor; unfold ascii; lia.
Qed.

Ltac rr := repeat first
  [ apply runs_app | apply runs_spaces | apply runs_nil
  | (apply runs_cons_ascii; [assumption|lia|]) ].

Lemma posting_runs pad b : LexBooking dec letter digit b -> runs (render_posting dec pad b).
Proof using Hdec.
  intros (Hc & Hd & Hq & Hm). unfold render_posting, pad_right, pad_left, s_sp.
  rr; eauto using account_runs, decimal_runs, commodity_runs.
Qed.

Lemma balance_runs b : LexBal dec letter digit b -> runs (render_balance b).
Proof using Hdec.
  intros (Ha & Hq & Hm). unfold render_balance, s_sp. rr; eauto using account_runs, decimal_runs, commodity_runs.
Qed.

Lemma concat_runs {A} (f : A -> str) l : Forall (fun a => runs (f a)) l -> runs (concat (map f l)).
Proof using. induction 1; cbn [map concat]; [constructor|apply runs_app; assumption]. Qed.

Lemma join_runs ts : Forall (lex_commodity dec letter digit) ts -> runs (join s_comma ts).
Proof using Hdec.
  induction 1 as [|c cs Hc Hcs IH]; [constructor|].
  destruct cs as [|c2 cs]; [cbn [join]; now apply commodity_runs|].
  change (join s_comma (c :: c2 :: cs)) with (c ++ s_comma ++ join s_comma (c2 :: cs)).
  unfold s_comma. rr; [now apply commodity_runs|exact IH].
Qed.

Lemma directive_runs pad d x : LexDir d -> render_sem dec pad d = Some x -> runs x.
Proof using Hdec.
  intros Hl Hx.
  destruct d as [date desc bs perf accr|date a|date a|date bs|date c p tg|p|]; cbn [render_sem] in Hx;
    try (apply some_inj0 in Hx; subst x).
  - destruct Hl as ((Hd & _) & Hq & _ & Hbs & Hp & Ha).
    apply runs_app; [|apply runs_app].
    + destruct accr as [a|]; [|constructor]. destruct Ha as (Hiv & Hst & Hen & Hacc).
      unfold s_accrue, s_sp, s_nl. rr; eauto using interval_runs, date_runs, account_runs.
    + destruct perf as [ts|]; [|constructor]. unfold s_perf_open, s_perf_close, s_nl. rr. now apply join_runs.
    + unfold s_sp, s_quote, s_nl. rr; [now apply date_runs|eapply cls_runs; eauto|].
      apply concat_runs. eapply Forall_impl; [|exact Hbs]. intros b Hb. cbv beta. apply runs_app; [now apply posting_runs|unfold s_nl; rr].
  - destruct Hl as ((Hd & _) & Ha). unfold s_open. rr; eauto using date_runs, account_runs.
  - destruct Hl as ((Hd & _) & Ha). unfold s_close. rr; eauto using date_runs, account_runs.
  - destruct Hl as ((Hd & _) & _ & Hbs). unfold s_balance. rr; [now apply date_runs|].
    assert (Hall : Forall (fun b => runs (render_balance b ++ s_nl)) bs).
    { eapply Forall_impl; [|exact Hbs]. intros b Hb. cbv beta. apply runs_app; [now apply balance_runs|unfold s_nl; rr]. }
    destruct bs as [|b [|b2 bs]].
    + unfold s_nl. rr.
    + unfold s_sp. cbn [app]. apply runs_cons_ascii; [assumption|lia|]. inversion Hbs; subst. now apply balance_runs.
    + unfold s_nl at 1. cbn [app]. apply runs_cons_ascii; [assumption|lia|]. now apply concat_runs.
  - destruct Hl as ((Hd & _) & Hc & Hp & Htg). unfold s_price, s_sp. rr; eauto using date_runs, decimal_runs, commodity_runs.
  - unfold s_include, s_quote. rr. eapply cls_runs; eauto.
  - destruct Hl.
Qed.

Lemma markers_runs m : In m markers -> runs m.
Proof using Hdec.
  intros H. unfold markers in H. cbn [In] in H. destruct H as [<-|[<-|[<-|[]]]]; apply runs_ascii; repeat constructor; unfold ascii; lia.
Qed.

Lemma FL_runs pad : forall md g gst ds, FL md g gst ds ->
  forall ps, render_all dec pad ds = Some ps -> runs (weave (g :: gst) ps).
Proof using Hdec.
  induction 1 as [|d ds W g0 gst Hd HW HF IH|m body g0 gst ds Hm Hb HF IH|W g0 gst ds HW Hne HF IH| |g gst ds HF IH];
    intros ps Hps.
  - cbn [render_all] in Hps. injection Hps as <-. cbn [weave app]. constructor.
  - cbn [render_all] in Hps. destruct (render_sem dec pad d) as [x|] eqn:Hx; [|discriminate].
    destruct (render_all dec pad ds) as [ps0|] eqn:Hps0; [|discriminate]. injection Hps as <-.
    rewrite weave_cons. cbn [app]. rewrite weave_shift. apply runs_app; [eapply directive_runs; eauto|].
    apply runs_app; [eapply cls_runs; eauto|]. now apply IH.
  - replace (m ++ body ++ g0) with ((m ++ body) ++ g0) by now rewrite app_assoc.
    rewrite weave_shift, <- app_assoc. apply runs_app; [now apply markers_runs|].
    apply runs_app; [eapply cls_runs; eauto|]. now apply IH.
  - rewrite weave_shift. apply runs_app; [eapply cls_runs; eauto|]. now apply IH.
  - cbn [render_all] in Hps. injection Hps as <-. cbn [weave app]. constructor.
  - change (10 :: g) with ([10] ++ g). rewrite weave_shift. cbn [app]. apply runs_cons_ascii; [assumption|lia|]. now apply IH.
Qed.

End FL.

(* ------------------------------------------------------------------ ranges and gaps *)

(* the directives ds lie in the text like the rendered ps between the gaps; p1 is the
   position behind the first gap, gst the later gaps *)
Fixpoint dranges (p1 : Z) (gst ps : list str) (ds : list directive) {struct ds} : Prop :=
  match ds with
  | [] => ps = [] /\ gst = []
  | d :: ds' =>
    match ps, gst with
    | p :: ps', g :: gst' => d_range d = mkRange p1 (p1 + zlen p) /\ dranges (p1 + zlen p + zlen g) gst' ps' ds'
    | _, _ => False
    end
  end.

Lemma slice_mid (pre x y : str) : slice (pre ++ x ++ y) (zlen pre) (zlen pre + zlen x) = x.
Proof.
  unfold slice. rewrite skipn_zlen_app. replace (zlen pre + zlen x - zlen pre) with (zlen x) by lia.
  apply firstn_zlen_app.
Qed.

Lemma gaps_of_dranges T : forall ds pre g gst ps,
  T = pre ++ weave (g :: gst) ps -> dranges (zlen pre + zlen g) gst ps ds ->
  gaps_from T (zlen pre) ds = g :: gst.
Proof.
  induction ds as [|d ds IH]; intros pre g gst ps HT Hd; cbn [gaps_from]; cbn [dranges] in Hd.
  - destruct Hd as (Hp & Hg). subst ps gst. cbn [weave] in HT. rewrite app_nil_r in HT. subst T. f_equal.
    rewrite zlen_app. rewrite <- (app_nil_r g) at 1. apply slice_mid.
  - destruct ps as [|p ps]; [contradiction|]. destruct gst as [|g2 gst]; [contradiction|].
    destruct Hd as (Hr & Hd). rewrite Hr. cbn [r_start r_end]. rewrite weave_cons in HT. f_equal.
    + subst T. apply slice_mid.
    + replace (zlen pre + zlen g + zlen p) with (zlen (pre ++ g ++ p)) by (rewrite !zlen_app; lia).
      apply (IH (pre ++ g ++ p) g2 gst ps).
      * subst T. now rewrite <- !app_assoc.
      * rewrite !zlen_app. replace (zlen pre + (zlen g + zlen p) + zlen g2) with (zlen pre + zlen g + zlen p + zlen g2) by lia. exact Hd.
Qed.
