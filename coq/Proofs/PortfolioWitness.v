(* C20, part 4: concrete journals (vm_compute witnesses).
   W1: a journal with directives on 2023-01-01, 01-05, 01-10, 02-10; `returns --months --to
       2023-02-28`: the partition has the periods ending 2023-01-31 and 2023-02-10, the pinned
       wiring reports only 2023-02-10 (and compounds both months into it).
   W2: a journal that holds CHF and AAPL, prices unchanged, one external CHF deposit in
       February; `returns --months --commodity AAPL`: the pinned ComputeFlows counts the CHF
       deposit as an inflow although ComputeValues ignores CHF: -50% instead of 0%. *)
From Coq Require Import ZArith QArith List Bool Lia.
From Knut Require Import Model.Str Model.Dec Model.Date Model.Account Model.Ledger Model.Price
     Model.Journal Model.Check Model.Pipeline Model.Report Model.Cli Model.Perf Model.Weights
     Model.CliPortfolio Spec.PortfolioSpec.
Import ListNotations.
Open Scope Z_scope.

Definition CHF : str := [67;72;70].
Definition AAPL : str := [65;65;80;76].
Definition a_bank : account := [s_Assets; [66;97;110;107]].
Definition a_broker : account := [s_Assets; [66;114;111;107;101;114]].
Definition a_opening : account := [s_Equity; [79;112;101;110;105;110;103]].
Definition jan (n : Z) : Z := of_civil 2023 1 n.
Definition feb (n : Z) : Z := of_civil 2023 2 n.

Definition plain (d : Z) (cr db : account) (q : Z) (c : commodity) : sdirective :=
  STxn (mkStxn d [120] [mkBooking cr db (of_int q) c] None None).

Definition w1_journal : list sdirective :=
  [ SOpen (jan 1) a_bank; SOpen (jan 1) a_broker; SOpen (jan 1) a_opening;
    SPrice (jan 1) AAPL (of_int 100) CHF;
    plain (jan 5) a_opening a_bank 1000 CHF;
    plain (jan 10) a_opening a_broker 5 AAPL;
    SPrice (feb 10) AAPL (of_int 110) CHF ].

Definition w1_cfg : pf_cfg := mkPfCfg 0 (feb 28) Monthly 0 (Some CHF) [] [] [] false None true.

(* what the two wirings report for W1 *)
Definition w1_pinned_dates : list Z :=
  match returns_pinned w1_cfg w1_journal with COk l => map fst l | _ => [] end.
Definition w1_fixed_dates : list Z :=
  match returns_fixed w1_cfg w1_journal with COk l => map fst l | _ => [] end.
Definition w1_ends : list Z :=
  match load w1_journal with
  | COk b => match pf_partition w1_cfg b with COk part => end_dates part | _ => [] end
  | _ => []
  end.

Lemma w1_ends_eq : w1_ends = [jan 31; feb 10].
Proof. vm_compute. reflexivity. Qed.
Lemma w1_pinned_eq : w1_pinned_dates = [feb 10].
Proof. vm_compute. reflexivity. Qed.
Lemma w1_fixed_eq : w1_fixed_dates = [jan 31; feb 10].
Proof. vm_compute. reflexivity. Qed.

(* the pinned wiring does not report a return for every period: the hypotheses of
   PortfolioDays.returns_every_period hold, its conclusion does not *)
Definition every_period_fails (fx : fixes) (cfg : pf_cfg) (ds : list sdirective) : Prop :=
  match returns_gen fx cfg ds, load ds with
  | COk l, COk b =>
    match pf_partition cfg b with
    | COk part =>
      let w := clip (mkPeriod (pc_from cfg) (pc_to cfg)) (builder_period b) in
      (p_start w <=? p_end w) = true /\ map fst l <> end_dates part
    | _ => False
    end
  | _, _ => False
  end.

Lemma every_period_refuted : exists cfg ds, 0 <= pc_last cfg /\ every_period_fails pinned cfg ds.
Proof.
  exists w1_cfg, w1_journal. split; [cbn; lia|]. vm_compute. split; [reflexivity|discriminate].
Qed.

(* ---------------------------------------------------------------- W2 *)

Definition w2_journal : list sdirective :=
  [ SOpen (jan 1) a_bank; SOpen (jan 1) a_broker; SOpen (jan 1) a_opening;
    SPrice (jan 1) AAPL (of_int 100) CHF;
    plain (jan 5) a_opening a_bank 1000 CHF;
    plain (jan 5) a_opening a_broker 5 AAPL;
    plain (jan 31) a_opening a_bank 0 CHF;
    plain (feb 10) a_opening a_bank 500 CHF;
    plain (feb 28) a_opening a_bank 0 CHF ].

Definition w2_cfg : pf_cfg :=
  mkPfCfg 0 (feb 28) Monthly 0 (Some CHF) [] [mkRx true AAPL true] [] false None true.

Definition second_return (r : cresult (list (Z * option Q))) : option Q :=
  match r with COk [_; (_, x)] => x | _ => None end.

(* February: prices unchanged, the only transaction is an external deposit *)
Lemma w2_february_quiet :
  no_price_in w2_journal (feb 1) (feb 28) = true /\ only_external_in w2_journal (feb 1) (feb 28) = true.
Proof. vm_compute. split; reflexivity. Qed.

(* wiring repaired, flow filter as pinned: -50% *)
Lemma w2_pinned_filter : second_return (returns_gen (mkFixes true false) w2_cfg w2_journal) = Some (-1 # 2)%Q.
Proof. vm_compute. reflexivity. Qed.

(* both repaired: 0% *)
Lemma w2_repaired : second_return (returns_fixed w2_cfg w2_journal) = Some 0%Q.
Proof. vm_compute. reflexivity. Qed.

(* without the commodity filter the pinned flows are right as well: 0% *)
Lemma w2_unfiltered :
  second_return (returns_gen (mkFixes true false)
                   (mkPfCfg 0 (feb 28) Monthly 0 (Some CHF) [] [] [] false None true) w2_journal) = Some 0%Q.
Proof. vm_compute. reflexivity. Qed.

Lemma external_flows_zero_refuted :
  exists cfg ds s e r,
    no_price_in ds s e = true /\ only_external_in ds s e = true /\
    second_return (returns_gen (mkFixes true false) cfg ds) = Some r /\ ~ (r == 0)%Q.
Proof.
  exists w2_cfg, w2_journal, (feb 1), (feb 28), (-1 # 2)%Q.
  destruct w2_february_quiet as [H1 H2]. split; [exact H1|]. split; [exact H2|]. split; [exact w2_pinned_filter|].
  intros H. discriminate H.
Qed.
