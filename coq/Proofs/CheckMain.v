(* C04, assembled: the check stage of the model (process_days over the builder's days with the
   repaired checker) is [run_events] over the specification's event sequence; with the
   refinement lemma of Proofs/CheckProofs.v this gives the iff theorem and the theorem about
   the named offender.  Also: the executable specification [wellformed_b] / [offender]. *)
From Coq Require Import ZArith List Bool Lia Sorting.Sorted.
From Knut Require Import Model.Str Model.Dec Model.Account Model.Ledger Model.Price Model.Journal Model.Check
     Model.Cli Spec.WellformedSpec Proofs.DecProofs Proofs.DecEqProofs Proofs.CheckLemmas Proofs.CheckProofs
     Proofs.BuilderProofs.
Import ListNotations.
Open Scope bool_scope.
Open Scope Z_scope.

(* ------------------------------------------------------------------ the model function *)

Inductive verdict := VOk | VErr (kind : str) (account_name : str) | VPanic.

Definition verdict_of {A} (x : presult A) : verdict :=
  match x with ROk _ => VOk | RErr k d => VErr k d | RPanic _ => VPanic end.

(* the check stage on a journal given as directives: Builder.Add for each, Build, then the
   processor over the days.  [check_model] is the repaired checker. *)
Definition check_with (p : processor check_state) (ds : list directive) : verdict :=
  verdict_of (process_days p check_init (b_days (builder_of ds))).
Definition check_model (ds : list directive) : verdict := check_with check_proc_fixed ds.

(* ------------------------------------------------------------------ process_day = run_events *)

Definition res_fst {A B} (x : presult (A * B)) : presult A :=
  match x with ROk p => ROk (fst p) | RErr k d => RErr k d | RPanic m => RPanic m end.

Definition txn_events (t : txn) : list event := events_of (DTxn t).
Definition assert_events (bs : list balance) : list event := events_of (DAssert 0 bs).
Definition day_events (d : day) : list event :=
  map EOpen (d_opens d) ++ flat_map txn_events (d_txns d) ++ flat_map assert_events (d_asserts d) ++
  map EClose (d_closes d).

Lemma run_events_app s l1 l2 :
  run_events s (l1 ++ l2) = rbind (run_events s l1) (fun s' => run_events s' l2).
Proof.
  revert s. induction l1 as [|e l1 IH]; intros s; cbn; [reflexivity|].
  destruct (ck_event s e); cbn; [apply IH|reflexivity|reflexivity].
Qed.

Lemma fold_opens s l : fold_res ck_open_cb s l = run_events s (map EOpen l).
Proof.
  revert s. induction l as [|a l IH]; intros s; cbn; [reflexivity|].
  destruct (ck_open_cb s a); cbn; [apply IH|reflexivity|reflexivity].
Qed.

Lemma fold_closes s l : fold_res ck_close_cb s l = run_events s (map EClose l).
Proof.
  revert s. induction l as [|a l IH]; intros s; cbn; [reflexivity|].
  destruct (ck_close_cb s a); cbn; [apply IH|reflexivity|reflexivity].
Qed.

Lemma ck_posting_cb_post s t p :
  ck_posting_cb s t p = rbind (ck_post s (p_acc p) (p_com p) (p_qty p)) (fun s' => ROk (s', p)).
Proof.
  unfold ck_posting_cb, ck_post.
  destruct (negb (is_open s (p_acc p))); [reflexivity|].
  destruct (is_AL (p_acc p)); reflexivity.
Qed.

Lemma fold_postings_events t s ps :
  res_fst (fold_postings ck_posting_cb t s ps) =
  run_events s (map (fun p => EPost (p_acc p) (p_com p) (p_qty p)) ps).
Proof.
  revert s. induction ps as [|p ps IH]; intros s; cbn [fold_postings map run_events]; [reflexivity|].
  rewrite ck_posting_cb_post. cbn [ck_event].
  destruct (ck_post s (p_acc p) (p_com p) (p_qty p)) as [s1|k d|m]; cbn [rbind fst snd]; try reflexivity.
  rewrite <- IH.
  destruct (fold_postings ck_posting_cb t s1 ps) as [[s2 ps2]|k d|m]; reflexivity.
Qed.

Lemma fold_txns_events s ts :
  res_fst (fold_txns check_proc_fixed s ts) = run_events s (flat_map txn_events ts).
Proof.
  revert s. induction ts as [|t ts IH]; intros s; cbn [fold_txns flat_map]; [reflexivity|].
  rewrite run_events_app. unfold txn_events at 1. cbn [events_of].
  rewrite <- (fold_postings_events t s).
  unfold check_proc_fixed at 1 2. cbn [pr_txn pr_posting rbind].
  destruct (fold_postings ck_posting_cb t s (t_postings t)) as [[s1 ps1]|k d|m]; cbn [rbind res_fst fst snd]; try reflexivity.
  rewrite <- IH.
  destruct (fold_txns check_proc_fixed s1 ts) as [[s2 ts2]|k d|m]; reflexivity.
Qed.

Lemma ck_balance_fixed_event s l b :
  ck_balance_fixed s l b = ck_event s (EAssert (bal_acc b) (bal_com b) (bal_qty b)).
Proof. destruct b. reflexivity. Qed.

Lemma fold_balances_events s l bs :
  fold_res (fun s b => ck_balance_fixed s l b) s bs =
  run_events s (map (fun b => EAssert (bal_acc b) (bal_com b) (bal_qty b)) bs).
Proof.
  revert s. induction bs as [|b bs IH]; intros s; cbn [fold_res map run_events]; [reflexivity|].
  rewrite ck_balance_fixed_event.
  destruct (ck_event s (EAssert (bal_acc b) (bal_com b) (bal_qty b))); cbn [rbind]; [apply IH|reflexivity|reflexivity].
Qed.

Lemma fold_asserts_events s l :
  fold_asserts check_proc_fixed s l = run_events s (flat_map assert_events l).
Proof.
  revert s. induction l as [|bs l IH]; intros s; cbn [fold_asserts flat_map]; [reflexivity|].
  rewrite run_events_app. unfold assert_events at 1. cbn [events_of].
  unfold check_proc_fixed at 1. cbn [pr_balance].
  rewrite fold_balances_events.
  destruct (run_events s _); cbn [rbind]; [apply IH|reflexivity|reflexivity].
Qed.

Lemma process_day_events s d :
  res_fst (process_day check_proc_fixed s d) = run_events s (day_events d).
Proof.
  unfold process_day, day_events.
  unfold check_proc_fixed. cbn [pr_day_start pr_price pr_open pr_close pr_day_end rbind fst snd].
  fold check_proc_fixed.
  rewrite run_events_app, <- fold_opens.
  destruct (fold_res ck_open_cb s (d_opens d)) as [s1|k x|m]; cbn [rbind res_fst]; try reflexivity.
  rewrite run_events_app, <- fold_txns_events.
  destruct (fold_txns check_proc_fixed s1 (d_txns d)) as [[s2 ts2]|k x|m]; cbn [rbind res_fst fst snd d_asserts d_closes]; try reflexivity.
  rewrite run_events_app, <- fold_asserts_events.
  destruct (fold_asserts check_proc_fixed s2 (d_asserts d)) as [s3|k x|m]; cbn [rbind res_fst]; try reflexivity.
  rewrite <- fold_closes.
  destruct (fold_res ck_close_cb s3 (d_closes d)) as [s4|k x|m]; cbn [rbind res_fst fst]; reflexivity.
Qed.

Lemma process_days_events s days :
  res_fst (process_days check_proc_fixed s days) = run_events s (flat_map day_events days).
Proof.
  revert s. induction days as [|d days IH]; intros s; cbn [process_days flat_map]; [reflexivity|].
  rewrite run_events_app, <- process_day_events.
  destruct (process_day check_proc_fixed s d) as [[s1 d1]|k x|m]; cbn [rbind res_fst fst snd]; try reflexivity.
  rewrite <- IH.
  destruct (process_days check_proc_fixed s1 days) as [[s2 ds2]|k x|m]; reflexivity.
Qed.

(* ------------------------------------------------------------------ days -> events of the specification *)

Lemma flat_map_events_map_open dt l : flat_map events_of (map (DOpen dt) l) = map EOpen l.
Proof. induction l as [|a l IH]; cbn; [reflexivity|]. rewrite IH. reflexivity. Qed.

Lemma flat_map_events_map_close dt l : flat_map events_of (map (DClose dt) l) = map EClose l.
Proof. induction l as [|a l IH]; cbn; [reflexivity|]. rewrite IH. reflexivity. Qed.

Lemma flat_map_events_map_price dt l : flat_map events_of (map (price_directive dt) l) = [].
Proof. induction l as [|a l IH]; cbn; [reflexivity|]. exact IH. Qed.

Lemma flat_map_events_map_txn l : flat_map events_of (map DTxn l) = flat_map txn_events l.
Proof. induction l as [|a l IH]; cbn [map flat_map]; [reflexivity|]. rewrite IH. reflexivity. Qed.

Lemma flat_map_events_map_assert dt l : flat_map events_of (map (DAssert dt) l) = flat_map assert_events l.
Proof. induction l as [|a l IH]; cbn [map flat_map]; [reflexivity|]. rewrite IH. reflexivity. Qed.

Lemma day_events_directives x : flat_map events_of (day_directives x) = day_events x.
Proof.
  unfold day_directives, day_events. rewrite !flat_map_app.
  rewrite flat_map_events_map_price, flat_map_events_map_open, flat_map_events_map_txn,
    flat_map_events_map_assert, flat_map_events_map_close. reflexivity.
Qed.

Lemma flat_map_flat_map {A B C} (f : B -> list C) (g : A -> list B) (l : list A) :
  flat_map f (flat_map g l) = flat_map (fun x => flat_map f (g x)) l.
Proof. induction l as [|x l IH]; cbn; [reflexivity|]. rewrite flat_map_app, IH. reflexivity. Qed.

Lemma builder_events ds : flat_map day_events (b_days (builder_of ds)) = events ds.
Proof.
  unfold events. rewrite <- builder_flat_canonical. rewrite flat_map_flat_map.
  apply flat_map_ext. intros x. symmetry. apply day_events_directives.
Qed.

Lemma check_model_events ds :
  check_model ds = verdict_of (run_events check_init (events ds)).
Proof.
  unfold check_model, check_with. rewrite <- builder_events, <- process_days_events.
  destruct (process_days check_proc_fixed check_init (b_days (builder_of ds))) as [[s l]|k d|m]; reflexivity.
Qed.

(* ------------------------------------------------------------------ the theorems *)

Lemma events_in ds e : In e (events ds) -> exists d, In d ds /\ In e (events_of d).
Proof.
  unfold events. rewrite in_flat_map. intros [d [H1 H2]]. exists d. split; [|exact H2].
  apply canonical_incl. exact H1.
Qed.

Lemma syntactic_events ds : syntactic ds -> forall e, In e (events ds) -> account_ok (ev_acc e) = true.
Proof. intros Hs e He. destruct (events_in ds e He) as [d [H1 H2]]. exact (Hs d e H1 H2). Qed.

Lemma all_ok_before_nil evs : all_ok_before [] evs <-> wellformed_events evs.
Proof. unfold all_ok_before, wellformed_events. cbn [app]. reflexivity. Qed.

Theorem check_iff ds : syntactic ds -> (check_model ds = VOk <-> wellformed ds).
Proof.
  intros Hs. rewrite check_model_events. unfold wellformed.
  pose proof (run_refines (events ds) [] check_init inv_init (syntactic_events ds Hs)) as R.
  destruct (run_events check_init (events ds)) as [s|k d|m]; cbn [verdict_of].
  - destruct R as [R _]. apply all_ok_before_nil in R. tauto.
  - split; [discriminate|]. intros W.
    destruct R as [p [e [q [r [H1 [_ [H3 _]]]]]]]. exfalso. apply H3. cbn [app]. apply (W p e q). exact H1.
  - contradiction.
Qed.

Theorem check_never_panics ds : syntactic ds -> check_model ds <> VPanic.
Proof.
  intros Hs. rewrite check_model_events.
  pose proof (run_refines (events ds) [] check_init inv_init (syntactic_events ds Hs)) as R.
  destruct (run_events check_init (events ds)) as [s|k d|m]; cbn [verdict_of]; try discriminate. contradiction.
Qed.

(* the error names the first event of the canonical sequence that is not ok: its account, and
   a kind that is a true reason *)
Theorem check_names_offender ds k name :
  syntactic ds -> check_model ds = VErr k name ->
  exists pre e post r,
    events ds = pre ++ e :: post /\
    wellformed_events pre /\
    ~ ok_event pre e /\
    name = acc_name (ev_acc e) /\ k = kind_of r /\ violation pre e r /\
    exists d, In d ds /\ In e (events_of d).
Proof.
  intros Hs. rewrite check_model_events.
  pose proof (run_refines (events ds) [] check_init inv_init (syntactic_events ds Hs)) as R.
  destruct (run_events check_init (events ds)) as [s|k' d|m]; cbn [verdict_of]; try discriminate.
  intros H. inversion H. subst k' d.
  destruct R as [p [e [q [r [H1 [H2 [H3 [H4 [H5 H6]]]]]]]]]. cbn [app] in *.
  exists p, e, q, r. apply all_ok_before_nil in H2.
  repeat (split; [assumption|]).
  apply events_in. rewrite H1. apply in_or_app. right. left. reflexivity.
Qed.

(* ------------------------------------------------------------------ the executable specification *)

Lemma quantity_unposted pre a c : ~ In c (posted_coms pre a) -> quantity pre a c = dec_nil.
Proof.
  unfold quantity. generalize dec_nil as q0. induction pre as [|e pre IH]; intros q0 H; cbn; [reflexivity|].
  unfold posted_coms in H. cbn [flat_map] in H. rewrite in_app_iff in H.
  destruct e as [a'|a' c' x|a' c' x|a']; cbn [qty_step]; try (apply IH; tauto).
  destruct (same_acc a a') eqn:Ea; cbn [andb].
  - destruct (same_com c c') eqn:Ec.
    + exfalso. apply H. left. apply same_com_eq in Ec. subst c'. left. reflexivity.
    + apply IH. tauto.
  - apply IH. tauto.
Qed.

Lemma ok_event_b_spec pre e : ok_event_b pre e = true <-> ok_event pre e.
Proof.
  destruct e as [a|a c q|a c q|a]; cbn [ok_event_b ok_event].
  - destruct (open_after pre a); cbn; split; congruence.
  - reflexivity.
  - rewrite andb_true_iff, orb_true_iff, negb_true_iff.
    destruct (is_AL a); split; intros [H1 H2]; (split; [exact H1|]).
    + intros _. destruct H2 as [H2|H2]; [discriminate|exact H2].
    + right. apply H2. reflexivity.
    + intros H. discriminate.
    + left. reflexivity.
  - rewrite andb_true_iff, orb_true_iff, negb_true_iff, forallb_forall.
    destruct (is_AL a); split; intros [H1 H2]; (split; [exact H1|]).
    + intros _ c. destruct H2 as [H2|H2]; [discriminate|].
      destruct (in_dec str_eq_dec c (posted_coms pre a)) as [Hin|Hin]; [apply H2; exact Hin|].
      rewrite quantity_unposted by exact Hin. reflexivity.
    + right. intros c _. apply H2. reflexivity.
    + intros H. discriminate.
    + left. reflexivity.
Qed.

Lemma wf_from_spec rest : forall pre, wf_from pre rest = true <-> all_ok_before pre rest.
Proof.
  induction rest as [|e rest IH]; intros pre; cbn [wf_from].
  - split; [|reflexivity]. intros _ p e q H. destruct p; discriminate.
  - rewrite andb_true_iff, ok_event_b_spec, IH. unfold all_ok_before. split.
    + intros [H1 H2] p e' q H. destruct p as [|x p]; cbn in H; inversion H; subst.
      * rewrite app_nil_r. exact H1.
      * specialize (H2 p e' q eq_refl). rewrite <- app_assoc in H2. exact H2.
    + intros H. split.
      * specialize (H [] e rest eq_refl). rewrite app_nil_r in H. exact H.
      * intros p e' q Hr. specialize (H (e :: p) e' q). rewrite <- app_assoc. apply H. rewrite Hr. reflexivity.
Qed.

Theorem wellformed_b_spec ds : wellformed_b ds = true <-> wellformed ds.
Proof. unfold wellformed_b, wellformed. rewrite wf_from_spec. apply all_ok_before_nil. Qed.

Lemma first_bad_spec rest : forall pre p e q,
  rest = p ++ e :: q -> all_ok_before pre p -> ~ ok_event (pre ++ p) e ->
  first_bad pre rest = Some (pre ++ p, e).
Proof.
  induction rest as [|x rest IH]; intros pre p e q H Hall Hbad; [destruct p; discriminate|].
  cbn [first_bad]. destruct p as [|y p]; cbn in H; inversion H; subst.
  - rewrite app_nil_r in *. destruct (ok_event_b pre e) eqn:E; [|reflexivity].
    apply ok_event_b_spec in E. contradiction.
  - assert (Hy : ok_event_b pre y = true).
    { apply ok_event_b_spec. specialize (Hall [] y p eq_refl). rewrite app_nil_r in Hall. exact Hall. }
    rewrite Hy. replace (pre ++ y :: p) with ((pre ++ [y]) ++ p) by (rewrite <- app_assoc; reflexivity).
    apply (IH (pre ++ [y]) p e q eq_refl).
    + intros p1 e1 q1 Hp. specialize (Hall (y :: p1) e1 q1). rewrite <- app_assoc. apply Hall. rewrite Hp. reflexivity.
    + rewrite <- app_assoc. exact Hbad.
Qed.

(* the model's error is about the event the executable specification computes as the offender *)
Theorem check_error_offender ds k name :
  syntactic ds -> check_model ds = VErr k name ->
  exists pre e, offender ds = Some (pre, e) /\ name = acc_name (ev_acc e) /\
                exists r, k = kind_of r /\ violation pre e r.
Proof.
  intros Hs H. destruct (check_names_offender ds k name Hs H) as [pre [e [post [r [H1 [H2 [H3 [H4 [H5 [H6 _]]]]]]]]]].
  exists pre, e. split; [|split; [exact H4|exists r; tauto]].
  unfold offender. rewrite (first_bad_spec (events ds) [] pre e post H1); [reflexivity| |exact H3].
  apply all_ok_before_nil. exact H2.
Qed.

Lemma syntactic_b_spec ds : syntactic_b ds = true <-> syntactic ds.
Proof.
  unfold syntactic_b, syntactic. rewrite forallb_forall. split.
  - intros H d e Hd He. specialize (H d Hd). rewrite forallb_forall in H. apply H. exact He.
  - intros H d Hd. rewrite forallb_forall. intros e He. apply (H d e Hd He).
Qed.

(* ------------------------------------------------------------------ the command *)

Theorem check_cmd_iff sds :
  (forall ds, parse_directives sds = MOk ds -> syntactic ds) ->
  (check_cmd_fixed sds = COk tt <-> exists ds, parse_directives sds = MOk ds /\ wellformed ds).
Proof.
  intros Hs. unfold check_cmd_fixed, load, run_stage.
  destruct (parse_directives sds) as [ds|m|m] eqn:P; cbn.
  - specialize (Hs ds eq_refl). pose proof (check_iff ds Hs) as I.
    unfold check_model, check_with in I.
    destruct (process_days check_proc_fixed check_init (b_days (builder_of ds))) as [[s l]|k d|m]; cbn in *.
    + split; [intros _; exists ds; split; [reflexivity|apply I; reflexivity]|reflexivity].
    + split; [discriminate|]. intros [ds' [E W]]. inversion E; subst ds'. apply I in W. discriminate.
    + split; [discriminate|]. intros [ds' [E W]]. inversion E; subst ds'. apply I in W. discriminate.
  - split; [discriminate|]. intros [ds' [E _]]. discriminate.
  - split; [discriminate|]. intros [ds' [E _]]. discriminate.
Qed.

(* ------------------------------------------------------------------ input order *)

(* Only the sublists per date and kind matter: two journals whose directives of each date and
   kind are the same lists (however the dates and kinds are interleaved, e.g. spread over
   files in any arrival order) have the same canonical sequence. *)
Lemma sel_date_in ds dt : In dt (map ddate ds) -> exists d k, In d (sel ds dt k).
Proof.
  rewrite in_map_iff. intros [d [H1 H2]]. exists d, (dkind d).
  unfold sel. apply filter_In. split; [exact H2|]. rewrite H1, !Z.eqb_refl. reflexivity.
Qed.

Lemma canonical_by_sel ds1 ds2 :
  (forall dt k, sel ds1 dt k = sel ds2 dt k) -> canonical ds1 = canonical ds2.
Proof.
  intros H. unfold canonical.
  assert (Hd : dates ds1 = dates ds2).
  { apply sorted_unique; try apply dates_sorted.
    intros x. rewrite !dates_in. split; intros Hx; apply sel_date_in in Hx; destruct Hx as [d [k Hx]].
    - rewrite H in Hx. apply sel_in in Hx. destruct Hx as [H1 [H2 _]]. rewrite <- H2. apply in_map. exact H1.
    - rewrite <- H in Hx. apply sel_in in Hx. destruct Hx as [H1 [H2 _]]. rewrite <- H2. apply in_map. exact H1. }
  rewrite Hd. apply flat_map_ext. intros dt. unfold of_day. rewrite !H. reflexivity.
Qed.

Theorem order_irrelevant ds1 ds2 :
  (forall dt k, sel ds1 dt k = sel ds2 dt k) ->
  (wellformed ds1 <-> wellformed ds2) /\
  (syntactic ds1 -> syntactic ds2 -> (check_model ds1 = VOk <-> check_model ds2 = VOk)).
Proof.
  intros H. assert (W : wellformed ds1 <-> wellformed ds2).
  { unfold wellformed, events. rewrite (canonical_by_sel ds1 ds2 H). reflexivity. }
  split; [exact W|]. intros S1 S2. rewrite (check_iff ds1 S1), (check_iff ds2 S2). exact W.
Qed.

(* ------------------------------------------------------------------ witnesses *)

Definition w_chf : commodity := [67; 72; 70].
Definition w_assets_a : account := [s_Assets; [65]].
Definition w_assets_b : account := [s_Assets; [66]].
Definition w_income_i : account := [s_Income; [73]].
Definition w_d (n : Z) : Z := 737425 + n.     (* 2020-01-01 + n *)

(* finding C04-zero-assertion: open A; the next day "balance Assets:A 0 CHF" *)
Definition w_zero : list sdirective :=
  [ SOpen (w_d 0) w_assets_a; SAssert (w_d 1) [mkBalance w_assets_a (mkDec 0 0) w_chf] ].

(* finding C04-nonAL-assertion: open Income:I; the next day "balance Income:I 0 CHF" *)
Definition w_nonal : list sdirective :=
  [ SOpen (w_d 0) w_income_i; SAssert (w_d 1) [mkBalance w_income_i (mkDec 0 0) w_chf] ].

Lemma zero_refuted :
  exists sds ds, parse_directives sds = MOk ds /\ syntactic ds /\ wellformed ds /\
                 check_cmd false sds <> COk tt /\ check_cmd_fixed sds = COk tt.
Proof.
  exists w_zero. eexists. split; [vm_compute; reflexivity|].
  split; [apply syntactic_b_spec; vm_compute; reflexivity|].
  split; [apply wellformed_b_spec; vm_compute; reflexivity|].
  split; [vm_compute; discriminate|vm_compute; reflexivity].
Qed.

(* the same with a booking: 5 CHF from Income:I to Assets:A, then "balance Income:I -5 CHF";
   rejected also when only the missing-position defect is repaired ([check_cmd true]) *)
Definition w_nonal2 : list sdirective :=
  [ SOpen (w_d 0) w_income_i; SOpen (w_d 0) w_assets_a;
    STxn (mkStxn (w_d 1) [] [mkBooking w_income_i w_assets_a (mkDec 5 0) w_chf] None None);
    SAssert (w_d 2) [mkBalance w_income_i (mkDec (-5) 0) w_chf] ].

Lemma nonal_refuted :
  exists sds ds, parse_directives sds = MOk ds /\ syntactic ds /\ wellformed ds /\
                 check_cmd false sds <> COk tt /\ check_cmd_fixed sds = COk tt.
Proof.
  exists w_nonal. eexists. split; [vm_compute; reflexivity|].
  split; [apply syntactic_b_spec; vm_compute; reflexivity|].
  split; [apply wellformed_b_spec; vm_compute; reflexivity|].
  split; [vm_compute; discriminate|vm_compute; reflexivity].
Qed.

Lemma nonal_refuted_lenient :
  exists sds ds, parse_directives sds = MOk ds /\ syntactic ds /\ wellformed ds /\
                 check_cmd false sds <> COk tt /\ check_cmd true sds <> COk tt /\ check_cmd_fixed sds = COk tt.
Proof.
  exists w_nonal2. eexists. split; [vm_compute; reflexivity|].
  split; [apply syntactic_b_spec; vm_compute; reflexivity|].
  split; [apply wellformed_b_spec; vm_compute; reflexivity|].
  split; [vm_compute; discriminate|]. split; [vm_compute; discriminate|vm_compute; reflexivity].
Qed.

(* a well-formed journal: open A and B, book 5.00 CHF from A to B, assert both (two lines),
   book it back, all on one day; close B the same day; reopen B later and assert zero. *)
Definition w_good : list directive :=
  let five := mkDec 500 (-2) in
  [ DClose (w_d 0) w_assets_b;
    DAssert (w_d 0) [mkBalance w_assets_a (mkDec 0 0) w_chf; mkBalance w_assets_b (mkDec 0 (-1)) w_chf];
    DTxn (mkTxn (w_d 0) [] (pair_build w_assets_a w_assets_b w_chf five dec_nil) None);
    DTxn (mkTxn (w_d 0) [] (pair_build w_assets_b w_assets_a w_chf five dec_nil) None);
    DOpen (w_d 0) w_assets_b;
    DOpen (w_d 0) w_assets_a;
    DAssert (w_d 9) [mkBalance w_assets_b (mkDec 0 0) w_chf];
    DOpen (w_d 7) w_assets_b ].

Lemma good_wellformed : syntactic w_good /\ wellformed w_good /\ check_model w_good = VOk.
Proof.
  split; [apply syntactic_b_spec; vm_compute; reflexivity|].
  split; [apply wellformed_b_spec; vm_compute; reflexivity|vm_compute; reflexivity].
Qed.

(* an ill-formed one: B is closed while it still holds 5.00 CHF *)
Definition w_bad : list directive :=
  let five := mkDec 500 (-2) in
  [ DOpen (w_d 0) w_assets_a; DOpen (w_d 0) w_assets_b;
    DTxn (mkTxn (w_d 1) [] (pair_build w_assets_a w_assets_b w_chf five dec_nil) None);
    DClose (w_d 2) w_assets_b ].

Lemma bad_illformed :
  syntactic w_bad /\ ~ wellformed w_bad /\ check_model w_bad = VErr k_nonzero (acc_name w_assets_b) /\
  exists pre, offender w_bad = Some (pre, EClose w_assets_b).
Proof.
  split; [apply syntactic_b_spec; vm_compute; reflexivity|].
  split; [intros W; apply wellformed_b_spec in W; vm_compute in W; discriminate W|].
  split; [vm_compute; reflexivity|]. eexists. vm_compute. reflexivity.
Qed.

(* Why [syntactic] is a hypothesis: the structured representation has accounts the parser never
   produces.  ["Assets"; "A:B"] and ["Assets"; "A"; "B"] have the same name, knut (and the
   model) identifies accounts by name, the specification by their segments: opening the first
   and booking on the second is accepted by the checker and is not well-formed. *)
Definition w_colon : list directive :=
  let a1 : account := [s_Assets; [65; 58; 66]] in
  let a2 : account := [s_Assets; [65]; [66]] in
  [ DOpen (w_d 0) a1; DOpen (w_d 0) w_assets_a;
    DTxn (mkTxn (w_d 1) [] (pair_build w_assets_a a2 w_chf (mkDec 1 0) dec_nil) None) ].

Lemma syntactic_needed : exists ds, ~ syntactic ds /\ check_model ds = VOk /\ ~ wellformed ds.
Proof.
  exists w_colon.
  split; [intros S; apply syntactic_b_spec in S; vm_compute in S; discriminate S|].
  split; [vm_compute; reflexivity|].
  intros W; apply wellformed_b_spec in W; vm_compute in W; discriminate W.
Qed.
