(* C02 with --close: the stateful CloseAccounts processor (Model/Pipeline.v close_proc, Go:
   lib/journal/process.go CloseAccounts) equals the closed form Spec.LedgerSpec.closing_entries.

   Part A  sums over the position map (c_qty), one step of pos_add
   Part B  the close stage as a fold over the days: what the appended closing transactions add
           to a cell, in terms of the postings seen since the last closing day (close_inv)
   Part C  dates: the next closing day of a posting is the start of the first period that
           begins after it (days sorted, one day per period start)
   Part D  the closed form of the specification per posting
   Part E  assembly: report_cells (the statement of Properties/C02.v C02_cells) *)
From Coq Require Import ZArith QArith List Bool Lia Permutation Sorting.Sorted.
From Knut Require Import Model.Str Model.Dec Model.Date Model.Account Model.Ledger Model.Price
     Model.Journal Model.Check Model.Pipeline Model.Table Model.Report Model.Cli
     Spec.DateSpec Spec.WellformedSpec Spec.LedgerSpec Spec.LedgerSyntax
     Proofs.DecProofs Proofs.DecValue Proofs.PairProofs Proofs.ReportSum Proofs.Conservation
     Proofs.DateProofs Proofs.CheckLemmas Proofs.BeancountProofs Proofs.LedgerProofs.
Import ListNotations.
Open Scope Q_scope.

(* ------------------------------------------------------------ Part A: the position map *)

Definition pentry := (str * (account * commodity * dec))%type.

(* an entry of c_qty: keyed by its own account and commodity; the account is one the parser
   produces and one that CloseAccounts books (not A/L, not Equity:Equity) *)
Definition entry_ok (x : pentry) : Prop :=
  fst x = pos_key (fst (fst (snd x))) (snd (fst (snd x)))
  /\ account_ok (fst (fst (snd x))) = true
  /\ closable (fst (fst (snd x))) = true.

Definition map_ok (m : positions) : Prop := keys_sorted m /\ Forall entry_ok m.

(* sum over the entries of g(account, commodity) * quantity *)
Definition msum (g : account -> commodity -> Q) (m : positions) : Q :=
  qsum (fun x : pentry => g (fst (fst (snd x))) (snd (fst (snd x))) * dvalue (snd (snd x))) m.

Lemma msum_cons g x m :
  msum g (x :: m) == g (fst (fst (snd x))) (snd (fst (snd x))) * dvalue (snd (snd x)) + msum g m.
Proof. reflexivity. Qed.

Lemma map_ok_nil : map_ok [].
Proof. split; constructor. Qed.

Lemma sm_get_below (m : positions) k' v' K :
  keys_sorted ((k', v') :: m) -> str_cmp K k' = Lt -> sm_get m K = None.
Proof.
  intros Hs Hlt. destruct (sm_get m K) as [v|] eqn:E; [|reflexivity]. exfalso.
  apply sm_get_some_in in E. inversion Hs as [|x l _ Hall]; subst.
  rewrite Forall_forall in Hall. specialize (Hall _ E). unfold key_lt in Hall. cbn [fst] in Hall.
  exact (str_cmp_lt_irrefl _ (CheckLemmas.str_cmp_lt_trans _ _ _ Hlt Hall)).
Qed.

Lemma msum_put g K a c x : K = pos_key a c -> account_ok a = true -> forall m,
  map_ok m ->
  msum g (sm_put m K (a, c, add (match sm_get m K with Some (_, _, q) => q | None => dec_nil end) x))
  == msum g m + g a c * dvalue x.
Proof.
  intros HK Ha. induction m as [|[k' [[a' c'] q']] m IH]; intros [Hs Hok].
  - cbn [sm_put sm_get]. rewrite msum_cons. cbn [fst snd]. unfold msum, qsum. cbn [fold_right].
    rewrite dvalue_add, dvalue_nil. ring.
  - inversion Hok as [|? ? Hx Hrest]; subst. inversion Hs as [|? ? Hs' Hall]; subst.
    cbn [sm_put sm_get]. unfold str_eqb. destruct (str_cmp (pos_key a c) k') eqn:E.
    + apply CheckLemmas.str_cmp_eq in E. subst k'. rewrite !msum_cons. cbn [fst snd].
      destruct Hx as (Hk & Ha' & _). cbn [fst snd] in Hk, Ha'.
      destruct (pos_key_inj _ _ _ _ Ha Ha' Hk) as [-> ->].
      rewrite dvalue_add. ring.
    + rewrite (sm_get_below m k' (a', c', q') (pos_key a c) Hs E).
      rewrite !msum_cons. cbn [fst snd]. rewrite dvalue_add, dvalue_nil. ring.
    + rewrite msum_cons. rewrite IH by (split; assumption). rewrite msum_cons. ring.
Qed.

Lemma msum_pos_add g m a c x :
  map_ok m -> account_ok a = true -> closable a = true ->
  msum g (pos_add m a c x) == msum g m + g a c * dvalue x /\ map_ok (pos_add m a c x).
Proof.
  intros Hm Ha Hc. unfold pos_add, pos_get. split.
  - rewrite <- (msum_put g (pos_key a c) a c x eq_refl Ha m Hm).
    destruct (sm_get m (pos_key a c)) as [[[a0 c0] q0]|]; reflexivity.
  - destruct Hm as [Hs Hok]. split; [apply sm_put_sorted; exact Hs|].
    rewrite Forall_forall in *. intros y Hy. apply sm_put_in in Hy. destruct Hy as [->|Hy]; [|apply Hok; exact Hy].
    unfold entry_ok. cbn [fst snd]. repeat split; assumption.
Qed.

(* ------------------------------------------------------------ Part B: the close stage *)

Definition closable_dp (dp : Z * posting) : bool := closable (p_acc (snd dp)).

(* sum over the dated postings CloseAccounts books of g(account, commodity) * quantity *)
Definition psum (g : account -> commodity -> Q) (l : list (Z * posting)) : Q :=
  qsum (fun dp => if closable_dp dp then g (p_acc (snd dp)) (p_com (snd dp)) * dvalue (p_qty (snd dp)) else 0) l.

Definition posts_ok (l : list (Z * posting)) : Prop := forall dp, In dp l -> account_ok (p_acc (snd dp)) = true.

Definition txns_postings (ts : list txn) : list (Z * posting) :=
  concat (map (fun t => map (fun p => (t_date t, p)) (t_postings t)) ts).

Lemma psum_app g l1 l2 : psum g (l1 ++ l2) == psum g l1 + psum g l2.
Proof. apply qsum_app. Qed.

Lemma psum_nil g : psum g [] == 0.
Proof. reflexivity. Qed.

Lemma posts_ok_app l1 l2 : posts_ok (l1 ++ l2) <-> posts_ok l1 /\ posts_ok l2.
Proof.
  unfold posts_ok. split.
  - intros H. split; intros dp Hin; apply H; apply in_or_app; [left|right]; exact Hin.
  - intros [H1 H2] dp Hin. apply in_app_or in Hin. destruct Hin; auto.
Qed.

Lemma closable_neg a : is_AL a || acc_eqb a equity_account = negb (closable a).
Proof. unfold closable, equity_account. destruct (is_AL a), (acc_eqb a [s_Equity; s_Equity]); reflexivity. Qed.

Lemma close_postings t : forall ps s s' ps',
  map_ok (c_qty s) -> posts_ok (map (fun p => (t_date t, p)) ps) ->
  fold_postings close_posting t s ps = ROk (s', ps') ->
  ps' = ps /\ map_ok (c_qty s') /\
  forall g, msum g (c_qty s') == msum g (c_qty s) + psum g (map (fun p => (t_date t, p)) ps).
Proof.
  induction ps as [|p ps IH]; intros s s' ps' Hm Hok H; cbn [fold_postings] in H.
  - inversion H; subst. split; [reflexivity|split; [assumption|]]. intros g. cbn [map]. rewrite psum_nil. ring.
  - destruct (close_posting s t p) as [[s1 p1]| |] eqn:E1; try discriminate. cbn [rbind fst snd] in H.
    destruct (fold_postings close_posting t s1 ps) as [[s2 ps2]| |] eqn:E2; try discriminate.
    cbn [rbind fst snd] in H. inversion H; subst s' ps'. clear H.
    cbn [map] in Hok. change ((t_date t, p) :: map (fun p0 => (t_date t, p0)) ps)
      with ([(t_date t, p)] ++ map (fun p0 => (t_date t, p0)) ps) in Hok.
    apply posts_ok_app in Hok. destruct Hok as [Hp Hps].
    assert (Hstep : p1 = p /\ map_ok (c_qty s1) /\ forall g, msum g (c_qty s1) == msum g (c_qty s) + psum g [(t_date t, p)]).
    { unfold close_posting in E1. rewrite closable_neg in E1.
      unfold psum, qsum, closable_dp. cbn [fold_right snd].
      destruct (closable (p_acc p)) eqn:Ec; cbn [negb] in E1; inversion E1; subst s1 p1; cbn [c_qty].
      - assert (Ha : account_ok (p_acc p) = true) by (apply (Hp (t_date t, p)); left; reflexivity).
        split; [reflexivity|]. split; [apply (msum_pos_add (fun _ _ => 0)); assumption|].
        intros g. rewrite (proj1 (msum_pos_add g _ _ (p_com p) (p_qty p) Hm Ha Ec)). ring.
      - split; [reflexivity|split; [assumption|intros g; ring]]. }
    destruct Hstep as (-> & Hm1 & Hs1).
    destruct (IH _ _ _ Hm1 Hps E2) as (-> & Hm2 & Hs2).
    split; [reflexivity|split; [assumption|]]. intros g.
    rewrite Hs2, Hs1. cbn [map].
    change ((t_date t, p) :: map (fun p0 => (t_date t, p0)) ps)
      with ([(t_date t, p)] ++ map (fun p0 => (t_date t, p0)) ps).
    rewrite psum_app. ring.
Qed.

Lemma close_txns cds : forall ts s s' ts',
  map_ok (c_qty s) -> posts_ok (txns_postings ts) ->
  fold_txns (close_proc cds) s ts = ROk (s', ts') ->
  ts' = ts /\ map_ok (c_qty s') /\
  forall g, msum g (c_qty s') == msum g (c_qty s) + psum g (txns_postings ts).
Proof.
  induction ts as [|t ts IH]; intros s s' ts' Hm Hok H; cbn [fold_txns] in H.
  - inversion H; subst. split; [reflexivity|split; [assumption|]]. intros g. unfold txns_postings. cbn [map concat].
    rewrite psum_nil. ring.
  - cbn [close_proc pr_txn pr_posting rbind] in H.
    destruct (fold_postings close_posting t s (t_postings t)) as [[s1 ps1]| |] eqn:E1; try discriminate.
    cbn [rbind fst snd] in H.
    unfold txns_postings in Hok. cbn [map concat] in Hok. apply posts_ok_app in Hok. destruct Hok as [Hp Hps].
    destruct (close_postings t _ _ _ _ Hm Hp E1) as (-> & Hm1 & Hs1).
    destruct (fold_txns (close_proc cds) s1 ts) as [[s2 ts2]| |] eqn:E2; try discriminate.
    cbn [rbind fst snd] in H. inversion H; subst s' ts'. clear H.
    destruct (IH _ _ _ Hm1 Hps E2) as (-> & Hm2 & Hs2).
    split; [rewrite txn_rebuild; reflexivity|split; [assumption|]]. intros g.
    unfold txns_postings in *. cbn [map concat]. rewrite psum_app, Hs2, Hs1. ring.
Qed.

(* the postings of the closing transactions undo the accumulated quantities *)
Lemma account_ok_equity : account_ok equity_account = true.
Proof. reflexivity. Qed.

Lemma closable_equity : closable equity_account = false.
Proof. reflexivity. Qed.

Lemma closing_txns_psum g date vs : forall m, Forall entry_ok m ->
  psum g (txns_postings (closing_txns date m vs)) == - msum g m
  /\ posts_ok (txns_postings (closing_txns date m vs)).
Proof.
  induction m as [|[k0 [[a c] qy]] m IH]; intros Hok; cbn [closing_txns].
  - split; [unfold txns_postings; cbn [map concat]; rewrite psum_nil; unfold msum, qsum; cbn [fold_right]; ring|intros dp []].
  - inversion Hok as [|? ? Hx Hrest]; subst. destruct (IH Hrest) as [IH1 IH2].
    destruct Hx as (_ & Ha & Hc). cbn [fst snd] in Ha, Hc.
    rewrite msum_cons. cbn [fst snd].
    destruct (is_zero qy && is_zero (match pos_get vs a c with Some x => x | None => dec_nil end)) eqn:Ez.
    + apply andb_true_iff in Ez. destruct Ez as [Ez _]. apply is_zero_value in Ez.
      split; [rewrite IH1, Ez; ring|exact IH2].
    + unfold txns_postings in *. cbn [map concat t_date t_postings]. split.
      * rewrite psum_app, IH1. unfold pair_build.
        destruct (is_neg qy || is_zero qy && is_neg _); cbn [map]; unfold psum, qsum, closable_dp;
          cbn [fold_right snd p_acc p_com p_qty]; rewrite Hc, closable_equity, ?dvalue_neg; ring.
      * apply posts_ok_app. split; [|exact IH2]. unfold pair_build.
        destruct (is_neg qy || is_zero qy && is_neg _); cbn [map]; intros dp [<-|[<-|[]]]; cbn [snd p_acc];
          try exact Ha; exact account_ok_equity.
Qed.

(* what the query does with a posting, as an indicator times the amount *)
Definition q_ind (q : query) (row : account) (k : rkey) (d : Z) (a : account) (c : commodity) : Q :=
  if q_where q a c then
    match q_account q a with
    | ShAcc a' => if acc_eqb a' row then (if rkey_eqb (q_date q d, Some c) k then 1 else 0) else 0
    | _ => 0
    end
  else 0.

Lemma q_contrib_ind q row k d p :
  q_contrib q row k (d, p) == q_ind q row k d (p_acc p) (p_com p) * dvalue (if q_valued q then p_val p else p_qty p).
Proof.
  unfold q_contrib, q_ind. destruct (q_where q (p_acc p) (p_com p)); [|ring].
  destruct (q_account q (p_acc p)) as [a'| |]; try ring.
  unfold delta_at, contrib, idk. destruct (acc_eqb a' row); [|ring].
  destruct (rkey_eqb (q_date q d, Some (p_com p)) k); ring.
Qed.

Lemma day_postings_txns d : day_postings d = txns_postings (d_txns d).
Proof. reflexivity. Qed.

Lemma txns_postings_app a b : txns_postings (a ++ b) = txns_postings a ++ txns_postings b.
Proof. unfold txns_postings. rewrite map_app, concat_app. reflexivity. Qed.

Definition firstclose (cds : list Z) (ds : list day) : option Z :=
  find (fun x => existsb (Z.eqb x) cds) (dates ds).

Section CloseFold.
  Variable q : query.
  Variable row : account.
  Variable k : rkey.
  Hypothesis unvalued : q_valued q = false.
  Variable cds : list Z.

  (* a quantity x carried from (a, c) to Equity:Equity on day S shows up as G S a c * x *)
  Definition G (cd : Z) (a : account) (c : commodity) : Q :=
    q_ind q row k cd equity_account c - q_ind q row k cd a c.

  Lemma closing_txns_total date vs : forall m,
    q_total q row k (txns_postings (closing_txns date m vs)) == msum (G date) m.
  Proof.
    induction m as [|[k0 [[a c] qy]] m IH]; cbn [closing_txns].
    - reflexivity.
    - rewrite msum_cons. cbn [fst snd].
      destruct (is_zero qy && is_zero (match pos_get vs a c with Some x => x | None => dec_nil end)) eqn:Ez.
      + apply andb_true_iff in Ez. destruct Ez as [Ez _]. apply is_zero_value in Ez. rewrite IH, Ez. ring.
      + unfold txns_postings in *. cbn [map concat t_date t_postings]. rewrite q_total_app, IH.
        unfold pair_build, G.
        destruct (is_neg qy || is_zero qy && is_neg _); cbn [map]; unfold q_total; cbn [fold_right];
          rewrite !q_contrib_ind, unvalued; cbn [p_acc p_com p_qty]; rewrite ?dvalue_neg; ring.
  Qed.

  Fixpoint DD (ds : list day) : Q :=
    match ds with
    | [] => 0
    | d :: rest => (match firstclose cds rest with Some cd => psum (G cd) (day_postings d) | None => 0 end) + DD rest
    end.

  Lemma close_day s d s' d' :
    map_ok (c_qty s) -> posts_ok (day_postings d) ->
    process_day (close_proc cds) s d = ROk (s', d') ->
    d' = (if existsb (Z.eqb (d_date d)) cds
          then set_txns d (d_txns d ++ closing_txns (d_date d) (c_qty s) (c_val s)) else d)
    /\ map_ok (c_qty s')
    /\ forall g, msum g (c_qty s') == (if existsb (Z.eqb (d_date d)) cds then 0 else msum g (c_qty s)) + psum g (day_postings d).
  Proof.
    intros Hm Hok H. unfold process_day in H.
    cbn [close_proc pr_day_start pr_price pr_open pr_balance pr_close pr_day_end] in H.
    unfold close_day_start in H.
    assert (Ha : forall l s0, fold_asserts (close_proc cds) s0 l = ROk s0).
    { induction l as [|a l IHl]; intros s0; cbn [fold_asserts close_proc pr_balance rbind]; [reflexivity|apply IHl]. }
    destruct (existsb (Z.eqb (d_date d)) cds) eqn:Ecl; cbn [rbind fst snd] in H.
    - cbn [set_txns d_txns d_date d_prices d_opens d_asserts d_closes d_normalized] in H.
      destruct (fold_txns (close_proc cds) s (d_txns d ++ closing_txns (d_date d) (c_qty s) (c_val s))) as [[s1 ts1]| |] eqn:E1;
        try discriminate.
      cbn [rbind fst snd] in H. rewrite Ha in H. cbn [rbind] in H. inversion H; subst s' d'. clear H.
      destruct (closing_txns_psum (fun _ _ => 0) (d_date d) (c_val s) (c_qty s) (proj2 Hm)) as [_ Hcok].
      assert (Hall : posts_ok (txns_postings (d_txns d ++ closing_txns (d_date d) (c_qty s) (c_val s)))).
      { rewrite txns_postings_app. apply posts_ok_app. split; assumption. }
      destruct (close_txns cds _ _ _ _ Hm Hall E1) as (-> & Hm1 & Hs1).
      split; [reflexivity|split; [assumption|]]. intros g.
      rewrite Hs1, txns_postings_app, psum_app.
      rewrite (proj1 (closing_txns_psum g (d_date d) (c_val s) (c_qty s) (proj2 Hm))).
      rewrite day_postings_txns. ring.
    - destruct (fold_txns (close_proc cds) s (d_txns d)) as [[s1 ts1]| |] eqn:E1; try discriminate.
      cbn [rbind fst snd] in H. rewrite Ha in H. cbn [rbind] in H. inversion H; subst s' d'. clear H.
      destruct (close_txns cds _ _ _ _ Hm Hok E1) as (-> & Hm1 & Hs1).
      split; [apply day_rebuild|split; [assumption|]]. intros g. rewrite Hs1. reflexivity.
  Qed.

  Lemma close_days : forall ds s s' ds',
    map_ok (c_qty s) -> posts_ok (days_postings ds) ->
    process_days (close_proc cds) s ds = ROk (s', ds') ->
    q_total q row k (days_postings ds') ==
    q_total q row k (days_postings ds)
    + (match firstclose cds ds with Some cd => msum (G cd) (c_qty s) | None => 0 end) + DD ds.
  Proof.
    induction ds as [|d ds IH]; intros s s' ds' Hm Hok H; cbn [process_days] in H.
    - inversion H; subst. cbn. ring.
    - destruct (process_day (close_proc cds) s d) as [[s1 d1]| |] eqn:E1; try discriminate.
      cbn [rbind fst snd] in H.
      destruct (process_days (close_proc cds) s1 ds) as [[s2 ds2]| |] eqn:E2; try discriminate.
      cbn [rbind fst snd] in H. inversion H; subst s' ds'. clear H.
      unfold days_postings in Hok. cbn [map concat] in Hok. apply posts_ok_app in Hok. destruct Hok as [Hd Hds].
      destruct (close_day _ _ _ _ Hm Hd E1) as (Hd1 & Hm1 & Hs1).
      specialize (IH _ _ _ Hm1 Hds E2).
      unfold days_postings in *. cbn [map concat]. rewrite !q_total_app, IH. clear IH.
      cbn [DD]. unfold firstclose at 2. unfold dates. cbn [map find].
      change (find (fun x => existsb (Z.eqb x) cds) (map d_date ds)) with (firstclose cds ds).
      destruct (existsb (Z.eqb (d_date d)) cds) eqn:Ecl.
      + subst d1. rewrite day_postings_txns. cbn [set_txns d_txns]. rewrite txns_postings_app, q_total_app.
        rewrite closing_txns_total, <- day_postings_txns.
        destruct (firstclose cds ds) as [cd|]; [rewrite (Hs1 (G cd))|]; ring.
      + subst d1. destruct (firstclose cds ds) as [cd|]; [rewrite (Hs1 (G cd))|]; ring.
  Qed.
End CloseFold.

(* ------------------------------------------------------------ Part C: dates *)

Lemma find_none_all {A} (f : A -> bool) l : (forall x, In x l -> f x = false) -> find f l = None.
Proof.
  induction l as [|x l IH]; intros H; cbn [find]; [reflexivity|].
  rewrite (H x (or_introl eq_refl)). apply IH. intros y Hy. apply H. right. exact Hy.
Qed.

Lemma find_ext_in {A} (f g : A -> bool) l : (forall x, In x l -> f x = g x) -> find f l = find g l.
Proof.
  induction l as [|x l IH]; intros H; cbn [find]; [reflexivity|].
  rewrite (H x (or_introl eq_refl)). rewrite IH; [reflexivity|]. intros y Hy. apply H. right. exact Hy.
Qed.

Lemma find_sorted_first (f : Z -> bool) l x :
  StronglySorted Z.lt l -> In x l -> f x = true -> (forall y, In y l -> (y < x)%Z -> f y = false) ->
  find f l = Some x.
Proof.
  induction l as [|y l IH]; intros Hs Hin Hfx Hlow; [destruct Hin|].
  inversion Hs as [|? ? Hs' Hall]; subst. cbn [find].
  destruct Hin as [->|Hin]; [rewrite Hfx; reflexivity|].
  rewrite Forall_forall in Hall.
  rewrite (Hlow y (or_introl eq_refl) (Hall _ Hin)).
  apply IH; try assumption. intros z Hz. apply Hlow. right. exact Hz.
Qed.

Lemma existsb_eqb_false (y : Z) l : ~ In y l -> existsb (Z.eqb y) l = false.
Proof.
  intros H. destruct (existsb (Z.eqb y) l) eqn:E; [|reflexivity]. exfalso.
  apply existsb_exists in E. destruct E as (x & Hx & Hyx). apply Z.eqb_eq in Hyx. subst. contradiction.
Qed.

(* in a sorted list of days that has a day for every period start above lo, the first closing
   day is the first period start above lo *)
Lemma firstclose_nxt : forall starts, StronglySorted Z.lt starts -> forall lo l,
  StronglySorted Z.lt l -> (forall x, In x l -> (lo < x)%Z) ->
  (forall s, In s starts -> (lo < s)%Z -> In s l) ->
  find (fun x => existsb (Z.eqb x) starts) l = find (fun s => (lo <? s)%Z) starts.
Proof.
  induction starts as [|s rest IH]; intros Hss lo l Hsl Hlo Hcov.
  - cbn [find]. apply find_none_all. intros; reflexivity.
  - inversion Hss as [|? ? Hss' Hall]; subst. rewrite Forall_forall in Hall. cbn [find].
    destruct (lo <? s)%Z eqn:E.
    + apply Z.ltb_lt in E. apply find_sorted_first; try assumption.
      * apply Hcov; [left; reflexivity|exact E].
      * cbn [existsb]. rewrite Z.eqb_refl. reflexivity.
      * intros y Hy Hlt. cbn [existsb]. replace (y =? s)%Z with false by lia. cbn [orb].
        apply existsb_eqb_false. intros Hin. specialize (Hall _ Hin). lia.
    + apply Z.ltb_ge in E. rewrite <- (IH Hss' lo l Hsl Hlo).
      * apply find_ext_in. intros x Hx. cbn [existsb]. specialize (Hlo _ Hx). replace (x =? s)%Z with false by lia. reflexivity.
      * intros s' Hs' Hlt. apply Hcov; [right; exact Hs'|exact Hlt].
Qed.

Definition nxt (starts : list Z) (d : Z) : option Z := find (fun s => (d <? s)%Z) starts.

Lemma day_postings_date d dp :
  Forall (fun t => t_date t = d_date d) (d_txns d) -> In dp (day_postings d) -> fst dp = d_date d.
Proof.
  intros Hx Hin. unfold day_postings in Hin. apply in_concat in Hin. destruct Hin as (l & Hl & Hin).
  apply in_map_iff in Hl. destruct Hl as (t & <- & Ht). apply in_map_iff in Hin. destruct Hin as (p0 & <- & _).
  cbn [fst]. rewrite Forall_forall in Hx. apply Hx. exact Ht.
Qed.

Section NextClose.
  Variable q : query.
  Variable row : account.
  Variable k : rkey.
  Variable starts : list Z.
  Hypothesis starts_sorted : StronglySorted Z.lt starts.

  (* what one posting adds through the closing transaction of the next period start *)
  Definition NX (dp : Z * posting) : Q :=
    match nxt starts (fst dp) with
    | Some cd => if closable_dp dp then G q row k cd (p_acc (snd dp)) (p_com (snd dp)) * dvalue (p_qty (snd dp)) else 0
    | None => 0
    end.

  Lemma DD_nxt : forall ds lo,
    StronglySorted Z.lt (dates ds) -> (forall x, In x (dates ds) -> (lo < x)%Z) ->
    (forall s, In s starts -> (lo < s)%Z -> In s (dates ds)) -> days_dated ds ->
    DD q row k starts ds == qsum NX (days_postings ds).
  Proof.
    induction ds as [|d ds IH]; intros lo Hs Hlo Hcov Hdt; cbn [DD]; [reflexivity|].
    unfold dates in Hs, Hlo, Hcov. cbn [map] in Hs, Hlo, Hcov.
    inversion Hs as [|? ? Hs' Hall]; subst. rewrite Forall_forall in Hall.
    inversion Hdt as [|? ? Hd Hdt']; subst.
    assert (Hcov' : forall s, In s starts -> (d_date d < s)%Z -> In s (dates ds)).
    { intros s Hin Hlt. destruct (Hcov s Hin) as [E|E]; [specialize (Hlo _ (or_introl eq_refl)); lia|lia|exact E]. }
    unfold days_postings. cbn [map concat]. rewrite qsum_app.
    change (concat (map day_postings ds)) with (days_postings ds).
    rewrite (IH (d_date d) Hs' Hall Hcov' Hdt').
    apply Qplus_comp; [|reflexivity].
    unfold firstclose. rewrite (firstclose_nxt starts starts_sorted (d_date d) (dates ds) Hs' Hall Hcov').
    change (find (fun s => (d_date d <? s)%Z) starts) with (nxt starts (d_date d)).
    destruct (nxt starts (d_date d)) as [cd|] eqn:En.
    - unfold psum. apply qsum_ext. intros dp Hin. unfold NX. rewrite (day_postings_date d dp Hd Hin), En. reflexivity.
    - symmetry. apply qsum_zero. intros dp Hin. unfold NX. rewrite (day_postings_date d dp Hd Hin), En. reflexivity.
  Qed.
End NextClose.

(* ------------------------------------------------------------ Part D: the specification per posting *)

Lemma qsum_plus {A} (f g : A -> Q) l : qsum (fun x => f x + g x) l == qsum f l + qsum g l.
Proof. unfold qsum. induction l as [|x l IH]; cbn [fold_right]; [ring|]. rewrite IH. ring. Qed.

Lemma qsum_scale {A} (c : Q) (f : A -> Q) l : qsum (fun x => c * f x) l == c * qsum f l.
Proof. unfold qsum. induction l as [|x l IH]; cbn [fold_right]; [ring|]. rewrite IH. ring. Qed.

Lemma qsum_const0 {A} (l : list A) : qsum (fun _ => 0) l == 0.
Proof. apply qsum_zero. intros; reflexivity. Qed.

Lemma qsum_swap {A B} (F : A -> B -> Q) la lb :
  qsum (fun a => qsum (fun b => F a b) lb) la == qsum (fun b => qsum (fun a => F a b) la) lb.
Proof.
  induction la as [|a la IH].
  - unfold qsum at 1. cbn [fold_right]. symmetry. apply qsum_const0.
  - unfold qsum at 1. cbn [fold_right]. fold (qsum (fun a0 => qsum (fun b => F a0 b) lb) la). rewrite IH.
    rewrite <- qsum_plus. apply qsum_ext. intros b _. reflexivity.
Qed.

(* what one entry of the ledger adds to the cell (row, c0, col0) *)
Definition s_ind (cfg : balance_cfg) (row : account) (c0 : commodity) (col0 : Z) (col : Z) (a : account) (c : commodity) : Q :=
  if cfg_where cfg a c then
    match shorten (bc_mapping cfg) (remap (bc_remap cfg) a) with
    | ShAcc a' => if (col =? col0)%Z && acc_eqb row a' && str_eqb c c0 then 1 else 0
    | _ => 0
    end
  else 0.

Definition e_val (cfg : balance_cfg) (row : account) (c0 : commodity) (col0 : Z) (e : entry) : Q :=
  s_ind cfg row c0 col0 (fst (fst (fst e))) (snd (fst (fst e))) (snd (fst e)) * dvalue (snd e).

Lemma period_amount_entries cfg es row c col :
  dvalue (period_amount (mapped_entries cfg es) (acc_eqb row) c col) == qsum (e_val cfg row c col) es.
Proof.
  unfold period_amount. rewrite dvalue_dsum, qsum_concat_map.
  unfold mapped_entries. rewrite qsum_concat_map.
  apply qsum_ext. intros [[[col' a] c'] v] _. unfold e_val, s_ind. cbn [fst snd].
  destruct (cfg_where cfg a c'); [|cbn; ring].
  destruct (shorten (bc_mapping cfg) (remap (bc_remap cfg) a)) as [a'| |]; try (cbn; ring).
  unfold qsum. cbn [fold_right].
  destruct ((col' =? col)%Z && acc_eqb row a' && str_eqb c' c); cbn [fold_right]; ring.
Qed.

Section SpecClose.
  Variable cfg : balance_cfg.
  Variable row : account.
  Variable c0 : commodity.
  Variable col0 : Z.
  Variable posts : list (Z * posting).
  Variable keys : list (account * commodity).

  Definition GS (col : Z) (a : account) (c : commodity) : Q :=
    s_ind cfg row c0 col0 col equity_account c - s_ind cfg row c0 col0 col a c.

  Fixpoint CE (prev : Z) (ps : list period) : Q :=
    match ps with
    | [] => 0
    | p :: rest =>
      qsum (fun k => GS (p_end p) (fst k) (snd k) * dvalue (sum_between posts k prev (p_start p - 1))) keys
      + CE (p_start p) rest
    end.

  Lemma closing_entries_CE : forall ps prev,
    qsum (e_val cfg row c0 col0) (closing_entries posts keys prev ps) == CE prev ps.
  Proof.
    induction ps as [|p ps IH]; intros prev; cbn [closing_entries CE]; [reflexivity|].
    rewrite qsum_app, IH, qsum_concat_map. apply Qplus_comp; [|reflexivity].
    apply qsum_ext. intros [a c] _. cbn [fst snd].
    destruct (is_zero (sum_between posts (a, c) prev (p_start p - 1))) eqn:Ez.
    - apply is_zero_value in Ez. rewrite Ez. unfold qsum. cbn [fold_right]. ring.
    - unfold qsum, e_val, GS. cbn [fold_right fst snd]. rewrite dvalue_neg. unfold equity_account. ring.
  Qed.
End SpecClose.

(* -- keys -- *)
Definition keq (k x : account * commodity) : bool := acc_eqb (fst k) (fst x) && str_eqb (snd k) (snd x).
Definition key_of (dp : Z * posting) : account * commodity := (p_acc (snd dp), p_com (snd dp)).

Lemma keq_spec k x : keq k x = true <-> acc_name (fst k) = acc_name (fst x) /\ snd k = snd x.
Proof. unfold keq. rewrite andb_true_iff, acc_eqb_name, CheckLemmas.str_eqb_eq. reflexivity. Qed.

Lemma keq_refl k : keq k k = true.
Proof. apply keq_spec. split; reflexivity. Qed.

Lemma keq_sym k x : keq k x = keq x k.
Proof.
  destruct (keq k x) eqn:E1, (keq x k) eqn:E2; try reflexivity.
  - apply keq_spec in E1. destruct E1 as [A B]. assert (H : keq x k = true) by (apply keq_spec; split; congruence). congruence.
  - apply keq_spec in E2. destruct E2 as [A B]. assert (H : keq k x = true) by (apply keq_spec; split; congruence). congruence.
Qed.

Lemma keq_trans a b c : keq a b = true -> keq b c = true -> keq a c = true.
Proof. rewrite !keq_spec. intros [A B] [C D]. split; congruence. Qed.

Lemma keq_eq k x : account_ok (fst k) = true -> account_ok (fst x) = true -> keq k x = true -> k = x.
Proof.
  intros Hk Hx H. apply keq_spec in H. destruct H as [A B]. destruct k, x. cbn [fst snd] in *.
  f_equal; [apply acc_name_inj; assumption|exact B].
Qed.

Lemma add_key_spec k l : add_key k l = if existsb (keq k) l then l else l ++ [k].
Proof.
  induction l as [|x l IH]; cbn [add_key existsb app]; [reflexivity|].
  change (acc_eqb (fst k) (fst x) && str_eqb (snd k) (snd x)) with (keq k x).
  destruct (keq k x); cbn [orb]; [reflexivity|]. rewrite IH. destruct (existsb (keq k) l); reflexivity.
Qed.

Definition kcount (k0 : account * commodity) (ks : list (account * commodity)) : Q :=
  qsum (fun k => if keq k0 k then 1 else 0) ks.

Definition knodup (ks : list (account * commodity)) : Prop :=
  forall k0, kcount k0 ks == if existsb (keq k0) ks then 1 else 0.

Lemma knodup_add k ks : knodup ks -> knodup (add_key k ks).
Proof.
  intros H k0. rewrite add_key_spec. destruct (existsb (keq k) ks) eqn:E; [apply H|].
  unfold kcount. rewrite qsum_app, existsb_app. fold (kcount k0 ks). rewrite (H k0).
  unfold qsum. cbn [fold_right existsb]. rewrite orb_false_r.
  destruct (keq k0 k) eqn:Ek.
  - assert (En : existsb (keq k0) ks = false).
    { destruct (existsb (keq k0) ks) eqn:E2; [|reflexivity]. exfalso.
      apply existsb_exists in E2. destruct E2 as (x & Hx & Hkx).
      assert (Hc : existsb (keq k) ks = true).
      { apply existsb_exists. exists x. split; [exact Hx|]. apply (keq_trans k k0 x); [rewrite keq_sym; exact Ek|exact Hkx]. }
      congruence. }
    rewrite En. cbn [orb]. ring.
  - rewrite orb_false_r. destruct (existsb (keq k0) ks); ring.
Qed.

Definition span_dp (sp : period) (dp : Z * posting) : bool := in_span sp (fst dp).

Definition key_step (sp : period) (l : list (account * commodity)) (dp : Z * posting) : list (account * commodity) :=
  if span_dp sp dp && closable_dp dp then add_key (key_of dp) l else l.

Lemma closable_keys_fold sp posts : closable_keys sp posts = fold_left (key_step sp) posts [].
Proof.
  unfold closable_keys. generalize (@nil (account * commodity)). induction posts as [|[d p] posts IH]; intros l; cbn [fold_left]; [reflexivity|].
  rewrite IH. reflexivity.
Qed.

Lemma keys_nodup sp : forall posts acc, knodup acc -> knodup (fold_left (key_step sp) posts acc).
Proof.
  induction posts as [|dp posts IH]; intros acc H; cbn [fold_left]; [exact H|].
  apply IH. unfold key_step. destruct (span_dp sp dp && closable_dp dp); [apply knodup_add|]; exact H.
Qed.

Lemma existsb_add_key k0 k l : existsb (keq k0) l = true -> existsb (keq k0) (add_key k l) = true.
Proof. intros H. rewrite add_key_spec. destruct (existsb (keq k) l); [exact H|]. rewrite existsb_app, H. reflexivity. Qed.

Lemma existsb_add_key_self k l : existsb (keq k) (add_key k l) = true.
Proof.
  rewrite add_key_spec. destruct (existsb (keq k) l) eqn:E; [exact E|].
  rewrite existsb_app. cbn [existsb]. rewrite keq_refl, orb_true_r. reflexivity.
Qed.

Lemma keys_mono sp k0 : forall posts acc,
  existsb (keq k0) acc = true -> existsb (keq k0) (fold_left (key_step sp) posts acc) = true.
Proof.
  induction posts as [|dp posts IH]; intros acc H; cbn [fold_left]; [exact H|].
  apply IH. unfold key_step. destruct (span_dp sp dp && closable_dp dp); [apply existsb_add_key|]; exact H.
Qed.

Lemma keys_complete sp dp : forall posts acc,
  In dp posts -> span_dp sp dp = true -> closable_dp dp = true ->
  existsb (keq (key_of dp)) (fold_left (key_step sp) posts acc) = true.
Proof.
  induction posts as [|x posts IH]; intros acc Hin Hs Hc; [destruct Hin|]. cbn [fold_left].
  destruct Hin as [->|Hin]; [|apply IH; assumption].
  apply keys_mono. unfold key_step. rewrite Hs, Hc. cbn [andb]. apply existsb_add_key_self.
Qed.

Lemma keys_sound sp k : forall posts acc,
  In k (fold_left (key_step sp) posts acc) ->
  In k acc \/ exists dp, In dp posts /\ k = key_of dp /\ span_dp sp dp = true /\ closable_dp dp = true.
Proof.
  induction posts as [|x posts IH]; intros acc Hin; cbn [fold_left] in Hin; [left; exact Hin|].
  destruct (IH _ Hin) as [H|(dp & H1 & H2)].
  - unfold key_step in H. destruct (span_dp sp x && closable_dp x) eqn:E; [|left; exact H].
    rewrite add_key_spec in H. destruct (existsb (keq (key_of x)) acc); [left; exact H|].
    apply in_app_or in H. destruct H as [H|[<-|[]]]; [left; exact H|].
    right. exists x. apply andb_true_iff in E. destruct E. repeat split; try assumption. left; reflexivity.
  - right. exists dp. split; [right; exact H1|exact H2].
Qed.

Lemma sum_between_value posts k lo hi :
  dvalue (sum_between posts k lo hi) ==
  qsum (fun dp => if ((lo <=? fst dp) && (fst dp <=? hi))%Z && keq (key_of dp) k then dvalue (p_qty (snd dp)) else 0) posts.
Proof.
  unfold sum_between. rewrite dvalue_dsum, qsum_concat_map. apply qsum_ext. intros [d p] _.
  unfold keq, key_of. cbn [fst snd]. rewrite andb_assoc.
  destruct ((lo <=? d)%Z && (d <=? hi)%Z && acc_eqb (p_acc p) (fst k) && str_eqb (p_com p) (snd k));
    unfold qsum; cbn [fold_right]; ring.
Qed.

(* the sum over the keys of the per-key sums is the sum over the postings *)
Lemma regroup sp posts (g : account -> commodity -> Q) lo hi :
  posts_ok posts -> (forall d, (lo <= d <= hi)%Z -> in_span sp d = true) ->
  qsum (fun k => g (fst k) (snd k) * dvalue (sum_between posts k lo hi)) (closable_keys sp posts)
  == qsum (fun dp => if ((lo <=? fst dp) && (fst dp <=? hi))%Z && closable_dp dp
                     then g (p_acc (snd dp)) (p_com (snd dp)) * dvalue (p_qty (snd dp)) else 0) posts.
Proof.
  intros Hok Hr. rewrite closable_keys_fold. set (keys := fold_left (key_step sp) posts []).
  assert (Hnd : knodup keys).
  { apply keys_nodup. intros k0. unfold kcount, qsum. cbn. reflexivity. }
  assert (Hkok : forall k, In k keys -> exists dp, In dp posts /\ k = key_of dp /\ closable_dp dp = true).
  { intros k Hin. destruct (keys_sound sp k posts [] Hin) as [[]|(dp & A & B & _ & D)]. exists dp. repeat split; assumption. }
  transitivity (qsum (fun k => qsum (fun dp => g (fst k) (snd k) *
     (if ((lo <=? fst dp) && (fst dp <=? hi))%Z && keq (key_of dp) k then dvalue (p_qty (snd dp)) else 0)) posts) keys).
  { apply qsum_ext. intros k _. rewrite sum_between_value, <- qsum_scale. reflexivity. }
  rewrite qsum_swap. apply qsum_ext. intros dp Hdp.
  destruct ((lo <=? fst dp)%Z && (fst dp <=? hi)%Z) eqn:Er; cbn [andb].
  2: { apply qsum_zero. intros; ring. }
  assert (Hsp : span_dp sp dp = true) by (unfold span_dp; apply Hr; lia).
  assert (Hadp : account_ok (fst (key_of dp)) = true) by (apply Hok; exact Hdp).
  transitivity (qsum (fun k => (g (p_acc (snd dp)) (p_com (snd dp)) * dvalue (p_qty (snd dp))) * (if keq (key_of dp) k then 1 else 0)) keys).
  { apply qsum_ext. intros k Hk. destruct (keq (key_of dp) k) eqn:Ek; [|ring].
    destruct (Hkok k Hk) as (dp' & Hin' & -> & _).
    assert (E : key_of dp = key_of dp') by (apply keq_eq; [exact Hadp|apply Hok; exact Hin'|exact Ek]).
    rewrite <- E. unfold key_of. cbn [fst snd]. ring. }
  rewrite qsum_scale. fold (kcount (key_of dp) keys). rewrite (Hnd (key_of dp)).
  destruct (closable_dp dp) eqn:Ec.
  - unfold keys. rewrite (keys_complete sp dp posts [] Hdp Hsp Ec). ring.
  - destruct (existsb (keq (key_of dp)) keys) eqn:Ex; [|ring]. exfalso.
    apply existsb_exists in Ex. destruct Ex as (k & Hk & Ek).
    destruct (Hkok k Hk) as (dp' & Hin' & -> & Hc').
    assert (E : key_of dp = key_of dp') by (apply keq_eq; [exact Hadp|apply Hok; exact Hin'|exact Ek]).
    unfold closable_dp in *. unfold key_of in E. inversion E as [[E1 E2]]. rewrite E1 in Ec. congruence.
Qed.

Fixpoint chain_le (prev : Z) (ps : list period) : Prop :=
  match ps with [] => True | p :: rest => (prev <= p_start p)%Z /\ chain_le (p_start p) rest end.

Section SpecPosting.
  Variable cfg : balance_cfg.
  Variable row : account.
  Variable c0 : commodity.
  Variable col0 : Z.

  (* what one posting adds through the closing entries of the periods ps *)
  Fixpoint RS (prev : Z) (ps : list period) (dp : Z * posting) : Q :=
    match ps with
    | [] => 0
    | p :: rest =>
      (if ((prev <=? fst dp) && (fst dp <=? p_start p - 1))%Z && closable_dp dp
       then GS cfg row c0 col0 (p_end p) (p_acc (snd dp)) (p_com (snd dp)) * dvalue (p_qty (snd dp)) else 0)
      + RS (p_start p) rest dp
    end.

  Lemma CE_RS sp posts : posts_ok posts -> forall ps prev,
    (p_start sp <= prev)%Z ->
    Forall (fun p => (p_start sp <= p_start p)%Z /\ (p_start p - 1 <= p_end sp)%Z) ps ->
    CE cfg row c0 col0 posts (closable_keys sp posts) prev ps == qsum (RS prev ps) posts.
  Proof.
    intros Hok. induction ps as [|p ps IH]; intros prev Hprev Hall; cbn [CE].
    - symmetry. apply qsum_const0.
    - inversion Hall as [|? ? [Hp1 Hp2] Hrest]; subst.
      rewrite (IH (p_start p) Hp1 Hrest).
      rewrite (regroup sp posts (GS cfg row c0 col0 (p_end p)) prev (p_start p - 1) Hok).
      + rewrite <- qsum_plus. apply qsum_ext. intros dp _. reflexivity.
      + intros d Hd. unfold in_span. lia.
  Qed.

  Lemma RS_before : forall ps prev dp, chain_le prev ps -> (fst dp < prev)%Z -> RS prev ps dp == 0.
  Proof.
    induction ps as [|p ps IH]; intros prev dp Hc Hlt; cbn [RS]; [reflexivity|].
    destruct Hc as [H1 H2]. rewrite (IH _ _ H2) by lia.
    replace (prev <=? fst dp)%Z with false by lia. cbn [andb]. ring.
  Qed.

  Lemma RS_find : forall ps prev dp, chain_le prev ps -> (prev <= fst dp)%Z ->
    RS prev ps dp ==
    if closable_dp dp then
      match find (fun p => (fst dp <? p_start p)%Z) ps with
      | Some p => GS cfg row c0 col0 (p_end p) (p_acc (snd dp)) (p_com (snd dp)) * dvalue (p_qty (snd dp))
      | None => 0
      end
    else 0.
  Proof.
    induction ps as [|p ps IH]; intros prev dp Hc Hle; cbn [RS find].
    - destruct (closable_dp dp); reflexivity.
    - destruct Hc as [H1 H2]. destruct (fst dp <? p_start p)%Z eqn:E.
      + rewrite (RS_before _ _ _ H2) by lia.
        replace ((prev <=? fst dp)%Z && (fst dp <=? p_start p - 1)%Z) with true by lia. cbn [andb].
        destruct (closable_dp dp); ring.
      + rewrite (IH _ _ H2) by lia.
        replace ((prev <=? fst dp)%Z && (fst dp <=? p_start p - 1)%Z) with false by lia. cbn [andb]. ring.
  Qed.
End SpecPosting.

(* ------------------------------------------------------------ Part E: assembly *)

(* -- the partition -- *)
Lemma np_loop_nonpos : forall fuel s iv last c e acc, (last <= 0)%Z ->
  np_loop fuel s iv last c e acc = np_loop fuel s iv 0 c e acc.
Proof.
  induction fuel as [|f IH]; intros s iv last c e acc Hl; cbn [np_loop];
    replace (0 <? last)%Z with false by lia; replace (0 <? 0)%Z with false by reflexivity;
    rewrite !andb_false_r; [reflexivity|].
  destruct (e <? s)%Z; cbn [orb]; [reflexivity|]. apply IH. exact Hl.
Qed.

Lemma new_partition_nonpos p iv n : (n <= 0)%Z -> new_partition p iv n = new_partition p iv 0.
Proof.
  intros Hn. unfold new_partition. destruct (p_start p =? 0)%Z; [reflexivity|].
  destruct iv; try reflexivity; rewrite (np_loop_nonpos _ _ _ n) by exact Hn; reflexivity.
Qed.

Lemma np_loop_done fuel s iv last c e acc : (e <? s)%Z = true -> np_loop fuel s iv last c e acc = Some acc.
Proof. intros H. destruct fuel; cbn [np_loop]; rewrite H; reflexivity. Qed.

Lemma tiles_facts : forall ps s e, tiles s e ps ->
  StronglySorted Z.lt (map p_start ps) /\
  Forall (fun p => (s <= p_start p)%Z /\ (p_start p <= p_end p)%Z /\ (p_end p <= e)%Z) ps.
Proof.
  induction ps as [|p ps IH]; intros s e H; [destruct H|].
  cbn [tiles] in H. destruct H as (Hs & Hle & Hrest). destruct ps as [|p2 ps].
  - split; [repeat constructor|]. constructor; [lia|constructor].
  - destruct (IH _ _ Hrest) as [I1 I2]. split.
    + cbn [map] in *. constructor; [exact I1|].
      rewrite Forall_forall in *. intros x Hx.
      change (p_start p2 :: map p_start ps) with (map p_start (p2 :: ps)) in Hx.
      apply in_map_iff in Hx. destruct Hx as (p' & <- & Hp'). specialize (I2 _ Hp'). lia.
    + assert (He : (p_end p <= e)%Z) by (inversion I2 as [|? ? Hq _]; subst; lia).
      constructor; [lia|]. eapply Forall_impl; [|exact I2]. cbn. intros x Hx. lia.
Qed.

Definition part_facts (part : partition) : Prop :=
  StronglySorted Z.lt (start_dates part) /\
  ((p_start (span part) <= p_end (span part))%Z ->
   tiles (first_start (periods part) (p_start (span part))) (p_end (span part)) (periods part)
   /\ (p_start (span part) <= first_start (periods part) (p_start (span part)))%Z).

Lemma partition_facts P iv n part : new_partition P iv n = POk part -> part_facts part.
Proof.
  intros H. destruct (new_partition_span _ _ _ _ H) as [Hsp _]. unfold part_facts, start_dates. rewrite Hsp.
  destruct P as [s e]. cbn [p_start p_end].
  assert (Hs0 : s <> 0%Z) by (intros ->; cbn in H; discriminate).
  destruct (interval_eqb iv Once) eqn:Eiv.
  - destruct iv; try discriminate. rewrite partition_once in H by exact Hs0. inversion H; subst. cbn [periods map first_start p_start p_end tiles].
    split; [repeat constructor|]. intros Hle. lia.
  - assert (Hiv : iv <> Once) by (intros ->; discriminate).
    destruct (Z_lt_ge_dec e s) as [Hlt|Hge].
    + assert (Hps : periods part = []).
      { unfold new_partition in H. cbn [p_start p_end] in H. destruct (s =? 0)%Z; [discriminate|].
        destruct iv; try congruence; rewrite np_loop_done in H by lia; inversion H; reflexivity. }
      rewrite Hps. split; [constructor|]. intros Hle. lia.
    + assert (H0 : exists n', (0 <= n')%Z /\ new_partition (mkPeriod s e) iv n' = POk part).
      { destruct (Z_le_gt_dec n 0) as [Hn|Hn]; [exists 0%Z; rewrite <- (new_partition_nonpos _ _ n Hn); split; [lia|exact H]|].
        exists n. split; [lia|exact H]. }
      destruct H0 as (n' & Hn' & H').
      destruct (new_partition_tiles s e iv n' part Hiv ltac:(lia) Hn' H') as [Ht Hfs].
      split; [|intros _; split; assumption].
      exact (proj1 (tiles_facts _ _ _ Ht)).
Qed.

(* -- the builder with the period starts touched -- *)
Lemma upd_day_dates_in days d f : (forall x, d_date (f x) = d_date x) ->
  In d (dates (upd_day days d f)) /\ (forall x, In x (dates days) -> In x (dates (upd_day days d f))).
Proof.
  intros Hf. unfold dates. induction days as [|y days IH]; cbn [upd_day map].
  - rewrite Hf. cbn [empty_day d_date]. split; [left; reflexivity|intros x []].
  - destruct (d =? d_date y)%Z eqn:E1.
    + apply Z.eqb_eq in E1. cbn [map]. rewrite Hf. split; [left; symmetry; exact E1|intros x Hx; exact Hx].
    + destruct (d <? d_date y)%Z; cbn [map].
      * rewrite Hf. cbn [empty_day d_date]. split; [left; reflexivity|intros x Hx; right; exact Hx].
      * destruct IH as [I1 I2]. split; [right; exact I1|]. intros x [Hx|Hx]; [left; exact Hx|right; apply I2; exact Hx].
Qed.

Lemma touch_dates : forall dts days,
  (forall x, In x dts -> In x (dates (fold_left (fun ds d => upd_day ds d (fun x => x)) dts days)))
  /\ (forall x, In x (dates days) -> In x (dates (fold_left (fun ds d => upd_day ds d (fun x => x)) dts days))).
Proof.
  induction dts as [|d dts IH]; intros days; cbn [fold_left].
  - split; [intros x []|intros x Hx; exact Hx].
  - destruct (IH (upd_day days d (fun x => x))) as [I1 I2].
    destruct (upd_day_dates_in days d (fun x => x) (fun x => eq_refl)) as [U1 U2].
    split.
    + intros x [<-|Hx]; [apply I2; exact U1|apply I1; exact Hx].
    + intros x Hx. apply I2. apply U2. exact Hx.
Qed.

Lemma touch_sorted : forall dts days, Sorted Z.lt (dates days) ->
  Sorted Z.lt (dates (fold_left (fun ds d => upd_day ds d (fun x => x)) dts days)).
Proof.
  induction dts as [|d dts IH]; intros days H; cbn [fold_left]; [exact H|].
  apply IH. apply upd_day_sorted; [intros; reflexivity|exact H].
Qed.

(* -- the filter stage -- *)
Definition filt (sp : period) (d : day) : day := if period_contains sp (d_date d) then d else set_txns d [].

Lemma filt_date sp d : d_date (filt sp d) = d_date d.
Proof. unfold filt. destruct (period_contains sp (d_date d)); reflexivity. Qed.

Lemma filt_dates sp ds : dates (map (filt sp) ds) = dates ds.
Proof. unfold dates. rewrite map_map. apply map_ext. intros d. apply filt_date. Qed.

Lemma filt_dated sp ds : days_dated ds -> days_dated (map (filt sp) ds).
Proof.
  unfold days_dated. intros H. induction H as [|d ds Hd _ IH]; cbn [map]; constructor; [|exact IH].
  unfold filt. destruct (period_contains sp (d_date d)); [exact Hd|constructor].
Qed.

Lemma filt_sum (f : Z * posting -> Q) sp ds : days_dated ds ->
  qsum f (days_postings (map (filt sp) ds)) == qsum (fun dp => if in_span sp (fst dp) then f dp else 0) (days_postings ds).
Proof.
  intros Hd. unfold days_postings. induction Hd as [|d ds Hx _ IH]; cbn [map concat]; [reflexivity|].
  rewrite !qsum_app, IH. apply Qplus_comp; [|reflexivity].
  unfold filt. rewrite period_contains_in_span. destruct (in_span sp (d_date d)) eqn:E.
  - apply qsum_ext. intros dp Hin. rewrite (day_postings_date d dp Hx Hin), E. reflexivity.
  - unfold day_postings at 1. cbn [set_txns d_txns map concat]. unfold qsum at 1. cbn [fold_right].
    symmetry. apply qsum_zero. intros dp Hin. rewrite (day_postings_date d dp Hx Hin), E. reflexivity.
Qed.

Lemma filt_in sp ds dp : In dp (days_postings (map (filt sp) ds)) -> In dp (days_postings ds).
Proof.
  unfold days_postings. induction ds as [|d ds IH]; cbn [map concat]; [intros []|].
  intros H. apply in_app_or in H. apply in_or_app. destruct H as [H|H]; [left|right; apply IH; exact H].
  unfold filt in H. destruct (period_contains sp (d_date d)); [exact H|destruct H].
Qed.

(* -- indicators of model and specification agree -- *)
Lemma q_ind_balance cfg part row c0 col0 d a c :
  q_ind (balance_query cfg part) row (Some col0, Some c0) d a c ==
  match column_for (periods part) d with Some e => s_ind cfg row c0 col0 e a c | None => 0 end.
Proof.
  unfold q_ind, s_ind, balance_query. cbn [q_where q_account q_date].
  assert (Hw : (match bc_accounts cfg with [] => true | rs => rxs_match rs (acc_name a) end
                && match bc_commodities cfg with [] => true | rs => rxs_match rs c end) = cfg_where cfg a c) by reflexivity.
  rewrite Hw. destruct (cfg_where cfg a c); [|destruct (column_for (periods part) d); reflexivity].
  destruct (shorten (bc_mapping cfg) (remap (bc_remap cfg) a)) as [a'| |]; try (destruct (column_for (periods part) d); reflexivity).
  unfold Date.align. rewrite align_list_column_for, (acc_eqb_sym a' row).
  destruct (column_for (periods part) d) as [e|]; unfold rkey_eqb; cbn [fst snd oz_eqb ocom_eqb andb].
  - destruct (acc_eqb row a'); [|rewrite andb_false_r; reflexivity].
    destruct (e =? col0)%Z; cbn [andb]; [|reflexivity]. destruct (str_eqb c c0); reflexivity.
  - destruct (acc_eqb row a'); reflexivity.
Qed.

Lemma find_map {A B} (f : B -> bool) (g : A -> B) l : find f (map g l) = option_map g (find (fun x => f (g x)) l).
Proof. induction l as [|x l IH]; cbn [map find option_map]; [reflexivity|]. destruct (f (g x)); [reflexivity|exact IH]. Qed.

Lemma RS_after cfg row c0 col0 hi : forall ps prev dp,
  Forall (fun p => (p_start p - 1 <= hi)%Z) ps -> (hi < fst dp)%Z -> RS cfg row c0 col0 prev ps dp == 0.
Proof.
  induction ps as [|p ps IH]; intros prev dp Hall Hlt; cbn [RS]; [reflexivity|].
  inversion Hall as [|? ? Hp Hrest]; subst. rewrite (IH _ _ Hrest Hlt).
  replace (fst dp <=? p_start p - 1)%Z with false by lia. rewrite andb_false_r. cbn [andb]. ring.
Qed.

Lemma CE_nokeys cfg row c0 col0 posts : forall ps prev, CE cfg row c0 col0 posts [] prev ps == 0.
Proof. induction ps as [|p ps IH]; intros prev; cbn [CE]; [reflexivity|]. rewrite IH. unfold qsum. cbn [fold_right]. ring. Qed.

Lemma closable_keys_empty sp posts : (forall d, in_span sp d = false) -> closable_keys sp posts = [].
Proof.
  intros H. rewrite closable_keys_fold.
  assert (Hg : forall l, fold_left (key_step sp) posts l = l).
  { induction posts as [|dp posts IH]; intros l; cbn [fold_left]; [reflexivity|].
    unfold key_step at 2. unfold span_dp. rewrite H. cbn [andb]. apply IH. }
  apply Hg.
Qed.

Lemma chain_le_sorted : forall ps prev,
  StronglySorted Z.lt (map p_start ps) -> Forall (fun p => (prev <= p_start p)%Z) ps -> chain_le prev ps.
Proof.
  induction ps as [|p ps IH]; intros prev Hs Hall; cbn [chain_le]; [exact I|].
  inversion Hall as [|? ? Hp _]; subst. split; [exact Hp|].
  cbn [map] in Hs. inversion Hs as [|? ? Hs' Hlt]; subst. apply IH; [exact Hs'|].
  rewrite Forall_forall in *. intros x Hx. assert (Hin : In (p_start x) (map p_start ps)) by (apply in_map; exact Hx).
  specialize (Hlt _ Hin). lia.
Qed.

Lemma sorted_lower (l : list Z) : StronglySorted Z.lt l -> exists lo, forall x, In x l -> (lo < x)%Z.
Proof.
  intros H. destruct l as [|z l]; [exists 0%Z; intros x []|].
  exists (z - 1)%Z. inversion H as [|? ? _ Hall]; subst. rewrite Forall_forall in Hall.
  intros x [<-|Hx]; [lia|]. specialize (Hall _ Hx). lia.
Qed.

Lemma spec_close_total cfg sp ps posts row c col :
  dvalue (period_amount (mapped_entries cfg (user_entries sp ps posts ++
            closing_entries posts (closable_keys sp posts) (p_start sp) ps)) (acc_eqb row) c col)
  == qsum (s_contrib cfg sp ps row c col) posts + CE cfg row c col posts (closable_keys sp posts) (p_start sp) ps.
Proof.
  rewrite period_amount_entries, qsum_app, closing_entries_CE.
  rewrite <- period_amount_entries, period_amount_user. reflexivity.
Qed.

Lemma model_close_total cfg part dl row c col s5 d5 :
  bc_valuation cfg = None -> part_facts part -> postings_syntactic dl ->
  process_days (close_proc (start_dates part)) (mkClose [] [])
    (map (filt (span part)) (b_days (builder_touch (builder_of dl) (start_dates part)))) = ROk (s5, d5) ->
  q_total (balance_query cfg part) row (Some col, Some c) (days_postings d5) ==
    qsum (fun dp => if in_span (span part) (fst dp) then q_contrib (balance_query cfg part) row (Some col, Some c) dp else 0) (flat_postings dl)
  + qsum (fun dp => if in_span (span part) (fst dp) then NX (balance_query cfg part) row (Some col, Some c) (start_dates part) dp else 0) (flat_postings dl).
Proof.
  intros Hv [Hss _] Hsyn H.
  set (q := balance_query cfg part) in *. set (k := (Some col, Some c)) in *.
  set (days0 := b_days (builder_touch (builder_of dl) (start_dates part))) in *.
  assert (Hunval : q_valued q = false) by (unfold q, balance_query; cbn [q_valued]; rewrite Hv; reflexivity).
  assert (Hperm : Permutation (days_postings days0) (flat_postings dl)).
  { unfold days0. rewrite builder_touch_perm. apply builder_of_perm. }
  assert (Hdated0 : days_dated days0) by (apply builder_touch_dated; apply builder_of_dated).
  assert (Hsorted0 : StronglySorted Z.lt (dates days0)).
  { apply Sorted_StronglySorted; [intros x y z; apply Z.lt_trans|].
    unfold days0, builder_touch. cbn [b_days]. apply touch_sorted. apply builder_of_sorted. }
  assert (Hcov0 : forall s, In s (start_dates part) -> In s (dates days0)).
  { unfold days0, builder_touch. cbn [b_days]. apply (proj1 (touch_dates _ _)). }
  assert (Hok0 : posts_ok (days_postings days0)).
  { intros [d p] Hin. cbn [snd]. apply (Hsyn d p). eapply Permutation_in; [exact Hperm|exact Hin]. }
  set (days1 := map (filt (span part)) days0) in *.
  assert (Hok1 : posts_ok (days_postings days1)) by (intros dp Hin; apply Hok0; eapply filt_in; exact Hin).
  rewrite (close_days q row k Hunval (start_dates part) days1 (mkClose [] []) s5 d5 map_ok_nil Hok1 H).
  cbn [c_qty].
  assert (Hm0 : (match firstclose (start_dates part) days1 with Some cd => msum (G q row k cd) [] | None => 0 end) == 0)
    by (destruct (firstclose (start_dates part) days1); reflexivity).
  rewrite Hm0, Qplus_0_r.
  assert (Hsorted1 : StronglySorted Z.lt (dates days1)) by (unfold days1; rewrite filt_dates; exact Hsorted0).
  destruct (sorted_lower _ Hsorted1) as (lo & Hlo).
  rewrite (DD_nxt q row k (start_dates part) Hss days1 lo Hsorted1 Hlo).
  2: { intros s Hs _. unfold days1. rewrite filt_dates. apply Hcov0. exact Hs. }
  2: { apply filt_dated. exact Hdated0. }
  rewrite q_total_qsum. unfold days1. rewrite !(filt_sum _ _ _ Hdated0).
  rewrite !(qsum_perm _ _ _ Hperm). reflexivity.
Qed.

(* the cells of the report, with and without --close *)
Theorem report_cells cfg ds r part :
  bc_valuation cfg = None ->
  balance_report cfg ds = COk (r, part) ->
  exists dl,
    parse_directives ds = MOk dl /\
    new_partition (clip (mkPeriod (bc_from cfg) (bc_to cfg)) (journal_period dl)) (bc_interval cfg) (bc_last cfg) = POk part /\
    ((bc_close cfg = true -> postings_syntactic dl) ->
     forall row c col,
       rcell row (Some col, Some c) r ==
       dvalue (period_amount (mapped_entries cfg (user_entries (span part) (periods part) (flat_postings dl) ++
                 (if bc_close cfg
                  then closing_entries (flat_postings dl) (closable_keys (span part) (flat_postings dl)) (p_start (span part)) (periods part)
                  else [])))
               (acc_eqb row) c col)).
Proof.
  intros Hv H. destruct (bc_close cfg) eqn:Hc.
  2: { destruct (report_cells_noclose cfg ds r part Hv Hc H) as (dl & A & B & C). exists dl.
       split; [exact A|split; [exact B|]]. intros _ row c col. rewrite app_nil_r. apply C. }
  unfold balance_report in H. rewrite Hv, Hc in H. cbn [cbind] in H.
  unfold load in H. destruct (parse_directives ds) as [dl| |] eqn:Ep; try discriminate. cbn [cbind of_mresult] in H.
  exists dl. split; [reflexivity|].
  unfold cfg_partition in H. rewrite builder_period_spec in H.
  destruct (new_partition (clip (mkPeriod (bc_from cfg) (bc_to cfg)) (journal_period dl)) (bc_interval cfg) (bc_last cfg)) as [part0| |] eqn:Epart; try discriminate.
  cbn [cbind] in H. unfold run_stage in H.
  destruct (process_days (check_proc_current (bc_lenient cfg)) check_init (b_days (builder_touch (builder_of dl) (start_dates part0)))) as [[s1 d1]| |] eqn:E1; try discriminate.
  cbn [cbind of_presult fst snd] in H.
  pose proof (check_current_stage_id _ _ _ _ _ E1) as ->.
  destruct (process_days (filter_proc (span part0)) tt (b_days (builder_touch (builder_of dl) (start_dates part0)))) as [[s4 d4]| |] eqn:E4; try discriminate.
  cbn [cbind of_presult fst snd] in H.
  pose proof (filter_stage_spec _ _ _ _ _ E4) as ->.
  destruct (process_days (close_proc (start_dates part0)) (mkClose [] []) _) as [[s5 d5]| |] eqn:E5; try discriminate.
  cbn [cbind of_presult fst snd] in H.
  destruct (process_days (query_proc (balance_query cfg part0) report_insert) new_report d5) as [[r6 d6]| |] eqn:E6; try discriminate.
  cbn [cbind of_presult fst snd] in H. inversion H; subst r6 part0. clear H.
  split; [reflexivity|]. intros Hsyn row c col. specialize (Hsyn eq_refl).
  destruct (query_days (balance_query cfg part) row (Some col, Some c) _ _ _ _ wf_new_report E6) as (_ & _ & Hcell).
  rewrite Hcell, rcell_new, Qplus_0_l.
  change (map (fun d => if period_contains (span part) (d_date d) then d else set_txns d []) (b_days (builder_touch (builder_of dl) (start_dates part))))
    with (map (filt (span part)) (b_days (builder_touch (builder_of dl) (start_dates part)))) in E5.
  pose proof (partition_facts _ _ _ _ Epart) as Hpf.
  rewrite (model_close_total cfg part dl row c col s5 d5 Hv Hpf Hsyn E5).
  rewrite spec_close_total.
  assert (Hok : posts_ok (flat_postings dl)) by (intros [d p] Hin; apply (Hsyn d p Hin)).
  apply Qplus_comp.
  - apply qsum_ext. intros [d p] _. cbn [fst]. unfold s_contrib.
    destruct (in_span (span part) d); [|reflexivity].
    rewrite (q_contrib_balance cfg part row c col d p Hv).
    destruct (cfg_where cfg (p_acc p) (p_com p)).
    + destruct (column_for (periods part) d); destruct (shorten (bc_mapping cfg) (remap (bc_remap cfg) (p_acc p))); reflexivity.
    + destruct (column_for (periods part) d); reflexivity.
  - destruct Hpf as [Hss Htiles].
    destruct (Z_le_gt_dec (p_start (span part)) (p_end (span part))) as [Hle|Hgt].
    + destruct (Htiles Hle) as [Ht Hfs]. destruct (tiles_facts _ _ _ Ht) as [Hst Hb].
      assert (Hchain : chain_le (p_start (span part)) (periods part)).
      { apply chain_le_sorted; [exact Hst|]. eapply Forall_impl; [|exact Hb]. cbn. intros x Hx. lia. }
      rewrite (CE_RS cfg row c col (span part) (flat_postings dl) Hok (periods part) (p_start (span part))).
      2: lia.
      2: { eapply Forall_impl; [|exact Hb]. cbn. intros x Hx. lia. }
      apply qsum_ext. intros [d p] Hin. cbn [fst].
      destruct (in_span (span part) d) eqn:Esp.
      * unfold in_span in Esp. rewrite (RS_find cfg row c col _ _ _ Hchain) by (cbn [fst]; lia).
        unfold NX. cbn [fst snd]. unfold nxt, start_dates. rewrite find_map.
        destruct (find (fun x => (d <? p_start x)%Z) (periods part)) as [p0|] eqn:Ef; cbn [option_map].
        -- destruct (closable_dp (d, p)); [|reflexivity]. apply find_some in Ef. destruct Ef as [Hin0 _].
           apply Qmult_comp; [|reflexivity]. unfold G, GS. rewrite !q_ind_balance.
           rewrite <- align_list_column_for.
           assert (Hp0 : (p_start p0 <= p_start p0 <= p_end p0)%Z).
           { rewrite Forall_forall in Hb. specialize (Hb _ Hin0). lia. }
           rewrite (align_in_period _ _ _ p0 (p_start p0) Ht Hin0 Hp0). reflexivity.
        -- destruct (closable_dp (d, p)); reflexivity.
      * symmetry. unfold in_span in Esp.
        destruct (Z_lt_ge_dec d (p_start (span part))) as [Hlt|Hge].
        -- apply RS_before; [exact Hchain|cbn [fst]; exact Hlt].
        -- apply (RS_after cfg row c col (p_end (span part))); [|cbn [fst]; lia].
           eapply Forall_impl; [|exact Hb]. cbn. intros x Hx. lia.
    + assert (Hempty : forall d, in_span (span part) d = false) by (intros d; unfold in_span; lia).
      rewrite (closable_keys_empty _ _ Hempty), CE_nokeys.
      apply qsum_zero. intros dp _. rewrite Hempty. reflexivity.
Qed.

(* ------------------------------------------------------------ the hypothesis postings_syntactic *)

(* Two postings on accounts Income:X / commodity NUL-Y and Income:X-NUL / commodity Y have the
   same position key in the model (name ++ NUL ++ commodity); the model's close stage merges
   them, the specification (and knut, which keys by account and commodity pointers and never
   sees a NUL byte in a name) does not. *)
Open Scope Z_scope.
Definition unsyn_cfg : balance_cfg :=
  mkBalanceCfg 0 (of_civil 2020 1 5 + 90) Monthly 0 false true None true [] [] [] [] [] true.

Definition unsyn_journal : list sdirective :=
  let A := acc_of_name [65;115;115;101;116;115;58;66] in
  let E := acc_of_name [69;120;112;101;110;115;101;115;58;82] in
  let income := [73;110;99;111;109;101] in
  let d0 := of_civil 2020 1 5 in
  [ SOpen d0 A; SOpen d0 E; SOpen d0 [income; [88]]; SOpen d0 [income; [88; 0]];
    STxn (mkStxn (d0 + 1) [] [mkBooking [income; [88]] A (mkDec 100 0) [0; 89]] None None);
    STxn (mkStxn (d0 + 2) [] [mkBooking [income; [88; 0]] A (mkDec 50 0) [89]] None None);
    STxn (mkStxn (d0 + 40) [] [mkBooking A E (mkDec 1 0) [67;72;70]] None None) ].

Definition unsyn_col : Z := of_civil 2020 1 5 + 40.
Definition unsyn_com : commodity := [89].

Lemma unsyn_witness :
  match balance_report unsyn_cfg unsyn_journal, parse_directives unsyn_journal with
  | COk (r, part), MOk dl =>
    ~ (rcell equity_account (Some unsyn_col, Some unsyn_com) r ==
       dvalue (period_amount (mapped_entries unsyn_cfg (user_entries (span part) (periods part) (flat_postings dl) ++
                 closing_entries (flat_postings dl) (closable_keys (span part) (flat_postings dl)) (p_start (span part)) (periods part)))
               (acc_eqb equity_account) unsyn_com unsyn_col))%Q
  | _, _ => False
  end.
Proof. vm_compute. intros H. discriminate H. Qed.

Theorem cells_unsyntactic_refuted :
  exists cfg ds r part dl row c col,
    bc_valuation cfg = None /\ balance_report cfg ds = COk (r, part) /\ parse_directives ds = MOk dl /\
    ~ (rcell row (Some col, Some c) r ==
       dvalue (period_amount (mapped_entries cfg (user_entries (span part) (periods part) (flat_postings dl) ++
                 (if bc_close cfg
                  then closing_entries (flat_postings dl) (closable_keys (span part) (flat_postings dl)) (p_start (span part)) (periods part)
                  else [])))
               (acc_eqb row) c col))%Q.
Proof.
  pose proof unsyn_witness as H.
  destruct (balance_report unsyn_cfg unsyn_journal) as [[r part]| |] eqn:E1; try contradiction.
  destruct (parse_directives unsyn_journal) as [dl| |] eqn:E2; try contradiction.
  exists unsyn_cfg, unsyn_journal, r, part, dl, equity_account, unsyn_com, unsyn_col.
  split; [reflexivity|]. split; [exact E1|]. split; [exact E2|]. exact H.
Qed.

(* the hypothesis in the words of Spec/WellformedSpec.v, and its executable form *)
Lemma postings_syntactic_b_iff dl : postings_syntactic_b dl = true <-> postings_syntactic dl.
Proof.
  unfold postings_syntactic_b, postings_syntactic. rewrite forallb_forall. split.
  - intros H d p Hin. exact (H (d, p) Hin).
  - intros H [d p] Hin. exact (H d p Hin).
Qed.

Lemma syntactic_postings dl : syntactic dl -> postings_syntactic dl.
Proof.
  intros H d p Hin. unfold flat_postings in Hin. apply in_concat in Hin. destruct Hin as (l & Hl & Hin).
  apply in_map_iff in Hl. destruct Hl as (dir & <- & Hdir).
  destruct dir as [| | | |t]; try destruct Hin.
  apply in_map_iff in Hin. destruct Hin as (p0 & Hp0 & Hin0). inversion Hp0; subst.
  apply (H (DTxn t) (EPost (p_acc p) (p_com p) (p_qty p)) Hdir).
  cbn [events_of]. apply in_map_iff. exists p. split; [reflexivity|exact Hin0].
Qed.
