(* C20, part 6: the value `portfolio weights` uses IS the valued balance of the portfolio accounts.
   For the days a command processes (dates strictly ascending), the record ComputeValues emits
   for day d carries as V1 a map whose entry for commodity c equals
     Spec.PortfolioSpec.portfolio_value            the sum of the values booked, up to d, on
                                                   asset/liability accounts passing the account
                                                   filter, in c (0 if c does not pass the
                                                   commodity filter), and
     Spec.PortfolioSpec.portfolio_value_by_account the same sum taken account by account (the
                                                   cells `balance -v` shows). *)
From Coq Require Import ZArith QArith Qfield List Bool Lia.
From Knut Require Import Model.Str Model.Dec Model.Date Model.Account Model.Ledger Model.Price
     Model.Journal Model.Check Model.Pipeline Model.Cli Model.Perf Model.Weights Model.CliPortfolio
     Spec.PortfolioSpec Spec.WellformedSpec
     Proofs.DecProofs Proofs.DecValue Proofs.SMapProofs Proofs.PortfolioDays Proofs.PortfolioReturns
     Proofs.PortfolioWeights Proofs.PortfolioAlgebra.
From Knut Require Proofs.CheckLemmas.
Import ListNotations.
Open Scope Q_scope.

(* ------------------------------------------------------------ the fold of ComputeValues *)

(* does ComputeValues book posting p *)
Definition booked (c : calc) (p : posting) : bool := ca_com c (p_com p) && is_portfolio c (p_acc p).

Lemma values_step_sorted c m p : sorted m -> sorted (values_step c m p).
Proof. intros H. unfold values_step. destruct (_ && _); [apply vals_add_sorted|]; exact H. Qed.

Lemma values_fold_sorted c ps : forall m, sorted m -> sorted (fold_left (values_step c) ps m).
Proof. induction ps as [|p ps IH]; intros m H; cbn [fold_left]; [exact H|]. apply IH. apply values_step_sorted. exact H. Qed.

(* what commodity k reads after the postings ps *)
Lemma values_fold_get c k ps : forall m, sorted m ->
  dec_q (vget (fold_left (values_step c) ps m) k) ==
  dec_q (vget m k) + qsum (map (fun p => if booked c p && str_eqb (p_com p) k then dec_q (p_val p) else 0) ps).
Proof.
  induction ps as [|p ps IH]; intros m Hs; cbn [fold_left map].
  - unfold qsum. cbn. ring.
  - rewrite IH by (apply values_step_sorted; exact Hs). rewrite qsum_cons.
    unfold values_step. fold (booked c p). destruct (booked c p); cbn [andb].
    + rewrite vals_add_get by exact Hs. ring.
    + ring.
Qed.

(* the sum over all commodities after the postings ps *)
Lemma values_fold_sum c ps : forall m, sorted m ->
  smsum dec_q (fold_left (values_step c) ps m) ==
  smsum dec_q m + qsum (map (fun p => if booked c p then dec_q (p_val p) else 0) ps).
Proof.
  induction ps as [|p ps IH]; intros m Hs; cbn [fold_left map].
  - unfold qsum. cbn. ring.
  - rewrite IH by (apply values_step_sorted; exact Hs). rewrite qsum_cons.
    unfold values_step. fold (booked c p). destruct (booked c p).
    + rewrite vals_add_sum by exact Hs. ring.
    + ring.
Qed.

(* ------------------------------------------------------------ the postings up to a day *)

Lemma asc_split l1 : forall x l2, asc (l1 ++ x :: l2) ->
  (forall y, In y l1 -> (y < x)%Z) /\ (forall y, In y l2 -> (x < y)%Z).
Proof.
  induction l1 as [|z l1 IH]; intros x l2 H; cbn [app] in H.
  - split; [intros y []|]. intros y Hy. exact (asc_lt _ _ H y Hy).
  - destruct (IH x l2 (asc_tail _ _ H)) as [H1 H2]. split; [|exact H2].
    intros y [<-|Hy]; [|exact (H1 y Hy)]. apply (asc_lt _ _ H). apply in_or_app. right. left. reflexivity.
Qed.

Lemma postings_upto_split pre d post :
  asc (map d_date (pre ++ d :: post)) ->
  postings_upto (pre ++ d :: post) (d_date d) = flat_map day_postings (pre ++ [d]).
Proof.
  intros Ha. rewrite map_app in Ha. cbn [map] in Ha. destruct (asc_split _ _ _ Ha) as [H1 H2].
  unfold postings_upto. rewrite !flat_map_app. cbn [flat_map]. rewrite Z.leb_refl, !app_nil_r.
  assert (Hpost : flat_map (fun x => if (d_date x <=? d_date d)%Z then flat_map t_postings (d_txns x) else []) post = []).
  { clear - H2. induction post as [|x post IH]; cbn [flat_map]; [reflexivity|].
    replace (d_date x <=? d_date d)%Z with false.
    - apply IH. intros y Hy. apply H2. right. exact Hy.
    - symmetry. apply Z.leb_gt. apply H2. left. reflexivity. }
  rewrite Hpost, app_nil_r. f_equal.
  clear - H1. induction pre as [|x pre IH]; cbn [flat_map]; [reflexivity|].
  replace (d_date x <=? d_date d)%Z with true.
  - unfold day_postings at 2. f_equal. apply IH. intros y Hy. apply H1. right. exact Hy.
  - symmetry. apply Z.leb_le. apply Z.lt_le_incl. apply H1. left. reflexivity.
Qed.

(* ------------------------------------------------------------ V1 of a day = portfolio_value *)

Lemma values_portfolio_value c ps k :
  dec_q (vget (fold_left (values_step c) ps []) k) ==
  (if ca_com c k then
     qsum (map (fun p => if is_AL (p_acc p) && ca_acc c (p_acc p) && str_eqb (p_com p) k then dec_q (p_val p) else 0) ps)
   else 0).
Proof.
  rewrite values_fold_get by constructor. unfold vget at 1. cbn [sm_get]. rewrite dec_q_nil, Qplus_0_l.
  destruct (ca_com c k) eqn:Ek.
  - apply qsum_map_ext. intros p _. unfold booked, is_portfolio.
    destruct (str_eqb (p_com p) k) eqn:E.
    + apply str_eqb_eq in E. rewrite E, Ek. cbn [andb]. rewrite !andb_true_r. reflexivity.
    + rewrite !andb_false_r. reflexivity.
  - apply qsum_map_zero. intros p _. unfold booked.
    destruct (str_eqb (p_com p) k) eqn:E.
    + apply str_eqb_eq in E. rewrite E, Ek. reflexivity.
    + rewrite andb_false_r. reflexivity.
Qed.

Lemma weights_match_balance cfg pre d post vs :
  asc (map d_date (pre ++ d :: post)) ->
  day_values cfg (pre ++ d :: post) = COk vs ->
  exists v0 v1, nth_error (fst vs) (length pre) = Some (d_date d, (v0, v1)) /\
    forall c, pcv_get v1 c ==
              portfolio_value (ca_acc (pf_calc cfg)) (ca_com (pf_calc cfg)) (pre ++ d :: post) c (d_date d).
Proof.
  intros Ha H. assert (Hrec : exists v0, nth_error (fst vs) (length pre) = Some (d_date d, (v0, vals_pcv (fold_left (values_step (pf_calc cfg)) (flat_map day_postings (pre ++ [d])) [])))).
  { revert H. unfold day_values, run_stage, compute_values_proc. rewrite pure_proc_days. cbn [of_presult cbind fst snd].
    intros H. inversion H; subst. cbn [fst]. apply cv_record. }
  destruct Hrec as [v0 Hr].
  exists v0, (vals_pcv (fold_left (values_step (pf_calc cfg)) (flat_map day_postings (pre ++ [d])) [])).
  split; [exact Hr|]. intros c. rewrite pcv_get_vals, values_portfolio_value.
  unfold portfolio_value. rewrite postings_upto_split by exact Ha. reflexivity.
Qed.

(* ------------------------------------------------------------ account by account *)

(* among accounts with pairwise different names, the one named n is the only one to contribute *)
Lemma sum_unique_name accs n (h : account -> Q) :
  NoDup (map acc_name accs) -> forall a0, In a0 accs -> acc_name a0 = n ->
  qsum (map (fun a => if str_eqb n (acc_name a) then h a else 0) accs) == h a0.
Proof.
  induction accs as [|a r IH]; intros Hnd a0 Hin Hn; [destruct Hin|].
  cbn [map] in *. inversion Hnd as [|? ? Hnotin Hnd']; subst. rewrite qsum_cons. destruct Hin as [->|Hin].
  - rewrite str_eqb_refl. rewrite qsum_map_zero; [ring|].
    intros a' Ha'. destruct (str_eqb (acc_name a0) (acc_name a')) eqn:E; [|reflexivity].
    apply str_eqb_eq in E. exfalso. apply Hnotin. rewrite E. apply in_map. exact Ha'.
  - assert (E : str_eqb (acc_name a0) (acc_name a) = false).
    { apply str_eqb_neq. intros E. apply Hnotin. rewrite <- E. apply in_map. exact Hin. }
    rewrite E, (IH Hnd' a0 Hin eq_refl). ring.
Qed.

(* the filter cannot tell two accounts of the same name apart (accounts are compared by name,
   acc_eqb; account.Registry interns them by name) *)
Definition names_respected (accf : account -> bool) (accs : list account) (ps : list posting) : Prop :=
  forall p a, In p ps -> In a accs -> acc_eqb (p_acc p) a = true ->
              is_AL a && accf a = is_AL (p_acc p) && accf (p_acc p).

Lemma by_account_sum accf accs c ps :
  NoDup (map acc_name accs) ->
  (forall p, In p ps -> exists a, In a accs /\ acc_eqb (p_acc p) a = true) ->
  names_respected accf accs ps ->
  qsum (map (fun p => if is_AL (p_acc p) && accf (p_acc p) && str_eqb (p_com p) c then dec_q (p_val p) else 0) ps) ==
  qsum (map (fun a => if is_AL a && accf a
                      then qsum (map (fun p => if acc_eqb (p_acc p) a && str_eqb (p_com p) c then dec_q (p_val p) else 0) ps)
                      else 0) accs).
Proof.
  intros Hnd. induction ps as [|p ps IH]; intros Hcov Hresp; cbn [map].
  - symmetry. apply qsum_map_zero. intros a _. destruct (_ && _); reflexivity.
  - rewrite qsum_cons.
    rewrite (qsum_map_ext _ (fun a =>
        (if str_eqb (acc_name (p_acc p)) (acc_name a)
         then (if is_AL a && accf a && str_eqb (p_com p) c then dec_q (p_val p) else 0) else 0) +
        (if is_AL a && accf a
         then qsum (map (fun p0 => if acc_eqb (p_acc p0) a && str_eqb (p_com p0) c then dec_q (p_val p0) else 0) ps)
         else 0))).
    + rewrite qsum_map_plus. rewrite <- IH.
      * destruct (Hcov p (or_introl eq_refl)) as [a0 [Hin He]].
        rewrite (sum_unique_name accs _ _ Hnd a0 Hin).
        -- rewrite (Hresp p a0 (or_introl eq_refl) Hin He). reflexivity.
        -- symmetry. apply str_eqb_eq. exact He.
      * intros q Hq. apply Hcov. right. exact Hq.
      * intros q a Hq. apply Hresp. right. exact Hq.
    + intros a _. destruct (is_AL a && accf a); cbn [andb]; [|destruct (str_eqb _ _); ring].
      cbn [map]. rewrite qsum_cons. unfold acc_eqb at 1.
      destruct (str_eqb (acc_name (p_acc p)) (acc_name a)); cbn [andb]; [reflexivity|ring].
Qed.

Lemma portfolio_value_accounts accf comf accs days c d :
  covers accs days d -> names_respected accf accs (postings_upto days d) ->
  portfolio_value accf comf days c d == portfolio_value_by_account accf comf accs days c d.
Proof.
  intros [Hnd Hcov] Hresp. unfold portfolio_value, portfolio_value_by_account, valued_position.
  destruct (comf c); [|reflexivity]. apply by_account_sum; assumption.
Qed.

(* the hypothesis holds of every filter of the command (a list of regular expressions matched
   against the account's name) when the accounts are syntactically valid (names determine them) *)
Lemma names_respected_ok cfg accs ps :
  Forall (fun a => account_ok a = true) accs -> Forall (fun p => account_ok (p_acc p) = true) ps ->
  names_respected (ca_acc (pf_calc cfg)) accs ps.
Proof.
  intros Ha Hp p a Hpin Hain He. rewrite Forall_forall in Ha, Hp.
  apply CheckLemmas.acc_eqb_name in He.
  rewrite (CheckLemmas.acc_name_inj _ _ (Hp p Hpin) (Ha a Hain) He). reflexivity.
Qed.

(* without syntactic validity: the command's filter reads the name only, so it is enough that
   equally named accounts have the same type *)
Lemma names_respected_filter cfg accs ps :
  (forall p a, In p ps -> In a accs -> acc_eqb (p_acc p) a = true -> is_AL a = is_AL (p_acc p)) ->
  names_respected (ca_acc (pf_calc cfg)) accs ps.
Proof.
  intros H p a Hp Ha He. rewrite (H p a Hp Ha He). f_equal.
  apply CheckLemmas.acc_eqb_name in He. unfold pf_calc. cbn [ca_acc]. rewrite He. reflexivity.
Qed.

(* ------------------------------------------------------------ the days of the commands ascend *)

Lemma load_days_asc ds b : load ds = COk b -> asc (map d_date (b_days b)).
Proof.
  unfold load. intros H. destruct (of_mresult _) as [x| |]; cbn [cbind] in H; try discriminate.
  inversion H; subst. apply builder_of_asc.
Qed.

Lemma command_days_asc cfg ds b dates days :
  load ds = COk b -> valued_days cfg (b_days (builder_touch b dates)) = COk days -> asc (map d_date days).
Proof.
  intros Hl Hv. rewrite (valued_days_dates _ _ _ Hv), builder_touch_dates.
  apply fold_insert_asc. exact (load_days_asc _ _ Hl).
Qed.

(* ------------------------------------------------------------ the statement of Properties/C20.v *)

Theorem weights_match_balance_full cfg pre d post vs :
  asc (map d_date (pre ++ d :: post)) ->
  day_values cfg (pre ++ d :: post) = COk vs ->
  exists v0 v1, nth_error (fst vs) (length pre) = Some (d_date d, (v0, v1)) /\
    forall c,
      pcv_get v1 c == portfolio_value (ca_acc (pf_calc cfg)) (ca_com (pf_calc cfg)) (pre ++ d :: post) c (d_date d) /\
      forall accs, covers accs (pre ++ d :: post) (d_date d) ->
        names_respected (ca_acc (pf_calc cfg)) accs (postings_upto (pre ++ d :: post) (d_date d)) ->
        pcv_get v1 c ==
        portfolio_value_by_account (ca_acc (pf_calc cfg)) (ca_com (pf_calc cfg)) accs (pre ++ d :: post) c (d_date d).
Proof.
  intros Ha H. destruct (weights_match_balance cfg pre d post vs Ha H) as [v0 [v1 [Hr Hv]]].
  exists v0, v1. split; [exact Hr|]. intros c. split; [apply Hv|].
  intros accs Hc Hn. rewrite Hv. apply portfolio_value_accounts; assumption.
Qed.
