(* Model/Csv.v: reading what the canonical writer csv_write wrote gives back the records. *)
From Coq Require Import ZArith List Bool Lia.
From Knut Require Import Model.Bytes Model.Csv Proofs.CsvProofs.
Import ListNotations.
Open Scope Z_scope.

(* ---------------------------------------------------------------- the delimiters *)
Lemma valid_delim_facts : forall c, valid_delim c = true -> c <> b_quote /\ c <> b_cr /\ c <> b_nl.
Proof.
  intros c H. unfold valid_delim in H.
  repeat (apply andb_prop in H; destruct H as [H ?]).
  repeat match goal with
  | [ E : negb (c =? ?k) = true |- _ ] => apply negb_true_iff in E; apply Z.eqb_neq in E
  end.
  auto.
Qed.

Lemma delims_ok_facts : forall cfg, delims_ok cfg = true ->
  cc_comma cfg <> b_quote /\ cc_comma cfg <> b_cr /\ cc_comma cfg <> b_nl /\
  (cc_comment cfg = 0 \/ cc_comment cfg <> b_quote).
Proof.
  intros cfg H. unfold delims_ok in H.
  apply andb_prop in H. destruct H as [H H2]. apply andb_prop in H. destruct H as [_ H1].
  apply valid_delim_facts in H1. destruct H1 as [A [B C]].
  repeat split; auto.
  apply orb_prop in H2. destruct H2 as [H2|H2].
  - left. apply Z.eqb_eq. exact H2.
  - right. apply valid_delim_facts in H2. tauto.
Qed.

(* ---------------------------------------------------------------- unfolding equations of the writer *)
Lemma write_fields_one : forall c f tail, write_fields c [f] tail = b_quote :: csv_escape f ++ b_quote :: b_nl :: tail.
Proof. reflexivity. Qed.

Lemma write_fields_more : forall c f g r tail,
  write_fields c (f :: g :: r) tail = b_quote :: csv_escape f ++ b_quote :: c :: write_fields c (g :: r) tail.
Proof. reflexivity. Qed.

Lemma write_fields_head : forall c fs tail, fs <> [] -> exists Y, write_fields c fs tail = b_quote :: Y.
Proof.
  intros c [|f [|g r]] tail H; [congruence| |].
  - rewrite write_fields_one. eauto.
  - rewrite write_fields_more. eauto.
Qed.

Lemma write_fields_len : forall c fs tail, (length fs + length tail <= length (write_fields c fs tail))%nat.
Proof.
  induction fs as [|f fs IH]; intros tail; [simpl; lia|].
  destruct fs as [|g r].
  - rewrite write_fields_one. simpl. rewrite app_length. simpl. lia.
  - rewrite write_fields_more. specialize (IH tail). simpl length in *. rewrite app_length. simpl length. lia.
Qed.

Lemma csv_write_len : forall c rs, Forall (fun r => r <> []) rs -> (length rs <= length (csv_write c rs))%nat.
Proof.
  induction rs as [|r rs IH]; intros H; [simpl; lia|].
  inversion H as [|? ? Hr Hrs]; subst. specialize (IH Hrs). cbn [csv_write].
  pose proof (write_fields_len c r (csv_write c rs)) as L.
  destruct r; [congruence|]. simpl length in *. lia.
Qed.

(* ---------------------------------------------------------------- normalisation leaves the written text alone *)
Lemma norm_cons : forall a t, a <> b_cr -> csv_normalize (a :: t) = a :: csv_normalize t.
Proof. intros a t H. cbn [csv_normalize]. destruct (Z.eqb_spec a b_cr); [contradiction|reflexivity]. Qed.

Lemma norm_cr : forall d t, d <> b_nl -> csv_normalize (b_cr :: d :: t) = b_cr :: csv_normalize (d :: t).
Proof.
  intros d t H. change (csv_normalize (b_cr :: d :: t))
    with (if b_cr =? b_cr then if d =? b_nl then csv_normalize (d :: t) else b_cr :: csv_normalize (d :: t)
          else b_cr :: csv_normalize (d :: t)).
  rewrite Z.eqb_refl. destruct (Z.eqb_spec d b_nl); [contradiction|reflexivity].
Qed.

Lemma escape_head : forall f, f <> [] -> exists d Y, csv_escape f = d :: Y /\ (hd 0 f <> b_nl -> d <> b_nl).
Proof.
  intros [|a f] H; [congruence|]. cbn [csv_escape hd]. destruct (Z.eqb_spec a b_quote) as [E|E].
  - exists b_quote, (b_quote :: csv_escape f). split; [reflexivity|]. intros _. discriminate.
  - exists a, (csv_escape f). split; [reflexivity|]. auto.
Qed.

Lemma norm_escape : forall f rest, no_crlf f = true ->
  csv_normalize (csv_escape f ++ b_quote :: rest) = csv_escape f ++ b_quote :: csv_normalize rest.
Proof.
  induction f as [|a f IH]; intros rest H.
  - cbn [csv_escape app]. apply norm_cons. discriminate.
  - cbn [no_crlf] in H. apply andb_prop in H. destruct H as [H1 H2]. specialize (IH rest H2).
    cbn [csv_escape]. destruct (Z.eqb_spec a b_quote) as [E|E].
    + cbn [app]. rewrite !norm_cons by discriminate. rewrite IH. reflexivity.
    + cbn [app]. destruct (Z.eqb_spec a b_cr) as [E2|E2].
      * subst a. destruct f as [|d f'].
        { cbn [csv_escape app] in *. rewrite norm_cr by discriminate. rewrite IH. reflexivity. }
        assert (Hd : d <> b_nl).
        { cbn [andb] in H1. apply negb_true_iff in H1. apply Z.eqb_neq. exact H1. }
        destruct (escape_head (d :: f') ltac:(discriminate)) as [d' [Y [EY HY]]].
        cbn [hd] in HY. specialize (HY Hd).
        rewrite EY in *. cbn [app] in *. rewrite norm_cr by exact HY. rewrite IH. reflexivity.
      * rewrite norm_cons by exact E2. rewrite IH. reflexivity.
Qed.

Lemma norm_write_fields : forall c fs tail, c <> b_cr -> Forall (fun f => no_crlf f = true) fs ->
  csv_normalize (write_fields c fs tail) = write_fields c fs (csv_normalize tail).
Proof.
  intros c fs tail Hc. induction fs as [|f fs IH]; intros H.
  - cbn [write_fields]. apply norm_cons. discriminate.
  - inversion H as [|? ? Hf Hfs]; subst. destruct fs as [|g r].
    + rewrite !write_fields_one. rewrite norm_cons by discriminate. rewrite norm_escape by exact Hf.
      rewrite norm_cons by discriminate. reflexivity.
    + rewrite !write_fields_more. rewrite norm_cons by discriminate. rewrite norm_escape by exact Hf.
      rewrite norm_cons by exact Hc. rewrite IH by exact Hfs. reflexivity.
Qed.

Lemma norm_write : forall c rs, c <> b_cr -> Forall (Forall (fun f => no_crlf f = true)) rs ->
  csv_normalize (csv_write c rs) = csv_write c rs.
Proof.
  intros c rs Hc. induction rs as [|r rs IH]; intros H; [reflexivity|].
  inversion H as [|? ? Hr Hrs]; subst. cbn [csv_write].
  rewrite norm_write_fields by assumption. rewrite IH by assumption. reflexivity.
Qed.

(* ---------------------------------------------------------------- one quoted field *)
Lemma scan_quoted_escape : forall lz c f rest, c <> b_quote -> c <> b_nl ->
  scan_quoted lz c (csv_escape f ++ b_quote :: c :: rest) = QDone f TComma rest /\
  scan_quoted lz c (csv_escape f ++ b_quote :: b_nl :: rest) = QDone f TEol rest.
Proof.
  intros lz c f rest Hq Hn. induction f as [|a f [IH1 IH2]].
  - cbn [csv_escape app]. rewrite !scan_quoted_cons. rewrite Z.eqb_refl. cbv iota.
    destruct (Z.eqb_spec c b_quote); [contradiction|]. rewrite Z.eqb_refl.
    destruct (Z.eqb_spec b_nl b_quote); [discriminate|].
    destruct (Z.eqb_spec b_nl c); [congruence|]. rewrite Z.eqb_refl. split; reflexivity.
  - cbn [csv_escape]. destruct (Z.eqb_spec a b_quote) as [E|E].
    + subst a. cbn [app]. split.
      * rewrite scan_quoted_cons. rewrite Z.eqb_refl. cbv iota. rewrite IH1. reflexivity.
      * rewrite scan_quoted_cons. rewrite Z.eqb_refl. cbv iota. rewrite IH2. reflexivity.
    + cbn [app]. split.
      * rewrite scan_quoted_cons. destruct (Z.eqb_spec a b_quote); [contradiction|]. rewrite IH1. reflexivity.
      * rewrite scan_quoted_cons. destruct (Z.eqb_spec a b_quote); [contradiction|]. rewrite IH2. reflexivity.
Qed.

Lemma trim_line_quote : forall X, trim_line (b_quote :: X) = (b_quote :: X, false).
Proof. intros [|b [|c t]]; reflexivity. Qed.

Lemma field_start_quote : forall cfg X, field_start cfg (b_quote :: X) = (b_quote :: X, false).
Proof. intros cfg X. unfold field_start. destruct (cc_trim cfg); [apply trim_line_quote|reflexivity]. Qed.

(* ---------------------------------------------------------------- one record *)
Lemma parse_write_fields : forall cfg fs fuel tail,
  cc_comma cfg <> b_quote -> cc_comma cfg <> b_nl -> fs <> [] -> (length fs <= fuel)%nat ->
  parse_fields cfg fuel (write_fields (cc_comma cfg) fs tail) = RecOk fs tail.
Proof.
  intros cfg fs fuel tail Hq Hn. revert fuel. induction fs as [|f fs IH]; intros fuel Hne Hl; [congruence|].
  destruct fuel as [|fuel]; [simpl in Hl; lia|].
  destruct (scan_quoted_escape (cc_lazy cfg) (cc_comma cfg) f) with (rest := tail) as [_ E2]; [assumption|assumption|].
  destruct fs as [|g r].
  - rewrite write_fields_one. rewrite parse_fields_S. rewrite field_start_quote. cbv iota beta.
    rewrite Z.eqb_refl. rewrite E2. reflexivity.
  - rewrite write_fields_more. rewrite parse_fields_S. rewrite field_start_quote. cbv iota beta.
    rewrite Z.eqb_refl.
    destruct (scan_quoted_escape (cc_lazy cfg) (cc_comma cfg) f) with (rest := write_fields (cc_comma cfg) (g :: r) tail)
      as [E1 _]; [assumption|assumption|].
    rewrite E1. rewrite IH; [reflexivity|discriminate|simpl in *; lia].
Qed.

(* ---------------------------------------------------------------- all records *)
Lemma skip_lines_quote : forall cfg X, (cc_comment cfg = 0 \/ cc_comment cfg <> b_quote) ->
  skip_lines cfg false (b_quote :: X) = b_quote :: X.
Proof.
  intros cfg X H. cbn [skip_lines].
  destruct (Z.eqb_spec b_quote b_nl); [discriminate|].
  destruct H as [H|H].
  - rewrite H. reflexivity.
  - destruct (Z.eqb_spec b_quote (cc_comment cfg)); [congruence|]. rewrite andb_false_r. reflexivity.
Qed.

Lemma read_all_step : forall cfg fuel fpr s fs rest,
  skip_lines cfg false s = s -> s <> [] -> parse_fields cfg (S (length s)) s = RecOk fs rest -> count_bad fpr fs = false ->
  read_all cfg (S fuel) fpr s =
    match read_all cfg fuel (next_fpr fpr fs) rest with
    | CsvRecords rs => CsvRecords (fs :: rs)
    | CsvError b e => CsvError (fs :: b) e
    | CsvOutOfFuel => CsvOutOfFuel
    end.
Proof.
  intros cfg fuel fpr s fs rest K Hne P C. cbn [read_all]. rewrite K.
  destruct s as [|a s']; [congruence|]. rewrite P, C. reflexivity.
Qed.

Lemma count_ok_not_bad : forall fpr r, (0 < fpr -> Z.of_nat (length r) = fpr) -> count_bad fpr r = false.
Proof.
  intros fpr r H. unfold count_bad. destruct (Z.ltb_spec 0 fpr) as [Hp|Hp]; [|reflexivity].
  rewrite (H Hp). rewrite Z.eqb_refl. reflexivity.
Qed.

Lemma read_write : forall cfg rs fuel fpr, delims_ok cfg = true -> count_ok fpr rs -> (length rs < fuel)%nat ->
  read_all cfg fuel fpr (csv_write (cc_comma cfg) rs) = CsvRecords rs.
Proof.
  intros cfg rs fuel fpr Hd. destruct (delims_ok_facts cfg Hd) as [Hq [_ [Hn Hc]]].
  revert fuel fpr. induction rs as [|r rs IH]; intros fuel fpr C Hl.
  - destruct fuel; [lia|]. reflexivity.
  - destruct fuel as [|fuel]; [lia|]. destruct C as [C1 [C2 C3]]. cbn [csv_write].
    destruct (write_fields_head (cc_comma cfg) r (csv_write (cc_comma cfg) rs) C1) as [Y EY].
    rewrite (read_all_step cfg fuel fpr _ r (csv_write (cc_comma cfg) rs)).
    + rewrite IH; [reflexivity|exact C3|simpl in Hl; lia].
    + rewrite EY. apply skip_lines_quote. exact Hc.
    + rewrite EY. discriminate.
    + apply parse_write_fields; try assumption.
      pose proof (write_fields_len (cc_comma cfg) r (csv_write (cc_comma cfg) rs)). lia.
    + apply count_ok_not_bad. exact C2.
Qed.

(* the friendlier form of the field-count condition implies count_ok *)
Lemma count_ok_of_nocheck : forall rs fpr, fpr < 0 -> Forall (fun r => r <> []) rs -> count_ok fpr rs.
Proof.
  induction rs as [|r rs IH]; intros fpr Hf H; [exact I|]. inversion H; subst. cbn [count_ok].
  rewrite next_fpr_nonzero by lia. repeat split; auto. intros; lia.
Qed.

Lemma count_ok_of_pos : forall rs fpr, 0 < fpr -> Forall (fun r => Z.of_nat (length r) = fpr) rs -> count_ok fpr rs.
Proof.
  induction rs as [|r rs IH]; intros fpr Hf H; [exact I|].
  pose proof (Forall_inv H) as Hr. pose proof (Forall_inv_tail H) as Hrs. cbv beta in Hr. cbn [count_ok].
  rewrite next_fpr_nonzero by lia. repeat split; auto. intros E. rewrite E in Hr. simpl in Hr. lia.
Qed.

Lemma count_ok_of_zero : forall rs n, Forall (fun r => r <> []) rs -> Forall (fun r => length r = n) rs -> count_ok 0 rs.
Proof.
  intros [|r rs] n Hne H; [exact I|]. inversion Hne as [|? ? Hr Hrs]; subst. inversion H as [|? ? Hl Hls]; subst.
  cbn [count_ok]. split; [exact Hr|]. split; [intros; lia|].
  unfold next_fpr. cbn.
  apply count_ok_of_pos.
  - destruct r; [congruence|simpl length; lia].
  - eapply Forall_impl; [|exact Hls]. cbv beta. intros x Hx. rewrite Hx. reflexivity.
Qed.

Lemma csv_roundtrip : forall cfg rs,
  delims_ok cfg = true ->
  Forall (fun r => r <> []) rs ->
  Forall (Forall (fun f => no_crlf f = true)) rs ->
  (cc_fpr cfg < 0 \/
   (0 < cc_fpr cfg /\ Forall (fun r => Z.of_nat (length r) = cc_fpr cfg) rs) \/
   (cc_fpr cfg = 0 /\ exists n, Forall (fun r => length r = n) rs)) ->
  csv_read_all cfg (csv_write (cc_comma cfg) rs) = CsvRecords rs.
Proof.
  intros cfg rs Hd Hne Hcr Hcount. unfold csv_read_all. rewrite Hd.
  destruct (delims_ok_facts cfg Hd) as [_ [Hcr' _]].
  rewrite norm_write by assumption.
  apply read_write; [exact Hd| |].
  - destruct Hcount as [H|[[H1 H2]|[H1 [n H2]]]].
    + apply count_ok_of_nocheck; assumption.
    + apply count_ok_of_pos; assumption.
    + rewrite H1. eapply count_ok_of_zero; eassumption.
  - pose proof (csv_write_len (cc_comma cfg) rs Hne). lia.
Qed.
