(* C04: the repaired checker (Model/Check.v [check_proc_fixed]) accepts exactly the well-formed
   journals (Spec/WellformedSpec.v).  Refinement proof:
     1. the checker's callbacks as one step function on events, [ck_event];
     2. the invariant [Inv pre s] relating the checker state [s] reached after the events [pre]
        to the history functions of the specification: the open list denotes [open_after pre],
        the quantity map denotes [quantity pre] up to equality of values (positions deleted at
        close were zero), its keys are sorted and well-formed;
     3. [step_refines]: one event; [run_refines]: a sequence of events. *)
From Coq Require Import ZArith List Bool Lia Sorting.Sorted.
From Knut Require Import Model.Str Model.Dec Model.Account Model.Ledger Model.Price Model.Journal Model.Check
     Spec.WellformedSpec Proofs.DecProofs Proofs.DecEqProofs Proofs.CheckLemmas.
Import ListNotations.
Open Scope bool_scope.
Open Scope Z_scope.

(* ------------------------------------------------------------------ the checker on events *)

Definition getd (m : positions) (a : account) (c : commodity) : dec :=
  match pos_get m a c with Some q => q | None => dec_nil end.

Definition ck_post (s : check_state) (a : account) (c : commodity) (q : dec) : presult check_state :=
  if negb (is_open s a) then RErr k_not_open (acc_name a)
  else if is_AL a then ROk (mkCheck (ck_open s) (pos_add (ck_qty s) a c q)) else ROk s.

Definition ck_event (s : check_state) (e : event) : presult check_state :=
  match e with
  | EOpen a => ck_open_cb s a
  | EPost a c q => ck_post s a c q
  | EAssert a c q => ck_balance_fixed s [] (mkBalance a q c)
  | EClose a => ck_close_cb s a
  end.

Fixpoint run_events (s : check_state) (evs : list event) : presult check_state :=
  match evs with
  | [] => ROk s
  | e :: r => rbind (ck_event s e) (fun s' => run_events s' r)
  end.

Definition kind_of (r : reason) : str :=
  match r with
  | AlreadyOpen => k_already_open | NotOpen => k_not_open
  | AssertionFails => k_assertion | NonZeroPosition => k_nonzero
  end.

(* ------------------------------------------------------------------ history functions, one more event *)

Lemma open_after_snoc pre e a : open_after (pre ++ [e]) a = open_step a (open_after pre a) e.
Proof. unfold open_after. rewrite fold_left_app. reflexivity. Qed.

Lemma quantity_snoc pre e a c : quantity (pre ++ [e]) a c = qty_step a c (quantity pre a c) e.
Proof. unfold quantity. rewrite fold_left_app. reflexivity. Qed.

(* ------------------------------------------------------------------ the open list *)

Lemma is_open_cons l m a b : is_open (mkCheck (a :: l) m) b = acc_eqb b a || is_open (mkCheck l m) b.
Proof. reflexivity. Qed.

Lemma existsb_filter_acc a b l :
  existsb (acc_eqb b) (filter (fun x => negb (acc_eqb a x)) l) = negb (acc_eqb a b) && existsb (acc_eqb b) l.
Proof.
  induction l as [|x l IH]; cbn.
  - rewrite andb_false_r. reflexivity.
  - destruct (acc_eqb a x) eqn:Eax; cbn.
    + rewrite IH. destruct (acc_eqb a b) eqn:Eab; cbn; [reflexivity|].
      destruct (acc_eqb b x) eqn:Ebx; cbn; [|reflexivity].
      apply acc_eqb_name in Eax. apply acc_eqb_name in Ebx.
      assert (acc_eqb a b = true) by (apply acc_eqb_name; congruence). congruence.
    + rewrite IH. destruct (acc_eqb a b) eqn:Eab; cbn; [|reflexivity].
      destruct (acc_eqb b x) eqn:Ebx; cbn; [|reflexivity].
      apply acc_eqb_name in Eab. apply acc_eqb_name in Ebx.
      assert (acc_eqb a x = true) by (apply acc_eqb_name; congruence). congruence.
Qed.

(* ------------------------------------------------------------------ the quantity map *)

Definition entry_ok (x : str * (account * commodity * dec)) : Prop :=
  fst x = pos_key (fst (fst (snd x))) (snd (fst (snd x))) /\
  account_ok (fst (fst (snd x))) = true /\ is_AL (fst (fst (snd x))) = true.

Definition entry_acc (x : str * (account * commodity * dec)) : account := fst (fst (snd x)).

Lemma getd_put_same m a c q : getd (sm_put m (pos_key a c) (a, c, q)) a c = q.
Proof. unfold getd, pos_get. rewrite sm_get_put_same. reflexivity. Qed.

Lemma getd_put_other m a c v b c' :
  pos_key b c' <> pos_key a c -> getd (sm_put m (pos_key a c) v) b c' = getd m b c'.
Proof. intros H. unfold getd, pos_get. rewrite sm_get_put_other by exact H. reflexivity. Qed.

Lemma getd_in m a c q :
  keys_sorted m -> In (pos_key a c, (a, c, q)) m -> getd m a c = q.
Proof. intros Hs Hin. unfold getd, pos_get. rewrite (sm_get_in_sorted m _ _ Hs Hin). reflexivity. Qed.

(* close_positions = "all positions of the account are zero" + filter *)
Lemma close_positions_some m a m' :
  close_positions m a = Some m' ->
  m' = filter (fun x => negb (acc_eqb a (entry_acc x))) m /\
  (forall x, In x m -> acc_eqb a (entry_acc x) = true -> is_zero (snd (snd x)) = true).
Proof.
  revert m'. induction m as [|[k [[a' c] q]] rest IH]; cbn; intros m' H.
  - inversion H. split; [reflexivity|intros x []].
  - unfold entry_acc at 1. cbn [fst snd].
    destruct (acc_eqb a a') eqn:E; cbn [negb].
    + destruct (is_zero q) eqn:Z; [|discriminate].
      destruct (IH _ H) as [E1 E2]. split; [exact E1|].
      intros x [Hx|Hx] Hacc; [subst x; exact Z|apply E2; assumption].
    + destruct (close_positions rest a) as [r|] eqn:Er; [|discriminate].
      inversion H. subst m'. destruct (IH _ eq_refl) as [E1 E2]. split; [rewrite E1; reflexivity|].
      intros x [Hx|Hx] Hacc; [subst x; unfold entry_acc in Hacc; cbn in Hacc; congruence|apply E2; assumption].
Qed.

Lemma close_positions_none m a :
  close_positions m a = None ->
  exists x, In x m /\ acc_eqb a (entry_acc x) = true /\ is_zero (snd (snd x)) = false.
Proof.
  induction m as [|[k [[a' c] q]] rest IH]; cbn; intros H; [discriminate|].
  destruct (acc_eqb a a') eqn:E.
  - destruct (is_zero q) eqn:Z.
    + destruct (IH H) as [x [H1 H2]]. exists x. split; [right; exact H1|exact H2].
    + exists (k, (a', c, q)). split; [left; reflexivity|]. split; [exact E|exact Z].
  - destruct (close_positions rest a) as [r|] eqn:Er; [discriminate|].
    destruct (IH eq_refl) as [x [H1 H2]]. exists x. split; [right; exact H1|exact H2].
Qed.

Lemma keys_sorted_filter {V} (f : str * V -> bool) (m : smap V) : keys_sorted m -> keys_sorted (filter f m).
Proof.
  unfold keys_sorted. induction m as [|x m IH]; cbn; intros Hs; [constructor|].
  inversion Hs as [|y l Hs' Hall]; subst.
  destruct (f x).
  - constructor; [apply IH; exact Hs'|].
    rewrite Forall_forall in *. intros y Hy. apply filter_In in Hy. apply Hall. tauto.
  - apply IH. exact Hs'.
Qed.

(* lookups in the filtered map *)
Lemma getd_filter_other m a b c :
  keys_sorted m -> (forall x, In x m -> entry_ok x) ->
  account_ok a = true -> account_ok b = true -> a <> b ->
  getd (filter (fun x => negb (acc_eqb a (entry_acc x))) m) b c = getd m b c.
Proof.
  intros Hs He Ha Hb Hab.
  set (f := fun x : str * (account * commodity * dec) => negb (acc_eqb a (entry_acc x))).
  pose proof (keys_sorted_filter f m Hs) as Hs'.
  unfold getd, pos_get.
  destruct (sm_get m (pos_key b c)) as [[[a' c'] q]|] eqn:G.
  - apply sm_get_some_in in G.
    pose proof (He _ G) as [K [Oa _]]. cbn [fst snd] in K, Oa.
    apply pos_key_inj in K; [|assumption|assumption]. destruct K as [K1 K2]. subst a' c'.
    assert (Hin : In (pos_key b c, (b, c, q)) (filter f m)).
    { apply filter_In. split; [exact G|]. unfold f, entry_acc. cbn [fst snd].
      rewrite (acc_eqb_ok a b Ha Hb). unfold same_acc. destruct (acc_eq_dec a b); [contradiction|reflexivity]. }
    rewrite (sm_get_in_sorted _ _ _ Hs' Hin). reflexivity.
  - destruct (sm_get (filter f m) (pos_key b c)) as [[[a' c'] q]|] eqn:G'; [|reflexivity].
    apply sm_get_some_in in G'. apply filter_In in G'. destruct G' as [G' _].
    rewrite (sm_get_in_sorted _ _ _ Hs G') in G. discriminate.
Qed.

Lemma getd_filter_same m a c :
  (forall x, In x m -> entry_ok x) -> account_ok a = true ->
  getd (filter (fun x => negb (acc_eqb a (entry_acc x))) m) a c = dec_nil.
Proof.
  intros He Ha. unfold getd, pos_get.
  destruct (sm_get _ (pos_key a c)) as [[[a' c'] q]|] eqn:G; [|reflexivity].
  apply sm_get_some_in in G. apply filter_In in G. destruct G as [G F].
  pose proof (He _ G) as [K [Oa _]]. cbn [fst snd] in K, Oa.
  apply pos_key_inj in K; [|assumption|assumption]. destruct K as [K1 K2]. subst a' c'.
  unfold entry_acc in F. cbn [fst snd] in F. rewrite acc_eqb_refl in F. discriminate.
Qed.

(* ------------------------------------------------------------------ the invariant *)

Record Inv (pre : list event) (s : check_state) : Prop := mkInv {
  inv_open : forall a, account_ok a = true -> is_open s a = open_after pre a;
  inv_qty : forall a c, account_ok a = true -> is_AL a = true ->
            deqv (getd (ck_qty s) a c) (quantity pre a c);
  inv_sorted : keys_sorted (ck_qty s);
  inv_entries : forall x, In x (ck_qty s) -> entry_ok x }.

Lemma inv_init : Inv [] check_init.
Proof.
  constructor.
  - intros a _. reflexivity.
  - intros a c _ _. apply deqv_refl.
  - constructor.
  - intros x [].
Qed.

(* Checker.balance of the repaired code on an open A/L account *)
Lemma ck_balance_cb_lenient s l b :
  is_open s (bal_acc b) = true ->
  ck_balance_cb true s l b =
  if dec_equal (getd (ck_qty s) (bal_acc b) (bal_com b)) (bal_qty b) then ROk s
  else RErr k_assertion (acc_name (bal_acc b)).
Proof.
  intros Ho. unfold ck_balance_cb, getd. rewrite Ho. cbn [negb].
  destruct (pos_get (ck_qty s) (bal_acc b) (bal_com b)); [reflexivity|].
  cbn [andb]. reflexivity.
Qed.

Lemma pair_neq_cases (a b : account) (c c' : commodity) :
  (a = b /\ c = c') \/ (same_acc a b && same_com c c' = false).
Proof.
  unfold same_acc, same_com. destruct (acc_eq_dec a b), (str_eq_dec c c'); cbn; tauto.
Qed.

Lemma step_refines pre s e :
  Inv pre s -> account_ok (ev_acc e) = true ->
  match ck_event s e with
  | ROk s' => ok_event pre e /\ Inv (pre ++ [e]) s'
  | RErr k d => ~ ok_event pre e /\ d = acc_name (ev_acc e) /\ exists r, k = kind_of r /\ violation pre e r
  | RPanic _ => False
  end.
Proof.
  intros I Hok. destruct I as [Io Iq Is Ie].
  destruct e as [a|a c q|a c q|a]; cbn [ev_acc] in Hok; cbn [ck_event].
  - (* open *)
    unfold ck_open_cb. pose proof (Io a Hok) as Ha.
    destruct (is_open s a) eqn:E.
    + split; [cbn; congruence|]. split; [reflexivity|].
      exists AlreadyOpen. split; [reflexivity|]. cbn. split; [reflexivity|congruence].
    + split; [cbn; congruence|]. constructor; cbn [ck_qty ck_open].
      * intros b Hb. destruct s as [ol qm]. rewrite is_open_cons. cbn [ck_open ck_qty] in *.
        rewrite open_after_snoc. cbn [open_step].
        rewrite (acc_eqb_ok b a Hb Hok). rewrite <- (Io b Hb).
        destruct (same_acc b a); reflexivity.
      * intros b c Hb Hal. rewrite quantity_snoc. cbn [qty_step]. apply Iq; assumption.
      * exact Is.
      * exact Ie.
  - (* posting *)
    unfold ck_post. pose proof (Io a Hok) as Ha.
    destruct (is_open s a) eqn:E; cbn [negb].
    + destruct (is_AL a) eqn:Al.
      * split; [cbn; congruence|]. constructor; cbn [ck_qty ck_open].
        -- intros b Hb. rewrite open_after_snoc. cbn [open_step]. rewrite <- (Io b Hb). reflexivity.
        -- intros b c' Hb Hal. rewrite quantity_snoc. cbn [qty_step].
           unfold pos_add. fold (getd (ck_qty s) a c).
           destruct (pair_neq_cases b a c' c) as [[E1 E2]|N].
           ++ subst b c'. rewrite same_acc_refl, same_com_refl. cbn [andb].
              rewrite getd_put_same. apply deqv_add_l. apply Iq; assumption.
           ++ rewrite N. rewrite getd_put_other; [apply Iq; assumption|].
              intros K. apply pos_key_inj in K; [|assumption|assumption]. destruct K as [K1 K2]. subst b c'.
              rewrite same_acc_refl, same_com_refl in N. discriminate.
        -- unfold pos_add. apply sm_put_sorted. exact Is.
        -- intros x Hx. unfold pos_add in Hx. apply sm_put_in in Hx. destruct Hx as [Hx|Hx].
           ++ subst x. unfold entry_ok. cbn [fst snd]. tauto.
           ++ apply Ie. exact Hx.
      * split; [cbn; congruence|]. constructor.
        -- intros b Hb. rewrite open_after_snoc. cbn [open_step]. apply Io. exact Hb.
        -- intros b c' Hb Hal. rewrite quantity_snoc. cbn [qty_step].
           assert (N : same_acc b a = false).
           { unfold same_acc. destruct (acc_eq_dec b a); [subst; congruence|reflexivity]. }
           rewrite N. cbn [andb]. apply Iq; assumption.
        -- exact Is.
        -- exact Ie.
    + split; [cbn; congruence|]. split; [reflexivity|].
      exists NotOpen. split; [reflexivity|]. cbn. split; [reflexivity|congruence].
  - (* assertion *)
    unfold ck_balance_fixed. cbn [bal_acc bal_qty bal_com]. pose proof (Io a Hok) as Ha.
    assert (Inext : Inv (pre ++ [EAssert a c q]) s).
    { constructor.
      - intros b Hb. rewrite open_after_snoc. cbn [open_step]. apply Io. exact Hb.
      - intros b c' Hb Hal. rewrite quantity_snoc. cbn [qty_step]. apply Iq; assumption.
      - exact Is.
      - exact Ie. }
    destruct (is_open s a) eqn:E; cbn [negb].
    + destruct (is_AL a) eqn:Al; cbn [negb].
      * rewrite ck_balance_cb_lenient by exact E. cbn [bal_acc bal_qty bal_com].
        rewrite (deqv_equal_l _ _ q (Iq a c Hok Al)).
        destruct (dec_equal (quantity pre a c) q) eqn:D.
        -- split; [cbn; split; [congruence|intros _; exact D]|exact Inext].
        -- split; [cbn; intros [_ H]; specialize (H Al); congruence|].
           split; [reflexivity|]. exists AssertionFails. split; [reflexivity|].
           cbn. right. repeat split; congruence.
      * split; [cbn; split; [congruence|intros H; congruence]|exact Inext].
    + split; [cbn; intros [H _]; congruence|]. split; [reflexivity|].
      exists NotOpen. split; [reflexivity|]. cbn. left. split; [reflexivity|congruence].
  - (* close *)
    unfold ck_close_cb. pose proof (Io a Hok) as Ha.
    destruct (close_positions (ck_qty s) a) as [m'|] eqn:C.
    + apply close_positions_some in C. destruct C as [Em Z].
      destruct (is_open s a) eqn:E; cbn [negb].
      * assert (Hzero : is_AL a = true -> forall c, is_zero (quantity pre a c) = true).
        { intros Al c. rewrite <- (deqv_is_zero _ _ (Iq a c Hok Al)).
          unfold getd, pos_get.
          destruct (sm_get (ck_qty s) (pos_key a c)) as [[[a' c'] q]|] eqn:G; [|reflexivity].
          apply sm_get_some_in in G. pose proof (Ie _ G) as [K [Oa _]]. cbn [fst snd] in K, Oa.
          apply pos_key_inj in K; [|assumption|assumption]. destruct K as [K1 K2]. subst a' c'.
          apply (Z _ G). unfold entry_acc. cbn. apply acc_eqb_refl. }
        split; [cbn; split; [congruence|exact Hzero]|].
        constructor; cbn [ck_open ck_qty].
        -- intros b Hb. unfold is_open. cbn [ck_open]. rewrite existsb_filter_acc.
           fold (is_open s b). rewrite (Io b Hb). rewrite open_after_snoc. cbn [open_step].
           rewrite (acc_eqb_ok a b Hok Hb). rewrite (same_acc_sym b a).
           destruct (same_acc a b); reflexivity.
        -- intros b c Hb Hal. rewrite quantity_snoc. cbn [qty_step]. subst m'.
           destruct (acc_eq_dec a b) as [Eab|Nab].
           ++ subst b. rewrite getd_filter_same by assumption.
              apply deqv_zero; [reflexivity|apply Hzero; exact Hal].
           ++ rewrite getd_filter_other by assumption. apply Iq; assumption.
        -- subst m'. apply keys_sorted_filter. exact Is.
        -- subst m'. intros x Hx. apply filter_In in Hx. apply Ie. tauto.
      * split; [cbn; intros [H _]; congruence|]. split; [reflexivity|].
        exists NotOpen. split; [reflexivity|]. cbn. left. split; [reflexivity|congruence].
    + apply close_positions_none in C. destruct C as [[k [[a' c'] q]] [Hin [Hacc Hnz]]].
      unfold entry_acc in Hacc. cbn [fst snd] in Hacc, Hnz.
      pose proof (Ie _ Hin) as [K [Oa Al]]. cbn [fst snd] in K, Oa, Al.
      rewrite (acc_eqb_ok a a' Hok Oa) in Hacc. apply same_acc_eq in Hacc. subst a' k.
      assert (Hq : is_zero (quantity pre a c') = false).
      { rewrite <- (deqv_is_zero _ _ (Iq a c' Hok Al)). rewrite (getd_in _ _ _ _ Is Hin). exact Hnz. }
      split; [cbn; intros [_ H]; specialize (H Al c'); congruence|]. split; [reflexivity|].
      exists NonZeroPosition. split; [reflexivity|]. cbn. right. split; [reflexivity|].
      split; [exact Al|]. exists c'. exact Hq.
Qed.

(* ------------------------------------------------------------------ sequences of events *)

Definition all_ok_before (pre evs : list event) : Prop :=
  forall p e q, evs = p ++ e :: q -> ok_event (pre ++ p) e.

Lemma run_refines evs : forall pre s,
  Inv pre s -> (forall e, In e evs -> account_ok (ev_acc e) = true) ->
  match run_events s evs with
  | ROk s' => all_ok_before pre evs /\ Inv (pre ++ evs) s'
  | RErr k d =>
    exists p e q r, evs = p ++ e :: q /\ all_ok_before pre p /\ ~ ok_event (pre ++ p) e /\
                    d = acc_name (ev_acc e) /\ k = kind_of r /\ violation (pre ++ p) e r
  | RPanic _ => False
  end.
Proof.
  induction evs as [|e evs IH]; intros pre s I Hacc; cbn [run_events].
  - split; [|rewrite app_nil_r; exact I].
    intros p e q H. destruct p; discriminate.
  - pose proof (step_refines pre s e I (Hacc e (or_introl eq_refl))) as St.
    destruct (ck_event s e) as [s1|k d|m]; cbn [rbind].
    + destruct St as [Oke I1].
      specialize (IH (pre ++ [e]) s1 I1 (fun e' H => Hacc e' (or_intror H))).
      destruct (run_events s1 evs) as [s2|k d|m].
      * destruct IH as [All I2]. split.
        -- intros p e' q H. destruct p as [|x p]; cbn in H; inversion H; subst.
           ++ rewrite app_nil_r. exact Oke.
           ++ specialize (All p e' q eq_refl). rewrite <- app_assoc in All. exact All.
        -- rewrite <- app_assoc in I2. exact I2.
      * destruct IH as [p [e' [q [r [H1 [H2 [H3 [H4 [H5 H6]]]]]]]]].
        exists (e :: p), e', q, r. rewrite <- app_assoc in H3, H6. cbn [app] in H3, H6.
        split; [rewrite H1; reflexivity|]. split; [|tauto].
        intros p1 e1 q1 H. destruct p1 as [|x p1]; cbn in H; inversion H; subst.
        -- rewrite app_nil_r. exact Oke.
        -- specialize (H2 p1 e1 q1 eq_refl). rewrite <- app_assoc in H2. exact H2.
      * exact IH.
    + destruct St as [Nok [Hd [r [Hk Hv]]]].
      exists [], e, evs, r. rewrite app_nil_r.
      split; [reflexivity|]. split; [intros p e' q H; destruct p; discriminate|]. tauto.
    + exact St.
Qed.
