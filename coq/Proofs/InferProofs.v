(* Proofs about Model/Bayes.v (C15), for EVERY choice function that returns an element of the
   candidate list it is given and returns one whenever that list is not empty.               *)
From Coq Require Import ZArith List Bool Lia.
From Knut Require Import Model.Bytes Model.Utf8 Model.Scanner Model.Parser Model.SynPrinter
  Spec.SyntaxSpec Proofs.ScannerProofs Proofs.ParserProofs Spec.FormatSpec Model.SynRender
  Proofs.FormatProofs Model.Bayes Spec.InferSpec.
Import ListNotations.
Open Scope bool_scope.
Open Scope Z_scope.

Definition valid_choose (choose : nat -> list str -> option str) : Prop :=
  (forall k l x, choose k l = Some x -> In x l) /\ (forall k l, l <> [] -> choose k l <> None).

Lemma str_eqb_true a b : str_eqb a b = true -> a = b.
Proof. apply str_eqb_eq. Qed.

Lemma str_eqb_false a b : str_eqb a b = false -> a <> b.
Proof. intros H E. apply str_eqb_eq in E. congruence. Qed.

(* ------------------------------------------------------------------ candidates *)

Lemma insert_sorted_in x y l : In y (insert_sorted x l) <-> y = x \/ In y l.
Proof.
  induction l as [|z l IH]; cbn [insert_sorted].
  - simpl. intuition.
  - destruct (str_eqb x z) eqn:E.
    + apply str_eqb_true in E. subst. simpl. intuition.
    + destruct (str_ltb x z); simpl; rewrite ?IH; intuition.
Qed.

Lemma sort_dedup_in y l : In y (sort_dedup l) <-> In y l.
Proof.
  unfold sort_dedup. induction l as [|x l IH]; cbn [fold_right]; [reflexivity|].
  rewrite insert_sorted_in, IH. simpl. intuition.
Qed.

Section WithPlaceholder.
Variable ph : str.

(* the placeholder is never a candidate *)
Lemma update_accounts_not_ph bs : ~ In ph (update_accounts ph bs).
Proof.
  unfold update_accounts. rewrite in_flat_map. intros (b & _ & Hin).
  destruct (snd (sb_credit b) || snd (sb_debit b)); [destruct Hin|].
  destruct (is_nil (fst (sb_credit b)) || is_nil (fst (sb_debit b))); [destruct Hin|].
  destruct (str_eqb (fst (sb_credit b)) ph) eqn:E1; [destruct Hin|].
  destruct (str_eqb (fst (sb_debit b)) ph) eqn:E2; [destruct Hin|].
  cbn [orb] in Hin. apply str_eqb_false in E1, E2. destruct Hin as [H|[H|[]]]; congruence.
Qed.

Lemma candidates_not_ph training : ~ In ph (candidates ph training).
Proof.
  unfold candidates, trained_accounts. rewrite sort_dedup_in, in_flat_map.
  intros (d & _ & Hin). destruct d; try destruct Hin. now apply update_accounts_not_ph in Hin.
Qed.

(* every candidate is an account of a training booking *)
Definition booking_accounts (d : sem_directive) : list str :=
  match d with
  | SemTrx _ _ bs _ _ => flat_map (fun b => [fst (sb_credit b); fst (sb_debit b)]) bs
  | _ => []
  end.

Lemma candidates_in_training training x :
  In x (candidates ph training) -> exists d, In d training /\ In x (booking_accounts d).
Proof.
  unfold candidates, trained_accounts. rewrite sort_dedup_in, in_flat_map.
  intros (d & Hd & Hin). exists d. split; [assumption|]. destruct d; try destruct Hin.
  cbn [booking_accounts]. unfold update_accounts in Hin. rewrite in_flat_map in *.
  destruct Hin as (b & Hb & Hin). exists b. split; [assumption|].
  destruct (snd (sb_credit b) || snd (sb_debit b)); [destruct Hin|].
  destruct (is_nil (fst (sb_credit b)) || is_nil (fst (sb_debit b))); [destruct Hin|].
  destruct (str_eqb (fst (sb_credit b)) ph || str_eqb (fst (sb_debit b)) ph); [destruct Hin|]. exact Hin.
Qed.

Lemma without_in other l x : In x (without other l) <-> In x l /\ x <> other.
Proof.
  unfold without. rewrite filter_In. split; intros (H1 & H2); split; try assumption.
  - apply negb_true_iff in H2. now apply str_eqb_false.
  - apply negb_true_iff. destruct (str_eqb x other) eqn:E; [|reflexivity].
    apply str_eqb_true in E. contradiction.
Qed.

(* ------------------------------------------------------------------ one side, one booking *)

Variable v : variant.
Variable choose : nat -> list str -> option str.
Hypothesis Hch : valid_choose choose.
Variable cands : list str.

(* what inference does to one side of a booking, [other] being the account it excludes *)
Definition side_rel (acc acc' : sem_account) (other : str) : Prop :=
  (fst acc <> ph /\ acc' = acc) \/
  (fst acc = ph /\
   ((exists x, acc' = (x, false) /\ In x cands /\ x <> other) \/
    (without other cands = [] /\ acc' = match v with Orig => ([], false) | Fixed => acc end))).

Lemma infer_side_rel k acc other acc' k' :
  infer_side ph v choose cands k acc other = (acc', k') -> side_rel acc acc' other.
Proof.
  unfold infer_side, side_rel. destruct (str_eqb (fst acc) ph) eqn:E.
  - apply str_eqb_true in E. intros H. right. split; [assumption|].
    destruct (choose k (without other cands)) as [x|] eqn:Hc.
    + inversion H; subst. left. exists x. split; [reflexivity|].
      apply (proj1 Hch) in Hc. now apply without_in in Hc.
    + right. split.
      * destruct (without other cands) eqn:Hw; [reflexivity|].
        exfalso. apply (proj2 Hch k (s :: l)); [discriminate|assumption].
      * destruct v; inversion H; reflexivity.
  - apply str_eqb_false in E. intros H. inversion H; subst. left. split; [assumption|reflexivity].
Qed.

Definition booking_rel (b b' : sem_booking) : Prop :=
  sb_quantity b' = sb_quantity b /\ sb_commodity b' = sb_commodity b /\
  side_rel (sb_credit b) (sb_credit b') (fst (sb_debit b)) /\
  side_rel (sb_debit b) (sb_debit b')
           (match v with Orig => fst (sb_credit b) | Fixed => fst (sb_credit b') end).

Lemma infer_booking_rel k b b' k' :
  infer_booking ph v choose cands k b = (b', k') -> booking_rel b b'.
Proof.
  unfold infer_booking, booking_rel.
  destruct (infer_side ph v choose cands k (sb_credit b) (fst (sb_debit b))) as [c' k1] eqn:H1.
  destruct (infer_side ph v choose cands k1 (sb_debit b)
              (match v with Orig => fst (sb_credit b) | Fixed => fst c' end)) as [d' k2] eqn:H2.
  intros H. inversion H; subst. cbn [sb_quantity sb_commodity sb_credit sb_debit].
  repeat split; [eapply infer_side_rel; eassumption|eapply infer_side_rel; eassumption].
Qed.

Lemma infer_bookings_rel : forall bs k bs' k',
  infer_bookings ph v choose cands k bs = (bs', k') -> Forall2 booking_rel bs bs'.
Proof.
  induction bs as [|b bs IH]; intros k bs' k' H; cbn [infer_bookings] in H.
  - inversion H. constructor.
  - destruct (infer_booking ph v choose cands k b) as [b1 k1] eqn:H1.
    destruct (infer_bookings ph v choose cands k1 bs) as [bs1 k2] eqn:H2.
    inversion H; subst. constructor; [eapply infer_booking_rel; eassumption|eapply IH; eassumption].
Qed.

(* a directive and its image: everything but the booking accounts is kept *)
Definition directive_rel (d d' : sem_directive) : Prop :=
  match d, d' with
  | SemTrx dt ds bs p a, SemTrx dt' ds' bs' p' a' =>
    dt' = dt /\ ds' = ds /\ p' = p /\ a' = a /\ Forall2 booking_rel bs bs'
  | SemTrx _ _ _ _ _, _ => False
  | _, _ => d' = d
  end.

Lemma infer_sems_rel : forall ds k ds' k',
  infer_sems ph v choose cands k ds = (ds', k') -> Forall2 directive_rel ds ds'.
Proof.
  induction ds as [|d ds IH]; intros k ds' k' H; cbn [infer_sems] in H.
  - inversion H. constructor.
  - destruct d as [dt de bs p a|dt a|dt a|dt bs|dt c p tg|p|];
      try (destruct (infer_sems ph v choose cands k ds) as [ds1 k2] eqn:H2; inversion H; subst;
           constructor; [reflexivity|eapply IH; eassumption]).
    destruct (infer_bookings ph v choose cands k bs) as [bs1 k1] eqn:H1.
    destruct (infer_sems ph v choose cands k1 ds) as [ds1 k2] eqn:H2. inversion H; subst.
    constructor; [|eapply IH; eassumption]. cbn [directive_rel].
    repeat split; try reflexivity. eapply infer_bookings_rel; eassumption.
Qed.

(* ------------------------------------------------------------------ no placeholder: nothing changes *)

Definition side_free (a : sem_account) : Prop := fst a <> ph.
Definition booking_free (b : sem_booking) : Prop := side_free (sb_credit b) /\ side_free (sb_debit b).
Definition directive_free (d : sem_directive) : Prop :=
  match d with SemTrx _ _ bs _ _ => Forall booking_free bs | _ => True end.

Lemma infer_side_free k acc other : side_free acc -> infer_side ph v choose cands k acc other = (acc, k).
Proof.
  unfold side_free, infer_side. intros H. destruct (str_eqb (fst acc) ph) eqn:E; [|reflexivity].
  apply str_eqb_true in E. contradiction.
Qed.

Lemma infer_bookings_free : forall bs k, Forall booking_free bs ->
  infer_bookings ph v choose cands k bs = (bs, k).
Proof.
  induction bs as [|b bs IH]; intros k H; cbn [infer_bookings]; [reflexivity|].
  inversion H as [|? ? (Hc & Hd) Hr]; subst. unfold infer_booking.
  rewrite (infer_side_free k _ _ Hc), (infer_side_free k _ _ Hd), (IH k Hr). destruct b; reflexivity.
Qed.

Lemma infer_sems_free : forall ds k, Forall directive_free ds ->
  infer_sems ph v choose cands k ds = (ds, k).
Proof.
  induction ds as [|d ds IH]; intros k H; cbn [infer_sems]; [reflexivity|].
  inversion H as [|? ? Hd Hr]; subst.
  destruct d; cbn [directive_free] in Hd; rewrite ?(infer_bookings_free _ k Hd), (IH k Hr); reflexivity.
Qed.

End WithPlaceholder.

(* ------------------------------------------------------------------ the command *)

(* the printed text is the rendering of the target's gaps with the inferred meanings *)
Lemma infer_with_shape ph v letter digit choose training target out :
  infer_with ph v letter digit choose training target = InferOut out ->
  exists ftr ftg sems k,
    parse_text letter digit training = ParseOk ftr /\ parse_text letter digit target = ParseOk ftg /\
    infer_sems ph v choose (candidates ph (sem training ftr)) 0%nat (sem target ftg) = (sems, k) /\
    render Utf8M.decode sems (gaps target ftg) = Some out.
Proof.
  unfold infer_with. intros H.
  destruct (parse_text letter digit training) as [ftr|e|]; destruct (parse_text letter digit target) as [ftg|e'|];
    try discriminate.
  destruct (infer_sems ph v choose (candidates ph (sem training ftr)) 0%nat (sem target ftg)) as [sems k] eqn:Hs.
  destruct (render Utf8M.decode sems (gaps target ftg)) as [o|] eqn:Hr; [|discriminate].
  inversion H; subst. exists ftr, ftg, sems, k. auto.
Qed.

(* a target without the placeholder: infer prints exactly `knut format` of the target *)
Lemma infer_without_placeholder ph v letter digit choose training target ftr ftg :
  parse_text letter digit training = ParseOk ftr -> parse_text letter digit target = ParseOk ftg ->
  Forall (directive_free ph) (sem target ftg) ->
  exists out, format_text letter digit target ftg = FOk out /\
              infer_with ph v letter digit choose training target = InferOut out.
Proof.
  intros Htr Htg Hfree. destruct (format_parsed _ _ _ _ Htg) as (out & Hout). exists out. split; [assumption|].
  unfold infer_with. rewrite Htr, Htg, (infer_sems_free ph v choose _ _ 0%nat Hfree).
  now rewrite (format_text_render _ _ _ _ _ Hout).
Qed.

(* the command fails (prints nothing) exactly when a file does not parse; it never gets stuck *)
Lemma infer_with_total ph v letter digit choose training target :
  match infer_with ph v letter digit choose training target with
  | InferOut _ => exists ftr ftg, parse_text letter digit training = ParseOk ftr /\ parse_text letter digit target = ParseOk ftg
  | InferErr => (exists e, parse_text letter digit training = ParseErr e) \/ (exists e, parse_text letter digit target = ParseErr e)
  | InferBad => exists ftr ftg sems k,
      parse_text letter digit training = ParseOk ftr /\ parse_text letter digit target = ParseOk ftg /\
      infer_sems ph v choose (candidates ph (sem training ftr)) 0%nat (sem target ftg) = (sems, k) /\
      render Utf8M.decode sems (gaps target ftg) = None
  end.
Proof.
  unfold infer_with.
  pose proof (parse_text_fuel letter digit training) as F1. pose proof (parse_text_fuel letter digit target) as F2.
  destruct (parse_text letter digit training) as [ftr|e|]; destruct (parse_text letter digit target) as [ftg|e'|];
    try congruence; eauto.
  destruct (infer_sems ph v choose (candidates ph (sem training ftr)) 0%nat (sem target ftg)) as [sems k] eqn:Hs.
  destruct (render Utf8M.decode sems (gaps target ftg)) eqn:Hr; eauto 10.
Qed.

(* ------------------------------------------------------------------ corollaries *)

(* no candidate: the repaired code leaves the account, the code as found empties it *)
Lemma side_rel_no_candidate ph v cands acc acc' other :
  side_rel ph v cands acc acc' other -> fst acc = ph -> without other cands = [] ->
  acc' = match v with Orig => ([], false) | Fixed => acc end.
Proof.
  intros [(Hne & _)|(_ & [(x & _ & Hin & Hx)|(_ & H)])] Hph Hw; [contradiction| |assumption].
  assert (Hi : In x (without other cands)) by (apply without_in; auto). rewrite Hw in Hi. destruct Hi.
Qed.

(* a replaced side carries a candidate different from the excluded account *)
Lemma side_rel_replaced ph v cands acc acc' other :
  side_rel ph v cands acc acc' other -> without other cands <> [] -> fst acc = ph ->
  exists x, acc' = (x, false) /\ In x cands /\ x <> other.
Proof.
  intros [(Hne & _)|(_ & [H|(Hw & _)])] Hn Hph; [contradiction|assumption|contradiction].
Qed.

(* deterministic choice: the first maximum of the (sorted) candidate list for any comparison *)
Definition first_max (gt : str -> str -> bool) (l : list str) : option str :=
  match l with
  | [] => None
  | x :: l' => Some (fold_left (fun best c => if gt c best then c else best) l' x)
  end.

Lemma fold_best_in (gt : str -> str -> bool) : forall l x, In (fold_left (fun best c => if gt c best then c else best) l x) (x :: l).
Proof.
  induction l as [|c l IH]; intros x; cbn [fold_left]; [now left|].
  destruct (gt c x).
  - destruct (IH c) as [H|H]; [right; left; exact H|right; right; exact H].
  - destruct (IH x) as [H|H]; [left; exact H|right; right; exact H].
Qed.

Lemma first_max_valid (gt : str -> str -> bool) : valid_choose (fun _ => first_max gt).
Proof.
  split.
  - intros _ l x H. destruct l as [|y l]; [discriminate|]. inversion H. apply fold_best_in.
  - intros _ l Hl. destruct l; [congruence|discriminate].
Qed.

(* ------------------------------------------------------------------ the repaired model meets the executable spec *)

Lemma str_eqb_rfl a : str_eqb a a = true.
Proof. now apply str_eqb_eq. Qed.

Lemma list_eqb_refl {A} (f : A -> A -> bool) l : (forall x, In x l -> f x x = true) -> list_eqb f l l = true.
Proof.
  induction l as [|x l IH]; intros H; cbn [list_eqb]; [reflexivity|].
  rewrite (H x (or_introl eq_refl)), IH; [reflexivity|]. intros y Hy. apply H. now right.
Qed.

Lemma list_eqb_forall2 {A} (R : A -> A -> Prop) (f : A -> A -> bool) l l' :
  Forall2 R l l' -> (forall x y, R x y -> f x y = true) -> list_eqb f l l' = true.
Proof.
  induction 1 as [|x y l l' Hxy Hl IH]; intros Hf; cbn [list_eqb]; [reflexivity|].
  now rewrite (Hf _ _ Hxy), IH.
Qed.

Lemma sem_account_eqb_refl a : sem_account_eqb a a = true.
Proof. unfold sem_account_eqb. rewrite str_eqb_rfl. destruct (snd a); reflexivity. Qed.

Lemma option_eqb_refl {A} (f : A -> A -> bool) o : (forall x, f x x = true) -> option_eqb f o o = true.
Proof. intros H. destruct o; cbn; auto. Qed.

Lemma sem_accrual_eqb_refl a : sem_accrual_eqb a a = true.
Proof. unfold sem_accrual_eqb. now rewrite !str_eqb_rfl, sem_account_eqb_refl. Qed.

Lemma sem_booking_eqb_refl b : sem_booking_eqb b b = true.
Proof. unfold sem_booking_eqb. now rewrite !sem_account_eqb_refl, !str_eqb_rfl. Qed.

Lemma sem_directive_eqb_refl d : sem_directive_eqb d d = true.
Proof.
  destruct d; cbn [sem_directive_eqb]; rewrite ?str_eqb_rfl, ?sem_account_eqb_refl; cbn [andb]; try reflexivity.
  - rewrite (list_eqb_refl sem_booking_eqb) by (intros; apply sem_booking_eqb_refl).
    rewrite (option_eqb_refl (list_eqb str_eqb)) by (intros; apply list_eqb_refl; intros; apply str_eqb_rfl).
    rewrite (option_eqb_refl sem_accrual_eqb) by apply sem_accrual_eqb_refl. reflexivity.
  - apply list_eqb_refl. intros. now rewrite sem_account_eqb_refl, !str_eqb_rfl.
Qed.

Lemma mem_in x l : mem x l = true <-> In x l.
Proof.
  unfold mem. rewrite existsb_exists. split.
  - intros (y & Hy & E). apply str_eqb_true in E. now subst.
  - intros H. exists x. split; [assumption|apply str_eqb_rfl].
Qed.

Lemma offered_iff ph tr x : In x (offered ph tr) <-> In x (candidates ph tr).
Proof.
  unfold candidates, trained_accounts, offered. rewrite sort_dedup_in, !in_flat_map.
  split; intros (d & Hd & Hin); exists d; (split; [assumption|]); destruct d; try exact Hin;
    unfold update_accounts in *; rewrite in_flat_map in *; destruct Hin as (b & Hb & Hin); exists b;
    (split; [assumption|]); unfold offered_by_booking in *;
    destruct (snd (sb_credit b) || snd (sb_debit b)); try exact Hin;
    destruct (fst (sb_credit b)) as [|c0 c]; destruct (fst (sb_debit b)) as [|d0 d]; cbn [is_nil orb] in *;
    try exact Hin; try (destruct (str_eqb _ ph || str_eqb _ ph); exact Hin);
    try (destruct (str_eqb [] ph || str_eqb _ ph); destruct Hin);
    try (destruct (str_eqb _ ph || str_eqb [] ph); destruct Hin).
Qed.

Lemma without_nil_all other l : without other l = [] -> forall a, In a l -> a = other.
Proof.
  intros H a Ha. destruct (str_eqb a other) eqn:E; [now apply str_eqb_true|].
  apply str_eqb_false in E. assert (Hi : In a (without other l)) by (apply without_in; auto).
  rewrite H in Hi. destruct Hi.
Qed.

Lemma existsb_ne_false off other :
  (forall a, In a off -> a = other) -> existsb (fun a => negb (str_eqb a other)) off = false.
Proof.
  intros H. destruct (existsb _ off) eqn:E; [|reflexivity].
  apply existsb_exists in E. destruct E as (a & Ha & Hn). rewrite (H a Ha), str_eqb_rfl in Hn. discriminate.
Qed.

Lemma ne_str_eqb a b : a <> b -> str_eqb a b = false.
Proof. intros H. destruct (str_eqb a b) eqn:E; [apply str_eqb_true in E; contradiction|reflexivity]. Qed.

Section MeetsSpec.
Variable ph : str.
Variable training : list sem_directive.
Let cands := candidates ph training.
Let off := offered ph training.

Lemma cands_off a : In a off <-> In a cands.
Proof. apply offered_iff. Qed.

Lemma booking_ok_of_rel b b' : booking_rel ph Fixed cands b b' -> booking_ok ph off b b' = true.
Proof.
  intros (Hq & Hc & Hcr & Hdb). unfold booking_ok. rewrite Hq, Hc, !str_eqb_rfl, !andb_true_r.
  assert (Hnph : forall x, In x cands -> x <> ph).
  { intros x Hx E. subst. exact (candidates_not_ph _ _ Hx). }
  (* the debit side: related with other = the new credit account *)
  assert (Hd : side_ok ph off (sb_debit b) (sb_debit b') (fst (sb_credit b')) = true).
  { unfold side_ok. destruct Hdb as [(Hne & Ed)|(Hph & [(y & Ed & Hy & Hyx)|(Hw & Ed)])]; rewrite Ed.
    - rewrite (ne_str_eqb _ _ Hne). apply sem_account_eqb_refl.
    - rewrite Hph, str_eqb_rfl. cbn [fst snd negb].
      rewrite (proj2 (mem_in y off)) by (now apply cands_off). rewrite (ne_str_eqb _ _ Hyx). reflexivity.
    - rewrite Hph, str_eqb_rfl, sem_account_eqb_refl. cbn [andb].
      rewrite existsb_ne_false; [now rewrite orb_true_r|].
      intros a Ha. apply (without_nil_all _ cands Hw). now apply cands_off. }
  rewrite Hd, andb_true_r.
  (* the credit side: related with other = the old debit account *)
  unfold side_ok. destruct Hcr as [(Hne & Ec)|(Hph & [(x & Ec & Hx & Hxd)|(Hw & Ec)])].
  - rewrite Ec, (ne_str_eqb _ _ Hne). apply sem_account_eqb_refl.
  - rewrite Hph, str_eqb_rfl.
    assert (Hxn : x <> fst (sb_debit b')).
    { rewrite Ec in Hdb. cbn [fst] in Hdb. destruct Hdb as [(_ & Ed)|(Hph' & [(y & Ed & _ & Hyx)|(_ & Ed)])]; rewrite Ed.
      - exact Hxd.
      - cbn [fst]. intros E. apply Hyx. now symmetry.
      - rewrite Hph'. now apply Hnph. }
    rewrite Ec. cbn [fst snd negb].
    rewrite (proj2 (mem_in x off)) by (now apply cands_off).
    rewrite (ne_str_eqb _ _ Hxn). reflexivity.
  - rewrite Ec, Hph, str_eqb_rfl, sem_account_eqb_refl. cbn [andb].
    rewrite existsb_ne_false; [now rewrite orb_true_r|].
    intros a Ha. apply cands_off in Ha. pose proof (without_nil_all _ cands Hw a Ha) as Had.
    destruct Hdb as [(_ & Ed)|(Hph' & _)]; [rewrite Ed; exact Had|].
    exfalso. apply (Hnph a Ha). congruence.
Qed.

Lemma directive_ok_of_rel d d' : directive_rel ph Fixed cands d d' -> directive_ok ph off d d' = true.
Proof.
  destruct d; cbn [directive_rel]; try (intros ->; cbn [directive_ok]; apply sem_directive_eqb_refl).
  destruct d'; try contradiction. intros (-> & -> & -> & -> & Hb). cbn [directive_ok].
  rewrite !str_eqb_rfl. cbn [andb].
  rewrite (list_eqb_forall2 _ _ _ _ Hb booking_ok_of_rel).
  rewrite (option_eqb_refl (list_eqb str_eqb)) by (intros; apply list_eqb_refl; intros; apply str_eqb_rfl).
  rewrite (option_eqb_refl sem_accrual_eqb) by apply sem_accrual_eqb_refl. reflexivity.
Qed.

Theorem fixed_meets_spec choose k target out k' :
  valid_choose choose ->
  infer_sems ph Fixed choose cands k target = (out, k') -> infer_ok_b ph training target out = true.
Proof.
  intros Hch H. unfold infer_ok_b. fold off.
  apply (list_eqb_forall2 (directive_rel ph Fixed cands)); [|exact directive_ok_of_rel].
  exact (infer_sems_rel ph Fixed choose Hch cands _ _ _ _ H).
Qed.

End MeetsSpec.
