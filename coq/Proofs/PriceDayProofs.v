(* The ComputePrices processor hands every day the normalised prices of the declarations made up
   to and including that day (Spec/PriceDaySpec.v price_on). *)
From Coq Require Import ZArith List Bool Lia.
From Knut Require Import Model.Str Model.Dec Model.Price Model.Ledger Model.Journal Model.Pipeline.
From Knut Require Import Spec.PriceSpec Spec.PriceDaySpec Proofs.SMapProofs Proofs.PriceProofs.
Import ListNotations.

Lemma build_from_app h1 : forall ps h2,
  build_from ps (h1 ++ h2) =
  match build_from ps h1 with Some ps' => build_from ps' h2 | None => None end.
Proof.
  induction h1 as [|[[c p] t] h1 IH]; intros ps h2; cbn [app build_from]; [reflexivity|].
  destruct (prices_insert ps c p t); auto.
Qed.

Lemma fold_cp_prices l : forall s s1,
  fold_res cp_price_cb s l = ROk s1 ->
  build_from (cp_prices s) l = Some (cp_prices s1) /\ cp_previous s1 = cp_previous s.
Proof.
  induction l as [|[[c p] t] l IH]; intros s s1 H; cbn [fold_res build_from] in *.
  - injection H as <-. split; reflexivity.
  - unfold cp_price_cb at 1 in H.
    destruct (prices_insert (cp_prices s) c p t) as [ps'| |]; cbn [rbind] in H; try discriminate.
    destruct (IH _ _ H) as [B P]. cbn [cp_prices cp_previous] in B, P. split; assumption.
Qed.

Section Day.
  Variable v : str.

  Lemma fold_txns_cp s ts : fold_txns (compute_prices_proc v) s ts = ROk (s, ts).
  Proof.
    induction ts as [|t ts IH]; cbn [fold_txns]; [reflexivity|].
    cbn [compute_prices_proc pr_txn pr_posting rbind fst snd]. rewrite IH. reflexivity.
  Qed.

  Lemma fold_asserts_cp s l : fold_asserts (compute_prices_proc v) s l = ROk s.
  Proof.
    induction l as [|a l IH]; cbn [fold_asserts]; [reflexivity|].
    cbn [compute_prices_proc pr_balance rbind]. exact IH.
  Qed.

  (* state invariant: the map is the one built from the history so far, and [previous] its
     normalisation (none before the first declaration) *)
  Definition cp_inv (h0 : list decl) (s : cp_state) : Prop :=
    build h0 = Some (cp_prices s) /\
    cp_previous s = match h0 with [] => None | _ => normalize (cp_prices s) v end.

  Lemma cp_day h0 s d s1 d1 :
    cp_inv h0 s -> process_day (compute_prices_proc v) s d = ROk (s1, d1) ->
    cp_inv (h0 ++ d_prices d) s1 /\
    d_normalized d1 = prices_of_history v (h0 ++ d_prices d) /\
    (d_date d1, d_prices d1, d_opens d1, d_txns d1, d_asserts d1, d_closes d1)
    = (d_date d, d_prices d, d_opens d, d_txns d, d_asserts d, d_closes d).
  Proof.
    intros [B P] H. unfold process_day in H.
    cbn [compute_prices_proc pr_day_start pr_price pr_open pr_close pr_day_end rbind fst snd] in H.
    destruct (fold_res cp_price_cb s (d_prices d)) as [s2| |] eqn:F; cbn [rbind] in H; try discriminate.
    rewrite fold_txns_cp in H. cbn [rbind fst snd] in H.
    rewrite fold_asserts_cp in H. cbn [rbind] in H.
    destruct (fold_cp_prices _ _ _ F) as [B2 P2].
    assert (build (h0 ++ d_prices d) = Some (cp_prices s2)) as B3.
    { unfold build in *. rewrite build_from_app, B. exact B2. }
    unfold cp_day_end in H. cbn [d_prices d_date d_opens d_txns d_asserts d_closes d_normalized] in H.
    destruct (d_prices d) as [|x l] eqn:Dp.
    - cbn [fold_res] in F. injection F as <-. injection H as <- <-.
      rewrite app_nil_r in *. unfold prices_of_history, set_normalized. cbn [d_normalized d_date d_prices d_opens d_txns d_asserts d_closes].
      split; [split; assumption|]. split; [|reflexivity].
      rewrite P. destruct h0; [reflexivity|]. rewrite B. reflexivity.
    - destruct (normalize (cp_prices s2) v) as [n|] eqn:N; [|discriminate].
      injection H as <- <-. unfold prices_of_history, set_normalized, cp_inv.
      cbn [d_normalized d_date d_prices d_opens d_txns d_asserts d_closes cp_prices cp_previous].
      rewrite B3, N.
      assert (forall A (y : A) z, match h0 ++ x :: l with [] => y | _ => z end = z) as Hm
        by (intros; destruct h0; reflexivity).
      rewrite !Hm. split; [split; reflexivity|]. split; reflexivity.
  Qed.

  Lemma history_upto_0 d ds : history_upto (d :: ds) 0 = d_prices d.
  Proof. unfold history_upto. cbn [firstn map concat]. apply app_nil_r. Qed.

  Lemma history_upto_S d ds k : history_upto (d :: ds) (S k) = d_prices d ++ history_upto ds k.
  Proof. reflexivity. Qed.

  Lemma cp_days : forall ds h0 s s' ds',
    cp_inv h0 s -> process_days (compute_prices_proc v) s ds = ROk (s', ds') ->
    length ds' = length ds /\
    forall k d', nth_error ds' k = Some d' ->
                 d_normalized d' = prices_of_history v (h0 ++ history_upto ds k).
  Proof.
    induction ds as [|d ds IH]; intros h0 s s' ds' Hinv H; cbn [process_days] in H.
    - injection H as <- <-. split; [reflexivity|]. intros [|k] d' Hk; discriminate.
    - destruct (process_day (compute_prices_proc v) s d) as [[s1 d1]| |] eqn:D; cbn [rbind] in H; try discriminate.
      cbn [fst snd] in H.
      destruct (process_days (compute_prices_proc v) s1 ds) as [[s2 ds2]| |] eqn:R; cbn [rbind] in H; try discriminate.
      cbn [fst snd] in H. injection H as <- <-.
      destruct (cp_day _ _ _ _ _ Hinv D) as (Hinv1 & Hn & _).
      destruct (IH _ _ _ _ Hinv1 R) as [Hlen Hrest].
      split; [cbn [length]; rewrite Hlen; reflexivity|].
      intros [|k] d' Hk; cbn [nth_error] in Hk.
      + injection Hk as <-. rewrite history_upto_0. exact Hn.
      + rewrite history_upto_S, app_assoc. apply Hrest. exact Hk.
  Qed.

  Lemma compute_prices_days ds s' ds' :
    process_days (compute_prices_proc v) (mkCp [] None) ds = ROk (s', ds') ->
    length ds' = length ds /\
    forall k d', nth_error ds' k = Some d' -> d_normalized d' = price_on v ds k.
  Proof.
    intros H. assert (cp_inv [] (mkCp [] None)) as Hinv by (split; reflexivity).
    exact (cp_days ds [] _ _ _ Hinv H).
  Qed.

  (* the only way ComputePrices fails is a zero price: it never runs out of fuel *)
  Lemma compute_prices_no_panic : forall ds h0 s,
    cp_inv h0 s -> forall m, process_days (compute_prices_proc v) s ds <> RPanic m.
  Proof.
    induction ds as [|d ds IH]; intros h0 s Hinv m H; cbn [process_days] in H; [discriminate|].
    destruct (process_day (compute_prices_proc v) s d) as [[s1 d1]|k e|m1] eqn:D; cbn [rbind] in H; try discriminate.
    - cbn [fst snd] in H.
      destruct (process_days (compute_prices_proc v) s1 ds) as [[s2 ds2]| |m2] eqn:R; cbn [rbind] in H; try discriminate.
      injection H as ->. destruct (cp_day _ _ _ _ _ Hinv D) as (Hinv1 & _). exact (IH _ _ Hinv1 _ R).
    - clear H IH. destruct Hinv as [B P]. unfold process_day in D.
      cbn [compute_prices_proc pr_day_start pr_price pr_open pr_close pr_day_end rbind fst snd] in D.
      destruct (fold_res cp_price_cb s (d_prices d)) as [s2| |m2] eqn:F; cbn [rbind] in D; try discriminate.
      + rewrite fold_txns_cp in D. cbn [rbind fst snd] in D.
        rewrite fold_asserts_cp in D. cbn [rbind] in D.
        destruct (fold_cp_prices _ _ _ F) as [B2 _].
        unfold cp_day_end in D. cbn [d_prices] in D.
        destruct (d_prices d) as [|x l]; [discriminate|].
        destruct (normalize (cp_prices s2) v) eqn:N; [discriminate|].
        assert (build (h0 ++ x :: l) = Some (cp_prices s2)) as B3.
        { unfold build in *. rewrite build_from_app, B. exact B2. }
        exact (normalize_total_built _ _ v B3 N).
      + clear D B P. revert s F. induction (d_prices d) as [|[[c p] t] l IHl]; intros s F; cbn [fold_res] in F; [discriminate|].
        unfold cp_price_cb at 1 in F.
        destruct (prices_insert (cp_prices s) c p t) as [ps'| |] eqn:I; cbn [rbind] in F; try discriminate.
        * exact (IHl _ F).
        * exact (insert_never_panics _ _ _ _ I).
  Qed.

  Lemma compute_prices_from_empty_no_panic ds m :
    process_days (compute_prices_proc v) (mkCp [] None) ds <> RPanic m.
  Proof.
    assert (cp_inv [] (mkCp [] None)) as Hinv by (split; reflexivity).
    exact (compute_prices_no_panic ds [] _ Hinv m).
  Qed.
End Day.
