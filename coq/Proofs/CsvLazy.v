(* LazyQuotes only adds accepted texts: whatever a reader accepts (all records, io.EOF), the same reader with
   LazyQuotes = true reads in the same way.  So for an importer with a strict reader the setting cannot be observed on
   any statement it imports; it can only turn a rejected statement (csv.ErrQuote, csv.ErrBareQuote) into an accepted one. *)
From Coq Require Import ZArith List Bool Lia.
From Knut Require Import Model.Bytes Model.Csv Model.ImpCommonA Model.CsvImp Model.CsvLatin1 Spec.CsvSettings Proofs.CsvProofs.
Import ListNotations.
Open Scope Z_scope.

Lemma scan_quoted_lazy_n : forall comma n s, (length s <= n)%nat -> forall f tm r,
  scan_quoted false comma s = QDone f tm r -> scan_quoted true comma s = QDone f tm r.
Proof.
  induction n as [|n IH]; intros s Hn f tm r H.
  - destruct s as [|a t]; [|simpl in Hn; lia]. cbn in H. discriminate.
  - destruct s as [|a t]. { cbn in H. discriminate. }
    rewrite scan_quoted_cons in H. rewrite scan_quoted_cons. simpl in Hn.
    destruct (a =? b_quote).
    + destruct t as [|d t']; [exact H|].
      destruct (d =? b_quote).
      { destruct (scan_quoted false comma t') as [f0 tm0 r0|e0] eqn:E; cbn [qcons] in H; [|discriminate].
        apply IH in E; [|simpl in *; lia]. rewrite E. exact H. }
      destruct (d =? comma); [exact H|]. destruct (d =? b_nl); [exact H|]. discriminate.
    + destruct (scan_quoted false comma t) as [f0 tm0 r0|e0] eqn:E; cbn [qcons] in H; [|discriminate].
      apply IH in E; [|lia]. rewrite E. exact H.
Qed.

Lemma scan_quoted_lazy : forall lz comma s f tm r,
  scan_quoted lz comma s = QDone f tm r -> scan_quoted true comma s = QDone f tm r.
Proof.
  intros lz comma s f tm r H. destruct lz; [exact H|].
  eapply scan_quoted_lazy_n; [apply le_n|exact H].
Qed.

Lemma skip_lines_lazy : forall cfg s b, skip_lines (set_lazy cfg) b s = skip_lines cfg b s.
Proof.
  induction s as [|c t IH]; intro b; [reflexivity|].
  cbn [skip_lines]. change (cc_comment (set_lazy cfg)) with (cc_comment cfg). rewrite !IH. reflexivity.
Qed.

Lemma parse_fields_lazy : forall cfg fuel s fs rest,
  parse_fields cfg fuel s = RecOk fs rest -> parse_fields (set_lazy cfg) fuel s = RecOk fs rest.
Proof.
  induction fuel as [|fuel IH]; intros s fs rest H; [discriminate|].
  rewrite parse_fields_S in H. rewrite parse_fields_S.
  change (field_start (set_lazy cfg) s) with (field_start cfg s).
  change (cc_comma (set_lazy cfg)) with (cc_comma cfg).
  change (cc_lazy (set_lazy cfg)) with true.
  destruct (field_start cfg s) as [s1 ended].
  destruct ended; [exact H|].
  destruct s1 as [|c t]; [exact H|].
  destruct (c =? b_quote).
  - destruct (scan_quoted (cc_lazy cfg) (cc_comma cfg) t) as [f tm r|e] eqn:Q; [|discriminate].
    rewrite (scan_quoted_lazy _ _ _ _ _ _ Q).
    destruct tm; [|exact H].
    destruct (parse_fields cfg fuel r) as [fs0 rest0|e0|] eqn:P; cbn [rcons] in H; try discriminate.
    rewrite (IH _ _ _ P). exact H.
  - destruct (scan_unquoted (cc_comma cfg) (c :: t)) as [[f tm] r].
    cbn [negb andb].
    destruct (negb (cc_lazy cfg) && has_quote f); [discriminate|].
    destruct tm; [|exact H].
    destruct (parse_fields cfg fuel r) as [fs0 rest0|e0|] eqn:P; cbn [rcons] in H; try discriminate.
    rewrite (IH _ _ _ P). exact H.
Qed.

Lemma read_all_lazy : forall cfg fuel fpr s rs,
  read_all cfg fuel fpr s = CsvRecords rs -> read_all (set_lazy cfg) fuel fpr s = CsvRecords rs.
Proof.
  induction fuel as [|fuel IH]; intros fpr s rs H; [discriminate|].
  cbn [read_all] in H. cbn [read_all]. rewrite skip_lines_lazy.
  destruct (skip_lines cfg false s) as [|a s']; [exact H|].
  destruct (parse_fields cfg (S (length (a :: s'))) (a :: s')) as [fs rest|e|] eqn:P; try discriminate.
  rewrite (parse_fields_lazy _ _ _ _ _ P).
  destruct (count_bad fpr fs); [discriminate|].
  destruct (read_all cfg fuel (next_fpr fpr fs) rest) as [rs0|b0 e0|] eqn:R; try discriminate.
  rewrite (IH _ _ _ R). exact H.
Qed.

Lemma read_all_set_lazy : forall cfg fuel sets fpr s rs,
  read_all_set cfg fuel sets fpr s = CsvRecords rs -> read_all_set (set_lazy cfg) fuel sets fpr s = CsvRecords rs.
Proof.
  induction fuel as [|fuel IH]; intros sets fpr s rs H; [discriminate|].
  cbn [read_all_set] in H. cbn [read_all_set]. rewrite skip_lines_lazy.
  destruct (skip_lines cfg false s) as [|a s']; [exact H|].
  destruct (parse_fields cfg (S (length (a :: s'))) (a :: s')) as [fs rest|e|] eqn:P; try discriminate.
  rewrite (parse_fields_lazy _ _ _ _ _ P).
  destruct (count_bad _ fs); [discriminate|].
  match type of H with context [read_all_set cfg fuel ?a ?b rest] =>
    destruct (read_all_set cfg fuel a b rest) as [rs0|b0 e0|] eqn:R; try discriminate;
    rewrite (IH _ _ _ _ R); exact H end.
Qed.

Lemma csv_read_all_lazy : forall cfg input rs,
  csv_read_all cfg input = CsvRecords rs -> csv_read_all (set_lazy cfg) input = CsvRecords rs.
Proof.
  intros cfg input rs H. unfold csv_read_all in *.
  change (delims_ok (set_lazy cfg)) with (delims_ok cfg).
  change (cc_fpr (set_lazy cfg)) with (cc_fpr cfg).
  destruct (delims_ok cfg); [|discriminate].
  apply read_all_lazy. exact H.
Qed.

Lemma csv_read_all_set_lazy : forall cfg sets input rs,
  csv_read_all_set cfg sets input = CsvRecords rs -> csv_read_all_set (set_lazy cfg) sets input = CsvRecords rs.
Proof.
  intros cfg sets input rs H. unfold csv_read_all_set in *.
  change (delims_ok (set_lazy cfg)) with (delims_ok cfg).
  change (cc_fpr (set_lazy cfg)) with (cc_fpr cfg).
  destruct (delims_ok cfg); [|discriminate].
  apply read_all_set_lazy. exact H.
Qed.
