(* Proofs about Model/SynPrinter.v (C08).

   1. format never panics and never fails on a well-formed tree (hence on every parsed file).
   2. The formatted text is the gaps of the original interleaved with the printed directives
      ([weave]); every printed directive, and the padding, is a function of the directive's
      MEANING (Spec/FormatSpec.v sem) alone: [format = render (sem t f) (gaps t f)].
   3. Therefore idempotence follows from the round trip: if the formatted text parses to a
      tree with the same meaning and gaps, formatting it again yields the same bytes.
   4. A file that does not parse is left untouched by the command.
   The re-parse half (context lemmas, DESIGN Appendix B.3) is Proofs/RoundTrip*.v
   (RoundTripFile.roundtrip).                                                                 *)
From Coq Require Import ZArith List Bool Lia ZifyBool.
From Knut Require Import Model.Bytes Model.Utf8 Model.Scanner Model.Parser Model.SynPrinter
  Spec.SyntaxSpec Proofs.ScannerProofs Proofs.ParserProofs Spec.FormatSpec Model.SynRender.
Import ListNotations.
Open Scope bool_scope.
Open Scope Z_scope.

(* ------------------------------------------------------------------ format = render *)

Lemma ordered_in_bounds_any lo hi rs : ordered_in lo hi rs = true -> lo <= hi.
Proof.
  revert lo; induction rs as [|r rs IH]; intros lo H; cbn [ordered_in] in *; [lia|].
  assert (H1 : ordered_in (r_end r) hi rs = true) by lia. specialize (IH _ H1). lia.
Qed.


Section WithEnv.
Variable E : env.
Hypothesis Hlen : e_len E = Z.of_nat (length (e_text E)).

Notation t := (e_text E).
Notation dec := (e_decode E).

Lemma print_directive_render pad d :
  print_directive E pad d = render_sem dec pad (sem_of_directive t d).
Proof using.
  unfold print_directive, sem_of_directive. destruct (d_body d) as [x|o|c|a|p|i|]; try reflexivity.
  - cbn [render_sem]. unfold print_transaction. f_equal.
    destruct (range_empty (ac_range (ad_accrual (tx_addons x)))); cbn [negb];
    destruct (range_empty (pf_range (ad_perf (tx_addons x)))); cbn [negb];
    rewrite map_map; reflexivity.
  - cbn [render_sem]. unfold print_assertion. f_equal. f_equal.
    destruct (as_balances a) as [|b [|b' bs]]; cbn [map]; try reflexivity.
    f_equal. cbn [concat]. f_equal. f_equal. rewrite map_map. reflexivity.
Qed.

Lemma initialize_pad : forall ds p, initialize E p ds = pad_of_sem dec p (map (sem_of_directive t) ds).
Proof using.
  unfold initialize, pad_of_sem. induction ds as [|d ds IH]; intros p; cbn [fold_left map]; [reflexivity|].
  rewrite IH. f_equal. unfold sem_of_directive. destruct (d_body d) as [x|o|c|a|pr|i|]; try reflexivity.
  generalize p. induction (tx_bookings x) as [|b bs IHb]; intros q; cbn [fold_left map]; [reflexivity|].
  rewrite IHb. reflexivity.
Qed.

Lemma format_loop_render pad : forall ds pos out,
  format_loop E pad pos ds = FOk out ->
  exists ps, render_all dec pad (map (sem_of_directive t) ds) = Some ps /\
             out = weave (gaps_from t pos ds) ps.
Proof using Hlen.
  induction ds as [|d ds IH]; intros pos out H; cbn [format_loop] in H.
  - exists []. split; [reflexivity|]. cbn [gaps_from weave map].
    destruct ((0 <=? pos) && (pos <=? e_len E)); [|discriminate]. inversion H.
    unfold zlen. rewrite <- Hlen. now rewrite app_nil_r.
  - destruct (negb _); [discriminate|].
    rewrite print_directive_render in H.
    destruct (render_sem dec pad (sem_of_directive t d)) as [x|] eqn:Hx; [|discriminate].
    destruct (format_loop E pad (r_end (d_range d)) ds) as [y| |] eqn:Hy; try discriminate.
    destruct (IH _ _ Hy) as (ps & Hps & Hout). inversion H.
    exists (x :: ps). cbn [map render_all gaps_from weave]. rewrite Hx, Hps. split; [reflexivity|].
    now rewrite Hout.
Qed.

Lemma format_render f out :
  format E f = FOk out -> render dec (sem t f) (gaps t f) = Some out.
Proof using Hlen.
  unfold format, render, sem, gaps. intros H. rewrite initialize_pad in H.
  destruct (format_loop_render _ _ _ _ H) as (ps & Hps & Hout). rewrite Hps. now rewrite Hout.
Qed.

(* no panic, no error on ordered directives with a payload *)
Lemma format_loop_total pad : forall ds pos,
  0 <= pos -> ordered_in pos (e_len E) (map d_range ds) = true ->
  forallb (fun d => match d_body d with BNone => false | _ => true end) ds = true ->
  exists out, format_loop E pad pos ds = FOk out.
Proof using.
  induction ds as [|d ds IH]; intros pos Hp Ho Hb; cbn [format_loop map ordered_in forallb] in *.
  - assert (Hc : (0 <=? pos) && (pos <=? e_len E) = true) by lia. rewrite Hc. eauto.
  - assert (H1 : ordered_in (r_end (d_range d)) (e_len E) (map d_range ds) = true) by lia.
    pose proof (ordered_in_bounds_any _ _ _ H1) as Hb1.
    assert (Hc : negb ((0 <=? pos) && (pos <=? r_start (d_range d)) && (r_start (d_range d) <=? e_len E)) = false) by lia.
    rewrite Hc.
    assert (Hd : exists x, print_directive E pad d = Some x).
    { unfold print_directive. destruct (d_body d); try (eexists; reflexivity). simpl in Hb. discriminate. }
    destruct Hd as (x & ->).
    destruct (IH (r_end (d_range d))) as (y & ->); [lia|assumption|lia|]. eauto.
Qed.

Lemma format_total f :
  wf_tree_b t f = true -> exists out, format E f = FOk out.
Proof using Hlen.
  unfold wf_tree_b, format. intros H.
  assert (Hz : zlen t = e_len E) by (unfold zlen; now rewrite Hlen). rewrite Hz in H.
  apply format_loop_total; [lia|lia|].
  assert (Hw : forallb (wf_directive 0 (e_len E)) (f_directives f) = true) by lia.
  clear H. induction (f_directives f) as [|d ds IH]; cbn [forallb] in *; [reflexivity|].
  assert (H1 : wf_directive 0 (e_len E) d = true) by lia.
  assert (H2 : forallb (wf_directive 0 (e_len E)) ds = true) by lia.
  rewrite (IH H2). unfold wf_directive, wf_body in H1. destruct (d_body d); try reflexivity. lia.
Qed.

End WithEnv.

(* ------------------------------------------------------------------ the concrete formatter *)

Lemma format_text_total letter digit t f :
  wf_tree_b t f = true -> exists out, format_text letter digit t f = FOk out.
Proof. intros H. unfold format_text. apply format_total; [reflexivity|exact H]. Qed.

Lemma format_text_render letter digit t f out :
  format_text letter digit t f = FOk out -> render Utf8M.decode (sem t f) (gaps t f) = Some out.
Proof. unfold format_text. intros H. now apply (format_render (mk_env Utf8M.decode letter digit t)). Qed.

(* the formatted bytes are determined by meaning and gaps *)
Lemma format_determined letter digit t1 f1 t2 f2 o1 o2 :
  format_text letter digit t1 f1 = FOk o1 -> format_text letter digit t2 f2 = FOk o2 ->
  sem t1 f1 = sem t2 f2 -> gaps t1 f1 = gaps t2 f2 -> o1 = o2.
Proof.
  intros H1 H2 Hs Hg. apply format_text_render in H1. apply format_text_render in H2.
  rewrite Hs, Hg in H1. congruence.
Qed.

(* parsed files are formatted without panic or error *)
Lemma format_parsed letter digit t f :
  parse_text letter digit t = ParseOk f -> exists out, format_text letter digit t f = FOk out.
Proof. intros H. apply format_text_total. now apply (parse_text_wf letter digit). Qed.

(* idempotence follows from the round trip *)
Lemma idem_of_roundtrip letter digit t f o f' :
  parse_text letter digit t = ParseOk f -> format_text letter digit t f = FOk o ->
  parse_text letter digit o = ParseOk f' -> sem o f' = sem t f -> gaps o f' = gaps t f ->
  format_text letter digit o f' = FOk o.
Proof.
  intros Hp Hf Hp' Hs Hg. destruct (format_parsed _ _ _ _ Hp') as (o' & Ho').
  rewrite Ho'. f_equal. now apply (format_determined letter digit o f' t f).
Qed.

(* the command: a file that does not parse is left as it was; no panic, no fuel exhaustion *)
Lemma format_cmd_unparseable letter digit t e :
  parse_text letter digit t = ParseErr e ->
  format_cmd letter digit t = Untouched /\ file_after t (format_cmd letter digit t) = Some t.
Proof. intros H. unfold format_cmd. rewrite H. split; reflexivity. Qed.

Lemma format_cmd_total letter digit t :
  match format_cmd letter digit t with
  | Rewritten n => exists f, parse_text letter digit t = ParseOk f /\ format_text letter digit t f = FOk n
  | Untouched => exists e, parse_text letter digit t = ParseErr e
  | CmdPanic | CmdOutOfFuel => False
  end.
Proof.
  unfold format_cmd. pose proof (parse_text_fuel letter digit t) as Hfu.
  destruct (parse_text letter digit t) as [f|e|] eqn:Hp; [|eauto|congruence].
  destruct (format_parsed _ _ _ _ Hp) as (o & Ho). rewrite Ho. eauto.
Qed.

(* a file without directives is its own formatted text *)
Lemma format_no_directives letter digit t f :
  parse_text letter digit t = ParseOk f -> f_directives f = [] -> format_text letter digit t f = FOk t.
Proof.
  intros Hp Hd. pose proof (parse_text_wf _ _ _ _ Hp) as Hw.
  unfold format_text, format. rewrite Hd. cbn [initialize fold_left format_loop mk_env e_len e_text].
  assert (Hc : (0 <=? 0) && (0 <=? Z.of_nat (length t)) = true) by lia. rewrite Hc. f_equal.
  apply slice_full.
Qed.

(* a text that is already in formatted form: the round trip and idempotence hold on it *)
Lemma roundtrip_on_formatted letter digit t f :
  parse_text letter digit t = ParseOk f -> format_text letter digit t f = FOk t ->
  exists f', parse_text letter digit t = ParseOk f' /\ sem t f' = sem t f /\ gaps t f' = gaps t f /\
             format_text letter digit t f' = FOk t.
Proof. intros Hp Hf. exists f. auto. Qed.
