(* C02 (3): the CSV that `knut balance --csv` prints is the CSV of the independent ledger
   computation (Spec/LedgerSpec.v ledger_csv), record by record, field by field.
   From the table theorems (layout, rows, commodity lines, numbers), Proofs/DecStringValue.v (the
   text of a decimal is a function of its value) and the CSV renderer of C17 (blank rows are
   skipped, a field is the cell's text).  The order of the account rows is a hypothesis of this
   file ([Horder_*]) and is discharged in Proofs/BalanceCsvOrder.v for -a / --sort-alphabetically. *)
From Coq Require Import ZArith QArith List Bool Lia Permutation.
From Knut Require Import Model.Str Model.Dec Model.Date Model.Account Model.Ledger Model.Price
     Model.Journal Model.Check Model.Pipeline Model.Table Model.Report Model.Cli
     Spec.WellformedSpec Spec.LedgerSpec Spec.LedgerSyntax Spec.BalanceTableSpec
     Proofs.DecValue Proofs.DecStringValue Proofs.StrProofs Proofs.CheckLemmas Proofs.ReportSum Proofs.Conservation Proofs.LedgerProofs
     Proofs.CloseProofs Proofs.LayoutProofs Proofs.MarkToMarketMapped
     Proofs.BalanceTableLayout Proofs.BalanceTableTree Proofs.BalanceTableCells Proofs.BalanceTableTotals
     Proofs.BalanceTableDates Proofs.BalanceTableLines.
Import ListNotations.
Open Scope Q_scope.

(* ------------------------------------------------------------ the CSV renderer on row lists *)

Definition nonblank (rec : list str) : bool := existsb (fun s => match s with [] => false | _ => true end) rec.
Definition csvf (rows : list (list cell)) : list (list str) := filter nonblank (map (map csv_cell) rows).

Lemma render_csv_rows_csvf t : render_csv_rows t = csvf (t_rows t).
Proof. reflexivity. Qed.

Lemma csvf_app a b : csvf (a ++ b) = csvf a ++ csvf b.
Proof. unfold csvf. rewrite map_app, filter_app. reflexivity. Qed.

Lemma csvf_concat ls : csvf (concat ls) = concat (map csvf ls).
Proof. induction ls as [|l ls IH]; cbn [concat map]; [reflexivity|]. rewrite csvf_app, IH. reflexivity. Qed.

Lemma nonblank_repeat_nil w : nonblank (repeat [] w) = false.
Proof. induction w as [|w IH]; cbn [repeat nonblank existsb]; [reflexivity|exact IH]. Qed.

Lemma csvf_sep w : csvf [repeat CSep w] = [].
Proof.
  unfold csvf. cbn [map filter]. replace (map csv_cell (repeat CSep w)) with (repeat ([] : str) w).
  - rewrite nonblank_repeat_nil. reflexivity.
  - induction w as [|w IH]; cbn [repeat map csv_cell]; [reflexivity|]. rewrite IH. reflexivity.
Qed.

Lemma map_csv_empty w : map csv_cell (repeat CEmpty w) = repeat ([] : str) w.
Proof. induction w as [|w IH]; cbn [repeat map csv_cell]; [reflexivity|]. rewrite IH. reflexivity. Qed.

Lemma csvf_empty w : csvf [repeat CEmpty w] = [].
Proof. unfold csvf. cbn [map filter]. rewrite map_csv_empty, nonblank_repeat_nil. reflexivity. Qed.

Lemma map_const_repeat {A B} (x : B) (l : list A) : map (fun _ => x) l = repeat x (length l).
Proof. induction l as [|a l IH]; cbn [map length repeat]; [reflexivity|]. rewrite IH. reflexivity. Qed.

Lemma concat_map_flat_map {A B C} (g : B -> list C) (h : A -> list B) l :
  concat (map g (flat_map h l)) = concat (map (fun x => concat (map g (h x))) l).
Proof. induction l as [|x l IH]; cbn [flat_map map concat]; [reflexivity|]. rewrite map_app, concat_app, IH. reflexivity. Qed.

(* ------------------------------------------------------------ a block as CSV records *)

Fixpoint csv_lines_from (name : str) (first : bool) (coms : list commodity) (f : commodity -> list str) : list (list str) :=
  match coms with
  | [] => []
  | c :: rest => ((if first then name else []) :: c :: f c) :: csv_lines_from name false rest f
  end.

Definition csv_block (name : str) (ncols : nat) (coms : list commodity) (f : commodity -> list str) : list (list str) :=
  match coms with
  | [] => [name :: ([] : str) :: repeat ([] : str) ncols]
  | _ => csv_lines_from name true coms f
  end.

Lemma csv_lines_from_ext name first coms f g :
  (forall c, In c coms -> f c = g c) -> csv_lines_from name first coms f = csv_lines_from name first coms g.
Proof.
  revert first. induction coms as [|c coms IH]; intros first H; cbn [csv_lines_from]; [reflexivity|].
  rewrite (H c (or_introl eq_refl)), IH; [reflexivity|]. intros c' Hc'. apply H. right. exact Hc'.
Qed.

Lemma csv_block_ext name n coms f g :
  (forall c, In c coms -> f c = g c) -> csv_block name n coms f = csv_block name n coms g.
Proof. intros H. unfold csv_block. destruct coms; [reflexivity|]. apply csv_lines_from_ext. exact H. Qed.

Lemma combine_lines name (f : commodity -> list str) : forall coms b,
  map (fun ic : bool * commodity => (if fst ic then name else []) :: snd ic :: f (snd ic))
      (combine (b :: map (fun _ => false) coms) coms) = csv_lines_from name b coms f.
Proof.
  induction coms as [|c coms IH]; intros b; [reflexivity|].
  cbn [map combine csv_lines_from fst snd]. f_equal. apply IH.
Qed.

Lemma cells_printed diff negate es sel c cols : forall total,
  cells diff negate es sel c cols total = map to_string (cell_amounts diff negate es sel c cols total).
Proof.
  induction cols as [|col rest IH]; intros total; cbn [cells cell_amounts map]; [reflexivity|]. rewrite IH. reflexivity.
Qed.

(* the lines of the ledger for one row, as a block *)
Lemma lines_for_block diff negate es sel name cols :
  lines_for diff negate es sel name cols =
  csv_block name (length cols) (shown_commodities es sel cols)
            (fun c => map to_string (cell_amounts diff negate es sel c cols dec_nil)).
Proof.
  unfold lines_for, csv_block. destruct (shown_commodities es sel cols) as [|c0 coms] eqn:E.
  - rewrite map_const_repeat. reflexivity.
  - rewrite <- (combine_lines name (fun c => map to_string (cell_amounts diff negate es sel c cols dec_nil)) (c0 :: coms) true).
    apply map_ext. intros [b c]. cbn [fst snd]. f_equal. f_equal. apply cells_printed.
Qed.

Lemma nums_csv nums amts : Forall2 num_is nums amts -> map csv_cell nums = map to_string amts.
Proof.
  induction 1 as [|n d nums amts Hn _ IH]; cbn [map]; [reflexivity|]. rewrite IH. f_equal.
  destruct n as [| | |x]; cbn [num_is] in Hn; try contradiction. cbn [csv_cell].
  apply to_string_value. apply dec_equal_value. exact Hn.
Qed.

Lemma nonblank_third x y (l : list str) : l <> [] -> Forall (fun s => s <> []) l -> nonblank (x :: y :: l) = true.
Proof.
  intros Hne Hall. destruct l as [|s l]; [contradiction|]. inversion Hall as [|? ? Hs _]; subst.
  unfold nonblank. cbn [existsb]. destruct s; [contradiction|]. rewrite !orb_true_r. reflexivity.
Qed.

Lemma map_to_string_nonempty l : Forall (fun s : str => s <> []) (map to_string l).
Proof. induction l as [|d l IH]; cbn [map]; constructor; [apply to_string_nonempty|exact IH]. Qed.

Lemma lines_csv name indent amts : forall coms first b,
  lines_ok name indent first coms amts b -> (forall c, In c coms -> amts c <> []) ->
  csvf b = csv_lines_from name first coms (fun c => map to_string (amts c)).
Proof.
  induction coms as [|c coms IH]; intros first b H Hne; destruct b as [|line b']; cbn [lines_ok] in H; try contradiction.
  - reflexivity.
  - destruct H as [(nums & -> & Hnums) Hrest]. cbn [csv_lines_from].
    change (csvf (?x :: b')) with (csvf ([x] ++ b')). rewrite csvf_app, (IH false b' Hrest) by (intros c' Hc'; apply Hne; right; exact Hc').
    assert (Hc : amts c <> []) by (apply Hne; left; reflexivity).
    assert (Hnb : forall x, nonblank (x :: c :: map to_string (amts c)) = true).
    { intros x. apply nonblank_third; [|apply map_to_string_nonempty]. destruct (amts c); [contradiction|discriminate]. }
    unfold csvf at 1. destruct first; cbn [map filter csv_cell]; rewrite (nums_csv _ _ Hnums), Hnb; reflexivity.
Qed.

Lemma block_csv n name indent coms amts b :
  block_ok (2 + n) name indent coms amts b -> name <> [] -> (forall c, In c coms -> amts c <> []) ->
  csvf b = csv_block name n coms (fun c => map to_string (amts c)).
Proof.
  intros H Hname Hne. unfold block_ok in H. unfold csv_block. destruct coms as [|c0 coms].
  - subst b. unfold csvf. cbn [map filter csv_cell]. replace (2 + n - 1)%nat with (S n) by lia.
    cbn [repeat map csv_cell]. rewrite map_csv_empty.
    unfold nonblank. cbn [existsb]. destruct name; [contradiction|]. reflexivity.
  - apply (lines_csv name indent amts (c0 :: coms) true b H Hne).
Qed.

(* ------------------------------------------------------------ shown_commodities *)

Lemma insert_com_in x c : forall l, In x (insert_com c l) <-> x = c \/ In x l.
Proof.
  induction l as [|y l IH]; cbn [insert_com]; [cbn [In]; intuition congruence|].
  destruct (str_cmp c y) eqn:E.
  - apply str_cmp_eq in E. subst y. cbn [In]. intuition congruence.
  - cbn [In]. intuition congruence.
  - cbn [In]. rewrite IH. intuition congruence.
Qed.

Lemma insert_com_sorted c : forall l, coms_sorted l -> coms_sorted (insert_com c l).
Proof.
  induction l as [|y l IH]; intros Hs; cbn [insert_com]; [cbn; split; [constructor|exact I]|].
  cbn [coms_sorted] in Hs. destruct Hs as [Hy Hl].
  destruct (str_cmp c y) eqn:E.
  - cbn [coms_sorted]. split; assumption.
  - cbn [coms_sorted]. split; [|split; assumption]. constructor; [exact E|].
    rewrite Forall_forall in *. intros w Hw. exact (str_cmp_lt_trans _ _ _ E (Hy w Hw)).
  - cbn [coms_sorted]. split; [|apply IH; exact Hl].
    rewrite Forall_forall in *. intros w Hw. apply insert_com_in in Hw. destruct Hw as [->|Hw]; [|exact (Hy w Hw)].
    rewrite str_cmp_antisym, E. reflexivity.
Qed.

Definition shown_step (es : list entry) (sel : account -> bool) (cols : list Z) (l : list commodity) (e : entry) : list commodity :=
  let '(_, a, c, _) := e in
  if sel a && existsb (fun col => negb (is_zero (period_amount es sel c col))) cols then insert_com c l else l.

Lemma shown_fold es sel cols : shown_commodities es sel cols = fold_left (shown_step es sel cols) es [].
Proof. reflexivity. Qed.

Lemma shown_step_sorted es sel cols : forall l acc, coms_sorted acc -> coms_sorted (fold_left (shown_step es sel cols) l acc).
Proof.
  induction l as [|[[[col a] c] v] l IH]; intros acc Ha; cbn [fold_left]; [exact Ha|]. apply IH.
  unfold shown_step. destruct (sel a && _); [apply insert_com_sorted|]; exact Ha.
Qed.

Lemma shown_sorted es sel cols : coms_sorted (shown_commodities es sel cols).
Proof. rewrite shown_fold. apply shown_step_sorted. exact I. Qed.

Lemma shown_step_in es sel cols x : forall l acc,
  In x (fold_left (shown_step es sel cols) l acc) <->
  In x acc \/ exists col a v, In (col, a, x, v) l /\ sel a = true /\
                              existsb (fun col => negb (is_zero (period_amount es sel x col))) cols = true.
Proof.
  induction l as [|[[[col a] c] v] l IH]; intros acc; cbn [fold_left].
  - split; [tauto|]. intros [H|(col & a & v & [] & _)]. exact H.
  - rewrite IH. unfold shown_step. split.
    + intros [H|(col' & a' & v' & Hin & Hs)].
      * destruct (sel a && existsb (fun col0 => negb (is_zero (period_amount es sel c col0))) cols) eqn:E; [|left; exact H].
        apply insert_com_in in H. destruct H as [->|H]; [|left; exact H].
        apply andb_true_iff in E. destruct E as [E1 E2]. right. exists col, a, v. split; [left; reflexivity|split; assumption].
      * right. exists col', a', v'. split; [right; exact Hin|exact Hs].
    + intros [H|(col' & a' & v' & [Hin|Hin] & Hs1 & Hs2)].
      * left. destruct (sel a && _); [apply insert_com_in; right|]; exact H.
      * inversion Hin; subst. left. rewrite Hs1, Hs2. cbn [andb]. apply insert_com_in. left. reflexivity.
      * right. exists col', a', v'. split; [exact Hin|split; assumption].
Qed.

Lemma concat_map_nil {A B} (g : A -> list B) l : (forall x, In x l -> g x = []) -> concat (map g l) = [].
Proof.
  induction l as [|x l IH]; intros H; cbn [map concat]; [reflexivity|].
  rewrite (H x (or_introl eq_refl)), IH; [reflexivity|]. intros y Hy. apply H. right. exact Hy.
Qed.

Lemma period_amount_nonzero_entry es sel c col :
  ~ dvalue (period_amount es sel c col) == 0 -> exists col' a v, In (col', a, c, v) es /\ sel a = true.
Proof.
  intros Hnz.
  destruct (existsb (fun e : entry => let '(col', a, c', v) := e in (col' =? col)%Z && sel a && str_eqb c' c) es) eqn:E.
  - apply existsb_exists in E. destruct E as ([[[col' a] c'] v] & Hin & H).
    apply andb_true_iff in H. destruct H as [H H3]. apply andb_true_iff in H. destruct H as [_ H2].
    apply str_eqb_eq in H3. subst c'. exists col', a, v. split; assumption.
  - exfalso. apply Hnz. unfold period_amount. rewrite concat_map_nil; [apply dvalue_nil|].
    intros [[[col' a] c'] v] Hin.
    assert (H : (let '(col'0, a0, c'0, _) := (col', a, c', v) in (col'0 =? col)%Z && sel a0 && str_eqb c'0 c) = false).
    { destruct ((col' =? col)%Z && sel a && str_eqb c' c) eqn:E2; [|reflexivity].
      rewrite <- E. symmetry. apply existsb_exists. exists (col', a, c', v). split; [exact Hin|exact E2]. }
    cbn beta iota in H. rewrite H. reflexivity.
Qed.

Lemma shown_in es sel cols c :
  In c (shown_commodities es sel cols) <-> exists col, In col cols /\ ~ dvalue (period_amount es sel c col) == 0.
Proof.
  rewrite shown_fold, shown_step_in. split.
  - intros [[]|(col & a & v & _ & _ & H)]. apply existsb_exists in H. destruct H as (col0 & Hin & Hnz).
    exists col0. split; [exact Hin|]. intros Hz. apply is_zero_value in Hz. rewrite Hz in Hnz. discriminate.
  - intros (col & Hin & Hnz). right.
    destruct (period_amount_nonzero_entry es sel c col Hnz) as (col' & a & v & He & Hs).
    exists col', a, v. split; [exact He|split; [exact Hs|]].
    apply existsb_exists. exists col. split; [exact Hin|].
    destruct (is_zero (period_amount es sel c col)) eqn:Ez; [|reflexivity]. exfalso. apply Hnz. apply is_zero_value. exact Ez.
Qed.

Lemma union_com_in x a : forall b, In x (union_com a b) <-> In x a \/ In x b.
Proof.
  induction a as [|c a IH]; intros b; cbn [union_com]; [cbn [In]; tauto|].
  rewrite insert_com_in, IH. cbn [In]. intuition congruence.
Qed.

Lemma union_com_sorted a : forall b, coms_sorted b -> coms_sorted (union_com a b).
Proof. induction a as [|c a IH]; intros b Hb; cbn [union_com]; [exact Hb|]. apply insert_com_sorted, IH, Hb. Qed.

(* ------------------------------------------------------------ amounts of a part of the entries *)

Definition e_acc (e : entry) : account := snd (fst (fst e)).

Lemma period_amount_filter (f : entry -> bool) sel1 sel2 es c col :
  (forall e, In e es -> if f e then sel1 (e_acc e) = sel2 (e_acc e) else sel2 (e_acc e) = false) ->
  period_amount (filter f es) sel1 c col = period_amount es sel2 c col.
Proof.
  intros H. unfold period_amount. f_equal. induction es as [|e es IH]; cbn [filter map concat]; [reflexivity|].
  pose proof (H e (or_introl eq_refl)) as He. destruct e as [[[col' a] c'] v]. unfold e_acc in He. cbn [fst snd] in He.
  assert (IH' := IH (fun e0 H0 => H e0 (or_intror H0))).
  destruct (f (col', a, c', v)); cbn [map concat].
  - rewrite He, IH'. reflexivity.
  - rewrite He, andb_false_r. cbn [andb app]. exact IH'.
Qed.

Lemma qsum_filter_split {A} (g : A -> Q) (f : A -> bool) l :
  qsum g (filter f l) + qsum g (filter (fun x => negb (f x)) l) == qsum g l.
Proof.
  induction l as [|x l IH]; cbn [filter]; [unfold qsum; cbn; ring|].
  destruct (f x); cbn [negb]; unfold qsum in *; cbn [fold_right]; rewrite <- IH; ring.
Qed.

Lemma cell_amounts_value diff negate es1 sel1 es2 sel2 c :
  (forall col, dvalue (period_amount es1 sel1 c col) == dvalue (period_amount es2 sel2 c col)) ->
  forall cols t1 t2, dvalue t1 == dvalue t2 ->
  map to_string (cell_amounts diff negate es1 sel1 c cols t1) = map to_string (cell_amounts diff negate es2 sel2 c cols t2).
Proof.
  intros H. induction cols as [|col cols IH]; intros t1 t2 Ht; cbn [cell_amounts map]; [reflexivity|]. f_equal.
  - apply to_string_value. destruct negate, diff; rewrite ?dvalue_neg, ?dvalue_add, ?Ht, ?H; reflexivity.
  - apply IH. rewrite !dvalue_add, Ht, H. reflexivity.
Qed.

(* ------------------------------------------------------------ assembly *)

Section Csv.
  Variables (cfg : balance_cfg) (ds : list sdirective) (r : report) (part : partition) (dl : list directive).
  Hypothesis Hv : bc_valuation cfg = None.
  Hypothesis Hrun : balance_report cfg ds = COk (r, part).
  Hypothesis Hp : parse_directives ds = MOk dl.
  Hypothesis Hsyn : postings_syntactic dl.

  Let es := ledger_entries cfg dl part.
  Let rc := balance_render_cfg cfg.
  Let dates := end_dates part.
  Let al := filter is_AL_entry es.
  Let eie := filter (fun e => negb (is_AL_entry e)) es.
  Let all_sel := fun _ : account => true.
  Let side (b : bool) := if b then al else eie.

  (* the order of the account rows (discharged in BalanceCsvOrder.v for --sort-alphabetically) *)
  Hypothesis Horder_al : map l_path (flat_map tree_lines (n_children (sorted_al rc r))) = all_rows al.
  Hypothesis Horder_eie : map l_path (flat_map tree_lines (n_children (sorted_eie rc r))) = all_rows eie.

  Lemma Hrows_ok : forall x, In x (rows r) -> account_ok x = true.
  Proof. exact (Hacc cfg ds r part dl Hv Hrun Hp Hsyn). Qed.

  Lemma entry_ok e : In e es -> account_ok (e_acc e) = true.
  Proof. destruct e as [[[col a] c] v]. intros H. exact (ledger_entry_account_ok cfg dl part col a c v Hsyn H). Qed.

  Lemma is_AL_entry_acc e : is_AL_entry e = is_AL (e_acc e).
  Proof. destruct e as [[[col a] c] v]. reflexivity. Qed.

  Lemma side_filter b : side b = filter (fun e => Bool.eqb (is_AL_entry e) b) es.
  Proof.
    unfold side, al, eie. destruct b; apply filter_ext; intros e; destruct (is_AL_entry e); reflexivity.
  Qed.

  (* the amounts of one row are those of its side *)
  Lemma side_row_amount b row c col : account_ok row = true -> is_AL row = b ->
    period_amount (side b) (acc_eqb row) c col = period_amount es (acc_eqb row) c col.
  Proof.
    intros Hok Hb. rewrite side_filter. apply period_amount_filter. intros e He.
    destruct (Bool.eqb (is_AL_entry e) b) eqn:E; [reflexivity|].
    destruct (acc_eqb row (e_acc e)) eqn:Ea; [|reflexivity]. exfalso.
    apply acc_eqb_name in Ea. apply acc_name_inj in Ea; [|exact Hok|exact (entry_ok e He)].
    rewrite is_AL_entry_acc, <- Ea, Hb, Bool.eqb_reflx in E. discriminate.
  Qed.

  Lemma side_total_amount b c col :
    period_amount (side b) all_sel c col = period_amount es (fun a => if b then is_AL a else negb (is_AL a)) c col.
  Proof.
    rewrite side_filter. apply period_amount_filter. intros e _. rewrite is_AL_entry_acc. unfold all_sel.
    destruct b, (is_AL (e_acc e)); reflexivity.
  Qed.

  Lemma al_total_amount c col : period_amount al all_sel c col = period_amount es is_AL c col.
  Proof. exact (side_total_amount true c col). Qed.

  Lemma eie_total_amount c col : period_amount eie all_sel c col = period_amount es (fun a => negb (is_AL a)) c col.
  Proof. exact (side_total_amount false c col). Qed.

  Lemma delta_amount c col :
    dvalue (period_amount (al ++ eie) all_sel c col) == dvalue (period_amount es all_sel c col).
  Proof.
    rewrite !period_amount_q, qsum_app. unfold al, eie. apply qsum_filter_split.
  Qed.

  Lemma tw_dates : tw rc dates = (2 + length dates)%nat.
  Proof. unfold tw, draw_comms, rc, balance_render_cfg. cbn [rc_valuation]. rewrite Hv. reflexivity. Qed.

  Lemma cell_amounts_nonempty diff negate es0 sel c cols t : cols <> [] -> cell_amounts diff negate es0 sel c cols t <> [].
  Proof. destruct cols; [contradiction|]. intros _. cbn [cell_amounts]. discriminate. Qed.

  Lemma dates_nonempty col : In col dates -> dates <> [].
  Proof. intros H E. rewrite E in H. destruct H. Qed.

  (* one account block *)
  Lemma row_csv b row a : In (row, a) (account_rows rc r) -> is_AL row = b ->
    csvf (acct_lines rc dates row a) = lines_for (bc_diff cfg) (negb b) (side b) (acc_eqb row) (last_seg row) dates.
  Proof.
    intros Hin Hb.
    assert (Hok : account_ok row = true).
    { apply Hrows_ok. eapply Permutation_in; [apply account_rows_paths|]. apply in_map_iff. exists (row, a). split; [reflexivity|exact Hin]. }
    pose proof (commodity_line_iff_sec cfg ds r part dl Hv Hrun Hp Hsyn) as H. cbv zeta in H.
    destruct (H row a Hin) as (coms & Hs & Hm & Hb0). clear H. fold rc es dates in Hm, Hb0.
    rewrite tw_dates in Hb0. rewrite Hb in Hb0.
    rewrite (block_csv _ _ _ _ _ _ Hb0).
    2: { exact (last_account_ok row Hok). }
    2: { intros c Hc. apply cell_amounts_nonempty. apply Hm in Hc. destruct Hc as (col & Hcol & _). exact (dates_nonempty col Hcol). }
    rewrite lines_for_block. unfold last_seg.
    assert (Ecoms : coms = shown_commodities (side b) (acc_eqb row) dates).
    { apply coms_sorted_ext; [exact Hs|apply shown_sorted|]. intros c. rewrite Hm, shown_in.
      split; intros (col & Hcol & Hnz); exists col; (split; [exact Hcol|]);
        [rewrite (side_row_amount b row c col Hok Hb)|rewrite <- (side_row_amount b row c col Hok Hb)]; exact Hnz. }
    rewrite <- Ecoms. apply csv_block_ext. intros c _.
    apply cell_amounts_value; [|reflexivity]. intros col. rewrite (side_row_amount b row c col Hok Hb). reflexivity.
  Qed.

  Let Hok := balance_report_ok _ _ _ _ Hrun.

  (* one section: the blocks of a tree *)
  Lemma section_csv (b : bool) :
    map l_path (flat_map tree_lines (n_children (if b then sorted_al rc r else sorted_eie rc r))) = all_rows (side b) ->
    csvf (section_rows rc dates (negb b) (n_children (if b then sorted_al rc r else sorted_eie rc r))) =
    concat (map (fun row => lines_for (bc_diff cfg) (negb b) (side b) (acc_eqb row) (last_seg row) dates) (all_rows (side b))).
  Proof.
    intros Hord. set (root := if b then sorted_al rc r else sorted_eie rc r) in *.
    destruct Hok as ((W1 & W2 & P1 & P2) & S1 & S2 & T1 & T2 & _).
    assert (Hty : forall x, In x (cpaths (n_children root)) -> is_AL x = b).
    { intros x Hx. unfold root in Hx. destruct b; apply cpaths_sort_in in Hx; [exact (T1 x Hx)|exact (T2 x Hx)]. }
    assert (Hblocks : flat_map (node_blocks rc dates 0 (negb b)) (n_children root) =
                      map (line_block rc dates) (flat_map tree_lines (n_children root))).
    { apply top_blocks_lines.
      - unfold root. destruct b; apply node_sort_wf; assumption.
      - unfold root, sorted_al, sorted_eie. destruct b; rewrite node_sort_path; assumption.
      - intros x Hx. rewrite (Hty x Hx). reflexivity. }
    unfold section_rows. rewrite csvf_concat, map_map.
    rewrite (map_ext _ (fun top => concat (map (fun bl => csvf (snd bl)) (node_blocks rc dates 0 (negb b) top)))).
    2: { intros top. rewrite csvf_app, csvf_empty, app_nil_r. unfold blocks_rows. rewrite csvf_concat, map_map. reflexivity. }
    rewrite <- concat_map_flat_map, Hblocks, map_map.
    rewrite <- Hord, map_map. f_equal. apply map_ext_in. intros l Hl. unfold line_block. cbn [snd].
    apply row_csv.
    - unfold account_rows. apply in_map_iff. exists l. split; [destruct l as [[s p] a]; reflexivity|].
      apply in_or_app. unfold root in Hl. destruct b; [left|right]; exact Hl.
    - apply Hty. rewrite <- clines_paths. apply in_map. exact Hl.
  Qed.

  Lemma totals_csv :
    let total_al := node_totals (total_key rc) (sorted_al rc r) [] in
    let total_eie := node_totals (total_key rc) (sorted_eie rc r) [] in
    csvf (line_rows rc dates 0 s_TotalAL false total_al) = lines_for (bc_diff cfg) false al all_sel s_TotalAL dates /\
    csvf (line_rows rc dates 0 s_TotalEIE true total_eie) = lines_for (bc_diff cfg) true eie all_sel s_TotalEIE dates /\
    csvf (line_rows rc dates 0 s_Delta false (ra_plus total_al total_eie)) = delta_lines (bc_diff cfg) al eie dates.
  Proof.
    cbv zeta. pose proof (total_lines_listed cfg ds r part dl Hv Hrun Hp Hsyn) as H. cbv zeta in H.
    fold rc es dates in H. destruct H as (coms_al & coms_eie & coms_delta & (Sa & Ma & Ba) & (Se & Me & Be) & (Sd & Md & Bd)).
    rewrite tw_dates in Ba, Be, Bd.
    assert (Ea : coms_al = shown_commodities al all_sel dates).
    { apply coms_sorted_ext; [exact Sa|apply shown_sorted|]. intros c. rewrite Ma, shown_in.
      split; intros (col & Hcol & Hnz); exists col; (split; [exact Hcol|]);
        [rewrite al_total_amount|rewrite <- al_total_amount]; exact Hnz. }
    assert (Ee : coms_eie = shown_commodities eie all_sel dates).
    { apply coms_sorted_ext; [exact Se|apply shown_sorted|]. intros c. rewrite Me, shown_in.
      split; intros (col & Hcol & Hnz); exists col; (split; [exact Hcol|]);
        [rewrite eie_total_amount|rewrite <- eie_total_amount]; exact Hnz. }
    split; [|split].
    - rewrite (block_csv _ _ _ _ _ _ Ba); [|discriminate|].
      2: { intros c Hc. apply cell_amounts_nonempty. apply Ma in Hc. destruct Hc as (col & Hcol & _). exact (dates_nonempty col Hcol). }
      rewrite lines_for_block, <- Ea. apply csv_block_ext. intros c _.
      apply cell_amounts_value; [|reflexivity]. intros col. rewrite al_total_amount. reflexivity.
    - rewrite (block_csv _ _ _ _ _ _ Be); [|discriminate|].
      2: { intros c Hc. apply cell_amounts_nonempty. apply Me in Hc. destruct Hc as (col & Hcol & _). exact (dates_nonempty col Hcol). }
      rewrite lines_for_block, <- Ee. apply csv_block_ext. intros c _.
      apply cell_amounts_value; [|reflexivity]. intros col. rewrite eie_total_amount. reflexivity.
    - rewrite (block_csv _ _ _ _ _ _ Bd); [|discriminate|].
      2: { intros c Hc. apply cell_amounts_nonempty. apply Md in Hc.
           destruct Hc as [Hc|Hc]; [apply Ma in Hc|apply Me in Hc]; destruct Hc as (col & Hcol & _); exact (dates_nonempty col Hcol). }
      assert (Ed : coms_delta = union_com (shown_commodities al all_sel dates) (shown_commodities eie all_sel dates)).
      { apply coms_sorted_ext; [exact Sd|apply union_com_sorted, shown_sorted|]. intros c.
        rewrite Md, union_com_in, <- Ea, <- Ee. reflexivity. }
      unfold delta_lines. fold all_sel. rewrite <- Ed. unfold csv_block. destruct coms_delta as [|c0 coms'].
      + rewrite map_const_repeat. reflexivity.
      + rewrite <- (combine_lines s_Delta (fun c => map to_string (cell_amounts (bc_diff cfg) false es all_sel c dates dec_nil)) (c0 :: coms') true).
        apply map_ext. intros [b0 c]. cbn [fst snd]. f_equal. f_equal.
        rewrite cells_printed. symmetry. apply cell_amounts_value; [|reflexivity]. intros col. apply delta_amount.
  Qed.

  Lemma header_csv : csvf [header_cells rc dates] = [header_row dates].
  Proof.
    unfold csvf, header_cells, header_row, draw_comms, rc, balance_render_cfg. cbn [rc_valuation]. rewrite Hv.
    cbn [map app csv_cell filter nonblank existsb s_Account]. rewrite map_map. cbn [csv_cell]. reflexivity.
  Qed.

  Theorem csv_rows_ledger :
    exists rows, ledger_csv cfg dl = Some rows /\ render_csv_rows (render_report rc r dates) = rows.
  Proof.
    destruct (report_cells cfg ds r part Hv Hrun) as (dl' & Hp' & Hpart & _). rewrite Hp in Hp'. inversion Hp'; subst dl'. clear Hp'.
    unfold ledger_csv. rewrite Hv, Hpart. eexists. split; [reflexivity|].
    rewrite render_csv_rows_csvf, render_report_layout. unfold report_table_rows. cbv zeta.
    destruct totals_csv as (Ta & Te & Td). cbv zeta in Ta, Te, Td.
    pose proof (section_csv true Horder_al) as Sa. pose proof (section_csv false Horder_eie) as Se.
    cbn [negb] in Sa, Se. unfold side in Sa, Se.
    change ([repeat CSep (tw rc dates); header_cells rc dates; repeat CSep (tw rc dates)])
      with ([repeat CSep (tw rc dates)] ++ [header_cells rc dates] ++ [repeat CSep (tw rc dates)]).
    rewrite !csvf_app, !csvf_sep, header_csv, Sa, Ta, Se, Te, Td. cbn [app]. rewrite !app_nil_r.
    reflexivity.
  Qed.
End Csv.
