(* C09 (b), reports: day lists that agree in everything but the REPRESENTATION of quantities
   (posting quantities and values, prices, normalized prices, assertion quantities: the same
   values, [deqv]) -- the relation [day_v] -- and the generic simulation of Processor.Process over
   such lists: if every callback of a processor maps related states and related arguments to
   related results, so does a whole stage ([process_days_v]). *)
From Coq Require Import ZArith List Bool Lia.
From Knut Require Import Model.Str Model.Dec Model.Date Model.Account Model.Ledger Model.Price Model.Journal
     Model.Check Model.Cli.
From Knut Require Import Proofs.DecProofs Proofs.DecEqProofs Proofs.OrderProofs Proofs.CheckQuant.
Import ListNotations.
Open Scope bool_scope.
Open Scope Z_scope.

(* ------------------------------------------------------------------ relations *)

Definition posting_v (p p' : posting) : Prop :=
  p_acc p = p_acc p' /\ p_other p = p_other p' /\ p_com p = p_com p' /\
  deqv (p_qty p) (p_qty p') /\ deqv (p_val p) (p_val p').

Definition txn_v (t t' : txn) : Prop :=
  t_date t = t_date t' /\ t_desc t = t_desc t' /\ t_targets t = t_targets t' /\
  Forall2 posting_v (t_postings t) (t_postings t').

Definition price_v (x y : commodity * dec * commodity) : Prop :=
  fst (fst x) = fst (fst y) /\ snd x = snd y /\ deqv (snd (fst x)) (snd (fst y)).

Definition kv_v (x y : str * dec) : Prop := fst x = fst y /\ deqv (snd x) (snd y).
Definition np_v (a b : option nprices) : Prop :=
  match a, b with
  | Some m, Some m' => Forall2 kv_v m m'
  | None, None => True
  | _, _ => False
  end.

Definition day_v (d d' : day) : Prop :=
  d_date d = d_date d' /\ Forall2 price_v (d_prices d) (d_prices d') /\ d_opens d = d_opens d' /\
  Forall2 txn_v (d_txns d) (d_txns d') /\ Forall2 (Forall2 bal_q) (d_asserts d) (d_asserts d') /\
  d_closes d = d_closes d' /\ np_v (d_normalized d) (d_normalized d').

Lemma Forall2_refl {A} (R : A -> A -> Prop) : (forall a, R a a) -> forall l, Forall2 R l l.
Proof. intros H. induction l; constructor; auto. Qed.

Lemma posting_v_refl p : posting_v p p.
Proof. repeat split; apply deqv_refl. Qed.
Lemma txn_v_refl t : txn_v t t.
Proof. repeat split. apply Forall2_refl, posting_v_refl. Qed.
Lemma bal_q_refl b : bal_q b b.
Proof. repeat split. apply deqv_refl. Qed.
Lemma np_v_refl n : np_v n n.
Proof. destruct n as [m|]; [|exact I]. apply Forall2_refl. intros x. split; [reflexivity|apply deqv_refl]. Qed.
Lemma day_v_refl d : day_v d d.
Proof.
  repeat split; try apply np_v_refl.
  - apply Forall2_refl. intros x. repeat split. apply deqv_refl.
  - apply Forall2_refl, txn_v_refl.
  - apply Forall2_refl. intros a. apply Forall2_refl, bal_q_refl.
Qed.

Lemma posting_v_q p p' : posting_v p p' -> posting_q p p'.
Proof. intros (H1 & _ & H3 & H4 & _). repeat split; assumption. Qed.

(* ------------------------------------------------------------------ the generic simulation *)

Section Sim.
  Context {S : Type} (RS : S -> S -> Prop) (p : processor S).

  Definition RSD (x y : S * day) : Prop := RS (fst x) (fst y) /\ day_v (snd x) (snd y).
  Definition RSP (x y : S * posting) : Prop := RS (fst x) (fst y) /\ posting_v (snd x) (snd y).

  Hypothesis H_day_start : match pr_day_start p with
    | Some f => forall s s' d d', RS s s' -> day_v d d' -> req RSD (f s d) (f s' d') | None => True end.
  Hypothesis H_price : match pr_price p with
    | Some f => forall s s' x x', RS s s' -> price_v x x' -> req RS (f s x) (f s' x') | None => True end.
  Hypothesis H_open : match pr_open p with
    | Some f => forall s s' a, RS s s' -> req RS (f s a) (f s' a) | None => True end.
  Hypothesis H_txn : match pr_txn p with
    | Some f => forall s s' t t', RS s s' -> txn_v t t' -> req RS (f s t) (f s' t') | None => True end.
  Hypothesis H_posting : match pr_posting p with
    | Some f => forall s s' t t' x x', RS s s' -> txn_v t t' -> posting_v x x' -> req RSP (f s t x) (f s' t' x') | None => True end.
  Hypothesis H_balance : match pr_balance p with
    | Some f => forall s s' a a' b b', RS s s' -> Forall2 bal_q a a' -> bal_q b b' -> req RS (f s a b) (f s' a' b') | None => True end.
  Hypothesis H_close : match pr_close p with
    | Some f => forall s s' a, RS s s' -> req RS (f s a) (f s' a) | None => True end.
  Hypothesis H_day_end : match pr_day_end p with
    | Some f => forall s s' d d', RS s s' -> day_v d d' -> req RSD (f s d) (f s' d') | None => True end.

  Lemma fold_res_v2 {A} (RA : A -> A -> Prop) (f f' : S -> A -> presult S) l l' :
    (forall s s' a a', RS s s' -> RA a a' -> req RS (f s a) (f' s' a')) -> Forall2 RA l l' ->
    forall s s', RS s s' -> req RS (fold_res f s l) (fold_res f' s' l').
  Proof.
    intros Hf. induction 1 as [|a a' l l' Ha Hl IH]; intros s s' H; cbn [fold_res]; [exact H|].
    eapply req_bind; [apply Hf; eassumption|]. intros x y Hxy. now apply IH.
  Qed.

  Lemma fold_res_v {A} (RA : A -> A -> Prop) (f : S -> A -> presult S) l l' :
    (forall s s' a a', RS s s' -> RA a a' -> req RS (f s a) (f s' a')) -> Forall2 RA l l' ->
    forall s s', RS s s' -> req RS (fold_res f s l) (fold_res f s' l').
  Proof.
    intros Hf. induction 1 as [|a a' l l' Ha Hl IH]; intros s s' H; cbn [fold_res]; [exact H|].
    eapply req_bind; [apply Hf; eassumption|]. intros x y Hxy. now apply IH.
  Qed.

  Lemma fold_res_same {A} (f : S -> A -> presult S) l :
    (forall s s' a, RS s s' -> req RS (f s a) (f s' a)) ->
    forall s s', RS s s' -> req RS (fold_res f s l) (fold_res f s' l).
  Proof.
    intros Hf. apply (fold_res_v eq); [intros s s' a a' H <-; now apply Hf|]. apply Forall2_refl. reflexivity.
  Qed.

  Definition RSPs (x y : S * list posting) : Prop := RS (fst x) (fst y) /\ Forall2 posting_v (snd x) (snd y).
  Definition RSTs (x y : S * list txn) : Prop := RS (fst x) (fst y) /\ Forall2 txn_v (snd x) (snd y).
  Definition RST (x y : S * txn) : Prop := RS (fst x) (fst y) /\ txn_v (snd x) (snd y).
  Definition RSDs (x y : S * list day) : Prop := RS (fst x) (fst y) /\ Forall2 day_v (snd x) (snd y).

  Lemma fold_postings_v f t t' ps ps' :
    (forall s s' x x', RS s s' -> posting_v x x' -> req RSP (f s t x) (f s' t' x')) ->
    Forall2 posting_v ps ps' ->
    forall s s', RS s s' -> req RSPs (fold_postings f t s ps) (fold_postings f t' s' ps').
  Proof.
    intros Hf. induction 1 as [|x y ps ps' Hxy Hps IH]; intros s s' H; cbn [fold_postings].
    - split; [exact H|constructor].
    - eapply (req_bind RSP RSPs); [apply Hf; assumption|]. intros a b (Hab1 & Hab2).
      eapply (req_bind RSPs RSPs); [apply IH; exact Hab1|]. intros a1 b1 (H1 & H2).
      split; cbn [fst snd]; [exact H1|constructor; assumption].
  Qed.

  Lemma fold_txns_v ts ts' : Forall2 txn_v ts ts' ->
    forall s s', RS s s' -> req RSTs (fold_txns p s ts) (fold_txns p s' ts').
  Proof.
    induction 1 as [|t t' ts ts' Ht Hts IH]; intros s s' H; cbn [fold_txns].
    - split; [exact H|constructor].
    - eapply (req_bind RS RSTs).
      { destruct (pr_txn p) as [f|]; [now apply H_txn|exact H]. }
      intros s1 s1' H1.
      eapply (req_bind RST RSTs).
      { destruct (pr_posting p) as [f|].
        - eapply (req_bind RSPs RST).
          + apply fold_postings_v; [intros; now apply H_posting|apply Ht|exact H1].
          + intros a b (Ha & Hb). split; cbn [fst snd]; [exact Ha|].
            destruct Ht as (T1 & T2 & T3 & _). repeat split; cbn [t_date t_desc t_targets t_postings]; assumption.
        - split; cbn [fst snd]; assumption. }
      intros a b (Ha & Hb).
      eapply (req_bind RSTs RSTs); [apply IH; exact Ha|]. intros a1 b1 (K1 & K2).
      split; cbn [fst snd]; [exact K1|constructor; assumption].
  Qed.

  Lemma fold_asserts_v l l' : Forall2 (Forall2 bal_q) l l' ->
    forall s s', RS s s' -> req RS (fold_asserts p s l) (fold_asserts p s' l').
  Proof.
    induction 1 as [|a a' l l' Ha Hl IH]; intros s s' H; cbn [fold_asserts]; [exact H|].
    eapply req_bind.
    { destruct (pr_balance p) as [f|]; [|exact H].
      apply (fold_res_v2 bal_q); [intros; now apply H_balance|exact Ha|exact H]. }
    intros x y Hxy. now apply IH.
  Qed.

  Lemma process_day_v d d' s s' : day_v d d' -> RS s s' -> req RSD (process_day p s d) (process_day p s' d').
  Proof.
    intros Hd H. unfold process_day.
    eapply (req_bind RSD RSD).
    { destruct (pr_day_start p) as [f|]; [now apply H_day_start|split; assumption]. }
    intros [s1 d1] [s1' d1'] (H1 & (D1 & D2 & D3 & D4 & D5 & D6 & D7)). cbn [fst snd] in *.
    eapply (req_bind RS RSD).
    { destruct (pr_price p) as [f|]; [|exact H1]. apply (fold_res_v price_v); [intros; now apply H_price|exact D2|exact H1]. }
    intros s2 s2' H2.
    eapply (req_bind RS RSD).
    { destruct (pr_open p) as [f|]; [|exact H2]. rewrite <- D3. apply fold_res_same; [intros; now apply H_open|exact H2]. }
    intros s3 s3' H3.
    eapply (req_bind RSTs RSD); [apply fold_txns_v; [exact D4|exact H3]|].
    intros [s4 ts] [s4' ts'] (H4 & T4). cbn [fst snd] in *.
    eapply (req_bind RS RSD); [apply fold_asserts_v; [exact D5|exact H4]|].
    intros s5 s5' H5.
    eapply (req_bind RS RSD).
    { destruct (pr_close p) as [f|]; [|exact H5]. rewrite <- D6. apply fold_res_same; [intros; now apply H_close|exact H5]. }
    intros s6 s6' H6.
    assert (Dn : day_v (mkDay (d_date d1) (d_prices d1) (d_opens d1) ts (d_asserts d1) (d_closes d1) (d_normalized d1))
                       (mkDay (d_date d1') (d_prices d1') (d_opens d1') ts' (d_asserts d1') (d_closes d1') (d_normalized d1'))).
    { repeat split; cbn [d_date d_prices d_opens d_txns d_asserts d_closes d_normalized]; assumption. }
    destruct (pr_day_end p) as [f|]; [now apply H_day_end|split; assumption].
  Qed.

  Theorem process_days_v D D' : Forall2 day_v D D' ->
    forall s s', RS s s' -> req RSDs (process_days p s D) (process_days p s' D').
  Proof.
    induction 1 as [|d d' D D' Hd HD IH]; intros s s' H; cbn [process_days].
    - split; [exact H|constructor].
    - eapply (req_bind RSD RSDs); [now apply process_day_v|]. intros a b (Ha & Hb).
      eapply (req_bind RSDs RSDs); [apply IH; exact Ha|]. intros a1 b1 (K1 & K2).
      split; cbn [fst snd]; [exact K1|constructor; assumption].
  Qed.
End Sim.

(* ------------------------------------------------------------------ the checker, with its days *)

Lemma ck_posting_v s s' t t' x x' : Rq s s' -> posting_v x x' -> req (RSP Rq) (ck_posting_cb s t x) (ck_posting_cb s' t' x').
Proof.
  intros H Hx. pose proof Hx as (Ha & Ho & Hc & Hq & Hv). unfold ck_posting_cb.
  rewrite <- Ha, <- Hc, (is_open_q s s' _ H).
  destruct (negb (is_open s' (p_acc x))); cbn [req]; [exact I|].
  destruct (is_AL (p_acc x)); cbn [req]; split; cbn [fst snd]; try exact Hx; [|exact H].
  destruct H as [Ho' Hm]. split; cbn [ck_open ck_qty]; [exact Ho'|now apply pos_add_q].
Qed.

Theorem check_stage_v r D D' : Forall2 day_v D D' ->
  req (RSDs Rq) (process_days (check_proc_current r) check_init D) (process_days (check_proc_current r) check_init D').
Proof.
  intros H. apply process_days_v; [| | | | | | | |exact H|apply Rq_refl];
    destruct r; cbn [check_proc_current check_proc_fixed check_proc pr_day_start pr_price pr_open pr_txn pr_posting pr_balance pr_close pr_day_end];
    try exact I.
  all: try (intros; now apply ck_open_q).
  all: try (intros; now apply ck_close_q).
  all: try (intros; now apply ck_posting_v).
  - intros. now apply ck_balance_fixed_q.
  - intros. now apply ck_balance_cb_q.
Qed.
