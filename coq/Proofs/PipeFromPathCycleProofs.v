(* Proofs about Model/PipeFromPathCycle.v (journal.FromPath on an arbitrary finite include graph,
   parser tasks with ancestor chains): termination under every schedule with a bound in the number of
   visits (simple paths from the root and their one-edge cycle closings), deadlock freedom, what
   reaches the builder, a reachable cycle is an error of the parser stage, and the schedule
   dependence of the seeded variant with a global set of claimed files.                         *)
From Coq Require Import List Bool Arith PeanoNat Lia Permutation.
From Knut Require Import Model.PipeLoader Model.PipeFromPath Spec.IncludeGraph Model.PipeFromPathCycle.
From Knut Require Import Proofs.PipeLoaderProofs Proofs.PipeFromPathProofs Proofs.IncludeGraphProofs.
Import ListNotations.

Lemma memn_rev : forall x l, memn x (rev l) = memn x l.
Proof.
  intros x l. destruct (memn x l) eqn:M.
  - apply memn_true. apply -> in_rev. apply memn_true. exact M.
  - apply memn_false. intros H. apply in_rev in H. apply memn_false in M. contradiction.
Qed.

Lemma in_set_nth' : forall (A : Type) (l : list A) t v x, In x (set_nth l t v) -> x = v \/ In x l.
Proof.
  intros A. induction l as [|y l IH]; intros [|t] v x H; simpl in *; auto.
  - destruct H as [H|H]; auto.
  - destruct H as [H|H]; auto. destruct (IH _ _ _ H); auto.
Qed.

Section FromPathCycleProofs.
  Variable inc : nat -> list nat.
  Variables bad cbad abad : nat -> bool.
  Variable once : bool.

  Notation kstep := (kstep inc bad cbad abad once).
  Notation krun := (krun inc bad cbad abad once).
  Notation keffective := (keffective inc bad cbad abad once).
  Notation kenabled := (kenabled inc bad cbad abad once).
  Notation kpick := (kpick inc bad cbad abad once).
  Notation kdrain := (kdrain inc bad cbad abad once).

  Variable univ : list nat.
  Hypothesis Hclosed : forall f g, In f univ -> In g (inc f) -> In g univ.

  Notation Wk := (Wk inc univ).
  Notation gvalid := (gvalid univ).

  (* ---------------------------------------------------------------- validity of the parser tasks *)
  Definition tvalid (t : ktask) : Prop :=
    gvalid (k_anc t) (k_file t) /\
    match k_st t with
    | KParsing rest => memn (k_file t) (k_anc t) = false /\ incl rest (inc (k_file t))
    | KRdy => memn (k_file t) (k_anc t) = false
    | _ => True
    end.

  Definition KValid (st : kstate) : Prop := forall t, In t (k_ptasks st) -> tvalid t.

  Lemma kvalid_init : forall root, In root univ -> KValid (kinit root).
  Proof.
    intros root Hr t [<-|[]]. split; simpl; [|exact I]. repeat split; [constructor|intros x []|exact Hr].
  Qed.

  Lemma kvalid_set : forall st ts, (forall t, In t ts -> tvalid t) -> KValid (kset_ptasks st ts).
  Proof. intros st ts H t Ht. apply H. exact Ht. Qed.

  Lemma tvalid_set_nth : forall l t v, (forall x, In x l -> tvalid x) -> tvalid v ->
    forall x, In x (set_nth l t v) -> tvalid x.
  Proof. intros l t v H V x Hx. apply in_set_nth' in Hx. destruct Hx as [->|Hx]; auto. Qed.

  Lemma kstep_kvalid : forall l st st', KValid st -> kstep l st = Some st' -> KValid st'.
  Proof.
    intros l st st' HV Hs. unfold KValid in *.
    destruct l as [t|t|t|t|t| | | |c|c|c| ]; simpl in Hs.
    - destruct (nth_error (k_ptasks st) t) as [[f anc []]|] eqn:N; try discriminate.
      pose proof (HV _ (nth_error_In _ _ N)) as [V _]. cbn [k_anc k_file] in V.
      destruct (memn f anc) eqn:M; [|destruct (once && memn f (k_claimed st))]; injection Hs as <-;
        cbn [k_ptasks kset_pfail kset_ptasks kset_claimed];
        apply tvalid_set_nth; auto; split; cbn [k_anc k_file k_st]; auto.
      split; [exact M|apply incl_refl].
    - destruct (nth_error (k_ptasks st) t) as [[f anc [|[|g rest]| | | | |]]|] eqn:N; try discriminate.
      pose proof (HV _ (nth_error_In _ _ N)) as [V [M I]]. cbn [k_anc k_file k_st] in V, M, I.
      injection Hs as <-. cbn [k_ptasks kset_ptasks]. intros x Hx. apply in_app_or in Hx.
      destruct Hx as [Hx|[<-|[]]].
      + revert x Hx. apply tvalid_set_nth; auto. split; cbn [k_anc k_file k_st]; auto.
        split; [exact M|]. intros y Hy. apply I. right. exact Hy.
      + split; cbn [k_anc k_file k_st]; auto.
        apply (gvalid_step inc univ Hclosed); auto. apply I. left. reflexivity.
    - destruct (nth_error (k_ptasks st) t) as [[f anc [|[|g rest]| | | | |]]|] eqn:N; try discriminate.
      pose proof (HV _ (nth_error_In _ _ N)) as [V [M I]]. cbn [k_anc k_file k_st] in V, M, I.
      destruct (bad f); injection Hs as <-; cbn [k_ptasks kset_pfail kset_ptasks];
        apply tvalid_set_nth; auto; split; cbn [k_anc k_file k_st]; auto.
    - destruct (nth_error (k_ptasks st) t) as [[f anc [|[|g rest]| | | | |]]|] eqn:N; try discriminate.
      pose proof (HV _ (nth_error_In _ _ N)) as [V M]. cbn [k_anc k_file k_st] in V, M.
      destruct (dstat_eqb (k_disp st) DRecv); [|discriminate].
      injection Hs as <-; cbn [k_ptasks kset_ctasks kset_ptasks];
        apply tvalid_set_nth; auto; split; cbn [k_anc k_file k_st]; auto.
    - destruct (nth_error (k_ptasks st) t) as [[f anc [|[|g rest]| | | | |]]|] eqn:N; try discriminate.
      pose proof (HV _ (nth_error_In _ _ N)) as [V M]. cbn [k_anc k_file k_st] in V, M.
      destruct (k_pcancel st); [|discriminate].
      injection Hs as <-; cbn [k_ptasks kset_ptasks];
        apply tvalid_set_nth; auto; split; cbn [k_anc k_file k_st]; auto.
    - destruct (negb (k_synclosed st) && forallb ktask_terminal (k_ptasks st)); [|discriminate].
      injection Hs as <-. exact HV.
    - destruct (dstat_eqb (k_disp st) DRecv && k_synclosed st); [|discriminate]. injection Hs as <-. exact HV.
    - destruct (dstat_eqb (k_disp st) DWait && forallb ctask_terminal (k_ctasks st)); [|discriminate].
      injection Hs as <-. exact HV.
    - destruct (nth_error (k_ctasks st) c) as [[f []]|]; try discriminate.
      destruct (cbad f); injection Hs as <-; exact HV.
    - destruct (nth_error (k_ctasks st) c) as [[f []]|]; try discriminate.
      destruct (bstat_eqb (k_bld st) BRecv); [|discriminate].
      destruct (abad f); injection Hs as <-; exact HV.
    - destruct (nth_error (k_ctasks st) c) as [[f []]|]; try discriminate.
      destruct (k_ccancel st); [|discriminate]. injection Hs as <-; exact HV.
    - destruct (bstat_eqb (k_bld st) BRecv && dstat_eqb (k_disp st) DDone); [|discriminate].
      injection Hs as <-. exact HV.
  Qed.

  Lemma krun_kvalid : forall sched st, KValid st -> KValid (krun sched st).
  Proof.
    induction sched as [|l rest IH]; intros st HV; simpl; [assumption|].
    apply IH. unfold PipeFromPathCycle.kstep_or_stay. destruct (kstep l st) eqn:S; [|assumption].
    eapply kstep_kvalid; eassumption.
  Qed.

  (* every parser task is about a visit of the enumeration below the root *)
  Definition KTin (root : nat) (st : kstate) : Prop :=
    forall t, In t (k_ptasks st) -> In (k_anc t, k_file t) (Wk [] root).

  Lemma ktin_init : forall root, KTin root (kinit root).
  Proof. intros root t [<-|[]]. cbn [k_anc k_file]. apply Wk_head_in. Qed.

  Lemma tin_set_nth : forall root l t f anc s s', nth_error l t = Some (mkK f anc s) ->
    (forall x, In x l -> In (k_anc x, k_file x) (Wk [] root)) ->
    forall x, In x (set_nth l t (mkK f anc s')) -> In (k_anc x, k_file x) (Wk [] root).
  Proof.
    intros root l t f anc s s' N H x Hx. apply in_set_nth' in Hx. destruct Hx as [->|Hx]; [|auto].
    apply (H _ (nth_error_In _ _ N)).
  Qed.

  Lemma kstep_tin : forall root l st st', In root univ -> KValid st -> KTin root st ->
    kstep l st = Some st' -> KTin root st'.
  Proof.
    intros root l st st' Hr HV HT Hs. unfold KTin in *.
    destruct l as [t|t|t|t|t| | | |c|c|c| ]; simpl in Hs.
    - destruct (nth_error (k_ptasks st) t) as [[f anc []]|] eqn:N; try discriminate.
      destruct (memn f anc) eqn:M; [|destruct (once && memn f (k_claimed st))]; injection Hs as <-;
        cbn [k_ptasks kset_pfail kset_ptasks kset_claimed]; eapply tin_set_nth; eauto.
    - destruct (nth_error (k_ptasks st) t) as [[f anc [|[|g rest]| | | | |]]|] eqn:N; try discriminate.
      pose proof (HV _ (nth_error_In _ _ N)) as [V [M I]]. cbn [k_anc k_file k_st] in V, M, I.
      injection Hs as <-. cbn [k_ptasks kset_ptasks]. intros x Hx. apply in_app_or in Hx.
      destruct Hx as [Hx|[<-|[]]].
      + revert x Hx. eapply tin_set_nth; eauto.
      + cbn [k_anc k_file].
        apply (Wk_closed inc univ Hclosed (length univ - length (@nil nat)) [] root (le_n _)).
        * repeat split; [constructor|intros y []|exact Hr].
        * apply (HT _ (nth_error_In _ _ N)).
        * exact M.
        * apply I. left. reflexivity.
    - destruct (nth_error (k_ptasks st) t) as [[f anc [|[|g rest]| | | | |]]|] eqn:N; try discriminate.
      destruct (bad f); injection Hs as <-; cbn [k_ptasks kset_pfail kset_ptasks]; eapply tin_set_nth; eauto.
    - destruct (nth_error (k_ptasks st) t) as [[f anc [|[|g rest]| | | | |]]|] eqn:N; try discriminate.
      destruct (dstat_eqb (k_disp st) DRecv); [|discriminate].
      injection Hs as <-; cbn [k_ptasks kset_ctasks kset_ptasks]; eapply tin_set_nth; eauto.
    - destruct (nth_error (k_ptasks st) t) as [[f anc [|[|g rest]| | | | |]]|] eqn:N; try discriminate.
      destruct (k_pcancel st); [|discriminate].
      injection Hs as <-; cbn [k_ptasks kset_ptasks]; eapply tin_set_nth; eauto.
    - destruct (negb (k_synclosed st) && forallb ktask_terminal (k_ptasks st)); [|discriminate].
      injection Hs as <-. exact HT.
    - destruct (dstat_eqb (k_disp st) DRecv && k_synclosed st); [|discriminate]. injection Hs as <-. exact HT.
    - destruct (dstat_eqb (k_disp st) DWait && forallb ctask_terminal (k_ctasks st)); [|discriminate].
      injection Hs as <-. exact HT.
    - destruct (nth_error (k_ctasks st) c) as [[f []]|]; try discriminate.
      destruct (cbad f); injection Hs as <-; exact HT.
    - destruct (nth_error (k_ctasks st) c) as [[f []]|]; try discriminate.
      destruct (bstat_eqb (k_bld st) BRecv); [|discriminate].
      destruct (abad f); injection Hs as <-; exact HT.
    - destruct (nth_error (k_ctasks st) c) as [[f []]|]; try discriminate.
      destruct (k_ccancel st); [|discriminate]. injection Hs as <-; exact HT.
    - destruct (bstat_eqb (k_bld st) BRecv && dstat_eqb (k_disp st) DDone); [|discriminate].
      injection Hs as <-. exact HT.
  Qed.

  (* ---------------------------------------------------------------- termination measure *)
  (* every visit costs at most six steps: spawn, start, parsed, push (or observe), convert, push *)
  (* the number of visits strictly below (anc, f) *)
  Definition nB (anc : list nat) (f : nat) : nat := length (tl (Wk anc f)).

  Definition kw (t : ktask) : nat :=
    match k_st t with
    | KNew => 5 + 6 * nB (k_anc t) (k_file t)
    | KParsing rest => 4 + 6 * list_sum (map (fun g => 1 + nB (k_anc t ++ [k_file t]) g) rest)
    | KRdy => 3
    | _ => 0
    end.

  Definition sw (closed : bool) : nat := if closed then 0 else 1.

  Definition kmu (st : kstate) : nat :=
    list_sum (map kw (k_ptasks st)) + list_sum (map cw (k_ctasks st)) +
    sw (k_synclosed st) + dw (k_disp st) + bw (k_bld st).

  Lemma nB_length : forall anc f, length (Wk anc f) = 1 + nB anc f.
  Proof.
    intros anc f. unfold nB, IncludeGraphProofs.Wk.
    destruct (walks_head inc (length univ - length anc) anc f) as (tl & ->). reflexivity.
  Qed.

  Lemma nB_unfold : forall anc f, gvalid anc f ->
    nB anc f = if memn f anc then 0 else list_sum (map (fun g => 1 + nB (anc ++ [f]) g) (inc f)).
  Proof.
    intros anc f V. unfold nB at 1. rewrite (Wk_unfold inc univ anc f V). cbn [tl].
    destruct (memn f anc); [reflexivity|]. rewrite length_flat_map. f_equal.
    apply map_ext. intros g. apply nB_length.
  Qed.

  Lemma list_sum_cons1 : forall x l, list_sum (x :: l) = x + list_sum l.
  Proof. reflexivity. Qed.
  Lemma list_sum_nil1 : list_sum [] = 0.
  Proof. reflexivity. Qed.

  Lemma list_sum_app3 : forall a b, list_sum (a ++ b) = list_sum a + list_sum b.
  Proof. induction a as [|x a IH]; intros b; simpl; [reflexivity|]. rewrite IH. lia. Qed.

  Lemma kstep_decreases : forall l st st', KValid st -> kstep l st = Some st' -> kmu st' < kmu st.
  Proof.
    intros l st st' HV Hs. destruct l as [t|t|t|t|t| | | |c|c|c| ]; simpl in Hs.
    - destruct (nth_error (k_ptasks st) t) as [[f anc []]|] eqn:N; try discriminate.
      pose proof (HV _ (nth_error_In _ _ N)) as [V _]. cbn [k_anc k_file] in V.
      pose proof (nB_unfold anc f V) as U.
      destruct (memn f anc) eqn:M; rewrite ?M in U; clear M;
        [|destruct (once && memn f (k_claimed st))]; injection Hs as <-; unfold kmu;
        cbn [k_ptasks k_ctasks k_synclosed k_disp k_bld kset_pfail kset_ptasks kset_claimed].
      + pose proof (sum_set_nth_gen _ kw _ _ (mkK f anc KFail) _ N) as S.
        unfold kw in S at 2 4. cbn [k_st k_anc k_file] in S. lia.
      + pose proof (sum_set_nth_gen _ kw _ _ (mkK f anc KSkip) _ N) as S.
        unfold kw in S at 2 4. cbn [k_st k_anc k_file] in S. lia.
      + pose proof (sum_set_nth_gen _ kw _ _ (mkK f anc (KParsing (inc f))) _ N) as S.
        unfold kw in S at 2 4. cbn [k_st k_anc k_file] in S. lia.
    - destruct (nth_error (k_ptasks st) t) as [[f anc [|[|g rest]| | | | |]]|] eqn:N; try discriminate.
      injection Hs as <-. unfold kmu. cbn [k_ptasks k_ctasks k_synclosed k_disp k_bld kset_ptasks].
      pose proof (sum_set_nth_gen _ kw _ _ (mkK f anc (KParsing rest)) _ N) as S.
      rewrite map_app, list_sum_app3.
      unfold kw in S at 2 4. cbn [k_st k_anc k_file map] in S. rewrite list_sum_cons1 in S.
      cbn [map]. rewrite list_sum_cons1, list_sum_nil1. unfold kw at 2. cbn [k_st k_anc k_file]. lia.
    - destruct (nth_error (k_ptasks st) t) as [[f anc [|[|g rest]| | | | |]]|] eqn:N; try discriminate.
      destruct (bad f); injection Hs as <-; unfold kmu;
        cbn [k_ptasks k_ctasks k_synclosed k_disp k_bld kset_pfail kset_ptasks].
      + pose proof (sum_set_nth_gen _ kw _ _ (mkK f anc KFail) _ N) as S.
        unfold kw in S at 2 4. cbn [k_st k_anc k_file map] in S. lia.
      + pose proof (sum_set_nth_gen _ kw _ _ (mkK f anc KRdy) _ N) as S.
        unfold kw in S at 2 4. cbn [k_st k_anc k_file map] in S. lia.
    - destruct (nth_error (k_ptasks st) t) as [[f anc [|[|g rest]| | | | |]]|] eqn:N; try discriminate.
      destruct (dstat_eqb (k_disp st) DRecv); [|discriminate].
      injection Hs as <-; unfold kmu; cbn [k_ptasks k_ctasks k_synclosed k_disp k_bld kset_ctasks kset_ptasks].
      pose proof (sum_set_nth_gen _ kw _ _ (mkK f anc KPushed) _ N) as S.
      unfold kw in S at 2 4. cbn [k_st k_anc k_file] in S.
      rewrite map_app, list_sum_app3. cbn [map]. rewrite list_sum_cons1, list_sum_nil1. unfold cw at 2. cbn [c_st]. lia.
    - destruct (nth_error (k_ptasks st) t) as [[f anc [|[|g rest]| | | | |]]|] eqn:N; try discriminate.
      destruct (k_pcancel st); [|discriminate].
      injection Hs as <-; unfold kmu; cbn [k_ptasks k_ctasks k_synclosed k_disp k_bld kset_ptasks].
      pose proof (sum_set_nth_gen _ kw _ _ (mkK f anc KCancel) _ N) as S.
      unfold kw in S at 2 4. cbn [k_st k_anc k_file] in S. lia.
    - destruct (negb (k_synclosed st) && forallb ktask_terminal (k_ptasks st)) eqn:C; [|discriminate].
      apply andb_true_iff in C. destruct C as [C _]. apply negb_true_iff in C.
      injection Hs as <-. unfold kmu. cbn [k_ptasks k_ctasks k_synclosed k_disp k_bld kadd_werrs kset_synclosed].
      rewrite C. simpl. lia.
    - destruct (dstat_eqb (k_disp st) DRecv && k_synclosed st) eqn:C; [|discriminate].
      apply andb_true_iff in C. destruct C as [C _]. apply dstat_eqb_eq in C.
      injection Hs as <-. unfold kmu. cbn [k_ptasks k_ctasks k_synclosed k_disp k_bld kset_disp].
      rewrite C. simpl. lia.
    - destruct (dstat_eqb (k_disp st) DWait && forallb ctask_terminal (k_ctasks st)) eqn:C; [|discriminate].
      apply andb_true_iff in C. destruct C as [C _]. apply dstat_eqb_eq in C.
      injection Hs as <-. unfold kmu. cbn [k_ptasks k_ctasks k_synclosed k_disp k_bld kadd_werrs kset_disp].
      rewrite C. simpl. lia.
    - destruct (nth_error (k_ctasks st) c) as [[f []]|] eqn:N; try discriminate.
      destruct (cbad f); injection Hs as <-; unfold kmu;
        cbn [k_ptasks k_ctasks k_synclosed k_disp k_bld kset_cfail kset_ctasks].
      + pose proof (sum_set_nth_gen _ cw _ _ (mkC f CFail) _ N) as S. unfold cw in S at 2 4; simpl in S; lia.
      + pose proof (sum_set_nth_gen _ cw _ _ (mkC f CRdy) _ N) as S. unfold cw in S at 2 4; simpl in S; lia.
    - destruct (nth_error (k_ctasks st) c) as [[f []]|] eqn:N; try discriminate.
      destruct (bstat_eqb (k_bld st) BRecv) eqn:B; [|discriminate]. apply bstat_eqb_eq in B.
      pose proof (sum_set_nth_gen _ cw _ _ (mkC f CPushed) _ N) as S. unfold cw in S at 2 4; simpl in S.
      destruct (abad f); injection Hs as <-; unfold kmu;
        cbn [k_ptasks k_ctasks k_synclosed k_disp k_bld kadd_werrs kset_bld kset_added kset_ctasks];
        rewrite B; simpl; lia.
    - destruct (nth_error (k_ctasks st) c) as [[f []]|] eqn:N; try discriminate.
      destruct (k_ccancel st); [|discriminate].
      injection Hs as <-; unfold kmu; cbn [k_ptasks k_ctasks k_synclosed k_disp k_bld kset_ctasks].
      pose proof (sum_set_nth_gen _ cw _ _ (mkC f CCancel) _ N) as S. unfold cw in S at 2 4; simpl in S; lia.
    - destruct (bstat_eqb (k_bld st) BRecv && dstat_eqb (k_disp st) DDone) eqn:C; [|discriminate].
      apply andb_true_iff in C. destruct C as [C _]. apply bstat_eqb_eq in C.
      injection Hs as <-. unfold kmu. cbn [k_ptasks k_ctasks k_synclosed k_disp k_bld kset_bld].
      rewrite C. simpl. lia.
  Qed.

  Lemma keffective_bound_from : forall sched st, KValid st -> keffective sched st <= kmu st.
  Proof.
    induction sched as [|l rest IH]; intros st HV; simpl; [lia|].
    destruct (kstep l st) as [st'|] eqn:S; [|apply IH; exact HV].
    pose proof (kstep_decreases l st st' HV S). specialize (IH st' (kstep_kvalid l st st' HV S)). lia.
  Qed.

  Lemma krun_kmu : forall sched st, KValid st -> kmu (krun sched st) <= kmu st.
  Proof.
    induction sched as [|l rest IH]; intros st HV; simpl; [lia|].
    unfold PipeFromPathCycle.kstep_or_stay. destruct (kstep l st) as [st'|] eqn:S; [|apply IH; exact HV].
    pose proof (kstep_decreases l st st' HV S). specialize (IH st' (kstep_kvalid l st st' HV S)). lia.
  Qed.

  Lemma kmu_init : forall root, kmu (kinit root) = 6 * length (all_visits inc univ root) + 3.
  Proof.
    intros root. rewrite (all_visits_Wk inc univ root). unfold kmu, PipeFromPathCycle.kinit.
    cbn [k_ptasks k_ctasks k_synclosed k_disp k_bld map]. unfold kw. cbn [k_st k_anc k_file].
    rewrite (nB_length [] root). simpl. lia.
  Qed.

  (* ================================================================ the code as it is: once = false *)
  Section CodeAsItIs.
  Hypothesis Honce : once = false.

  Notation cnt := (count_occ Nat.eq_dec).

  (* the visits that a parser task still stands for: itself unless it has been pushed, and the visits
     below the include directives it has not yet spawned a task for *)
  Definition kpend (t : ktask) : list visit :=
    match k_st t with
    | KNew => Wk (k_anc t) (k_file t)
    | KParsing rest => (k_anc t, k_file t) :: flat_map (Wk (k_anc t ++ [k_file t])) rest
    | KPushed => []
    | _ => [(k_anc t, k_file t)]
    end.
  Definition kfiles (t : ktask) : list nat := map snd (kpend t).
  Definition cycw (t : ktask) : nat := length (filter v_cyc (kpend t)).
  (* the visits a task accounts for: the pending ones, or its own when it has been pushed *)
  Definition tlen (t : ktask) : nat := match k_st t with KPushed => 1 | _ => length (kpend t) end.
  Definition kaddfail (es : list kwerr) : list nat :=
    flat_map (fun e => match e with KWAdd f => [f] | _ => [] end) es.
  (* a recorded error names a stage function that did fail; an include cycle names the chain of a
     visit below the root whose file is among its ancestors *)
  Definition werr_ok (root : nat) (e : kwerr) : Prop :=
    match e with
    | KWParse f => bad f = true
    | KWCycle c => exists anc f, c = anc ++ [f] /\ In (anc, f) (Wk [] root) /\ memn f anc = true
    | KWConv f => cbad f = true
    | KWAdd f => abad f = true
    end.

  Lemma werr_ok_genuine : forall root e, werr_ok root e -> kgenuine bad cbad abad e = true.
  Proof.
    intros root [f|c|f|f] H; simpl in *; auto. destruct H as (anc & f & -> & _ & M).
    rewrite rev_app_distr. cbn [rev app]. rewrite memn_rev. exact M.
  Qed.
  Definition is_add (e : kwerr) : bool := match e with KWAdd _ => true | _ => false end.

  Record KInv (root : nat) (st : kstate) : Prop := {
    Q_valid : KValid st;
    Q_tin : KTin root st;
    Q_count : forall x,
      cnt (k_added st ++ kaddfail (k_werrs st) ++ flat_map cpend (k_ctasks st) ++
           flat_map kfiles (k_ptasks st)) x = cnt (map snd (Wk [] root)) x;
    Q_cyc : list_sum (map cycw (k_ptasks st)) = length (filter v_cyc (Wk [] root));
    Q_len : list_sum (map tlen (k_ptasks st)) = length (Wk [] root);
    Q_closed : k_synclosed st = true -> forallb ktask_terminal (k_ptasks st) = true;
    Q_ddone : k_disp st = DDone -> forallb ctask_terminal (k_ctasks st) = true;
    Q_bdone : k_bld st = BDone -> k_disp st = DDone;
    Q_drain : k_disp st <> DRecv -> k_synclosed st = true;
    Q_bfail : k_bld st = BFail -> exists f, In (KWAdd f) (k_werrs st);
    Q_perrs : forall e, In e (k_perrs st) -> werr_ok root (werr_of_perr e);
    Q_cerrs : forall f, In f (k_cerrs st) -> cbad f = true;
    Q_werrs : forall e, In e (k_werrs st) -> werr_ok root e;
    Q_pclean : k_perrs st = [] ->
      k_pcancel st = false /\ forall t, In t (k_ptasks st) -> k_st t <> KFail /\ k_st t <> KCancel;
    Q_noskip : forall t, In t (k_ptasks st) -> k_st t <> KSkip;
    Q_cclean : k_cerrs st = [] ->
      k_ccancel st = false /\ forall c, In c (k_ctasks st) -> c_st c <> CFail /\ c_st c <> CCancel;
    Q_wparse : k_werrs st = [] -> k_synclosed st = true -> k_perrs st = [];
    Q_wconv : k_werrs st = [] -> k_disp st = DDone -> k_cerrs st = [];
    Q_wopen : k_synclosed st = false -> forallb is_add (k_werrs st) = true;
    Q_wfirst : k_synclosed st = true -> k_perrs st <> [] ->
      exists pre e rest, k_werrs st = pre ++ e :: rest /\ parser_stage e = true /\ forallb is_add pre = true
  }.

  Lemma kinv_init : forall root, In root univ -> KInv root (kinit root).
  Proof.
    intros root Hr. constructor; simpl; try discriminate; try contradiction; auto.
    - apply kvalid_init. exact Hr.
    - apply ktin_init.
    - intros x. unfold kfiles, kpend. simpl. rewrite app_nil_r. reflexivity.
    - intros _. split; [reflexivity|]. intros t [<-|[]]. simpl. split; discriminate.
    - intros t [<-|[]]. simpl. discriminate.
  Qed.

  Lemma kaddfail_app : forall a b, kaddfail (a ++ b) = kaddfail a ++ kaddfail b.
  Proof. intros. unfold kaddfail. apply flat_map_app. Qed.
  Lemma kaddfail_first_perr : forall l, kaddfail (first_perr l) = [].
  Proof. destruct l as [|[] l]; reflexivity. Qed.
  Lemma kaddfail_first_cerr : forall l, kaddfail (first_cerr l) = [].
  Proof. destruct l; reflexivity. Qed.

  Lemma in_first_perr : forall l e, In e (first_perr l) -> exists p, e = werr_of_perr p /\ In p l.
  Proof. intros [|p l] e H; simpl in H; [contradiction|]. destruct H as [<-|[]]. exists p. simpl. auto. Qed.
  Lemma in_first_cerr : forall l e, In e (first_cerr l) -> exists f, e = KWConv f /\ In f l.
  Proof. intros [|f l] e H; simpl in H; [contradiction|]. destruct H as [<-|[]]. exists f. simpl. auto. Qed.
  Lemma first_perr_nil : forall l, first_perr l = [] -> l = [].
  Proof. intros [|f l] H; [reflexivity|discriminate]. Qed.
  Lemma first_cerr_nil : forall l, first_cerr l = [] -> l = [].
  Proof. intros [|f l] H; [reflexivity|discriminate]. Qed.

  Lemma kterm_contra : forall l t f anc s, forallb ktask_terminal l = true ->
    nth_error l t = Some (mkK f anc s) -> ktask_terminal (mkK f anc s) = false -> False.
  Proof. intros l t f anc s F N T. pose proof (forallb_nth _ _ _ _ _ F N). congruence. Qed.

  (* replacing a task by one that stands for the same visits changes neither census *)
  Lemma set_same_pend : forall l t v old, nth_error l t = Some old -> kpend v = kpend old ->
    k_st v <> KPushed -> k_st old <> KPushed ->
    (forall x, cnt (flat_map kfiles (set_nth l t v)) x = cnt (flat_map kfiles l) x) /\
    list_sum (map cycw (set_nth l t v)) = list_sum (map cycw l) /\
    list_sum (map tlen (set_nth l t v)) = list_sum (map tlen l).
  Proof.
    intros l t v old N E P1 P2. split; [|split].
    3:{ pose proof (sum_set_nth_gen _ tlen _ _ v _ N) as S.
        assert (T : tlen v = tlen old).
        { unfold tlen. rewrite E. destruct (k_st v); try congruence; destruct (k_st old); congruence. }
        rewrite T in S. lia. }
    - intros x. pose proof (cnt_set_nth_gen _ kfiles _ _ v _ x N) as S. unfold kfiles in S at 2 4.
      rewrite E in S. lia.
    - pose proof (sum_set_nth_gen _ cycw _ _ v _ N) as S. unfold cycw in S at 2 4. rewrite E in S. lia.
  Qed.

  Lemma forallb_is_add_app : forall a b, forallb is_add (a ++ b) = forallb is_add a && forallb is_add b.
  Proof. intros. apply forallb_app. Qed.

  Ltac kred := cbn [k_ptasks k_claimed k_pcancel k_perrs k_synclosed k_disp k_ctasks k_ccancel k_cerrs k_bld
                    k_added k_werrs kset_ptasks kset_claimed kset_pfail kset_ctasks kset_cfail kset_disp
                    kset_bld kset_added kadd_werrs kset_synclosed].
  Ltac inset H := apply in_set_nth' in H; destruct H as [->|H].

  Lemma kstep_kinv : forall root l st st', In root univ -> KInv root st -> kstep l st = Some st' -> KInv root st'.
  Proof.
    intros root l st st' Hr HI Hs.
    assert (HV' : KValid st') by (eapply kstep_kvalid; [apply (Q_valid _ _ HI)|exact Hs]).
    assert (HT' : KTin root st') by (eapply kstep_tin; [exact Hr|apply (Q_valid _ _ HI)|apply (Q_tin _ _ HI)|exact Hs]).
    destruct HI as [Hvalid Htin Hcount Hcyc Hlen Hclosed' Hddone Hbdone Hdrain Hbfail Hperrs Hcerrs Hwerrs Hpclean Hnoskip
                    Hcclean Hwparse Hwconv Hwopen Hwfirst].
    destruct l as [t|t|t|t|t| | | |c|c|c| ]; simpl in Hs.
    - (* KStart *)
      destruct (nth_error (k_ptasks st) t) as [[f anc []]|] eqn:N; try discriminate.
      pose proof (Hvalid _ (nth_error_In _ _ N)) as [V _]. cbn [k_anc k_file] in V.
      rewrite Honce in Hs. cbn [andb] in Hs.
      pose proof (Wk_unfold inc univ anc f V) as U.
      destruct (memn f anc) eqn:M; injection Hs as <-.
      + destruct (set_same_pend _ _ (mkK f anc KFail) _ N) as (S1 & S2 & S3);
          [|cbn [k_st]; discriminate|cbn [k_st]; discriminate|].
        { unfold kpend. cbn [k_st k_anc k_file]. symmetry. exact U. }
        constructor; kred; auto.
        * intros x. rewrite <- (Hcount x). rewrite !count_occ_app, S1. reflexivity.
        * rewrite S2. exact Hcyc.
        * rewrite S3. exact Hlen.
        * intros C. exfalso. apply (kterm_contra _ _ _ _ _ (Hclosed' C) N). reflexivity.
        * intros e He. apply in_app_or in He. destruct He as [He|[<-|[]]]; [auto|].
          cbn [werr_of_perr werr_ok]. exists anc, f. split; [reflexivity|]. split; [|exact M].
          apply (Htin _ (nth_error_In _ _ N)).
        * intros Pe. destruct (k_perrs st); discriminate.
        * intros t' Ht'. inset Ht'; [cbn [k_st]; discriminate|auto].
        * intros _ C. exfalso. apply (kterm_contra _ _ _ _ _ (Hclosed' C) N). reflexivity.
        * intros C. exfalso. apply (kterm_contra _ _ _ _ _ (Hclosed' C) N). reflexivity.
      + destruct (set_same_pend _ _ (mkK f anc (KParsing (inc f))) _ N) as (S1 & S2 & S3);
          [|cbn [k_st]; discriminate|cbn [k_st]; discriminate|].
        { unfold kpend. cbn [k_st k_anc k_file]. symmetry. exact U. }
        constructor; kred; auto.
        * intros x. rewrite <- (Hcount x). rewrite !count_occ_app, S1. reflexivity.
        * rewrite S2. exact Hcyc.
        * rewrite S3. exact Hlen.
        * intros C. exfalso. apply (kterm_contra _ _ _ _ _ (Hclosed' C) N). reflexivity.
        * intros Pe. destruct (Hpclean Pe) as [A B]. split; [exact A|].
          intros t' Ht'. inset Ht'; [cbn [k_st]; split; discriminate|auto].
        * intros t' Ht'. inset Ht'; [cbn [k_st]; discriminate|auto].
    - (* KSpawn *)
      destruct (nth_error (k_ptasks st) t) as [[f anc [|[|g rest]| | | | |]]|] eqn:N; try discriminate.
      injection Hs as <-. constructor; kred; auto.
      + intros x. rewrite <- (Hcount x).
        pose proof (cnt_set_nth_gen _ kfiles _ _ (mkK f anc (KParsing rest)) _ x N) as S.
        unfold kfiles in S at 2 4. unfold kpend in S. cbn [k_st k_anc k_file flat_map map snd] in S.
        rewrite map_app in S. cbn [count_occ] in S. rewrite count_occ_app in S.
        rewrite flat_map_app. cbn [flat_map]. rewrite app_nil_r. unfold kfiles at 2. unfold kpend.
        cbn [k_st k_anc k_file]. rewrite !count_occ_app.
        unfold visit in *. revert S. destruct (Nat.eq_dec f x); intros S; lia.
      + rewrite <- Hcyc.
        pose proof (sum_set_nth_gen _ cycw _ _ (mkK f anc (KParsing rest)) _ N) as S.
        unfold cycw in S at 2 4. unfold kpend in S. cbn [k_st k_anc k_file flat_map] in S.
        cbn [filter] in S. rewrite !filter_app in S.
        rewrite map_app, list_sum_app3. cbn [map]. rewrite list_sum_cons1, list_sum_nil1.
        unfold cycw at 2. unfold kpend. cbn [k_st k_anc k_file].
        destruct (v_cyc (anc, f)); cbn [length] in S; rewrite ?app_length in S; lia.
      + rewrite <- Hlen.
        pose proof (sum_set_nth_gen _ tlen _ _ (mkK f anc (KParsing rest)) _ N) as S.
        unfold tlen in S at 2 4. unfold kpend in S. cbn [k_st k_anc k_file flat_map length] in S.
        rewrite app_length in S.
        rewrite map_app, list_sum_app3. cbn [map]. rewrite list_sum_cons1, list_sum_nil1.
        unfold tlen at 2. unfold kpend. cbn [k_st k_anc k_file]. lia.
      + intros C. exfalso. apply (kterm_contra _ _ _ _ _ (Hclosed' C) N). reflexivity.
      + intros Pe. destruct (Hpclean Pe) as [A B]. split; [exact A|].
        intros t' Ht'. apply in_app_or in Ht'. destruct Ht' as [Ht'|[<-|[]]].
        * inset Ht'; [cbn [k_st]; split; discriminate|auto].
        * cbn [k_st]; split; discriminate.
      + intros t' Ht'. apply in_app_or in Ht'. destruct Ht' as [Ht'|[<-|[]]].
        * inset Ht'; [cbn [k_st]; discriminate|auto].
        * cbn [k_st]; discriminate.
    - (* KParsed *)
      destruct (nth_error (k_ptasks st) t) as [[f anc [|[|g rest]| | | | |]]|] eqn:N; try discriminate.
      destruct (bad f) eqn:Bf; injection Hs as <-.
      + destruct (set_same_pend _ _ (mkK f anc KFail) _ N) as (S1 & S2 & S3); [reflexivity|cbn [k_st]; discriminate|cbn [k_st]; discriminate|].
        constructor; kred; auto.
        * intros x. rewrite <- (Hcount x). rewrite !count_occ_app, S1. reflexivity.
        * rewrite S2. exact Hcyc.
        * rewrite S3. exact Hlen.
        * intros C. exfalso. apply (kterm_contra _ _ _ _ _ (Hclosed' C) N). reflexivity.
        * intros e He. apply in_app_or in He. destruct He as [He|[<-|[]]]; [auto|]. exact Bf.
        * intros Pe. destruct (k_perrs st); discriminate.
        * intros t' Ht'. inset Ht'; [cbn [k_st]; discriminate|auto].
        * intros _ C. exfalso. apply (kterm_contra _ _ _ _ _ (Hclosed' C) N). reflexivity.
        * intros C. exfalso. apply (kterm_contra _ _ _ _ _ (Hclosed' C) N). reflexivity.
      + destruct (set_same_pend _ _ (mkK f anc KRdy) _ N) as (S1 & S2 & S3); [reflexivity|cbn [k_st]; discriminate|cbn [k_st]; discriminate|].
        constructor; kred; auto.
        * intros x. rewrite <- (Hcount x). rewrite !count_occ_app, S1. reflexivity.
        * rewrite S2. exact Hcyc.
        * rewrite S3. exact Hlen.
        * intros C. exfalso. apply (kterm_contra _ _ _ _ _ (Hclosed' C) N). reflexivity.
        * intros Pe. destruct (Hpclean Pe) as [A B]. split; [exact A|].
          intros t' Ht'. inset Ht'; [cbn [k_st]; split; discriminate|auto].
        * intros t' Ht'. inset Ht'; [cbn [k_st]; discriminate|auto].
    - (* KPush *)
      destruct (nth_error (k_ptasks st) t) as [[f anc [|[|g rest]| | | | |]]|] eqn:N; try discriminate.
      pose proof (Hvalid _ (nth_error_In _ _ N)) as [_ M]. cbn [k_anc k_file k_st] in M.
      destruct (dstat_eqb (k_disp st) DRecv) eqn:D; [|discriminate]. apply dstat_eqb_eq in D.
      injection Hs as <-; constructor; kred; auto.
      + intros x. rewrite <- (Hcount x).
        pose proof (cnt_set_nth_gen _ kfiles _ _ (mkK f anc KPushed) _ x N) as S.
        unfold kfiles in S at 2 4. unfold kpend in S. cbn [k_st k_anc k_file map snd] in S.
        rewrite flat_map_app. cbn [flat_map]. rewrite !count_occ_app in *.
        unfold cpend at 2. cbn [c_st c_file app]. change (cnt [] x) with 0 in *. lia.
      + rewrite <- Hcyc.
        pose proof (sum_set_nth_gen _ cycw _ _ (mkK f anc KPushed) _ N) as S.
        unfold cycw in S at 2 4. unfold kpend in S. cbn [k_st k_anc k_file filter] in S.
        unfold v_cyc in S. cbn [fst snd] in S. rewrite M in S. cbn [length] in S. lia.
      + rewrite <- Hlen.
        pose proof (sum_set_nth_gen _ tlen _ _ (mkK f anc KPushed) _ N) as S.
        unfold tlen in S at 2 4. unfold kpend in S. cbn [k_st k_anc k_file length] in S. lia.
      + intros C. exfalso. apply (kterm_contra _ _ _ _ _ (Hclosed' C) N). reflexivity.
      + intros C. congruence.
      + intros Pe. destruct (Hpclean Pe) as [A B]. split; [exact A|].
        intros t' Ht'. inset Ht'; [cbn [k_st]; split; discriminate|auto].
      + intros t' Ht'. inset Ht'; [cbn [k_st]; discriminate|auto].
      + intros Ce. destruct (Hcclean Ce) as [A B]. split; [exact A|].
        intros c' Hc'. apply in_app_or in Hc'. destruct Hc' as [Hc'|[<-|[]]]; [auto|simpl; split; discriminate].
    - (* KObserve *)
      destruct (nth_error (k_ptasks st) t) as [[f anc [|[|g rest]| | | | |]]|] eqn:N; try discriminate.
      destruct (k_pcancel st) eqn:Pc; [|discriminate].
      injection Hs as <-.
      destruct (set_same_pend _ _ (mkK f anc KCancel) _ N) as (S1 & S2 & S3); [reflexivity|cbn [k_st]; discriminate|cbn [k_st]; discriminate|].
      constructor; kred; auto.
      + intros x. rewrite <- (Hcount x). rewrite !count_occ_app, S1. reflexivity.
      + rewrite S2. exact Hcyc.
      + rewrite S3. exact Hlen.
      + intros C. exfalso. apply (kterm_contra _ _ _ _ _ (Hclosed' C) N). reflexivity.
      + intros Pe. destruct (Hpclean Pe) as [A B]. congruence.
      + intros t' Ht'. inset Ht'; [cbn [k_st]; discriminate|auto].
    - (* KClose *)
      destruct (negb (k_synclosed st) && forallb ktask_terminal (k_ptasks st)) eqn:C; [|discriminate].
      apply andb_true_iff in C. destruct C as [C1 C2]. apply negb_true_iff in C1.
      injection Hs as <-; constructor; kred; auto.
      + intros x. rewrite kaddfail_app, kaddfail_first_perr, app_nil_r. apply Hcount.
      + intros B. destruct (Hbfail B) as (f & Hf). exists f. apply in_or_app. auto.
      + intros e He. apply in_app_or in He. destruct He as [He|He]; [auto|].
        apply in_first_perr in He. destruct He as (p & -> & Hp). apply (Hperrs p Hp).
      + intros We _. apply app_eq_nil in We. destruct We as [_ We]. eapply first_perr_nil; eassumption.
      + intros We. apply app_eq_nil in We. destruct We as [We _]. auto.
      + discriminate.
      + intros _ Pe. destruct (k_perrs st) as [|p ps] eqn:Ep; [contradiction|].
        exists (k_werrs st), (werr_of_perr p), []. split; [reflexivity|]. split; [destruct p; reflexivity|].
        apply Hwopen. exact C1.
    - (* KDEnd *)
      destruct (dstat_eqb (k_disp st) DRecv && k_synclosed st) eqn:C; [|discriminate].
      apply andb_true_iff in C. destruct C as [C1 C2]. apply dstat_eqb_eq in C1.
      injection Hs as <-; constructor; kred; auto; try discriminate.
      + intros B. specialize (Hbdone B). congruence.
    - (* KDRet *)
      destruct (dstat_eqb (k_disp st) DWait && forallb ctask_terminal (k_ctasks st)) eqn:C; [|discriminate].
      apply andb_true_iff in C. destruct C as [C1 C2]. apply dstat_eqb_eq in C1.
      assert (SC : k_synclosed st = true) by (apply Hdrain; rewrite C1; discriminate).
      injection Hs as <-; constructor; kred; auto.
      + intros x. rewrite kaddfail_app, kaddfail_first_cerr, app_nil_r. apply Hcount.
      + intros B. destruct (Hbfail B) as (f & Hf). exists f. apply in_or_app. auto.
      + intros e He. apply in_app_or in He. destruct He as [He|He]; [auto|].
        apply in_first_cerr in He. destruct He as (f & -> & Hf). cbn [werr_ok]. auto.
      + intros We. apply app_eq_nil in We. destruct We as [We _]. auto.
      + intros We _. apply app_eq_nil in We. destruct We as [_ We]. eapply first_cerr_nil; eassumption.
      + intros C. congruence.
      + intros C Pe. destruct (Hwfirst C Pe) as (pre & e & rest & E & Pg & Fa).
        exists pre, e, (rest ++ first_cerr (k_cerrs st)). rewrite E, <- app_assoc. auto.
    - (* KCConv *)
      destruct (nth_error (k_ctasks st) c) as [[f []]|] eqn:N; try discriminate.
      destruct (cbad f) eqn:Bf; injection Hs as <-; constructor; kred; auto.
      + intros x. rewrite <- (Hcount x).
        pose proof (cnt_set_nth_gen _ cpend _ _ (mkC f CFail) _ x N) as S.
        rewrite !count_occ_app in *. unfold cpend at 2 4 in S. simpl in S. lia.
      + intros D. exfalso. apply (cterm_contra _ _ _ _ (Hddone D) N). reflexivity.
      + intros f' Hf'. apply in_app_or in Hf'. destruct Hf' as [Hf'|[<-|[]]]; auto.
      + intros Ce. destruct (k_cerrs st); discriminate.
      + intros _ D. exfalso. apply (cterm_contra _ _ _ _ (Hddone D) N). reflexivity.
      + intros x. rewrite <- (Hcount x).
        pose proof (cnt_set_nth_gen _ cpend _ _ (mkC f CRdy) _ x N) as S.
        rewrite !count_occ_app in *. unfold cpend at 2 4 in S. simpl in S. lia.
      + intros D. exfalso. apply (cterm_contra _ _ _ _ (Hddone D) N). reflexivity.
      + intros Ce. destruct (Hcclean Ce) as [A B]. split; [exact A|].
        intros c' Hc'. inset Hc'; [simpl; split; discriminate|auto].
    - (* KCPush *)
      destruct (nth_error (k_ctasks st) c) as [[f []]|] eqn:N; try discriminate.
      destruct (bstat_eqb (k_bld st) BRecv) eqn:B; [|discriminate]. apply bstat_eqb_eq in B.
      destruct (abad f) eqn:Af; injection Hs as <-; constructor; kred; auto; try discriminate.
      + intros x. rewrite <- (Hcount x).
        pose proof (cnt_set_nth_gen _ cpend _ _ (mkC f CPushed) _ x N) as S.
        rewrite kaddfail_app. cbn [kaddfail flat_map]. rewrite !count_occ_app in *.
        unfold cpend at 2 4 in S. simpl in S. simpl. destruct (Nat.eq_dec f x); lia.
      + intros D. exfalso. apply (cterm_contra _ _ _ _ (Hddone D) N). reflexivity.
      + intros _. exists f. apply in_or_app. right. left. reflexivity.
      + intros e He. apply in_app_or in He. destruct He as [He|[<-|[]]]; [auto|]. cbn [werr_ok]. exact Af.
      + intros Ce. destruct (Hcclean Ce) as [A B']. split; [exact A|].
        intros c' Hc'. inset Hc'; [simpl; split; discriminate|auto].
      + intros We. destruct (k_werrs st); discriminate.
      + intros We. destruct (k_werrs st); discriminate.
      + intros C. rewrite forallb_is_add_app, (Hwopen C). reflexivity.
      + intros C Pe. destruct (Hwfirst C Pe) as (pre & e & rest & E & Pg & Fa).
        exists pre, e, (rest ++ [KWAdd f]). rewrite E, <- app_assoc. auto.
      + intros x. rewrite <- (Hcount x).
        pose proof (cnt_set_nth_gen _ cpend _ _ (mkC f CPushed) _ x N) as S.
        rewrite !count_occ_app in *.
        unfold cpend at 2 4 in S. simpl in S. simpl. destruct (Nat.eq_dec f x); lia.
      + intros D. exfalso. apply (cterm_contra _ _ _ _ (Hddone D) N). reflexivity.
      + intros Ce. destruct (Hcclean Ce) as [A B']. split; [exact A|].
        intros c' Hc'. inset Hc'; [simpl; split; discriminate|auto].
    - (* KCObserve *)
      destruct (nth_error (k_ctasks st) c) as [[f []]|] eqn:N; try discriminate.
      destruct (k_ccancel st) eqn:Cc; [|discriminate].
      injection Hs as <-; constructor; kred; auto.
      + intros x. rewrite <- (Hcount x).
        pose proof (cnt_set_nth_gen _ cpend _ _ (mkC f CCancel) _ x N) as S.
        rewrite !count_occ_app in *. unfold cpend at 2 4 in S. simpl in S. lia.
      + intros D. exfalso. apply (cterm_contra _ _ _ _ (Hddone D) N). reflexivity.
      + intros Ce. destruct (Hcclean Ce) as [A B]. congruence.
    - (* KBEnd *)
      destruct (bstat_eqb (k_bld st) BRecv && dstat_eqb (k_disp st) DDone) eqn:C; [|discriminate].
      apply andb_true_iff in C. destruct C as [C1 C2]. apply bstat_eqb_eq in C1. apply dstat_eqb_eq in C2.
      injection Hs as <-; constructor; kred; auto; try discriminate.
  Qed.

  Lemma krun_kinv : forall root sched st, In root univ -> KInv root st -> KInv root (krun sched st).
  Proof.
    intros root sched st Hr. revert st. induction sched as [|l rest IH]; intros st HI; simpl; [assumption|].
    apply IH. unfold PipeFromPathCycle.kstep_or_stay. destruct (kstep l st) eqn:S; [|assumption].
    eapply kstep_kinv; eassumption.
  Qed.

  Lemma reachable_kinv : forall root sched, In root univ -> KInv root (krun sched (kinit root)).
  Proof. intros. apply krun_kinv; [assumption|]. apply kinv_init. assumption. Qed.

  (* ---------------------------------------------------------------- deadlock freedom, draining *)
  Lemma in_klabels_p : forall st t l, t < length (k_ptasks st) ->
    In l [KStart t; KSpawn t; KParsed t; KPush t; KObserve t] -> In l (klabels st).
  Proof.
    intros st t l Ht Hl. unfold klabels. apply in_or_app. left.
    apply in_flat_map. exists t. split; [apply in_seq; lia | exact Hl].
  Qed.

  Lemma in_klabels_c : forall st c l, c < length (k_ctasks st) ->
    In l [KCConv c; KCPush c; KCObserve c] -> In l (klabels st).
  Proof.
    intros st c l Hc Hl. unfold klabels. apply in_or_app. right. apply in_or_app. right.
    apply in_flat_map. exists c. split; [apply in_seq; lia | exact Hl].
  Qed.

  Lemma in_klabels_g : forall st l, In l [KClose; KDEnd; KDRet; KBEnd] -> In l (klabels st).
  Proof. intros st l Hl. unfold klabels. apply in_or_app. right. apply in_or_app. left. exact Hl. Qed.

  (* with a builder that does not fail: a state in which some worker has not returned has an enabled
     label - on every finite include graph, whatever fails in the parsers and in the conversion *)
  Lemma kdeadlock_free : forall root st, KInv root st -> (forall f, abad f = false) ->
    kfinished st = false -> exists l, In l (klabels st) /\ kenabled st l = true.
  Proof.
    intros root st HI Ha F.
    destruct (forallb ktask_terminal (k_ptasks st)) eqn:PT.
    2:{ destruct (forallb_false_nth _ _ _ PT) as (t & [f anc s] & N & Q).
        pose proof (nth_error_lt _ _ _ _ N) as Lt.
        destruct s as [|[|g rest]| | | | |]; try discriminate Q.
        - exists (KStart t). split; [apply (in_klabels_p st t); simpl; auto|].
          unfold PipeFromPathCycle.kenabled. simpl. rewrite N, Honce. simpl. destruct (memn f anc); reflexivity.
        - exists (KParsed t). split; [apply (in_klabels_p st t); simpl; auto|].
          unfold PipeFromPathCycle.kenabled. simpl. rewrite N. destruct (bad f); reflexivity.
        - exists (KSpawn t). split; [apply (in_klabels_p st t); simpl; auto|].
          unfold PipeFromPathCycle.kenabled. simpl. rewrite N. reflexivity.
        - assert (D : k_disp st = DRecv).
          { destruct (k_disp st) eqn:D; [reflexivity| |];
              (assert (C : k_synclosed st = true) by (apply (Q_drain _ _ HI); rewrite D; discriminate));
              pose proof (Q_closed _ _ HI C); congruence. }
          exists (KPush t). split; [apply (in_klabels_p st t); simpl; auto 6|].
          unfold PipeFromPathCycle.kenabled. simpl. rewrite N, D. reflexivity. }
    destruct (k_synclosed st) eqn:SC.
    2:{ exists KClose. split; [apply in_klabels_g; simpl; auto|].
        unfold PipeFromPathCycle.kenabled. simpl. rewrite SC, PT. reflexivity. }
    destruct (k_disp st) eqn:D.
    - exists KDEnd. split; [apply in_klabels_g; simpl; auto|].
      unfold PipeFromPathCycle.kenabled. simpl. rewrite D, SC. reflexivity.
    - destruct (forallb ctask_terminal (k_ctasks st)) eqn:CT.
      2:{ destruct (forallb_false_nth _ _ _ CT) as (c & [f s] & N & Q).
          pose proof (nth_error_lt _ _ _ _ N) as Lt.
          destruct s; try discriminate Q.
          - exists (KCConv c). split; [apply (in_klabels_c st c); simpl; auto|].
            unfold PipeFromPathCycle.kenabled. simpl. rewrite N. destruct (cbad f); reflexivity.
          - assert (B : k_bld st = BRecv).
            { destruct (k_bld st) eqn:B; [reflexivity| |].
              - pose proof (Q_bdone _ _ HI B). congruence.
              - destruct (Q_bfail _ _ HI B) as (f' & Hf'). pose proof (Q_werrs _ _ HI _ Hf') as G.
                cbn [werr_ok] in G. rewrite Ha in G. discriminate. }
            exists (KCPush c). split; [apply (in_klabels_c st c); simpl; auto|].
            unfold PipeFromPathCycle.kenabled. simpl. rewrite N, B. simpl. destruct (abad f); reflexivity. }
      exists KDRet. split; [apply in_klabels_g; simpl; auto|].
      unfold PipeFromPathCycle.kenabled. simpl. rewrite D, CT. reflexivity.
    - unfold kfinished in F. rewrite SC, D in F. simpl in F. apply negb_false_iff in F.
      apply bstat_eqb_eq in F.
      exists KBEnd. split; [apply in_klabels_g; simpl; auto 6|].
      unfold PipeFromPathCycle.kenabled. simpl. rewrite F, D. reflexivity.
  Qed.

  Lemma kenabled_step : forall st l, kenabled st l = true -> exists st', kstep l st = Some st'.
  Proof. intros st l H. unfold PipeFromPathCycle.kenabled in H. destruct (kstep l st) as [st'|]; [eauto|discriminate]. Qed.

  Lemma kdrain_finishes_from : forall root fuel st, In root univ -> KInv root st ->
    (forall f, abad f = false) -> kmu st <= fuel -> kfinished (kdrain fuel st) = true.
  Proof.
    intros root fuel st Hr. revert st. induction fuel as [|fuel IH]; intros st HI Ha Hm.
    - simpl. destruct (kfinished st) eqn:F; [reflexivity|]. exfalso.
      destruct (kdeadlock_free root st HI Ha F) as (l & _ & En).
      destruct (kenabled_step st l En) as (st' & S).
      pose proof (kstep_decreases l st st' (Q_valid _ _ HI) S). lia.
    - simpl. destruct (kpick st) as [l|] eqn:P.
      + unfold PipeFromPathCycle.kpick in P. apply find_some in P. destruct P as [_ En].
        destruct (kenabled_step st l En) as (st' & S).
        unfold PipeFromPathCycle.kstep_or_stay. rewrite S.
        apply IH; auto; [eapply kstep_kinv; eassumption|].
        pose proof (kstep_decreases l st st' (Q_valid _ _ HI) S). lia.
      + destruct (kfinished st) eqn:F; [reflexivity|]. exfalso.
        destruct (kdeadlock_free root st HI Ha F) as (l & Hin & En).
        unfold PipeFromPathCycle.kpick in P. pose proof (find_none _ _ P l Hin). congruence.
  Qed.

  (* ---------------------------------------------------------------- outcomes *)
  Lemma kfinished_spec : forall st, kfinished st = true ->
    k_synclosed st = true /\ k_disp st = DDone /\ k_bld st <> BRecv.
  Proof.
    intros st F. unfold kfinished in F. apply andb_true_iff in F. destruct F as [F F3].
    apply andb_true_iff in F. destruct F as [F1 F2]. apply dstat_eqb_eq in F2.
    apply negb_true_iff in F3. repeat split; auto. intros B. rewrite B in F3. discriminate.
  Qed.

  (* all parser tasks have pushed their file: no visit is pending *)
  Lemma terminal_kpend_nil : forall l, forallb ktask_terminal l = true ->
    (forall t, In t l -> k_st t <> KFail /\ k_st t <> KCancel) -> (forall t, In t l -> k_st t <> KSkip) ->
    flat_map kfiles l = [] /\ list_sum (map cycw l) = 0.
  Proof.
    induction l as [|[f anc s] l IH]; intros F L K; simpl in *; [auto|].
    apply andb_true_iff in F. destruct F as [F1 F2].
    destruct (IH F2 ltac:(intros; apply L; right; assumption) ltac:(intros; apply K; right; assumption)) as [A B].
    rewrite A, B.
    destruct (L (mkK f anc s) (or_introl eq_refl)) as [A' B']. pose proof (K (mkK f anc s) (or_introl eq_refl)) as C'.
    simpl in A', B', C'. unfold ktask_terminal in F1. simpl in F1. unfold kfiles, cycw, kpend. simpl.
    destruct s; try discriminate; try congruence; auto.
  Qed.

  (* when the parser stage has returned without an error, no visit of the graph closes a cycle *)
  Lemma closed_clean_acyclic : forall root st, KInv root st -> k_synclosed st = true -> k_perrs st = [] ->
    filter v_cyc (Wk [] root) = [] /\ flat_map kfiles (k_ptasks st) = [].
  Proof.
    intros root st HI SC Pe. destruct (Q_pclean _ _ HI Pe) as [_ Pl].
    destruct (terminal_kpend_nil _ (Q_closed _ _ HI SC) Pl (Q_noskip _ _ HI)) as [A B]. split; [|exact A].
    pose proof (Q_cyc _ _ HI) as C. rewrite B in C. destruct (filter v_cyc (Wk [] root)); [reflexivity|discriminate].
  Qed.

  (* FromPath returns without error: every visit is a simple path, and the file of every visit has
     been parsed, converted and added to the builder exactly once - whatever the oracles are *)
  Lemma kfinished_success : forall root st, KInv root st -> kfinished st = true -> k_werrs st = [] ->
    Permutation (k_added st) (map snd (Wk [] root)) /\ filter v_cyc (Wk [] root) = [] /\
    k_bld st = BDone /\ k_perrs st = [] /\ k_cerrs st = [] /\ k_pcancel st = false /\ k_ccancel st = false.
  Proof.
    intros root st HI F We. destruct (kfinished_spec st F) as (SC & D & B).
    pose proof (Q_wparse _ _ HI We SC) as Pe. pose proof (Q_wconv _ _ HI We D) as Ce.
    destruct (Q_pclean _ _ HI Pe) as [Pc Pl]. destruct (Q_cclean _ _ HI Ce) as [Cc Cl].
    destruct (closed_clean_acyclic root st HI SC Pe) as [Ac Kn].
    assert (BD : k_bld st = BDone).
    { destruct (k_bld st) eqn:Bs; [congruence|reflexivity|].
      destruct (Q_bfail _ _ HI Bs) as (f & Hf). rewrite We in Hf. contradiction. }
    repeat split; auto.
    apply (Permutation_count_occ Nat.eq_dec). intros x. rewrite <- (Q_count _ _ HI x).
    rewrite We, Kn, (terminal_cpend_nil _ (Q_ddone _ _ HI D) Cl).
    simpl. rewrite app_nil_r. reflexivity.
  Qed.

  (* a visit that closes a cycle makes some parser task fail, and with a builder that does not fail
     the first error of the outer pool - which FromPath returns - is an error of the parser stage *)
  Lemma kcycle_reported : forall root st, KInv root st -> (forall f, abad f = false) -> k_synclosed st = true ->
    filter v_cyc (Wk [] root) <> [] ->
    exists e rest, k_werrs st = e :: rest /\ parser_stage e = true /\ kgenuine bad cbad abad e = true.
  Proof.
    intros root st HI Ha SC Cy.
    assert (Pe : k_perrs st <> []).
    { intros Pe. destruct (closed_clean_acyclic root st HI SC Pe) as [Ac _]. contradiction. }
    destruct (Q_wfirst _ _ HI SC Pe) as (pre & e & rest & E & Pg & Fa).
    destruct pre as [|a pre].
    - exists e, rest. split; [exact E|]. split; [exact Pg|].
      apply (werr_ok_genuine root). apply (Q_werrs _ _ HI). rewrite E. left. reflexivity.
    - exfalso. simpl in Fa. apply andb_true_iff in Fa. destruct Fa as [Fa _].
      destruct a; try discriminate. pose proof (Q_werrs _ _ HI (KWAdd f)) as G. rewrite E in G.
      specialize (G (or_introl eq_refl)). cbn [werr_ok] in G. rewrite Ha in G. discriminate.
  Qed.

  (* any failure is reported, and every reported error names a stage function that did fail *)
  Lemma kfailure_reported : forall root st, KInv root st -> kfinished st = true ->
    (exists t, In t (k_ptasks st) /\ k_st t = KFail) \/
    (exists c, In c (k_ctasks st) /\ c_st c = CFail) \/ k_bld st = BFail ->
    exists e rest, k_werrs st = e :: rest /\ kgenuine bad cbad abad e = true.
  Proof.
    intros root st HI F Hf. destruct (k_werrs st) as [|e rest] eqn:We.
    - exfalso. destruct (kfinished_success root st HI F We) as (_ & _ & BD & Pe & Ce & _).
      destruct Hf as [(t & Ht & Pt)|[(c & Hc & Pc)|Bf]].
      + destruct (Q_pclean _ _ HI Pe) as [_ Pl]. destruct (Pl t Ht). congruence.
      + destruct (Q_cclean _ _ HI Ce) as [_ Cl]. destruct (Cl c Hc). congruence.
      + congruence.
    - exists e, rest. split; [reflexivity|]. apply (werr_ok_genuine root). apply (Q_werrs _ _ HI). rewrite We. left. reflexivity.
  Qed.

  (* the number of parser tasks never exceeds the number of visits: every task accounts for its own *)
  Lemma tlen_pos : forall t, 1 <= tlen t.
  Proof.
    intros [f anc s]. unfold tlen, kpend. cbn [k_st k_anc k_file]. destruct s; cbn [length]; try lia.
    rewrite nB_length. lia.
  Qed.

  Lemma ktasks_bound : forall root st, KInv root st -> length (k_ptasks st) <= length (Wk [] root).
  Proof.
    intros root st HI. rewrite <- (Q_len _ _ HI). generalize (k_ptasks st) as l.
    induction l as [|t l IH]; simpl; [lia|]. pose proof (tlen_pos t). lia.
  Qed.

  (* when no stage function fails and no visit closes a cycle, no error is ever recorded *)
  Lemma knofail_no_werrs : forall root st, KInv root st -> filter v_cyc (Wk [] root) = [] ->
    (forall f, bad f = false) -> (forall f, cbad f = false) -> (forall f, abad f = false) -> k_werrs st = [].
  Proof.
    intros root st HI Ac Hb Hc Ha. destruct (k_werrs st) as [|e rest] eqn:We; [reflexivity|].
    pose proof (Q_werrs _ _ HI e) as G. rewrite We in G. specialize (G (or_introl eq_refl)).
    destruct e as [f|c|f|f]; cbn [werr_ok] in G; try congruence.
    destruct G as (anc & f & _ & I & M).
    assert (I' : In (anc, f) (filter v_cyc (Wk [] root))) by (apply filter_In; split; [exact I|exact M]).
    rewrite Ac in I'. destruct I'.
  Qed.
  End CodeAsItIs.
End FromPathCycleProofs.

(* ------------------------------------------------------------------------------------------
   Instances.  [g_diamond]: 0 includes 1 and 2, both include 3.  [g_mutual]: 0 includes 1 and 2,
   which include each other - a cycle that can be entered over two routes.                       *)
Definition g_diamond (f : nat) : list nat := match f with 0 => [1; 2] | 1 => [3] | 2 => [3] | _ => [] end.
Definition g_mutual (f : nat) : list nat := match f with 0 => [1; 2] | 1 => [2] | 2 => [1] | _ => [] end.

(* the seeded change seeded/C06c-load-once-set ([once = true]) on g_mutual: if both routes into the
   cycle have been claimed before either is followed further, every later task finds its file
   claimed and returns nil - FromPath succeeds and has loaded every file once; if the task for 2
   below 1 runs before the task for 2 below the root, it claims 2 and its own include of 1 is a
   cycle - FromPath fails *)
Definition once_sched_ok : list klabel :=
  [KStart 0; KSpawn 0; KSpawn 0; KStart 1; KStart 2; KSpawn 1; KSpawn 2; KStart 3; KStart 4].
Definition once_sched_err : list klabel :=
  [KStart 0; KSpawn 0; KSpawn 0; KStart 1; KSpawn 1; KStart 3; KSpawn 3; KStart 4].

Lemma once_schedule_dependent :
  let run s := kdrain g_mutual none none none true 60 (krun g_mutual none none none true s (kinit 0)) in
  koutcome_of (run once_sched_ok) = KOk [0; 1; 2] /\
  koutcome_of (run once_sched_err) = KErr (KWCycle [0; 1; 2; 1]).
Proof. vm_compute. split; reflexivity. Qed.

(* the code as it is on the same two schedules, and on the diamond *)
Lemma code_same_schedules :
  let run s := kdrain g_mutual none none none false 80 (krun g_mutual none none none false s (kinit 0)) in
  (exists c, koutcome_of (run once_sched_ok) = KErr (KWCycle c)) /\
  (exists c, koutcome_of (run once_sched_err) = KErr (KWCycle c)) /\
  koutcome_of (kdrain g_diamond none none none false 80 (kinit 0)) = KOk [0; 1; 2; 3; 3] /\
  koutcome_of (kdrain g_diamond none none none true 80 (kinit 0)) = KOk [0; 1; 2; 3].
Proof. vm_compute. repeat split; eexists; reflexivity. Qed.

(* ------------------------------------------------------------------------------------------
   The statements of Properties/C19.v                                                          *)
Lemma filter_split_length : forall (A : Type) (p : A -> bool) l,
  length l = length (filter (fun x => negb (p x)) l) + length (filter p l).
Proof.
  induction l as [|a l IH]; simpl; [reflexivity|]. destruct (p a); simpl; lia.
Qed.

Lemma frompath_cycle_terminates : forall inc bad cbad abad once univ root sched,
  finite_graph inc univ root ->
  let visits := all_visits inc univ root in
  let st := krun inc bad cbad abad once sched (kinit root) in
  (forall anc f, In (anc, f) visits <-> ipath inc root anc f /\ NoDup anc) /\
  (forall anc f, In (anc, f) (simple_paths inc univ root) <-> ipath inc root anc f /\ NoDup (anc ++ [f])) /\
  length visits = length (simple_paths inc univ root) + length (cycle_closings inc univ root) /\
  keffective inc bad cbad abad once sched (kinit root) <= 6 * length visits + 3 /\
  (once = false -> length (k_ptasks st) <= length visits) /\
  (once = false -> (forall f, abad f = false) ->
   (kfinished st = false -> exists l, In l (klabels st) /\ kenabled inc bad cbad abad once st l = true) /\
   kfinished (kdrain inc bad cbad abad once (6 * length visits + 3) st) = true).
Proof.
  intros inc bad cbad abad once univ root sched [Hr Hc] visits st.
  split; [intros anc f; apply (walks_spec inc univ Hc root anc f Hr)|].
  split; [intros anc f; apply (simple_paths_spec inc univ Hc root anc f Hr)|].
  split; [apply (filter_split_length _ v_cyc)|].
  assert (V0 : KValid inc univ (kinit root)) by (apply kvalid_init; exact Hr).
  split.
  { unfold visits. rewrite <- (kmu_init inc univ root). apply keffective_bound_from; assumption. }
  split.
  - intros Ho. subst once. unfold visits. rewrite (all_visits_Wk inc univ root).
    apply (ktasks_bound inc bad cbad abad univ root). apply (reachable_kinv inc bad cbad abad false univ Hc eq_refl root sched Hr).
  - intros Ho Ha. subst once.
    pose proof (reachable_kinv inc bad cbad abad false univ Hc eq_refl root sched Hr) as HI. split.
    + intros F. eapply kdeadlock_free; eauto.
    + apply (kdrain_finishes_from inc bad cbad abad false univ Hc eq_refl root); auto.
      unfold visits. rewrite <- (kmu_init inc univ root). apply krun_kmu; assumption.
Qed.

Lemma frompath_cycle_is_error : forall inc bad cbad abad univ root sched,
  finite_graph inc univ root -> (forall f, abad f = false) ->
  cycle_reachable inc root ->
  let st := krun inc bad cbad abad false sched (kinit root) in
  (k_synclosed st = true ->
     exists e rest, k_werrs st = e :: rest /\ parser_stage e = true /\ kgenuine bad cbad abad e = true) /\
  (forall files, koutcome_of st <> KOk files) /\
  (kfinished st = true ->
     exists e, koutcome_of st = KErr e /\ parser_stage e = true /\ kgenuine bad cbad abad e = true) /\
  (forall c, In (KWCycle c) (k_werrs st) ->
     exists anc f, c = anc ++ [f] /\ ipath inc root anc f /\ NoDup anc /\ In f anc).
Proof.
  intros inc bad cbad abad univ root sched [Hr Hc] Ha Cy st.
  pose proof (reachable_kinv inc bad cbad abad false univ Hc eq_refl root sched Hr) as HI. fold st in HI.
  assert (Cc : filter v_cyc (Wk inc univ [] root) <> []).
  { rewrite <- (all_visits_Wk inc univ root). apply (cycle_reachable_spec inc univ Hc root Hr). exact Cy. }
  assert (R : k_synclosed st = true ->
     exists e rest, k_werrs st = e :: rest /\ parser_stage e = true /\ kgenuine bad cbad abad e = true).
  { intros SC. eapply kcycle_reported; eauto. }
  split; [exact R|]. split; [|split].
  - intros files E. unfold koutcome_of in E. destruct (kfinished st) eqn:F; [|discriminate].
    destruct (kfinished_spec st F) as (SC & _). destruct (R SC) as (e & rest & We & _).
    rewrite We in E. discriminate.
  - intros F. destruct (kfinished_spec st F) as (SC & _). destruct (R SC) as (e & rest & We & Pg & G).
    exists e. split; [|auto]. unfold koutcome_of. rewrite F, We. reflexivity.
  - intros c Hin. pose proof (Q_werrs _ _ _ _ _ _ _ HI _ Hin) as G. cbn [werr_ok] in G.
    destruct G as (anc & f & -> & I & M). exists anc, f.
    rewrite <- (all_visits_Wk inc univ root) in I. apply (walks_spec inc univ Hc root anc f Hr) in I.
    destruct I as [P ND]. repeat split; auto. apply memn_true. exact M.
Qed.

Lemma frompath_diamond_loads_twice : forall inc bad cbad abad univ root sched,
  finite_graph inc univ root ->
  let st := krun inc bad cbad abad false sched (kinit root) in
  kfinished st = true -> k_werrs st = [] ->
  koutcome_of st = KOk (k_added st) /\
  Permutation (k_added st) (map snd (simple_paths inc univ root)) /\
  cycle_closings inc univ root = [] /\ ~ cycle_reachable inc root /\
  k_bld st = BDone /\ k_perrs st = [] /\ k_cerrs st = [] /\ k_pcancel st = false /\ k_ccancel st = false.
Proof.
  intros inc bad cbad abad univ root sched [Hr Hc] st F We.
  pose proof (reachable_kinv inc bad cbad abad false univ Hc eq_refl root sched Hr) as HI. fold st in HI.
  destruct (kfinished_success inc bad cbad abad univ root st HI F We) as (P & Ac & BD & Pe & Ce & Pc & Cc).
  assert (CC : cycle_closings inc univ root = []).
  { unfold cycle_closings. rewrite (all_visits_Wk inc univ root). exact Ac. }
  split; [unfold koutcome_of; rewrite F, We; reflexivity|].
  split.
  { unfold simple_paths. rewrite (all_visits_Wk inc univ root). rewrite filter_all; [exact P|].
    intros v Hv. unfold v_simple. destruct (v_cyc v) eqn:C; [|reflexivity].
    assert (I : In v (filter v_cyc (Wk inc univ [] root))) by (apply filter_In; auto).
    rewrite Ac in I. destruct I. }
  split; [exact CC|]. split; [|auto 10].
  intros Cy. apply (cycle_reachable_spec inc univ Hc root Hr) in Cy. contradiction.
Qed.

Lemma frompath_diamond_loads_twice_ranked : forall inc bad cbad abad rank root sched,
  (forall f g, In g (inc f) -> rank g < rank f) ->
  let st := krun inc bad cbad abad false sched (kinit root) in
  (kfinished st = true -> k_werrs st = [] ->
     Permutation (k_added st) (expand inc (rank root) root) /\
     gvisits inc root (expand inc (rank root) root) /\
     (forall vs, gvisits inc root vs -> Permutation (k_added st) vs)) /\
  ((forall f, bad f = false) -> (forall f, cbad f = false) -> (forall f, abad f = false) -> k_werrs st = []).
Proof.
  intros inc bad cbad abad rank root sched Hrank st.
  pose proof (ranked_finite inc rank Hrank root) as FG. pose proof FG as [Hr Hc].
  destruct (all_visits_ranked inc rank Hrank root) as (A & B & C).
  pose proof (gvisits_ranked inc rank Hrank root) as GV. unfold E in GV.
  split.
  - intros F We.
    destruct (frompath_diamond_loads_twice inc bad cbad abad (E inc rank root) root sched FG F We) as (_ & P & _).
    rewrite C, A in P. unfold E in P. split; [exact P|]. split; [exact GV|].
    intros vs Hv. rewrite (gvisits_det inc root vs Hv _ GV). exact P.
  - intros Hb Hcb Ha.
    pose proof (reachable_kinv inc bad cbad abad false (E inc rank root) Hc eq_refl root sched Hr) as HI.
    apply (knofail_no_werrs inc bad cbad abad false (E inc rank root) eq_refl root _ HI); auto.
    rewrite <- (all_visits_Wk inc (E inc rank root) root). exact B.
Qed.

Lemma g_mutual_finite : finite_graph g_mutual [0; 1; 2] 0.
Proof.
  split; [simpl; auto|]. intros f g Hf Hg. simpl in Hf.
  destruct Hf as [<-|[<-|[<-|[]]]]; simpl in Hg; intuition (subst; simpl; auto).
Qed.

Lemma g_mutual_cycle : cycle_reachable g_mutual 0.
Proof.
  exists [0; 1; 2], 1. split; [|simpl; auto].
  apply (ipath_step g_mutual [] 0 [0; 1] 2 1); [|simpl; auto].
  apply (ipath_step g_mutual [] 0 [0] 1 2); [|simpl; auto].
  apply (ipath_step g_mutual [] 0 [] 0 1); [constructor|simpl; auto].
Qed.

Lemma load_once_refuted :
  finite_graph g_mutual [0; 1; 2] 0 /\ cycle_reachable g_mutual 0 /\
  let fin s := kdrain g_mutual none none none true (6 * length (all_visits g_mutual [0; 1; 2] 0) + 3)
                 (krun g_mutual none none none true s (kinit 0)) in
  koutcome_of (fin once_sched_ok) = KOk [0; 1; 2] /\
  koutcome_of (fin once_sched_err) = KErr (KWCycle [0; 1; 2; 1]).
Proof.
  split; [exact g_mutual_finite|]. split; [exact g_mutual_cycle|]. vm_compute. split; reflexivity.
Qed.

Lemma example_graphs :
  finite_graph g_diamond [0; 1; 2; 3] 0 /\ (forall f g, In g (g_diamond f) -> (4 - g) < (4 - f)) /\
  map snd (simple_paths g_diamond [0; 1; 2; 3] 0) = [0; 1; 3; 2; 3] /\ cycle_closings g_diamond [0; 1; 2; 3] 0 = [] /\
  koutcome_of (kdrain g_diamond none none none false 80 (kinit 0)) = KOk [0; 1; 2; 3; 3] /\
  finite_graph g_mutual [0; 1; 2] 0 /\ cycle_reachable g_mutual 0 /\
  cycle_closings g_mutual [0; 1; 2] 0 = [([0; 1; 2], 1); ([0; 2; 1], 2)] /\
  koutcome_of (kdrain g_mutual none none none false 80 (kinit 0)) = KErr (KWCycle [0; 1; 2; 1]).
Proof.
  split.
  { split; [simpl; auto|]. intros f g Hf Hg. simpl in Hf.
    destruct Hf as [<-|[<-|[<-|[<-|[]]]]]; simpl in Hg; intuition (subst; simpl; auto). }
  split.
  { intros [|[|[|f]]] g Hg; simpl in Hg; intuition (subst; simpl; lia). }
  split; [vm_compute; reflexivity|]. split; [vm_compute; reflexivity|]. split; [vm_compute; reflexivity|].
  split; [exact g_mutual_finite|]. split; [exact g_mutual_cycle|].
  split; vm_compute; reflexivity.
Qed.
