(* Proofs about Model/Pipe.v, part 5: the checker is exact.  Every event list accepted by
   [trace_ok] (equivalently: satisfying [tr_spec]) whose items and failures fit an instance
   (n stages, m items, oracle [fails]: Spec/PipeSpec.v [respects]) is the trace of a run of that
   instance from [init] - the converse of trace_ok_complete - and the trace of every run fits
   its instance.  The schedule is built event by event: between two events only silent labels
   (Fetch, Hand, and the sink's Begin/End) are used, nothing is ever cancelled or closed.   *)
From Coq Require Import List Bool Arith PeanoNat Lia.
From Knut Require Import Model.Pipe Spec.PipeSpec Proofs.PipeInv Proofs.PipeProofs Proofs.PipeTrace.
Import ListNotations.

Lemma live_intro : forall nd p, stat nd = Running -> ph nd = p -> live nd p = true.
Proof. intros. apply live_true. auto. Qed.

Lemma leb_intro : forall a b, a <= b -> (a <=? b) = true.
Proof. intros. apply Nat.leb_le. assumption. Qed.

Lemma leb_gt_intro : forall a b, b < a -> (a <=? b) = false.
Proof. intros. apply Nat.leb_gt. assumption. Qed.

Lemma eqb_neq_intro : forall a b, a <> b -> (a =? b) = false.
Proof. intros. apply Nat.eqb_neq. assumption. Qed.

Section Exact.
  Variable n m : nat.
  Variable fails : nat -> nat -> bool.
  Notation step := (step n m fails).
  Notation run := (run n m fails).
  Notation Inv := (Inv n m fails).
  Notation TInv := (TInv n).

  (* nothing cancelled, every goroutine still running *)
  Definition Clean (st : state) : Prop :=
    cancelled st = false /\ forall i, stat (nodes st i) = Running.

  (* labels that emit no event *)
  Definition silent (l : label) : Prop :=
    match l with
    | Fetch | Hand _ => True
    | Begin i | End i => i = S n
    | _ => False
    end.

  Lemma run_app : forall s1 s2 st, run (s1 ++ s2) st = run s2 (run s1 st).
  Proof. intros. unfold Pipe.run. apply fold_left_app. Qed.

  Lemma run_one : forall l st st', step l st = Some st' -> run [l] st = st'.
  Proof. intros l st st' H. unfold Pipe.run. simpl. unfold Pipe.step_or_stay. rewrite H. reflexivity. Qed.

  Record Good (st : state) : Prop := { G_inv : Inv st; G_tinv : TInv st; G_clean : Clean st }.

  Definition quiet (st st' : state) : Prop :=
    (exists sched, run sched st = st') /\ trace_rev st' = trace_rev st /\ Clean st'.

  Lemma quiet_good : forall st st', Good st -> quiet st st' -> Good st'.
  Proof.
    intros st st' HG ((sched & <-) & _ & HC).
    destruct (run_tinv n m fails sched st (G_inv _ HG) (G_tinv _ HG)) as [A B].
    constructor; assumption.
  Qed.

  Lemma quiet_refl : forall st, Good st -> quiet st st.
  Proof. intros st HG. split; [exists []; reflexivity|]. split; [reflexivity | apply (G_clean _ HG)]. Qed.

  Lemma quiet_trans : forall a b c, quiet a b -> quiet b c -> quiet a c.
  Proof.
    intros a b c ((s1 & <-) & T1 & _) ((s2 & <-) & T2 & C2).
    split; [exists (s1 ++ s2); apply run_app|]. split; [congruence | assumption].
  Qed.

  Lemma step_clean : forall l st st', Clean st ->
    match l with Fetch | Hand _ | Begin _ | End _ => True | _ => False end ->
    step l st = Some st' -> Clean st'.
  Proof.
    intros l st st' [HC HR] Hl Hs.
    destruct l as [|i|i|i|i|i|i]; try contradiction; simpl in Hs;
      match type of Hs with (if ?c then _ else _) = _ => destruct c eqn:Hc; [|discriminate] end.
    - injection Hs as <-. split; simpl; [assumption|]. intros j. unfold upd.
      destruct (j =? 0); [reflexivity | apply HR].
    - rewrite HC in Hs. injection Hs as <-. split; simpl; [assumption|]. intros j. unfold upd.
      destruct (j =? S i); [reflexivity|]. destruct (j =? i); [reflexivity | apply HR].
    - destruct (i <=? n); injection Hs as <-; (split; simpl; [assumption|]); intros j; unfold upd;
        destruct (j =? i); try reflexivity; apply HR.
    - destruct (i <=? n); injection Hs as <-; (split; simpl; [assumption|]); intros j; unfold upd;
        destruct (j =? i); try reflexivity; apply HR.
  Qed.

  Lemma step_silent_trace : forall l st st', silent l -> step l st = Some st' ->
    trace_rev st' = trace_rev st.
  Proof.
    intros l st st' Hl Hs.
    destruct l as [|i|i|i|i|i|i]; simpl in Hl; try contradiction; simpl in Hs;
      match type of Hs with (if ?c then _ else _) = _ => destruct c eqn:Hc; [|discriminate] end.
    - injection Hs as <-. reflexivity.
    - destruct (cancelled st); injection Hs as <-; reflexivity.
    - subst i. rewrite (leb_gt_intro (S n) n (Nat.lt_succ_diag_r n)) in Hs. injection Hs as <-. reflexivity.
    - subst i. rewrite (leb_gt_intro (S n) n (Nat.lt_succ_diag_r n)) in Hs. injection Hs as <-. reflexivity.
  Qed.

  Lemma quiet_step : forall st l st', Good st -> silent l -> step l st = Some st' -> quiet st st'.
  Proof.
    intros st l st' HG Hl Hs. split; [exists [l]; apply run_one; assumption|]. split.
    - eapply step_silent_trace; eassumption.
    - apply (step_clean l st st' (G_clean _ HG)); [|assumption].
      destruct l; simpl in Hl; auto.
  Qed.

  (* ------------------------------------------------------------------ single silent moves *)
  Lemma hand_step : forall st i, Good st -> i <= n ->
    ph (nodes st i) = PReady -> ph (nodes st (S i)) = PIdle ->
    exists st', quiet st st' /\
      nodes st' i = mkNode PIdle (S (cnt (nodes st i))) Running /\
      nodes st' (S i) = mkNode PHolding (cnt (nodes st i)) Running /\
      forall j, j <> i -> j <> S i -> nodes st' j = nodes st j.
  Proof.
    intros st i HG Hi P1 P2. destruct (G_clean _ HG) as [HC HR].
    set (st' := set_node (set_node st i (mkNode PIdle (S (cnt (nodes st i))) Running)) (S i)
                         (mkNode PHolding (cnt (nodes st i)) Running)).
    assert (E : step (Hand i) st = Some st').
    { simpl. rewrite (leb_intro _ _ Hi), (live_intro _ _ (HR i) P1), (live_intro _ _ (HR (S i)) P2), HC.
      reflexivity. }
    exists st'. split; [apply (quiet_step st (Hand i)); simpl; auto|].
    subst st'. simpl. unfold upd. rewrite !Nat.eqb_refl.
    rewrite (eqb_neq_intro i (S i)) by lia.
    repeat split; auto. intros j A B.
    rewrite (eqb_neq_intro j (S i)), (eqb_neq_intro j i) by assumption. reflexivity.
  Qed.

  Lemma fetch_step : forall st, Good st -> ph (nodes st 0) = PIdle -> cnt (nodes st 0) < m ->
    exists st', quiet st st' /\
      nodes st' 0 = mkNode PReady (cnt (nodes st 0)) Running /\
      forall j, j <> 0 -> nodes st' j = nodes st j.
  Proof.
    intros st HG P L. destruct (G_clean _ HG) as [HC HR].
    set (st' := set_node st 0 (mkNode PReady (cnt (nodes st 0)) Running)).
    assert (E : step Fetch st = Some st').
    { simpl. rewrite (live_intro _ _ (HR 0) P). apply Nat.ltb_lt in L. rewrite L. reflexivity. }
    exists st'. split; [apply (quiet_step st Fetch); simpl; auto|].
    subst st'. simpl. unfold upd. split; [reflexivity|].
    intros j A. rewrite (eqb_neq_intro j 0) by assumption. reflexivity.
  Qed.

  Lemma sink_begin : forall st, Good st -> ph (nodes st (S n)) = PHolding ->
    exists st', quiet st st' /\ ph (nodes st' (S n)) = PWorking /\
      forall j, j <= n -> nodes st' j = nodes st j.
  Proof.
    intros st HG P. destruct (G_clean _ HG) as [HC HR].
    set (st' := set_node st (S n) (mkNode PWorking (cnt (nodes st (S n))) Running)).
    assert (E : step (Begin (S n)) st = Some st').
    { cbn [Pipe.step]. rewrite (live_intro _ _ (HR (S n)) P).
      rewrite (leb_intro 1 (S n)) by lia. rewrite (leb_intro (S n) (S n)) by lia.
      rewrite (leb_gt_intro (S n) n) by lia. reflexivity. }
    exists st'. split; [apply (quiet_step st (Begin (S n))); simpl; auto|].
    subst st'. simpl. unfold upd. rewrite Nat.eqb_refl. split; [reflexivity|].
    intros j A. rewrite (eqb_neq_intro j (S n)) by lia. reflexivity.
  Qed.

  Lemma sink_end : forall st, Good st -> ph (nodes st (S n)) = PWorking ->
    exists st', quiet st st' /\ ph (nodes st' (S n)) = PIdle /\
      forall j, j <= n -> nodes st' j = nodes st j.
  Proof.
    intros st HG P. destruct (G_clean _ HG) as [HC HR].
    destruct (step (End (S n)) st) as [st'|] eqn:E.
    - exists st'. split; [apply (quiet_step st (End (S n))); simpl; auto|].
      cbn [Pipe.step] in E. rewrite (live_intro _ _ (HR (S n)) P) in E.
      rewrite (leb_intro 1 (S n)) in E by lia. rewrite (leb_intro (S n) (S n)) in E by lia.
      rewrite (leb_gt_intro (S n) n) in E by lia. cbn [andb] in E. injection E as <-.
      simpl. unfold upd. rewrite Nat.eqb_refl. split; [reflexivity|].
      intros j A. rewrite (eqb_neq_intro j (S n)) by lia. reflexivity.
    - exfalso. cbn [Pipe.step] in E. rewrite (live_intro _ _ (HR (S n)) P) in E.
      rewrite (leb_intro 1 (S n)) in E by lia. rewrite (leb_intro (S n) (S n)) in E by lia.
      rewrite (leb_gt_intro (S n) n) in E by lia. discriminate.
  Qed.

  Lemma sink_idle : forall st, Good st ->
    exists st', quiet st st' /\ ph (nodes st' (S n)) = PIdle /\
      forall j, j <= n -> nodes st' j = nodes st j.
  Proof.
    intros st HG. destruct (I_sinkph _ _ _ _ (G_inv _ HG)) as [P|[P|P]].
    - exists st. split; [apply quiet_refl; assumption|]. auto.
    - destruct (sink_begin st HG P) as (st1 & Q1 & P1 & F1).
      destruct (sink_end st1 (quiet_good _ _ HG Q1) P1) as (st2 & Q2 & P2 & F2).
      exists st2. split; [eapply quiet_trans; eassumption|]. split; [assumption|].
      intros j A. rewrite F2, F1 by assumption. reflexivity.
    - apply sink_end; assumption.
  Qed.

  (* ------------------------------------------------------------------ pushing downstream *)
  (* node i, blocked in Push with item c, can hand it over after silent moves of the nodes after
     it, provided every later stage has ended enough items and none of them has failed *)
  Lemma push_down : forall d i st, i + d = n -> 1 <= i -> Good st ->
    ph (nodes st i) = PReady ->
    (forall j, 1 <= j -> i + j <= n -> cnt (nodes st i) + 1 <= ended (nodes st (i + j)) + j) ->
    (forall j, 1 <= j -> i + j <= n -> j <= cnt (nodes st i) ->
       fails (i + j) (cnt (nodes st i) - j) = false) ->
    exists st', quiet st st' /\
      nodes st' i = mkNode PIdle (S (cnt (nodes st i))) Running /\
      forall j, j < i -> nodes st' j = nodes st j.
  Proof.
    induction d as [|d IH]; intros i st Hd Hi HG P BP NF.
    - assert (i = n) by lia. subst i.
      destruct (sink_idle st HG) as (st1 & Q1 & P1 & F1).
      pose proof (quiet_good _ _ HG Q1) as HG1.
      assert (Pn : ph (nodes st1 n) = PReady) by (rewrite F1 by lia; exact P).
      destruct (hand_step st1 n HG1 (le_n _) Pn P1) as (st2 & Q2 & A & B & C).
      exists st2. split; [eapply quiet_trans; eassumption|]. rewrite A, F1 by lia. split; [reflexivity|].
      intros j Hj. rewrite C by lia. apply F1. lia.
    - assert (Hin : i < n) by lia.
      pose proof (I_chan _ _ _ _ (G_inv _ HG) i ltac:(lia)) as E. unfold sent, recv in E.
      assert (X : exists st1, quiet st st1 /\ ph (nodes st1 (S i)) = PIdle /\
                              forall j, j <= i -> nodes st1 j = nodes st j).
      { destruct (ph (nodes st (S i))) eqn:P2.
        - exists st. split; [apply quiet_refl; assumption|]. auto.
        - exfalso. specialize (BP 1 (le_n _) ltac:(lia)). replace (i + 1) with (S i) in BP by lia.
          unfold ended in BP. rewrite P2 in BP. lia.
        - exfalso. specialize (BP 1 (le_n _) ltac:(lia)). replace (i + 1) with (S i) in BP by lia.
          unfold ended in BP. rewrite P2 in BP. lia.
        - destruct (IH (S i) st ltac:(lia) ltac:(lia) HG P2) as (st1 & Q1 & A & F).
          + intros j Hj1 Hj2. specialize (BP (S j) ltac:(lia) ltac:(lia)).
            replace (i + S j) with (S i + j) in BP by lia. lia.
          + intros j Hj1 Hj2 Hj3. specialize (NF (S j) ltac:(lia) ltac:(lia) ltac:(lia)).
            replace (i + S j) with (S i + j) in NF by lia.
            replace (cnt (nodes st i) - S j) with (cnt (nodes st (S i)) - j) in NF by lia. exact NF.
          + exists st1. split; [exact Q1|]. rewrite A. split; [reflexivity|]. intros j Hj. apply F. lia.
        - exfalso. destruct (I_failed _ _ _ _ (G_inv _ HG) (S i) P2) as [Ff _].
          specialize (NF 1 (le_n _) ltac:(lia) ltac:(lia)). replace (i + 1) with (S i) in NF by lia.
          replace (cnt (nodes st i) - 1) with (cnt (nodes st (S i))) in NF by lia. congruence. }
      destruct X as (st1 & Q1 & P1 & F1).
      pose proof (quiet_good _ _ HG Q1) as HG1.
      assert (Pn : ph (nodes st1 i) = PReady) by (rewrite F1 by lia; exact P).
      destruct (hand_step st1 i HG1 ltac:(lia) Pn P1) as (st2 & Q2 & A & B & C).
      exists st2. split; [eapply quiet_trans; eassumption|]. rewrite A, F1 by lia. split; [reflexivity|].
      intros j Hj. rewrite C by lia. apply F1. lia.
  Qed.

  (* ------------------------------------------------------------------ pulling from upstream *)
  Lemma pull_up : forall st i k, Good st -> 1 <= i <= n ->
    ph (nodes st i) = PIdle -> cnt (nodes st i) = k -> k < m ->
    (2 <= i -> k < ended (nodes st (pred i))) ->
    (2 <= i -> fails (pred i) k = false) ->
    exists st', quiet st st' /\ nodes st' i = mkNode PHolding k Running.
  Proof.
    intros st i k HG Hi P C Hk HE HF.
    destruct i as [|i']; [lia|]. simpl in HE, HF.
    pose proof (I_chan _ _ _ _ (G_inv _ HG) i' ltac:(lia)) as E. unfold sent, recv in E.
    rewrite P, C in E.
    assert (X : exists st1, quiet st st1 /\ ph (nodes st1 i') = PReady /\ cnt (nodes st1 i') = k /\
                            ph (nodes st1 (S i')) = PIdle).
    { destruct i' as [|i''].
      - destruct (I_src _ _ _ _ (G_inv _ HG)) as [P0|P0].
        + destruct (fetch_step st HG P0 ltac:(lia)) as (st1 & Q1 & A & F).
          exists st1. split; [exact Q1|]. rewrite A, F by lia. simpl. auto.
        + exists st. split; [apply quiet_refl; assumption|]. auto.
      - specialize (HE ltac:(lia)). specialize (HF ltac:(lia)). unfold ended in HE.
        destruct (ph (nodes st (S i''))) eqn:P0; try lia.
        + exists st. split; [apply quiet_refl; assumption|]. auto.
        + exfalso. destruct (I_failed _ _ _ _ (G_inv _ HG) (S i'') P0) as [Ff _]. congruence. }
    destruct X as (st1 & Q1 & P1 & C1 & P2).
    destruct (hand_step st1 i' (quiet_good _ _ HG Q1) ltac:(lia) P1 P2) as (st2 & Q2 & _ & B & _).
    exists st2. split; [eapply quiet_trans; eassumption|]. rewrite B, C1. reflexivity.
  Qed.

  (* ------------------------------------------------------------------ the two visible moves *)
  Lemma begin_step : forall st i, Good st -> 1 <= i <= n -> ph (nodes st i) = PHolding ->
    exists st', step (Begin i) st = Some st' /\
      trace_rev st' = mkEv i EvBegin (cnt (nodes st i)) :: trace_rev st /\ Clean st'.
  Proof.
    intros st i HG Hi P. destruct (G_clean _ HG) as [HC HR].
    destruct (step (Begin i) st) as [st'|] eqn:E.
    - exists st'. split; [reflexivity|]. split; [|apply (step_clean (Begin i) st st' (G_clean _ HG) I E)].
      cbn [Pipe.step] in E. rewrite (live_intro _ _ (HR i) P) in E.
      rewrite (leb_intro 1 i), (leb_intro i (S n)), (leb_intro i n) in E by lia.
      cbn [andb] in E. injection E as <-. reflexivity.
    - exfalso. cbn [Pipe.step] in E. rewrite (live_intro _ _ (HR i) P) in E.
      rewrite (leb_intro 1 i), (leb_intro i (S n)) in E by lia. discriminate.
  Qed.

  Lemma end_step : forall st i, Good st -> 1 <= i <= n -> ph (nodes st i) = PWorking ->
    exists st', step (End i) st = Some st' /\
      trace_rev st' = mkEv i EvEnd (cnt (nodes st i)) :: trace_rev st /\ Clean st'.
  Proof.
    intros st i HG Hi P. destruct (G_clean _ HG) as [HC HR].
    destruct (step (End i) st) as [st'|] eqn:E.
    - exists st'. split; [reflexivity|]. split; [|apply (step_clean (End i) st st' (G_clean _ HG) I E)].
      cbn [Pipe.step] in E. rewrite (live_intro _ _ (HR i) P) in E.
      rewrite (leb_intro 1 i), (leb_intro i (S n)), (leb_intro i n) in E by lia.
      cbn [andb] in E. injection E as <-. reflexivity.
    - exfalso. cbn [Pipe.step] in E. rewrite (live_intro _ _ (HR i) P) in E.
      rewrite (leb_intro 1 i), (leb_intro i (S n)), (leb_intro i n) in E by lia. discriminate.
  Qed.

  (* what [ev_ok] after the trace of a good state says about the nodes *)
  Lemma ev_ok_begin_nodes : forall st i k, Good st -> ev_ok n (trace st) (mkEv i EvBegin k) ->
    1 <= i <= n /\ k = begun (nodes st i) /\ begun (nodes st i) = ended (nodes st i) /\
    (i = 1 \/ k < ended (nodes st (pred i))) /\
    (forall j, 1 <= j -> i + j <= n -> k <= ended (nodes st (i + j)) + j).
  Proof.
    intros st i k HG HE. unfold ev_ok, trace in HE. simpl in HE.
    destruct HE as (Hi & A & B & C & D). rewrite !count_ev_rev in *.
    pose proof (T_count _ _ (G_tinv _ HG) i Hi) as [CB CE]. rewrite CB, CE in *.
    split; [assumption|]. split; [assumption|]. split; [assumption|]. split.
    - destruct (Nat.eq_dec i 1) as [->|Hne]; [left; reflexivity|].
      destruct C as [C|C]; [lia|]. right.
      pose proof (T_count _ _ (G_tinv _ HG) (pred i) ltac:(lia)) as [_ CE']. rewrite <- CE'. exact C.
    - intros j H1 H2. specialize (D j H1 H2). rewrite count_ev_rev in D.
      pose proof (T_count _ _ (G_tinv _ HG) (i + j) ltac:(lia)) as [_ CE']. rewrite <- CE'. exact D.
  Qed.

  (* ------------------------------------------------------------------ the converse of completeness *)
  Lemma exact_run : forall tr, tr_spec n tr -> respects n m fails tr ->
    exists sched, trace (run sched init) = tr /\ Clean (run sched init).
  Proof.
    induction tr as [|e tr IH] using rev_ind; intros HS HR.
    - exists []. split; [reflexivity|]. split; [reflexivity | intros; reflexivity].
    - apply tr_spec_snoc_inv in HS. destruct HS as [HS HE].
      unfold respects in HR. apply Forall_app in HR. destruct HR as [HR1 HR2].
      apply Forall_inv in HR2.
      destruct (IH HS HR1) as (sched & ET & HC).
      remember (run sched init) as st eqn:Est.
      assert (HG : Good st).
      { subst st. constructor; [apply reachable_inv | apply reachable_tinv | exact HC]. }
      rewrite <- ET in HE. destruct e as [i p k]. destruct p.
      + (* begin *)
        destruct (ev_ok_begin_nodes st i k HG HE) as (Hi & A & B & C & D).
        destruct HR2 as [Km HRb]. simpl in Km, HRb. specialize (HRb eq_refl). destruct HRb as [NFp NFd].
        assert (X : exists st1, quiet st st1 /\ nodes st1 i = mkNode PHolding k Running).
        { unfold begun, ended in A, B.
          destruct (ph (nodes st i)) eqn:P.
          - apply (pull_up st i k HG Hi P (eq_sym A) Km).
            + intros H2. destruct C; [lia|assumption].
            + exact NFp.
          - exists st. split; [apply quiet_refl; assumption|].
            pose proof (proj2 (G_clean _ HG) i) as R.
            destruct (nodes st i) as [p c s]. simpl in *. subst. reflexivity.
          - lia.
          - destruct (push_down (n - i) i st ltac:(lia) ltac:(lia) HG P) as (st1 & Q1 & N1 & F1).
            + intros j H1 H2. specialize (D j H1 H2). lia.
            + intros j H1 H2 H3. specialize (NFd j H2 ltac:(lia)).
              replace (k - S j) with (cnt (nodes st i) - j) in NFd by lia. exact NFd.
            + pose proof (quiet_good _ _ HG Q1) as HG1.
              destruct (pull_up st1 i k HG1 Hi) as (st2 & Q2 & N2).
              * rewrite N1; reflexivity.
              * rewrite N1. simpl. lia.
              * exact Km.
              * intros H2. rewrite F1 by lia. destruct C; [lia|assumption].
              * exact NFp.
              * exists st2. split; [eapply quiet_trans; eassumption | exact N2].
          - exfalso. destruct (I_failed _ _ _ _ (G_inv _ HG) i P) as [Ff _].
            specialize (NFd 0 ltac:(lia) ltac:(lia)). rewrite Nat.add_0_r in NFd.
            replace (k - 1) with (cnt (nodes st i)) in NFd by lia. congruence. }
        destruct X as (st1 & Q1 & N1).
        pose proof (quiet_good _ _ HG Q1) as HG1.
        destruct Q1 as ((s1 & R1) & T1 & C1).
        assert (P1 : ph (nodes st1 i) = PHolding) by (rewrite N1; reflexivity).
        destruct (begin_step st1 i HG1 Hi P1) as (st2 & E2 & T2 & C2).
        exists (sched ++ s1 ++ [Begin i]). rewrite !run_app. rewrite <- Est, R1, (run_one _ _ _ E2).
        split; [|exact C2]. unfold trace in *. rewrite T2, T1, N1. simpl. rewrite ET. reflexivity.
      + (* end *)
        unfold ev_ok, trace in HE. simpl in HE. destruct HE as (Hi & A & B). rewrite !count_ev_rev in *.
        pose proof (T_count _ _ (G_tinv _ HG) i Hi) as [CB CE]. rewrite CB, CE in *.
        unfold begun, ended in A, B.
        destruct (ph (nodes st i)) eqn:P; try lia.
        destruct (end_step st i HG Hi P) as (st2 & E2 & T2 & C2).
        exists (sched ++ [End i]). rewrite !run_app. rewrite <- Est, (run_one _ _ _ E2).
        split; [|exact C2]. unfold trace in *. rewrite T2. simpl. rewrite ET, B. reflexivity.
  Qed.

  (* ------------------------------------------------------------------ every run fits its instance *)
  Record FInv (st : state) : Prop := {
    F_passed : forall i k, 1 <= i <= n -> k < cnt (nodes st i) -> fails i k = false;
    F_ready : forall i, 1 <= i <= n -> ph (nodes st i) = PReady -> fails i (cnt (nodes st i)) = false;
    F_resp : Forall (respects_ev n m fails) (trace_rev st)
  }.

  Lemma finv_init : FInv init.
  Proof. constructor; simpl; intros; try lia; try discriminate. constructor. Qed.

  Ltac fnodes HF :=
    let j := fresh "j" in let k := fresh "k" in let Hj := fresh "Hj" in
    split; [ intros j k Hj; pose proof (F_passed _ HF j k Hj); pose proof (F_ready _ HF j Hj)
           | intros j Hj; pose proof (F_passed _ HF j (cnt (nodes _ j)) Hj); pose proof (F_ready _ HF j Hj) ].

  Lemma step_finv : forall l st st', Inv st -> FInv st -> step l st = Some st' -> FInv st'.
  Proof.
    intros l st st' HI HF Hs.
    assert (G : forall nds tr,
      (forall j k, 1 <= j <= n -> k < cnt (nds j) -> fails j k = false) ->
      (forall j, 1 <= j <= n -> ph (nds j) = PReady -> fails j (cnt (nds j)) = false) ->
      Forall (respects_ev n m fails) tr ->
      forall c e s r, FInv (mkState nds c e s r tr)).
    { intros; constructor; assumption. }
    destruct l as [|i|i|i|i|i|i]; simpl in Hs;
    match type of Hs with (if ?c then _ else _) = _ => destruct c eqn:Hc; [|discriminate] end;
    bfacts.
    - (* Fetch *) injection Hs as <-. apply G; simpl; [| |apply (F_resp _ HF)].
      + intros j k Hj. pose proof (F_passed _ HF j k Hj). updc; subst; simpl in *; [lia|assumption].
      + intros j Hj. pose proof (F_ready _ HF j Hj). updc; subst; simpl in *; [lia|assumption].
    - (* Hand *)
      pose proof (F_ready _ HF i) as Ri. pose proof (F_passed _ HF i) as Pi.
      pose proof (F_passed _ HF (S i)) as PSi.
      destruct (cancelled st); injection Hs as <-; (apply G; simpl; [| |apply (F_resp _ HF)]).
      + intros j k Hj. pose proof (F_passed _ HF j k Hj). updc; subst; simpl in *; try assumption.
        * intros Hk. apply PSi; [assumption|]. 
          pose proof (I_chan _ _ _ _ HI i ltac:(lia)) as E. unfold sent, recv in E. rewrite H2 in E. lia.
        * intros Hk. destruct (Nat.eq_dec k (cnt (nodes st i))) as [->|Hne]; [apply Ri; assumption | apply Pi; [assumption|lia]].
      + intros j Hj. pose proof (F_ready _ HF j Hj). updc; subst; simpl in *; try assumption; discriminate.
      + intros j k Hj. pose proof (F_passed _ HF j k Hj). updc; subst; simpl in *; try assumption.
        * intros Hk. apply PSi; [assumption|].
          pose proof (I_chan _ _ _ _ HI i ltac:(lia)) as E. unfold sent, recv in E. rewrite H2 in E. lia.
        * intros Hk. destruct (Nat.eq_dec k (cnt (nodes st i))) as [->|Hne]; [apply Ri; assumption | apply Pi; [assumption|lia]].
      + intros j Hj. pose proof (F_ready _ HF j Hj). updc; subst; simpl in *; try assumption; discriminate.
    - (* Begin *)
      destruct (i <=? n) eqn:Hin; bfacts; injection Hs as <-; (apply G; simpl).
      + intros j k Hj. pose proof (F_passed _ HF j k Hj). updc; subst; simpl in *; assumption.
      + intros j Hj. pose proof (F_ready _ HF j Hj). updc; subst; simpl in *; try assumption; discriminate.
      + constructor; [|apply (F_resp _ HF)]. split; simpl.
        * pose proof (I_bound _ _ _ _ HI i) as Bd. unfold bounded in Bd. rewrite H2 in Bd. exact Bd.
        * intros _. split.
          { intros Hi2. apply (F_passed _ HF (pred i)); [lia|].
            pose proof (I_chan _ _ _ _ HI (pred i) ltac:(lia)) as E.
            replace (S (pred i)) with i in E by lia. unfold sent, recv in E. rewrite H2 in E. lia. }
          { intros j Hj1 Hj2. apply (F_passed _ HF (i + j)); [lia|].
            pose proof (cnt_chain n m fails st HI j i ltac:(lia)). lia. }
      + intros j k Hj. pose proof (F_passed _ HF j k Hj). updc; subst; simpl in *; assumption.
      + intros j Hj. pose proof (F_ready _ HF j Hj). updc; subst; simpl in *; try assumption; discriminate.
      + apply (F_resp _ HF).
    - (* End *)
      destruct (i <=? n) eqn:Hin; bfacts; injection Hs as <-; (apply G; simpl).
      + intros j k Hj. pose proof (F_passed _ HF j k Hj). updc; subst; simpl in *; assumption.
      + intros j Hj. pose proof (F_ready _ HF j Hj). updc; subst; simpl in *; try assumption.
        destruct (fails i (cnt (nodes st i))); [discriminate | reflexivity].
      + constructor; [|apply (F_resp _ HF)]. split; simpl; [|discriminate].
        pose proof (I_bound _ _ _ _ HI i) as Bd. unfold bounded in Bd. rewrite H2 in Bd. exact Bd.
      + intros j k Hj. pose proof (F_passed _ HF j k Hj). updc; subst; simpl in *; try assumption. lia.
      + intros j Hj. pose proof (F_ready _ HF j Hj). updc; subst; simpl in *; try assumption; discriminate.
      + apply (F_resp _ HF).
    - (* Report *) injection Hs as <-. apply G; simpl; [| |apply (F_resp _ HF)].
      + intros j k Hj. pose proof (F_passed _ HF j k Hj). updc; subst; simpl in *; assumption.
      + intros j Hj. pose proof (F_ready _ HF j Hj). updc; subst; simpl in *; assumption.
    - (* CloseCh *)
      destruct ((i =? 0) || negb (cancelled st)); [destruct (i =? S n)|]; injection Hs as <-;
        (apply G; simpl; [| |apply (F_resp _ HF)]).
      all: try (intros j k Hj; pose proof (F_passed _ HF j k Hj); updc; subst; simpl in *; assumption).
      all: intros j Hj; pose proof (F_ready _ HF j Hj); updc; subst; simpl in *; try assumption; try discriminate; congruence.
    - injection Hs as <-. apply G; simpl; [| |apply (F_resp _ HF)].
      + intros j k Hj. pose proof (F_passed _ HF j k Hj). updc; subst; simpl in *; assumption.
      + intros j Hj. pose proof (F_ready _ HF j Hj). updc; subst; simpl in *; assumption.
    - injection Hs as <-. apply G; simpl; [| |apply (F_resp _ HF)].
      + intros j k Hj. pose proof (F_passed _ HF j k Hj). updc; subst; simpl in *; assumption.
      + intros j Hj. pose proof (F_ready _ HF j Hj). updc; subst; simpl in *; assumption.
  Qed.

  Lemma run_finv : forall sched st, Inv st -> FInv st -> FInv (run sched st).
  Proof.
    induction sched as [|l rest IH]; intros st HI HF; simpl; [assumption|].
    unfold Pipe.step_or_stay. destruct (step l st) as [st'|] eqn:E.
    - apply IH; [eapply step_inv; eassumption | eapply step_finv; eassumption].
    - apply IH; assumption.
  Qed.

  Lemma run_respects : forall sched, respects n m fails (trace (run sched init)).
  Proof.
    intros sched. unfold respects, trace. apply Forall_rev.
    apply (F_resp _ (run_finv sched init (inv_init n m fails) finv_init)).
  Qed.

  (* the traces of the instance (n, m, fails) are exactly the accepted event lists that fit it *)
  Theorem trace_exact : forall tr,
    (exists sched, trace (run sched init) = tr) <-> (trace_ok n tr = true /\ respects n m fails tr).
  Proof.
    intros tr. split.
    - intros (sched & <-). split; [apply trace_ok_complete_run | apply run_respects].
    - intros [HT HR]. apply trace_ok_iff in HT. destruct (exact_run tr HT HR) as (sched & E & _).
      exists sched. exact E.
  Qed.
End Exact.

(* ------------------------------------------------------------------ the oracle-free corollary *)
Lemma count_ev_le_length : forall i p l, count_ev i p l <= length l.
Proof.
  intros i p l. unfold count_ev. induction l as [|a l IH]; simpl; [lia|].
  destruct ((ev_stage a =? i) && evphase_eqb (ev_ph a) p); simpl; lia.
Qed.

(* an accepted event list fits the instance with (length tr) items and no failing stage function *)
Lemma tr_spec_respects_nofail : forall n tr, tr_spec n tr ->
  respects n (length tr) (fun _ _ => false) tr.
Proof.
  intros n tr HS. unfold respects. apply Forall_forall. intros e Hin.
  apply in_split in Hin. destruct Hin as (pre & post & ->).
  pose proof (HS pre e post eq_refl) as HE. unfold ev_ok in HE. destruct HE as [_ HE].
  split; [|intros _; split; intros; reflexivity].
  rewrite app_length. simpl.
  destruct (ev_ph e).
  - destruct HE as (K & _). pose proof (count_ev_le_length (ev_stage e) EvBegin pre). lia.
  - destruct HE as (_ & K). pose proof (count_ev_le_length (ev_stage e) EvEnd pre). lia.
Qed.

Theorem trace_ok_exact : forall n tr, trace_ok n tr = true ->
  exists m fails sched, trace (run n m fails sched init) = tr.
Proof.
  intros n tr HT. exists (length tr), (fun _ _ => false).
  apply (trace_exact n (length tr) (fun _ _ => false) tr). split; [exact HT|].
  apply tr_spec_respects_nofail. apply trace_ok_iff. exact HT.
Qed.

(* the checker without the back-pressure clause accepts an event list that no run emits:
   two stages; stage 1 begins its third item although stage 2 has not taken anything yet *)
Definition loose_witness : list event :=
  [mkEv 1 EvBegin 0; mkEv 1 EvEnd 0; mkEv 1 EvBegin 1; mkEv 1 EvEnd 1; mkEv 1 EvBegin 2].

Theorem trace_ok_loose_not_exact :
  trace_ok_loose 2 loose_witness = true /\
  forall m fails sched, trace (run 2 m fails sched init) <> loose_witness.
Proof.
  split; [vm_compute; reflexivity|].
  intros m fails sched E.
  pose proof (trace_ok_complete_run 2 m fails sched) as H. rewrite E in H.
  vm_compute in H. discriminate.
Qed.
