(* C03 on the rendered report, part 4: the final statements (Properties/C03.v C03_windowed,
   C03_mark_to_market_report) for journals as loaded: the cells of an asset/liability account in a
   valued balance report against the market values computed from the directives. *)
From Coq Require Import ZArith QArith Qabs List Bool Lia Permutation Sorting.Sorted.
From Knut Require Import Model.Str Model.Dec Model.Date Model.Account Model.Ledger Model.Price
     Model.Journal Model.Check Model.Pipeline Model.Table Model.Report Model.Cli
     Spec.DateSpec Spec.WellformedSpec Spec.LedgerSpec Spec.LedgerSyntax Spec.MarkToMarketSpec
     Spec.PriceSpec Spec.PriceDaySpec Spec.ValuationSpec Spec.MarkToMarketReportSpec
     Proofs.DecProofs Proofs.DecValue Proofs.CheckLemmas Proofs.CheckProofs Proofs.PairProofs
     Proofs.DateProofs Proofs.BeancountProofs
     Proofs.LedgerProofs Proofs.CloseProofs Proofs.PriceDayProofs Proofs.ValuationProofs
     Proofs.MarkToMarket Proofs.MarkToMarketReport Proofs.MarkToMarketWindow Proofs.MarkToMarketJournal.
Import ListNotations.
Open Scope Q_scope.

(* the window, per commodity: what the report accumulated for (a, c) up to the period end col is
   the change of the position's market value between the day before the window and col *)
Theorem windowed_report cfg ds r part V :
  bc_valuation cfg = Some V ->
  balance_report cfg ds = COk (r, part) ->
  exists dl,
    parse_directives ds = MOk dl /\
    new_partition (clip (mkPeriod (bc_from cfg) (bc_to cfg)) (journal_period dl)) (bc_interval cfg) (bc_last cfg) = POk part /\
    (postings_syntactic dl ->
     forall a c col, account_ok a = true -> is_AL a = true -> shows_account cfg a -> cfg_where cfg a c = true -> c <> V ->
       (p_start (span part) <= p_end (span part))%Z -> In col (end_dates part) ->
       Qabs (cum_cell a c part col r
             - (mv_cell dl V a c col - mv_cell dl V a c (p_start (span part) - 1)))
         <= inject_Z (cell_steps cfg dl part a c col) * (1 # 100000000)).
Proof.
  intros Hv H. destruct (windowed_report_days cfg ds r part V Hv H) as (dl & Ep & Epart & Hw).
  exists dl. split; [exact Ep|]. split; [exact Epart|].
  intros Hsyn a c col Ha HAL Hsh Hwh Hcv Hspan Hcol.
  specialize (Hw Hsyn a c col Ha HAL Hsh Hwh Hcv Hspan Hcol). cbn zeta in Hw.
  assert (Hle : (p_start (span part) - 1 <= col)%Z).
  { destruct (partition_facts _ _ _ _ Epart) as [_ Htiles]. destruct (Htiles Hspan) as [Ht Hfs].
    destruct (tiles_facts _ _ _ Ht) as [_ Hb]. rewrite Forall_forall in Hb.
    apply in_map_iff in Hcol. destruct Hcol as (q & <- & Hq). specialize (Hb _ Hq). lia. }
  eapply Qle_trans.
  2: { apply Qmult_le_compat_r; [rewrite <- Zle_Qle; exact (day_steps_journal cfg dl part a c col Hle)|discriminate]. }
  eapply Qle_trans; [|exact Hw]. apply Qle_lteq. right. apply Qabs_wd.
  unfold mv_cell. rewrite <- !(qty_on_days_journal (bc_close cfg) dl part).
  rewrite <- !(price_on_days_journal (bc_close cfg) dl part V c _ Hcv). reflexivity.
Qed.

(* nothing booked on (a, c) before the window (in particular: the default window, which starts at
   the first transaction of the journal): no market value to subtract *)
Definition no_booking_before (dl : list directive) (a : account) (c : commodity) (W : Z) : Prop :=
  forall d p, In (d, p) (flat_postings dl) -> cellb a c p = true -> (W <= d)%Z.

Lemma mv_before_zero dl V a c W : no_booking_before dl a c W -> mv_cell dl V a c (W - 1) == 0.
Proof.
  intros H. unfold mv_cell, qty_upto. rewrite dvalue_dsum, qsum_concat_map.
  rewrite LedgerProofs.qsum_zero; [ring|]. intros [d p] Hin.
  destruct ((d <=? W - 1)%Z && acc_eqb (p_acc p) a && str_eqb (p_com p) c) eqn:E; [|reflexivity].
  exfalso. rewrite <- andb_assoc in E. apply andb_true_iff in E. destruct E as [E1 E2].
  specialize (H d p Hin E2). lia.
Qed.

(* the corollary of DESIGN.md: the value shown is quantity * latest price *)
Theorem mark_to_market_report cfg ds r part V :
  bc_valuation cfg = Some V ->
  balance_report cfg ds = COk (r, part) ->
  exists dl,
    parse_directives ds = MOk dl /\
    new_partition (clip (mkPeriod (bc_from cfg) (bc_to cfg)) (journal_period dl)) (bc_interval cfg) (bc_last cfg) = POk part /\
    (postings_syntactic dl ->
     forall a c col, account_ok a = true -> is_AL a = true -> shows_account cfg a -> cfg_where cfg a c = true -> c <> V ->
       (p_start (span part) <= p_end (span part))%Z -> In col (end_dates part) ->
       no_booking_before dl a c (p_start (span part)) ->
       Qabs (cum_cell a c part col r - mv_cell dl V a c col)
         <= inject_Z (cell_steps cfg dl part a c col) * (1 # 100000000)).
Proof.
  intros Hv H. destruct (windowed_report cfg ds r part V Hv H) as (dl & Ep & Epart & Hw).
  exists dl. split; [exact Ep|]. split; [exact Epart|].
  intros Hsyn a c col Ha HAL Hsh Hwh Hcv Hspan Hcol Hnb.
  eapply Qle_trans; [|exact (Hw Hsyn a c col Ha HAL Hsh Hwh Hcv Hspan Hcol)].
  apply Qle_lteq. right. apply Qabs_wd. rewrite (mv_before_zero dl V a c _ Hnb). ring.
Qed.

(* the parser's guarantee (Spec/WellformedSpec.v syntactic, as in C04/C05) gives the side condition *)
Lemma syntactic_loaded ds dl :
  (forall dl', parse_directives ds = MOk dl' -> syntactic dl') -> parse_directives ds = MOk dl -> postings_syntactic dl.
Proof. intros H E. apply syntactic_postings. apply H. exact E. Qed.

(* ------------------------------------------------------------ example data (Properties/C03.v) *)
(* Assets:B buys 1.5 A on 2021-03-01 and 0.3 A on 03-03; A is declared at 1.23456789 C on 03-01,
   2.00000001 C on 03-02 and 3.33333333 C on 03-04.  The report is valued in C, daily, over the
   window 03-02 .. 03-04 (the first purchase lies before the window), with --close. *)
Open Scope Z_scope.
Definition exr_V : commodity := [67].
Definition exr_c : commodity := [65].
Definition exr_a : account := [s_Assets; [66]].
Definition exr_o : account := [s_Equity; [69]].
Definition exr_d0 : Z := Date.of_civil 2021 3 1.
Definition exr_journal : list sdirective :=
  [ SOpen exr_d0 exr_a; SOpen exr_d0 exr_o;
    SPrice exr_d0 exr_c (mkDec 123456789 (-8)) exr_V;
    STxn (mkStxn exr_d0 [] [mkBooking exr_o exr_a (mkDec 15 (-1)) exr_c] None None);
    SPrice (exr_d0 + 1) exr_c (mkDec 200000001 (-8)) exr_V;
    STxn (mkStxn (exr_d0 + 2) [] [mkBooking exr_o exr_a (mkDec 3 (-1)) exr_c] None None);
    SPrice (exr_d0 + 3) exr_c (mkDec 333333333 (-8)) exr_V ].
Definition exr_cfg (close : bool) : balance_cfg :=
  mkBalanceCfg (exr_d0 + 1) (exr_d0 + 3) Daily 0 false close (Some exr_V) true [] [] [] [] [] true.
