(* The text side of Model/RxSyntax.v: every turn of the parse loop reads at least one byte, and the loops
   over the text (the bracket expression) never run out of fuel. *)
From Coq Require Import ZArith List Bool Lia.
From Knut Require Import Model.Str Model.Utf8 Model.RxClass Model.RxSyntax.
Import ListNotations.
Open Scope Z_scope.

Lemma decode_width_pos s : s <> [] -> 1 <= snd (decode s).
Proof.
  intros Hs. destruct s as [|s0 t]; [congruence|]. unfold decode.
  repeat match goal with
         | |- context [if ?c then _ else _] => destruct c
         | |- context [match ?l with [] => _ | _ :: _ => _ end] => destruct l
         end; cbn [snd]; lia.
Qed.

Lemma skipn_length_le {A} n (l : list A) : (length (skipn n l) <= length l)%nat.
Proof. rewrite skipn_length. lia. Qed.

Lemma skipn_length_lt {A} n (l : list A) : l <> [] -> (0 < n)%nat -> (length (skipn n l) < length l)%nat.
Proof. intros Hl Hn. rewrite skipn_length. destruct l; [congruence|]. cbn [length]. lia. Qed.

(* nextRune *)
Lemma next_rune_le s c rest : next_rune s = Ok (c, rest) -> (length rest <= length s)%nat.
Proof.
  unfold next_rune. destruct (decode s) as [c0 w]. destruct ((c0 =? rune_error) && (w =? 1))%bool; [discriminate|].
  intros H. injection H as _ <-. apply skipn_length_le.
Qed.

Lemma next_rune_lt s c rest : s <> [] -> next_rune s = Ok (c, rest) -> (length rest < length s)%nat.
Proof.
  intros Hs. unfold next_rune. pose proof (decode_width_pos s Hs) as Hw. destruct (decode s) as [c0 w]. cbn [snd] in Hw.
  destruct ((c0 =? rune_error) && (w =? 1))%bool; [discriminate|].
  intros H. injection H as _ <-. apply skipn_length_lt; [exact Hs|lia].
Qed.

Lemma next_rune_fuel s : next_rune s <> OutOfFuel.
Proof. unfold next_rune. destruct (decode s) as [c0 w]. destruct ((c0 =? rune_error) && (w =? 1))%bool; discriminate. Qed.

Lemma hex_loop_le t : forall r n x rest, hex_loop t r n = Ok (Some (x, rest)) -> (length rest < length t)%nat.
Proof.
  induction t as [|b t' IH]; intros r n x rest; cbn [hex_loop]; [discriminate|].
  destruct (128 <=? b). { destruct (next_rune (b :: t')) as [[? ?]| |]; discriminate. }
  destruct (b =? 125). { destruct (n =? 0); [discriminate|]. intros H. injection H as _ <-. cbn [length]. lia. }
  destruct (unhex b <? 0); [discriminate|]. destruct (max_rune <? r * 16 + unhex b); [discriminate|].
  intros H. apply IH in H. cbn [length]. lia.
Qed.

Lemma hex_loop_fuel t : forall r n, hex_loop t r n <> OutOfFuel.
Proof.
  induction t as [|b t' IH]; intros r n; cbn [hex_loop]; [discriminate|].
  destruct (128 <=? b). { destruct (next_rune (b :: t')) as [[? ?]| |]; discriminate. }
  destruct (b =? 125). { destruct (n =? 0); discriminate. }
  destruct (unhex b <? 0); [discriminate|]. destruct (max_rune <? r * 16 + unhex b); [discriminate|]. apply IH.
Qed.

(* parseEscape *)
Lemma parse_escape_lt s c rest : parse_escape s = Ok (c, rest) -> (length rest < length s)%nat.
Proof.
  unfold parse_escape. destruct s as [|b0 t0]; cbn [tl]; [discriminate|].
  destruct t0 as [|b1 t1] eqn:Et0; [discriminate|]. rewrite <- Et0.
  assert (Hne : t0 <> []) by (rewrite Et0; discriminate).
  destruct (next_rune t0) as [[c0 t]| |] eqn:Hn; try discriminate.
  pose proof (next_rune_lt _ _ _ Hne Hn) as Hlt. cbn [length].
  assert (Hoct : forall r tt x rr,
    match tt with
    | d1 :: t1' =>
      if is_octal d1 then
        match t1' with
        | d2 :: t2 => if is_octal d2 then Ok ((r * 8 + (d1 - 48)) * 8 + (d2 - 48), t2) else Ok (r * 8 + (d1 - 48), t1')
        | [] => Ok (r * 8 + (d1 - 48), t1')
        end
      else Ok (r, tt)
    | [] => Ok (r, tt)
    end = Ok (x, rr) -> (length rr <= length tt)%nat).
  { intros r tt x rr. destruct tt as [|d1 t1']; [intros H; injection H as _ <-; lia|].
    destruct (is_octal d1); [|intros H; injection H as _ <-; lia].
    destruct t1' as [|d2 t2]; [intros H; injection H as _ <-; cbn [length]; lia|].
    destruct (is_octal d2); intros H; injection H as _ <-; cbn [length]; lia. }
  destruct ((49 <=? c0) && (c0 <=? 55))%bool.
  { destruct t as [|d t']; [discriminate|]. specialize (Hoct (c0 - 48) (d :: t') c rest).
    destruct (is_octal d) eqn:Ed; [|discriminate]. intros H. cbn beta iota in Hoct. rewrite Ed in Hoct. apply Hoct in H. lia. }
  destruct (c0 =? 48). { intros H. apply Hoct in H. lia. }
  destruct (c0 =? 120).
  { destruct t as [|d t'] eqn:Et; [discriminate|]. rewrite <- Et in *.
    destruct (next_rune t) as [[c1 t1']| |] eqn:Hn1; try discriminate.
    pose proof (next_rune_le _ _ _ Hn1) as Hle1.
    destruct (c1 =? 123).
    - destruct (hex_loop t1' 0 0) as [[[x rr]|]| |] eqn:Hh; try discriminate.
      intros H. injection H as _ <-. apply hex_loop_le in Hh. lia.
    - destruct (next_rune t1') as [[c2 t2]| |] eqn:Hn2; try discriminate.
      pose proof (next_rune_le _ _ _ Hn2) as Hle2.
      destruct ((unhex c1 <? 0) || (unhex c2 <? 0))%bool; [discriminate|]. intros H. injection H as _ <-. lia. }
  repeat match goal with |- context [if ?c then _ else _] => destruct c end;
    try discriminate; intros H; injection H as _ <-; lia.
Qed.

Ltac kill_fuel :=
  match goal with
  | H : next_rune _ = OutOfFuel |- _ => exfalso; exact (next_rune_fuel _ H)
  | H : hex_loop _ _ _ = OutOfFuel |- _ => exfalso; exact (hex_loop_fuel _ _ _ H)
  end.

Ltac split_matches :=
  repeat match goal with
         | |- context [match ?x with _ => _ end] =>
           lazymatch x with
           | context [match _ with _ => _ end] => fail
           | _ => idtac
           end;
           match type of x with
           | bool => destruct x
           | _ => destruct x eqn:?
           end; try discriminate; try kill_fuel
         end.

Lemma parse_escape_fuel s : parse_escape s <> OutOfFuel.
Proof. unfold parse_escape. split_matches. Qed.

(* parseUnicodeClass: s begins with \p *)
Lemma lex_unicode_class_lt fold r s b c t r' rest :
  s = b :: c :: t -> lex_unicode_class fold r s = Ok (r', rest) -> (length rest < length s)%nat.
Proof.
  intros Es. unfold lex_unicode_class.
  assert (H2 : (length (skipn 2 s) + 2 = length s)%nat) by (rewrite Es; cbn [skipn length]; lia).
  destruct (next_rune (skipn 2 s)) as [[c0 t1]| |] eqn:Hn; try discriminate.
  pose proof (next_rune_le _ _ _ Hn) as Hle.
  match goal with |- match ?f with _ => _ end = _ -> _ => destruct f as [[name rest0]| |] eqn:Hf end; try discriminate.
  assert (Hr : (length rest0 < length s)%nat).
  { destruct (c0 =? 123).
    - destruct (index_byte 125 s) as [e|]; [|destruct (check_utf8 0 s); discriminate].
      destruct (check_utf8 0 (firstn (e - 3) (skipn 3 s))); [|discriminate]. injection Hf as _ <-.
      rewrite Es. pose proof (skipn_length_le e (c :: t)) as Hsk. cbn [length] in *. lia.
    - injection Hf as _ <-. lia. }
  match goal with |- (let '(_, _) := ?x in _) = _ -> _ => destruct x as [ng nm] end.
  destruct (unicode_table nm) as [[tab ftab]|]; [|discriminate]. intros H. injection H as _ <-. exact Hr.
Qed.

Lemma lex_unicode_class_fuel fold r s : lex_unicode_class fold r s <> OutOfFuel.
Proof.
  unfold lex_unicode_class.
  destruct (next_rune (skipn 2 s)) as [[c0 t1]| |] eqn:Hn; try discriminate; [|kill_fuel].
  split_matches.
Qed.

(* parseClassChar *)
Lemma class_char_lt s c rest : class_char s = Ok (c, rest) -> (length rest < length s)%nat.
Proof.
  unfold class_char. destruct s as [|b t] eqn:Es; [discriminate|]. rewrite <- Es.
  destruct (b =? 92); [apply parse_escape_lt|apply next_rune_lt; rewrite Es; discriminate].
Qed.

Lemma class_char_fuel s : class_char s <> OutOfFuel.
Proof. unfold class_char. destruct s as [|b t]; [discriminate|]. destruct (b =? 92); [apply parse_escape_fuel|apply next_rune_fuel]. Qed.

(* the loop of parseClass: at least the closing bracket is read *)
Lemma class_loop_lt fuel : forall fold t first class c rest,
  class_loop fuel fold t first class = Ok (c, rest) -> (length rest < length t)%nat.
Proof.
  induction fuel as [|fuel IH]; intros fold t first class c rest; cbn [class_loop]; [discriminate|].
  set (range := match class_char t with Ok (lo, t1) => _ | Err e => Err e | OutOfFuel => OutOfFuel end).
  assert (Hrange : range = Ok (c, rest) -> (length rest < length t)%nat).
  { subst range. destruct (class_char t) as [[lo t1]| |] eqn:Hc; try discriminate.
    apply class_char_lt in Hc.
    assert (Hsingle : class_loop fuel fold t1 false (if fold then append_folded_range class lo lo else append_range class lo lo) = Ok (c, rest)
                      -> (length rest < length t)%nat) by (intros H; apply IH in H; lia).
    destruct t1 as [|d [|c1 t2]]; try exact Hsingle.
    destruct (negb (d =? 45) || (c1 =? 93))%bool; [exact Hsingle|].
    destruct (class_char (c1 :: t2)) as [[hi t3]| |] eqn:Hc2; try discriminate.
    apply class_char_lt in Hc2. destruct (hi <? lo); [discriminate|]. intros H. apply IH in H. cbn [length] in *. lia. }
  set (escapes := match t with b :: c0 :: t2 => _ | _ => range end).
  assert (Hesc : escapes = Ok (c, rest) -> (length rest < length t)%nat).
  { subst escapes. destruct t as [|b [|c0 t2]]; try exact Hrange.
    destruct (negb (b =? 92)); [exact Hrange|].
    destruct ((c0 =? 112) || (c0 =? 80))%bool.
    - destruct (lex_unicode_class fold class (b :: c0 :: t2)) as [[class' rest']| |] eqn:Hu; try discriminate.
      apply (lex_unicode_class_lt _ _ _ b c0 t2 _ _ eq_refl) in Hu. intros H. apply IH in H. lia.
    - destruct (perl_group c0); [|exact Hrange]. intros H. apply IH in H. cbn [length] in *. lia. }
  set (named := match t with b :: c0 :: ((_ :: _) as t2) => _ | _ => escapes end).
  assert (Hnamed : named = Ok (c, rest) -> (length rest < length t)%nat).
  { subst named. destruct t as [|b [|c0 [|b2 t3]]]; try exact Hesc.
    destruct ((b =? 91) && (c0 =? 58))%bool; [|exact Hesc].
    destruct (index_pair 58 93 (b2 :: t3)) as [i|]; [|exact Hesc].
    destruct (posix_group (firstn i (b2 :: t3))); [|discriminate].
    intros H. apply IH in H. pose proof (skipn_length_le (i + 2) (b2 :: t3)). cbn [length] in *. lia. }
  destruct t as [|b t']; [exact Hrange|].
  destruct ((b =? 93) && negb first)%bool. { intros H. injection H as _ <-. cbn [length]. lia. }
  destruct (b =? 93); [exact Hrange|exact Hnamed].
Qed.

Lemma class_loop_fuel fuel : forall fold t first class, (length t < fuel)%nat -> class_loop fuel fold t first class <> OutOfFuel.
Proof.
  induction fuel as [|fuel IH]; intros fold t first class Hf; [lia|]. cbn [class_loop].
  set (range := match class_char t with Ok (lo, t1) => _ | Err e => Err e | OutOfFuel => OutOfFuel end).
  assert (Hrange : range <> OutOfFuel).
  { subst range. destruct (class_char t) as [[lo t1]| |] eqn:Hc; try discriminate; [|exact (fun _ => class_char_fuel _ Hc)].
    apply class_char_lt in Hc.
    assert (Hsingle : forall cl, class_loop fuel fold t1 false cl <> OutOfFuel) by (intros cl; apply IH; lia).
    destruct t1 as [|d [|c1 t2]]; try apply Hsingle.
    destruct (negb (d =? 45) || (c1 =? 93))%bool; [apply Hsingle|].
    destruct (class_char (c1 :: t2)) as [[hi t3]| |] eqn:Hc2; try discriminate; [|exact (fun _ => class_char_fuel _ Hc2)].
    apply class_char_lt in Hc2. destruct (hi <? lo); [discriminate|]. apply IH. cbn [length] in *. lia. }
  set (escapes := match t with b :: c0 :: t2 => _ | _ => range end).
  assert (Hesc : escapes <> OutOfFuel).
  { subst escapes. destruct t as [|b [|c0 t2]]; try exact Hrange.
    destruct (negb (b =? 92)); [exact Hrange|].
    destruct ((c0 =? 112) || (c0 =? 80))%bool.
    - destruct (lex_unicode_class fold class (b :: c0 :: t2)) as [[class' rest']| |] eqn:Hu; try discriminate.
      + apply (lex_unicode_class_lt _ _ _ b c0 t2 _ _ eq_refl) in Hu. apply IH. lia.
      + exact (fun _ => lex_unicode_class_fuel _ _ _ Hu).
    - destruct (perl_group c0); [|exact Hrange]. apply IH. cbn [length] in *. lia. }
  set (named := match t with b :: c0 :: ((_ :: _) as t2) => _ | _ => escapes end).
  assert (Hnamed : named <> OutOfFuel).
  { subst named. destruct t as [|b [|c0 [|b2 t3]]]; try exact Hesc.
    destruct ((b =? 91) && (c0 =? 58))%bool; [|exact Hesc].
    destruct (index_pair 58 93 (b2 :: t3)) as [i|]; [|exact Hesc].
    destruct (posix_group (firstn i (b2 :: t3))); [|discriminate].
    apply IH. pose proof (skipn_length_le (i + 2) (b2 :: t3)). cbn [length] in *. lia. }
  destruct t as [|b t']; [exact Hrange|].
  destruct ((b =? 93) && negb first)%bool; [discriminate|].
  destruct (b =? 93); [exact Hrange|exact Hnamed].
Qed.

(* parseClass *)
Lemma lex_class_lt fuel fold s b t c rest : s = b :: t -> lex_class fuel fold s = Ok (c, rest) -> (length rest < length s)%nat.
Proof.
  intros Es. unfold lex_class. rewrite Es. cbn [tl].
  destruct (match t with c0 :: t' => if c0 =? 94 then (true, t') else (false, t) | [] => (false, t) end) as [ng t0] eqn:E.
  assert (Hle : (length t0 <= length t)%nat).
  { destruct t as [|c0 t']; [injection E as _ <-; lia|]. destruct (c0 =? 94); injection E as _ <-; cbn [length]; lia. }
  destruct (class_loop fuel fold t0 true []) as [[class rest0]| |] eqn:Hl; try discriminate.
  apply class_loop_lt in Hl. intros H. injection H as _ <-. cbn [length]. lia.
Qed.

Lemma lex_class_fuel fuel fold s : (length (tl s) < fuel)%nat -> lex_class fuel fold s <> OutOfFuel.
Proof.
  intros Hf. unfold lex_class.
  destruct (match tl s with c0 :: t' => if c0 =? 94 then (true, t') else (false, tl s) | [] => (false, tl s) end) as [ng t0] eqn:E.
  assert (Hle : (length t0 <= length (tl s))%nat).
  { destruct (tl s) as [|c0 t']; [injection E as _ <-; lia|]. destruct (c0 =? 94); injection E as _ <-; cbn [length]; lia. }
  destruct (class_loop fuel fold t0 true []) as [[class rest0]| |] eqn:Hl; try discriminate.
  assert (Hlt : (length t0 < fuel)%nat) by lia.
  exact (fun _ => class_loop_fuel fuel fold t0 true [] Hlt Hl).
Qed.

(* parsePerlFlags *)
Lemma flags_loop_lt t : forall f neg saw tok rest, flags_loop t f neg saw = Ok (tok, rest) -> (length rest < length t)%nat.
Proof.
  induction t as [|b t' IH]; intros f neg saw tok rest; cbn [flags_loop]; [discriminate|].
  destruct (128 <=? b). { destruct (next_rune (b :: t')) as [[? ?]| |]; discriminate. }
  repeat match goal with
         | |- (if ?c then _ else _) = _ -> _ => destruct c
         end; try discriminate;
    try (intros H; apply IH in H; cbn [length]; lia).
  intros H. injection H as _ <-. cbn [length]. lia.
Qed.

Lemma flags_loop_fuel t : forall f neg saw, flags_loop t f neg saw <> OutOfFuel.
Proof.
  induction t as [|b t' IH]; intros f neg saw; cbn [flags_loop]; [discriminate|].
  destruct (128 <=? b). { destruct (next_rune (b :: t')) as [[? ?]| |]; discriminate. }
  repeat match goal with
         | |- (if ?c then _ else _) <> _ => destruct c
         end; try discriminate; apply IH.
Qed.

Lemma lex_perl_flags_lt f s b c t tok rest : s = b :: c :: t -> lex_perl_flags f s = Ok (tok, rest) -> (length rest < length s)%nat.
Proof.
  intros Es. unfold lex_perl_flags.
  assert (Hnamed : forall start,
    match index_byte 62 s with
    | None => if check_utf8 0 s then Err ErrNamedCapture else Err ErrUTF8
    | Some e =>
      let name := firstn (e - start) (skipn start s) in
      if negb (check_utf8 0 name) then Err ErrUTF8
      else if valid_capture_name name then Ok (TNamed name, skipn (S e) s)
      else Err ErrNamedCapture
    end = Ok (tok, rest) -> (length rest < length s)%nat).
  { intros start. destruct (index_byte 62 s) as [e|]; [|destruct (check_utf8 0 s); discriminate].
    cbv zeta. destruct (negb _); [discriminate|]. destruct (valid_capture_name _); [|discriminate].
    intros H. injection H as _ <-. rewrite Es. pose proof (skipn_length_le e (c :: t)). cbn [skipn length] in *. lia. }
  assert (Hplain : flags_loop (skipn 2 s) f false false = Ok (tok, rest) -> (length rest < length s)%nat).
  { intros H. apply flags_loop_lt in H. rewrite Es in *. cbn [skipn length] in *. lia. }
  cbv zeta. rewrite Es in *.
  destruct t as [|c2 [|c3 rest0]]; try exact Hplain.
  destruct ((c2 =? 80) && (c3 =? 60))%bool.
  - destruct rest0; [exact Hplain|apply Hnamed].
  - destruct (c2 =? 60); [apply Hnamed|exact Hplain].
Qed.

Lemma lex_perl_flags_fuel f s : lex_perl_flags f s <> OutOfFuel.
Proof.
  unfold lex_perl_flags. cbv zeta.
  assert (Hnamed : forall start,
    match index_byte 62 s with
    | None => if check_utf8 0 s then Err ErrNamedCapture else Err ErrUTF8
    | Some e =>
      if negb (check_utf8 0 (firstn (e - start) (skipn start s))) then Err ErrUTF8
      else if valid_capture_name (firstn (e - start) (skipn start s)) then Ok (TNamed (firstn (e - start) (skipn start s)), skipn (S e) s)
      else Err ErrNamedCapture
    end <> (OutOfFuel : res (token * str))).
  { intros start. destruct (index_byte 62 s); [|destruct (check_utf8 0 s); discriminate].
    destruct (negb _); [discriminate|]. destruct (valid_capture_name _); discriminate. }
  destruct s as [|b [|c [|c2 [|c3 rest0]]]]; try apply flags_loop_fuel.
  destruct ((c2 =? 80) && (c3 =? 60))%bool.
  - destruct rest0; [apply flags_loop_fuel|apply Hnamed].
  - destruct (c2 =? 60); [apply Hnamed|apply flags_loop_fuel].
Qed.

(* parseRepeat *)
Lemma span_digits_le s : forall d r, span_digits s = (d, r) -> (length r <= length s)%nat.
Proof.
  induction s as [|c t IH]; intros d r; cbn [span_digits]; [intros H; injection H as _ <-; lia|].
  destruct (is_dec_digit c); [|intros H; injection H as _ <-; lia].
  destruct (span_digits t) as [d0 r0]. intros H. injection H as _ <-. specialize (IH d0 r0 eq_refl). cbn [length]. lia.
Qed.

Lemma parse_int_le s n r : parse_int s = Some (n, r) -> (length r <= length s)%nat.
Proof.
  unfold parse_int. destruct s as [|c t]; [discriminate|]. destruct (negb (is_dec_digit c)); [discriminate|].
  destruct ((c =? 48) && _)%bool; [discriminate|].
  destruct (span_digits (c :: t)) as [ds rest] eqn:E. intros H. injection H as _ <-. exact (span_digits_le _ _ _ E).
Qed.

Lemma parse_repeat_le s mn mx r : parse_repeat s = Some (mn, mx, r) -> (length r <= length s)%nat.
Proof.
  unfold parse_repeat. destruct (parse_int s) as [[n s1]|] eqn:E1; [|discriminate]. apply parse_int_le in E1.
  destruct s1 as [|c s2]; [discriminate|]. destruct (c =? 44).
  - destruct s2 as [|d s3]; [discriminate|]. destruct (d =? 125).
    + intros H. injection H as _ _ <-. cbn [length] in *. lia.
    + destruct (parse_int (d :: s3)) as [[m s4]|] eqn:E2; [|discriminate]. apply parse_int_le in E2.
      destruct s4 as [|e s5]; [discriminate|]. destruct (e =? 125); [|discriminate].
      intros H. injection H as _ _ <-. cbn [length] in *. lia.
  - destruct (c =? 125); [|discriminate]. intros H. injection H as _ _ <-. cbn [length] in *. lia.
Qed.

(* one turn of the parse loop reads at least one byte *)
Theorem lex_lt fuel f b t' tok rest : lex fuel f b t' = Ok (tok, rest) -> (length rest <= length t')%nat.
Proof.
  unfold lex. cbv zeta.
  assert (Hlazy : forall after x r, match after with c :: a => if c =? 63 then (true, a) else (false, after) | [] => (false, after) end = (x, r)
                                    -> (length r <= length after)%nat).
  { intros after x r. destruct after as [|c a]; [intros H; injection H as _ <-; lia|].
    destruct (c =? 63); intros H; injection H as _ <-; cbn [length]; lia. }
  destruct (b =? 40).
  { destruct t' as [|c t'']; [intros H; injection H as _ <-; lia|].
    destruct (c =? 63); [|intros H; injection H as _ <-; lia].
    intros H. apply (lex_perl_flags_lt _ _ b c t'' _ _ eq_refl) in H. cbn [length] in *. lia. }
  repeat (match goal with |- (if ?c then _ else _) = _ -> _ => destruct c eqn:? end;
          [try (intros H; injection H as _ <-; lia)|]).
  - (* [ *) destruct (lex_class _ _ _) as [[c rest0]| |] eqn:Hc; try discriminate.
    apply (lex_class_lt _ _ _ b t' _ _ eq_refl) in Hc. intros H. injection H as _ <-. cbn [length] in Hc. lia.
  - (* * + ? *) destruct t' as [|c a]; [|destruct (c =? 63)]; cbv beta iota zeta; intros H; injection H as _ <-; cbn [length]; lia.
  - (* { *) destruct (parse_repeat t') as [[[mn mx] after]|] eqn:Hr; [|intros H; injection H as _ <-; lia].
    apply parse_repeat_le in Hr. match goal with |- (if ?c then _ else _) = _ -> _ => destruct c end; [discriminate|].
    destruct after as [|c a]; [|destruct (c =? 63)]; cbv beta iota zeta; intros H; injection H as _ <-; cbn [length] in *; lia.
  - (* backslash *)
    assert (Hplain : match parse_escape (b :: t') with Ok (c, rest) => Ok (TEscLit c, rest) | Err e => Err e | OutOfFuel => OutOfFuel end = Ok (tok, rest)
                     -> (length rest <= length t')%nat).
    { destruct (parse_escape (b :: t')) as [[c r0]| |] eqn:Hp; try discriminate. apply parse_escape_lt in Hp.
      intros H. injection H as _ <-. cbn [length] in Hp. lia. }
    destruct t' as [|c t'']; [exact Hplain|].
    repeat (match goal with |- (if ?c then _ else _) = _ -> _ => destruct c eqn:? end;
            [try discriminate; try (intros H; injection H as _ <-; cbn [length]; lia)|]).
    + (* \Q *) destruct (index_pair 92 69 t'') as [i|].
      * destruct (runes_of 0 (firstn i t'')) as [rs bad]. intros H. injection H as _ <-.
        pose proof (skipn_length_le (i + 2) t''). cbn [length]. lia.
      * destruct (runes_of 0 t'') as [rs bad]. intros H. injection H as _ <-. cbn [length]. lia.
    + (* \p *) destruct (lex_unicode_class _ _ _) as [[r0 rest0]| |] eqn:Hu; try discriminate.
      apply (lex_unicode_class_lt _ _ _ b c t'' _ _ eq_refl) in Hu. intros H. injection H as _ <-. cbn [length] in *. lia.
    + destruct (perl_group c); [intros H; injection H as _ <-; cbn [length]; lia|exact Hplain].
  - (* a rune *) destruct (next_rune (b :: t')) as [[c r0]| |] eqn:Hn; try discriminate.
    apply next_rune_lt in Hn; [|discriminate]. intros H. injection H as _ <-. cbn [length] in Hn. lia.
Qed.

Theorem lex_fuel fuel f b t' : (length t' < fuel)%nat -> lex fuel f b t' <> OutOfFuel.
Proof.
  intros Hfuel. unfold lex. cbv zeta.
  destruct (b =? 40). { destruct t' as [|c t'']; [discriminate|]. destruct (c =? 63); [apply lex_perl_flags_fuel|discriminate]. }
  repeat (match goal with |- (if ?c then _ else _) <> _ => destruct c eqn:? end; [try discriminate|]).
  - destruct (lex_class _ _ _) as [[c rest0]| |] eqn:Hc; try discriminate. exact (fun _ => lex_class_fuel fuel _ (b :: t') Hfuel Hc).
  - match goal with |- (let '(_, _) := ?x in _) <> _ => destruct x end. discriminate.
  - destruct (parse_repeat t') as [[[mn mx] after]|]; [|discriminate]. match goal with |- (if ?c then _ else _) <> _ => destruct c end; [discriminate|].
    match goal with |- (let '(_, _) := ?x in _) <> _ => destruct x end. discriminate.
  - assert (Hplain : match parse_escape (b :: t') with Ok (c, rest) => Ok (TEscLit c, rest) | Err e => Err e | OutOfFuel => OutOfFuel end
                     <> (OutOfFuel : res (token * str))).
    { destruct (parse_escape (b :: t')) as [[c r0]| |] eqn:Hp; try discriminate. exact (fun _ => parse_escape_fuel _ Hp). }
    destruct t' as [|c t'']; [exact Hplain|].
    repeat (match goal with |- (if ?c then _ else _) <> _ => destruct c eqn:? end; [try discriminate|]).
    + destruct (index_pair 92 69 t''); match goal with |- (let '(_, _) := ?x in _) <> _ => destruct x end; discriminate.
    + destruct (lex_unicode_class _ _ _) as [[r0 rest0]| |] eqn:Hu; try discriminate. exact (fun _ => lex_unicode_class_fuel _ _ _ Hu).
    + destruct (perl_group c); [discriminate|exact Hplain].
  - destruct (next_rune (b :: t')) as [[c r0]| |] eqn:Hn; try discriminate. exact (fun _ => next_rune_fuel _ Hn).
Qed.

(* ---------------------------------------------------------------- no internal error from the text side *)
Lemma next_rune_internal s : next_rune s <> Err ErrInternal.
Proof. unfold next_rune. destruct (decode s) as [c0 w]. destruct ((c0 =? rune_error) && (w =? 1))%bool; discriminate. Qed.

Lemma err_internal_of {A B} (r : res A) e : r = Err e -> r <> Err ErrInternal -> (Err e : res B) <> Err ErrInternal.
Proof. intros -> H HH. injection HH as ->. exact (H eq_refl). Qed.

Lemma hex_loop_internal t : forall r n, hex_loop t r n <> Err ErrInternal.
Proof.
  induction t as [|b t' IH]; intros r n; cbn [hex_loop]; [discriminate|].
  destruct (128 <=? b). { destruct (next_rune (b :: t')) as [[? ?]| |] eqn:Hn; try discriminate. exact (err_internal_of _ _ Hn (next_rune_internal _)). }
  destruct (b =? 125). { destruct (n =? 0); discriminate. }
  destruct (unhex b <? 0); [discriminate|]. destruct (max_rune <? r * 16 + unhex b); [discriminate|]. apply IH.
Qed.

Ltac kill_internal :=
  match goal with
  | H : next_rune _ = Err ?e |- _ => exact (err_internal_of _ _ H (next_rune_internal _))
  | H : hex_loop _ _ _ = Err ?e |- _ => exact (err_internal_of _ _ H (hex_loop_internal _ _ _))
  end.

Ltac split_matches_i :=
  repeat match goal with
         | |- context [match ?x with _ => _ end] =>
           lazymatch x with
           | context [match _ with _ => _ end] => fail
           | _ => idtac
           end;
           match type of x with
           | bool => destruct x
           | _ => destruct x eqn:?
           end; try discriminate; try kill_internal
         end.

Lemma parse_escape_internal s : parse_escape s <> Err ErrInternal.
Proof. unfold parse_escape. split_matches_i. Qed.

Lemma lex_unicode_class_internal fold r s : lex_unicode_class fold r s <> Err ErrInternal.
Proof.
  unfold lex_unicode_class.
  destruct (next_rune (skipn 2 s)) as [[c0 t1]| |] eqn:Hn; try discriminate; [|kill_internal].
  split_matches_i.
Qed.

Lemma class_char_internal s : class_char s <> Err ErrInternal.
Proof. unfold class_char. destruct s as [|b t]; [discriminate|]. destruct (b =? 92); [apply parse_escape_internal|apply next_rune_internal]. Qed.

Lemma class_loop_internal fuel : forall fold t first class, class_loop fuel fold t first class <> Err ErrInternal.
Proof.
  induction fuel as [|fuel IH]; intros fold t first class; [discriminate|]. cbn [class_loop].
  set (range := match class_char t with Ok (lo, t1) => _ | Err e => Err e | OutOfFuel => OutOfFuel end).
  assert (Hrange : range <> Err ErrInternal).
  { subst range. destruct (class_char t) as [[lo t1]| |] eqn:Hc; try discriminate; [|exact (err_internal_of _ _ Hc (class_char_internal _))].
    destruct t1 as [|d [|c1 t2]]; try apply IH.
    destruct (negb (d =? 45) || (c1 =? 93))%bool; [apply IH|].
    destruct (class_char (c1 :: t2)) as [[hi t3]| |] eqn:Hc2; try discriminate; [|exact (err_internal_of _ _ Hc2 (class_char_internal _))].
    destruct (hi <? lo); [discriminate|]. apply IH. }
  set (escapes := match t with b :: c0 :: t2 => _ | _ => range end).
  assert (Hesc : escapes <> Err ErrInternal).
  { subst escapes. destruct t as [|b [|c0 t2]]; try exact Hrange.
    destruct (negb (b =? 92)); [exact Hrange|].
    destruct ((c0 =? 112) || (c0 =? 80))%bool.
    - destruct (lex_unicode_class fold class (b :: c0 :: t2)) as [[class' rest']| |] eqn:Hu; try discriminate; [apply IH|].
      exact (err_internal_of _ _ Hu (lex_unicode_class_internal _ _ _)).
    - destruct (perl_group c0); [apply IH|exact Hrange]. }
  set (named := match t with b :: c0 :: ((_ :: _) as t2) => _ | _ => escapes end).
  assert (Hnamed : named <> Err ErrInternal).
  { subst named. destruct t as [|b [|c0 [|b2 t3]]]; try exact Hesc.
    destruct ((b =? 91) && (c0 =? 58))%bool; [|exact Hesc].
    destruct (index_pair 58 93 (b2 :: t3)) as [i|]; [|exact Hesc].
    destruct (posix_group (firstn i (b2 :: t3))); [apply IH|discriminate]. }
  destruct t as [|b t']; [exact Hrange|].
  destruct ((b =? 93) && negb first)%bool; [discriminate|].
  destruct (b =? 93); [exact Hrange|exact Hnamed].
Qed.

Lemma lex_class_internal fuel fold s : lex_class fuel fold s <> Err ErrInternal.
Proof.
  unfold lex_class.
  destruct (match tl s with c0 :: t' => if c0 =? 94 then (true, t') else (false, tl s) | [] => (false, tl s) end) as [ng t0].
  destruct (class_loop fuel fold t0 true []) as [[class rest0]| |] eqn:Hl; try discriminate.
  exact (err_internal_of _ _ Hl (class_loop_internal _ _ _ _ _)).
Qed.

Lemma flags_loop_internal t : forall f neg saw, flags_loop t f neg saw <> Err ErrInternal.
Proof.
  induction t as [|b t' IH]; intros f neg saw; cbn [flags_loop]; [discriminate|].
  destruct (128 <=? b). { destruct (next_rune (b :: t')) as [[? ?]| |] eqn:Hn; try discriminate. kill_internal. }
  repeat match goal with
         | |- (if ?c then _ else _) <> _ => destruct c
         end; try discriminate; apply IH.
Qed.

Lemma lex_perl_flags_internal f s : lex_perl_flags f s <> Err ErrInternal.
Proof.
  unfold lex_perl_flags. cbv zeta.
  assert (Hnamed : forall start,
    match index_byte 62 s with
    | None => if check_utf8 0 s then Err ErrNamedCapture else Err ErrUTF8
    | Some e =>
      if negb (check_utf8 0 (firstn (e - start) (skipn start s))) then Err ErrUTF8
      else if valid_capture_name (firstn (e - start) (skipn start s)) then Ok (TNamed (firstn (e - start) (skipn start s)), skipn (S e) s)
      else Err ErrNamedCapture
    end <> (Err ErrInternal : res (token * str))).
  { intros start. destruct (index_byte 62 s); [|destruct (check_utf8 0 s); discriminate].
    destruct (negb _); [discriminate|]. destruct (valid_capture_name _); discriminate. }
  destruct s as [|b [|c [|c2 [|c3 rest0]]]]; try apply flags_loop_internal.
  destruct ((c2 =? 80) && (c3 =? 60))%bool.
  - destruct rest0; [apply flags_loop_internal|apply Hnamed].
  - destruct (c2 =? 60); [apply Hnamed|apply flags_loop_internal].
Qed.

Theorem lex_internal fuel f b t' : lex fuel f b t' <> Err ErrInternal.
Proof.
  unfold lex. cbv zeta.
  destruct (b =? 40). { destruct t' as [|c t'']; [discriminate|]. destruct (c =? 63); [apply lex_perl_flags_internal|discriminate]. }
  repeat (match goal with |- (if ?c then _ else _) <> _ => destruct c eqn:? end; [try discriminate|]).
  - destruct (lex_class _ _ _) as [[c rest0]| |] eqn:Hc; try discriminate. exact (err_internal_of _ _ Hc (lex_class_internal _ _ _)).
  - match goal with |- (let '(_, _) := ?x in _) <> _ => destruct x end. discriminate.
  - destruct (parse_repeat t') as [[[mn mx] after]|]; [|discriminate]. match goal with |- (if ?c then _ else _) <> _ => destruct c end; [discriminate|].
    match goal with |- (let '(_, _) := ?x in _) <> _ => destruct x end. discriminate.
  - assert (Hplain : match parse_escape (b :: t') with Ok (c, rest) => Ok (TEscLit c, rest) | Err e => Err e | OutOfFuel => OutOfFuel end
                     <> (Err ErrInternal : res (token * str))).
    { destruct (parse_escape (b :: t')) as [[c r0]| |] eqn:Hp; try discriminate. exact (err_internal_of _ _ Hp (parse_escape_internal _)). }
    destruct t' as [|c t'']; [exact Hplain|].
    repeat (match goal with |- (if ?c then _ else _) <> _ => destruct c eqn:? end; [try discriminate|]).
    + destruct (index_pair 92 69 t''); match goal with |- (let '(_, _) := ?x in _) <> _ => destruct x end; discriminate.
    + destruct (lex_unicode_class _ _ _) as [[r0 rest0]| |] eqn:Hu; try discriminate. exact (err_internal_of _ _ Hu (lex_unicode_class_internal _ _ _)).
    + destruct (perl_group c); [discriminate|exact Hplain].
  - destruct (next_rune (b :: t')) as [[c r0]| |] eqn:Hn; try discriminate. kill_internal.
Qed.
