(* Lemmas about Model/Flags.v and Model/CliFlags.v (C14, flag handling). *)
From Coq Require Import ZArith List Bool Lia.
From Knut Require Import Model.RxSyntax.   (* first: the names of the modules below take precedence *)
From Knut Require Import Model.Str Model.Date Model.Flags Model.Loader Model.CliSafe Model.CliFlags
     Proofs.CalendarSweep Proofs.CalendarProofs.
Import ListNotations.
Open Scope bool_scope.
Open Scope Z_scope.

(* ---------------------------------------------------------------- strconv *)

Lemma digit_val_nonneg c d : digit_val c = Some d -> 0 <= d.
Proof.
  unfold digit_val. intros H.
  destruct ((48 <=? c) && (c <=? 57)) eqn:E1.
  - apply andb_true_iff in E1. destruct E1 as [A B]. apply Z.leb_le in A. injection H as <-. lia.
  - destruct ((97 <=? c) && (c <=? 122)) eqn:E2.
    + apply andb_true_iff in E2. destruct E2 as [A B]. apply Z.leb_le in A. injection H as <-. lia.
    + destruct ((65 <=? c) && (c <=? 90)) eqn:E3; [|discriminate].
      apply andb_true_iff in E3. destruct E3 as [A B]. apply Z.leb_le in A. injection H as <-. lia.
Qed.

Lemma pu_loop_nonneg base maxval base0 : 0 < base ->
  forall s n us r us', 0 <= n -> pu_loop base maxval base0 s n us = PUOk r us' -> 0 <= r.
Proof.
  intros Hb. induction s as [|c t IH]; intros n us r us' Hn H; cbn [pu_loop] in H.
  - injection H as <- _. exact Hn.
  - destruct ((c =? 95) && base0).
    + eapply IH; eauto.
    + destruct (digit_val c) as [d|] eqn:Ed; [|discriminate].
      destruct (base <=? d); [discriminate|].
      destruct (pu_cutoff base <=? n); [discriminate|].
      destruct (maxval <? n * base + d); [discriminate|].
      pose proof (digit_val_nonneg _ _ Ed) as Hd.
      eapply IH; [|exact H]. pose proof (Z.mul_nonneg_nonneg n base Hn ltac:(lia)). lia.
Qed.

Lemma base_prefix_pos s b r : base_prefix s = (b, r) -> 0 < b.
Proof.
  unfold base_prefix. intros H.
  destruct s as [|c rest]; [injection H as <- _; lia|].
  destruct (c =? 48); [|injection H as <- _; lia].
  destruct rest as [|q [|q2 t]]; try (injection H as <- _; lia).
  destruct (is_b q); [injection H as <- _; lia|].
  destruct (is_o q); [injection H as <- _; lia|].
  destruct (is_x q); injection H as <- _; lia.
Qed.

Lemma parse_uint_nonneg s bits n : parse_uint s 0 bits = NOk n -> 0 <= n.
Proof.
  unfold parse_uint. destruct s as [|c t]; [discriminate|].
  change (0 =? 0) with true. cbv iota.
  destruct (base_prefix (c :: t)) as [b digits] eqn:Eb.
  pose proof (base_prefix_pos _ _ _ Eb) as Hb.
  destruct (pu_loop b (2 ^ bits - 1) true digits 0 false) as [r us|e] eqn:El; [|discriminate].
  pose proof (pu_loop_nonneg b _ true Hb digits 0 false r us ltac:(lia) El) as Hr.
  destruct (us && negb (underscore_ok (c :: t))); [discriminate|].
  intros H. injection H as <-. exact Hr.
Qed.

(* ParseInt(s, 0, bits): an accepted value lies in [-2^(bits-1), 2^(bits-1)) *)
Lemma parse_int_range s bits n : 1 <= bits -> parse_int s 0 bits = NOk n ->
  - 2 ^ (bits - 1) <= n < 2 ^ (bits - 1).
Proof.
  intros Hbits. unfold parse_int. destruct s as [|c t]; [discriminate|].
  set (body := if (c =? 43) || (c =? 45) then t else c :: t).
  destruct (parse_uint body 0 bits) as [un|e] eqn:Eu; [|discriminate].
  pose proof (parse_uint_nonneg _ _ _ Eu) as Hun.
  assert (Hpow : 0 < 2 ^ (bits - 1)) by (apply Z.pow_pos_nonneg; lia).
  destruct (c =? 45); cbn [negb andb].
  - destruct (2 ^ (bits - 1) <? un) eqn:E; [discriminate|].
    apply Z.ltb_ge in E. intros H. injection H as <-. lia.
  - destruct (2 ^ (bits - 1) <=? un) eqn:E; [discriminate|].
    apply Z.leb_gt in E. intros H. injection H as <-. lia.
Qed.

(* ---------------------------------------------------------------- dates *)

Lemma is_dec_range c : is_dec c = true -> 0 <= c - 48 <= 9.
Proof. unfold is_dec. intros H. apply andb_true_iff in H. destruct H as [A B]. apply Z.leb_le in A, B. lia. Qed.

Lemma parse_date_flag_year s d : parse_date_flag s = Some d -> 0 <= year_of d <= 9999.
Proof.
  unfold parse_date_flag.
  destruct s as [|y1 [|y2 [|y3 [|y4 [|h1 [|m1 [|m2 [|h2 [|d1 [|d2 [|x t]]]]]]]]]]]; try discriminate.
  destruct (is_dec y1) eqn:A1; [|discriminate].
  destruct (is_dec y2) eqn:A2; [|discriminate].
  destruct (is_dec y3) eqn:A3; [|discriminate].
  destruct (is_dec y4) eqn:A4; [|discriminate].
  cbn [andb].
  destruct ((h1 =? 45) && is_dec m1 && is_dec m2 && (h2 =? 45) && is_dec d1 && is_dec d2); [|discriminate].
  apply is_dec_range in A1, A2, A3, A4.
  set (y := 1000 * (y1 - 48) + 100 * (y2 - 48) + 10 * (y3 - 48) + (y4 - 48)).
  set (m := 10 * (m1 - 48) + (m2 - 48)). set (dd := 10 * (d1 - 48) + (d2 - 48)).
  unfold parse_ymd.
  destruct ((1 <=? m) && (m <=? 12) && (1 <=? dd) && (dd <=? days_in_month y m)) eqn:Ev; [|discriminate].
  intros H. injection H as <-.
  assert (Hv : valid_civil (y, m, dd)) by (apply valid_civil_b_iff; exact Ev).
  unfold year_of. rewrite (civil_of_civil _ _ _ Hv). cbn [fst]. subst y. lia.
Qed.

(* ---------------------------------------------------------------- the mapping flag *)

Lemma split_first_inv c : forall s a ob, split_first c s = (a, ob) ->
  ~ In c a /\ s = a ++ match ob with None => [] | Some b => c :: b end.
Proof.
  induction s as [|x t IH]; intros a ob H; cbn [split_first] in H.
  - injection H as <- <-. split; [intros []|reflexivity].
  - destruct (x =? c) eqn:E.
    + injection H as <- <-. apply Z.eqb_eq in E. subst x. split; [intros []|reflexivity].
    + destruct (split_first c t) as [a' b'] eqn:Et. injection H as <- <-.
      destruct (IH _ _ eq_refl) as [Hn Hs]. apply Z.eqb_neq in E. split.
      * intros [F|F]; [congruence|exact (Hn F)].
      * cbn [app]. f_equal. exact Hs.
Qed.

Lemma split_first_none c : forall s, ~ In c s -> split_first c s = (s, None).
Proof.
  induction s as [|x t IH]; intros Hn; cbn [split_first]; [reflexivity|].
  destruct (x =? c) eqn:E.
  - apply Z.eqb_eq in E. exfalso. apply Hn. left. exact E.
  - rewrite IH; [reflexivity|]. intros F. apply Hn. right. exact F.
Qed.

Lemma split_first_some c : forall a b, ~ In c a -> split_first c (a ++ c :: b) = (a, Some b).
Proof.
  induction a as [|x t IH]; intros b Hn; cbn [app split_first].
  - rewrite Z.eqb_refl. reflexivity.
  - destruct (x =? c) eqn:E.
    + apply Z.eqb_eq in E. exfalso. apply Hn. left. exact E.
    + rewrite IH; [reflexivity|]. intros F. apply Hn. right. exact F.
Qed.

Lemma existsb_eqb_false c s : existsb (Z.eqb c) s = false <-> ~ In c s.
Proof.
  split.
  - intros H F. assert (existsb (Z.eqb c) s = true) by (apply existsb_exists; exists c; split; [exact F|apply Z.eqb_refl]). congruence.
  - intros H. destruct (existsb (Z.eqb c) s) eqn:E; [|reflexivity].
    apply existsb_exists in E. destruct E as [x [Hi He]]. apply Z.eqb_eq in He. subst x. contradiction.
Qed.

(* the text of an accepted -m value, independently of the parser: numbers, optionally a comma and
   an expression; the numbers are one integer, or two separated by one colon *)
Definition mapping_numbers (nums : str) (l sf : Z) : Prop :=
  (~ In 58 nums /\ atoi nums = NOk l /\ sf = 0) \/
  (exists a b, nums = a ++ 58 :: b /\ ~ In 58 a /\ ~ In 58 b /\ atoi a = NOk l /\ atoi b = NOk sf).

Definition mapping_text (v : str) (l sf : Z) (r : option str) : Prop :=
  exists nums, ~ In 44 nums /\ v = nums ++ match r with None => [] | Some x => 44 :: x end /\ mapping_numbers nums l sf.

Lemma mapping_finish_ok l sf r l' sf' r' :
  mapping_finish l sf r = MapOk l' sf' r' <->
  l' = l /\ sf' = sf /\ r' = r /\ 0 <= l /\ 0 <= sf /\ (forall x, r = Some x -> rx_valid x = true).
Proof.
  unfold mapping_finish. split.
  - destruct ((l <? 0) || (sf <? 0)) eqn:E; [discriminate|].
    apply orb_false_iff in E. destruct E as [A B]. apply Z.ltb_ge in A, B.
    destruct r as [x|].
    + destruct (rx_valid x) eqn:Ec; try discriminate. intros H. injection H as <- <- <-.
      repeat split; try assumption. intros y Hy. injection Hy as <-. exact Ec.
    + intros H. injection H as <- <- <-. repeat split; try assumption. intros y Hy. discriminate.
  - intros (-> & -> & -> & A & B & C).
    assert (E : (l <? 0) || (sf <? 0) = false).
    { apply orb_false_iff. split; apply Z.ltb_ge; assumption. }
    rewrite E. destruct r as [x|]; [|reflexivity]. rewrite (C x eq_refl). reflexivity.
Qed.

Theorem mapping_flag_iff v l sf r :
  parse_mapping v = MapOk l sf r <->
  mapping_text v l sf r /\ 0 <= l /\ 0 <= sf /\ (forall x, r = Some x -> rx_valid x = true).
Proof.
  unfold parse_mapping. split.
  - destruct (split_first 44 v) as [nums rxpart] eqn:Ev.
    destruct (split_first_inv _ _ _ _ Ev) as [Hn44 Hv].
    destruct (split_first 58 nums) as [a ob] eqn:En.
    destruct (split_first_inv _ _ _ _ En) as [Hn58 Hnums].
    destruct ob as [b|].
    + destruct (existsb (Z.eqb 58) b) eqn:Eb; [discriminate|].
      apply existsb_eqb_false in Eb.
      destruct (atoi a) as [la|] eqn:Ea; [|discriminate].
      destruct (atoi b) as [sb|] eqn:Eb2; [|discriminate].
      intros H. apply mapping_finish_ok in H. destruct H as (-> & -> & -> & A & B & C).
      split; [|tauto]. exists nums. repeat split; try assumption.
      right. exists a, b. repeat split; assumption.
    + destruct (atoi a) as [la|] eqn:Ea; [|discriminate].
      intros H. apply mapping_finish_ok in H. destruct H as (-> & -> & -> & A & B & C).
      split; [|tauto]. exists nums. repeat split; try assumption.
      left. rewrite app_nil_r in Hnums. subst a. repeat split; assumption.
  - intros [(nums & Hn44 & Hv & Hnum) (A & B & C)].
    assert (Es : split_first 44 v = (nums, r)).
    { subst v. destruct r as [x|]; [apply split_first_some; exact Hn44|].
      rewrite app_nil_r. apply split_first_none. exact Hn44. }
    rewrite Es. destruct Hnum as [(Hn58 & Ha & ->)|(a & b & -> & Ha58 & Hb58 & Ha & Hb)].
    + rewrite (split_first_none _ _ Hn58), Ha. apply mapping_finish_ok. tauto.
    + rewrite (split_first_some _ _ b Ha58).
      apply existsb_eqb_false in Hb58. rewrite Hb58, Ha, Hb. apply mapping_finish_ok. tauto.
Qed.

(* ---------------------------------------------------------------- every value: total, in range *)

Lemma parse_value_in_range k s v : parse_value k s = VOk v -> value_in_range k v = true.
Proof.
  destruct k; cbn [parse_value].
  - destruct (parse_bool s); [|discriminate]. intros H. injection H as <-. reflexivity.
  - unfold int_value. destruct (parse_int s 0 64) as [n|[|]] eqn:E; try discriminate.
    intros H. injection H as <-. pose proof (parse_int_range s 64 n ltac:(lia) E) as R.
    change (2 ^ (64 - 1)) with (2 ^ 63) in R. cbn [value_in_range].
    apply andb_true_iff. split; [apply Z.leb_le|apply Z.ltb_lt]; lia.
  - unfold int_value. destruct (parse_int s 0 32) as [n|[|]] eqn:E; try discriminate.
    intros H. injection H as <-. pose proof (parse_int_range s 32 n ltac:(lia) E) as R.
    change (2 ^ (32 - 1)) with (2 ^ 31) in R. cbn [value_in_range].
    apply andb_true_iff. split; [apply Z.leb_le|apply Z.ltb_lt]; lia.
  - destruct (parse_date_flag s) as [d|] eqn:E; [|discriminate].
    intros H. injection H as <-. pose proof (parse_date_flag_year _ _ E) as R. cbn [value_in_range].
    apply andb_true_iff. split; apply Z.leb_le; lia.
  - destruct (rx_valid s); try discriminate. intros H. injection H as <-. reflexivity.
  - destruct (parse_mapping s) as [l sf r|[| | |]] eqn:E; try discriminate.
    intros H. injection H as <-. apply mapping_flag_iff in E. destruct E as (_ & A & B & _).
    cbn [value_in_range]. apply andb_true_iff. split; apply Z.leb_le; assumption.
  - intros H. injection H as <-. reflexivity.
Qed.

(* every flag kind, every string: accepted with a value in range, or rejected *)
Theorem flags_total k s :
  (exists v, parse_value k s = VOk v /\ value_in_range k v = true) \/ (exists e, parse_value k s = VErr e).
Proof.
  destruct (parse_value k s) as [v|e] eqn:E.
  - left. exists v. split; [reflexivity|]. eapply parse_value_in_range; eauto.
  - right. exists e. reflexivity.
Qed.

(* ---------------------------------------------------------------- the argument list *)

Lemma find_long_in defs name d : find_long defs name = Some d -> In d defs /\ str_eqb (f_name d) name = true.
Proof.
  induction defs as [|x t IH]; cbn [find_long]; [discriminate|].
  destruct (str_eqb (f_name x) name) eqn:E.
  - intros H. injection H as <-. split; [left; reflexivity|exact E].
  - intros H. destruct (IH H). split; [right|]; assumption.
Qed.

Lemma find_short_in defs c d : find_short defs c = Some d -> In d defs.
Proof.
  induction defs as [|x t IH]; cbn [find_short]; [discriminate|].
  destruct ((f_short x =? c) && negb (c =? 0)).
  - intros H. injection H as <-. left. reflexivity.
  - intros H. right. exact (IH H).
Qed.

(* a setting produced by the parse: the flag is one of the command's, the value is what the flag's
   parser made of some text *)
Definition setting_ok (defs : list fdef) (nv : setting) : Prop :=
  exists d src, In d defs /\ f_name d = fst nv /\ parse_value (f_kind d) src = VOk (snd nv).

Lemma set_flag_sets defs d v l u : In d defs -> set_flag d v = ASets l u -> Forall (setting_ok defs) l.
Proof.
  intros Hd. unfold set_flag. destruct (parse_value (f_kind d) v) as [x|] eqn:E; try discriminate.
  intros H. injection H as <- _. constructor; [|constructor].
  exists d, v. repeat split; assumption.
Qed.

Lemma set_flag_sets' defs d v u : In d defs ->
  forall l u', match set_flag d v with ASets l0 _ => ASets l0 u | r => r end = ASets l u' -> Forall (setting_ok defs) l.
Proof.
  intros Hd l u'. destruct (set_flag d v) as [l0 u0| | |] eqn:E; try discriminate.
  intros H. injection H as <- _. eapply set_flag_sets; eauto.
Qed.

Lemma long_arg_sets defs body next l u : long_arg defs body next = ASets l u -> Forall (setting_ok defs) l.
Proof.
  unfold long_arg. destruct body as [|c t]; [discriminate|].
  destruct ((c =? 45) || (c =? 61)); [discriminate|].
  destruct (split_first 61 (c :: t)) as [name eqval].
  destruct (find_long defs name) as [d|] eqn:Ef; [|discriminate].
  destruct (find_long_in _ _ _ Ef) as [Hd _].
  destruct eqval as [v|].
  - apply set_flag_sets. exact Hd.
  - destruct (f_kind d) eqn:Ek; try (destruct next as [v|]; [apply (set_flag_sets' defs d v true Hd)|discriminate]).
    apply set_flag_sets. exact Hd.
Qed.

Lemma short_args_sets defs next : forall sh l u, short_args defs sh next = ASets l u -> Forall (setting_ok defs) l.
Proof.
  induction sh as [|c rest IH]; intros l u H; cbn [short_args] in H.
  - injection H as <- _. constructor.
  - destruct (find_short defs c) as [d|] eqn:Ef; [|discriminate].
    pose proof (find_short_in _ _ _ Ef) as Hd.
    assert (Hlast : forall v used l u, match set_flag d v with ASets l0 _ => ASets l0 used | r => r end = ASets l u ->
                                        Forall (setting_ok defs) l).
    { intros v used l0 u0. apply set_flag_sets'. exact Hd. }
    assert (Hgen : match f_kind d with
                   | KBool =>
                     match set_flag d k_true with
                     | ASets l0 _ => match short_args defs rest next with ASets l' u0 => ASets (l0 ++ l') u0 | r => r end
                     | r => r
                     end
                   | _ =>
                     match rest with
                     | _ :: _ => match set_flag d rest with ASets l0 _ => ASets l0 false | r => r end
                     | [] => match next with
                             | Some v => match set_flag d v with ASets l0 _ => ASets l0 true | r => r end
                             | None => AErr (PNeedsArg [c])
                             end
                     end
                   end = ASets l u -> Forall (setting_ok defs) l).
    { destruct (f_kind d) eqn:Ek;
        try (destruct rest as [|r0 rt]; [destruct next as [v|]; [apply Hlast|discriminate]|apply Hlast]).
      destruct (set_flag d k_true) as [l0 u0| | |] eqn:Es; try discriminate.
      destruct (short_args defs rest next) as [l' u1| | |] eqn:Er; try discriminate.
      intros H'. injection H' as <- _. apply Forall_app. split.
      - eapply set_flag_sets; eauto.
      - eapply IH; eauto. }
    destruct rest as [|r0 [|r1 rt]]; try exact (Hgen H).
    destruct (r0 =? 61); [eapply Hlast; exact H|exact (Hgen H)].
Qed.

Lemma arg_step_sets defs s next l u : arg_step defs s next = ASets l u -> Forall (setting_ok defs) l.
Proof.
  unfold arg_step. intros H.
  destruct s as [|a [|b t]]; try discriminate.
  destruct (a =? 45); [|discriminate].
  destruct (b =? 45); [eapply long_arg_sets|eapply short_args_sets]; exact H.
Qed.

Lemma pres_add_sets defs l p r sets pos :
  Forall (setting_ok defs) l ->
  (forall s q, r = PArgs s q -> Forall (setting_ok defs) s) ->
  pres_add l p r = PArgs sets pos -> Forall (setting_ok defs) sets.
Proof.
  intros Hl Hr. destruct r as [s q|]; cbn [pres_add]; try discriminate.
  intros H. injection H as <- _. apply Forall_app. split; [exact Hl|eapply Hr; reflexivity].
Qed.

Theorem parse_args_sound defs : forall args sets pos,
  parse_args defs args = PArgs sets pos -> Forall (setting_ok defs) sets.
Proof.
  assert (G : forall n args, (length args <= n)%nat -> forall sets pos,
             parse_args defs args = PArgs sets pos -> Forall (setting_ok defs) sets).
  { induction n as [|n IH]; intros args Hlen sets pos H.
    - destruct args; [|cbn in Hlen; lia]. cbn in H. injection H as <- _. constructor.
    - destruct args as [|s rest]; [cbn in H; injection H as <- _; constructor|].
      cbn [parse_args] in H. cbn [length] in Hlen.
      destruct (arg_step defs s (hd_error rest)) as [l u| | |] eqn:Es; try discriminate.
      + pose proof (arg_step_sets _ _ _ _ _ Es) as Hl.
        destruct u.
        * destruct rest as [|x rest']; [discriminate|].
          eapply pres_add_sets; [exact Hl| |exact H].
          intros s0 q Hq. eapply (IH rest'); [cbn [length] in Hlen; lia|exact Hq].
        * eapply pres_add_sets; [exact Hl| |exact H].
          intros s0 q Hq. eapply (IH rest); [lia|exact Hq].
      + eapply pres_add_sets; [constructor| |exact H].
        intros s0 q Hq. eapply (IH rest); [lia|exact Hq].
      + injection H as <- _. constructor. }
  intros args. apply (G (length args)). lia.
Qed.

(* an accepted command line holds only accepted values, each in the range of its flag *)
Corollary cmdline_values_in_range c argv sets pos :
  parse_cmdline c argv = CLRun sets pos ->
  Forall (fun nv => exists d, In d (cmd_flags c) /\ f_name d = fst nv /\ value_in_range (f_kind d) (snd nv) = true) sets.
Proof.
  unfold parse_cmdline. destruct (parse_args (cmd_flags c) argv) as [s p|] eqn:E; try discriminate.
  pose proof (parse_args_sound _ _ _ _ E) as Hs.
  destruct (get_bool n_help false s); [discriminate|].
  destruct (negb _); [discriminate|].
  destruct (match c with CmdInfer => negb (changed n_training s) | _ => false end); [discriminate|].
  destruct (has_multiperiod c && (1 <? exclusive_count s)); [discriminate|].
  intros H. injection H as <- _.
  eapply Forall_impl; [|exact Hs].
  intros nv (d & src & Hd & Hn & Hp). exists d. repeat split; try assumption.
  eapply parse_value_in_range; eauto.
Qed.

(* a rejected value directly after its flag: whatever follows is not looked at *)
Lemma rejected_long_value defs d v e rest :
  find_long defs (f_name d) = Some d -> f_kind d <> KBool -> ~ In 61 (f_name d) ->
  match f_name d with [] => False | c :: _ => c <> 45 /\ c <> 61 end ->
  parse_value (f_kind d) v = VErr e ->
  parse_args defs ((45 :: 45 :: f_name d) :: v :: rest) = PErr (PInvalid (f_name d) e).
Proof.
  intros Hf Hk Heq Hc Hv. cbn [parse_args hd_error]. unfold arg_step. rewrite !Z.eqb_refl.
  unfold long_arg. destruct (f_name d) as [|c t] eqn:En; [contradiction|].
  destruct Hc as [H1 H2]. apply Z.eqb_neq in H1, H2. rewrite H1, H2. cbn [orb].
  rewrite (split_first_none 61 (c :: t) Heq). rewrite Hf.
  destruct (f_kind d) eqn:Ek; try congruence; unfold set_flag; rewrite Ek, Hv, En; reflexivity.
Qed.

(* ---------------------------------------------------------------- usage errors end the command *)

Theorem flag_error_is_clean c today argv e :
  parse_cmdline c argv = CLRejected e ->
  forall fs, run_argv c today argv fs = ORejected e.
Proof. intros H fs. unfold run_argv. rewrite H. reflexivity. Qed.

(* no Panic, no success, the file system is not consulted *)
Corollary flag_error_no_panic c today argv e fs :
  parse_cmdline c argv = CLRejected e ->
  run_argv c today argv fs <> ORun PredPANIC /\ run_argv c today argv fs <> ORun PredOK /\
  forall fs', run_argv c today argv fs' = run_argv c today argv fs.
Proof.
  intros H. rewrite (flag_error_is_clean _ today _ _ H fs). repeat split; try discriminate.
  intros fs'. apply flag_error_is_clean. exact H.
Qed.

(* the converse direction of "flags_ok": if the flags are fine the command is run on them *)
Lemma flags_ok_runs c today argv fs :
  flags_ok c argv = true ->
  run_argv c today argv fs = OHelp \/ exists sets pos, parse_cmdline c argv = CLRun sets pos /\
                                                       run_argv c today argv fs = run_command c today sets pos fs.
Proof.
  unfold flags_ok, run_argv. destruct (parse_cmdline c argv) as [s p| |]; try discriminate; intros _.
  - right. exists s, p. split; reflexivity.
  - left. reflexivity.
Qed.

(* ---------------------------------------------------------------- the guard of the no-panic theorems *)

(* the -m rules of an accepted command line have non-negative numbers: the guard [mapping_nonneg]
   of C14_no_panic_* (account.Shorten slices with them) holds for whatever cobra lets through *)
Definition rule_value_nonneg (v : fvalue) : Prop :=
  match v with VRule l sf _ => 0 <= l /\ 0 <= sf | _ => True end.

Lemma rules_of_nonneg : forall vs m, Forall rule_value_nonneg vs -> rules_of vs = Some m -> mapping_flag_ok m = true.
Proof.
  induction vs as [|v t IH]; intros m Hall H; cbn [rules_of] in H.
  - injection H as <-. reflexivity.
  - inversion Hall as [|v' t' Hv Ht]; subst.
    destruct v as [b|n|d|src|l sf r|s]; try (apply IH; assumption).
    destruct (rules_of t) as [rest|] eqn:Er; [|discriminate].
    pose proof (IH rest Ht eq_refl) as Hrest.
    cbn [rule_value_nonneg] in Hv. destruct Hv as [Hl Hs].
    assert (Hhead : forall x, mapping_flag_ok (Account.mkRule l sf x :: rest) = true).
    { intros x. unfold mapping_flag_ok in *. cbn [forallb Account.r_level Account.r_suffix].
      rewrite Hrest. apply andb_true_iff. split; [|reflexivity].
      apply andb_true_iff. split; apply Z.leb_le; assumption. }
    destruct r as [src|].
    + destruct (rx_sem src) as [[|x [|y q]]|]; try discriminate. injection H as <-. apply Hhead.
    + injection H as <-. apply Hhead.
Qed.

Lemma in_range_rule_nonneg k v : value_in_range k v = true -> rule_value_nonneg v.
Proof.
  destruct v as [b|n|d|src|l sf r|s]; cbn [rule_value_nonneg]; try exact (fun _ => I).
  destruct k; cbn [value_in_range]; try discriminate.
  intros H. apply andb_true_iff in H. destruct H as [A B]. apply Z.leb_le in A, B. split; assumption.
Qed.

Lemma all_values_forall (P : fvalue -> Prop) name : forall sets,
  Forall (fun nv : setting => P (snd nv)) sets -> Forall P (all_values name sets).
Proof.
  unfold all_values. induction sets as [|nv t IH]; intros H; cbn [filter map]; [constructor|].
  inversion H as [|x y Hx Hy]; subst.
  destruct (str_eqb (fst nv) name); cbn [map]; [constructor; [exact Hx|]|]; apply IH; exact Hy.
Qed.

Theorem accepted_mapping_guard c argv sets pos :
  parse_cmdline c argv = CLRun sets pos ->
  forall m, rules_of (all_values n_map sets) = Some m -> mapping_flag_ok m = true.
Proof.
  intros H m Hm. eapply rules_of_nonneg; [|exact Hm].
  apply all_values_forall.
  eapply Forall_impl; [|exact (cmdline_values_in_range _ _ _ _ H)].
  intros nv (d & _ & _ & Hr). eapply in_range_rule_nonneg. exact Hr.
Qed.

Corollary accepted_balance_guard c argv sets pos today cfg :
  parse_cmdline c argv = CLRun sets pos -> balance_cfg_of today sets = Some cfg ->
  mapping_flag_ok (Cli.bc_mapping cfg) = true.
Proof.
  intros H Hc. unfold balance_cfg_of in Hc.
  destruct (rules_of (all_values n_map sets)) as [m|] eqn:Em; [|discriminate].
  destruct (rxs_of (all_values n_remap sets)); [|discriminate].
  destruct (rxs_of (all_values n_account sets)); [|discriminate].
  destruct (rxs_of (all_values n_commodity sets)); [|discriminate].
  destruct (rxs_of (all_values n_show sets)); [|discriminate].
  injection Hc as <-. cbn [Cli.bc_mapping]. eapply accepted_mapping_guard; eauto.
Qed.

(* ---------------------------------------------------------------- a rejected value anywhere *)

Definition dashdash : str := [45; 45].

Lemma pres_add_assoc l1 p1 l2 p2 r :
  pres_add l1 p1 (pres_add l2 p2 r) = pres_add (l1 ++ l2) (p1 ++ p2) r.
Proof. destruct r as [s q|]; cbn [pres_add]; [rewrite !app_assoc|..]; reflexivity. Qed.

Lemma pres_add_inv l q r s p : pres_add l q r = PArgs s p ->
  exists s' p', r = PArgs s' p' /\ s = l ++ s' /\ p = q ++ p'.
Proof.
  destruct r as [s0 q0|]; cbn [pres_add]; try discriminate.
  intros H. injection H as <- <-. exists s0, q0. repeat split.
Qed.

(* a step that succeeds at the end of the argument list does not depend on what is appended *)
Lemma long_arg_none defs body l u : long_arg defs body None = ASets l u ->
  u = false /\ forall y, long_arg defs body (Some y) = ASets l false.
Proof.
  unfold long_arg. destruct body as [|c t]; [discriminate|].
  destruct ((c =? 45) || (c =? 61)); [discriminate|].
  destruct (split_first 61 (c :: t)) as [name eqval].
  destruct (find_long defs name) as [d|]; [|discriminate].
  assert (Hs : forall v, set_flag d v = ASets l u -> u = false /\ set_flag d v = ASets l false).
  { intros v. unfold set_flag. destruct (parse_value (f_kind d) v); try discriminate.
    intros H. injection H as <- <-. split; reflexivity. }
  destruct eqval as [v|].
  - intros H. destruct (Hs v H) as [-> E]. split; [reflexivity|]. intros y. exact E.
  - destruct (f_kind d); try discriminate.
    intros H. destruct (Hs k_true H) as [-> E]. split; [reflexivity|]. intros y. exact E.
Qed.

Lemma short_args_none defs : forall sh l u, short_args defs sh None = ASets l u ->
  u = false /\ forall y, short_args defs sh (Some y) = ASets l false.
Proof.
  induction sh as [|c rest IH]; intros l u H; cbn [short_args] in H |- *.
  - injection H as <- <-. split; reflexivity.
  - destruct (find_short defs c) as [d|]; [|discriminate].
    assert (Hlast : forall v used, match set_flag d v with ASets l0 _ => ASets l0 used | r => r end = ASets l u ->
                                   u = used).
    { intros v used. destruct (set_flag d v); try discriminate. intros E. injection E as _ <-. reflexivity. }
    set (gen := fun next : option str =>
                  match f_kind d with
                  | KBool =>
                    match set_flag d k_true with
                    | ASets l0 _ => match short_args defs rest next with ASets l' u0 => ASets (l0 ++ l') u0 | r => r end
                    | r => r
                    end
                  | _ =>
                    match rest with
                    | _ :: _ => match set_flag d rest with ASets l0 _ => ASets l0 false | r => r end
                    | [] => match next with
                            | Some v => match set_flag d v with ASets l0 _ => ASets l0 true | r => r end
                            | None => AErr (PNeedsArg [c])
                            end
                    end
                  end).
    assert (Hgen : gen None = ASets l u -> u = false /\ forall y, gen (Some y) = ASets l false).
    { unfold gen. destruct (f_kind d) eqn:Ek;
        try (destruct rest as [|r0 rt]; [discriminate|];
             intros E; pose proof (Hlast _ _ E) as ->; split; [reflexivity|intros y; exact E]).
      destruct (set_flag d k_true) as [l0 u0| | |]; try discriminate.
      destruct (short_args defs rest None) as [l' u1| | |] eqn:Er; try discriminate.
      intros E. injection E as <- <-. destruct (IH _ _ eq_refl) as [-> Hy].
      split; [reflexivity|]. intros y. rewrite Hy. reflexivity. }
    change (match rest with
            | e :: (_ :: _) as v => if e =? 61 then match set_flag d v with ASets l0 _ => ASets l0 false | r => r end else gen None
            | _ => gen None
            end = ASets l u) in H.
    destruct rest as [|r0 [|r1 rt]]; try exact (Hgen H).
    destruct (r0 =? 61); [|exact (Hgen H)].
    pose proof (Hlast _ _ H) as ->. split; [reflexivity|]. intros y. exact H.
Qed.

Lemma arg_step_none defs s : forall l u, arg_step defs s None = ASets l u ->
  u = false /\ forall y, arg_step defs s (Some y) = ASets l false.
Proof.
  unfold arg_step. intros l u H.
  destruct s as [|a [|b t]]; try discriminate.
  destruct (a =? 45); [|discriminate].
  destruct (b =? 45); [apply long_arg_none|apply short_args_none]; exact H.
Qed.

Lemma arg_step_pos defs s y : arg_step defs s None = APos -> arg_step defs s (Some y) = APos.
Proof.
  unfold arg_step. destruct s as [|a [|b t]]; try reflexivity.
  destruct (a =? 45); [|reflexivity].
  destruct (b =? 45).
  - unfold long_arg. destruct t as [|c t']; [discriminate|].
    destruct ((c =? 45) || (c =? 61)); [discriminate|].
    destruct (split_first 61 (c :: t')) as [name eqval].
    destruct (find_long defs name) as [d|]; [|discriminate].
    assert (Hs : forall v, set_flag d v <> APos) by (intros v; unfold set_flag; destruct (parse_value (f_kind d) v); discriminate).
    destruct eqval as [v|]; [intros E; exfalso; exact (Hs _ E)|].
    destruct (f_kind d); try discriminate. intros E; exfalso; exact (Hs _ E).
  - intros E. exfalso. revert E. generalize (b :: t). intros sh.
    assert (G : forall sh next, short_args defs sh next <> APos).
    { induction sh0 as [|c rest IH]; intros next; cbn [short_args]; [discriminate|].
      destruct (find_short defs c) as [d|]; [|discriminate].
      assert (Hs : forall v used, match set_flag d v with ASets l0 _ => ASets l0 used | r => r end <> APos).
      { intros v used. unfold set_flag. destruct (parse_value (f_kind d) v); discriminate. }
      assert (Hg : match f_kind d with
                   | KBool => match set_flag d k_true with
                              | ASets l0 _ => match short_args defs rest next with ASets l' u0 => ASets (l0 ++ l') u0 | r => r end
                              | r => r end
                   | _ => match rest with
                          | _ :: _ => match set_flag d rest with ASets l0 _ => ASets l0 false | r => r end
                          | [] => match next with
                                  | Some v => match set_flag d v with ASets l0 _ => ASets l0 true | r => r end
                                  | None => AErr (PNeedsArg [c]) end end
                   end <> APos).
      { destruct (f_kind d); try (destruct rest; [destruct next; [apply Hs|discriminate]|apply Hs]).
        unfold set_flag. destruct (parse_value (f_kind d) k_true); try discriminate.
        pose proof (IH next) as N. destruct (short_args defs rest next); try discriminate. congruence. }
      destruct rest as [|r0 [|r1 rt]]; try exact Hg.
      destruct (r0 =? 61); [apply Hs|exact Hg]. }
    apply G.
Qed.

(* an accepted argument list without the terminator "--" is read the same way whatever follows it *)
Lemma parse_args_prefix defs tail : forall n pre, (length pre <= n)%nat -> forall s p,
  parse_args defs pre = PArgs s p -> ~ In dashdash pre ->
  parse_args defs (pre ++ tail) = pres_add s p (parse_args defs tail).
Proof.
  induction n as [|n IH]; intros pre Hlen s p H Hdd.
  - destruct pre; [|cbn in Hlen; lia]. cbn in H. injection H as <- <-. cbn [app].
    destruct (parse_args defs tail); reflexivity.
  - destruct pre as [|x pre'].
    { cbn in H. injection H as <- <-. cbn [app]. destruct (parse_args defs tail); reflexivity. }
    cbn [length] in Hlen. cbn [parse_args] in H. rewrite <- app_comm_cons. cbn [parse_args].
    assert (Hdd' : ~ In dashdash pre') by (intros F; apply Hdd; right; exact F).
    destruct pre' as [|y pre''].
    + (* x is the last element of the accepted prefix *)
      cbn [hd_error app] in *.
      destruct (arg_step defs x None) as [l u| | |] eqn:Es; try discriminate.
      * destruct (arg_step_none _ _ _ _ Es) as [-> Hy].
        cbn [parse_args pres_add] in H. injection H as <- <-.
        destruct tail as [|t0 tail']; cbn [hd_error].
        -- rewrite Es. cbn [parse_args pres_add]. rewrite !app_nil_r. reflexivity.
        -- rewrite Hy. rewrite !app_nil_r. reflexivity.
      * cbn [parse_args pres_add] in H. injection H as <- <-.
        destruct tail as [|t0 tail']; cbn [hd_error].
        -- rewrite Es. reflexivity.
        -- rewrite (arg_step_pos _ _ t0 Es). reflexivity.
      * (* "--" itself *)
        exfalso. apply Hdd. left. unfold arg_step in Es.
        destruct x as [|a [|b t]]; try discriminate.
        destruct (a =? 45) eqn:Ea; [|discriminate]. destruct (b =? 45) eqn:Eb.
        -- unfold long_arg in Es. destruct t as [|c t'].
           ++ apply Z.eqb_eq in Ea, Eb. subst. reflexivity.
           ++ destruct ((c =? 45) || (c =? 61)); [discriminate|].
              destruct (split_first 61 (c :: t')) as [name eqval].
              destruct (find_long defs name) as [d|]; [|discriminate].
              assert (Hs : forall v, set_flag d v <> ADashDash) by (intros v; unfold set_flag; destruct (parse_value (f_kind d) v); discriminate).
              destruct eqval as [v|]; [exfalso; exact (Hs _ Es)|].
              destruct (f_kind d); try discriminate. exfalso; exact (Hs _ Es).
        -- exfalso. revert Es. generalize (b :: t). intros sh.
           assert (G : forall sh next, short_args defs sh next <> ADashDash).
           { induction sh0 as [|c rest IHs]; intros next; cbn [short_args]; [discriminate|].
             destruct (find_short defs c) as [d|]; [|discriminate].
             assert (Hs : forall v used, match set_flag d v with ASets l0 _ => ASets l0 used | r => r end <> ADashDash).
             { intros v used. unfold set_flag. destruct (parse_value (f_kind d) v); discriminate. }
             assert (Hg : match f_kind d with
                          | KBool => match set_flag d k_true with
                                     | ASets l0 _ => match short_args defs rest next with ASets l' u0 => ASets (l0 ++ l') u0 | r => r end
                                     | r => r end
                          | _ => match rest with
                                 | _ :: _ => match set_flag d rest with ASets l0 _ => ASets l0 false | r => r end
                                 | [] => match next with
                                         | Some v => match set_flag d v with ASets l0 _ => ASets l0 true | r => r end
                                         | None => AErr (PNeedsArg [c]) end end
                          end <> ADashDash).
             { destruct (f_kind d); try (destruct rest; [destruct next; [apply Hs|discriminate]|apply Hs]).
               unfold set_flag. destruct (parse_value (f_kind d) k_true); try discriminate.
               pose proof (IHs next) as N. destruct (short_args defs rest next); try discriminate. congruence. }
             destruct rest as [|r0 [|r1 rt]]; try exact Hg.
             destruct (r0 =? 61); [apply Hs|exact Hg]. }
           apply G.
    + (* the step sees the same next element *)
      cbn [hd_error] in H. rewrite <- app_comm_cons. cbn [hd_error].
      destruct (arg_step defs x (Some y)) as [l u| | |] eqn:Es; try discriminate.
      * destruct u.
        -- apply pres_add_inv in H. destruct H as (s' & p' & Hr & -> & ->).
           rewrite (IH pre'' ltac:(cbn [length] in Hlen; lia) s' p' Hr ltac:(intros F; apply Hdd'; right; exact F)).
           rewrite pres_add_assoc. reflexivity.
        -- apply pres_add_inv in H. destruct H as (s' & p' & Hr & -> & ->).
           rewrite (app_comm_cons pre'' tail y).
           rewrite (IH (y :: pre'') ltac:(cbn [length] in *; lia) s' p' Hr Hdd').
           rewrite pres_add_assoc. reflexivity.
      * apply pres_add_inv in H. destruct H as (s' & p' & Hr & -> & ->).
        rewrite (app_comm_cons pre'' tail y).
        rewrite (IH (y :: pre'') ltac:(cbn [length] in *; lia) s' p' Hr Hdd').
        rewrite pres_add_assoc. reflexivity.
      * exfalso. apply Hdd. left.
        (* only "--" itself gives ADashDash *)
        unfold arg_step in Es.
        destruct x as [|a [|b t]]; try discriminate.
        destruct (a =? 45) eqn:Ea; [|discriminate]. destruct (b =? 45) eqn:Eb.
        -- unfold long_arg in Es. destruct t as [|c t'].
           ++ apply Z.eqb_eq in Ea, Eb. subst. reflexivity.
           ++ destruct ((c =? 45) || (c =? 61)); [discriminate|].
              destruct (split_first 61 (c :: t')) as [name eqval].
              destruct (find_long defs name) as [d|]; [|discriminate].
              assert (Hs : forall v, set_flag d v <> ADashDash) by (intros v; unfold set_flag; destruct (parse_value (f_kind d) v); discriminate).
              assert (Hs' : forall v, match set_flag d v with ASets l0 _ => ASets l0 true | r => r end <> ADashDash)
                by (intros v; unfold set_flag; destruct (parse_value (f_kind d) v); discriminate).
              destruct eqval as [v|]; [exfalso; exact (Hs _ Es)|].
              destruct (f_kind d); try (exfalso; exact (Hs' _ Es)). exfalso; exact (Hs _ Es).
        -- exfalso. revert Es. generalize (b :: t). intros sh. generalize (Some y). intros next.
           revert next. induction sh as [|c rest IHs]; intros next; cbn [short_args]; [discriminate|].
           destruct (find_short defs c) as [d|]; [|discriminate].
           assert (Hs : forall v used, match set_flag d v with ASets l0 _ => ASets l0 used | r => r end <> ADashDash).
           { intros v used. unfold set_flag. destruct (parse_value (f_kind d) v); discriminate. }
           assert (Hg : match f_kind d with
                        | KBool => match set_flag d k_true with
                                   | ASets l0 _ => match short_args defs rest next with ASets l' u0 => ASets (l0 ++ l') u0 | r => r end
                                   | r => r end
                        | _ => match rest with
                               | _ :: _ => match set_flag d rest with ASets l0 _ => ASets l0 false | r => r end
                               | [] => match next with
                                       | Some v => match set_flag d v with ASets l0 _ => ASets l0 true | r => r end
                                       | None => AErr (PNeedsArg [c]) end end
                        end <> ADashDash).
           { destruct (f_kind d); try (destruct rest; [destruct next; [apply Hs|discriminate]|apply Hs]).
             unfold set_flag. destruct (parse_value (f_kind d) k_true); try discriminate.
             pose proof (IHs next) as N. destruct (short_args defs rest next); try discriminate. congruence. }
           destruct rest as [|r0 [|r1 rt]]; try exact Hg.
           destruct (r0 =? 61); [apply Hs|exact Hg].
Qed.

(* a value its flag rejects, anywhere: after any accepted arguments (no "--" among them), and whatever
   follows, the command line is rejected with that flag's error *)
Theorem rejected_value_anywhere defs pre d v e rest s p :
  parse_args defs pre = PArgs s p -> ~ In dashdash pre ->
  find_long defs (f_name d) = Some d -> f_kind d <> KBool -> ~ In 61 (f_name d) ->
  match f_name d with [] => False | c :: _ => c <> 45 /\ c <> 61 end ->
  parse_value (f_kind d) v = VErr e ->
  parse_args defs (pre ++ (45 :: 45 :: f_name d) :: v :: rest) = PErr (PInvalid (f_name d) e).
Proof.
  intros Hp Hdd Hf Hk Heq Hc Hv.
  rewrite (parse_args_prefix defs _ (length pre) pre (le_n _) s p Hp Hdd).
  rewrite (rejected_long_value defs d v e rest Hf Hk Heq Hc Hv). reflexivity.
Qed.

(* ... and so is the command: knut ends with the usage error before its Run function *)
Corollary rejected_value_ends_command c today pre d v e rest s p fs :
  parse_args (cmd_flags c) pre = PArgs s p -> ~ In dashdash pre ->
  find_long (cmd_flags c) (f_name d) = Some d -> f_kind d <> KBool -> ~ In 61 (f_name d) ->
  match f_name d with [] => False | x :: _ => x <> 45 /\ x <> 61 end ->
  parse_value (f_kind d) v = VErr e ->
  run_argv c today (pre ++ (45 :: 45 :: f_name d) :: v :: rest) fs = ORejected (PInvalid (f_name d) e).
Proof.
  intros Hp Hdd Hf Hk Heq Hc Hv. apply flag_error_is_clean. unfold parse_cmdline.
  rewrite (rejected_value_anywhere _ pre d v e rest s p Hp Hdd Hf Hk Heq Hc Hv). reflexivity.
Qed.
