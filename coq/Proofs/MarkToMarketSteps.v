(* C03 on the rendered report, part 6: the step count of the runtime check.  The spec verdict of the
   check (Extract/drv/drv_c03.ml) accepts a valued cell when
     ValuationSpec.within_bound observed (mtm_expected ...) (step_bound dl a W E);
   here the model's row is shown to meet exactly that bound (model_meets_spec).

   Valuate books a revaluation of a cell only when the price of the commodity changed (a zero price
   difference is skipped), and ComputePrices hands a day without price declarations the prices of
   the day before.  So the number of the cell's postings after the stage is at most
     bookings of the cell + days that carry a price declaration,
   and the days --close adds at the period starts (they carry nothing) never count.

   Part A  one day, all days: the count with price days
   Part B  the window on the days (the proof of MarkToMarketWindow.window_stage with the tighter count)
   Part C  the count read off the directives; --close adds nothing
   Part D  the row: the sum over the held commodities is at most ValuationSpec.step_bound
   Part E  within_bound as an inequality between rationals
   Part F  model_meets_spec *)
From Coq Require Import ZArith QArith Qabs List Bool Lia Permutation Sorting.Sorted.
From Knut Require Import Model.Str Model.Dec Model.Date Model.Account Model.Ledger Model.Price
     Model.Journal Model.Check Model.Pipeline Model.Table Model.Report Model.Cli
     Spec.DateSpec Spec.WellformedSpec Spec.LedgerSpec Spec.LedgerSyntax Spec.MarkToMarketSpec
     Spec.PriceSpec Spec.PriceDaySpec Spec.ValuationSpec Spec.MarkToMarketReportSpec
     Proofs.DecProofs Proofs.DecValue Proofs.CheckLemmas Proofs.CheckProofs Proofs.PairProofs
     Proofs.DateProofs Proofs.BuilderProofs Proofs.BeancountProofs
     Proofs.LedgerProofs Proofs.CloseProofs Proofs.PriceDayProofs Proofs.ValuationProofs
     Proofs.MarkToMarket Proofs.MarkToMarketReport Proofs.MarkToMarketWindow Proofs.MarkToMarketJournal
     Proofs.MarkToMarketFinal Proofs.MarkToMarketRow.
Import ListNotations.
Open Scope Q_scope.

(* ------------------------------------------------------------ Part A: counting with price days *)

Definition has_prices (d : day) : bool := match d_prices d with [] => false | _ => true end.
Definition price_days (ds : list day) : Z := Z.of_nat (length (filter has_prices ds)).

Lemma price_days_app l1 l2 : price_days (l1 ++ l2) = (price_days l1 + price_days l2)%Z.
Proof. unfold price_days. rewrite filter_app, app_length. lia. Qed.

Lemma price_days_nonneg l : (0 <= price_days l)%Z.
Proof. unfold price_days. lia. Qed.

Lemma sub_self_zero x : is_zero (sub x x) = true.
Proof. apply is_zero_value. rewrite dvalue_sub. ring. Qed.

(* no price moved: no revaluation at all *)
Lemma adj_same v date p : forall pos ts, val_adjustments v date p p pos = ROk ts -> ts = [].
Proof.
  induction pos as [|[k [[a c] q]] rest IH]; intros ts H; cbn [val_adjustments] in H.
  - injection H as <-. reflexivity.
  - destruct (str_eqb c v || negb (is_AL a) || is_zero q); [exact (IH _ H)|].
    destruct (np_price_opt p c) as [pp|]; [|discriminate].
    rewrite sub_self_zero in H. exact (IH _ H).
Qed.

(* ComputePrices, one day: the state remembers the day's prices; a day without declarations gets
   the remembered ones *)
Lemma cp_day_prev v s d s1 d1 :
  process_day (compute_prices_proc v) s d = ROk (s1, d1) ->
  cp_previous s1 = d_normalized d1 /\ (has_prices d = false -> d_normalized d1 = cp_previous s).
Proof.
  intros H. unfold process_day in H.
  cbn [compute_prices_proc pr_day_start pr_price pr_open pr_close pr_day_end rbind fst snd] in H.
  destruct (fold_res cp_price_cb s (d_prices d)) as [s2| |] eqn:F; cbn [rbind] in H; try discriminate.
  rewrite fold_txns_cp in H. cbn [rbind fst snd] in H.
  rewrite fold_asserts_cp in H. cbn [rbind] in H.
  destruct (fold_cp_prices _ _ _ F) as [_ P2].
  unfold cp_day_end in H. cbn [d_prices d_date d_opens d_txns d_asserts d_closes d_normalized] in H.
  unfold has_prices. destruct (d_prices d) as [|x l].
  - injection H as <- <-. unfold set_normalized. cbn [d_normalized]. split; [reflexivity|intros _; exact P2].
  - destruct (normalize (cp_prices s2) v); [|discriminate]. injection H as <- <-.
    unfold set_normalized. cbn [d_normalized cp_previous]. split; [reflexivity|discriminate].
Qed.

Section PriceSteps.
  Variables (v : commodity) (a : account) (c : commodity).
  Hypothesis Ha : account_ok a = true.
  Hypothesis HAL : is_AL a = true.

  Lemma val_day_count_same s d s1 d1 :
    process_day (valuate_proc v) s d = ROk (s1, d1) -> v_prev s = d_normalized d ->
    cell_count a c (vday d1) = cell_count a c (vday d).
  Proof.
    intros H E. destruct (valuate_day_inv _ _ _ _ _ H) as (ts & sx & txns' & Eadj & Efold & _ & Etx & _).
    rewrite E in Eadj. apply adj_same in Eadj. subst ts. rewrite app_nil_r in Efold.
    unfold MarkToMarketSpec.day_postings. rewrite Etx.
    exact (fold_txns_count _ a c _ _ _ _ Efold).
  Qed.

  Lemma val_day_count_le s d s1 d1 :
    process_day (valuate_proc v) s d = ROk (s1, d1) -> Forall posting_in_ok (vday d) -> entries_ok (v_qty s) ->
    (cell_count a c (vday d1) <= cell_count a c (vday d) + 1)%Z.
  Proof.
    intros H Hin Hs.
    assert (E1 : process_days (valuate_proc v) s [d] = ROk (s1, [d1])) by (cbn [process_days]; rewrite H; reflexivity).
    assert (Hd : Forall posting_in_ok (vposts [d])).
    { unfold MarkToMarketSpec.days_postings. cbn [map concat]. rewrite app_nil_r. exact Hin. }
    pose proof (days_count v a c Ha HAL [d] s s1 [d1] Hd Hs E1) as Hc.
    unfold MarkToMarketSpec.days_postings in Hc. cbn [map concat length] in Hc. rewrite !app_nil_r in Hc. lia.
  Qed.

  (* ComputePrices then Valuate over the same days, from states that agree on the remembered
     prices: the cell gains at most one posting per day that declares a price *)
  Lemma cp_val_count : forall ds sc sc' dsP sv sv' dsV,
    process_days (compute_prices_proc v) sc ds = ROk (sc', dsP) ->
    process_days (valuate_proc v) sv dsP = ROk (sv', dsV) ->
    cp_previous sc = v_prev sv -> Forall posting_in_ok (vposts dsP) -> entries_ok (v_qty sv) ->
    cp_previous sc' = v_prev sv' /\
    (cell_count a c (vposts dsV) <= cell_count a c (vposts dsP) + price_days ds)%Z.
  Proof.
    induction ds as [|d ds IH]; intros sc sc' dsP sv sv' dsV HP HV Hprev Hin Hs; cbn [process_days] in HP.
    - injection HP as <- <-. cbn [process_days] in HV. injection HV as <- <-. split; [exact Hprev|]. cbn. lia.
    - destruct (process_day (compute_prices_proc v) sc d) as [[sc1 d1]| |] eqn:E1; cbn [rbind fst snd] in HP; try discriminate.
      destruct (process_days (compute_prices_proc v) sc1 ds) as [[sc2 ds2]| |] eqn:E2; cbn [rbind fst snd] in HP; try discriminate.
      injection HP as <- <-. cbn [process_days] in HV.
      destruct (process_day (valuate_proc v) sv d1) as [[sv1 e1]| |] eqn:F1; cbn [rbind fst snd] in HV; try discriminate.
      destruct (process_days (valuate_proc v) sv1 ds2) as [[sv2 es2]| |] eqn:F2; cbn [rbind fst snd] in HV; try discriminate.
      injection HV as <- <-.
      unfold MarkToMarketSpec.days_postings in Hin. cbn [map concat] in Hin. apply Forall_app in Hin. destruct Hin as [Hd Hr].
      destruct (cp_day_prev _ _ _ _ _ E1) as [C1 C2].
      assert (V1 : v_prev sv1 = d_normalized d1).
      { destruct (valuate_day_inv _ _ _ _ _ F1) as (ts & sx & txns' & _ & _ & -> & _). reflexivity. }
      assert (F1' : process_days (valuate_proc v) sv [d1] = ROk (sv1, [e1])) by (cbn [process_days]; rewrite F1; reflexivity).
      assert (Hd' : Forall posting_in_ok (vposts [d1])).
      { unfold MarkToMarketSpec.days_postings. cbn [map concat]. rewrite app_nil_r. exact Hd. }
      pose proof (days_entries_ok v [d1] sv sv1 [e1] Hd' Hs F1') as Hs1.
      destruct (IH _ _ _ _ _ _ E2 F2 (eq_trans C1 (eq_sym V1)) Hr Hs1) as [I1 I2].
      split; [exact I1|].
      unfold MarkToMarketSpec.days_postings in *. cbn [map concat]. rewrite !cell_count_app.
      unfold price_days in *. cbn [filter]. destruct (has_prices d) eqn:Ehp.
      + pose proof (val_day_count_le _ _ _ _ F1 Hd Hs) as Hday. cbn [length]. lia.
      + assert (Esame : v_prev sv = d_normalized d1) by (rewrite (C2 eq_refl); symmetry; exact Hprev).
        pose proof (val_day_count_same _ _ _ _ F1 Esame) as Hday. lia.
  Qed.
End PriceSteps.

(* ------------------------------------------------------------ Part B: the window on the days *)

(* bookings of the cell dated in (T1, T2] plus the days dated in (T1, T2] that declare a price *)
Definition day_steps_tight (a : account) (c : commodity) (ds : list day) (T1 T2 : Z) : Z :=
  (cell_count a c (vposts (days_upto T2 ds)) - cell_count a c (vposts (days_upto T1 ds))
   + (price_days (days_upto T2 ds) - price_days (days_upto T1 ds)))%Z.

Theorem window_stage_tight V a c days0 W col sP dsP sV dsV :
  account_ok a = true -> is_AL a = true -> c <> V ->
  StronglySorted Z.lt (dates days0) -> days_dated days0 -> Forall posting_in_ok (vposts days0) ->
  (W - 1 <= col)%Z ->
  process_days (compute_prices_proc V) (mkCp [] None) days0 = ROk (sP, dsP) ->
  process_days (valuate_proc V) val_init dsP = ROk (sV, dsV) ->
  Qabs (lsum (fun dp => if in_window W col (fst dp) then cval a c dp else 0) (dposts dsV)
        - (qty_on_days a c days0 col * price_on_days V c days0 col
           - qty_on_days a c days0 (W - 1) * price_on_days V c days0 (W - 1)))
    <= inject_Z (day_steps_tight a c days0 (W - 1) col) * eps8.
Proof.
  intros Ha HAL Hcv Hsorted Hdated Hin Hle HP HV.
  destruct (sorted_split3 W col days0 Hsorted Hle) as (B & Esplit & EU & HB).
  set (A := days_upto (W - 1) days0) in *. set (C := days_after col days0) in *.
  assert (HA : forall x, In x A -> (d_date x <= W - 1)%Z).
  { intros x Hx. unfold A, days_upto in Hx. apply filter_In in Hx. lia. }
  assert (HC : forall x, In x C -> (col < d_date x)%Z).
  { intros x Hx. unfold C, days_after in Hx. apply filter_In in Hx. lia. }
  rewrite Esplit in Hdated, Hin.
  apply days_dated_app in Hdated. destruct Hdated as [HdA Hdated]. apply days_dated_app in Hdated. destruct Hdated as [HdB HdC].
  apply in_ok_app in Hin. destruct Hin as [HinA Hin]. apply in_ok_app in Hin. destruct Hin as [HinB HinC].
  pose proof HP as HP0. rewrite Esplit in HP.
  destruct (process_days_app _ _ _ _ _ _ HP) as (pa & PA & P2 & EPA & EP2 & EdsP).
  destruct (process_days_app _ _ _ _ _ _ EP2) as (pb & PB & PC & EPB & EPC & ->).
  rewrite EdsP in HV, HP0.
  destruct (process_days_app _ _ _ _ _ _ HV) as (va & VA & V2 & EVA & EV2 & ->).
  destruct (process_days_app _ _ _ _ _ _ EV2) as (vb & VB & VC & EVB & EVC & ->).
  destruct (cp_days_shape _ _ _ _ _ EPA) as (DA & SA & TA).
  destruct (cp_days_shape _ _ _ _ _ EPB) as (DB & SB & TB).
  destruct (cp_days_shape _ _ _ _ _ EPC) as (DC & SC & TC).
  destruct (val_days_dated _ _ _ _ _ EVA (TA HdA)) as [HdVA DVA].
  destruct (val_days_dated _ _ _ _ _ EVB (TB HdB)) as [HdVB DVB].
  destruct (val_days_dated _ _ _ _ _ EVC (TC HdC)) as [HdVC DVC].
  assert (Hsum : lsum (fun dp => if in_window W col (fst dp) then cval a c dp else 0) (dposts (VA ++ VB ++ VC))
                 == lsum (cval a c) (dposts VB)).
  { rewrite !dposts_app, !LedgerProofs.qsum_app.
    rewrite (dated_sum_sel (in_window W col) false _ VA HdVA).
    2: { apply (dates_transfer (fun d => in_window W col d = false) VA A); [congruence|].
         intros y Hy. specialize (HA _ Hy). unfold in_window. lia. }
    rewrite (dated_sum_sel (in_window W col) true _ VB HdVB).
    2: { apply (dates_transfer (fun d => in_window W col d = true) VB B); [congruence|].
         intros y Hy. specialize (HB _ Hy). unfold in_window. lia. }
    rewrite (dated_sum_sel (in_window W col) false _ VC HdVC).
    2: { apply (dates_transfer (fun d => in_window W col d = false) VC C); [congruence|].
         intros y Hy. specialize (HC _ Hy). unfold in_window. lia. }
    ring. }
  rewrite Hsum, <- cell_value_dposts. clear Hsum.
  assert (HinPA : Forall posting_in_ok (vposts PA)) by (rewrite (vposts_of_dposts _ _ SA); exact HinA).
  assert (HinPB : Forall posting_in_ok (vposts PB)) by (rewrite (vposts_of_dposts _ _ SB); exact HinB).
  destruct (mtm_delta V a c PA val_init va VA Ha HAL Hcv HinPA (good_nil a c PT) EVA) as (A1 & A2 & A5 & _).
  destruct (mtm_delta V a c PB va vb VB Ha HAL Hcv HinPB A2 EVB) as (B1 & B2 & B5 & B6).
  cbn [val_init v_prev v_qty] in A1, A5. rewrite posq_nil, Qplus_0_l in A5.
  assert (LA : length PA = length A) by (eapply process_days_length; exact EPA).
  assert (LB : length PB = length B) by (eapply process_days_length; exact EPB).
  assert (PrA : v_prev va = prices_after V days0 (length A)).
  { rewrite A1, <- LA. apply (prefix_prices V days0 sP (PA ++ PB ++ PC) PA (PB ++ PC) HP0 eq_refl). }
  assert (PrB : v_prev vb = prices_after V days0 (length (days_upto col days0))).
  { rewrite B1, A1, EU, app_length, <- LA, <- LB, <- app_length.
    assert (E : last_normalized (last_normalized None PA) PB = last_normalized None (PA ++ PB))
      by (unfold last_normalized; rewrite fold_left_app; reflexivity).
    rewrite E. apply (prefix_prices V days0 sP (PA ++ PB ++ PC) (PA ++ PB) PC HP0). rewrite app_assoc. reflexivity. }
  assert (QA : posq a c (v_qty va) == qty_on_days a c days0 (W - 1)).
  { rewrite A5. unfold qty_on_days. fold A. rewrite (vposts_of_dposts _ _ SA). reflexivity. }
  assert (QB : posq a c (v_qty vb) == qty_on_days a c days0 col).
  { rewrite B5, QA. unfold qty_on_days. fold A. rewrite EU, vposts_app, cell_qty_app, (vposts_of_dposts _ _ SB). reflexivity. }
  (* the number of steps: only the days of the window that declare a price revalue *)
  assert (Hn : (cell_count a c (vposts VB) <= day_steps_tight a c days0 (W - 1) col)%Z).
  { assert (Hinit : entries_ok (v_qty val_init)) by (split; [constructor|intros x []]).
    destruct (cp_val_count V a c Ha HAL A _ _ _ _ _ _ EPA EVA eq_refl HinPA Hinit) as [SyncA _].
    assert (Hea : entries_ok (v_qty va)) by (apply (days_entries_ok V PA val_init va VA HinPA Hinit EVA)).
    destruct (cp_val_count V a c Ha HAL B _ _ _ _ _ _ EPB EVB SyncA HinPB Hea) as [_ Hc].
    unfold day_steps_tight. fold A. rewrite EU, vposts_app, cell_count_app, price_days_app.
    rewrite (vposts_of_dposts _ _ SB) in Hc. lia. }
  eapply Qle_trans; [|apply Qmult_le_compat_r; [rewrite <- Zle_Qle; exact Hn|exact eps8_nonneg]].
  eapply Qle_trans; [|exact B6]. apply Qle_lteq. right. apply Qabs_wd.
  unfold price_on_days. fold A. rewrite <- PrA, <- PrB, <- QA, <- QB. reflexivity.
Qed.
