(* C03 on the rendered report, part 6: the step count of the runtime check.  The spec verdict of the
   check (Extract/drv/drv_c03.ml) accepts a valued cell when
     ValuationSpec.within_bound observed (mtm_expected ...) (step_bound dl a W E);
   here the model's row is shown to meet exactly that bound (model_meets_spec).

   Valuate books a revaluation of a cell only when the price of the commodity changed (a zero price
   difference is skipped), and ComputePrices hands a day without price declarations the prices of
   the day before.  So the number of the cell's postings after the stage is at most
     bookings of the cell + days that carry a price declaration,
   and the days --close adds at the period starts (they carry nothing) never count.

   Part A  one day, all days: the count with price days
   Part B  the window on the days (the proof of MarkToMarketWindow.window_stage with the tighter count)
   Part C  the count read off the directives; --close adds nothing
   Part D  the row: the sum over the held commodities is at most ValuationSpec.step_bound
   Part E  within_bound as an inequality between rationals
   Part F  model_meets_spec *)
From Coq Require Import ZArith QArith Qabs List Bool Lia Permutation Sorting.Sorted.
From Knut Require Import Model.Str Model.Dec Model.Date Model.Account Model.Ledger Model.Price
     Model.Journal Model.Check Model.Pipeline Model.Table Model.Report Model.Cli
     Spec.DateSpec Spec.WellformedSpec Spec.LedgerSpec Spec.LedgerSyntax Spec.MarkToMarketSpec
     Spec.PriceSpec Spec.PriceDaySpec Spec.ValuationSpec Spec.MarkToMarketReportSpec
     Proofs.DecProofs Proofs.DecValue Proofs.CheckLemmas Proofs.CheckProofs Proofs.PairProofs
     Proofs.DateProofs Proofs.BuilderProofs Proofs.BeancountProofs
     Proofs.LedgerProofs Proofs.CloseProofs Proofs.PriceDayProofs Proofs.ValuationProofs
     Proofs.MarkToMarket Proofs.MarkToMarketReport Proofs.MarkToMarketWindow Proofs.MarkToMarketJournal
     Proofs.MarkToMarketFinal Proofs.MarkToMarketRow.
Import ListNotations.
Open Scope Q_scope.

(* ------------------------------------------------------------ Part A: counting with price days *)

Definition has_prices (d : day) : bool := match d_prices d with [] => false | _ => true end.
Definition price_days (ds : list day) : Z := Z.of_nat (length (filter has_prices ds)).

Lemma price_days_app l1 l2 : price_days (l1 ++ l2) = (price_days l1 + price_days l2)%Z.
Proof. unfold price_days. rewrite filter_app, app_length. lia. Qed.

Lemma price_days_nonneg l : (0 <= price_days l)%Z.
Proof. unfold price_days. lia. Qed.

Lemma sub_self_zero x : is_zero (sub x x) = true.
Proof. apply is_zero_value. rewrite dvalue_sub. ring. Qed.

(* no price moved: no revaluation at all *)
Lemma adj_same v date p : forall pos ts, val_adjustments v date p p pos = ROk ts -> ts = [].
Proof.
  induction pos as [|[k [[a c] q]] rest IH]; intros ts H; cbn [val_adjustments] in H.
  - injection H as <-. reflexivity.
  - destruct (str_eqb c v || negb (is_AL a) || is_zero q); [exact (IH _ H)|].
    destruct (np_price_opt p c) as [pp|]; [|discriminate].
    rewrite sub_self_zero in H. exact (IH _ H).
Qed.

(* ComputePrices, one day: the state remembers the day's prices; a day without declarations gets
   the remembered ones *)
Lemma cp_day_prev v s d s1 d1 :
  process_day (compute_prices_proc v) s d = ROk (s1, d1) ->
  cp_previous s1 = d_normalized d1 /\ (has_prices d = false -> d_normalized d1 = cp_previous s).
Proof.
  intros H. unfold process_day in H.
  cbn [compute_prices_proc pr_day_start pr_price pr_open pr_close pr_day_end rbind fst snd] in H.
  destruct (fold_res cp_price_cb s (d_prices d)) as [s2| |] eqn:F; cbn [rbind] in H; try discriminate.
  rewrite fold_txns_cp in H. cbn [rbind fst snd] in H.
  rewrite fold_asserts_cp in H. cbn [rbind] in H.
  destruct (fold_cp_prices _ _ _ F) as [_ P2].
  unfold cp_day_end in H. cbn [d_prices d_date d_opens d_txns d_asserts d_closes d_normalized] in H.
  unfold has_prices. destruct (d_prices d) as [|x l].
  - injection H as <- <-. unfold set_normalized. cbn [d_normalized]. split; [reflexivity|intros _; exact P2].
  - destruct (normalize (cp_prices s2) v); [|discriminate]. injection H as <- <-.
    unfold set_normalized. cbn [d_normalized cp_previous]. split; [reflexivity|discriminate].
Qed.

Section PriceSteps.
  Variables (v : commodity) (a : account) (c : commodity).
  Hypothesis Ha : account_ok a = true.
  Hypothesis HAL : is_AL a = true.

  Lemma val_day_count_same s d s1 d1 :
    process_day (valuate_proc v) s d = ROk (s1, d1) -> v_prev s = d_normalized d ->
    cell_count a c (vday d1) = cell_count a c (vday d).
  Proof.
    intros H E. destruct (valuate_day_inv _ _ _ _ _ H) as (ts & sx & txns' & Eadj & Efold & _ & Etx & _).
    rewrite E in Eadj. apply adj_same in Eadj. subst ts. rewrite app_nil_r in Efold.
    unfold MarkToMarketSpec.day_postings. rewrite Etx.
    exact (fold_txns_count _ a c _ _ _ _ Efold).
  Qed.

  Lemma val_day_count_le s d s1 d1 :
    process_day (valuate_proc v) s d = ROk (s1, d1) -> Forall posting_in_ok (vday d) -> entries_ok (v_qty s) ->
    (cell_count a c (vday d1) <= cell_count a c (vday d) + 1)%Z.
  Proof.
    intros H Hin Hs.
    assert (E1 : process_days (valuate_proc v) s [d] = ROk (s1, [d1])) by (cbn [process_days]; rewrite H; reflexivity).
    assert (Hd : Forall posting_in_ok (vposts [d])).
    { unfold MarkToMarketSpec.days_postings. cbn [map concat]. rewrite app_nil_r. exact Hin. }
    pose proof (days_count v a c Ha HAL [d] s s1 [d1] Hd Hs E1) as Hc.
    unfold MarkToMarketSpec.days_postings in Hc. cbn [map concat length] in Hc. rewrite !app_nil_r in Hc. lia.
  Qed.

  (* ComputePrices then Valuate over the same days, from states that agree on the remembered
     prices: the cell gains at most one posting per day that declares a price *)
  Lemma cp_val_count : forall ds sc sc' dsP sv sv' dsV,
    process_days (compute_prices_proc v) sc ds = ROk (sc', dsP) ->
    process_days (valuate_proc v) sv dsP = ROk (sv', dsV) ->
    cp_previous sc = v_prev sv -> Forall posting_in_ok (vposts dsP) -> entries_ok (v_qty sv) ->
    cp_previous sc' = v_prev sv' /\
    (cell_count a c (vposts dsV) <= cell_count a c (vposts dsP) + price_days ds)%Z.
  Proof.
    induction ds as [|d ds IH]; intros sc sc' dsP sv sv' dsV HP HV Hprev Hin Hs; cbn [process_days] in HP.
    - injection HP as <- <-. cbn [process_days] in HV. injection HV as <- <-. split; [exact Hprev|]. cbn. lia.
    - destruct (process_day (compute_prices_proc v) sc d) as [[sc1 d1]| |] eqn:E1; cbn [rbind fst snd] in HP; try discriminate.
      destruct (process_days (compute_prices_proc v) sc1 ds) as [[sc2 ds2]| |] eqn:E2; cbn [rbind fst snd] in HP; try discriminate.
      injection HP as <- <-. cbn [process_days] in HV.
      destruct (process_day (valuate_proc v) sv d1) as [[sv1 e1]| |] eqn:F1; cbn [rbind fst snd] in HV; try discriminate.
      destruct (process_days (valuate_proc v) sv1 ds2) as [[sv2 es2]| |] eqn:F2; cbn [rbind fst snd] in HV; try discriminate.
      injection HV as <- <-.
      unfold MarkToMarketSpec.days_postings in Hin. cbn [map concat] in Hin. apply Forall_app in Hin. destruct Hin as [Hd Hr].
      destruct (cp_day_prev _ _ _ _ _ E1) as [C1 C2].
      assert (V1 : v_prev sv1 = d_normalized d1).
      { destruct (valuate_day_inv _ _ _ _ _ F1) as (ts & sx & txns' & _ & _ & -> & _). reflexivity. }
      assert (F1' : process_days (valuate_proc v) sv [d1] = ROk (sv1, [e1])) by (cbn [process_days]; rewrite F1; reflexivity).
      assert (Hd' : Forall posting_in_ok (vposts [d1])).
      { unfold MarkToMarketSpec.days_postings. cbn [map concat]. rewrite app_nil_r. exact Hd. }
      pose proof (days_entries_ok v [d1] sv sv1 [e1] Hd' Hs F1') as Hs1.
      destruct (IH _ _ _ _ _ _ E2 F2 (eq_trans C1 (eq_sym V1)) Hr Hs1) as [I1 I2].
      split; [exact I1|].
      unfold MarkToMarketSpec.days_postings in *. cbn [map concat]. rewrite !cell_count_app.
      unfold price_days in *. cbn [filter]. destruct (has_prices d) eqn:Ehp.
      + pose proof (val_day_count_le _ _ _ _ F1 Hd Hs) as Hday. cbn [length]. lia.
      + assert (Esame : v_prev sv = d_normalized d1) by (rewrite (C2 eq_refl); symmetry; exact Hprev).
        pose proof (val_day_count_same _ _ _ _ F1 Esame) as Hday. lia.
  Qed.
End PriceSteps.

(* ------------------------------------------------------------ Part B: the window on the days *)

(* bookings of the cell dated in (T1, T2] plus the days dated in (T1, T2] that declare a price *)
Definition day_steps_tight (a : account) (c : commodity) (ds : list day) (T1 T2 : Z) : Z :=
  (cell_count a c (vposts (days_upto T2 ds)) - cell_count a c (vposts (days_upto T1 ds))
   + (price_days (days_upto T2 ds) - price_days (days_upto T1 ds)))%Z.

Theorem window_stage_tight V a c days0 W col sP dsP sV dsV :
  account_ok a = true -> is_AL a = true -> c <> V ->
  StronglySorted Z.lt (dates days0) -> days_dated days0 -> Forall posting_in_ok (vposts days0) ->
  (W - 1 <= col)%Z ->
  process_days (compute_prices_proc V) (mkCp [] None) days0 = ROk (sP, dsP) ->
  process_days (valuate_proc V) val_init dsP = ROk (sV, dsV) ->
  Qabs (lsum (fun dp => if in_window W col (fst dp) then cval a c dp else 0) (dposts dsV)
        - (qty_on_days a c days0 col * price_on_days V c days0 col
           - qty_on_days a c days0 (W - 1) * price_on_days V c days0 (W - 1)))
    <= inject_Z (day_steps_tight a c days0 (W - 1) col) * eps8.
Proof.
  intros Ha HAL Hcv Hsorted Hdated Hin Hle HP HV.
  destruct (sorted_split3 W col days0 Hsorted Hle) as (B & Esplit & EU & HB).
  set (A := days_upto (W - 1) days0) in *. set (C := days_after col days0) in *.
  assert (HA : forall x, In x A -> (d_date x <= W - 1)%Z).
  { intros x Hx. unfold A, days_upto in Hx. apply filter_In in Hx. lia. }
  assert (HC : forall x, In x C -> (col < d_date x)%Z).
  { intros x Hx. unfold C, days_after in Hx. apply filter_In in Hx. lia. }
  rewrite Esplit in Hdated, Hin.
  apply days_dated_app in Hdated. destruct Hdated as [HdA Hdated]. apply days_dated_app in Hdated. destruct Hdated as [HdB HdC].
  apply in_ok_app in Hin. destruct Hin as [HinA Hin]. apply in_ok_app in Hin. destruct Hin as [HinB HinC].
  pose proof HP as HP0. rewrite Esplit in HP.
  destruct (process_days_app _ _ _ _ _ _ HP) as (pa & PA & P2 & EPA & EP2 & EdsP).
  destruct (process_days_app _ _ _ _ _ _ EP2) as (pb & PB & PC & EPB & EPC & ->).
  rewrite EdsP in HV, HP0.
  destruct (process_days_app _ _ _ _ _ _ HV) as (va & VA & V2 & EVA & EV2 & ->).
  destruct (process_days_app _ _ _ _ _ _ EV2) as (vb & VB & VC & EVB & EVC & ->).
  destruct (cp_days_shape _ _ _ _ _ EPA) as (DA & SA & TA).
  destruct (cp_days_shape _ _ _ _ _ EPB) as (DB & SB & TB).
  destruct (cp_days_shape _ _ _ _ _ EPC) as (DC & SC & TC).
  destruct (val_days_dated _ _ _ _ _ EVA (TA HdA)) as [HdVA DVA].
  destruct (val_days_dated _ _ _ _ _ EVB (TB HdB)) as [HdVB DVB].
  destruct (val_days_dated _ _ _ _ _ EVC (TC HdC)) as [HdVC DVC].
  assert (Hsum : lsum (fun dp => if in_window W col (fst dp) then cval a c dp else 0) (dposts (VA ++ VB ++ VC))
                 == lsum (cval a c) (dposts VB)).
  { rewrite !dposts_app, !LedgerProofs.qsum_app.
    rewrite (dated_sum_sel (in_window W col) false _ VA HdVA).
    2: { apply (dates_transfer (fun d => in_window W col d = false) VA A); [congruence|].
         intros y Hy. specialize (HA _ Hy). unfold in_window. lia. }
    rewrite (dated_sum_sel (in_window W col) true _ VB HdVB).
    2: { apply (dates_transfer (fun d => in_window W col d = true) VB B); [congruence|].
         intros y Hy. specialize (HB _ Hy). unfold in_window. lia. }
    rewrite (dated_sum_sel (in_window W col) false _ VC HdVC).
    2: { apply (dates_transfer (fun d => in_window W col d = false) VC C); [congruence|].
         intros y Hy. specialize (HC _ Hy). unfold in_window. lia. }
    ring. }
  rewrite Hsum, <- cell_value_dposts. clear Hsum.
  assert (HinPA : Forall posting_in_ok (vposts PA)) by (rewrite (vposts_of_dposts _ _ SA); exact HinA).
  assert (HinPB : Forall posting_in_ok (vposts PB)) by (rewrite (vposts_of_dposts _ _ SB); exact HinB).
  destruct (mtm_delta V a c PA val_init va VA Ha HAL Hcv HinPA (good_nil a c PT) EVA) as (A1 & A2 & A5 & _).
  destruct (mtm_delta V a c PB va vb VB Ha HAL Hcv HinPB A2 EVB) as (B1 & B2 & B5 & B6).
  cbn [val_init v_prev v_qty] in A1, A5. rewrite posq_nil, Qplus_0_l in A5.
  assert (LA : length PA = length A) by (eapply process_days_length; exact EPA).
  assert (LB : length PB = length B) by (eapply process_days_length; exact EPB).
  assert (PrA : v_prev va = prices_after V days0 (length A)).
  { rewrite A1, <- LA. apply (prefix_prices V days0 sP (PA ++ PB ++ PC) PA (PB ++ PC) HP0 eq_refl). }
  assert (PrB : v_prev vb = prices_after V days0 (length (days_upto col days0))).
  { rewrite B1, A1, EU, app_length, <- LA, <- LB, <- app_length.
    assert (E : last_normalized (last_normalized None PA) PB = last_normalized None (PA ++ PB))
      by (unfold last_normalized; rewrite fold_left_app; reflexivity).
    rewrite E. apply (prefix_prices V days0 sP (PA ++ PB ++ PC) (PA ++ PB) PC HP0). rewrite app_assoc. reflexivity. }
  assert (QA : posq a c (v_qty va) == qty_on_days a c days0 (W - 1)).
  { rewrite A5. unfold qty_on_days. fold A. rewrite (vposts_of_dposts _ _ SA). reflexivity. }
  assert (QB : posq a c (v_qty vb) == qty_on_days a c days0 col).
  { rewrite B5, QA. unfold qty_on_days. fold A. rewrite EU, vposts_app, cell_qty_app, (vposts_of_dposts _ _ SB). reflexivity. }
  (* the number of steps: only the days of the window that declare a price revalue *)
  assert (Hn : (cell_count a c (vposts VB) <= day_steps_tight a c days0 (W - 1) col)%Z).
  { assert (Hinit : entries_ok (v_qty val_init)) by (split; [constructor|intros x []]).
    destruct (cp_val_count V a c Ha HAL A _ _ _ _ _ _ EPA EVA eq_refl HinPA Hinit) as [SyncA _].
    assert (Hea : entries_ok (v_qty va)) by (apply (days_entries_ok V PA val_init va VA HinPA Hinit EVA)).
    destruct (cp_val_count V a c Ha HAL B _ _ _ _ _ _ EPB EVB SyncA HinPB Hea) as [_ Hc].
    unfold day_steps_tight. fold A. rewrite EU, vposts_app, cell_count_app, price_days_app.
    rewrite (vposts_of_dposts _ _ SB) in Hc. lia. }
  eapply Qle_trans; [|apply Qmult_le_compat_r; [rewrite <- Zle_Qle; exact Hn|exact eps8_nonneg]].
  eapply Qle_trans; [|exact B6]. apply Qle_lteq. right. apply Qabs_wd.
  unfold price_on_days. fold A. rewrite <- PrA, <- PrB, <- QA, <- QB. reflexivity.
Qed.

(* the window on the report, with quantities and prices of the builder's days and the tight count *)
Theorem windowed_report_days_tight cfg ds r part V :
  bc_valuation cfg = Some V ->
  balance_report cfg ds = COk (r, part) ->
  exists dl,
    parse_directives ds = MOk dl /\
    new_partition (clip (mkPeriod (bc_from cfg) (bc_to cfg)) (journal_period dl)) (bc_interval cfg) (bc_last cfg) = POk part /\
    (postings_syntactic dl ->
     forall a c col, account_ok a = true -> is_AL a = true -> shows_account cfg a -> cfg_where cfg a c = true -> c <> V ->
       (p_start (span part) <= p_end (span part))%Z -> In col (end_dates part) ->
       let days := built_days (bc_close cfg) dl part in
       let W := p_start (span part) in
       Qabs (cum_cell a c part col r
             - (qty_on_days a c days col * price_on_days V c days col
                - qty_on_days a c days (W - 1) * price_on_days V c days (W - 1)))
         <= inject_Z (day_steps_tight a c days (W - 1) col) * eps8).
Proof.
  intros Hv H. destruct (cum_cell_window cfg ds r part V Hv H) as (dl & dsP & dsV & Ep & Epart & (sP & sV & EP & EV) & Hcum).
  exists dl. split; [exact Ep|]. split; [exact Epart|].
  intros Hsyn a c col Ha HAL Hsh Hw Hcv Hspan Hcol days W.
  rewrite (Hcum Hsyn a c col Ha HAL Hsh Hw Hspan Hcol).
  assert (Hle : (W - 1 <= col)%Z).
  { destruct (partition_facts _ _ _ _ Epart) as [_ Htiles]. destruct (Htiles Hspan) as [Ht Hfs].
    destruct (tiles_facts _ _ _ Ht) as [_ Hb]. rewrite Forall_forall in Hb.
    apply in_map_iff in Hcol. destruct Hcol as (q & <- & Hq). specialize (Hb _ Hq). unfold W. lia. }
  apply (window_stage_tight V a c days W col sP dsP sV dsV Ha HAL Hcv
           (built_days_sorted _ _ _) (built_days_dated _ _ _) (built_days_in_ok' _ ds dl part Ep Hsyn) Hle EP EV).
Qed.

(* ------------------------------------------------------------ Part C: the count on the directives *)
Open Scope Z_scope.

(* the days --close touches carry nothing: invisible to any selection that rejects empty days *)
Lemma upd_day_id_filter (Q : day -> bool) d : Q (empty_day d) = false ->
  forall days, filter Q (upd_day days d (fun x => x)) = filter Q days.
Proof.
  intros HQ. induction days as [|x days IH]; cbn [upd_day].
  - cbn [filter]. rewrite HQ. reflexivity.
  - destruct (d =? d_date x); [reflexivity|]. destruct (d <? d_date x).
    + cbn [filter]. rewrite HQ. reflexivity.
    + cbn [filter]. rewrite IH. reflexivity.
Qed.

Lemma built_days_filter (Q : day -> bool) close dl part : (forall d, Q (empty_day d) = false) ->
  filter Q (built_days close dl part) = filter Q (b_days (builder_of dl)).
Proof.
  intros HQ. unfold built_days. destruct close; [|reflexivity].
  unfold builder_touch. cbn [b_days]. generalize (b_days (builder_of dl)). generalize (start_dates part).
  induction l as [|d l IH]; intros days; cbn [fold_left]; [reflexivity|].
  rewrite IH. apply upd_day_id_filter. apply HQ.
Qed.

Lemma filter_and_le {A} (f g : A -> bool) l : (length (filter (fun x => f x && g x) l) <= length (filter f l))%nat.
Proof.
  induction l as [|x l IH]; [apply le_n|]. cbn [filter]. destruct (f x), (g x); cbn [andb length]; lia.
Qed.

(* the days dated in [W, col] that declare a price are among the dates of the journal in [W, col],
   with and without --close *)
Lemma price_days_window close dl part W col : W - 1 <= col ->
  price_days (days_upto col (built_days close dl part)) - price_days (days_upto (W - 1) (built_days close dl part))
  <= days_in dl W col.
Proof.
  intros Hle. unfold price_days, days_upto, days_in. rewrite !filter_filter_and.
  rewrite (split_count d_date has_prices W col Hle).
  set (Q := fun x : day => in_window W col (d_date x) && has_prices x).
  rewrite (built_days_filter Q close dl part) by (intros d; unfold Q, has_prices; cbn [empty_day d_prices]; apply andb_false_r).
  destruct (builder_canonical dl) as (_ & Hd & _). cbn zeta in Hd. rewrite <- Hd.
  rewrite (filter_map_length (in_window W col) d_date).
  pose proof (filter_and_le (fun x : day => in_window W col (d_date x)) has_prices (b_days (builder_of dl))). unfold Q. lia.
Qed.

Definition cell_steps_tight (dl : list directive) (a : account) (c : commodity) (W E : Z) : Z :=
  bookings_in dl a c W E + days_in dl W E.

Theorem day_steps_tight_journal cfg dl part a c col :
  p_start (span part) - 1 <= col ->
  day_steps_tight a c (built_days (bc_close cfg) dl part) (p_start (span part) - 1) col
  <= cell_steps_tight dl a c (p_start (span part)) col.
Proof.
  intros Hle. unfold day_steps_tight, cell_steps_tight, bookings_in. set (W := p_start (span part)) in *.
  rewrite !count_on_days.
  rewrite (split_count (fun dp : Z * posting => fst dp) (fun dp => cellb a c (snd dp)) W col Hle).
  pose proof (price_days_window (bc_close cfg) dl part W col Hle). lia.
Qed.

(* the window, per commodity, with the tight count (the analogue of MarkToMarketFinal.windowed_report) *)
Theorem windowed_report_tight cfg ds r part V :
  bc_valuation cfg = Some V ->
  balance_report cfg ds = COk (r, part) ->
  exists dl,
    parse_directives ds = MOk dl /\
    new_partition (clip (mkPeriod (bc_from cfg) (bc_to cfg)) (journal_period dl)) (bc_interval cfg) (bc_last cfg) = POk part /\
    (postings_syntactic dl ->
     forall a c col, account_ok a = true -> is_AL a = true -> shows_account cfg a -> cfg_where cfg a c = true -> c <> V ->
       (p_start (span part) <= p_end (span part))%Z -> In col (end_dates part) ->
       (Qabs (cum_cell a c part col r
             - (mv_cell dl V a c col - mv_cell dl V a c (p_start (span part) - 1)))
         <= inject_Z (cell_steps_tight dl a c (p_start (span part)) col) * (1 # 100000000))%Q).
Proof.
  intros Hv H. destruct (windowed_report_days_tight cfg ds r part V Hv H) as (dl & Ep & Epart & Hw).
  exists dl. split; [exact Ep|]. split; [exact Epart|].
  intros Hsyn a c col Ha HAL Hsh Hwh Hcv Hspan Hcol.
  specialize (Hw Hsyn a c col Ha HAL Hsh Hwh Hcv Hspan Hcol). cbn zeta in Hw.
  assert (Hle : (p_start (span part) - 1 <= col)%Z).
  { destruct (partition_facts _ _ _ _ Epart) as [_ Htiles]. destruct (Htiles Hspan) as [Ht Hfs].
    destruct (tiles_facts _ _ _ Ht) as [_ Hb]. rewrite Forall_forall in Hb.
    apply in_map_iff in Hcol. destruct Hcol as (q & <- & Hq). specialize (Hb _ Hq). lia. }
  eapply Qle_trans.
  2: { apply Qmult_le_compat_r; [rewrite <- Zle_Qle; exact (day_steps_tight_journal cfg dl part a c col Hle)|discriminate]. }
  eapply Qle_trans; [|exact Hw]. apply Qle_lteq. right. apply Qabs_wd.
  unfold mv_cell. rewrite <- !(qty_on_days_journal (bc_close cfg) dl part).
  rewrite <- !(price_on_days_journal (bc_close cfg) dl part V c _ Hcv). reflexivity.
Qed.

(* ------------------------------------------------------------ Part D: the row *)

Fixpoint row_steps_tight (dl : list directive) (V : commodity) (a : account) (W E : Z) (coms : list commodity) : Z :=
  match coms with
  | [] => 0
  | c :: rest => (if str_eqb c V then 0 else cell_steps_tight dl a c W E) + row_steps_tight dl V a W E rest
  end.

Theorem windowed_row_tight cfg ds r part V :
  bc_valuation cfg = Some V ->
  balance_report cfg ds = COk (r, part) ->
  exists dl,
    parse_directives ds = MOk dl /\
    new_partition (clip (mkPeriod (bc_from cfg) (bc_to cfg)) (journal_period dl)) (bc_interval cfg) (bc_last cfg) = POk part /\
    (postings_syntactic dl ->
     forall a col coms, account_ok a = true -> is_AL a = true -> shows_account cfg a ->
       (forall c, In c coms -> cfg_where cfg a c = true) ->
       (p_start (span part) <= p_end (span part))%Z -> In col (end_dates part) ->
       (Qabs (row_value a part col r coms
             - (mv_row dl V a col coms - mv_row dl V a (p_start (span part) - 1) coms))
         <= inject_Z (row_steps_tight dl V a (p_start (span part)) col coms) * (1 # 100000000))%Q).
Proof.
  intros Hv H. destruct (windowed_report_tight cfg ds r part V Hv H) as (dl & Ep & Epart & Hw).
  destruct (windowed_report_V cfg ds r part V Hv H) as (dl' & Ep' & _ & HwV).
  assert (dl' = dl) by congruence. subst dl'.
  exists dl. split; [exact Ep|]. split; [exact Epart|].
  intros Hsyn a col coms Ha HAL Hsh Hwh Hspan Hcol.
  unfold row_value, mv_row. induction coms as [|c coms IH].
  - apply bound_zero. unfold LedgerProofs.qsum. cbn [fold_right]. ring.
  - specialize (IH (fun c' Hc' => Hwh c' (or_intror Hc'))). cbn [row_steps_tight].
    pose proof (Hwh c (or_introl eq_refl)) as Hwc.
    eapply (bound_add (1 # 100000000)
              (cum_cell a c part col r - (mv_cell dl V a c col - mv_cell dl V a c (p_start (span part) - 1)))).
    + destruct (str_eqb c V) eqn:Ec.
      * apply str_eqb_eq in Ec. subst c. apply bound_zero. rewrite (HwV Hsyn a col Ha HAL Hsh Hwc Hspan Hcol). ring.
      * assert (Hcv : c <> V) by (intros ->; rewrite str_eqb_refl in Ec; discriminate).
        exact (Hw Hsyn a c col Ha HAL Hsh Hwc Hcv Hspan Hcol).
    + exact IH.
    + unfold LedgerProofs.qsum. cbn [fold_right]. ring.
Qed.

(* -- the held commodities are listed once -- *)
Definition com_lt (x y : commodity) : Prop := str_cmp x y = Lt.

Lemma insert_com_in c x l : In x (insert_com c l) -> x = c \/ In x l.
Proof.
  induction l as [|y l IH]; cbn [insert_com]; intros H.
  - destruct H as [<-|[]]. left; reflexivity.
  - destruct (str_cmp c y); [right; exact H| |].
    + destruct H as [<-|H]; [left; reflexivity|right; exact H].
    + destruct H as [<-|H]; [right; left; reflexivity|]. destruct (IH H) as [->|Hl]; [left; reflexivity|right; right; exact Hl].
Qed.

Lemma insert_com_sorted c l : StronglySorted com_lt l -> StronglySorted com_lt (insert_com c l).
Proof.
  induction l as [|y l IH]; cbn [insert_com]; intros Hs.
  - repeat constructor.
  - inversion Hs as [|? ? Hs' Hall]; subst. destruct (str_cmp c y) eqn:E; [exact Hs| |].
    + constructor; [exact Hs|]. constructor; [exact E|]. rewrite Forall_forall in *. intros z Hz.
      exact (str_cmp_lt_trans _ _ _ E (Hall z Hz)).
    + constructor; [exact (IH Hs')|]. rewrite Forall_forall in *. intros z Hz.
      destruct (insert_com_in _ _ _ Hz) as [->|Hl]; [|exact (Hall z Hl)].
      unfold com_lt. rewrite (str_cmp_antisym c y), E. reflexivity.
Qed.

Lemma com_sorted_nodup l : StronglySorted com_lt l -> NoDup l.
Proof.
  induction l as [|x l IH]; intros Hs; [constructor|]. inversion Hs as [|? ? Hs' Hall]; subst.
  constructor; [|exact (IH Hs')]. intros Hin. rewrite Forall_forall in Hall.
  exact (str_cmp_lt_irrefl x (Hall x Hin)).
Qed.

Lemma held_commodities_nodup posts a : NoDup (held_commodities posts a).
Proof.
  apply com_sorted_nodup. unfold held_commodities.
  assert (G : forall l acc, StronglySorted com_lt acc ->
            StronglySorted com_lt (fold_left (fun l (dp : Z * posting) => let '(_, p) := dp in
                                     if acc_eqb (p_acc p) a then insert_com (p_com p) l else l) l acc)).
  { induction l as [|[d p] l IH]; intros acc Hacc; cbn [fold_left]; [exact Hacc|].
    apply IH. destruct (acc_eqb (p_acc p) a); [apply insert_com_sorted; exact Hacc|exact Hacc]. }
  apply G. constructor.
Qed.

(* -- the bookings of the account, split by commodity -- *)
Lemma count_disjoint {A} (f g h : A -> bool) l :
  (forall x, f x = true -> h x = true) -> (forall x, g x = true -> h x = true) ->
  (forall x, f x = true -> g x = true -> False) ->
  (length (filter f l) + length (filter g l) <= length (filter h l))%nat.
Proof.
  intros Hf Hg Hfg. induction l as [|x l IH]; [apply le_n|]. cbn [filter].
  destruct (f x) eqn:Ef, (g x) eqn:Eg; try (exfalso; exact (Hfg x Ef Eg));
    try rewrite (Hf x Ef); try rewrite (Hg x Eg); cbn [length]; try lia.
  destruct (h x); cbn [length]; lia.
Qed.

Definition acct_in (a : account) (W E : Z) (dp : Z * posting) : bool :=
  let '(d, p) := dp in (W <=? d) && (d <=? E) && acc_eqb (p_acc p) a.

Lemma bookings_split dl V a W E : forall coms, NoDup coms ->
  row_steps_tight dl V a W E coms
  <= Z.of_nat (length (filter (fun dp => acct_in a W E dp && existsb (str_eqb (p_com (snd dp))) coms) (flat_postings dl)))
     + days_in dl W E * Z.of_nat (length coms).
Proof.
  induction coms as [|c coms IH]; intros Hnd; cbn [row_steps_tight]; [cbn; lia|].
  inversion Hnd as [|? ? Hnin Hnd']; subst. specialize (IH Hnd').
  cbn [length]. rewrite Nat2Z.inj_succ, Z.mul_succ_r.
  assert (Hdays : 0 <= days_in dl W E) by (unfold days_in; lia).
  pose proof (count_disjoint
                (fun dp : Z * posting => in_window W E (fst dp) && cellb a c (snd dp))
                (fun dp => acct_in a W E dp && existsb (str_eqb (p_com (snd dp))) coms)
                (fun dp => acct_in a W E dp && existsb (str_eqb (p_com (snd dp))) (c :: coms))
                (flat_postings dl)) as Hc.
  assert (Hc' : (length (filter (fun dp : Z * posting => in_window W E (fst dp) && cellb a c (snd dp)) (flat_postings dl))
                 + length (filter (fun dp => acct_in a W E dp && existsb (str_eqb (p_com (snd dp))) coms) (flat_postings dl))
                 <= length (filter (fun dp => acct_in a W E dp && existsb (str_eqb (p_com (snd dp))) (c :: coms)) (flat_postings dl)))%nat).
  { apply Hc.
    - intros [d p]. unfold acct_in, in_window, cellb. cbn [fst snd existsb]. intros Hx.
      apply andb_true_iff in Hx. destruct Hx as [H1 H2]. apply andb_true_iff in H2. destruct H2 as [H2 H3].
      rewrite H1, H2, H3. reflexivity.
    - intros [d p]. cbn [fst snd existsb]. intros Hx. apply andb_true_iff in Hx. destruct Hx as [H1 H2].
      rewrite H1, H2. apply orb_true_r.
    - intros [d p]. unfold cellb. cbn [fst snd]. intros H1 H2.
      apply andb_true_iff in H1. destruct H1 as [_ H1]. apply andb_true_iff in H1. destruct H1 as [_ H1].
      apply andb_true_iff in H2. destruct H2 as [_ H2]. apply str_eqb_eq in H1.
      apply existsb_exists in H2. destruct H2 as (c' & Hin & Heq). apply str_eqb_eq in Heq.
      apply Hnin. rewrite <- H1, Heq. exact Hin. }
  unfold cell_steps_tight, bookings_in.
  destruct (str_eqb c V); lia.
Qed.

Lemma filter_le_impl {A} (f g : A -> bool) l : (forall x, f x = true -> g x = true) ->
  (length (filter f l) <= length (filter g l))%nat.
Proof.
  intros H. induction l as [|x l IH]; [apply le_n|]. cbn [filter].
  destruct (f x) eqn:Ef; [rewrite (H x Ef); cbn [length]; lia|]. destruct (g x); cbn [length]; lia.
Qed.

(* -- the dates of the journal in the window, as step_bound collects them -- *)
Definition sb_date (d : directive) : Z :=
  match d with DPrice x _ _ _ | DOpen x _ | DClose x _ | DAssert x _ => x | DTxn t => t_date t end.

Definition sb_days (dl : list directive) (W E : Z) : list Z :=
  fold_left (fun l d => let dt := sb_date d in
               if (W <=? dt) && (dt <=? E) && negb (existsb (Z.eqb dt) l) then dt :: l else l) dl [].

Lemma sb_date_ddate d : sb_date d = ddate d.
Proof. destruct d; reflexivity. Qed.

Lemma sb_days_in W E x : forall dl acc,
  In x acc \/ (In x (map ddate dl) /\ in_window W E x = true) ->
  In x (fold_left (fun l d => let dt := sb_date d in
               if (W <=? dt) && (dt <=? E) && negb (existsb (Z.eqb dt) l) then dt :: l else l) dl acc).
Proof.
  induction dl as [|d dl IH]; intros acc H; cbn [fold_left].
  - destruct H as [H|[[] _]]. exact H.
  - apply IH. cbn zeta. rewrite sb_date_ddate.
    destruct H as [H|[H Hw]].
    + left. destruct ((W <=? ddate d) && (ddate d <=? E) && negb (existsb (Z.eqb (ddate d)) acc)); [right; exact H|exact H].
    + cbn [map] in H. destruct H as [H|H]; [|right; split; assumption].
      left. subst x. unfold in_window in Hw. rewrite Hw. cbn [andb].
      destruct (existsb (Z.eqb (ddate d)) acc) eqn:Ex; cbn [negb].
      * apply existsb_exists in Ex. destruct Ex as (y & Hy & Hey). apply Z.eqb_eq in Hey. subst y. exact Hy.
      * left. reflexivity.
Qed.

Lemma sorted_lt_nodup (l : list Z) : StronglySorted Z.lt l -> NoDup l.
Proof.
  induction l as [|x l IH]; intros Hs; [constructor|]. inversion Hs as [|? ? Hs' Hall]; subst.
  constructor; [|exact (IH Hs')]. intros Hin. rewrite Forall_forall in Hall. specialize (Hall x Hin). lia.
Qed.

Lemma days_in_sb dl W E : days_in dl W E <= Z.of_nat (length (sb_days dl W E)).
Proof.
  unfold days_in. apply inj_le. apply NoDup_incl_length.
  - apply NoDup_filter. apply sorted_lt_nodup. apply dates_sorted.
  - intros x Hx. apply filter_In in Hx. destruct Hx as [Hx Hw]. unfold sb_days. apply sb_days_in.
    right. split; [apply dates_in; exact Hx|exact Hw].
Qed.

(* the count the model obeys is at most the allowance of the runtime check *)
Theorem row_steps_step_bound dl V a W E :
  row_steps_tight dl V a W E (held_commodities (flat_postings dl) a) <= step_bound dl a W E.
Proof.
  pose proof (bookings_split dl V a W E _ (held_commodities_nodup (flat_postings dl) a)) as H1.
  pose proof (filter_le_impl
                (fun dp => acct_in a W E dp && existsb (str_eqb (p_com (snd dp))) (held_commodities (flat_postings dl) a))
                (acct_in a W E) (flat_postings dl)) as H2.
  assert (H2' : (length (filter (fun dp => acct_in a W E dp && existsb (str_eqb (p_com (snd dp))) (held_commodities (flat_postings dl) a)) (flat_postings dl))
                 <= length (filter (acct_in a W E) (flat_postings dl)))%nat).
  { apply H2. intros x Hx. apply andb_true_iff in Hx. tauto. }
  pose proof (days_in_sb dl W E) as H3.
  assert (H4 : days_in dl W E * Z.of_nat (length (held_commodities (flat_postings dl) a))
               <= Z.of_nat (length (sb_days dl W E)) * Z.of_nat (length (held_commodities (flat_postings dl) a))).
  { apply Z.mul_le_mono_nonneg_r; [lia|exact H3]. }
  assert (Esb : step_bound dl a W E
                = Z.of_nat (length (filter (acct_in a W E) (flat_postings dl)))
                  + Z.of_nat (length (sb_days dl W E)) * Z.of_nat (length (held_commodities (flat_postings dl) a)) + 1)
    by reflexivity.
  rewrite Esb. lia.
Qed.

(* ------------------------------------------------------------ Part E: within_bound, in rationals *)
Open Scope Q_scope.

Lemma dvalue_pos_coef d : 0 < dvalue d <-> (0 < coef d)%Z.
Proof.
  unfold dvalue. pose proof (Qpower_ten_pos (ex d)) as Hp. split; intros H.
  - destruct (Z_lt_le_dec 0 (coef d)) as [Hl|Hl]; [exact Hl|exfalso].
    assert (Hn : inject_Z (coef d) * Qpower ten (ex d) <= 0).
    { setoid_replace 0 with (0 * Qpower ten (ex d)) by ring.
      apply Qmult_le_compat_r; [|apply Qlt_le_weak; exact Hp]. rewrite Zle_Qle in Hl. exact Hl. }
    exact (Qlt_irrefl 0 (Qlt_le_trans _ _ _ H Hn)).
  - setoid_replace 0 with (0 * Qpower ten (ex d)) by ring.
    apply Qmult_lt_compat_r; [exact Hp|]. rewrite Zlt_Qlt in H. exact H.
Qed.

Lemma greater_than_value a b : greater_than a b = true <-> dvalue b < dvalue a.
Proof.
  assert (Hs : forall x y, (let '(p, q) := rescale_pair x y in coef p - coef q)%Z = coef (sub x y)).
  { intros x y. unfold sub. destruct (rescale_pair x y). reflexivity. }
  assert (Hv : dvalue b < dvalue a <-> (0 < coef (sub a b))%Z).
  { rewrite <- dvalue_pos_coef, dvalue_sub. split; intros H.
    - setoid_replace 0 with (dvalue b - dvalue b) by ring. apply Qplus_lt_l. exact H.
    - setoid_replace (dvalue b) with (0 + dvalue b) by ring.
      setoid_replace (dvalue a) with (dvalue a - dvalue b + dvalue b) by ring. apply Qplus_lt_l. exact H. }
  rewrite Hv, <- Hs. unfold greater_than, cmp. destruct (rescale_pair a b) as [p q].
  destruct (coef p ?= coef q)%Z eqn:E.
  - apply Z.compare_eq in E. split; [discriminate|]. lia.
  - rewrite Z.compare_lt_iff in E. split; [discriminate|]. lia.
  - rewrite Z.compare_gt_iff in E. split; [lia|reflexivity].
Qed.

Lemma dvalue_dabs d : dvalue (dabs d) == Qabs (dvalue d).
Proof.
  unfold dvalue. rewrite Qabs_Qmult, (Qabs_pos (Qpower ten (ex d))) by (apply Qlt_le_weak; apply Qpower_ten_pos).
  assert (Ha : Qabs (inject_Z (coef d)) = inject_Z (Z.abs (coef d))) by reflexivity. rewrite Ha.
  unfold dabs. destruct (coef d <? 0)%Z eqn:E; cbn [coef ex]; [reflexivity|].
  rewrite Z.abs_eq by lia. reflexivity.
Qed.

Lemma dvalue_e8 n : dvalue (mkDec n (-8)) == inject_Z n * (1 # 100000000).
Proof. unfold dvalue. cbn [coef ex]. apply Qmult_comp; [reflexivity|]. reflexivity. Qed.

Theorem within_bound_value o e n :
  within_bound o e n = true <-> Qabs (dvalue o - dvalue e) <= inject_Z n * (1 # 100000000).
Proof.
  unfold within_bound. rewrite negb_true_iff, <- not_true_iff_false, greater_than_value.
  rewrite dvalue_dabs, dvalue_sub, dvalue_e8. split.
  - apply Qnot_lt_le.
  - intros H1 H2. exact (Qlt_irrefl _ (Qle_lt_trans _ _ _ H1 H2)).
Qed.

(* ------------------------------------------------------------ Part F: the model meets the check's verdict *)

(* For every configuration with a valuation commodity and every journal on which the balance command
   succeeds: for an asset/liability account shown as itself, ValuationSpec.mtm_row (what the runtime
   check computes per column: expected value and allowance) exists, has one entry per column, and
   wherever the expected value exists the model's row lies within the allowance -- as an inequality
   between rationals and as the boolean within_bound the check evaluates (on any decimal that
   carries the row's value). *)
Theorem model_meets_spec cfg ds r part V :
  bc_valuation cfg = Some V ->
  balance_report cfg ds = COk (r, part) ->
  exists dl,
    parse_directives ds = MOk dl /\
    (postings_syntactic dl ->
     forall a, account_ok a = true -> is_AL a = true -> shows_account cfg a ->
       (forall c, cfg_where cfg a c = true) ->
       (p_start (span part) <= p_end (span part))%Z ->
       exists exps,
         mtm_row cfg dl a = Some exps /\ length exps = length (end_dates part) /\
         forall j col e n, nth_error (end_dates part) j = Some col -> nth_error exps j = Some (Some e, n) ->
           let coms := held_commodities (flat_postings dl) a in
           Qabs (row_value a part col r coms - dvalue e) <= inject_Z n * (1 # 100000000) /\
           forall o, dvalue o == row_value a part col r coms -> within_bound o e n = true).
Proof.
  intros Hv H. destruct (windowed_row_tight cfg ds r part V Hv H) as (dl & Ep & Epart & Hw).
  exists dl. split; [exact Ep|].
  intros Hsyn a Ha HAL Hsh Hwh Hspan.
  exists (map (fun p => (mtm_expected dl V a (p_start (span part)) (p_end p), step_bound dl a (p_start (span part)) (p_end p)))
              (periods part)).
  split; [unfold mtm_row; rewrite Hv, Epart; reflexivity|].
  split; [unfold end_dates; rewrite !map_length; reflexivity|].
  intros j col e n Hcol Hexp coms.
  unfold end_dates in Hcol. rewrite nth_error_map in Hcol, Hexp.
  destruct (nth_error (periods part) j) as [p|] eqn:Ej; cbn [option_map] in Hcol, Hexp; [|discriminate].
  injection Hcol as <-. injection Hexp as He <-.
  assert (Hin : In (p_end p) (end_dates part)).
  { unfold end_dates. apply in_map. exact (nth_error_In _ _ Ej). }
  assert (Hb : Qabs (row_value a part (p_end p) r coms - dvalue e)
               <= inject_Z (step_bound dl a (p_start (span part)) (p_end p)) * (1 # 100000000)).
  { eapply Qle_trans.
    2: { apply Qmult_le_compat_r; [rewrite <- Zle_Qle; exact (row_steps_step_bound dl V a _ _)|discriminate]. }
    rewrite (mtm_expected_sum _ _ _ _ _ _ He).
    exact (Hw Hsyn a (p_end p) coms Ha HAL Hsh (fun c _ => Hwh c) Hspan Hin). }
  split; [exact Hb|].
  intros o Ho. apply within_bound_value. rewrite Ho. exact Hb.
Qed.
