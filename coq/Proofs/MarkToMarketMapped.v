(* C03 on the rendered report, part 7: rows aggregated by --mapping / --remap.  A row b of an
   asset/liability type holds the sum, over the accounts that land on b, of the values Valuate
   posted on them; each of these obeys the windowed mark-to-market bound (Proofs/MarkToMarketSteps.v).

   Part A  the asset/liability accounts of the valued days are accounts of the journal
   Part B  remap and shorten keep an account syntactically valid and in its class (A/L or not)
   Part C  the cells of a mapped row
   Part D  the cumulated cells = the window sum
   Part E  the window of one account on the directives; the sum over the aggregated accounts *)
From Coq Require Import ZArith QArith Qabs List Bool Lia Permutation Sorting.Sorted.
From Knut Require Import Model.Str Model.Dec Model.Date Model.Account Model.Ledger Model.Price
     Model.Journal Model.Check Model.Pipeline Model.Table Model.Report Model.Cli
     Spec.DateSpec Spec.WellformedSpec Spec.LedgerSpec Spec.LedgerSyntax Spec.MarkToMarketSpec
     Spec.PriceSpec Spec.PriceDaySpec Spec.ValuationSpec Spec.MarkToMarketReportSpec Spec.MarkToMarketMappedSpec
     Proofs.DecProofs Proofs.DecValue Proofs.CheckLemmas Proofs.CheckProofs Proofs.PairProofs
     Proofs.ReportSum Proofs.Conservation Proofs.DateProofs Proofs.BuilderProofs Proofs.BeancountProofs
     Proofs.LedgerProofs Proofs.CloseProofs Proofs.PriceDayProofs Proofs.ValuationProofs
     Proofs.MarkToMarket Proofs.MarkToMarketReport Proofs.MarkToMarketWindow Proofs.MarkToMarketJournal
     Proofs.MarkToMarketFinal Proofs.MarkToMarketRow Proofs.MarkToMarketSteps.
Import ListNotations.
Open Scope Q_scope.

(* ------------------------------------------------------------ Part A: where the accounts come from *)
Section From.
  Variable S : account -> Prop.

  Definition pos_from (m : positions) : Prop := forall x, In x m -> S (fst (fst (snd x))).
  Definition acc_from (p : posting) : Prop := S (p_acc p) \/ is_AL (p_acc p) = false.

  Lemma val_posting_from v s t p s' p' :
    val_posting v s t p = ROk (s', p') -> acc_from p -> pos_from (v_qty s) ->
    pos_from (v_qty s') /\ acc_from p'.
  Proof.
    intros H Hp Hs. split.
    - unfold val_posting in H. destruct (is_zero (p_qty p)); [injection H as <- _; exact Hs|].
      assert (E1 : v_qty s' = v_qty (if is_AL (p_acc p)
                    then mkVal (v_prev s) (v_cur s) (pos_add (v_qty s) (p_acc p) (p_com p) (p_qty p)) else s)).
      { destruct (str_eqb v (p_com p)); [injection H as <- _; reflexivity|].
        destruct (v_cur s) as [n|]; [|discriminate]. destruct (np_valuate n (p_com p) (p_qty p)); [|discriminate].
        injection H as <- _. reflexivity. }
      rewrite E1. destruct (is_AL (p_acc p)) eqn:EAL; [|exact Hs]. cbn [v_qty]. unfold pos_add.
      intros x Hin. apply sm_put_in in Hin. destruct Hin as [->|Hin]; [|apply Hs; exact Hin].
      destruct Hp as [Hp|Hp]; [exact Hp|congruence].
    - destruct (val_posting_value _ _ _ _ _ _ H) as (Ea & _). unfold acc_from. rewrite Ea. exact Hp.
  Qed.

  Lemma fold_postings_from v t : forall ps s s' ps',
    fold_postings (val_posting v) t s ps = ROk (s', ps') -> Forall acc_from ps -> pos_from (v_qty s) ->
    pos_from (v_qty s') /\ Forall acc_from ps'.
  Proof.
    induction ps as [|p ps IH]; intros s s' ps' H Hok Hs; cbn [fold_postings] in H.
    - injection H as <- <-. split; [exact Hs|constructor].
    - destruct (val_posting v s t p) as [[s1 p1]| |] eqn:E1; cbn [rbind fst snd] in H; try discriminate.
      destruct (fold_postings (val_posting v) t s1 ps) as [[s2 ps2]| |] eqn:E2; cbn [rbind fst snd] in H; try discriminate.
      injection H as <- <-. inversion Hok as [|? ? Hp Hrest]; subst.
      destruct (val_posting_from _ _ _ _ _ _ E1 Hp Hs) as [A1 A2].
      destruct (IH _ _ _ E2 Hrest A1) as [B1 B2]. split; [exact B1|constructor; assumption].
  Qed.

  Lemma fold_txns_from v : forall ts s s' ts',
    fold_txns (valuate_proc v) s ts = ROk (s', ts') ->
    Forall acc_from (MarkToMarket.txns_postings ts) -> pos_from (v_qty s) ->
    pos_from (v_qty s') /\ Forall acc_from (MarkToMarket.txns_postings ts').
  Proof.
    induction ts as [|t ts IH]; intros s s' ts' H Hok Hs; cbn [fold_txns] in H.
    - injection H as <- <-. split; [exact Hs|constructor].
    - cbn [valuate_proc pr_txn pr_posting rbind] in H.
      destruct (fold_postings (val_posting v) t s (t_postings t)) as [[s1 ps1]| |] eqn:E1; cbn [rbind fst snd] in H; try discriminate.
      destruct (fold_txns (valuate_proc v) s1 ts) as [[s2 ts2]| |] eqn:E2; cbn [rbind fst snd] in H; try discriminate.
      injection H as <- <-. unfold MarkToMarket.txns_postings in *. cbn [map concat t_postings] in *.
      apply Forall_app in Hok. destruct Hok as [H1 H2].
      destruct (fold_postings_from _ _ _ _ _ _ E1 H1 Hs) as [A1 A2].
      destruct (IH _ _ _ E2 H2 A1) as [B1 B2]. split; [exact B1|apply Forall_app; split; assumption].
  Qed.

  Lemma adjustments_from v date prev cur pos ts :
    val_adjustments v date prev cur pos = ROk ts -> pos_from pos ->
    Forall acc_from (MarkToMarket.txns_postings ts).
  Proof.
    intros H He. pose proof (val_adjustments_only_AL _ _ _ _ _ _ H) as F. clear H.
    induction F as [|t ts (k & a & c & q & gain & Hin & _ & _ & _ & Hps) _ IH]; [constructor|].
    unfold MarkToMarket.txns_postings in *. cbn [map concat]. apply Forall_app. split; [|exact IH].
    rewrite Hps. pose proof (He _ Hin) as HS. cbn [fst snd] in HS.
    unfold pair_build. destruct (is_neg dec_nil || is_zero dec_nil && is_neg gain); cbv beta iota zeta;
      (constructor; [|constructor; [|constructor]]); unfold acc_from; cbn [p_acc]; first [left; exact HS|right; reflexivity].
  Qed.

  Lemma val_days_from v : forall ds s s' ds',
    process_days (valuate_proc v) s ds = ROk (s', ds') -> Forall acc_from (vposts ds) -> pos_from (v_qty s) ->
    Forall acc_from (vposts ds').
  Proof.
    induction ds as [|d r IH]; intros s s' ds' H Hin Hs; cbn [process_days] in H.
    - injection H as _ <-. constructor.
    - destruct (process_day (valuate_proc v) s d) as [[s1 d1]| |] eqn:E1; cbn [rbind fst snd] in H; try discriminate.
      destruct (process_days (valuate_proc v) s1 r) as [[s2 r2]| |] eqn:E2; cbn [rbind fst snd] in H; try discriminate.
      injection H as _ <-.
      unfold MarkToMarketSpec.days_postings in Hin. cbn [map concat] in Hin. apply Forall_app in Hin. destruct Hin as [Hd Hr].
      destruct (valuate_day_inv _ _ _ _ _ E1) as (ts & sx & txns' & Eadj & Efold & -> & Etx & _).
      assert (Hall : Forall acc_from (MarkToMarket.txns_postings (d_txns d ++ ts))).
      { unfold MarkToMarket.txns_postings. rewrite map_app, concat_app. apply Forall_app. split; [exact Hd|].
        exact (adjustments_from _ _ _ _ _ _ Eadj Hs). }
      destruct (fold_txns_from _ _ _ _ _ Efold Hall Hs) as [A1 A2].
      unfold MarkToMarketSpec.days_postings in *. cbn [map concat]. apply Forall_app. split.
      + unfold MarkToMarketSpec.day_postings. rewrite Etx. exact A2.
      + apply (IH _ _ _ E2 Hr). cbn [v_qty]. exact A1.
  Qed.
End From.

(* ------------------------------------------------------------ Part B: remap and shorten *)

Lemma in_firstn {A} (x : A) n l : In x (firstn n l) -> In x l.
Proof. intros H. rewrite <- (firstn_skipn n l). apply in_or_app. left. exact H. Qed.
Lemma in_skipn {A} (x : A) n l : In x (skipn n l) -> In x l.
Proof. intros H. rewrite <- (firstn_skipn n l). apply in_or_app. right. exact H. Qed.

Lemma account_ok_cons s tail :
  account_ok (s :: tail) = true <->
  (exists t, parse_atype s = Some t) /\ seg_ok s = true /\
  (forall x, In x tail -> x <> [] /\ seg_ok x = true).
Proof.
  unfold account_ok. cbn [valid_account forallb]. rewrite !andb_true_iff, !forallb_forall. split.
  - intros [[H1 H2] [H3 H4]]. split; [destruct (parse_atype s) as [t|]; [exists t; reflexivity|discriminate]|].
    split; [exact H3|]. intros x Hx. split; [|exact (H4 x Hx)]. specialize (H2 x Hx). destruct x; [discriminate|discriminate].
  - intros [[t Ht] [H3 H4]]. rewrite Ht. split; [split; [reflexivity|]|split; [exact H3|]].
    + intros x Hx. destruct (H4 x Hx) as [Hn _]. destruct x; [contradiction|reflexivity].
    + intros x Hx. exact (proj2 (H4 x Hx)).
Qed.

Lemma swap_type_ok a : account_ok a = true -> account_ok (swap_type a) = true /\ is_AL (swap_type a) = is_AL a.
Proof.
  intros H. destruct a as [|s tail]; [discriminate|]. pose proof H as H0. apply account_ok_cons in H. destruct H as [[t Ht] [H3 H4]].
  unfold swap_type. rewrite Ht.
  destruct t; (split; [first [exact H0|apply account_ok_cons; split; [eexists; reflexivity|split; [reflexivity|exact H4]]]
                      |unfold is_AL, acc_type; rewrite ?Ht; reflexivity]).
Qed.

Lemma remap_ok rs a : account_ok a = true -> account_ok (remap rs a) = true /\ is_AL (remap rs a) = is_AL a.
Proof. intros H. unfold remap. destruct (rxs_match rs (acc_name a)); [apply swap_type_ok; exact H|split; [exact H|reflexivity]]. Qed.

Lemma shorten_ok m a b' : account_ok a = true -> shorten m a = ShAcc b' -> account_ok b' = true /\ is_AL b' = is_AL a.
Proof.
  intros Ha H. unfold shorten in H. destruct m as [|r m]; [injection H as <-; auto|].
  destruct (mapping_level (r :: m) (acc_name a)) as [[level suffix]|]; [|injection H as <-; auto].
  destruct (level =? 0)%Z eqn:E0; [discriminate|].
  destruct (acc_level a <=? suffix)%Z; [injection H as <-; auto|].
  destruct (acc_level a - suffix <? level)%Z eqn:E2; [injection H as <-; auto|].
  destruct ((level <? 0) || (suffix <? 0))%Z eqn:E3; [discriminate|].
  injection H as <-. apply orb_false_iff in E3. destruct E3 as [E3 _].
  destruct (Z.to_nat level) as [|l'] eqn:El; [lia|].
  destruct (Z.to_nat (acc_level a - suffix)) as [|k'] eqn:Ek; [lia|].
  destruct a as [|s tail]; [discriminate|]. cbn [firstn skipn app].
  split; [|reflexivity].
  apply account_ok_cons in Ha. destruct Ha as [Ht [H3 H4]]. apply account_ok_cons. split; [exact Ht|]. split; [exact H3|].
  intros x Hx. apply H4. apply in_app_or in Hx. destruct Hx as [Hx|Hx].
  - apply in_firstn in Hx. apply in_firstn in Hx. exact Hx.
  - apply in_skipn in Hx. exact Hx.
Qed.

(* an account that lands on a valid row b is of b's class *)
Lemma lands_class cfg b a :
  account_ok a = true -> account_ok b = true -> lands_on cfg b a = true -> is_AL a = is_AL b.
Proof.
  intros Ha Hb H. unfold lands_on in H. destruct (remap_ok (bc_remap cfg) a Ha) as [R1 R2].
  destruct (shorten (bc_mapping cfg) (remap (bc_remap cfg) a)) as [b'| |] eqn:E; try discriminate.
  destruct (shorten_ok _ _ _ R1 E) as [S1 S2].
  apply acc_eqb_name in H. apply acc_name_inj in H; [|assumption|assumption]. subst b'. congruence.
Qed.
