(* C03 on the rendered report, part 7: rows aggregated by --mapping / --remap.  A row b of an
   asset/liability type holds the sum, over the accounts that land on b, of the values Valuate
   posted on them; each of these obeys the windowed mark-to-market bound (Proofs/MarkToMarketSteps.v).

   Part A  the asset/liability accounts of the valued days are accounts of the journal
   Part B  remap and shorten keep an account syntactically valid and in its class (A/L or not)
   Part C  the cells of a mapped row
   Part D  the cumulated cells = the window sum
   Part E  the window of one account on the directives; the sum over the aggregated accounts *)
From Coq Require Import ZArith QArith Qabs List Bool Lia Permutation Sorting.Sorted.
From Knut Require Import Model.Str Model.Dec Model.Date Model.Account Model.Ledger Model.Price
     Model.Journal Model.Check Model.Pipeline Model.Table Model.Report Model.Cli
     Spec.DateSpec Spec.WellformedSpec Spec.LedgerSpec Spec.LedgerSyntax Spec.MarkToMarketSpec
     Spec.PriceSpec Spec.PriceDaySpec Spec.ValuationSpec Spec.MarkToMarketReportSpec Spec.MarkToMarketMappedSpec
     Proofs.DecProofs Proofs.DecValue Proofs.CheckLemmas Proofs.CheckProofs Proofs.PairProofs
     Proofs.ReportSum Proofs.Conservation Proofs.DateProofs Proofs.BuilderProofs Proofs.BeancountProofs
     Proofs.LedgerProofs Proofs.CloseProofs Proofs.PriceDayProofs Proofs.ValuationProofs
     Proofs.MarkToMarket Proofs.MarkToMarketReport Proofs.MarkToMarketWindow Proofs.MarkToMarketJournal
     Proofs.MarkToMarketFinal Proofs.MarkToMarketRow Proofs.MarkToMarketSteps.
Import ListNotations.
Open Scope Q_scope.

(* ------------------------------------------------------------ Part A: where the accounts come from *)
Section From.
  Variable S : account -> Prop.

  Definition pos_from (m : positions) : Prop := forall x, In x m -> S (fst (fst (snd x))).
  Definition acc_from (p : posting) : Prop := S (p_acc p) \/ is_AL (p_acc p) = false.

  Lemma val_posting_from v s t p s' p' :
    val_posting v s t p = ROk (s', p') -> acc_from p -> pos_from (v_qty s) ->
    pos_from (v_qty s') /\ acc_from p'.
  Proof.
    intros H Hp Hs. split.
    - unfold val_posting in H. destruct (is_zero (p_qty p)); [injection H as <- _; exact Hs|].
      assert (E1 : v_qty s' = v_qty (if is_AL (p_acc p)
                    then mkVal (v_prev s) (v_cur s) (pos_add (v_qty s) (p_acc p) (p_com p) (p_qty p)) else s)).
      { destruct (str_eqb v (p_com p)); [injection H as <- _; reflexivity|].
        destruct (v_cur s) as [n|]; [|discriminate]. destruct (np_valuate n (p_com p) (p_qty p)); [|discriminate].
        injection H as <- _. reflexivity. }
      rewrite E1. destruct (is_AL (p_acc p)) eqn:EAL; [|exact Hs]. cbn [v_qty]. unfold pos_add.
      intros x Hin. apply sm_put_in in Hin. destruct Hin as [->|Hin]; [|apply Hs; exact Hin].
      destruct Hp as [Hp|Hp]; [exact Hp|congruence].
    - destruct (val_posting_value _ _ _ _ _ _ H) as (Ea & _). unfold acc_from. rewrite Ea. exact Hp.
  Qed.

  Lemma fold_postings_from v t : forall ps s s' ps',
    fold_postings (val_posting v) t s ps = ROk (s', ps') -> Forall acc_from ps -> pos_from (v_qty s) ->
    pos_from (v_qty s') /\ Forall acc_from ps'.
  Proof.
    induction ps as [|p ps IH]; intros s s' ps' H Hok Hs; cbn [fold_postings] in H.
    - injection H as <- <-. split; [exact Hs|constructor].
    - destruct (val_posting v s t p) as [[s1 p1]| |] eqn:E1; cbn [rbind fst snd] in H; try discriminate.
      destruct (fold_postings (val_posting v) t s1 ps) as [[s2 ps2]| |] eqn:E2; cbn [rbind fst snd] in H; try discriminate.
      injection H as <- <-. inversion Hok as [|? ? Hp Hrest]; subst.
      destruct (val_posting_from _ _ _ _ _ _ E1 Hp Hs) as [A1 A2].
      destruct (IH _ _ _ E2 Hrest A1) as [B1 B2]. split; [exact B1|constructor; assumption].
  Qed.

  Lemma fold_txns_from v : forall ts s s' ts',
    fold_txns (valuate_proc v) s ts = ROk (s', ts') ->
    Forall acc_from (MarkToMarket.txns_postings ts) -> pos_from (v_qty s) ->
    pos_from (v_qty s') /\ Forall acc_from (MarkToMarket.txns_postings ts').
  Proof.
    induction ts as [|t ts IH]; intros s s' ts' H Hok Hs; cbn [fold_txns] in H.
    - injection H as <- <-. split; [exact Hs|constructor].
    - cbn [valuate_proc pr_txn pr_posting rbind] in H.
      destruct (fold_postings (val_posting v) t s (t_postings t)) as [[s1 ps1]| |] eqn:E1; cbn [rbind fst snd] in H; try discriminate.
      destruct (fold_txns (valuate_proc v) s1 ts) as [[s2 ts2]| |] eqn:E2; cbn [rbind fst snd] in H; try discriminate.
      injection H as <- <-. unfold MarkToMarket.txns_postings in *. cbn [map concat t_postings] in *.
      apply Forall_app in Hok. destruct Hok as [H1 H2].
      destruct (fold_postings_from _ _ _ _ _ _ E1 H1 Hs) as [A1 A2].
      destruct (IH _ _ _ E2 H2 A1) as [B1 B2]. split; [exact B1|apply Forall_app; split; assumption].
  Qed.

  Lemma adjustments_from v date prev cur pos ts :
    val_adjustments v date prev cur pos = ROk ts -> pos_from pos ->
    Forall acc_from (MarkToMarket.txns_postings ts).
  Proof.
    intros H He. pose proof (val_adjustments_only_AL _ _ _ _ _ _ H) as F. clear H.
    induction F as [|t ts (k & a & c & q & gain & Hin & _ & _ & _ & Hps) _ IH]; [constructor|].
    unfold MarkToMarket.txns_postings in *. cbn [map concat]. apply Forall_app. split; [|exact IH].
    rewrite Hps. pose proof (He _ Hin) as HS. cbn [fst snd] in HS.
    unfold pair_build. destruct (is_neg dec_nil || is_zero dec_nil && is_neg gain); cbv beta iota zeta;
      (constructor; [|constructor; [|constructor]]); unfold acc_from; cbn [p_acc]; first [left; exact HS|right; reflexivity].
  Qed.

  Lemma val_days_from v : forall ds s s' ds',
    process_days (valuate_proc v) s ds = ROk (s', ds') -> Forall acc_from (vposts ds) -> pos_from (v_qty s) ->
    Forall acc_from (vposts ds').
  Proof.
    induction ds as [|d r IH]; intros s s' ds' H Hin Hs; cbn [process_days] in H.
    - injection H as _ <-. constructor.
    - destruct (process_day (valuate_proc v) s d) as [[s1 d1]| |] eqn:E1; cbn [rbind fst snd] in H; try discriminate.
      destruct (process_days (valuate_proc v) s1 r) as [[s2 r2]| |] eqn:E2; cbn [rbind fst snd] in H; try discriminate.
      injection H as _ <-.
      unfold MarkToMarketSpec.days_postings in Hin. cbn [map concat] in Hin. apply Forall_app in Hin. destruct Hin as [Hd Hr].
      destruct (valuate_day_inv _ _ _ _ _ E1) as (ts & sx & txns' & Eadj & Efold & -> & Etx & _).
      assert (Hall : Forall acc_from (MarkToMarket.txns_postings (d_txns d ++ ts))).
      { unfold MarkToMarket.txns_postings. rewrite map_app, concat_app. apply Forall_app. split; [exact Hd|].
        exact (adjustments_from _ _ _ _ _ _ Eadj Hs). }
      destruct (fold_txns_from _ _ _ _ _ Efold Hall Hs) as [A1 A2].
      unfold MarkToMarketSpec.days_postings in *. cbn [map concat]. apply Forall_app. split.
      + unfold MarkToMarketSpec.day_postings. rewrite Etx. exact A2.
      + apply (IH _ _ _ E2 Hr). cbn [v_qty]. exact A1.
  Qed.
End From.

(* ------------------------------------------------------------ Part B: remap and shorten *)

Lemma in_firstn {A} (x : A) n l : In x (firstn n l) -> In x l.
Proof. intros H. rewrite <- (firstn_skipn n l). apply in_or_app. left. exact H. Qed.
Lemma in_skipn {A} (x : A) n l : In x (skipn n l) -> In x l.
Proof. intros H. rewrite <- (firstn_skipn n l). apply in_or_app. right. exact H. Qed.

Lemma account_ok_cons s tail :
  account_ok (s :: tail) = true <->
  (exists t, parse_atype s = Some t) /\ seg_ok s = true /\
  (forall x, In x tail -> x <> [] /\ seg_ok x = true).
Proof.
  unfold account_ok. cbn [valid_account forallb]. rewrite !andb_true_iff, !forallb_forall. split.
  - intros [[H1 H2] [H3 H4]]. split; [destruct (parse_atype s) as [t|]; [exists t; reflexivity|discriminate]|].
    split; [exact H3|]. intros x Hx. split; [|exact (H4 x Hx)]. specialize (H2 x Hx). destruct x; [discriminate|discriminate].
  - intros [[t Ht] [H3 H4]]. rewrite Ht. split; [split; [reflexivity|]|split; [exact H3|]].
    + intros x Hx. destruct (H4 x Hx) as [Hn _]. destruct x; [contradiction|reflexivity].
    + intros x Hx. exact (proj2 (H4 x Hx)).
Qed.

Lemma swap_type_ok a : account_ok a = true -> account_ok (swap_type a) = true /\ is_AL (swap_type a) = is_AL a.
Proof.
  intros H. destruct a as [|s tail]; [discriminate|]. pose proof H as H0. apply account_ok_cons in H. destruct H as [[t Ht] [H3 H4]].
  unfold swap_type. rewrite Ht.
  destruct t; (split; [first [exact H0|apply account_ok_cons; split; [eexists; reflexivity|split; [reflexivity|exact H4]]]
                      |unfold is_AL, acc_type; rewrite ?Ht; reflexivity]).
Qed.

Lemma remap_ok rs a : account_ok a = true -> account_ok (remap rs a) = true /\ is_AL (remap rs a) = is_AL a.
Proof. intros H. unfold remap. destruct (rxs_match rs (acc_name a)); [apply swap_type_ok; exact H|split; [exact H|reflexivity]]. Qed.

Lemma shorten_ok m a b' : account_ok a = true -> shorten m a = ShAcc b' -> account_ok b' = true /\ is_AL b' = is_AL a.
Proof.
  intros Ha H. unfold shorten in H. destruct m as [|r m]; [injection H as <-; auto|].
  destruct (mapping_level (r :: m) (acc_name a)) as [[level suffix]|]; [|injection H as <-; auto].
  destruct (level =? 0)%Z eqn:E0; [discriminate|].
  destruct (acc_level a <=? suffix)%Z; [injection H as <-; auto|].
  destruct (acc_level a - suffix <? level)%Z eqn:E2; [injection H as <-; auto|].
  destruct ((level <? 0) || (suffix <? 0))%Z eqn:E3; [discriminate|].
  injection H as <-. apply orb_false_iff in E3. destruct E3 as [E3 _].
  destruct (Z.to_nat level) as [|l'] eqn:El; [lia|].
  destruct (Z.to_nat (acc_level a - suffix)) as [|k'] eqn:Ek; [lia|].
  destruct a as [|s tail]; [discriminate|]. cbn [firstn skipn app].
  split; [|reflexivity].
  apply account_ok_cons in Ha. destruct Ha as [Ht [H3 H4]]. apply account_ok_cons. split; [exact Ht|]. split; [exact H3|].
  intros x Hx. apply H4. apply in_app_or in Hx. destruct Hx as [Hx|Hx].
  - apply in_firstn in Hx. apply in_firstn in Hx. exact Hx.
  - apply in_skipn in Hx. exact Hx.
Qed.

(* an account that lands on a valid row b is of b's class *)
Lemma lands_class cfg b a :
  account_ok a = true -> account_ok b = true -> lands_on cfg b a = true -> is_AL a = is_AL b.
Proof.
  intros Ha Hb H. unfold lands_on in H. destruct (remap_ok (bc_remap cfg) a Ha) as [R1 R2].
  destruct (shorten (bc_mapping cfg) (remap (bc_remap cfg) a)) as [b'| |] eqn:E; try discriminate.
  destruct (shorten_ok _ _ _ R1 E) as [S1 S2].
  apply acc_eqb_name in H. apply acc_name_inj in H; [|assumption|assumption]. subst b'. congruence.
Qed.

(* ------------------------------------------------------------ Part C: the cells of a mapped row *)

(* what a dated posting contributes to row b under commodity c *)
Definition mval (cfg : balance_cfg) (b : account) (c : commodity) (dp : Z * posting) : Q :=
  if lands_on cfg b (p_acc (snd dp)) && cfg_where cfg (p_acc (snd dp)) (p_com (snd dp)) && str_eqb (p_com (snd dp)) c
  then dvalue (p_val (snd dp)) else 0.

Lemma q_contrib_mapped cfg part V b c col d p :
  bc_valuation cfg = Some V ->
  q_contrib (balance_query cfg part) b (Some col, Some c) (d, p)
  == if in_col (periods part) col d then mval cfg b c (d, p) else 0.
Proof.
  intros Hv. rewrite q_contrib_ind. unfold q_ind, balance_query. cbn [q_where q_account q_date q_valued].
  rewrite Hv. unfold mval, lands_on, in_col. cbn [snd].
  assert (Hwe : (match bc_accounts cfg with [] => true | rs => rxs_match rs (acc_name (p_acc p)) end
                && match bc_commodities cfg with [] => true | rs => rxs_match rs (p_com p) end)
                = cfg_where cfg (p_acc p) (p_com p)) by reflexivity.
  rewrite Hwe. unfold Date.align. rewrite align_list_column_for.
  destruct (cfg_where cfg (p_acc p) (p_com p)).
  - destruct (shorten (bc_mapping cfg) (remap (bc_remap cfg) (p_acc p))) as [b'| |].
    + destruct (acc_eqb b' b); cbn [andb].
      * destruct (column_for (periods part) d) as [e|]; unfold rkey_eqb; cbn [fst snd oz_eqb ocom_eqb].
        -- destruct (e =? col)%Z, (str_eqb (p_com p) c); cbn [andb]; ring.
        -- cbn [andb]. ring.
      * destruct (column_for (periods part) d) as [e|]; [destruct (e =? col)%Z|]; ring.
    + cbn [andb]. destruct (column_for (periods part) d) as [e|]; [destruct (e =? col)%Z|]; ring.
    + cbn [andb]. destruct (column_for (periods part) d) as [e|]; [destruct (e =? col)%Z|]; ring.
  - rewrite andb_false_r. cbn [andb]. destruct (column_for (periods part) d) as [e|]; [destruct (e =? col)%Z|]; ring.
Qed.

(* the cell of a row b of asset/liability type, whatever --mapping and --remap do: the values
   Valuate posted inside the window on the postings that land on b and pass the filters *)
Theorem mapped_report_cells cfg ds r part V :
  bc_valuation cfg = Some V ->
  balance_report cfg ds = COk (r, part) ->
  exists dl dsP dsV,
    parse_directives ds = MOk dl /\
    new_partition (clip (mkPeriod (bc_from cfg) (bc_to cfg)) (journal_period dl)) (bc_interval cfg) (bc_last cfg) = POk part /\
    valued_run cfg V dl part dsP dsV /\
    (postings_syntactic dl ->
     Forall acc_ok_p (vposts dsV) /\
     Forall (acc_from (fun a => exists d p, In (d, p) (flat_postings dl) /\ p_acc p = a)) (vposts dsV) /\
     forall b c col, account_ok b = true -> is_AL b = true ->
       rcell b (Some col, Some c) r ==
       lsum (fun dp => if in_span (span part) (fst dp) && in_col (periods part) col (fst dp) then mval cfg b c dp else 0) (dposts dsV)).
Proof.
  intros Hv H. unfold balance_report in H. rewrite Hv in H.
  destruct (valid_commodity V); [|discriminate]. cbn [cbind] in H.
  unfold load in H. destruct (parse_directives ds) as [dl| |] eqn:Ep; try discriminate. cbn [cbind of_mresult] in H.
  unfold cfg_partition in H. rewrite builder_period_spec in H.
  destruct (new_partition (clip (mkPeriod (bc_from cfg) (bc_to cfg)) (journal_period dl)) (bc_interval cfg) (bc_last cfg)) as [part0| |] eqn:Epart; try discriminate.
  cbn [cbind] in H. unfold run_stage in H.
  change (b_days (if bc_close cfg then builder_touch (builder_of dl) (start_dates part0) else builder_of dl))
    with (built_days (bc_close cfg) dl part0) in H.
  set (days0 := built_days (bc_close cfg) dl part0) in *.
  destruct (process_days (check_proc_current (bc_lenient cfg)) check_init days0) as [[s1 d1]| |] eqn:E1; try discriminate.
  cbn [cbind of_presult fst snd] in H.
  pose proof (check_current_stage_id _ _ _ _ _ E1) as ->.
  destruct (process_days (compute_prices_proc V) (mkCp [] None) days0) as [[sP dsP]| |] eqn:E2; try discriminate.
  cbn [cbind of_presult fst snd] in H.
  destruct (process_days (valuate_proc V) (mkVal None None []) dsP) as [[sV dsV]| |] eqn:E3; try discriminate.
  cbn [cbind of_presult fst snd] in H.
  destruct (process_days (filter_proc (span part0)) tt dsV) as [[s4 d4]| |] eqn:E4; try discriminate.
  cbn [cbind of_presult fst snd] in H.
  pose proof (filter_stage_spec _ _ _ _ _ E4) as ->.
  change (map (fun d => if period_contains (span part0) (d_date d) then d else set_txns d []) dsV)
    with (map (filt (span part0)) dsV) in H.
  assert (Hfin : exists dsC r6 d6,
            (if bc_close cfg
             then exists s5, process_days (close_proc (start_dates part0)) (mkClose [] []) (map (filt (span part0)) dsV) = ROk (s5, dsC)
             else dsC = map (filt (span part0)) dsV) /\
            process_days (query_proc (balance_query cfg part0) report_insert) new_report dsC = ROk (r6, d6) /\
            r6 = r /\ part0 = part).
  { destruct (bc_close cfg).
    - destruct (process_days (close_proc (start_dates part0)) (mkClose [] []) (map (filt (span part0)) dsV)) as [[s5 d5]| |] eqn:E5; try discriminate.
      cbn [cbind of_presult fst snd] in H.
      destruct (process_days (query_proc (balance_query cfg part0) report_insert) new_report d5) as [[r6 d6]| |] eqn:E6; try discriminate.
      cbn [cbind of_presult fst snd] in H. injection H as <- <-. exists d5, r6, d6. split; [exists s5; reflexivity|]. auto.
    - cbn [cbind] in H.
      destruct (process_days (query_proc (balance_query cfg part0) report_insert) new_report (map (filt (span part0)) dsV)) as [[r6 d6]| |] eqn:E6; try discriminate.
      cbn [cbind of_presult fst snd] in H. injection H as <- <-. exists (map (filt (span part0)) dsV), r6, d6. auto. }
  clear H. destruct Hfin as (dsC & r6 & d6 & Hclose & E6 & -> & ->).
  exists dl, dsP, dsV. split; [reflexivity|]. split; [exact Epart|].
  split; [exists sP, sV; split; assumption|].
  intros Hsyn.
  (* facts about the valued days *)
  pose proof (built_days_in_ok' (bc_close cfg) ds dl part Ep Hsyn) as Hin0. fold days0 in Hin0.
  destruct (cp_days_shape _ _ _ _ _ E2) as (Hdates2 & Hposts2 & Hdated2).
  assert (HinP : Forall posting_in_ok (vposts dsP)).
  { rewrite <- snd_dposts, Hposts2, snd_dposts. exact Hin0. }
  assert (Hgood0 : entries_ok (v_qty val_init)) by (split; [constructor|intros x []]).
  pose proof (val_days_acc_ok V dsP val_init sV dsV HinP Hgood0 E3) as HokV.
  destruct (val_days_dated V dsP _ _ _ E3 (Hdated2 (built_days_dated _ _ _))) as [HdatedV _].
  assert (HokF : posts_ok (dposts (map (filt (span part)) dsV))).
  { intros dp Hdp. apply (acc_ok_posts_ok dsV HokV). eapply filt_in. exact Hdp. }
  split; [exact HokV|]. split.
  { apply (val_days_from _ V dsP val_init sV dsV E3); [|intros x []].
    rewrite <- snd_dposts, Hposts2. rewrite Forall_forall. intros p Hp. apply in_map_iff in Hp.
    destruct Hp as ([d p0] & <- & Hdp). cbn [snd]. left. exists d, p0. split; [|reflexivity].
    eapply Permutation_in; [apply built_days_perm|exact Hdp]. }
  intros b c col Hb HAL.
  destruct (query_days (balance_query cfg part) b (Some col, Some c) _ _ _ _ wf_new_report E6) as (_ & _ & Hcell).
  rewrite Hcell, rcell_new, Qplus_0_l. clear Hcell E6.
  (* the close stage does not touch rows of asset/liability type *)
  assert (Hq0 : forall dp, account_ok (p_acc (snd dp)) = true -> is_AL (p_acc (snd dp)) = false ->
                 q_contrib (balance_query cfg part) b (Some col, Some c) dp == 0).
  { intros [d p] Hp Hn. cbn [snd] in Hp, Hn. rewrite (q_contrib_mapped cfg part V b c col d p Hv).
    unfold mval. cbn [snd]. destruct (lands_on cfg b (p_acc p)) eqn:El.
    - pose proof (lands_class cfg b (p_acc p) Hp Hb El). congruence.
    - cbn [andb]. destruct (in_col (periods part) col d); reflexivity. }
  assert (Hq : q_total (balance_query cfg part) b (Some col, Some c) (dposts dsC)
               == q_total (balance_query cfg part) b (Some col, Some c) (dposts (map (filt (span part)) dsV))).
  { destruct (bc_close cfg).
    - destruct Hclose as (s5 & E5). rewrite !q_total_qsum.
      apply (close_days_AL (start_dates part) _ Hq0 _ (mkClose [] []) _ _ map_ok_nil HokF E5).
    - subst dsC. reflexivity. }
  rewrite Hq, q_total_qsum, (filt_sum _ _ _ HdatedV).
  apply LedgerProofs.qsum_ext. intros [d p] Hdp. cbn [fst].
  destruct (in_span (span part) d); cbn [andb]; [|reflexivity].
  apply (q_contrib_mapped cfg part V b c col d p Hv).
Qed.

(* ------------------------------------------------------------ Part D: cumulated cells = window sum *)

Lemma cum_window_generic (f : Z * posting -> Q) b c part col r (L : list (Z * posting)) P iv n :
  new_partition P iv n = POk part -> (p_start (span part) <= p_end (span part))%Z -> In col (end_dates part) ->
  (forall e, rcell b (Some e, Some c) r
             == lsum (fun dp => if in_span (span part) (fst dp) && in_col (periods part) e (fst dp) then f dp else 0) L) ->
  cum_cell b c part col r == lsum (fun dp => if in_window (p_start (span part)) col (fst dp) then f dp else 0) L.
Proof.
  intros Epart Hspan Hcol Hcells.
  destruct (partition_facts _ _ _ _ Epart) as [_ Htiles]. destruct (Htiles Hspan) as [Ht Hfs].
  pose proof (tiles_ends_sorted _ _ _ Ht) as Hsorted.
  destruct (tiles_end_ge _ _ _ Ht) as [Hends _].
  pose proof (tiles_last_end _ _ _ Ht) as HE.
  unfold cum_cell, end_dates.
  transitivity (lsum (fun e => lsum (fun dp => (if in_span (span part) (fst dp) then f dp else 0)
                                               * (if (e <=? col)%Z && in_col (periods part) e (fst dp) then 1 else 0)) L)
                     (map p_end (periods part))).
  { apply LedgerProofs.qsum_ext. intros e _. destruct (e <=? col)%Z eqn:E.
    - rewrite (Hcells e). apply LedgerProofs.qsum_ext. intros dp _.
      destruct (in_span (span part) (fst dp)), (in_col (periods part) e (fst dp)); cbn [andb]; ring.
    - symmetry. apply LedgerProofs.qsum_zero. intros dp _. cbn [andb]. ring. }
  rewrite qsum_swap. apply LedgerProofs.qsum_ext. intros [d p] _. cbn [fst].
  rewrite qsum_scale.
  unfold in_span, in_window. destruct (p_start (span part) <=? d)%Z eqn:E1; cbn [andb]; [|ring].
  assert (Hcole : (col <= p_end (span part))%Z).
  { rewrite Forall_forall in Hends. apply in_map_iff in Hcol. destruct Hcol as (q & <- & Hq). exact (Hends _ Hq). }
  destruct (d <=? p_end (span part))%Z eqn:E2.
  - rewrite (cum_indicator (periods part) col d (p_end (span part)) Hsorted Hcol Hends HE) by lia.
    destruct (d <=? col)%Z; ring.
  - replace (d <=? col)%Z with false by lia. ring.
Qed.

(* ------------------------------------------------------------ Part E: one account on the directives; the sum *)

Lemma window_journal cfg ds dl part V dsP dsV a c col :
  parse_directives ds = MOk dl -> postings_syntactic dl -> valued_run cfg V dl part dsP dsV ->
  account_ok a = true -> is_AL a = true -> c <> V -> (p_start (span part) - 1 <= col)%Z ->
  Qabs (lsum (fun dp => if in_window (p_start (span part)) col (fst dp) then cval a c dp else 0) (dposts dsV)
        - (mv_cell dl V a c col - mv_cell dl V a c (p_start (span part) - 1)))
    <= inject_Z (cell_steps_tight dl a c (p_start (span part)) col) * (1 # 100000000).
Proof.
  intros Ep Hsyn (sP & sV & EP & EV) Ha HAL Hcv Hle.
  pose proof (window_stage_tight V a c (built_days (bc_close cfg) dl part) (p_start (span part)) col sP dsP sV dsV Ha HAL Hcv
           (built_days_sorted _ _ _) (built_days_dated _ _ _) (built_days_in_ok' _ ds dl part Ep Hsyn) Hle EP EV) as Hw.
  eapply Qle_trans.
  2: { apply Qmult_le_compat_r; [rewrite <- Zle_Qle; exact (day_steps_tight_journal cfg dl part a c col Hle)|discriminate]. }
  eapply Qle_trans; [|exact Hw]. apply Qle_lteq. right. apply Qabs_wd.
  unfold mv_cell. rewrite <- !(qty_on_days_journal (bc_close cfg) dl part).
  rewrite <- !(price_on_days_journal (bc_close cfg) dl part V c _ Hcv). reflexivity.
Qed.

Lemma window_journal_V cfg ds dl part V dsP dsV a col :
  parse_directives ds = MOk dl -> postings_syntactic dl -> valued_run cfg V dl part dsP dsV ->
  (p_start (span part) - 1 <= col)%Z ->
  lsum (fun dp => if in_window (p_start (span part)) col (fst dp) then cval a V dp else 0) (dposts dsV)
  == mv_cell dl V a V col - mv_cell dl V a V (p_start (span part) - 1).
Proof.
  intros Ep Hsyn (sP & sV & EP & EV) Hle.
  rewrite (window_minus _ _ _ _ Hle).
  rewrite !(prefix_V V a _ _ sP dsP sV dsV (built_days_sorted _ _ _) (built_days_dated _ _ _)
              (built_days_in_ok' _ ds dl part Ep Hsyn) EP EV).
  rewrite !qty_on_days_journal. unfold mv_cell, ValuationSpec.price_on. rewrite str_eqb_refl. cbn [price_q].
  assert (E1 : dvalue one == 1) by reflexivity. rewrite E1. ring.
Qed.

(* one account, the commodities of a list *)
Lemma window_journal_row cfg ds dl part V dsP dsV a col :
  parse_directives ds = MOk dl -> postings_syntactic dl -> valued_run cfg V dl part dsP dsV ->
  account_ok a = true -> is_AL a = true -> (p_start (span part) - 1 <= col)%Z ->
  forall coms,
  Qabs (lsum (fun c => lsum (fun dp => if in_window (p_start (span part)) col (fst dp) then cval a c dp else 0) (dposts dsV)) coms
        - (mv_row dl V a col coms - mv_row dl V a (p_start (span part) - 1) coms))
    <= inject_Z (row_steps_tight dl V a (p_start (span part)) col coms) * (1 # 100000000).
Proof.
  intros Ep Hsyn Hrun Ha HAL Hle. unfold mv_row. induction coms as [|c coms IH].
  - apply bound_zero. unfold LedgerProofs.qsum. cbn [fold_right]. ring.
  - cbn [row_steps_tight].
    eapply (bound_add (1 # 100000000)
              (lsum (fun dp => if in_window (p_start (span part)) col (fst dp) then cval a c dp else 0) (dposts dsV)
               - (mv_cell dl V a c col - mv_cell dl V a c (p_start (span part) - 1)))).
    + destruct (str_eqb c V) eqn:Ec.
      * apply str_eqb_eq in Ec. subst c. apply bound_zero.
        rewrite (window_journal_V cfg ds dl part V dsP dsV a col Ep Hsyn Hrun Hle). ring.
      * assert (Hcv : c <> V) by (intros ->; rewrite str_eqb_refl in Ec; discriminate).
        exact (window_journal cfg ds dl part V dsP dsV a c col Ep Hsyn Hrun Ha HAL Hcv Hle).
    + exact IH.
    + unfold LedgerProofs.qsum. cbn [fold_right]. ring.
Qed.

(* -- a posting that lands on b belongs to exactly one of the aggregated accounts -- *)
Lemma sum_pick_in (x : account) (v : Q) : forall l, NoDup l -> (forall y, In y l -> account_ok y = true) -> account_ok x = true ->
  In x l -> lsum (fun y => if acc_eqb x y then v else 0) l == v.
Proof.
  induction l as [|y l IH]; intros Hnd Hok Hx Hin; [destruct Hin|].
  inversion Hnd as [|? ? Hnin Hnd']; subst. unfold LedgerProofs.qsum. cbn [fold_right].
  fold (lsum (fun y0 => if acc_eqb x y0 then v else 0) l).
  destruct Hin as [->|Hin].
  - rewrite acc_eqb_refl. rewrite LedgerProofs.qsum_zero; [ring|].
    intros z Hz. destruct (acc_eqb x z) eqn:E; [|reflexivity]. exfalso.
    apply acc_eqb_name in E. apply acc_name_inj in E; [|exact Hx|apply Hok; right; exact Hz]. subst z. contradiction.
  - rewrite (IH Hnd' (fun z Hz => Hok z (or_intror Hz)) Hx Hin).
    destruct (acc_eqb x y) eqn:E; [|ring]. exfalso.
    apply acc_eqb_name in E. apply acc_name_inj in E; [|exact Hx|apply Hok; left; reflexivity]. subst y. contradiction.
Qed.

Definition in_journal (dl : list directive) (a : account) : Prop := exists d p, In (d, p) (flat_postings dl) /\ p_acc p = a.

Lemma cfg_where_split cfg a c : cfg_where cfg a c = acc_pass cfg a && com_pass cfg c.
Proof. reflexivity. Qed.

Lemma mval_sources cfg dl b c srcs dp :
  account_ok b = true -> is_AL b = true -> row_sources cfg dl b srcs -> com_pass cfg c = true ->
  account_ok (p_acc (snd dp)) = true -> acc_from (in_journal dl) (snd dp) ->
  mval cfg b c dp == lsum (fun a => cval a c dp) srcs.
Proof.
  intros Hb HAL (Hnd & Hsrc & Hcov) Hc Hp Hfrom. destruct dp as [d p]. cbn [snd] in *.
  unfold mval, cval, cellb. cbn [snd]. rewrite cfg_where_split.
  destruct (str_eqb (p_com p) c) eqn:Ec.
  2: { rewrite andb_false_r. symmetry. apply LedgerProofs.qsum_zero. intros a _. rewrite andb_false_r. reflexivity. }
  apply str_eqb_eq in Ec. rewrite Ec, Hc, !andb_true_r.
  rewrite (LedgerProofs.qsum_ext _ (fun a => if acc_eqb (p_acc p) a then dvalue (p_val p) else 0) srcs)
    by (intros a _; rewrite andb_true_r; reflexivity).
  destruct (lands_on cfg b (p_acc p) && acc_pass cfg (p_acc p)) eqn:E.
  - apply andb_true_iff in E. destruct E as [El Ea].
    assert (HALp : is_AL (p_acc p) = true) by (rewrite (lands_class cfg b (p_acc p) Hp Hb El); exact HAL).
    destruct Hfrom as [(d0 & p0 & Hin0 & Eacc)|Hn]; [|congruence].
    assert (Hins : In (p_acc p) srcs) by (rewrite <- Eacc; apply (Hcov d0 p0 Hin0); rewrite Eacc; assumption).
    symmetry. apply sum_pick_in; [exact Hnd|intros y Hy; exact (proj1 (Hsrc y Hy))|exact Hp|exact Hins].
  - symmetry. apply LedgerProofs.qsum_zero. intros a Hin. destruct (acc_eqb (p_acc p) a) eqn:Ee; [|reflexivity]. exfalso.
    destruct (Hsrc a Hin) as (Hoka & Hla & Hpa).
    apply acc_eqb_name in Ee. apply acc_name_inj in Ee; [|assumption|assumption]. subst a.
    rewrite Hla, Hpa in E. discriminate.
Qed.

Lemma sources_AL cfg dl b srcs a :
  account_ok b = true -> is_AL b = true -> row_sources cfg dl b srcs -> In a srcs -> account_ok a = true /\ is_AL a = true.
Proof.
  intros Hb HAL (_ & Hsrc & _) Hin. destruct (Hsrc a Hin) as (Hok & Hl & _). split; [exact Hok|].
  rewrite (lands_class cfg b a Hok Hb Hl). exact HAL.
Qed.

(* THE WINDOW for a row that aggregates accounts (--mapping, --remap): the row is the sum of the
   mark-to-market changes of the accounts that land on it, up to the sum of their step counts *)
Theorem windowed_row_mapped cfg ds r part V :
  bc_valuation cfg = Some V ->
  balance_report cfg ds = COk (r, part) ->
  exists dl,
    parse_directives ds = MOk dl /\
    new_partition (clip (mkPeriod (bc_from cfg) (bc_to cfg)) (journal_period dl)) (bc_interval cfg) (bc_last cfg) = POk part /\
    (postings_syntactic dl ->
     forall b srcs col coms, account_ok b = true -> is_AL b = true -> row_sources cfg dl b srcs ->
       (forall c, In c coms -> com_pass cfg c = true) ->
       (p_start (span part) <= p_end (span part))%Z -> In col (end_dates part) ->
       Qabs (row_value b part col r coms
             - (mv_row_sum dl V srcs col coms - mv_row_sum dl V srcs (p_start (span part) - 1) coms))
         <= inject_Z (steps_sum dl V srcs (p_start (span part)) col coms) * (1 # 100000000)).
Proof.
  intros Hv H. destruct (mapped_report_cells cfg ds r part V Hv H) as (dl & dsP & dsV & Ep & Epart & Hrun & Hcells).
  exists dl. split; [exact Ep|]. split; [exact Epart|].
  intros Hsyn b srcs col coms Hb HAL Hsrcs Hcoms Hspan Hcol.
  destruct (Hcells Hsyn) as (HokV & HfromV & Hcell).
  assert (Hle : (p_start (span part) - 1 <= col)%Z).
  { destruct (partition_facts _ _ _ _ Epart) as [_ Htiles]. destruct (Htiles Hspan) as [Ht Hfs].
    destruct (tiles_facts _ _ _ Ht) as [_ Hb0]. rewrite Forall_forall in Hb0.
    apply in_map_iff in Hcol. destruct Hcol as (q & <- & Hq). specialize (Hb0 _ Hq). lia. }
  set (W := p_start (span part)) in *.
  set (F := fun a c => lsum (fun dp => if in_window W col (fst dp) then cval a c dp else 0) (dposts dsV)).
  (* the row as a double sum over the aggregated accounts *)
  assert (Hrow : row_value b part col r coms == lsum (fun a => lsum (fun c => F a c) coms) srcs).
  { unfold row_value. rewrite qsum_swap. apply LedgerProofs.qsum_ext. intros c Hc.
    rewrite (cum_window_generic (mval cfg b c) b c part col r (dposts dsV) _ _ _ Epart Hspan Hcol (fun e => Hcell b c e Hb HAL)).
    unfold F. rewrite qsum_swap. apply LedgerProofs.qsum_ext. intros dp Hdp. fold W.
    destruct (in_window W col (fst dp)).
    - apply (mval_sources cfg dl b c srcs dp Hb HAL Hsrcs (Hcoms c Hc)).
      + rewrite Forall_forall in HokV. apply HokV. rewrite <- snd_dposts. apply in_map. exact Hdp.
      + rewrite Forall_forall in HfromV. apply HfromV. rewrite <- snd_dposts. apply in_map. exact Hdp.
    - symmetry. apply LedgerProofs.qsum_zero. intros a _. reflexivity. }
  rewrite Hrow. unfold mv_row_sum.
  assert (Hall : forall a, In a srcs -> account_ok a = true /\ is_AL a = true)
    by (intros a Ha; exact (sources_AL cfg dl b srcs a Hb HAL Hsrcs Ha)).
  clear Hrow Hsrcs. induction srcs as [|a srcs IH].
  - apply bound_zero. unfold LedgerProofs.qsum. cbn [fold_right]. ring.
  - cbn [steps_sum]. destruct (Hall a (or_introl eq_refl)) as [Hoka HALa].
    eapply (bound_add (1 # 100000000)
              (lsum (fun c => F a c) coms - (mv_row dl V a col coms - mv_row dl V a (W - 1) coms))).
    + exact (window_journal_row cfg ds dl part V dsP dsV a col Ep Hsyn Hrun Hoka HALa Hle coms).
    + exact (IH (fun a' Ha' => Hall a' (or_intror Ha'))).
    + unfold LedgerProofs.qsum. cbn [fold_right]. ring.
Qed.

(* ------------------------------------------------------------ the executable list of aggregated accounts *)

Lemma dedup_acc_in x : forall l, In x (dedup_acc l) -> In x l.
Proof.
  induction l as [|y l IH]; cbn [dedup_acc]; intros H; [exact H|].
  destruct (existsb (acc_eqb y) l); [right; exact (IH H)|].
  destruct H as [<-|H]; [left; reflexivity|right; exact (IH H)].
Qed.

Lemma dedup_acc_nodup : forall l, NoDup (dedup_acc l).
Proof.
  induction l as [|y l IH]; cbn [dedup_acc]; [constructor|].
  destruct (existsb (acc_eqb y) l) eqn:E; [exact IH|]. constructor; [|exact IH].
  intros Hin. apply dedup_acc_in in Hin.
  assert (Ht : existsb (acc_eqb y) l = true) by (apply existsb_exists; exists y; split; [exact Hin|apply acc_eqb_refl]).
  congruence.
Qed.

Lemma dedup_acc_keeps x : forall l, (forall y, In y l -> account_ok y = true) -> In x l -> In x (dedup_acc l).
Proof.
  induction l as [|y l IH]; intros Hok Hin; [destruct Hin|]. cbn [dedup_acc].
  assert (Hok' : forall z, In z l -> account_ok z = true) by (intros z Hz; apply Hok; right; exact Hz).
  destruct (existsb (acc_eqb y) l) eqn:E.
  - destruct Hin as [->|Hin]; [|exact (IH Hok' Hin)].
    apply existsb_exists in E. destruct E as (z & Hz & Ez).
    apply acc_eqb_name in Ez. apply acc_name_inj in Ez; [|apply Hok; left; reflexivity|apply Hok'; exact Hz].
    subst z. exact (IH Hok' Hz).
  - destruct Hin as [->|Hin]; [left; reflexivity|right; exact (IH Hok' Hin)].
Qed.

Theorem sources_of_spec cfg dl b : postings_syntactic dl -> row_sources cfg dl b (sources_of cfg dl b).
Proof.
  intros Hsyn. unfold sources_of.
  set (L := filter (fun a => lands_on cfg b a && acc_pass cfg a) (map (fun dp : Z * posting => p_acc (snd dp)) (flat_postings dl))).
  assert (HL : forall y, In y L -> account_ok y = true /\ lands_on cfg b y = true /\ acc_pass cfg y = true).
  { intros y Hy. unfold L in Hy. apply filter_In in Hy. destruct Hy as [Hy Hf]. apply andb_true_iff in Hf.
    apply in_map_iff in Hy. destruct Hy as ([d p] & <- & Hdp). split; [exact (Hsyn d p Hdp)|exact Hf]. }
  split; [apply dedup_acc_nodup|]. split.
  - intros a Ha. apply HL. apply dedup_acc_in. exact Ha.
  - intros d p Hdp Hl Hp. apply dedup_acc_keeps; [intros y Hy; exact (proj1 (HL y Hy))|].
    unfold L. apply filter_In. split; [|rewrite Hl, Hp; reflexivity].
    apply in_map_iff. exists (d, p). split; [reflexivity|exact Hdp].
Qed.

(* an account shown as itself is the only one on its row *)
Lemma lands_on_self cfg a : account_ok a = true -> shows_account cfg a -> lands_on cfg a a = true.
Proof.
  intros Ha Hsh. specialize (Hsh a Ha). unfold lands_on.
  destruct (shorten (bc_mapping cfg) (remap (bc_remap cfg) a)) as [b'| |]; [rewrite Hsh|rewrite acc_eqb_refl in Hsh; discriminate..].
  apply acc_eqb_refl.
Qed.

(* ------------------------------------------------------------ example data (Properties/C03.v) *)
(* Assets:B:X buys 1.5 A on 2021-03-01, Assets:B:Y buys 0.3 A on 03-03; prices of A in C as in
   MarkToMarketFinal.exr_journal; the report is valued in C, daily over 03-02 .. 03-04, with --close
   and --mapping 2 (every account is cut to two segments): both accounts are shown on the row
   Assets:B. *)
Open Scope Z_scope.
Definition exm_x : account := [s_Assets; [66]; [88]].
Definition exm_y : account := [s_Assets; [66]; [89]].
Definition exm_b : account := [s_Assets; [66]].
Definition exm_journal : list sdirective :=
  [ SOpen exr_d0 exm_x; SOpen exr_d0 exm_y; SOpen exr_d0 exr_o;
    SPrice exr_d0 exr_c (mkDec 123456789 (-8)) exr_V;
    STxn (mkStxn exr_d0 [] [mkBooking exr_o exm_x (mkDec 15 (-1)) exr_c] None None);
    SPrice (exr_d0 + 1) exr_c (mkDec 200000001 (-8)) exr_V;
    STxn (mkStxn (exr_d0 + 2) [] [mkBooking exr_o exm_y (mkDec 3 (-1)) exr_c] None None);
    SPrice (exr_d0 + 3) exr_c (mkDec 333333333 (-8)) exr_V ].
Definition exm_cfg : balance_cfg :=
  mkBalanceCfg (exr_d0 + 1) (exr_d0 + 3) Daily 0 false true (Some exr_V) true [mkRule 2 0 None] [] [] [] [] true.
