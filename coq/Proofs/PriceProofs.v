(* Proofs for C12: Prices.Insert (latest declaration wins, zero rejected, order independence)
   and the breadth-first Normalize (self, direct, chain, unreachable, totality). *)
From Coq Require Import ZArith List Bool Lia Permutation Sorting.Sorted.
From Knut Require Import Model.Str Model.Dec Model.Price Model.Journal Model.Ledger Model.Pipeline.
From Knut Require Import Spec.PriceSpec Proofs.SMapProofs.
Import ListNotations.
Open Scope bool_scope.
Open Scope Z_scope.

(* ================================================================ decimals used here *)
Lemma multiply_one p : multiply p one = truncate p 8.
Proof.
  unfold multiply, mul, one, of_int. cbn [coef ex].
  rewrite Z.mul_1_r, Z.add_0_r. destruct p; reflexivity.
Qed.

Lemma dec_equal_refl x : dec_equal x x = true.
Proof.
  unfold dec_equal, cmp, rescale_pair. rewrite Z.eqb_refl, Z.compare_refl. reflexivity.
Qed.

Lemma div_nonzero a p : is_zero p = false -> exists x, div a p = DOk x.
Proof.
  unfold is_zero, div, div_round, quo_rem. intros H. rewrite H.
  destruct (ex a - ex p - - division_precision <? 0);
    match goal with |- context [if ?c then _ else _] => destruct c end;
    try match goal with |- context [if ?c then _ else _] => destruct c end; eauto.
Qed.

(* ================================================================ Insert *)
Lemma insert_zero ps c p t : is_zero p = true -> prices_insert ps c p t = InsErrZero.
Proof. unfold prices_insert. intros ->. reflexivity. Qed.

Lemma insert_nonzero ps c p t :
  is_zero p = false ->
  prices_insert ps c p t = InsOk (add_price (add_price ps t c p) c t (recip p)).
Proof.
  unfold prices_insert, recip. intros H. rewrite H.
  destruct (div_nonzero one p H) as [x ->]. reflexivity.
Qed.

Lemma insert_cases ps c p t :
  (is_zero p = true /\ prices_insert ps c p t = InsErrZero) \/
  (is_zero p = false /\ prices_insert ps c p t = InsOk (add_price (add_price ps t c p) c t (recip p))).
Proof.
  destruct (is_zero p) eqn:E; [left | right]; split; auto using insert_zero, insert_nonzero.
Qed.

Lemma insert_never_panics ps c p t : prices_insert ps c p t <> InsPanic.
Proof. destruct (insert_cases ps c p t) as [[_ ->]|[_ ->]]; discriminate. Qed.

Lemma insert_err_iff ps c p t : prices_insert ps c p t = InsErrZero <-> is_zero p = true.
Proof.
  destruct (insert_cases ps c p t) as [[H ->]|[H ->]]; split; auto; try discriminate; congruence.
Qed.

Lemma stored_add_price ps t0 c0 p t c :
  stored (add_price ps t0 c0 p) t c =
  if str_eqb t t0 && str_eqb c c0 then Some p else stored ps t c.
Proof.
  unfold stored, add_price. rewrite sm_get_put.
  destruct (str_eqb t t0) eqn:Et; cbn [andb].
  - apply str_eqb_eq in Et. subst t0. rewrite sm_get_put.
    destruct (str_eqb c c0); [reflexivity|].
    destruct (sm_get ps t); reflexivity.
  - reflexivity.
Qed.

Lemma stored_insert ps c' p t' ps' t c :
  prices_insert ps c' p t' = InsOk ps' ->
  stored ps' t c = match decl_value (c', p, t') c t with Some x => Some x | None => stored ps t c end.
Proof.
  destruct (insert_cases ps c' p t') as [[_ ->]|[_ ->]]; [discriminate|].
  intros H. injection H as <-.
  rewrite !stored_add_price. unfold decl_value.
  rewrite (andb_comm (str_eqb c t')).
  destruct (str_eqb t c' && str_eqb c t'); [reflexivity|].
  rewrite (andb_comm (str_eqb c c')).
  destruct (str_eqb t t' && str_eqb c c'); reflexivity.
Qed.

Lemma build_from_latest h : forall ps ps' c t,
  build_from ps h = Some ps' ->
  stored ps' t c = match latest h c t with Some x => Some x | None => stored ps t c end.
Proof.
  induction h as [|[[c' p] t'] h IH]; intros ps ps' c t H; cbn [build_from latest] in *.
  - injection H as <-. reflexivity.
  - destruct (prices_insert ps c' p t') as [ps1| |] eqn:E; try discriminate.
    rewrite (IH _ _ c t H). destruct (latest h c t); [reflexivity|].
    eapply stored_insert. exact E.
Qed.

Lemma build_latest h ps c t : build h = Some ps -> stored ps t c = latest h c t.
Proof.
  intros H. rewrite (build_from_latest h [] ps c t H).
  destruct (latest h c t); reflexivity.
Qed.

Lemma zero_rejected ps c p t :
  is_zero p = true ->
  prices_insert ps c p t = InsErrZero /\
  (forall s, cp_price_cb s (c, p, t) = RErr k_price_zero c) /\
  (forall h1 h2, build (h1 ++ (c, p, t) :: h2) = None).
Proof.
  intros Hz. split; [apply insert_zero; exact Hz|]. split.
  - intros s. unfold cp_price_cb. rewrite (insert_zero _ _ _ _ Hz). reflexivity.
  - intros h1 h2. unfold build. generalize (@nil (str * smap dec)) as ps0.
    induction h1 as [|[[c1 p1] t1] h1 IH]; intros ps0; cbn [app build_from].
    + rewrite (insert_zero _ _ _ _ Hz). reflexivity.
    + destruct (prices_insert ps0 c1 p1 t1); auto.
Qed.

(* [latest] read explicitly: the last declaration that says something about (c, t) decides *)
Lemma latest_last h1 d h2 c t x :
  decl_value d c t = Some x -> (forall d', In d' h2 -> decl_value d' c t = None) ->
  latest (h1 ++ d :: h2) c t = Some x.
Proof.
  intros Hd Hrest.
  assert (latest h2 c t = None) as H2.
  { induction h2 as [|d' h2 IH]; [reflexivity|]. cbn [latest].
    rewrite IH; [apply Hrest; left; reflexivity | intros d'' H; apply Hrest; right; exact H]. }
  induction h1 as [|d1 h1 IH]; cbn [app latest].
  - rewrite H2. exact Hd.
  - rewrite IH. reflexivity.
Qed.

Lemma build_last_declaration h1 c p t h2 ps :
  build (h1 ++ (c, p, t) :: h2) = Some ps -> c <> t ->
  (forall c' p' t', In (c', p', t') h2 -> ~ (c' = c /\ t' = t) /\ ~ (c' = t /\ t' = c)) ->
  stored ps t c = Some p /\ stored ps c t = Some (recip p).
Proof.
  intros B Hne Hrest.
  assert (forall d', In d' h2 -> decl_value d' c t = None /\ decl_value d' t c = None) as Hn.
  { intros [[c' p'] t'] Hin. destruct (Hrest _ _ _ Hin) as [N1 N2]. unfold decl_value.
    destruct (str_eqb c t') eqn:E1, (str_eqb t c') eqn:E2, (str_eqb c c') eqn:E3, (str_eqb t t') eqn:E4;
      cbn [andb]; auto;
      repeat match goal with H : str_eqb _ _ = true |- _ => apply str_eqb_eq in H end;
      subst; exfalso; auto. }
  rewrite !(build_latest _ _ _ _ B). split.
  - apply latest_last; [|intros d' H; apply (Hn d' H)].
    unfold decl_value. apply str_eqb_neq in Hne. rewrite Hne, !str_eqb_refl. reflexivity.
  - apply latest_last; [|intros d' H; apply (Hn d' H)].
    unfold decl_value. rewrite !str_eqb_refl. reflexivity.
Qed.

Lemma build_from_ok_iff h : forall ps,
  (exists ps', build_from ps h = Some ps') <-> Forall (fun d => is_zero (snd (fst d)) = false) h.
Proof.
  induction h as [|[[c p] t] h IH]; intros ps; cbn [build_from].
  - split; [constructor | eauto].
  - destruct (insert_cases ps c p t) as [[Hz ->]|[Hz ->]].
    + split; [intros [? H]; discriminate|]. intros H. inversion H; subst. cbn in *. congruence.
    + rewrite IH. split; [intros H; constructor; assumption | intros H; inversion H; assumption].
Qed.

(* ---- well-formed price maps: what Insert builds *)
Definition wf_maps (ps : prices) : Prop :=
  sorted ps /\ forall t m, sm_get ps t = Some m -> sorted m /\ m <> [].

Definition symmetric (ps : prices) : Prop :=
  forall t c, stored ps t c <> None -> stored ps c t <> None.

Definition wf_prices (ps : prices) : Prop := wf_maps ps /\ symmetric ps.

Lemma sm_put_nonempty {V} (m : smap V) k v : sm_put m k v <> [].
Proof.
  destruct m as [|[k' v'] m]; cbn [sm_put]; [discriminate|].
  destruct (str_cmp k k'); discriminate.
Qed.

Lemma wf_maps_add_price ps t c p : wf_maps ps -> wf_maps (add_price ps t c p).
Proof.
  intros [Hs Hin]. unfold add_price. split.
  - apply sorted_put. exact Hs.
  - intros t0 m. rewrite sm_get_put. destruct (str_eqb t0 t) eqn:E.
    + intros H. injection H as <-. split; [|apply sm_put_nonempty].
      apply sorted_put. destruct (sm_get ps t) eqn:G; [apply (Hin _ _ G) | constructor].
    + apply Hin.
Qed.

Lemma wf_empty : wf_prices [].
Proof.
  split; [split; [constructor | intros t m H; discriminate]|].
  intros t c H. exfalso. apply H. reflexivity.
Qed.

Lemma wf_insert ps c p t ps' : wf_prices ps -> prices_insert ps c p t = InsOk ps' -> wf_prices ps'.
Proof.
  intros [Hm Hsym] H. split.
  - destruct (insert_cases ps c p t) as [[_ E]|[_ E]]; rewrite E in H; [discriminate|].
    injection H as <-. auto using wf_maps_add_price.
  - intros t0 c0. rewrite (stored_insert _ _ _ _ _ t0 c0 H), (stored_insert _ _ _ _ _ c0 t0 H).
    unfold decl_value.
    destruct (str_eqb c0 t) eqn:E1, (str_eqb t0 c) eqn:E2, (str_eqb c0 c) eqn:E3, (str_eqb t0 t) eqn:E4;
      cbn [andb]; try discriminate; auto.
Qed.

Lemma wf_build_from h : forall ps ps', wf_prices ps -> build_from ps h = Some ps' -> wf_prices ps'.
Proof.
  induction h as [|[[c p] t] h IH]; intros ps ps' Hwf H; cbn [build_from] in H.
  - injection H as <-. exact Hwf.
  - destruct (prices_insert ps c p t) eqn:E; try discriminate.
    eapply IH; [|exact H]. eapply wf_insert; eassumption.
Qed.

Lemma wf_build h ps : build h = Some ps -> wf_prices ps.
Proof. apply wf_build_from. exact wf_empty. Qed.

(* two well-formed maps with the same stored prices are equal *)
Lemma prices_ext ps1 ps2 :
  wf_maps ps1 -> wf_maps ps2 -> (forall t c, stored ps1 t c = stored ps2 t c) -> ps1 = ps2.
Proof.
  intros [S1 I1] [S2 I2] Hext. apply sorted_ext; try assumption.
  intros t. pose proof (Hext t) as Ht. unfold stored in Ht.
  destruct (sm_get ps1 t) as [m1|] eqn:G1, (sm_get ps2 t) as [m2|] eqn:G2.
  - f_equal. apply sorted_ext; [apply (I1 _ _ G1) | apply (I2 _ _ G2) | exact Ht].
  - exfalso. destruct (I1 _ _ G1) as [_ Hne]. destruct m1 as [|[k x] m1]; [congruence|].
    specialize (Ht k). cbn [sm_get] in Ht. rewrite str_eqb_refl in Ht. discriminate.
  - exfalso. destruct (I2 _ _ G2) as [_ Hne]. destruct m2 as [|[k x] m2]; [congruence|].
    specialize (Ht k). cbn [sm_get] in Ht. rewrite str_eqb_refl in Ht. discriminate.
  - reflexivity.
Qed.

Lemma build_order_independent h1 h2 ps1 ps2 :
  build h1 = Some ps1 -> build h2 = Some ps2 ->
  (forall c t, latest h1 c t = latest h2 c t) -> ps1 = ps2.
Proof.
  intros B1 B2 H. apply prices_ext.
  - apply (wf_build _ _ B1).
  - apply (wf_build _ _ B2).
  - intros t c. rewrite (build_latest _ _ _ _ B1), (build_latest _ _ _ _ B2). apply H.
Qed.

(* ================================================================ Normalize (breadth-first) *)
Lemma stored_neighbours ps c n : stored ps c n = sm_get (neighbours ps c) n.
Proof. unfold stored, neighbours. destruct (sm_get ps c); reflexivity. Qed.

Lemma symmetric_neighbour_key ps c n :
  symmetric ps -> In n (keys (neighbours ps c)) -> In n (keys ps).
Proof.
  intros Hsym Hin. apply sm_has_true in Hin. unfold sm_has in Hin.
  rewrite <- stored_neighbours in Hin.
  assert (stored ps c n <> None) as H by (destruct (stored ps c n); [discriminate | discriminate]).
  apply Hsym in H. unfold stored in H.
  destruct (sm_get ps n) eqn:G; [|congruence]. eapply sm_get_in_keys. exact G.
Qed.

(* ---- one expansion step: full description of the new result map *)
Lemma visit_get nb pc : forall res q res' q' k,
  visit_neighbours nb pc res q = (res', q') ->
  sm_get res' k =
  match sm_get res k with
  | Some x => Some x
  | None => match sm_get nb k with Some p => Some (multiply p pc) | None => None end
  end.
Proof.
  induction nb as [|[n p] nb IH]; intros res q res' q' k H; cbn [visit_neighbours] in H.
  - injection H as <- <-. destruct (sm_get res k); reflexivity.
  - unfold sm_has in H. cbn [sm_get]. destruct (sm_get res n) as [y|] eqn:G.
    + rewrite (IH _ _ _ _ k H). destruct (sm_get res k) eqn:Gk; [reflexivity|].
      assert (str_eqb k n = false) as ->; [|reflexivity].
      apply str_eqb_neq. intros ->. congruence.
    + rewrite (IH _ _ _ _ k H). rewrite sm_get_put.
      destruct (str_eqb k n) eqn:E.
      * apply str_eqb_eq in E. subst k. rewrite G. reflexivity.
      * reflexivity.
Qed.

Definition extends (res np : nprices) : Prop :=
  forall k x, sm_get res k = Some x -> sm_get np k = Some x.

Lemma visit_extends nb pc res q res' q' :
  visit_neighbours nb pc res q = (res', q') -> extends res res'.
Proof. intros H k x G. rewrite (visit_get _ _ _ _ _ _ k H), G. reflexivity. Qed.

Lemma extends_has res np k : extends res np -> sm_has res k = true -> sm_has np k = true.
Proof.
  unfold sm_has. intros E H. destruct (sm_get res k) eqn:G; [|discriminate].
  rewrite (E _ _ G). reflexivity.
Qed.

Lemma visit_has nb pc res q res' q' k :
  visit_neighbours nb pc res q = (res', q') ->
  sm_has res' k = sm_has res k || sm_has nb k.
Proof.
  intros H. unfold sm_has. rewrite (visit_get _ _ _ _ _ _ k H).
  destruct (sm_get res k); [reflexivity|]. destruct (sm_get nb k); reflexivity.
Qed.

(* ---- the queue after one expansion step *)
Lemma visit_queue nb pc : forall res q res' q',
  visit_neighbours nb pc res q = (res', q') ->
  incl q q' /\
  (forall k, In k q' -> In k q \/ sm_has res' k = true) /\
  (forall k, sm_has res' k = true -> sm_has res k = true \/ In k q').
Proof.
  induction nb as [|[n p] nb IH]; intros res q res' q' H; cbn [visit_neighbours] in H.
  - injection H as <- <-. repeat split; auto using incl_refl.
  - destruct (sm_has res n) eqn:G.
    + apply IH. exact H.
    + destruct (IH _ _ _ _ H) as (I1 & I2 & I3). repeat split.
      * intros k Hk. apply I1. apply in_or_app. left. exact Hk.
      * intros k Hk. destruct (I2 k Hk) as [Hq|Hr]; [|right; exact Hr].
        apply in_app_or in Hq. destruct Hq as [Hq|[<-|[]]]; [left; exact Hq|].
        right. eapply extends_has; [eapply visit_extends; exact H|].
        rewrite sm_has_put, str_eqb_refl. reflexivity.
      * intros k Hk. destruct (I3 k Hk) as [Hr|Hq]; [|right; exact Hq].
        rewrite sm_has_put in Hr. destruct (str_eqb k n) eqn:E.
        -- apply str_eqb_eq in E. subst k. right. apply I1. apply in_or_app. right. left. reflexivity.
        -- left. exact Hr.
Qed.

(* ---- counting: commodities of ps not yet priced *)
Definition remaining (ps : prices) (res : nprices) : nat :=
  length (filter (fun k => negb (sm_has res k)) (keys ps)).

Lemma filter_length_le {A} (f g : A -> bool) l :
  (forall a, f a = true -> g a = true) -> (length (filter f l) <= length (filter g l))%nat.
Proof.
  intros H. induction l as [|a l IH]; cbn [filter]; [lia|].
  destruct (f a) eqn:F.
  - rewrite (H _ F). cbn [length]. lia.
  - destruct (g a); cbn [length]; lia.
Qed.

Lemma remaining_put ps res n x :
  In n (keys ps) -> sm_has res n = false ->
  (S (remaining ps (sm_put res n x)) <= remaining ps res)%nat.
Proof.
  unfold remaining. intros Hin Hn. induction (keys ps) as [|a l IH]; [destruct Hin|].
  cbn [filter]. rewrite sm_has_put. destruct (str_eqb a n) eqn:E.
  - apply str_eqb_eq in E. subst a. rewrite Hn. cbn [orb negb length].
    apply le_n_S. apply filter_length_le. intros a. rewrite sm_has_put.
    destruct (str_eqb a n); cbn [orb negb]; [discriminate | auto].
  - destruct Hin as [->|Hin]; [rewrite str_eqb_refl in E; discriminate|].
    cbn [orb]. destruct (negb (sm_has res a)); cbn [length]; specialize (IH Hin); lia.
Qed.

Lemma visit_count ps nb pc : forall res q res' q',
  (forall n, In n (keys nb) -> In n (keys ps)) ->
  visit_neighbours nb pc res q = (res', q') ->
  (length q' + remaining ps res' <= length q + remaining ps res)%nat.
Proof.
  induction nb as [|[n p] nb IH]; intros res q res' q' Hk H; cbn [visit_neighbours] in H.
  - injection H as <- <-. lia.
  - assert (forall n0, In n0 (keys nb) -> In n0 (keys ps)) as Hk'.
    { intros n0 Hn0. apply Hk. right. exact Hn0. }
    destruct (sm_has res n) eqn:G.
    + apply IH; assumption.
    + specialize (IH _ _ _ _ Hk' H). rewrite app_length in IH. cbn [length] in IH.
      pose proof (remaining_put ps res n (multiply p pc) (Hk n (or_introl eq_refl)) G). lia.
Qed.

Lemma bfs_nil fuel ps res : bfs fuel ps [] res = Some res.
Proof. destruct fuel; reflexivity. Qed.

Lemma bfs_step f ps c rest res :
  bfs (S f) ps (c :: rest) res =
  let '(res', q') := visit_neighbours (neighbours ps c)
                                      (match sm_get res c with Some p => p | None => one end) res rest in
  bfs f ps q' res'.
Proof. reflexivity. Qed.

(* the fuel suffices: every commodity is enqueued at most once *)
Lemma bfs_total ps : symmetric ps -> forall fuel q res,
  (length q + remaining ps res <= fuel)%nat -> exists np, bfs fuel ps q res = Some np.
Proof.
  intros Hsym. induction fuel as [|f IH]; intros q res Hle.
  - destruct q; [eexists; reflexivity | cbn [length] in Hle; lia].
  - destruct q as [|c rest]; [eexists; reflexivity|].
    rewrite bfs_step.
    destruct (visit_neighbours (neighbours ps c) _ res rest) as [res' q'] eqn:E.
    apply IH. cbn [length] in Hle.
    pose proof (visit_count ps _ _ _ _ _ _ (fun n => symmetric_neighbour_key ps c n Hsym) E). lia.
Qed.

Lemma remaining_le ps res : (remaining ps res <= length ps)%nat.
Proof.
  unfold remaining. rewrite <- (keys_length ps).
  induction (keys ps) as [|a l IH]; cbn [filter length]; [lia|].
  destruct (negb (sm_has res a)); cbn [length]; lia.
Qed.

Lemma normalize_total ps v : symmetric ps -> exists np, normalize ps v = Some np.
Proof.
  intros Hsym. unfold normalize. apply bfs_total; [exact Hsym|].
  pose proof (remaining_le ps [(v, one)]). cbn [length]. lia.
Qed.

(* ---- invariants of the traversal *)
Section Bfs.
  Variable ps : prices.
  Variable v : str.

  (* every priced commodity is the end of a simple path of priced commodities with that value *)
  Definition has_path (res : nprices) (c : str) (x : dec) : Prop :=
    exists path, path_value ps v one path = Some x /\ last path v = c /\
                 NoDup (v :: path) /\ forall n, In n (v :: path) -> sm_has res n = true.

  Definition inv (q : list str) (res : nprices) : Prop :=
    (forall c, In c q -> sm_has res c = true) /\
    (forall c x, sm_get res c = Some x -> has_path res c x) /\
    (forall c, sm_has res c = true -> ~ In c q -> forall n, stored ps c n <> None -> sm_has res n = true).

  Lemma last_cons {A} (l : list A) : forall n d, last (n :: l) d = last l n.
  Proof.
    induction l as [|m l IH]; intros n d; [reflexivity|].
    change (last (n :: m :: l) d) with (last (m :: l) d). rewrite !IH. reflexivity.
  Qed.

  Lemma path_value_app l1 : forall cur acc l2,
    path_value ps cur acc (l1 ++ l2) =
    match path_value ps cur acc l1 with
    | Some a => path_value ps (last l1 cur) a l2
    | None => None
    end.
  Proof.
    induction l1 as [|n l1 IH]; intros cur acc l2; [reflexivity|].
    change ((n :: l1) ++ l2) with (n :: (l1 ++ l2)). cbn [path_value].
    destruct (stored ps cur n); [|reflexivity]. rewrite IH, last_cons. reflexivity.
  Qed.

  Lemma NoDup_snoc {A} (l : list A) k : NoDup l -> ~ In k l -> NoDup (l ++ [k]).
  Proof.
    induction 1 as [|a l Ha Hl IH]; intros Hk; cbn [app].
    - constructor; [intros [] | constructor].
    - constructor.
      + intros H. apply in_app_or in H. destruct H as [H|[H|[]]]; [contradiction|].
        subst. apply Hk. left. reflexivity.
      + apply IH. intros H. apply Hk. right. exact H.
  Qed.

  Lemma inv_step c rest res res' q' :
    inv (c :: rest) res ->
    visit_neighbours (neighbours ps c) (match sm_get res c with Some p => p | None => one end) res rest
    = (res', q') ->
    inv q' res'.
  Proof.
    intros (I0 & I1 & I2) H.
    pose proof (visit_extends _ _ _ _ _ _ H) as Hext.
    destruct (visit_queue _ _ _ _ _ _ H) as (Q1 & Q2 & Q3).
    assert (sm_has res c = true) as Hc by (apply I0; left; reflexivity).
    unfold sm_has in Hc. destruct (sm_get res c) as [pc|] eqn:Gc; [clear Hc | discriminate].
    split; [|split].
    - intros k Hk. destruct (Q2 k Hk) as [Hq|Hr]; [|exact Hr].
      eapply extends_has; [exact Hext|]. apply I0. right. exact Hq.
    - intros k x G. rewrite (visit_get _ _ _ _ _ _ k H) in G.
      destruct (sm_get res k) as [y|] eqn:Gk.
      + injection G as <-. destruct (I1 _ _ Gk) as (path & P1 & P2 & P3 & P4).
        exists path. repeat split; try assumption.
        intros n Hn. eapply extends_has; [exact Hext | auto].
      + destruct (sm_get (neighbours ps c) k) as [p|] eqn:Gn; [|discriminate].
        injection G as <-. destruct (I1 _ _ Gc) as (path & P1 & P2 & P3 & P4).
        exists (path ++ [k]). split; [|split; [|split]].
        * rewrite path_value_app, P1, P2. cbn [path_value].
          rewrite stored_neighbours, Gn. reflexivity.
        * apply last_last.
        * change (v :: path ++ [k]) with ((v :: path) ++ [k]). apply NoDup_snoc; [exact P3|].
          intros Hin. apply P4 in Hin. unfold sm_has in Hin. rewrite Gk in Hin. discriminate.
        * change (v :: path ++ [k]) with ((v :: path) ++ [k]). intros n Hn.
          apply in_app_or in Hn. destruct Hn as [Hn|[<-|[]]].
          -- eapply extends_has; [exact Hext | auto].
          -- rewrite (visit_has _ _ _ _ _ _ k H). unfold sm_has at 2. rewrite Gn. apply orb_true_r.
    - intros c0 Hc0 Hnq n Hn.
      destruct (str_eq_dec c0 c) as [->|Hne].
      + rewrite (visit_has _ _ _ _ _ _ n H). rewrite stored_neighbours in Hn.
        unfold sm_has at 2. destruct (sm_get (neighbours ps c) n); [apply orb_true_r | congruence].
      + destruct (Q3 _ Hc0) as [Hr|Hq]; [|contradiction].
        eapply extends_has; [exact Hext|]. apply (I2 c0 Hr); [|exact Hn].
        intros [E|Hin]; [congruence|]. apply Hnq. apply Q1. exact Hin.
  Qed.

  Lemma bfs_inv : forall fuel q res np,
    bfs fuel ps q res = Some np -> inv q res -> inv [] np /\ extends res np.
  Proof.
    induction fuel as [|f IH]; intros q res np H Hinv.
    - destruct q; [|discriminate]. injection H as <-. split; [exact Hinv | intros k x G; exact G].
    - destruct q as [|c rest].
      + injection H as <-. split; [exact Hinv | intros k x G; exact G].
      + rewrite bfs_step in H.
        destruct (visit_neighbours (neighbours ps c) _ res rest) as [res' q'] eqn:E.
        destruct (IH _ _ _ H (inv_step _ _ _ _ _ Hinv E)) as [Hi He]. split; [exact Hi|].
        intros k x G. apply He. eapply visit_extends; eassumption.
  Qed.

  Lemma inv_init : inv [v] [(v, one)].
  Proof.
    assert (forall k, sm_has [(v, one)] k = str_eqb k v) as Hh.
    { intros k. unfold sm_has. cbn [sm_get]. destruct (str_eqb k v); reflexivity. }
    split; [|split].
    - intros c [<-|[]]. rewrite Hh. apply str_eqb_refl.
    - intros c x G. cbn [sm_get] in G. destruct (str_eqb c v) eqn:E; [|discriminate].
      apply str_eqb_eq in E. subst c. injection G as <-.
      exists []. repeat split; try reflexivity.
      + constructor; [intros [] | constructor].
      + intros n [<-|[]]. rewrite Hh. apply str_eqb_refl.
    - intros c Hc Hn. rewrite Hh in Hc. apply str_eqb_eq in Hc. subst c.
      exfalso. apply Hn. left. reflexivity.
  Qed.

  Lemma normalize_inv np : normalize ps v = Some np -> inv [] np /\ extends [(v, one)] np.
  Proof. intros H. eapply bfs_inv; [exact H | exact inv_init]. Qed.

  Lemma normalize_self np : normalize ps v = Some np -> sm_get np v = Some one.
  Proof.
    intros H. apply (proj2 (normalize_inv np H)). cbn [sm_get]. rewrite str_eqb_refl. reflexivity.
  Qed.

  Lemma normalize_direct np c p :
    normalize ps v = Some np -> c <> v -> stored ps v c = Some p ->
    sm_get np c = Some (truncate p 8).
  Proof.
    unfold normalize. rewrite bfs_step. intros H Hne Hst.
    destruct (visit_neighbours (neighbours ps v) _ [(v, one)] []) as [res' q'] eqn:E.
    assert (inv q' res') as Hinv by (eapply inv_step; [exact inv_init | exact E]).
    destruct (bfs_inv _ _ _ _ H Hinv) as [_ Hext]. apply Hext.
    rewrite (visit_get _ _ _ _ _ _ c E). cbn [sm_get].
    apply str_eqb_neq in Hne. rewrite Hne, str_eqb_refl.
    rewrite <- stored_neighbours, Hst, multiply_one. reflexivity.
  Qed.

  Lemma normalize_chain np c x :
    normalize ps v = Some np -> sm_get np c = Some x ->
    exists path, is_path ps v path c x /\ NoDup (v :: path) /\
                 forall n, In n (v :: path) -> sm_has np n = true.
  Proof.
    intros H G. destruct (normalize_inv np H) as [(_ & I1 & _) _].
    destruct (I1 _ _ G) as (path & P1 & P2 & P3 & P4).
    exists path. repeat split; assumption.
  Qed.

  (* completeness: everything connected to v gets a price *)
  Lemma closed_path np : inv [] np -> forall path cur acc x,
    path_value ps cur acc path = Some x -> sm_has np cur = true -> sm_has np (last path cur) = true.
  Proof.
    intros (_ & _ & I2). induction path as [|n path IH]; intros cur acc x P Hc; [exact Hc|].
    cbn [path_value] in P. destruct (stored ps cur n) as [p|] eqn:S; [|discriminate].
    rewrite last_cons.
    eapply IH; [exact P|]. apply (I2 cur Hc); [intros [] | congruence].
  Qed.

  Lemma normalize_reachable np c :
    normalize ps v = Some np -> connected ps v c -> exists x, sm_get np c = Some x.
  Proof.
    intros H (path & x & P1 & P2). destruct (normalize_inv np H) as [Hinv _].
    pose proof (closed_path np Hinv path v one x P1) as Hc. rewrite P2 in Hc.
    unfold sm_has in Hc. rewrite (normalize_self np H) in Hc. specialize (Hc eq_refl).
    destruct (sm_get np c); [eauto | discriminate].
  Qed.

  Lemma normalize_unreachable np c :
    normalize ps v = Some np -> ~ connected ps v c -> sm_get np c = None.
  Proof.
    intros H Hn. destruct (sm_get np c) as [x|] eqn:G; [|reflexivity].
    exfalso. apply Hn. destruct (normalize_chain np c x H G) as (path & P & _).
    exists path, x. exact P.
  Qed.
End Bfs.

(* ================================================================ the executable statement *)
Lemma mem_true k l : mem k l = true <-> In k l.
Proof.
  unfold mem. rewrite existsb_exists. split.
  - intros (x & Hx & E). apply str_eqb_eq in E. subst. exact Hx.
  - intros H. exists k. split; [exact H | apply str_eqb_refl].
Qed.

Lemma last_in {A} (l : list A) : forall d, In (last l d) (d :: l).
Proof.
  induction l as [|m l IH]; intros d; [left; reflexivity|].
  rewrite last_cons. right. apply IH.
Qed.

Lemma neighbours_sorted ps c : wf_maps ps -> sorted (neighbours ps c).
Proof.
  intros [_ Hin]. unfold neighbours. destruct (sm_get ps c) eqn:G; [apply (Hin _ _ G) | constructor].
Qed.

(* every enumerated value is the value of a path to the target *)
Lemma path_values_sound ps : wf_maps ps -> forall fuel cur acc visited target x,
  In x (path_values fuel ps cur acc visited target) ->
  exists path, path_value ps cur acc path = Some x /\ last path cur = target.
Proof.
  intros Hwf. induction fuel as [|f IH]; intros cur acc visited target x H; cbn [path_values] in H.
  - destruct (str_eqb cur target) eqn:E; [|destruct H].
    apply str_eqb_eq in E. destruct H as [<-|[]]. exists []. split; [reflexivity | exact E].
  - destruct (str_eqb cur target) eqn:E.
    + apply str_eqb_eq in E. destruct H as [<-|[]]. exists []. split; [reflexivity | exact E].
    + apply in_flat_map in H. destruct H as ([n p] & Hnp & Hx). cbn [fst snd] in Hx.
      destruct (mem n visited); [destruct Hx|].
      destruct (IH _ _ _ _ _ Hx) as (path & P1 & P2).
      exists (n :: path). split.
      * cbn [path_value].
        assert (stored ps cur n = Some p) as ->; [|exact P1].
        rewrite stored_neighbours. apply sorted_in_get; [apply neighbours_sorted; exact Hwf | exact Hnp].
      * rewrite last_cons. exact P2.
Qed.

(* the value of every simple path that avoids [visited] and has at most [fuel] edges is enumerated *)
Lemma path_values_complete ps : forall path fuel cur acc visited target x,
  path_value ps cur acc path = Some x -> last path cur = target -> NoDup (cur :: path) ->
  (forall n, In n path -> ~ In n visited) -> (length path <= fuel)%nat ->
  In x (path_values fuel ps cur acc visited target).
Proof.
  induction path as [|n path IH]; intros fuel cur acc visited target x P L ND NV Hlen.
  - cbn [path_value last] in P, L. injection P as <-. subst target.
    destruct fuel; cbn [path_values]; rewrite str_eqb_refl; left; reflexivity.
  - assert (str_eqb cur target = false) as E.
    { assert (In target (n :: path)) as Ht by (rewrite <- L, last_cons; apply last_in).
      apply str_eqb_neq. intros Heq. rewrite Heq in ND.
      apply NoDup_cons_iff in ND. destruct ND as [Hnin _]. contradiction. }
    destruct fuel as [|f]; [cbn [length] in Hlen; lia|].
    cbn [path_values]. rewrite E.
    cbn [path_value] in P. destruct (stored ps cur n) as [p|] eqn:S; [|discriminate].
    apply in_flat_map. exists (n, p). split.
    + rewrite stored_neighbours in S. apply sm_get_in. exact S.
    + cbn [fst snd].
      assert (mem n visited = false) as ->.
      { destruct (mem n visited) eqn:M; [|reflexivity]. apply mem_true in M.
        exfalso. apply (NV n); [left; reflexivity | exact M]. }
      apply NoDup_cons_iff in ND. destruct ND as [Hcur ND'].
      pose proof ND' as ND2. apply NoDup_cons_iff in ND2. destruct ND2 as [Hn ND''].
      apply IH; try assumption.
      * rewrite last_cons in L. exact L.
      * intros m Hm [<-|Hv]; [contradiction|]. apply (NV m); [right; exact Hm | exact Hv].
      * cbn [length] in Hlen. lia.
Qed.

Lemma path_nodes_keys ps : symmetric ps -> forall path cur acc x,
  path_value ps cur acc path = Some x -> incl path (keys ps).
Proof.
  intros Hsym. induction path as [|n path IH]; intros cur acc x P m Hm; [destruct Hm|].
  cbn [path_value] in P. destruct (stored ps cur n) as [p|] eqn:S; [|discriminate].
  destruct Hm as [<-|Hm].
  - apply (symmetric_neighbour_key ps cur n Hsym).
    rewrite stored_neighbours in S. eapply sm_get_in_keys. exact S.
  - eapply IH; eassumption.
Qed.

Lemma simple_path_length ps cur acc path x :
  symmetric ps -> path_value ps cur acc path = Some x -> NoDup path -> (length path <= length ps)%nat.
Proof.
  intros Hsym P ND. rewrite <- (keys_length ps). apply NoDup_incl_length; [exact ND|].
  eapply path_nodes_keys; eassumption.
Qed.

(* what the model returns satisfies the statement the check evaluates on the Go output *)
Lemma normalize_meets_spec ps v np c :
  wf_prices ps -> normalize ps v = Some np -> valid_price_b ps v c (sm_get np c) = true.
Proof.
  intros [Hm Hsym] H. unfold valid_price_b.
  destruct (str_eqb c v) eqn:E.
  - apply str_eqb_eq in E. subst. rewrite (normalize_self _ _ _ H). cbn [opt_dec_equal].
    apply dec_equal_refl.
  - apply str_eqb_neq in E. destruct (stored ps v c) as [p|] eqn:S.
    + rewrite (normalize_direct _ _ _ _ _ H E S). cbn [opt_dec_equal]. apply dec_equal_refl.
    + destruct (sm_get np c) as [x|] eqn:G.
      * destruct (normalize_chain _ _ _ _ _ H G) as (path & [P1 P2] & ND & _).
        apply existsb_exists. exists x. split; [|apply dec_equal_refl].
        inversion ND as [|? ? Hv ND']; subst.
        apply (path_values_complete ps path); try assumption; try reflexivity.
        -- intros n Hn [<-|[]]. contradiction.
        -- eapply simple_path_length; eassumption.
      * destruct (path_values (length ps) ps v one [v] c) as [|y l] eqn:PV; [reflexivity|].
        exfalso.
        assert (In y (path_values (length ps) ps v one [v] c)) as Hy by (rewrite PV; left; reflexivity).
        apply (path_values_sound ps Hm) in Hy. destruct Hy as (path & P1 & P2).
        destruct (normalize_reachable _ _ _ c H) as [x Gx]; [|congruence].
        exists path, y. split; assumption.
Qed.

(* ================================================================ Valuate *)
Lemma valuate_no_price v s t p np :
  v_cur s = Some np -> sm_get np (p_com p) = None -> is_zero (p_qty p) = false -> p_com p <> v ->
  val_posting v s t p = RErr k_no_price (p_com p).
Proof.
  unfold val_posting. intros Hc Hn Hz Hne. rewrite Hz.
  assert (str_eqb v (p_com p) = false) as -> by (apply str_eqb_neq; congruence).
  cbn [v_cur]. rewrite Hc. unfold np_valuate. rewrite Hn. reflexivity.
Qed.

Lemma connected_refl ps v : connected ps v v.
Proof. exists [], one. split; reflexivity. Qed.

Lemma unreachable_errors ps v c np :
  normalize ps v = Some np -> ~ connected ps v c ->
  np_price np c = None /\
  (forall a, np_valuate np c a = None) /\
  (forall s t p, v_cur s = Some np -> p_com p = c -> is_zero (p_qty p) = false ->
                 exists f, pr_posting (valuate_proc v) = Some f /\ f s t p = RErr k_no_price c).
Proof.
  intros H Hn. pose proof (normalize_unreachable _ _ _ _ H Hn) as G.
  split; [exact G|]. split.
  - intros a. unfold np_valuate. rewrite G. reflexivity.
  - intros s t p Hc Hp Hz. exists (val_posting v). split; [reflexivity|].
    subst c. apply valuate_no_price with (np := np); try assumption.
    intros E. apply Hn. rewrite E. apply connected_refl.
Qed.

(* ================================================================ breadth-first = shortest chains *)
Lemma visit_queue_app nb pc : forall res q res' q',
  visit_neighbours nb pc res q = (res', q') ->
  exists new, q' = q ++ new /\
              forall n, In n new -> sm_has res n = false /\ sm_has res' n = true.
Proof.
  induction nb as [|[n p] nb IH]; intros res q res' q' H; cbn [visit_neighbours] in H.
  - injection H as <- <-. exists []. split; [symmetry; apply app_nil_r | intros n []].
  - destruct (sm_has res n) eqn:G.
    + apply IH. exact H.
    + destruct (IH _ _ _ _ H) as (new & -> & Hnew).
      exists (n :: new). split; [rewrite <- app_assoc; reflexivity|].
      intros m [<-|Hm].
      * split; [exact G|]. eapply extends_has; [eapply visit_extends; exact H|].
        rewrite sm_has_put, str_eqb_refl. reflexivity.
      * destruct (Hnew m Hm) as [H1 H2]. split; [|exact H2].
        rewrite sm_has_put in H1. apply orb_false_iff in H1. apply H1.
Qed.

Lemma StronglySorted_all {A} (R : A -> A -> Prop) l :
  (forall a b, In a l -> In b l -> R a b) -> Sorted.StronglySorted R l.
Proof.
  induction l as [|a l IH]; intros H; constructor.
  - apply IH. intros x y Hx Hy. apply H; right; assumption.
  - apply Forall_forall. intros y Hy. apply H; [left; reflexivity | right; exact Hy].
Qed.

Lemma StronglySorted_app {A} (R : A -> A -> Prop) l1 l2 :
  Sorted.StronglySorted R l1 -> Sorted.StronglySorted R l2 ->
  (forall a b, In a l1 -> In b l2 -> R a b) -> Sorted.StronglySorted R (l1 ++ l2).
Proof.
  induction 1 as [|a l1 Hs IH Hall]; intros H2 Hx; cbn [app]; [exact H2|].
  constructor.
  - apply IH; [exact H2|]. intros x y Hx1 Hy. apply Hx; [right; exact Hx1 | exact Hy].
  - apply Forall_forall. intros y Hy. apply in_app_or in Hy. destruct Hy as [Hy|Hy].
    + rewrite Forall_forall in Hall. apply Hall. exact Hy.
    + apply Hx; [left; reflexivity | exact Hy].
Qed.

Lemma StronglySorted_transport {A} (R R' : A -> A -> Prop) l :
  Sorted.StronglySorted R l -> (forall a b, In a l -> In b l -> R a b -> R' a b) ->
  Sorted.StronglySorted R' l.
Proof.
  induction 1 as [|a l Hs IH Hall]; intros H; constructor.
  - apply IH. intros x y Hx Hy. apply H; right; assumption.
  - rewrite Forall_forall in *. intros y Hy. apply H; [left; reflexivity | right; exact Hy | auto].
Qed.

Section BfsLevels.
  Variable ps : prices.
  Variable v : str.

  (* lvl c = number of edges of the path by which c was reached *)
  Definition linv (lvl : str -> nat) (q : list str) (res : nprices) : Prop :=
    (forall c, In c q -> sm_has res c = true) /\
    lvl v = O /\
    (forall c x, sm_get res c = Some x ->
       exists path, path_value ps v one path = Some x /\ last path v = c /\ NoDup (v :: path) /\
                    (forall n, In n (v :: path) -> sm_has res n = true) /\ length path = lvl c) /\
    Sorted.StronglySorted (fun a b => (lvl a <= lvl b)%nat) q /\
    (forall h rest c, q = h :: rest -> sm_has res c = true -> (lvl c <= S (lvl h))%nat) /\
    (forall u, sm_has res u = true -> ~ In u q -> forall n, stored ps u n <> None ->
               sm_has res n = true /\ (lvl n <= S (lvl u))%nat).

  Lemma linv_step lvl c rest res res' q' :
    linv lvl (c :: rest) res ->
    visit_neighbours (neighbours ps c) (match sm_get res c with Some p => p | None => one end) res rest
    = (res', q') ->
    linv (fun k => if sm_has res k then lvl k else S (lvl c)) q' res'.
  Proof.
    intros (I0 & L0 & L1 & L2 & L3 & L4) H.
    pose proof (visit_extends _ _ _ _ _ _ H) as Hext.
    destruct (visit_queue_app _ _ _ _ _ _ H) as (new & -> & Hnew).
    assert (sm_has res c = true) as Hc by (apply I0; left; reflexivity).
    pose proof Hc as Hc'. unfold sm_has in Hc'.
    destruct (sm_get res c) as [pc|] eqn:Gc; [clear Hc' | discriminate].
    set (lvl' := fun k => if sm_has res k then lvl k else S (lvl c)).
    assert (forall k, sm_has res k = true -> lvl' k = lvl k) as Lold.
    { intros k Hk. unfold lvl'. rewrite Hk. reflexivity. }
    assert (forall k, sm_has res k = false -> lvl' k = S (lvl c)) as Lnew.
    { intros k Hk. unfold lvl'. rewrite Hk. reflexivity. }
    assert (forall k, sm_has res' k = true -> (lvl' k <= S (lvl c))%nat) as Lle.
    { intros k _. destruct (sm_has res k) eqn:Hk.
      - rewrite (Lold _ Hk). apply (L3 c rest k eq_refl Hk).
      - rewrite (Lnew _ Hk). apply le_n. }
    assert (forall k, In k rest -> sm_has res k = true) as Hrest.
    { intros k Hk. apply I0. right. exact Hk. }
    inversion L2 as [|? ? L2rest L2all]; subst. rewrite Forall_forall in L2all.
    assert (forall h, In h (rest ++ new) -> (lvl c <= lvl' h)%nat) as Lhead.
    { intros h Hh. apply in_app_or in Hh. destruct Hh as [Hh|Hh].
      - rewrite (Lold _ (Hrest _ Hh)). apply L2all. exact Hh.
      - rewrite (Lnew _ (proj1 (Hnew _ Hh))). apply le_S, le_n. }
    split; [|split; [|split; [|split; [|split]]]].
    - intros k Hk. apply in_app_or in Hk. destruct Hk as [Hk|Hk].
      + eapply extends_has; [exact Hext | auto].
      + apply (Hnew _ Hk).
    - destruct (L1 _ _ Gc) as (path & _ & _ & _ & P4 & _).
      rewrite Lold; [exact L0|]. apply P4. left. reflexivity.
    - intros k x G. rewrite (visit_get _ _ _ _ _ _ k H) in G.
      destruct (sm_get res k) as [y|] eqn:Gk.
      + injection G as <-. destruct (L1 _ _ Gk) as (path & P1 & P2 & P3 & P4 & P5).
        exists path. repeat split; try assumption.
        * intros n Hn. eapply extends_has; [exact Hext | auto].
        * rewrite Lold; [exact P5|]. unfold sm_has. rewrite Gk. reflexivity.
      + destruct (sm_get (neighbours ps c) k) as [p|] eqn:Gn; [|discriminate].
        injection G as <-. destruct (L1 _ _ Gc) as (path & P1 & P2 & P3 & P4 & P5).
        exists (path ++ [k]). split; [|split; [|split; [|split]]].
        * rewrite path_value_app, P1, P2. cbn [path_value].
          rewrite stored_neighbours, Gn. reflexivity.
        * apply last_last.
        * change (v :: path ++ [k]) with ((v :: path) ++ [k]). apply NoDup_snoc; [exact P3|].
          intros Hin. apply P4 in Hin. unfold sm_has in Hin. rewrite Gk in Hin. discriminate.
        * change (v :: path ++ [k]) with ((v :: path) ++ [k]). intros n Hn.
          apply in_app_or in Hn. destruct Hn as [Hn|[<-|[]]].
          -- eapply extends_has; [exact Hext | auto].
          -- rewrite (visit_has _ _ _ _ _ _ k H). unfold sm_has at 2. rewrite Gn. apply orb_true_r.
        * rewrite app_length, P5. cbn [length]. rewrite Lnew; [lia|].
          unfold sm_has. rewrite Gk. reflexivity.
    - apply StronglySorted_app.
      + eapply StronglySorted_transport; [exact L2rest|].
        intros a b Ha Hb Hab. rewrite (Lold _ (Hrest _ Ha)), (Lold _ (Hrest _ Hb)). exact Hab.
      + apply StronglySorted_all. intros a b Ha Hb.
        rewrite (Lnew _ (proj1 (Hnew _ Ha))), (Lnew _ (proj1 (Hnew _ Hb))). apply le_n.
      + intros a b Ha Hb. rewrite (Lold _ (Hrest _ Ha)), (Lnew _ (proj1 (Hnew _ Hb))).
        apply (L3 c rest a eq_refl (Hrest _ Ha)).
    - intros h rest2 k Hq Hk.
      assert (lvl c <= lvl' h)%nat as Hh by (apply Lhead; rewrite Hq; left; reflexivity).
      specialize (Lle k Hk). lia.
    - intros u Hu Hnq n Hn.
      destruct (str_eq_dec u c) as [->|Hne].
      + assert (sm_has res' n = true) as Hn'.
        { rewrite (visit_has _ _ _ _ _ _ n H). rewrite stored_neighbours in Hn.
          unfold sm_has at 2. destruct (sm_get (neighbours ps c) n); [apply orb_true_r | congruence]. }
        split; [exact Hn'|]. rewrite (Lold _ Hc). apply Lle. exact Hn'.
      + destruct (sm_has res u) eqn:Hru.
        * assert (~ In u (c :: rest)) as Hnq'.
          { intros [E|Hin]; [congruence|]. apply Hnq. apply in_or_app. left. exact Hin. }
          destruct (L4 u Hru Hnq' n Hn) as [Hn1 Hn2]. split.
          -- eapply extends_has; [exact Hext | exact Hn1].
          -- rewrite (Lold _ Hn1), (Lold _ Hru). exact Hn2.
        * exfalso. apply Hnq.
          destruct (visit_queue _ _ _ _ _ _ H) as (_ & _ & Q3).
          destruct (Q3 _ Hu) as [Hr|Hq]; [congruence | exact Hq].
  Qed.

  Lemma bfs_linv : forall fuel lvl q res np,
    bfs fuel ps q res = Some np -> linv lvl q res -> exists lvl', linv lvl' [] np.
  Proof.
    induction fuel as [|f IH]; intros lvl q res np H Hinv.
    - destruct q; [|discriminate]. injection H as <-. exists lvl. exact Hinv.
    - destruct q as [|c rest].
      + injection H as <-. exists lvl. exact Hinv.
      + rewrite bfs_step in H.
        destruct (visit_neighbours (neighbours ps c) _ res rest) as [res' q'] eqn:E.
        eapply IH; [exact H|]. eapply linv_step; eassumption.
  Qed.

  Lemma linv_init : linv (fun _ => O) [v] [(v, one)].
  Proof.
    assert (forall k, sm_has [(v, one)] k = str_eqb k v) as Hh.
    { intros k. unfold sm_has. cbn [sm_get]. destruct (str_eqb k v); reflexivity. }
    split; [|split; [|split; [|split; [|split]]]].
    - intros c [<-|[]]. rewrite Hh. apply str_eqb_refl.
    - reflexivity.
    - intros c x G. cbn [sm_get] in G. destruct (str_eqb c v) eqn:E; [|discriminate].
      apply str_eqb_eq in E. subst c. injection G as <-.
      exists []. repeat split; try reflexivity.
      + constructor; [intros [] | constructor].
      + intros n [<-|[]]. rewrite Hh. apply str_eqb_refl.
    - constructor; constructor.
    - intros h rest c _ _. apply le_S, le_n.
    - intros u Hu Hn. rewrite Hh in Hu. apply str_eqb_eq in Hu. subst u.
      exfalso. apply Hn. left. reflexivity.
  Qed.

  Lemma linv_path_level lvl np : linv lvl [] np -> forall path cur acc x,
    path_value ps cur acc path = Some x -> sm_has np cur = true ->
    sm_has np (last path cur) = true /\ (lvl (last path cur) <= lvl cur + length path)%nat.
  Proof.
    intros (_ & _ & _ & _ & _ & L4). induction path as [|n path IH]; intros cur acc x P Hc.
    - cbn [last length]. split; [exact Hc | lia].
    - cbn [path_value] in P. destruct (stored ps cur n) as [p|] eqn:S; [|discriminate].
      rewrite last_cons.
      destruct (L4 cur Hc (fun F => F) n ltac:(congruence)) as [Hn Hl].
      destruct (IH n _ _ P Hn) as [H1 H2]. split; [exact H1|]. cbn [length]. lia.
  Qed.

  (* the chain whose product is the price is a shortest path of stored edges from v *)
  Lemma normalize_shortest np c x :
    normalize ps v = Some np -> sm_get np c = Some x ->
    exists path, is_path ps v path c x /\ NoDup (v :: path) /\
                 forall path' x', is_path ps v path' c x' -> (length path <= length path')%nat.
  Proof.
    intros H G. destruct (bfs_linv _ _ _ _ _ H linv_init) as [lvl Hl].
    pose proof Hl as (_ & L0 & L1 & _).
    destruct (L1 _ _ G) as (path & P1 & P2 & P3 & P4 & P5).
    exists path. split; [split; assumption|]. split; [exact P3|].
    intros path' x' [Q1 Q2].
    assert (sm_has np v = true) as Hv by (apply P4; left; reflexivity).
    destruct (linv_path_level lvl np Hl path' v one x' Q1 Hv) as [_ Hle].
    rewrite Q2, L0 in Hle. lia.
  Qed.
End BfsLevels.

(* ================================================================ the pinned depth-first code *)
Definition sA : str := [65].
Definition sB : str := [66].
Definition sC : str := [67].
Definition sD : str := [68].
Definition sE : str := [69].
Definition sV : str := [86].

(* A is declared directly in V (2) and is also reachable through B (3 * 5 = 15) *)
Definition alt_history : list decl :=
  [(sA, of_int 2, sV); (sB, of_int 3, sV); (sA, of_int 5, sB)].

Definition rev_order (_ : str) (l : list (str * dec)) : list (str * dec) := rev l.
Definition id_order (_ : str) (l : list (str * dec)) : list (str * dec) := l.

Lemma dfs_refuted :
  exists ps v c p order,
    build alt_history = Some ps /\ (forall k l, Permutation (order k l) l) /\
    c <> v /\ stored ps v c = Some p /\
    sm_get (normalize_dfs order ps v) c <> Some (truncate p 8) /\
    sm_get (normalize_dfs order ps v) c <> sm_get (normalize_dfs id_order ps v) c.
Proof.
  destruct (build alt_history) as [ps|] eqn:B; [|vm_compute in B; discriminate].
  exists ps, sV, sA, (of_int 2), rev_order.
  split; [reflexivity|]. split; [intros k l; apply Permutation_sym, Permutation_rev|].
  vm_compute in B. injection B as <-.
  split; [discriminate|]. split; [vm_compute; reflexivity|].
  split; vm_compute; discriminate.
Qed.

(* ================================================================ statements over histories *)
Lemma normalize_total_built h ps v : build h = Some ps -> normalize ps v <> None.
Proof.
  intros B. destruct (normalize_total ps v (proj2 (wf_build h ps B))) as [np E].
  rewrite E. discriminate.
Qed.

Lemma normalize_direct_multiply ps v np c p :
  normalize ps v = Some np -> c <> v -> stored ps v c = Some p ->
  np_price np c = Some (multiply p one) /\ multiply p one = truncate p 8.
Proof.
  intros H Hne S. rewrite multiply_one. split; [|reflexivity].
  exact (normalize_direct ps v np c p H Hne S).
Qed.

Lemma order_independent h1 h2 ps1 ps2 :
  build h1 = Some ps1 -> build h2 = Some ps2 ->
  (forall c t, latest h1 c t = latest h2 c t) ->
  ps1 = ps2 /\ forall v, normalize ps1 v = normalize ps2 v.
Proof.
  intros B1 B2 H.
  assert (ps1 = ps2) as -> by (eapply build_order_independent; eassumption).
  split; reflexivity.
Qed.

Lemma model_meets_spec h ps v np c :
  build h = Some ps -> normalize ps v = Some np -> valid_price_b ps v c (np_price np c) = true.
Proof. intros B. apply normalize_meets_spec. exact (wf_build h ps B). Qed.
