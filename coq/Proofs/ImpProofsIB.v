(* C13, us.interactivebrokers: the statement-level theorem.  Every well-formed record (Spec/ImpSpecIB.v,
   ibs_wf_row) makes ib_line emit exactly the directive of the item the specification assigns to
   it and move the importer state as the specification's context moves; the statement loop
   concatenates. *)
From Coq Require Import ZArith QArith List Bool Lia.
From Knut Require Import Model.Str Model.Dec Model.Date Model.Account Model.Ledger Model.Journal
     Model.Table Model.ImpCommonA Model.ImpCommonB Model.Imp.Interactivebrokers
     Spec.TableSpec Spec.ImpSpecA Spec.ImpSpecB Spec.ImpSpecIB
     Proofs.DecProofs Proofs.DecValue Proofs.DecRoundProofs Proofs.PairProofs Proofs.StrProofs
     Proofs.ImpProofsA Proofs.ImpProofsB.
Import ListNotations.
Open Scope bool_scope.

(* ---------------------------------------------------------------- the words are the code's *)
Ltac ib_words :=
  change ibs_data with s_data in *; change ibs_account_information with s_account_information in *;
  change ibs_base_currency with s_base_currency in *; change ibs_statement with s_statement in *;
  change ibs_period_word with s_period in *; change ibs_trades with s_trades in *; change ibs_order with s_order in *;
  change ibs_forex with s_forex in *; change ibs_stocks with s_stocks in *; change ibs_deposits with s_deposits in *;
  change ibs_total with s_total in *; change ibs_dividends with s_dividends in *; change ibs_interest with s_interest in *;
  change ibs_withholding with s_withholding in *; change ibs_open_positions with s_open_positions in *;
  change ibs_summary with s_summary in *; change ibs_forex_balances with s_forex_balances in *.

(* evaluates the comparisons of the constant section name sec with the section constants *)
Ltac ev_secs sec :=
  repeat match goal with
  | |- context [str_eqb sec ?b] => let v := eval vm_compute in (str_eqb sec b) in change (str_eqb sec b) with v
  | H : context [str_eqb sec ?b] |- _ => let v := eval vm_compute in (str_eqb sec b) in change (str_eqb sec b) with v in H
  end.

(* one more field: H says the record is longer *)
Ltac more H tl s := destruct tl as [|s tl]; [cbn [length Nat.leb] in H; discriminate H|].

Lemma andb9 a b c d e f g h i : a && b && c && d && e && f && g && h && i = true ->
  a = true /\ b = true /\ c = true /\ d = true /\ e = true /\ f = true /\ g = true /\ h = true /\ i = true.
Proof. destruct a, b, c, d, e, f, g, h, i; cbn; intuition congruence. Qed.
Lemma andb8 a b c d e f g h : a && b && c && d && e && f && g && h = true ->
  a = true /\ b = true /\ c = true /\ d = true /\ e = true /\ f = true /\ g = true /\ h = true.
Proof. destruct a, b, c, d, e, f, g, h; cbn; intuition congruence. Qed.

(* ---------------------------------------------------------------- strings.Split / SplitN as the spec reads them *)
Lemma cut_sep_cons sep c t :
  cut_sep sep (c :: t) =
  if is_prefix sep (c :: t) then Some ([], skipn (length sep) (c :: t))
  else match cut_sep sep t with Some (a, b) => Some (c :: a, b) | None => None end.
Proof. reflexivity. Qed.

Lemma cut_dash_spec s : cut_sep s_dash s = ibs_cut_dash s.
Proof.
  induction s as [|c t IH]; [reflexivity|].
  rewrite cut_sep_cons, IH. clear IH. destruct t as [|c2 [|c3 rest]].
  - unfold s_dash. cbn [is_prefix]. rewrite andb_false_r. reflexivity.
  - unfold s_dash. cbn [is_prefix]. rewrite !andb_false_r. reflexivity.
  - change (ibs_cut_dash (c :: c2 :: c3 :: rest)) with
      (if (c =? 32)%Z && (c2 =? 45)%Z && (c3 =? 32)%Z then Some ([], rest)
       else match ibs_cut_dash (c2 :: c3 :: rest) with Some (a, b) => Some (c :: a, b) | None => None end).
    unfold s_dash. cbn [is_prefix length skipn]. rewrite andb_true_r.
    rewrite (Z.eqb_sym 32 c), (Z.eqb_sym 45 c2), (Z.eqb_sym 32 c3), andb_assoc. reflexivity.
Qed.

Lemma before_dot_spec s :
  match cut_sep [46%Z] s with Some (a, _) => a | None => s end = ibs_before_dot s.
Proof.
  unfold ibs_before_dot. induction s as [|c t IH]; [reflexivity|].
  rewrite cut_sep_cons. cbn [is_prefix span]. rewrite andb_true_r, (Z.eqb_sym 46 c).
  destruct (c =? 46)%Z; cbn [negb]; [reflexivity|].
  destruct (span (fun c0 : Z => negb (c0 =? 46)%Z) t) as [a' b'] eqn:Es. cbn [fst] in *.
  destruct (cut_sep [46%Z] t) as [[a b]|]; rewrite IH; reflexivity.
Qed.

(* ---------------------------------------------------------------- rounding *)
Open Scope Z_scope.

(* an amount with at most two decimals is read exactly *)
Lemma round2_exact d : -2 <= ex d -> (dvalue (round d 2) == dvalue d)%Q.
Proof.
  intros H. pose proof (round_spec d 2) as [He [Hb _]]. cbv zeta in Hb.
  rewrite Z.min_r in Hb by lia. change (- (2) - - (2)) with 0 in Hb. change (10 ^ 0) with 1 in Hb.
  assert (Hc : coef (round d 2) = scale_to d (-2)).
  { unfold coef_at in Hb. unfold scale_to, pow10. change (- (2)) with (-2) in *.
    set (P := coef d * 10 ^ (ex d - -2)) in *. lia. }
  rewrite <- (scale_to_value d (-2)) by lia. unfold dvalue at 1. rewrite He, Hc. reflexivity.
Qed.

Lemma ibs_num2_exact s d : ibs_num s = Some d -> -2 <= ex d ->
  exists q, ibs_num2 s = Some q /\ (dvalue q == dvalue d)%Q.
Proof.
  intros Hs He. unfold ibs_num2. rewrite Hs. eexists. split; [reflexivity|]. apply round2_exact. exact He.
Qed.

(* in general: to the nearest multiple of 0.01, ties away from zero *)
Lemma ibs_num2_rounds s q : ibs_num2 s = Some q -> exists d, ibs_num s = Some d /\ is_round_haz d 2 q.
Proof.
  unfold ibs_num2. destruct (ibs_num s) as [d|]; [|discriminate]. intros H. injection H as <-.
  exists d. split; [reflexivity|]. apply round_spec.
Qed.
Close Scope Z_scope.

(* ---------------------------------------------------------------- one record *)
Section IBStatement.
  Variables acct dividend interest tax fee trading : account.

  (* the importer state that corresponds to a context of the specification *)
  Definition st_of (ctx : ibs_ctx) : ib_state := mkIb (ibc_base ctx) (opt_or (ibc_end ctx) ibs_zero_day).
  (* the directive of an item *)
  Definition item_dir (i : ibs_item) : directive :=
    match i with IbTxn e => DTxn (tentry_txn e) | IbBal b => assertion_of acct b end.
  Definition line_ok (ctx : ibs_ctx) (r : list str) : Prop :=
    ib_line acct dividend interest tax fee trading (st_of ctx) r =
    MOk (st_of (ibs_next ctx r), map item_dir (ibs_row acct dividend interest tax fee trading ctx r)).

  (* the common start: the record has a second field; all definitions unfolded *)
  Ltac start sec Hwf Hlen Hk tl s1 :=
    intros Hwf; unfold line_ok, ibs_wf_row in *; apply andb_prop in Hwf; destruct Hwf as [Hlen Hk];
    destruct tl as [|s1 tl]; [vm_compute in Hlen; discriminate Hlen|];
    unfold ibs_next, ibs_row, ibs_min_fields, ibs_kind, ib_line, field in *; ib_words; cbn [nth] in *;
    ev_secs sec; cbn [orb andb negb] in *; cbn [conds fld nth_error]; unfold eqs;
    (destruct (str_eqb s1 s_data) eqn:Ed; cbn [negb] in *; [|reflexivity]).

  Lemma line_account_information ctx tl :
    ibs_wf_row ctx (s_account_information :: tl) = true -> line_ok ctx (s_account_information :: tl).
  Proof.
    start s_account_information Hwf Hlen Hk tl s1.
    more Hlen tl s2. cbn [nth] in *.
    destruct (str_eqb s2 s_base_currency) eqn:Eb; cbn [mbind]; [|reflexivity].
    apply andb_prop in Hk. destruct Hk as [Hl Hc]. more Hl tl s3. cbn [nth] in *.
    unfold fld_p, fld. cbn [nth_error]. unfold ib_com. rewrite Hc. reflexivity.
  Qed.

  Lemma line_statement ctx tl :
    ibs_wf_row ctx (s_statement :: tl) = true -> line_ok ctx (s_statement :: tl).
  Proof.
    start s_statement Hwf Hlen Hk tl s1.
    more Hlen tl s2. cbn [nth] in *.
    destruct (str_eqb s2 s_period) eqn:Eb; cbn [mbind]; [|reflexivity].
    apply andb_prop in Hk. destruct Hk as [Hl Hp]. more Hl tl s3. cbn [nth] in *.
    unfold fld_p, fld. cbn [nth_error]. rewrite cut_dash_spec.
    unfold ibs_period in *. destruct (ibs_cut_dash s3) as [[a b]|]; [|discriminate Hp].
    rewrite cut_dash_spec.
    destruct (parse_month_d_y a) as [f|]; [|discriminate Hp].
    destruct (parse_month_d_y match ibs_cut_dash b with Some (x, _) => x | None => b end) as [t|]; [|discriminate Hp].
    reflexivity.
  Qed.

  (* the date of a trade: the first ten bytes of the date/time field *)
  Lemma stamp_ok s : ibs_stamp_ok s = true -> ib_date10 s = MOk (ibs_stamp_day s).
  Proof.
    unfold ibs_stamp_ok, ib_date10, prefix10, ibs_stamp_day, ib_date. intros H. apply andb_prop in H. destruct H as [Hl Hd].
    rewrite Hl. apply is_some_inv in Hd. destruct Hd as [d Hd]. rewrite Hd. reflexivity.
  Qed.

  Lemma line_trades ctx tl : ibs_wf_row ctx (s_trades :: tl) = true -> line_ok ctx (s_trades :: tl).
  Proof.
    start s_trades Hwf Hlen Hk tl s1.
    more Hlen tl s2. more Hlen tl s3. cbn [nth] in *.
    destruct (str_eqb s2 s_order) eqn:Eo; cbn [mbind]; [|reflexivity].
    destruct (str_eqb s3 s_forex) eqn:Ef; cbn [mbind].
    - (* a currency trade *)
      apply andb9 in Hk. destruct Hk as (Hl & Hb & Hc & Hs & Hd & Hq & Hp & Hpr & Hfe).
      more Hl tl s4. more Hl tl s5. more Hl tl s6. more Hl tl s7. more Hl tl s8. more Hl tl s9. more Hl tl s10. more Hl tl s11.
      unfold ibs_forex_trade, field. cbn [nth] in *. cbn [st_of ib_base].
      destruct (ibc_base ctx) as [base|]; [|discriminate Hb]. cbn [opt_or].
      unfold fld_p, fld. cbn [nth_error]. unfold ib_com. rewrite Hc. cbn [mbind].
      rewrite before_dot_spec, Hs. cbn [mbind]. rewrite (stamp_ok s6 Hd). cbn [mbind].
      apply is_some_inv in Hq. destruct Hq as [q Hq]. apply is_some_inv in Hp. destruct Hp as [p Hp].
      apply is_some_inv in Hpr. destruct Hpr as [pr Hpr]. apply is_some_inv in Hfe. destruct Hfe as [fe Hfe].
      change (ib_rounded s7) with (ibs_num2 s7). change (ib_decimal s8) with (ibs_num s8).
      change (ib_rounded s10) with (ibs_num2 s10). change (ib_rounded s11) with (ibs_num2 s11).
      unfold ibs_q2, ibs_q. rewrite Hq, Hp, Hpr, Hfe. cbn [ib_dec mbind dec_or0]. reflexivity.
    - destruct (str_eqb s3 s_stocks) eqn:Es; cbn [mbind]; [|reflexivity].
      (* a security trade *)
      apply andb8 in Hk. destruct Hk as (Hl & Hc & Hs & Hd & Hq & Hp & Hpr & Hfe).
      more Hl tl s4. more Hl tl s5. more Hl tl s6. more Hl tl s7. more Hl tl s8. more Hl tl s9. more Hl tl s10. more Hl tl s11.
      unfold ibs_stock_trade, field. cbn [nth] in *.
      unfold fld_p, fld. cbn [nth_error]. unfold ib_com. rewrite Hc. cbn [mbind]. rewrite Hs. cbn [mbind].
      rewrite (stamp_ok s6 Hd). cbn [mbind].
      apply is_some_inv in Hq. destruct Hq as [q Hq]. apply is_some_inv in Hp. destruct Hp as [p Hp].
      apply is_some_inv in Hpr. destruct Hpr as [pr Hpr]. apply is_some_inv in Hfe. destruct Hfe as [fe Hfe].
      change (ib_rounded s7) with (ibs_num2 s7). change (ib_decimal s8) with (ibs_num s8).
      change (ib_rounded s10) with (ibs_num2 s10).
      unfold ibs_q2, ibs_q, ibs_exact. rewrite Hq, Hp, Hpr, Hfe. cbn [ib_dec mbind dec_or0]. reflexivity.
  Qed.

  Lemma line_deposits ctx tl : ibs_wf_row ctx (s_deposits :: tl) = true -> line_ok ctx (s_deposits :: tl).
  Proof.
    start s_deposits Hwf Hlen Hk tl s1.
    more Hlen tl s2. more Hlen tl s3. cbn [nth] in *.
    destruct (str_eqb s2 s_total) eqn:Et; cbn [negb orb] in *; [reflexivity|].
    destruct (is_empty s3) eqn:Ee; cbn [negb orb mbind] in *; [reflexivity|].
    apply andb4 in Hk. destruct Hk as (Hl & Hc & Hd & Hq).
    more Hl tl s4. more Hl tl s5. unfold ibs_deposit, field. cbn [nth] in *.
    apply is_some_inv in Hd. destruct Hd as [d Hd]. apply is_some_inv in Hq. destruct Hq as [q Hq].
    unfold fld_p, fld. cbn [nth_error]. unfold ib_com. rewrite Hc. cbn [mbind]. unfold ib_date. rewrite Hd. cbn [mbind].
    change (ib_rounded s5) with (ibs_num2 s5).
    unfold ibs_q2, ibs_day. rewrite Hd, Hq. cbn [date_or0 dec_or0 ib_dec mbind]. reflexivity.
  Qed.

  (* exactly six fields *)
  Ltac six El tl s3 s4 s5 :=
    unfold len_is in El; cbn [length Nat.eqb] in El;
    destruct tl as [|s3 tl]; [discriminate El|]; destruct tl as [|s4 tl]; [discriminate El|];
    destruct tl as [|s5 tl]; [discriminate El|]; destruct tl; [|discriminate El].

  Lemma line_dividends ctx tl : ibs_wf_row ctx (s_dividends :: tl) = true -> line_ok ctx (s_dividends :: tl).
  Proof.
    start s_dividends Hwf Hlen Hk tl s1.
    more Hlen tl s2. cbn [nth] in *.
    destruct (is_prefix s_total s2) eqn:Et; cbn [negb orb andb mbind] in *; [reflexivity|].
    destruct (len_is (s_dividends :: s1 :: s2 :: tl) 6) eqn:El; cbn [negb] in *; [|reflexivity].
    six El tl s3 s4 s5. unfold ibs_income, field. cbn [nth] in *.
    apply andb4 in Hk. destruct Hk as (Hc & Hd & Hq & Hs).
    apply is_some_inv in Hd. destruct Hd as [d Hd]. apply is_some_inv in Hq. destruct Hq as [q Hq].
    unfold fld_p, fld. cbn [nth_error]. unfold ib_com. rewrite Hc. cbn [mbind]. unfold ib_date. rewrite Hd. cbn [mbind].
    change (ib_decimal s5) with (ibs_num s5). unfold ibs_q, ibs_day. rewrite Hd, Hq. cbn [date_or0 dec_or0 ib_dec mbind].
    unfold ib_symbol. fold (ibs_security s4). destruct (ibs_security s4) eqn:E; [discriminate Hs|]. reflexivity.
  Qed.

  Lemma line_interest ctx tl : ibs_wf_row ctx (s_interest :: tl) = true -> line_ok ctx (s_interest :: tl).
  Proof.
    start s_interest Hwf Hlen Hk tl s1.
    more Hlen tl s2. cbn [nth] in *.
    destruct (is_prefix s_total s2) eqn:Et; cbn [negb orb andb mbind] in *; [reflexivity|].
    destruct (len_is (s_interest :: s1 :: s2 :: tl) 6) eqn:El; cbn [negb] in *; [|reflexivity].
    six El tl s3 s4 s5. unfold ibs_income, field. cbn [nth] in *.
    apply andb3 in Hk. destruct Hk as (Hc & Hd & Hq).
    apply is_some_inv in Hd. destruct Hd as [d Hd]. apply is_some_inv in Hq. destruct Hq as [q Hq].
    unfold fld_p, fld. cbn [nth_error]. unfold ib_com. rewrite Hc. cbn [mbind]. unfold ib_date. rewrite Hd. cbn [mbind].
    change (ib_decimal s5) with (ibs_num s5). unfold ibs_q, ibs_day. rewrite Hd, Hq. cbn [date_or0 dec_or0 ib_dec mbind].
    reflexivity.
  Qed.

  Lemma line_withholding ctx tl : ibs_wf_row ctx (s_withholding :: tl) = true -> line_ok ctx (s_withholding :: tl).
  Proof.
    start s_withholding Hwf Hlen Hk tl s1.
    more Hlen tl s2. cbn [nth] in *.
    destruct (is_prefix s_total s2) eqn:Et; cbn [negb orb andb mbind] in *; [reflexivity|].
    apply andb5 in Hk. destruct Hk as (Hl & Hc & Hd & Hq & Hs).
    more Hl tl s3. more Hl tl s4. more Hl tl s5. unfold ibs_income, field. cbn [nth] in *.
    apply is_some_inv in Hd. destruct Hd as [d Hd]. apply is_some_inv in Hq. destruct Hq as [q Hq].
    unfold fld_p, fld. cbn [nth_error]. unfold ib_com. rewrite Hc. cbn [mbind]. unfold ib_date. rewrite Hd. cbn [mbind].
    change (ib_decimal s5) with (ibs_num s5). unfold ibs_q, ibs_day. rewrite Hd, Hq. cbn [date_or0 dec_or0 ib_dec mbind].
    unfold ib_symbol. fold (ibs_security s4). destruct (ibs_security s4) eqn:E; [discriminate Hs|]. reflexivity.
  Qed.

  (* the end of the period is known *)
  Lemma end_known ctx : ibs_end_ok ctx = true ->
    exists t, ibc_end ctx = Some t /\ (ib_date_to (st_of ctx) =? of_civil 1 1 1)%Z = false /\ ib_date_to (st_of ctx) = t.
  Proof.
    unfold ibs_end_ok, st_of. destruct (ibc_end ctx) as [t|]; [|discriminate]. intros H. apply negb_true_iff in H.
    exists t. repeat split. exact H.
  Qed.

  Lemma line_open_positions ctx tl :
    ibs_wf_row ctx (s_open_positions :: tl) = true -> line_ok ctx (s_open_positions :: tl).
  Proof.
    start s_open_positions Hwf Hlen Hk tl s1.
    more Hlen tl s2. cbn [nth] in *.
    destruct (str_eqb s2 s_summary) eqn:Eb; cbn [mbind]; [|reflexivity].
    apply andb4 in Hk. destruct Hk as (Hl & He & Hc & Hq).
    more Hl tl s3. more Hl tl s4. more Hl tl s5. more Hl tl s6. cbn [nth] in *.
    destruct (end_known ctx He) as (t & Ht & Hz & Hdt). rewrite Hz, Hdt, Ht. cbn [opt_or].
    apply is_some_inv in Hq. destruct Hq as [q Hq].
    unfold fld_p, fld. cbn [nth_error]. unfold ib_com. rewrite Hc. cbn [mbind].
    unfold ibs_exact. rewrite Hq. reflexivity.
  Qed.

  Lemma line_forex_balances ctx tl :
    ibs_wf_row ctx (s_forex_balances :: tl) = true -> line_ok ctx (s_forex_balances :: tl).
  Proof.
    start s_forex_balances Hwf Hlen Hk tl s1.
    more Hlen tl s2. cbn [nth] in *.
    destruct (str_eqb s2 s_forex) eqn:Eb; cbn [mbind]; [|reflexivity].
    apply andb4 in Hk. destruct Hk as (Hl & He & Hc & Hq).
    more Hl tl s3. more Hl tl s4. more Hl tl s5. cbn [nth] in *.
    destruct (end_known ctx He) as (t & Ht & Hz & Hdt). rewrite Hz, Hdt, Ht. cbn [opt_or].
    apply is_some_inv in Hq. destruct Hq as [q Hq].
    unfold fld_p, fld. cbn [nth_error]. unfold ib_com. rewrite Hc. cbn [mbind].
    change (ib_rounded s5) with (ibs_num2 s5). unfold ibs_q2. rewrite Hq. reflexivity.
  Qed.

  (* a record of no section the importer reads *)
  Lemma line_other ctx s0 tl :
    str_eqb s0 s_account_information = false -> str_eqb s0 s_statement = false -> str_eqb s0 s_trades = false ->
    str_eqb s0 s_deposits = false -> str_eqb s0 s_dividends = false -> str_eqb s0 s_interest = false ->
    str_eqb s0 s_withholding = false -> str_eqb s0 s_open_positions = false -> str_eqb s0 s_forex_balances = false ->
    line_ok ctx (s0 :: tl).
  Proof.
    intros E1 E2 E3 E4 E5 E6 E7 E8 E9.
    unfold line_ok, ibs_next, ibs_row, ibs_kind, ib_line, field. ib_words. cbn [nth].
    rewrite E1, E2, E3, E4, E5, E6, E7, E8, E9. destruct (negb (str_eqb (nth 0 tl []) s_data)); reflexivity.
  Qed.

  Lemma ib_line_spec ctx r : ibs_wf_row ctx r = true -> line_ok ctx r.
  Proof.
    intros Hwf. destruct r as [|s0 tl]; [reflexivity|].
    destruct (str_eqb s0 s_account_information) eqn:E1;
      [apply str_eqb_eq in E1; subst s0; apply line_account_information; exact Hwf|].
    destruct (str_eqb s0 s_statement) eqn:E2; [apply str_eqb_eq in E2; subst s0; apply line_statement; exact Hwf|].
    destruct (str_eqb s0 s_trades) eqn:E3; [apply str_eqb_eq in E3; subst s0; apply line_trades; exact Hwf|].
    destruct (str_eqb s0 s_deposits) eqn:E4; [apply str_eqb_eq in E4; subst s0; apply line_deposits; exact Hwf|].
    destruct (str_eqb s0 s_dividends) eqn:E5; [apply str_eqb_eq in E5; subst s0; apply line_dividends; exact Hwf|].
    destruct (str_eqb s0 s_interest) eqn:E6; [apply str_eqb_eq in E6; subst s0; apply line_interest; exact Hwf|].
    destruct (str_eqb s0 s_withholding) eqn:E7; [apply str_eqb_eq in E7; subst s0; apply line_withholding; exact Hwf|].
    destruct (str_eqb s0 s_open_positions) eqn:E8;
      [apply str_eqb_eq in E8; subst s0; apply line_open_positions; exact Hwf|].
    destruct (str_eqb s0 s_forex_balances) eqn:E9;
      [apply str_eqb_eq in E9; subst s0; apply line_forex_balances; exact Hwf|].
    apply line_other; assumption.
  Qed.

  (* ---------------------------------------------------------------- the statement loop *)
  Lemma ib_rows_spec rows : forall ctx, ibs_wf ctx rows = true ->
    ib_rows acct dividend interest tax fee trading (st_of ctx) (map CRec rows) =
    MOk (map item_dir (ibs_items acct dividend interest tax fee trading ctx rows)).
  Proof.
    induction rows as [|r rows IH]; intros ctx Hwf; [reflexivity|].
    cbn [ibs_wf] in Hwf. apply andb_prop in Hwf. destruct Hwf as [Hr Hrest].
    cbn [map ib_rows ibs_items]. rewrite (ib_line_spec ctx r Hr). cbn [mbind fst snd].
    rewrite (IH _ Hrest). cbn [mbind]. rewrite map_app. reflexivity.
  Qed.

  (* ---------------------------------------------------------------- every item is booked *)
  Hypothesis Htbd : acct <> tbd_account.
  Hypothesis Hdiv : acct <> dividend.
  Hypothesis Hint : acct <> interest.
  Hypothesis Htax : acct <> tax.
  Hypothesis Hfee : acct <> fee.
  Hypothesis Htr : acct <> trading.

  Lemma stock_trade_effect r c :
    (legs_effect acct c (en_legs (fst (ibs_stock_trade acct fee trading r))) ==
     expected (re_changes (en_fact (fst (ibs_stock_trade acct fee trading r)))) c)%Q.
  Proof.
    unfold ibs_stock_trade. cbn [fst en_legs en_fact re_changes legs_effect expected fold_right snd].
    unfold leg_effect. cbn [l_credit l_debit l_com l_qty].
    rewrite !(ind_other_acc trading acct) by congruence. rewrite (ind_other_acc fee acct) by congruence.
    unfold ind. acc_cases. destruct (str_eq_dec (field r 5) c); destruct (str_eq_dec (field r 4) c); ring.
  Qed.

  Lemma forex_trade_effect base r c :
    (legs_effect acct c (en_legs (fst (ibs_forex_trade acct fee trading base r))) ==
     expected (re_changes (en_fact (fst (ibs_forex_trade acct fee trading base r)))) c)%Q.
  Proof.
    unfold ibs_forex_trade. cbn [fst en_legs en_fact re_changes].
    rewrite legs_effect_app, expected_app.
    assert (H2 : (legs_effect acct c [mkLeg trading acct (ibs_before_dot (field r 5)) (ibs_q2 (field r 7));
                                      mkLeg trading acct (field r 4) (ibs_q2 (field r 10))] ==
                  expected [(ibs_before_dot (field r 5), ibs_q2 (field r 7)); (field r 4, ibs_q2 (field r 10))] c)%Q).
    { cbn [legs_effect expected fold_right fst snd]. unfold leg_effect. cbn [l_credit l_debit l_com l_qty].
      rewrite !(ind_other_acc trading acct) by congruence. unfold ind. acc_cases.
      destruct (str_eq_dec (ibs_before_dot (field r 5)) c); destruct (str_eq_dec (field r 4) c); ring. }
    rewrite H2. destruct (is_zero (ibs_q2 (field r 11))); [reflexivity|].
    rewrite (one_in_effect acct fee base (ibs_q2 (field r 11)) c Hfee). reflexivity.
  Qed.

  Lemma ibs_row_emitted ctx r :
    Forall2 (ibs_emitted acct) (ibs_row acct dividend interest tax fee trading ctx r)
            (map item_dir (ibs_row acct dividend interest tax fee trading ctx r)).
  Proof.
    assert (Hone : forall e, (forall c, (legs_effect acct c (en_legs (fst e)) == expected (re_changes (en_fact (fst e))) c)%Q) ->
                   ibs_emitted acct (IbTxn e) (item_dir (IbTxn e))).
    { intros e He. exists (tentry_txn e). split; [reflexivity|]. split; [|reflexivity].
      apply books_b_intro; [reflexivity|exact He]. }
    unfold ibs_row. destruct (ibs_kind r); cbn [map]; repeat constructor; try apply Hone; intros c.
    - apply forex_trade_effect.
    - apply stock_trade_effect.
    - apply (one_in_effect acct tbd_account _ _ c Htbd).
    - apply (one_in_effect acct dividend _ _ c Hdiv).
    - apply (one_in_effect acct interest _ _ c Hint).
    - apply (one_in_effect acct tax _ _ c Htax).
  Qed.

  Lemma ibs_items_emitted rows : forall ctx,
    Forall2 (ibs_emitted acct) (ibs_items acct dividend interest tax fee trading ctx rows)
            (map item_dir (ibs_items acct dividend interest tax fee trading ctx rows)).
  Proof.
    induction rows as [|r rows IH]; intros ctx; [constructor|].
    cbn [ibs_items]. rewrite map_app. apply Forall2_app; [apply ibs_row_emitted|apply IH].
  Qed.

  (* one directive per booking row and per balance row: a transaction resp. an assertion *)
  Lemma ibs_items_counts rows : forall ctx,
    let ds := map item_dir (ibs_items acct dividend interest tax fee trading ctx rows) in
    length (filter is_txn_dir ds) = length (filter ibs_is_booking rows) /\
    length (filter (fun d => negb (is_txn_dir d)) ds) = length (filter ibs_is_balance rows).
  Proof.
    induction rows as [|r rows IH]; intros ctx; [split; reflexivity|].
    cbv zeta in *. cbn [ibs_items filter]. rewrite map_app, !filter_app, !app_length.
    destruct (IH (ibs_next ctx r)) as [IH1 IH2]. rewrite IH1, IH2.
    unfold ibs_row, ibs_is_booking, ibs_is_balance. destruct (ibs_kind r); split; reflexivity.
  Qed.
End IBStatement.

Theorem interactivebrokers_faithful acct dividend interest tax fee trading rows :
  acct <> tbd_account -> acct <> dividend -> acct <> interest -> acct <> tax -> acct <> fee -> acct <> trading ->
  ibs_wf ibs_ctx0 rows = true ->
  let items := ibs_items acct dividend interest tax fee trading ibs_ctx0 rows in
  exists ds,
    import_interactivebrokers acct dividend interest tax fee trading (map CRec rows) = MOk ds /\
    Forall2 (ibs_emitted acct) items ds /\
    length (filter is_txn_dir ds) = length (filter ibs_is_booking rows) /\
    length (filter (fun d => negb (is_txn_dir d)) ds) = length (filter ibs_is_balance rows).
Proof.
  intros H1 H2 H3 H4 H5 H6 Hwf items. exists (map (item_dir acct) items). split; [|split].
  - exact (ib_rows_spec acct dividend interest tax fee trading rows ibs_ctx0 Hwf).
  - apply ibs_items_emitted; assumption.
  - apply ibs_items_counts.
Qed.
