(* C03: facts about the Valuate processor (Model/Pipeline.v). *)
From Coq Require Import ZArith QArith List Bool Lia.
From Knut Require Import Model.Str Model.Dec Model.Date Model.Account Model.Ledger Model.Price
     Model.Journal Model.Check Model.Pipeline
     Proofs.DecProofs Proofs.DecValue Proofs.StrProofs Proofs.PairProofs.
Import ListNotations.
Open Scope Q_scope.

(* ------------------------------------------------------------ Abel summation *)
(* days i = 1..n with price p_i and net quantity q_i booked that day; Q_i = q_1 + ... + q_i.
   booking values p_i*q_i plus revaluations (p_i - p_{i-1})*Q_{i-1} telescope to p_n*Q_n. *)
Fixpoint abel_sum (l : list (Q * Q)) (p_prev Q_prev : Q) : Q :=
  match l with
  | [] => 0
  | (p, q) :: rest => p * q + (p - p_prev) * Q_prev + abel_sum rest p (Q_prev + q)
  end.

Fixpoint last_price (l : list (Q * Q)) (p_prev : Q) : Q :=
  match l with [] => p_prev | (p, _) :: rest => last_price rest p end.

Fixpoint total_qty (l : list (Q * Q)) (Q_prev : Q) : Q :=
  match l with [] => Q_prev | (_, q) :: rest => total_qty rest (Q_prev + q) end.

Lemma abel l : forall p0 Q0,
  abel_sum l p0 Q0 == last_price l p0 * total_qty l Q0 - p0 * Q0.
Proof.
  induction l as [|[p q] l IH]; intros p0 Q0; cbn [abel_sum last_price total_qty]; [ring|].
  rewrite IH. ring.
Qed.

(* ------------------------------------------------------------ one multiplication step *)

Lemma multiply_value_exact a b : (- 8 <= ex a + ex b)%Z -> dvalue (multiply a b) == dvalue a * dvalue b.
Proof.
  intros H. unfold multiply, truncate. cbn [mul ex].
  match goal with |- context [if ?c then _ else _] => destruct c eqn:E end; [|apply dvalue_mul].
  apply andb_true_iff in E. destruct E as [_ E]. apply Z.ltb_lt in E. lia.
Qed.

(* ------------------------------------------------------------ what the Posting callback does *)

(* income, expense and equity bookings (and all others) carry the value at the price of their
   booking day: value = truncate8 (quantity * price of that day); bookings in V carry their
   quantity; nothing is ever revalued afterwards by this callback *)
Lemma val_posting_value v s t p s' p' :
  val_posting v s t p = ROk (s', p') ->
  p_acc p' = p_acc p /\ p_other p' = p_other p /\ p_com p' = p_com p /\ p_qty p' = p_qty p /\
  (is_zero (p_qty p) = true -> p_val p' = p_val p) /\
  (is_zero (p_qty p) = false -> str_eqb v (p_com p) = true -> p_val p' = p_qty p) /\
  (is_zero (p_qty p) = false -> str_eqb v (p_com p) = false ->
     exists np pr, v_cur s = Some np /\ np_price np (p_com p) = Some pr /\ p_val p' = multiply (p_qty p) pr).
Proof.
  unfold val_posting. intros H.
  destruct (is_zero (p_qty p)) eqn:Ez.
  - inversion H; subst. repeat split; try reflexivity; intros; discriminate.
  - destruct (str_eqb v (p_com p)) eqn:Ev.
    + inversion H; subst. cbn. repeat split; try reflexivity; intros; discriminate.
    + destruct (v_cur s) as [np|]; try discriminate. unfold np_valuate in H.
      destruct (sm_get np (p_com p)) as [pr|] eqn:Ep; try discriminate.
      inversion H; subst. cbn. repeat split; try reflexivity; try (intros; discriminate).
      intros _ _. exists np, pr. repeat split; try reflexivity. exact Ep.
Qed.

(* a booking that needs a price which the day's normalised prices do not have makes the
   callback fail: no number is produced *)
Lemma val_posting_missing_price v s t p :
  is_zero (p_qty p) = false -> str_eqb v (p_com p) = false ->
  (match v_cur s with Some np => np_price np (p_com p) | None => None end) = None ->
  exists c, val_posting v s t p = RErr k_no_price c.
Proof.
  intros Hz Hv Hp. unfold val_posting. rewrite Hz, Hv.
  destruct (v_cur s) as [np|]; [|eauto]. unfold np_valuate, np_price in *. rewrite Hp. eauto.
Qed.

(* the revaluation transactions of a day: for each held position whose price changed, the gain
   truncate8 ((cur - prev) * quantity) is booked between the account and the income account
   that mirrors its path; the quantity of the booking is zero *)
Lemma val_adjustments_shape v date prev cur pos ts :
  val_adjustments v date prev cur pos = ROk ts ->
  Forall (fun t => t_date t = date /\
                   exists k0 a c q pp cp, In (k0, (a, c, q)) pos /\
                     np_price_opt prev c = Some pp /\ np_price_opt cur c = Some cp /\
                     t_postings t = pair_build (valuation_account_for a) a c dec_nil (multiply (sub cp pp) q)) ts.
Proof.
  revert ts. induction pos as [|[k [[a c] q]] rest IH]; intros ts H; cbn [val_adjustments] in H.
  - inversion H. constructor.
  - assert (Hrest : forall ts', val_adjustments v date prev cur rest = ROk ts' ->
        Forall (fun t => t_date t = date /\
                   exists k0 a0 c0 q0 pp cp, In (k0, (a0, c0, q0)) ((k, (a, c, q)) :: rest) /\
                     np_price_opt prev c0 = Some pp /\ np_price_opt cur c0 = Some cp /\
                     t_postings t = pair_build (valuation_account_for a0) a0 c0 dec_nil (multiply (sub cp pp) q0)) ts').
    { intros ts' H'. eapply Forall_impl; [|apply IH; exact H'].
      intros t (Hd & k0 & a0 & c0 & q0 & pp & cp & Hin & Hx). split; [exact Hd|].
      exists k0, a0, c0, q0, pp, cp. split; [right; exact Hin|exact Hx]. }
    destruct (str_eqb c v || negb (is_AL a) || is_zero q); [apply Hrest; exact H|].
    destruct (np_price_opt prev c) as [pp|] eqn:Epp; try discriminate.
    destruct (np_price_opt cur c) as [cp|] eqn:Ecp; try discriminate.
    destruct (is_zero (sub cp pp)); [apply Hrest; exact H|].
    destruct (val_adjustments v date prev cur rest) as [ts'| |] eqn:E; try discriminate. cbn [rbind] in H.
    inversion H. constructor; [|apply Hrest; reflexivity].
    cbn [t_date t_postings]. split; [reflexivity|].
    exists k, a, c, q, pp, cp. split; [left; reflexivity|]. split; [exact Epp|split; [exact Ecp|reflexivity]].
Qed.
