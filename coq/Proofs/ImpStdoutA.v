(* C13, group A: the importer commands print the executable statement-level specification
   (Spec/ImpStmtA.v): C13_<importer>_stdout. *)
From Coq Require Import ZArith QArith List Bool Lia.
From Knut Require Import Model.Str Model.Dec Model.Date Model.Account Model.Ledger Model.Journal
     Model.Table Model.ImpCommonA
     Model.Imp.Swisscard2 Model.Imp.Viac Model.Imp.Cumulus Model.Imp.Postfinance Model.Imp.Swisscard Model.Imp.Supercard
     Spec.ImpSpecA Spec.ImpStmtA
     Proofs.StrProofs Proofs.ImpProofsA.
Import ListNotations.
Open Scope bool_scope.

(* ---------------------------------------------------------------- general *)
Lemma rec_eqb_eq a : forall b, rec_eqb a b = true -> a = b.
Proof.
  induction a as [|x a IH]; intros [|y b] H; try discriminate H; [reflexivity|].
  cbn [rec_eqb] in H. apply andb_prop in H. destruct H as [Hx Hr]. apply str_eqb_eq in Hx. subst y.
  f_equal. apply IH, Hr.
Qed.

Lemma neg_involutive q : neg (neg q) = q.
Proof. destruct q as [c e]. unfold neg. cbn [coef ex]. rewrite Z.opp_involutive. reflexivity. Qed.

Lemma split_while_spec {A} (f : A -> bool) l : forall a b, split_while f l = (a, b) ->
  l = a ++ b /\ forallb f a = true /\ match b with x :: _ => f x = false | [] => True end.
Proof.
  induction l as [|x l IH]; intros a b H; cbn [split_while] in H.
  - injection H as <- <-. repeat split.
  - destruct (f x) eqn:E.
    + destruct (split_while f l) as [a' b'] eqn:E'. injection H as <- <-.
      destruct (IH a' b' eq_refl) as (H1 & H2 & H3). subst l. cbn [app forallb]. rewrite E, H2. repeat split. exact H3.
    + injection H as <- <-. repeat split. exact E.
Qed.

(* ---------------------------------------------------------------- ch.swisscard2 *)
Lemma sc2_row_spec acct r : sc2_wf_row r = true ->
  sc2_booking acct r = MOk (charge_directive acct (sc2_fact r) (sc2_text r)).
Proof.
  intros Hwf. unfold sc2_wf_row in Hwf. apply andb4 in Hwf. destruct Hwf as (Hl & Hd & Hc & Hq).
  unfold len_is in Hl.
  do 12 (destruct r as [|? r]; [discriminate Hl|]). destruct r; [|discriminate Hl].
  unfold field in *. cbn [nth] in *.
  apply is_some_inv in Hd. destruct Hd as [d Hd]. apply is_some_inv in Hq. destruct Hq as [q Hq].
  unfold sc2_booking, fld_p, fld, sc2_desc. cbn [nth_error].
  rewrite Hd, Hc, Hq. cbn [negb].
  unfold charge_directive, sc2_fact, field. cbn [nth rf_date rf_com rf_amount]. rewrite Hd, Hq. cbn [date_or0 dec_or0].
  rewrite neg_involutive. reflexivity.
Qed.

Lemma sc2_rows_spec acct rows : forallb sc2_wf_row rows = true ->
  sc2_rows acct (map CRec rows) = MOk (sc2_directives acct rows).
Proof.
  induction rows as [|r rows IH]; intros Hwf; [reflexivity|].
  cbn [forallb] in Hwf. apply andb_prop in Hwf. destruct Hwf as [Hr Hrs].
  cbn [map sc2_rows]. rewrite (sc2_row_spec acct r Hr). cbn [mbind]. rewrite (IH Hrs). reflexivity.
Qed.

Theorem swisscard2_stdout flag acct recs :
  account_flag flag = AAcc acct -> sc2_statement_wf recs = true ->
  exists out, sc2_statement_output acct recs = Some out /\ run_swisscard2 flag (map CRec recs) = mkRun out SOk.
Proof.
  intros Hf Hwf. unfold sc2_statement_output. rewrite Hwf. eexists. split; [reflexivity|].
  destruct recs as [|h rows]; [discriminate Hwf|]. cbn [sc2_statement_wf] in Hwf. cbn [tl map].
  apply (run_swisscard2_ok flag acct _ _ Hf). cbn [import_swisscard2]. apply sc2_rows_spec, Hwf.
Qed.
