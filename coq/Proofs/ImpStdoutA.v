(* C13, group A: the importer commands print the executable statement-level specification
   (Spec/ImpStmtA.v): C13_<importer>_stdout. *)
From Coq Require Import ZArith QArith List Bool Lia.
From Knut Require Import Model.Str Model.Dec Model.Date Model.Account Model.Ledger Model.Journal
     Model.Table Model.ImpCommonA
     Model.Imp.Swisscard2 Model.Imp.Viac Model.Imp.Cumulus Model.Imp.Postfinance Model.Imp.Swisscard Model.Imp.Supercard
     Spec.ImpSpecA Spec.ImpStmtA
     Proofs.StrProofs Proofs.ImpProofsA Proofs.ImpRunB.
Import ListNotations.
Open Scope bool_scope.

(* ---------------------------------------------------------------- general *)
Lemma rec_eqb_eq a : forall b, rec_eqb a b = true -> a = b.
Proof.
  induction a as [|x a IH]; intros [|y b] H; try discriminate H; [reflexivity|].
  cbn [rec_eqb] in H. apply andb_prop in H. destruct H as [Hx Hr]. apply str_eqb_eq in Hx. subst y.
  f_equal. apply IH, Hr.
Qed.

Lemma neg_involutive q : neg (neg q) = q.
Proof. destruct q as [c e]. unfold neg. cbn [coef ex]. rewrite Z.opp_involutive. reflexivity. Qed.

Lemma split_while_spec {A} (f : A -> bool) l : forall a b, split_while f l = (a, b) ->
  l = a ++ b /\ forallb f a = true /\ match b with x :: _ => f x = false | [] => True end.
Proof.
  induction l as [|x l IH]; intros a b H; cbn [split_while] in H.
  - injection H as <- <-. repeat split.
  - destruct (f x) eqn:E.
    + destruct (split_while f l) as [a' b'] eqn:E'. injection H as <- <-.
      destruct (IH a' b' eq_refl) as (H1 & H2 & H3). subst l. cbn [app forallb]. rewrite E, H2. repeat split. exact H3.
    + injection H as <- <-. repeat split. exact E.
Qed.

(* ---------------------------------------------------------------- ch.swisscard2 *)
Lemma sc2_row_spec acct r : sc2_wf_row r = true ->
  sc2_booking acct r = MOk (charge_directive acct (sc2_fact r) (sc2_text r)).
Proof.
  intros Hwf. unfold sc2_wf_row in Hwf. apply andb4 in Hwf. destruct Hwf as (Hl & Hd & Hc & Hq).
  unfold len_is in Hl.
  do 12 (destruct r as [|? r]; [discriminate Hl|]). destruct r; [|discriminate Hl].
  unfold field in *. cbn [nth] in *.
  apply is_some_inv in Hd. destruct Hd as [d Hd]. apply is_some_inv in Hq. destruct Hq as [q Hq].
  unfold sc2_booking, fld_p, fld, sc2_desc. cbn [nth_error].
  rewrite Hd, Hc, Hq. cbn [negb].
  unfold charge_directive, sc2_fact, field. cbn [nth rf_date rf_com rf_amount]. rewrite Hd, Hq. cbn [date_or0 dec_or0].
  rewrite neg_involutive. reflexivity.
Qed.

Lemma sc2_rows_spec acct rows : forallb sc2_wf_row rows = true ->
  sc2_rows acct (map CRec rows) = MOk (sc2_directives acct rows).
Proof.
  induction rows as [|r rows IH]; intros Hwf; [reflexivity|].
  cbn [forallb] in Hwf. apply andb_prop in Hwf. destruct Hwf as [Hr Hrs].
  cbn [map sc2_rows]. rewrite (sc2_row_spec acct r Hr). cbn [mbind]. rewrite (IH Hrs). reflexivity.
Qed.

Theorem swisscard2_stdout flag acct recs :
  account_flag flag = AAcc acct -> sc2_statement_wf recs = true ->
  exists out, sc2_statement_output acct recs = Some out /\ run_swisscard2 flag (map CRec recs) = mkRun out SOk.
Proof.
  intros Hf Hwf. unfold sc2_statement_output. rewrite Hwf. eexists. split; [reflexivity|].
  destruct recs as [|h rows]; [discriminate Hwf|]. cbn [sc2_statement_wf] in Hwf. cbn [tl map].
  apply (run_swisscard2_ok flag acct _ _ Hf). cbn [import_swisscard2]. apply sc2_rows_spec, Hwf.
Qed.

(* ---------------------------------------------------------------- ch.postfinance *)
Lemma pf_row_spec acct cur r : pf_wf_row r = true ->
  exists f0 f1 f2 f3 f4 f5 tl d q,
    r = f0 :: f1 :: f2 :: f3 :: f4 :: f5 :: tl /\
    (Nat.ltb (length r) 7 || Nat.ltb 8 (length r)) = false /\
    parse_dmy f0 = Some d /\ pf_amount f2 f3 = MOk q /\
    simple_txn d (pf_desc f1 f5 f4) tbd_account acct cur q = change_directive acct (pf_fact cur r) (pf_text r).
Proof.
  intros Hwf. unfold pf_wf_row in Hwf. apply andb4 in Hwf. destruct Hwf as (Hl & Hd & Hx & Hq).
  unfold pf_is_row in Hl. apply andb_prop in Hl. destruct Hl as [Hl1 Hl2].
  destruct r as [|f0 [|f1 [|f2 [|f3 [|f4 [|f5 [|f6 r]]]]]]]; try discriminate Hl1.
  apply is_some_inv in Hd. destruct Hd as [d Hd]. apply is_some_inv in Hq. destruct Hq as [q Hq].
  pose proof (pf_amount_ok _ q Hx Hq) as Ha.
  unfold field in Hd, Ha. cbn [nth] in Hd, Ha.
  do 9 eexists. split; [reflexivity|]. split.
  - destruct r as [|? [|? r]]; [reflexivity|reflexivity|discriminate Hl2].
  - split; [exact Hd|]. split; [exact Ha|].
    unfold change_directive, pf_fact. cbn [rf_date rf_com rf_amount]. rewrite Hq. unfold field. cbn [nth]. rewrite Hd. reflexivity.
Qed.

Lemma pf_bookings_spec dbg acct cur rows : forall d1 rest,
  forallb pf_wf_row rows = true -> pf_is_row d1 = false ->
  pf_bookings dbg acct cur (map CRec rows ++ CRec d1 :: rest) = (MOk (pf_directives acct cur rows, rest), pf_debug_line dbg d1).
Proof.
  intros d1 rest. induction rows as [|r rows IH]; intros Hwf Hd1.
  - cbn [map app pf_bookings pf_directives]. unfold pf_is_row in Hd1.
    replace (Nat.ltb (length d1) 7 || Nat.ltb 8 (length d1)) with true; [reflexivity|].
    symmetry. unfold Nat.ltb. destruct (Nat.leb 7 (length d1)) eqn:H7; cbn [andb] in Hd1.
    + apply orb_true_iff. right. apply Nat.leb_le. apply Nat.leb_gt in Hd1. lia.
    + apply orb_true_iff. left. apply Nat.leb_le. apply Nat.leb_gt in H7. lia.
  - cbn [forallb] in Hwf. apply andb_prop in Hwf. destruct Hwf as [Hr Hrs].
    destruct (pf_row_spec acct cur r Hr) as (f0 & f1 & f2 & f3 & f4 & f5 & tl & d & q & Hr' & Hlen & Hd & Ha & Hdir).
    cbn [map app]. cbn [pf_bookings]. rewrite Hlen. rewrite Hr' at 1. rewrite Hd, Ha, (IH Hrs Hd1). cbn [mbind fst snd].
    rewrite Hdir. reflexivity.
Qed.

Lemma import_postfinance_spec dbg acct kvs header rows d1 ds :
  let cur := pf_header_currency kvs s_CHF in
  forallb pf_is_kv kvs = true -> pf_is_kv header = false -> valid_name cur = true ->
  forallb pf_wf_row rows = true -> pf_is_row d1 = false -> forallb (fun r => len_is r 1) ds = true ->
  import_postfinance dbg acct (pf_statement kvs header rows d1 ds) = (MOk (pf_directives acct cur rows), pf_debug_line dbg d1).
Proof.
  intros cur Hk Hh Hc Hrows Hd1 Hds.
  unfold import_postfinance, pf_statement. rewrite (pf_kv_loop kvs [] header _ Hk Hh).
  assert (Hcur : pf_cur_of (rev (map pf_pair kvs) ++ []) = cur).
  { rewrite pf_cur_of_spec. reflexivity. }
  rewrite pf_currency_ok by (rewrite Hcur; exact Hc). rewrite Hcur.
  rewrite (pf_bookings_spec dbg acct cur rows d1 (map CRec ds) Hrows Hd1). cbn [mbind fst snd].
  rewrite (pf_disclaimer_ok ds Hds). reflexivity.
Qed.

Lemma pf_parts_spec recs kvs header rows d1 ds : pf_parts recs = Some (kvs, header, rows, d1, ds) ->
  recs = kvs ++ header :: (rows ++ d1 :: ds) /\ forallb pf_is_kv kvs = true /\ pf_is_kv header = false /\ pf_is_row d1 = false.
Proof.
  unfold pf_parts. destruct (split_while pf_is_kv recs) as [k r1] eqn:E1.
  destruct (split_while_spec _ _ _ _ E1) as (H1 & H2 & H3).
  destruct r1 as [|h r2]; [discriminate|].
  destruct (split_while pf_is_row r2) as [rw r3] eqn:E2.
  destruct (split_while_spec _ _ _ _ E2) as (H4 & H5 & H6).
  destruct r3 as [|d r4]; [discriminate|]. intros H. injection H. intros; subst. repeat split; assumption.
Qed.

Theorem postfinance_stdout dbg flag acct recs :
  account_flag flag = AAcc acct -> pf_statement_wf recs = true ->
  exists out, pf_statement_output acct recs = Some out /\
    run_postfinance dbg flag (map CRec recs) = mkRun (pf_debug_line dbg (pf_after_rows recs) ++ out) SOk.
Proof.
  intros Hf Hwf. unfold pf_statement_output, pf_after_rows. rewrite Hwf. unfold pf_statement_wf in Hwf.
  destruct (pf_parts recs) as [[[[[kvs header] rows] d1] ds]|] eqn:Hp; [|discriminate Hwf].
  eexists. split; [reflexivity|].
  destruct (pf_parts_spec _ _ _ _ _ _ Hp) as (Hrecs & Hk & Hh & Hd1).
  apply andb_prop in Hwf. destruct Hwf as [Hwf Hds]. apply andb_prop in Hwf. destruct Hwf as [Hc Hrows].
  apply (run_postfinance_ok dbg flag acct _ _ _ Hf).
  replace (map CRec recs) with (pf_statement kvs header rows d1 ds).
  - apply import_postfinance_spec; assumption.
  - subst recs. unfold pf_statement. rewrite map_app. cbn [map]. rewrite map_app. reflexivity.
Qed.

(* ---------------------------------------------------------------- ch.viac *)
Theorem viac_stdout flag from l :
  valid_name flag = true -> viac_statement_wf from l = true ->
  exists out, viac_statement_output flag from l = Some out /\ run_viac flag from (VValues l) = mkRun out SOk.
Proof.
  intros Hf Hwf. unfold viac_statement_output. rewrite Hwf. eexists. split; [reflexivity|].
  unfold viac_statement_wf in Hwf. apply andb_prop in Hwf. destruct Hwf as [Hfrom Hl].
  apply viac_run_from; [exact Hf| |exact Hl].
  destruct from as [f|]; [|reflexivity]. apply is_some_inv in Hfrom. destruct Hfrom as [d Hd]. rewrite Hd. reflexivity.
Qed.

(* ---------------------------------------------------------------- ch.supercard *)
Lemma sup_row_spec acct r : sup_ignored r = false -> sup_wf_row r = true ->
  sup_line acct r = MOk (Some (change_directive acct (sup_fact r) (sup_text r))).
Proof.
  intros Hi Hwf. unfold sup_wf_row in Hwf. rewrite Hi in Hwf. cbn [orb] in Hwf.
  apply andb4 in Hwf. destruct Hwf as (Hl & Hd & Ha & Hc). unfold len_is in Hl.
  destruct r as [|f0 [|f1 [|f2 [|f3 [|f4 [|f5 [|f6 [|f7 [|f8 [|f9 [|f10 [|f11 [|f12 [|x r]]]]]]]]]]]]]];
    try discriminate Hl.
  unfold sup_ignored, len_is, field in Hi. cbn [nth length Nat.leb Nat.eqb andb orb] in Hi.
  apply orb_false_elim in Hi. destruct Hi as [Hi Hk]. apply orb_false_elim in Hi. destruct Hi as [Hs _].
  unfold field in *. cbn [nth] in *.
  apply is_some_inv in Hd. destruct Hd as [d Hd].
  unfold sup_line, fld_p, fld, len_is. cbn [nth_error length Nat.eqb].
  change s_saldovortrag with s_saldo. rewrite Hs, Hk. cbn [orb negb]. rewrite Hd.
  unfold sup_amount_ok in Ha. unfold field in Ha. cbn [nth] in Ha.
  unfold change_directive, sup_amount, sup_fact, sup_text, field. cbn [nth rf_date rf_com rf_amount]. rewrite Hd. cbn [date_or0].
  destruct (is_empty f11) eqn:Hg; cbn [negb] in *.
  - apply andb_prop in Ha. destruct Ha as [Hb Hq]. apply is_some_inv in Hq. destruct Hq as [q Hq].
    destruct (is_empty f10); [discriminate Hb|]. cbn [negb]. rewrite Hq. cbn [mbind]. rewrite Hc.
    cbn [dec_or0]. rewrite mul_sign_neg. reflexivity.
  - apply is_some_inv in Ha. destruct Ha as [q Hq]. rewrite Hq. cbn [mbind]. rewrite Hc.
    cbn [dec_or0]. rewrite mul_sign_pos. reflexivity.
Qed.

Lemma sup_lines_spec acct rows : forallb sup_wf_row rows = true ->
  sup_lines acct (map CRec rows) = MOk (sup_directives acct rows).
Proof.
  induction rows as [|r rows IH]; intros Hwf; [reflexivity|].
  cbn [forallb] in Hwf. apply andb_prop in Hwf. destruct Hwf as [Hr Hrs].
  unfold sup_directives, sup_is_booking in *. cbn [map sup_lines filter]. destruct (sup_ignored r) eqn:Hi; cbn [negb].
  - rewrite (sup_row_ignored acct r Hi). cbn [mbind]. rewrite (IH Hrs). reflexivity.
  - rewrite (sup_row_spec acct r Hi Hr). cbn [mbind]. rewrite (IH Hrs). reflexivity.
Qed.

Theorem supercard_stdout flag acct recs :
  account_flag flag = AAcc acct -> sup_statement_wf recs = true ->
  exists out, sup_statement_output acct recs = Some out /\ run_supercard flag (map CRec recs) = mkRun out SOk.
Proof.
  intros Hf Hwf. unfold sup_statement_output. rewrite Hwf. eexists. split; [reflexivity|].
  destruct recs as [|first [|header rows]]; try discriminate Hwf. cbn [sup_statement_wf] in Hwf. cbn [tl map].
  apply andb_prop in Hwf. destruct Hwf as [Hfirst Hrows]. apply rec_eqb_eq in Hfirst. subst first.
  apply (run_supercard_ok flag acct _ _ Hf). cbn. apply sup_lines_spec, Hrows.
Qed.

(* ---------------------------------------------------------------- ch.swisscard *)
Lemma sc_row_spec acct r : sc_is_booking r = true -> sc_wf_row r = true ->
  sc_booking acct r = MOk (Some (charge_directive acct (sc_fact r) (sc_text r))).
Proof.
  intros Hb Hwf. unfold sc_wf_row in Hwf. rewrite Hb in Hwf.
  apply andb3 in Hwf. destruct Hwf as (Hl & Hd & Hq). unfold len_is in Hl.
  do 11 (destruct r as [|? r]; [discriminate Hl|]). destruct r; [|discriminate Hl].
  unfold field in *. cbn [nth] in *. cbn [sc_is_booking] in Hb. apply andb_prop in Hb. destruct Hb as [Hb0 Hb1].
  apply is_some_inv in Hd. destruct Hd as [d Hd]. apply is_some_inv in Hq. destruct Hq as [q Hq].
  unfold sc_booking, fld_p, fld, sc_words, len_is. cbn [nth_error length Nat.eqb].
  rewrite Hb0, Hb1. cbn [negb]. rewrite Hd. rewrite sc_clean_spec, Hq.
  unfold charge_directive, sc_fact, field. cbn [nth rf_date rf_com rf_amount]. rewrite Hd, Hq. cbn [date_or0 dec_or0].
  rewrite neg_involutive. reflexivity.
Qed.

Lemma import_swisscard_spec acct rows : forallb sc_wf_row rows = true ->
  import_swisscard acct (map CRec rows) = MOk (sc_directives acct rows).
Proof.
  induction rows as [|r rows IH]; intros Hwf; [reflexivity|].
  cbn [forallb] in Hwf. apply andb_prop in Hwf. destruct Hwf as [Hr Hrs].
  unfold sc_directives in *. cbn [map import_swisscard filter]. destruct (sc_is_booking r) eqn:Hb.
  - rewrite (sc_row_spec acct r Hb Hr). cbn [mbind]. rewrite (IH Hrs). reflexivity.
  - rewrite (sc_row_ignored acct r Hb Hr). cbn [mbind]. rewrite (IH Hrs). reflexivity.
Qed.

Theorem swisscard_stdout flag acct recs :
  account_flag flag = AAcc acct -> sc_statement_wf recs = true ->
  exists out, sc_statement_output acct recs = Some out /\ run_swisscard flag (map CRec recs) = mkRun out SOk.
Proof.
  intros Hf Hwf. unfold sc_statement_output. rewrite Hwf. eexists. split; [reflexivity|].
  apply (run_swisscard_ok flag acct _ _ Hf). apply import_swisscard_spec, Hwf.
Qed.

(* ---------------------------------------------------------------- ch.cumulus *)
Lemma cum_comment_row_spec r : cum_is_comment r = true -> r = cum_comment_row (field r 2) /\ is_empty (field r 2) = false.
Proof.
  unfold cum_is_comment. destruct r as [|f0 [|f1 [|f2 [|f3 [|f4 [|f5 r]]]]]]; try discriminate.
  intros H. apply andb_prop in H. destruct H as [H H4]. apply andb_prop in H. destruct H as [H H3].
  apply andb_prop in H. destruct H as [H H2]. apply andb_prop in H. destruct H as [H0 H1].
  destruct f0; [|discriminate H0]. destruct f1; [|discriminate H1]. destruct f3; [|discriminate H3]. destruct f4; [|discriminate H4].
  apply negb_true_iff in H2. split; [reflexivity|exact H2].
Qed.

Lemma cum_parse_spec recs : forall cs es, cum_parse recs = Some (cs, es) ->
  recs = map cum_comment_row cs ++ flat_map cum_records es /\ forallb cum_wf_entry es = true.
Proof.
  induction recs as [|r rest IH]; intros cs es H; cbn [cum_parse] in H.
  - injection H as <- <-. split; reflexivity.
  - destruct (cum_parse rest) as [[cs' es']|]; [|discriminate H].
    destruct (IH cs' es' eq_refl) as [Hrest Hwf].
    destruct (cum_is_comment r) eqn:Hc.
    { injection H as <- <-. destruct (cum_comment_row_spec r Hc) as [Hr _]. split; [|exact Hwf].
      cbn [map app]. rewrite <- Hr, <- Hrest. reflexivity. }
    destruct (cum_wf_entry (CumBooking r cs')) eqn:Hb.
    { injection H as <- <-. split; [|cbn [forallb]; rewrite Hb, Hwf; reflexivity].
      cbn [map app flat_map cum_records]. rewrite <- ?app_assoc, <- Hrest. reflexivity. }
    destruct (cum_wf_entry (CumRounding r cs')) eqn:Hr.
    { injection H as <- <-. split; [|cbn [forallb]; rewrite Hr, Hwf; reflexivity].
      cbn [map app flat_map cum_records]. rewrite <- ?app_assoc, <- Hrest. reflexivity. }
    destruct cs' as [|c cs']; [|discriminate H].
    destruct (cum_wf_entry (CumIgnored r)) eqn:Hi; [|discriminate H].
    injection H as <- <-. split; [|cbn [forallb]; rewrite Hi, Hwf; reflexivity].
    cbn [map app flat_map cum_records]. rewrite Hrest. reflexivity.
Qed.

Lemma cum_builder_directives acct e : map (cum_txn acct) (cum_builder e) = cum_entry_directives acct e.
Proof. destruct e; reflexivity. Qed.

Lemma import_cumulus_spec acct es : forallb cum_wf_entry es = true ->
  import_cumulus acct (map CRec (flat_map cum_records es)) = MOk (flat_map (cum_entry_directives acct) es).
Proof.
  intros Hwf. unfold import_cumulus. rewrite (cum_loop_entries es [] Hwf). cbn [mbind].
  rewrite app_nil_r, rev_involutive. f_equal.
  induction es as [|e es IH]; [reflexivity|]. cbn [forallb] in Hwf. apply andb_prop in Hwf. destruct Hwf as [_ Hwf].
  cbn [flat_map]. rewrite map_app, cum_builder_directives, (IH Hwf). reflexivity.
Qed.

Theorem cumulus_stdout flag acct recs :
  account_flag flag = AAcc acct -> cum_statement_wf recs = true ->
  exists out, cum_statement_output acct recs = Some out /\ run_cumulus flag (map CRec recs) = mkRun out SOk.
Proof.
  intros Hf Hwf. unfold cum_statement_wf in Hwf. unfold cum_statement_output.
  destruct (cum_entries recs) as [es|] eqn:He; [|discriminate Hwf]. eexists. split; [reflexivity|].
  unfold cum_entries in He. destruct (cum_parse recs) as [[[|c cs] es']|] eqn:Hp; try discriminate He. injection He as ->.
  destruct (cum_parse_spec recs [] es Hp) as [Hrecs Hes]. cbn [map app] in Hrecs. subst recs.
  apply (run_cumulus_ok flag acct _ _ Hf). apply import_cumulus_spec, Hes.
Qed.

(* ---------------------------------------------------------------- executable form vs. relation *)
(* the transaction the executable specification prescribes for a row fact books that fact *)
Lemma change_directive_books acct f text : acct <> tbd_account ->
  exists t, change_directive acct f text = DTxn t /\ books acct tbd_account f t /\ t_desc t = build_desc text.
Proof.
  intros Hne. eexists. split; [reflexivity|]. split; [|reflexivity].
  apply books_debit; try assumption; reflexivity.
Qed.

Lemma charge_directive_books acct f text : acct <> tbd_account ->
  exists t, charge_directive acct f text = DTxn t /\ books acct tbd_account f t /\ t_desc t = build_desc text.
Proof.
  intros Hne. eexists. split; [reflexivity|]. split; [|reflexivity].
  apply books_credit; try assumption; try reflexivity.
  rewrite DecValue.dvalue_neg. ring.
Qed.
