(* Facts about byte-string comparison and the stable insertion sort of Model/Str.v. *)
From Coq Require Import ZArith List Bool Lia Permutation.
From Knut Require Import Model.Str.
Import ListNotations.
Open Scope Z_scope.

Lemma str_cmp_eq a b : str_cmp a b = Eq <-> a = b.
Proof.
  revert b. induction a as [|x a IH]; intros [|y b]; cbn; try (split; [discriminate|discriminate]); try tauto.
  destruct (x ?= y) eqn:E.
  - apply Z.compare_eq in E. subst. rewrite IH. split; [intros ->; reflexivity|intros H; inversion H; reflexivity].
  - split; [discriminate|]. intros H; inversion H; subst. rewrite Z.compare_refl in E. discriminate.
  - split; [discriminate|]. intros H; inversion H; subst. rewrite Z.compare_refl in E. discriminate.
Qed.

Lemma str_cmp_refl a : str_cmp a a = Eq.
Proof. apply str_cmp_eq. reflexivity. Qed.

Lemma str_eqb_eq a b : str_eqb a b = true <-> a = b.
Proof.
  unfold str_eqb. rewrite <- str_cmp_eq. destruct (str_cmp a b); split; congruence.
Qed.

Lemma str_eqb_refl a : str_eqb a a = true.
Proof. apply str_eqb_eq. reflexivity. Qed.

Lemma str_cmp_antisym a b : str_cmp b a = CompOpp (str_cmp a b).
Proof.
  revert b. induction a as [|x a IH]; intros [|y b]; cbn; try reflexivity.
  rewrite (Z.compare_antisym x y). destruct (x ?= y); cbn; [apply IH|reflexivity|reflexivity].
Qed.

Lemma str_cmp_lt_trans a b c : str_cmp a b = Lt -> str_cmp b c = Lt -> str_cmp a c = Lt.
Proof.
  revert b c. induction a as [|x a IH]; intros [|y b] [|z c]; cbn; try congruence.
  destruct (x ?= y) eqn:E1; destruct (y ?= z) eqn:E2; try congruence.
  - apply Z.compare_eq in E1, E2. subst. rewrite Z.compare_refl. apply IH.
  - apply Z.compare_eq in E1. subst. rewrite E2. reflexivity.
  - apply Z.compare_eq in E2. subst. rewrite E1. reflexivity.
  - intros _ _. rewrite Z.compare_lt_iff in *. replace (x ?= z) with Lt; [reflexivity|]. symmetry. apply Z.compare_lt_iff. lia.
Qed.

Section SortPerm.
  Context {A : Type} (lt : A -> A -> bool).

  Lemma insert_sorted_perm x l : Permutation (insert_sorted lt x l) (x :: l).
  Proof.
    induction l as [|y l IH]; cbn; [reflexivity|].
    destruct (lt x y); [reflexivity|].
    rewrite IH. apply perm_swap.
  Qed.

  Lemma sort_by_perm l : Permutation (sort_by lt l) l.
  Proof.
    unfold sort_by. rewrite (Permutation_rev l) at 2.
    induction (rev l) as [|x r IH]; cbn; [reflexivity|].
    rewrite insert_sorted_perm. constructor. exact IH.
  Qed.
End SortPerm.
