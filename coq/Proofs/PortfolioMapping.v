(* C20, part 5: the mapping law on the nodes of the report.
   - the entries of the query WITH a mapping are the entries of the query WITHOUT it, with
     map_path applied to the path (same order, dates and weights); the run without mapping
     never panics;
   - hence the weight at path p of the mapped, propagated report is the sum of the unmapped
     entries that map_path sends to or below p, and it is the entries sent to p itself plus the
     weights of the children of the node. *)
From Coq Require Import ZArith QArith Qfield List Bool Lia Sorting.Sorted.
From Knut Require Import Model.Str Model.Dec Model.Date Model.Account Model.Ledger Model.Price
     Model.Journal Model.Cli Model.Perf Model.Weights Model.CliPortfolio Spec.PortfolioSpec Spec.PortfolioMapSpec
     Proofs.SMapProofs Proofs.PortfolioDays Proofs.PortfolioReturns Proofs.PortfolioWeights Proofs.PortfolioTree.
Import ListNotations.
Open Scope Q_scope.

(* ------------------------------------------------------------ entries with and without -m *)

Lemma map_path_nil ss : map_path [] ss = Some ss.
Proof. reflexivity. Qed.

Lemma day_entries_unmapped_ok u date total v1 : exists es0, day_entries u [] date total v1 = WOk es0.
Proof.
  induction v1 as [|[c v] v1 [es0 IH]]; [exists []; reflexivity|]. cbn [day_entries]. rewrite map_path_nil, IH. eexists. reflexivity.
Qed.

Lemma query_entries_unmapped_ok u ends l : exists es0, query_entries u [] ends l = WOk es0.
Proof.
  induction l as [|[d [v0 v1]] l [es0 IH]]; [exists []; reflexivity|]. cbn [query_entries].
  destruct (existsb (Z.eqb d) ends); [|exists es0; exact IH].
  destruct (day_entries_unmapped_ok u d (pcv_sum v1) v1) as [es1 H1]. rewrite H1, IH. eexists. reflexivity.
Qed.

Definition wres_of (o : option (list entry)) : wresult (list entry) :=
  match o with Some es => WOk es | None => WPanic end.

Lemma day_entries_map u m date total v1 : forall es0,
  day_entries u [] date total v1 = WOk es0 -> day_entries u m date total v1 = wres_of (map_entries m es0).
Proof.
  induction v1 as [|[c v] v1 IH]; intros es0 H; cbn [day_entries] in *.
  - inversion H; subst. reflexivity.
  - rewrite map_path_nil in H. destruct (day_entries u [] date total v1) as [l0|] eqn:E0; [|discriminate].
    inversion H; subst. cbn [map_entries]. rewrite (IH l0 eq_refl).
    destruct (map_path m (locate u c)); [|reflexivity]. destruct (map_entries m l0); reflexivity.
Qed.

Lemma map_entries_app m a : forall b,
  map_entries m (a ++ b) = match map_entries m a, map_entries m b with Some x, Some y => Some (x ++ y) | _, _ => None end.
Proof.
  induction a as [|[[ss d] w] a IH]; intros b; cbn [app map_entries].
  - destruct (map_entries m b); reflexivity.
  - rewrite IH. destruct (map_path m ss); [|reflexivity]. destruct (map_entries m a); [|reflexivity].
    destruct (map_entries m b); reflexivity.
Qed.

Lemma query_entries_map u m ends l : forall es0,
  query_entries u [] ends l = WOk es0 -> query_entries u m ends l = wres_of (map_entries m es0).
Proof.
  induction l as [|[d [v0 v1]] l IH]; intros es0 H; cbn [query_entries] in *.
  - inversion H; subst. reflexivity.
  - destruct (existsb (Z.eqb d) ends); [|apply IH; exact H].
    destruct (day_entries u [] d (pcv_sum v1) v1) as [e1|] eqn:E1; [|discriminate].
    destruct (query_entries u [] ends l) as [e2|] eqn:E2; [|discriminate]. inversion H; subst.
    rewrite (day_entries_map u m d (pcv_sum v1) v1 e1 E1), (IH e2 eq_refl), map_entries_app.
    destruct (map_entries m e1); [|reflexivity]. destruct (map_entries m e2); reflexivity.
Qed.

(* the command: only the query sees the mapping *)
Lemma weights_entries_map cfg ds es0 es :
  weights_entries (pf_unmapped cfg) ds = COk es0 -> weights_entries cfg ds = COk es ->
  map_entries (pc_mapping cfg) es0 = Some es.
Proof.
  assert (Hu : pc_universe (pf_unmapped cfg) = pc_universe cfg) by reflexivity.
  assert (Hv : check_valuation (pf_unmapped cfg) = check_valuation cfg) by reflexivity.
  assert (Hp : forall b, pf_partition (pf_unmapped cfg) b = pf_partition cfg b) by reflexivity.
  assert (Hd : forall days, valued_days (pf_unmapped cfg) days = valued_days cfg days) by reflexivity.
  assert (Hq : forall days, day_values (pf_unmapped cfg) days = day_values cfg days) by reflexivity.
  unfold weights_entries. rewrite Hu, Hv.
  destruct (match pc_universe cfg with Some y => universe_load [] y | None => COk [] end) as [u| |]; cbn [cbind]; try discriminate.
  destruct (check_valuation cfg); cbn [cbind]; try discriminate.
  destruct (load ds) as [b| |]; cbn [cbind]; try discriminate. rewrite Hp.
  destruct (pf_partition cfg b) as [part| |]; cbn [cbind]; try discriminate. rewrite Hd.
  destruct (valued_days cfg (b_days (builder_touch b (end_dates part)))) as [days| |]; cbn [cbind]; try discriminate.
  rewrite Hq. destruct (day_values cfg days) as [vs| |]; cbn [cbind]; try discriminate.
  change (pc_mapping (pf_unmapped cfg)) with (@nil rule).
  destruct (query_entries u [] (end_dates part) (fst vs)) as [e0|] eqn:E0; [|discriminate].
  rewrite (query_entries_map u (pc_mapping cfg) _ _ e0 E0). intros H0 H. inversion H0; subst.
  destruct (map_entries (pc_mapping cfg) es0); [inversion H; reflexivity|discriminate].
Qed.

(* the command without -m does not fail where the command with -m succeeds *)
Lemma weights_entries_unmapped_ok cfg ds es :
  weights_entries cfg ds = COk es -> exists es0, weights_entries (pf_unmapped cfg) ds = COk es0.
Proof.
  assert (Hu : pc_universe (pf_unmapped cfg) = pc_universe cfg) by reflexivity.
  assert (Hv : check_valuation (pf_unmapped cfg) = check_valuation cfg) by reflexivity.
  assert (Hp : forall b, pf_partition (pf_unmapped cfg) b = pf_partition cfg b) by reflexivity.
  assert (Hd : forall days, valued_days (pf_unmapped cfg) days = valued_days cfg days) by reflexivity.
  assert (Hq : forall days, day_values (pf_unmapped cfg) days = day_values cfg days) by reflexivity.
  unfold weights_entries. rewrite Hu, Hv.
  destruct (match pc_universe cfg with Some y => universe_load [] y | None => COk [] end) as [u| |]; cbn [cbind]; try discriminate.
  destruct (check_valuation cfg); cbn [cbind]; try discriminate.
  destruct (load ds) as [b| |]; cbn [cbind]; try discriminate. rewrite Hp.
  destruct (pf_partition cfg b) as [part| |]; cbn [cbind]; try discriminate. rewrite Hd.
  destruct (valued_days cfg (b_days (builder_touch b (end_dates part)))) as [days| |]; cbn [cbind]; try discriminate.
  rewrite Hq. destruct (day_values cfg days) as [vs| |]; cbn [cbind]; try discriminate.
  change (pc_mapping (pf_unmapped cfg)) with (@nil rule). intros _.
  destruct (query_entries_unmapped_ok u (end_dates part) (fst vs)) as [e0 E0]. rewrite E0. exists e0. reflexivity.
Qed.

(* ------------------------------------------------------------ sums over mapped entries *)

Lemma map_entries_defined m es0 : forall es, map_entries m es0 = Some es -> defined_entries es0 -> defined_entries es.
Proof.
  unfold defined_entries. induction es0 as [|[[ss d] w] es0 IH]; intros es H Hd; cbn [map_entries] in H.
  - inversion H; subst. constructor.
  - destruct (map_path m ss) as [q|]; [|discriminate]. destruct (map_entries m es0) as [l|]; [|discriminate].
    inversion H; subst. inversion Hd; subst. constructor; [assumption|apply IH; [reflexivity|assumption]].
Qed.

Lemma group_weight_map m es0 p d : forall es, map_entries m es0 = Some es ->
  group_weight es p d == mapped_weight m es0 p d.
Proof.
  unfold group_weight, mapped_weight. induction es0 as [|[[ss dt] w] es0 IH]; intros es H; cbn [map_entries] in H.
  - inversion H; subst. reflexivity.
  - destruct (map_path m ss) as [q|] eqn:Eq; [|discriminate]. destruct (map_entries m es0) as [l|]; [|discriminate].
    inversion H; subst. cbn [map qsum fold_right]. rewrite Eq. apply Qplus_inj_l. exact (IH l eq_refl).
Qed.

Lemma path_prefix_refl a : path_prefix a a = true.
Proof. induction a as [|x a IH]; cbn [path_prefix]; [reflexivity|]. rewrite str_eqb_refl. exact IH. Qed.

Lemma path_eqb_sym a b : path_eqb a b = path_eqb b a.
Proof. unfold path_eqb. apply andb_comm. Qed.

Lemma own_weight_map m es0 p d : forall es, map_entries m es0 = Some es ->
  own_weight es p d == folded_weight m es0 p d.
Proof.
  unfold own_weight, folded_weight. induction es0 as [|[[ss dt] w] es0 IH]; intros es H; cbn [map_entries] in H.
  - inversion H; subst. reflexivity.
  - destruct (map_path m ss) as [q|] eqn:Eq; [|discriminate]. destruct (map_entries m es0) as [l|]; [|discriminate].
    inversion H; subst. cbn [map qsum fold_right]. rewrite Eq, (path_eqb_sym p q). apply Qplus_inj_l. exact (IH l eq_refl).
Qed.

(* ------------------------------------------------------------ the law on the nodes *)

Theorem mapping_law_nodes cfg ds es0 es p d :
  weights_entries (pf_unmapped cfg) ds = COk es0 -> weights_entries cfg ds = COk es ->
  defined_entries es0 ->
  node_weight (propagate (report_of es)) p d == mapped_weight (pc_mapping cfg) es0 p d.
Proof.
  intros H0 H Hd. pose proof (weights_entries_map cfg ds es0 es H0 H) as Hm.
  rewrite (node_weight_group es p d (map_entries_defined _ _ _ Hm Hd)). apply group_weight_map. exact Hm.
Qed.

Lemma wn_find_app p q : forall n, wn_find (p ++ q) n = match wn_find p n with Some x => wn_find q x | None => None end.
Proof.
  induction p as [|h t IH]; intros n; cbn [app wn_find]; [reflexivity|].
  destruct (find_child h (wn_children n)); [apply IH|reflexivity].
Qed.

Lemma find_child_self l c : StronglySorted seg_lt l -> In c l -> find_child (wn_seg c) l = Some c.
Proof.
  induction l as [|a l IH]; intros Hs Hin; [destruct Hin|]. inversion Hs as [|? ? Hs' Hall]; subst. cbn [find_child].
  destruct Hin as [->|Hin]; [rewrite str_eqb_refl; reflexivity|].
  rewrite Forall_forall in Hall. specialize (Hall c Hin). unfold seg_lt in Hall.
  replace (str_eqb (wn_seg c) (wn_seg a)) with false; [apply IH; assumption|].
  symmetry. apply str_eqb_neq. intros Heq. rewrite Heq, str_cmp_refl in Hall. discriminate.
Qed.

Lemma qsum_map_ext {A} (f g : A -> Q) l : (forall x, In x l -> f x == g x) -> qsum (map f l) == qsum (map g l).
Proof.
  induction l as [|x l IH]; intros H; cbn [map qsum fold_right]; [reflexivity|].
  fold (qsum (map f l)). fold (qsum (map g l)). rewrite IH, (H x); [reflexivity|left; reflexivity|].
  intros y Hy. apply H. right. exact Hy.
Qed.

(* the renderer's cell at a path whose node is [c] before propagation *)
Lemma node_weight_at es q d c : wn_find q (report_of es) = Some c ->
  node_weight (propagate (report_of es)) q d == nweight (propagate c) d.
Proof.
  intros E. unfold node_weight. rewrite wn_find_propagate, E. cbn [option_map]. unfold nweight.
  apply cell_q_wsum. apply propagate_weights_asc.
  exact (tall_here _ _ (wn_find_tall _ q _ c (proj2 (report_shape es)) E)).
Qed.

(* node = the entries folded into it + its children *)
Theorem node_own_plus_children es p d x : defined_entries es ->
  wn_find p (report_of es) = Some x ->
  node_weight (propagate (report_of es)) p d ==
  own_weight es p d + qsum (map (fun c => node_weight (propagate (report_of es)) (p ++ [wn_seg c]) d) (wn_children x)).
Proof.
  intros Hd E. rewrite (node_weight_at es p d x E).
  pose proof (proj2 (tdef_iff x) (wn_find_tall _ p _ x (proj1 (tdef_iff _) (report_defined es Hd)) E)) as Hx.
  pose proof (wn_find_tall _ p _ x (proj1 (report_shape es)) E) as Hs.
  pose proof (report_own_at es p d Hd) as Ho. unfold at_node in Ho. rewrite E in Ho.
  destruct x as [s lf w ch]. rewrite (propagate_local s lf w ch Hx d). cbn [wn_weights wn_children] in *. rewrite Ho.
  apply Qplus_inj_l. apply qsum_map_ext. intros c Hc. symmetry. apply node_weight_at.
  rewrite wn_find_app, E. cbn [wn_find wn_children].
  rewrite (find_child_self ch c (tall_here _ _ Hs) Hc). reflexivity.
Qed.

Theorem mapping_law_local cfg ds es0 es p d x :
  weights_entries (pf_unmapped cfg) ds = COk es0 -> weights_entries cfg ds = COk es ->
  defined_entries es0 ->
  wn_find p (propagate (report_of es)) = Some x ->
  node_weight (propagate (report_of es)) p d ==
  folded_weight (pc_mapping cfg) es0 p d +
  qsum (map (fun c => node_weight (propagate (report_of es)) (p ++ [wn_seg c]) d) (wn_children x)).
Proof.
  intros H0 H Hd E. pose proof (weights_entries_map cfg ds es0 es H0 H) as Hm.
  rewrite wn_find_propagate in E. destruct (wn_find p (report_of es)) as [y|] eqn:Ey; [|discriminate].
  cbn [option_map] in E. inversion E; subst x.
  rewrite (node_own_plus_children es p d y (map_entries_defined _ _ _ Hm Hd) Ey), (own_weight_map _ _ p d es Hm).
  apply Qplus_inj_l. destruct y as [s lf w ch]. rewrite propagate_children. cbn [wn_children]. rewrite map_map.
  apply qsum_map_ext. intros c _. rewrite propagate_seg. reflexivity.
Qed.

(* Report.Add and PropagateWeights keep the dates of every weight map ascending: on every node
   of the propagated report the renderer's lookup (wm_get) reads the date's sum (wsum_get) *)
Lemma report_cells_asc es p x : wn_find p (propagate (report_of es)) = Some x -> wm_asc (wn_weights x).
Proof.
  rewrite wn_find_propagate. destruct (wn_find p (report_of es)) as [y|] eqn:E; [|discriminate]. cbn [option_map].
  intros H. inversion H; subst. apply propagate_weights_asc.
  exact (tall_here _ _ (wn_find_tall _ p _ y (proj2 (report_shape es)) E)).
Qed.
