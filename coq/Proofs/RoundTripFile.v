(* C08 round trip, part 7: parseFile's loop in both directions, and the theorem.
   [i_file]     a successfully parsed file has the structure FL on its gaps and meanings;
   [file_cons]  a text woven from gaps and rendered meanings with structure FL parses, to
                directives with these meanings lying exactly where they were rendered;
   [roundtrip]  hence parse (format t) has the meaning and the gaps of parse t.             *)
From Coq Require Import ZArith List Bool Lia ZifyBool.
From Knut Require Import Model.Bytes Model.Utf8 Model.Scanner Model.Parser Model.SynPrinter Spec.SyntaxSpec
  Proofs.ScannerProofs Proofs.ParserProofs Spec.FormatSpec Model.SynRender Proofs.FormatProofs
  Proofs.RoundTripBase Proofs.RoundTripLeaf Proofs.RoundTripInv Proofs.RoundTripCons Proofs.RoundTripTrx
  Proofs.RoundTripRuns.
Import ListNotations.
Open Scope bool_scope.
Open Scope Z_scope.

Definition first_end (t : str) (ds : list directive) : Z :=
  match ds with [] => zlen t | d :: _ => r_start (d_range d) end.
Definition gap_hd (t : str) (pos : Z) (ds : list directive) : str := slice t pos (first_end t ds).
Definition gap_tl (t : str) (ds : list directive) : list str :=
  match ds with [] => [] | d :: ds' => gaps_from t (r_end (d_range d)) ds' end.

Lemma gaps_from_split t pos ds : gaps_from t pos ds = gap_hd t pos ds :: gap_tl t ds.
Proof. destruct ds; reflexivity. Qed.

Section WithEnv.
Variable E : env.
Hypothesis Hlen : e_len E = Z.of_nat (length (e_text E)).
Hypothesis Hfuel : (length (e_text E) < e_fuel E)%nat.
Hypothesis Hdec : decoder_ok (e_decode E).
Hypothesis Hloc : decoder_local (e_decode E).

Notation t := (e_text E).
Notation dec := (e_decode E).
Notation letter := (e_letter E).
Notation digit := (e_digit E).
Notation fr := (fr dec).
Notation cls := (cls dec).
Notation At := (At E).
Notation VInv := (VInv E).
Notation wsl := (wsl dec).
Notation FL := (FL dec letter digit).
Notation LexDir := (LexDir dec letter digit).
Notation alnum := (alnum letter digit).

Definition tail_m (n : nat) (od : option directive) : M (list directive) :=
  ifM (cur_is eof) (ret (opt_cons od []))
    (do _ <- read_rest_of_whitespace_line E; do ds <- file_loop E n; ret (opt_cons od ds)).

Definition od_m : M (option directive) :=
  ifM (fun s => (cur s =? 42) || (cur s =? 35) || (cur s =? 47))
    (do _ <- read_comment E; ret None)
    (ifM (fun s => is_alphanumeric E (cur s) || (cur s =? 64))
       (do d <- parse_directive E; ret (Some d))
       (ret None)).

Lemma file_loop_S n s :
  file_loop E (S n) s = ifM (cur_is eof) (ret []) (do od <- od_m; tail_m n od) s.
Proof using. reflexivity. Qed.

(* ================================================================== inversion *)

Local Notation ipost := (@ipost E _).
Local Notation ipost_bind := (@RoundTripLeaf.ipost_bind E Hlen Hfuel Hdec Hloc _ _).
Local Notation ipost_ret := (@RoundTripLeaf.ipost_ret E Hlen Hfuel Hdec Hloc _).
Local Notation ipost_weaken := (@RoundTripLeaf.ipost_weaken E Hlen Hfuel Hdec Hloc _).
Local Notation i_rest := (RoundTripLeaf.i_rest E Hlen Hfuel Hdec Hloc).
Local Notation i_comment := (RoundTripLeaf.i_comment E Hlen Hfuel Hdec Hloc).
Local Notation i_directive := (RoundTripInv.i_directive E Hlen Hfuel Hdec Hloc).
Local Notation win_slice := (RoundTripBase.win_slice E Hlen Hfuel Hdec Hloc).
Local Notation win_off := (RoundTripBase.win_off E Hlen Hfuel Hdec Hloc).
Local Notation inv_facts := (ScannerProofs.inv_facts E Hlen Hfuel Hdec).

Tactic Notation "istep" uconstr(L) "as" simple_intropattern(xpat) ident(s1) ident(HV) ident(Hle) simple_intropattern(HQ) :=
  eapply ipost_bind; [ eapply L; eauto | lia | intros xpat s1 HV Hle; cbv beta; intros HQ ].

Definition headQ (s : state) (ds : list directive) (s' : state) : Prop :=
  cur s' = eof /\ off s <= first_end t ds /\
  FL MHead (gap_hd t (off s) ds) (gap_tl t ds) (map (sem_of_directive t) ds).

Definition tailQ (od : option directive) (s1 : state) (r : list directive) (s' : state) : Prop :=
  exists ds, r = opt_cons od ds /\ cur s' = eof /\ off s1 <= first_end t ds /\
    exists W g0, gap_hd t (off s1) ds = W ++ g0 /\ wsl W /\
                 FL MNL g0 (gap_tl t ds) (map (sem_of_directive t) ds) /\
                 (cur s1 <> eof -> W ++ g0 <> []).

Lemma vinv_eof_len s : VInv s -> cur s = eof -> off s = e_len E.
Proof using All. intros (HI & _) Hc. now apply (inv_eof_len E Hlen Hfuel Hdec). Qed.

Lemma zlen_len : zlen t = e_len E.
Proof using Hlen. unfold zlen. now rewrite Hlen. Qed.

Lemma i_tail n od s1 :
  (forall s, VInv s -> ipost (headQ s) (off s) (file_loop E n s)) ->
  VInv s1 -> ipost (tailQ od s1) (off s1) (tail_m n od s1).
Proof using All.
  intros IH HV1. pose proof (inv_facts s1 (proj1 HV1)) as (H0 & _ & Hle & _).
  unfold tail_m, ifM, cur_is. destruct (Z.eqb_spec (cur s1) eof) as [Hc|Hc].
  - apply ipost_ret; [assumption|lia|]. exists []. split; [reflexivity|]. split; [assumption|].
    pose proof (vinv_eof_len s1 HV1 Hc) as Hend. cbn [first_end]. rewrite zlen_len. split; [lia|].
    exists [], []. unfold gap_hd. cbn [first_end gap_tl map]. rewrite zlen_len, Hend, slice_nil.
    split; [reflexivity|]. split; [constructor|]. split; [constructor|congruence].
  - istep i_rest as ? s2 HV2 L2 (W & HW & Hrl).
    destruct Hrl as [Hw|(Hw & Hc2)].
    + istep IH as ds s3 HV3 L3 (Heof & Hfe & HF).
      apply ipost_ret; [assumption|lia|]. exists ds. split; [reflexivity|]. split; [assumption|].
      pose proof (win_off s1 _ s2 (proj1 HV1) (proj1 HV2) Hw) as Ho.
      rewrite zlen_app, zlen_cons, zlen_nil in Ho. pose proof (zlen_nonneg W).
      split; [lia|]. exists W, (10 :: gap_hd t (off s2) ds).
      split; [|split; [assumption|split; [now constructor|intros _ Hn; apply app_eq_nil in Hn; destruct Hn; discriminate]]].
      unfold gap_hd. rewrite (slice_app t (off s1) (off s2) (first_end t ds)) by lia.
      rewrite (win_slice s1 _ s2 (proj1 HV1) (proj1 HV2) Hw), <- app_assoc. reflexivity.
    + (* blanks up to the end of the text *)
      pose proof (vinv_eof_len s2 HV2 Hc2) as Hend.
      pose proof (win_off s1 _ s2 (proj1 HV1) (proj1 HV2) Hw) as Ho.
      unfold bind at 1. destruct n as [|n]; [exact I|]. rewrite file_loop_S. unfold ifM at 1, cur_is at 1.
      rewrite Hc2, Z.eqb_refl. unfold ret at 1. unfold ret at 1.
      apply (RoundTripLeaf.ipost_ok E Hlen Hfuel Hdec Hloc); [assumption|lia|]. exists []. split; [reflexivity|]. split; [assumption|].
      cbn [first_end]. rewrite zlen_len. split; [lia|]. exists W, [].
      unfold gap_hd. cbn [first_end gap_tl map]. rewrite zlen_len, <- Hend.
      rewrite (win_slice s1 _ s2 (proj1 HV1) (proj1 HV2) Hw), app_nil_r.
      split; [reflexivity|]. split; [assumption|]. split; [constructor|].
      intros Hne Hn. subst W. rewrite zlen_nil in Ho.
      pose proof HV1 as ((_ & _ & [(Hce & _)|(Hlt & _)]) & _); [congruence|lia].
Qed.

Lemma cls_ws_notnl W : wsl W -> cls notnl W.
Proof using All.
  apply cls_impl. intros c Hc. unfold is_whitespace in Hc. unfold notnl, is_newline_or_eof, eof. lia.
Qed.

Lemma i_file_loop : forall n s, VInv s -> ipost (headQ s) (off s) (file_loop E n s).
Proof using All.
  induction n as [|n IH]; intros s HV; [exact I|].
  pose proof (inv_facts s (proj1 HV)) as (H0 & _ & Hle & _).
  rewrite file_loop_S. unfold ifM at 1, cur_is at 1. destruct (Z.eqb_spec (cur s) eof) as [Hc|Hc].
  { apply ipost_ret; [assumption|lia|]. unfold headQ. split; [assumption|].
    pose proof (vinv_eof_len s HV Hc) as Hend. cbn [first_end]. rewrite zlen_len. split; [lia|].
    unfold gap_hd. cbn [first_end gap_tl map]. rewrite zlen_len, Hend, slice_nil. constructor. }
  eapply ipost_bind with (Q1 := fun od s1 =>
    match od with
    | Some d => d_range d = mkRange (off s) (off s1) /\ off s < off s1 /\ LexDir (sem_of_directive t d)
    | None => (exists m body, In m markers /\ cls notnl body /\ Win s (m ++ body) s1) \/ s1 = s
    end); [|lia|].
  { unfold od_m, ifM. destruct ((cur s =? 42) || (cur s =? 35) || (cur s =? 47)).
    - istep i_comment as ? s1 HV1 L1 (m & body & Hm & Hb & Hw & _).
      apply ipost_ret; [assumption|lia|]. left. eauto.
    - destruct (is_alphanumeric E (cur s) || (cur s =? 64)).
      + istep i_directive as d s1 HV1 L1 Hd. apply ipost_ret; [assumption|lia|]. exact Hd.
      + apply ipost_ret; [assumption|lia|]. now right. }
  intros od s1 HV1 L1 Hod.
  eapply ipost_weaken; [apply (i_tail n od s1 IH HV1)|lia|].
  intros r s' _ _ (ds & -> & Heof & Hfe & W & g0 & Hg & HW & HF & Hne).
  destruct od as [d|]; cbn [opt_cons].
  - (* directive *)
    destruct Hod as (Hdr & Hlt & Hl).
    unfold headQ. split; [assumption|]. cbn [first_end map gap_tl]. rewrite Hdr. prj. split; [lia|].
    unfold gap_hd. cbn [first_end]. rewrite Hdr. prj. rewrite slice_nil, gaps_from_split.
    rewrite Hg. now apply FL_dir.
  - destruct Hod as [(m & body & Hm & Hb & Hw)| ->].
    + (* comment line *)
      unfold headQ. split; [assumption|]. split; [lia|].
      unfold gap_hd in *. rewrite (slice_app t (off s) (off s1) (first_end t ds)) by lia.
      rewrite (win_slice s _ s1 (proj1 HV) (proj1 HV1) Hw), Hg.
      replace ((m ++ body) ++ W ++ g0) with (m ++ (body ++ W) ++ g0) by now rewrite !app_assoc.
      apply FL_comment; [assumption| |assumption]. apply cls_app; [assumption|now apply cls_ws_notnl].
    + (* neither: a blank line *)
      unfold headQ. split; [assumption|]. split; [lia|]. rewrite Hg. apply FL_blank; auto.
Qed.

(* a successful run of the whole parser *)
Lemma i_parse_env f : parse_env E = ParseOk f ->
  exists ds, f_directives f = ds /\ FL MHead (gap_hd t 0 ds) (gap_tl t ds) (map (sem_of_directive t) ds).
Proof using All.
  unfold parse_env. destruct (advance E (init_state E)) as [u s|e s|] eqn:Ha; try discriminate.
  destruct (inv_advance_init E Hlen Hfuel Hdec Hloc u s Ha) as (HV & Ho).
  unfold parse_file, annot, bind.
  pose proof (i_file_loop (loop_fuel E) s HV) as Hf.
  destruct (file_loop E (loop_fuel E) s) as [ds s'|e s'|]; cbn [RoundTripLeaf.ipost] in Hf; try discriminate.
  unfold ret_with. intros H. inversion H. subst f. prj. exists ds. split; [reflexivity|].
  destruct Hf as (_ & _ & _ & _ & HF). now rewrite Ho in HF.
Qed.

(* ================================================================== construction *)

Hypothesis Hcls : class_ok (e_letter E) (e_digit E).

Local Notation At_cur := (RoundTripBase.At_cur E Hlen Hfuel Hdec Hloc).
Local Notation At_off := (RoundTripBase.At_off E Hlen Hfuel Hdec Hloc).
Local Notation rest_nl_cons := (RoundTripLeaf.rest_nl_cons E Hlen Hfuel Hdec Hloc).
Local Notation rest_eof_cons := (RoundTripLeaf.rest_eof_cons E Hlen Hfuel Hdec Hloc).
Local Notation comment_cons := (RoundTripLeaf.comment_cons E Hlen Hfuel Hdec Hloc).
Local Notation directive_cons := (RoundTripTrx.directive_cons E Hlen Hfuel Hdec Hloc Hcls).
Local Notation directive_start := (RoundTripTrx.directive_start E Hlen Hfuel Hdec Hloc Hcls).
Notation blankstart := (blankstart E).

Lemma render_all_nil pad ps : render_all dec pad [] = Some ps -> ps = [].
Proof using All. cbn [render_all]. congruence. Qed.

Lemma render_all_cons pad d ds ps : render_all dec pad (d :: ds) = Some ps ->
  exists x ps0, ps = x :: ps0 /\ render_sem dec pad d = Some x /\ render_all dec pad ds = Some ps0.
Proof using All.
  cbn [render_all]. destruct (render_sem dec pad d) as [x|]; [|discriminate].
  destruct (render_all dec pad ds) as [ps0|]; [|discriminate]. intros H. inversion H. eauto.
Qed.

(* what follows the blanks after a comment or a directive: a newline or the end *)
Lemma FL_MNL_next pad g gst ds ps : FL MNL g gst ds -> render_all dec pad ds = Some ps ->
  fr (weave (g :: gst) ps) = 10 \/ fr (weave (g :: gst) ps) = eof.
Proof using All.
  intros HF Hps. inversion HF; subst.
  - apply render_all_nil in Hps. subst ps. right. reflexivity.
  - left. rewrite weave_cons. cbn [app]. apply fr_ascii; [assumption|lia].
Qed.

Lemma blank_after pad W g gst ds ps : wsl W -> FL MNL g gst ds -> render_all dec pad ds = Some ps ->
  blankstart (W ++ weave (g :: gst) ps).
Proof using All.
  intros HW HF Hps. unfold RoundTripCons.blankstart.
  destruct W as [|b W'] eqn:HeqW.
  - cbn [app]. destruct (FL_MNL_next pad g gst ds ps HF Hps) as [-> | ->]; reflexivity.
  - rewrite <- HeqW in *. assert (Hne : W <> []) by (rewrite HeqW; discriminate).
    pose proof (wsl_first dec Hdec W (weave (g :: gst) ps) HW Hne) as Hin.
    unfold is_whitespace_or_newline, is_whitespace. cbn [In] in Hin. lia.
Qed.

Lemma file_loop_eof n s : At s [] -> file_loop E (S n) s = Ok [] s.
Proof using All.
  intros HA. rewrite file_loop_S. apply ifM_true; [|reflexivity]. unfold cur_is. now rewrite (At_cur s _ HA).
Qed.

Definition consP (md : mode) (g : str) (gst : list str) (ds : list sem_directive) : Prop :=
  match md with
  | MHead => forall pad ps n s, render_all dec pad ds = Some ps -> At s (weave (g :: gst) ps) ->
      (length (weave (g :: gst) ps) < n)%nat ->
      exists ds' s', file_loop E n s = Ok ds' s' /\ At s' [] /\ map (sem_of_directive t) ds' = ds /\
                     dranges (off s + zlen g) gst ps ds'
  | MNL => forall pad ps n s W od, render_all dec pad ds = Some ps -> wsl W -> At s (W ++ weave (g :: gst) ps) ->
      (length (W ++ weave (g :: gst) ps) <= n)%nat ->
      exists ds' s', tail_m n od s = Ok (opt_cons od ds') s' /\ At s' [] /\ map (sem_of_directive t) ds' = ds /\
                     dranges (off s + zlen W + zlen g) gst ps ds'
  end.

Lemma file_cons md g gst ds : FL md g gst ds -> consP md g gst ds.
Proof using All.
  induction 1 as [|d ds W g0 gst Hd HW HF IH|m body g0 gst ds Hm Hb HF IH|W g0 gst ds HW Hne HF IH| |g gst ds HF IH];
    cbn [consP] in *.
  - (* end of the text *)
    intros pad ps n s Hps HA Hn. apply render_all_nil in Hps. subst ps. cbn [weave app] in *.
    destruct n as [|n]; [lia|]. exists [], s. split; [now apply file_loop_eof|]. split; [assumption|].
    split; [reflexivity|]. cbn [dranges]. auto.
  - (* a directive *)
    intros pad ps n s Hps HA Hn. destruct (render_all_cons pad d ds ps Hps) as (x & ps0 & -> & Hx & Hps0).
    rewrite weave_cons in HA, Hn. cbn [app] in HA, Hn. rewrite weave_shift in HA, Hn.
    assert (HA' : At s (x ++ W ++ weave (g0 :: gst) ps0)) by exact HA. clear HA. rename HA' into HA.
    assert (Hn' : (length (x ++ W ++ weave (g0 :: gst) ps0) < n)%nat) by exact Hn. clear Hn. rename Hn' into Hn.
    destruct n as [|n]; [lia|].
    pose proof (blank_after pad W g0 gst ds ps0 HW HF Hps0) as Hbl.
    destruct (directive_cons pad d x _ s Hx HA Hd Hbl) as (d' & s1 & H1 & A1 & Hr1 & S1).
    destruct (directive_start pad d x (W ++ weave (g0 :: gst) ps0) Hx Hd) as (Hne & Hnm & Hal).
    pose proof (At_off s x _ s1 HA A1) as O1.
    assert (Hx1 : 1 <= zlen x).
    { destruct x as [|b x]; [|rewrite zlen_cons; pose proof (zlen_nonneg x); lia]. exfalso. cbn [app] in *.
      unfold RoundTripCons.blankstart, is_whitespace_or_newline, is_newline, is_whitespace in Hbl.
      destruct Hal as [Ha|H64]; [|lia].
      pose proof (alnum_not_sep letter digit Hcls _ Ha) as Hns. cbn [In] in Hns. lia. }
    destruct (IH pad ps0 n s1 W (Some d') Hps0 HW A1) as (ds' & s' & H2 & A' & S2 & D2).
    { assert (Hx2 : (1 <= length x)%nat) by (destruct x; [rewrite zlen_nil in Hx1; lia|cbn [length]; lia]).
      rewrite app_length in Hn. lia. }
    exists (d' :: ds'), s'. split; [|split; [assumption|split; [cbn [map]; now rewrite S1, S2|]]].
    + rewrite file_loop_S. apply ifM_false. { unfold cur_is. rewrite (At_cur s _ HA). now apply Z.eqb_neq. }
      eapply bind_ok; [|exact H2]. unfold od_m. apply ifM_false.
      { rewrite (At_cur s _ HA). cbn [In] in Hnm. lia. }
      apply ifM_true. { rewrite (At_cur s _ HA). unfold is_alphanumeric. unfold RoundTripLeaf.alnum in Hal. lia. }
      run H1. reflexivity.
    + cbn [dranges]. rewrite zlen_nil, Z.add_0_r. split; [rewrite Hr1; f_equal; lia|].
      rewrite zlen_app. replace (off s + zlen x + (zlen W + zlen g0)) with (off s1 + zlen W + zlen g0) by lia. exact D2.
  - (* a comment line *)
    intros pad ps n s Hps HA Hn.
    replace (m ++ body ++ g0) with ((m ++ body) ++ g0) in HA, Hn by now rewrite app_assoc.
    rewrite weave_shift in HA, Hn. rewrite <- app_assoc in HA.
    assert (HA' : At s (m ++ body ++ weave (g0 :: gst) ps)) by exact HA. clear HA. rename HA' into HA.
    assert (Hn' : (length ((m ++ body) ++ weave (g0 :: gst) ps) < n)%nat) by exact Hn. clear Hn. rename Hn' into Hn.
    destruct n as [|n]; [lia|].
    destruct (comment_cons m body s _ HA Hm Hb (FL_MNL_next pad g0 gst ds ps HF Hps)) as (rg & s1 & H1 & A1).
    assert (HA1 : At s1 ([] ++ weave (g0 :: gst) ps)) by exact A1.
    assert (HAm : At s ((m ++ body) ++ weave (g0 :: gst) ps)) by (rewrite <- app_assoc; exact HA).
    pose proof (At_off s _ _ s1 HAm A1) as O1.
    assert (Hm1 : 1 <= zlen m).
    { unfold markers in Hm. cbn [In] in Hm. destruct Hm as [<-|[<-|[<-|[]]]]; vm_compute; discriminate. }
    destruct (IH pad ps n s1 [] None Hps (cls_nil) HA1) as (ds' & s' & H2 & A' & S2 & D2).
    { cbn [app]. rewrite !app_length in Hn. unfold zlen in Hm1. lia. }
    exists ds', s'. split; [|split; [assumption|split; [assumption|]]].
    + rewrite file_loop_S. apply ifM_false.
      { unfold cur_is. rewrite (At_cur s _ HA). unfold markers in Hm. cbn [In] in Hm.
        destruct Hm as [<-|[<-|[<-|[]]]]; unfold kw_star, kw_slashes, kw_hash; cbn [app]; rewrite (fr_ascii dec Hdec) by lia; reflexivity. }
      eapply bind_ok; [|exact H2]. unfold od_m. apply ifM_true.
      { rewrite (At_cur s _ HA). unfold markers in Hm. cbn [In] in Hm.
        destruct Hm as [<-|[<-|[<-|[]]]]; unfold kw_star, kw_slashes, kw_hash; cbn [app]; rewrite (fr_ascii dec Hdec) by lia; reflexivity. }
      run H1. reflexivity.
    + rewrite zlen_nil in D2.
      replace (off s + zlen (m ++ body ++ g0)) with (off s1 + 0 + zlen g0); [exact D2|rewrite O1, !zlen_app; lia].
  - (* a blank line *)
    intros pad ps n s Hps HA Hn. rewrite weave_shift in HA, Hn.
    assert (HA' : At s (W ++ weave (g0 :: gst) ps)) by exact HA. clear HA. rename HA' into HA.
    assert (Hn' : (length (W ++ weave (g0 :: gst) ps) < n)%nat) by exact Hn. clear Hn. rename Hn' into Hn.
    destruct n as [|n]; [lia|].
    assert (Hcur : In (fr (W ++ weave (g0 :: gst) ps)) [32; 9; 13; 10]).
    { destruct W as [|b W'] eqn:HeqW.
      - cbn [app] in *. inversion HF; subst; [congruence|]. rewrite weave_cons. cbn [app].
        rewrite (fr_ascii dec Hdec 10 _) by lia. cbn [In]. auto.
      - rewrite <- HeqW in *. assert (HWne : W <> []) by (rewrite HeqW; discriminate).
        pose proof (wsl_first dec Hdec W (weave (g0 :: gst) ps) HW HWne) as Hin. cbn [In] in *. lia. }
    destruct (IH pad ps n s W None Hps HW HA) as (ds' & s' & H2 & A' & S2 & D2). { apply Nat.lt_succ_r. exact Hn. }
    exists ds', s'. split; [|split; [assumption|split; [assumption|]]].
    + rewrite file_loop_S. apply ifM_false.
      { unfold cur_is. rewrite (At_cur s _ HA). cbn [In] in Hcur. unfold eof. lia. }
      eapply bind_ok; [|exact H2]. unfold od_m. apply ifM_false.
      { rewrite (At_cur s _ HA). cbn [In] in Hcur. lia. }
      apply ifM_false; [|reflexivity].
      rewrite (At_cur s _ HA).
      assert (Hna : is_alphanumeric E (fr (W ++ weave (g0 :: gst) ps)) = false).
      { destruct (is_alphanumeric E (fr (W ++ weave (g0 :: gst) ps))) eqn:Ha; [|reflexivity].
        exfalso. apply (alnum_not_sep letter digit Hcls _ Ha). cbn [In] in *. lia. }
      rewrite Hna. cbn [In] in Hcur. lia.
    + rewrite zlen_app. replace (off s + (zlen W + zlen g0)) with (off s + zlen W + zlen g0) by lia. exact D2.
  - (* blanks, then the end of the text *)
    intros pad ps n s W od Hps HW HA Hn. apply render_all_nil in Hps. subst ps. cbn [weave app] in *.
    rewrite app_nil_r in HA, Hn.
    destruct W as [|b W'] eqn:HeqW.
    + exists [], s. split; [|split; [assumption|split; [reflexivity|cbn [dranges]; auto]]].
      unfold tail_m. apply ifM_true; [|reflexivity]. unfold cur_is. now rewrite (At_cur s _ HA).
    + rewrite <- HeqW in *. assert (HWne : W <> []) by (rewrite HeqW; discriminate).
      destruct (rest_eof_cons W s HA HW) as (rg & s1 & H1 & A1).
      destruct n as [|n]; [rewrite HeqW in Hn; cbn [length] in Hn; lia|].
      exists [], s1. split; [|split; [assumption|split; [reflexivity|cbn [dranges]; auto]]].
      unfold tail_m. apply ifM_false.
      { unfold cur_is. rewrite (At_cur s _ HA). rewrite <- (app_nil_r W).
        pose proof (wsl_first dec Hdec W [] HW HWne) as Hin. cbn [In] in Hin. unfold eof. lia. }
      run H1. eapply bind_ok; [apply (file_loop_eof n s1 A1)|reflexivity].
  - (* blanks, newline *)
    intros pad ps n s W od Hps HW HA Hn.
    change (10 :: g) with ([10] ++ g) in HA, Hn. rewrite weave_shift in HA, Hn. cbn [app] in HA, Hn.
    assert (HA' : At s (W ++ 10 :: weave (g :: gst) ps)) by exact HA. clear HA. rename HA' into HA.
    assert (Hn' : (length (W ++ 10%Z :: weave (g :: gst) ps) <= n)%nat) by exact Hn. clear Hn. rename Hn' into Hn.
    destruct (rest_nl_cons W s _ HA HW) as (rg & s1 & H1 & A1).
    assert (HA2 : At s ((W ++ [10]) ++ weave (g :: gst) ps)) by (rewrite <- app_assoc; exact HA).
    pose proof (At_off s _ _ s1 HA2 A1) as O1. rewrite zlen_app, zlen_cons, zlen_nil in O1.
    destruct (IH pad ps n s1 Hps A1) as (ds' & s' & H2 & A' & S2 & D2).
    { rewrite app_length in Hn. cbn [length] in Hn. lia. }
    exists ds', s'. split; [|split; [assumption|split; [assumption|]]].
    + unfold tail_m. apply ifM_false.
      { unfold cur_is. rewrite (At_cur s _ HA).
        destruct W as [|b W'] eqn:HeqW.
        - cbn [app]. rewrite (fr_ascii dec Hdec 10 _) by lia. reflexivity.
        - rewrite <- HeqW in *. assert (HWne : W <> []) by (rewrite HeqW; discriminate).
          pose proof (wsl_first dec Hdec W (10 :: weave (g :: gst) ps) HW HWne) as Hin. cbn [In] in Hin. unfold eof. lia. }
      run H1. run H2. reflexivity.
    + rewrite zlen_cons. replace (off s + zlen W + (1 + zlen g)) with (off s1 + zlen g) by lia. exact D2.
Qed.

(* the first Advance succeeds on a valid text *)
Lemma init_cons : runs dec t -> exists s0, advance E (init_state E) = Ok tt s0 /\ At s0 t.
Proof using Hlen Hfuel Hdec Hloc.
  intros Hr.
  assert (Hok : exists s0, advance E (init_state E) = Ok tt s0).
  { unfold advance, init_state. cbn [off clen cur rest]. cbn [Z.to_nat skipn]. rewrite Z.add_0_l.
    destruct Hr as [|c b r Hc Hr'].
    - assert (He : e_len E = 0) by (rewrite Hlen; reflexivity). rewrite He. cbn. eauto.
    - pose proof (chunk_len dec c b Hc) as Hb.
      assert (He : (0 =? e_len E) = false).
      { apply Z.eqb_neq. rewrite Hlen, app_length. unfold zlen in Hb. lia. }
      rewrite He. cbn [andb]. destruct Hc as (_ & Hx & Hv). rewrite (Hx r).
      destruct (Z.eqb_spec c rune_error) as [Hce|Hce]; [|eauto].
      destruct (Z.eqb_spec (zlen b) 0) as [Hw0|Hw0]; [lia|].
      destruct (Z.eqb_spec (zlen b) 1) as [Hw1|Hw1]; [tauto|eauto]. }
  destruct Hok as (s0 & H). exists s0. split; [assumption|]. now apply (At_init E Hlen Hfuel Hdec Hloc tt s0 H).
Qed.

Theorem parse_woven pad g gst ds ps :
  FL MHead g gst ds -> render_all dec pad ds = Some ps -> t = weave (g :: gst) ps ->
  exists f, parse_env E = ParseOk f /\ sem t f = ds /\ gaps t f = g :: gst.
Proof using All.
  intros HF Hps Ht.
  assert (Hruns : runs dec t) by (rewrite Ht; eapply FL_runs; eauto).
  destruct (init_cons Hruns) as (s0 & H0 & A0).
  pose proof (file_cons MHead g gst ds HF) as Hc. cbn [consP] in Hc.
  assert (Ho0 : off s0 = 0).
  { pose proof (RoundTripBase.At_len E Hlen Hfuel Hdec Hloc s0 t A0) as HL. rewrite zlen_len in HL. lia. }
  assert (A0' : At s0 (weave (g :: gst) ps)) by (rewrite <- Ht; exact A0).
  destruct (Hc pad ps (loop_fuel E) s0 Hps A0') as (ds' & s' & H1 & A' & S1 & D1).
  { rewrite <- Ht. unfold loop_fuel. lia. }
  eexists. split; [|split].
  - unfold parse_env. rewrite H0. unfold parse_file, annot, bind. rewrite H1. unfold ret_with. reflexivity.
  - unfold sem. prj. exact S1.
  - unfold gaps. prj. change 0 with (zlen (@nil Z)). apply (gaps_of_dranges t ds' [] g gst ps).
    + exact Ht.
    + rewrite Ho0 in D1. rewrite zlen_nil. exact D1.
Qed.

End WithEnv.

(* ================================================================== the theorem *)

Theorem roundtrip letter digit t f out :
  class_ok letter digit ->
  parse_text letter digit t = ParseOk f -> format_text letter digit t f = FOk out ->
  exists f', parse_text letter digit out = ParseOk f' /\ sem out f' = sem t f /\ gaps out f' = gaps t f.
Proof.
  intros Hcls Hp Hf.
  pose proof (format_text_render letter digit t f out Hf) as Hr.
  set (E1 := mk_env Utf8M.decode letter digit t).
  assert (Hfuel1 : (length (e_text E1) < e_fuel E1)%nat) by (cbn [E1 mk_env e_text e_fuel]; lia).
  destruct (i_parse_env E1 eq_refl Hfuel1 utf8_decoder_ok utf8_decoder_local f Hp) as (ds & Hds & HF).
  unfold render in Hr.
  destruct (render_all Utf8M.decode (pad_of_sem Utf8M.decode 0 (sem t f)) (sem t f)) as [ps|] eqn:Hps; [|discriminate].
  assert (Hout : weave (gaps t f) ps = out) by congruence. clear Hr.
  unfold gaps in Hout. rewrite Hds, gaps_from_split in Hout.
  set (E2 := mk_env Utf8M.decode letter digit out).
  assert (Hfuel2 : (length (e_text E2) < e_fuel E2)%nat) by (cbn [E2 mk_env e_text e_fuel]; lia).
  destruct (parse_woven E2 eq_refl Hfuel2 utf8_decoder_ok utf8_decoder_local Hcls
              (pad_of_sem Utf8M.decode 0 (sem t f)) (gap_hd t 0 ds) (gap_tl t ds) (sem t f) ps)
    as (f' & Hp' & Hs' & Hg').
  - unfold sem. rewrite Hds. exact HF.
  - exact Hps.
  - symmetry. exact Hout.
  - exists f'. split; [exact Hp'|]. split; [exact Hs'|]. change (gaps (e_text E2) f' = gaps t f). rewrite Hg'. unfold gaps. rewrite Hds. symmetry. apply gaps_from_split.
Qed.
