(* C13: a revolut2 import of several files is the concatenation of the imports of the files *)
From Coq Require Import ZArith List Bool.
From Knut Require Import Model.Str Model.Dec Model.Date Model.Account Model.Ledger Model.ImpCommonA
     Model.ImpCommonB Model.Imp.Revolut2 Model.Imp.Revolut2Files.
Import ListNotations.

Lemma revolut2_files_concat : forall a f files dss,
  Forall2 (fun file ds => import_revolut2 a f file = MOk ds) files dss ->
  import_revolut2_files a f files = MOk (concat dss).
Proof.
  intros a f files dss H. induction H as [|file ds files dss Hfile _ IH]; cbn [import_revolut2_files concat].
  - reflexivity.
  - rewrite Hfile. cbn [mbind]. rewrite IH. cbn [mbind]. reflexivity.
Qed.

Lemma revolut2_files_error : forall a f pre file post dss e,
  Forall2 (fun file ds => import_revolut2 a f file = MOk ds) pre dss ->
  import_revolut2 a f file = MErr e ->
  import_revolut2_files a f (pre ++ file :: post) = MErr e.
Proof.
  intros a f pre file post dss e H He. induction H as [|x ds pre dss Hx _ IH]; cbn [app import_revolut2_files].
  - rewrite He. reflexivity.
  - rewrite Hx. cbn [mbind]. rewrite IH. reflexivity.
Qed.
