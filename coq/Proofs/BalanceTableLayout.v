(* C02, table level, part 1: the rows of the table that render_report builds are
   Spec.BalanceTableSpec.report_table_rows -- for every report, every render configuration
   (valued or not, --show-commodities or not) and every list of dates. *)
From Coq Require Import ZArith List Bool Lia.
From Knut Require Import Model.Str Model.Dec Model.Date Model.Account Model.Ledger Model.Table Model.Report
     Spec.BalanceTableSpec Proofs.ReportSum Proofs.ReportTableProofs.
Import ListNotations.
Open Scope bool_scope.
Open Scope Z_scope.

Definition app_rows (t : table) (rows : list (list cell)) : table := mkTable (t_columns t) (t_rows t ++ rows).

Lemma app_rows_nil t : app_rows t [] = t.
Proof. destruct t as [c r]. unfold app_rows. cbn [t_columns t_rows]. rewrite app_nil_r. reflexivity. Qed.

Lemma app_rows_app t a b : app_rows (app_rows t a) b = app_rows t (a ++ b).
Proof. unfold app_rows. cbn [t_columns t_rows]. rewrite <- app_assoc. reflexivity. Qed.

Lemma app_rows_width t a : t_width (app_rows t a) = t_width t.
Proof. reflexivity. Qed.

Lemma add_row_app_rows t r : add_row t r = app_rows t [r].
Proof. reflexivity. Qed.

Lemma fold_add_row_app_rows rows : forall t, fold_left add_row rows t = app_rows t rows.
Proof.
  induction rows as [|r rows IH]; intros t; cbn [fold_left]; [symmetry; apply app_rows_nil|].
  rewrite IH, add_row_app_rows, app_rows_app. reflexivity.
Qed.

Lemma tw_report_width rc dates : tw rc dates = report_width rc dates.
Proof. reflexivity. Qed.

Lemma render_amounts_layout rc t dates indent name neg_ vals :
  t_width t = tw rc dates ->
  render_amounts rc t dates indent name neg_ vals = app_rows t (line_rows rc dates indent name neg_ vals).
Proof.
  intros Hw. unfold render_amounts, line_rows. destruct vals as [|kv vals].
  - rewrite add_row_app_rows. unfold fill_empty. rewrite Hw. cbn [length app]. reflexivity.
  - apply fold_add_row_app_rows.
Qed.

Lemma blocks_rows_cons x l : blocks_rows (x :: l) = snd x ++ blocks_rows l.
Proof. reflexivity. Qed.

Lemma blocks_rows_app a b : blocks_rows (a ++ b) = blocks_rows a ++ blocks_rows b.
Proof. unfold blocks_rows. rewrite map_app, concat_app. reflexivity. Qed.

Lemma render_node_layout rc dates neg_ : forall n indent t,
  t_width t = tw rc dates ->
  render_node rc dates indent neg_ t n = app_rows t (blocks_rows (node_blocks rc dates indent neg_ n)).
Proof.
  induction n as [s p hv a ch IH] using node_ind_size. intros indent t Hw.
  cbn [render_node node_blocks]. rewrite blocks_rows_cons. cbn [snd].
  fold (show_of rc p). fold (shown_vals rc p a).
  set (own := match s with [] => [] | _ => line_rows rc dates indent s neg_ (shown_vals rc p a) end).
  assert (H1 : match s with [] => t | _ => render_amounts rc t dates indent s neg_ (shown_vals rc p a) end = app_rows t own).
  { unfold own. destruct s; [symmetry; apply app_rows_nil|]. apply render_amounts_layout. exact Hw. }
  rewrite H1. rewrite <- app_rows_app.
  assert (Hw1 : t_width (app_rows t own) = tw rc dates) by (rewrite app_rows_width; exact Hw).
  clear H1. remember (app_rows t own) as t1 eqn:Et1. clear Et1 Hw own t.
  rename t1 into t, Hw1 into Hw. revert t Hw.
  induction IH as [|c ch Hc _ IHch]; intros t Hw; cbn [fold_left flat_map]; [symmetry; apply app_rows_nil|].
  rewrite blocks_rows_app, <- app_rows_app. rewrite (Hc (indent + 2) t Hw).
  apply IHch. rewrite app_rows_width. exact Hw.
Qed.

Lemma section_layout rc dates neg_ : forall tops t,
  t_width t = tw rc dates ->
  fold_left (fun t n => add_empty_row (render_node rc dates 0 neg_ t n)) tops t
  = app_rows t (section_rows rc dates neg_ tops).
Proof.
  induction tops as [|top tops IH]; intros t Hw; cbn [fold_left]; [symmetry; apply app_rows_nil|].
  unfold section_rows. cbn [map concat]. fold (section_rows rc dates neg_ tops).
  rewrite render_node_layout by exact Hw.
  unfold add_empty_row. rewrite add_row_app_rows, app_rows_width, Hw, app_rows_app.
  rewrite IH by (rewrite app_rows_width; exact Hw).
  rewrite app_rows_app. reflexivity.
Qed.

Lemma add_separator_row_layout t w : t_width t = w -> add_separator_row t = app_rows t [repeat CSep w].
Proof. intros <-. reflexivity. Qed.

Lemma table_new_width rc (dates : list Z) :
  t_width (if draw_comms rc then table_new [1; 1; Z.of_nat (length dates)] else table_new [1; Z.of_nat (length dates)])
  = tw rc dates.
Proof.
  unfold tw. destruct (draw_comms rc); unfold table_new, t_width; cbn [t_columns];
    rewrite columns_of_length by (repeat constructor; lia); cbn [fold_right]; lia.
Qed.

Lemma table_new_rows rc (dates : list Z) :
  t_rows (if draw_comms rc then table_new [1; 1; Z.of_nat (length dates)] else table_new [1; Z.of_nat (length dates)]) = [].
Proof. destruct (draw_comms rc); reflexivity. Qed.

(* the rows of the table are the laid-out blocks *)
Theorem render_report_layout rc r dates :
  t_rows (render_report rc r dates) = report_table_rows rc r dates.
Proof.
  unfold render_report, report_table_rows.
  fold (sorted_al rc r). fold (sorted_eie rc r). fold (total_key rc).
  set (al := sorted_al rc r). set (eie := sorted_eie rc r).
  set (t0 := if draw_comms rc then table_new [1; 1; Z.of_nat (length dates)] else table_new [1; Z.of_nat (length dates)]).
  pose proof (table_new_width rc dates) as Hw0. fold t0 in Hw0.
  pose proof (table_new_rows rc dates) as Hr0. fold t0 in Hr0.
  set (w := tw rc dates) in *.
  fold (header_cells rc dates).
  rewrite (add_separator_row_layout t0 w Hw0).
  rewrite add_row_app_rows, app_rows_app.
  rewrite (add_separator_row_layout (app_rows t0 _) w Hw0), app_rows_app.
  rewrite (section_layout rc dates false (n_children al) (app_rows t0 _) Hw0), app_rows_app.
  rewrite (render_amounts_layout rc (app_rows t0 _) dates 0 s_TotalAL false _ Hw0), app_rows_app.
  rewrite (add_separator_row_layout (app_rows t0 _) w Hw0), app_rows_app.
  rewrite (section_layout rc dates true (n_children eie) (app_rows t0 _) Hw0), app_rows_app.
  rewrite (render_amounts_layout rc (app_rows t0 _) dates 0 s_TotalEIE true _ Hw0), app_rows_app.
  rewrite (add_separator_row_layout (app_rows t0 _) w Hw0), app_rows_app.
  rewrite (render_amounts_layout rc (app_rows t0 _) dates 0 s_Delta false _ Hw0), app_rows_app.
  rewrite (add_separator_row_layout (app_rows t0 _) w Hw0), app_rows_app.
  unfold app_rows. cbn [t_rows]. rewrite Hr0. cbn [app].
  repeat rewrite <- app_assoc. reflexivity.
Qed.
