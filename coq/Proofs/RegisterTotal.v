(* `knut register` (Model/Register.v) never panics -- except through a -m rule of level 0: such a
   rule makes account.Shorten return nil for the Dest account, the key is inserted with Other = nil
   and Renderer.Render dereferences it (finding C06-register-hidden-dest-panic).  Without such a
   rule every key of the report has a Dest account and the command returns bytes or an error. *)
From Coq Require Import ZArith List Bool Lia Permutation.
From Knut Require Import Model.Str Model.Dec Model.Date Model.Account Model.Ledger Model.Price Model.Journal
     Model.Check Model.Pipeline Model.Table Model.Report Model.Cli Model.Loader Model.CliSafe Model.Register
     Spec.FailSpec Proofs.OrderProofs Proofs.OrderStages Proofs.OrderPipeline Proofs.NoPanic Proofs.NoPanicMore.
Import ListNotations.
Open Scope bool_scope.
Open Scope Z_scope.

(* no -m rule hides accounts *)
Definition mapping_shows (m : list rule) : bool := forallb (fun r => negb (r_level r =? 0)) m.

Lemma shorten_not_hidden m a : mapping_shows m = true -> shorten m a <> ShHidden.
Proof.
  intros Hm. unfold shorten. destruct m as [|r m']; [discriminate|].
  destruct (mapping_level (r :: m') (acc_name a)) as [[l sf]|] eqn:El; [|discriminate].
  destruct (mapping_level_in _ _ _ _ El) as (r0 & Hin & Hl & _).
  unfold mapping_shows in Hm. rewrite forallb_forall in Hm. specialize (Hm r0 Hin). rewrite Hl in Hm.
  destruct (l =? 0); [discriminate|].
  destruct (acc_level a <=? sf); [discriminate|]. destruct (acc_level a - sf <? l); [discriminate|].
  destruct ((l <? 0) || (sf <? 0)); discriminate.
Qed.

(* every key of the report has a Dest account *)
Definition reg_shown (r : reg_report) : Prop := forall k x, In (k, x) r -> rk_other (fst x) <> None.

Lemma reg_shown_hidden r : reg_shown r -> reg_hidden r = false.
Proof.
  intros H. unfold reg_hidden. apply not_true_is_false. intros E. apply existsb_exists in E.
  destruct E as ([k x] & Hin & Hx). cbn [snd] in Hx. specialize (H k x Hin).
  destruct (rk_other (fst x)); [discriminate|contradiction].
Qed.

Lemma reg_add_shown r k v : rk_other k <> None -> reg_shown r -> reg_shown (reg_add r k v).
Proof.
  intros Hk Hr k0 x Hin. unfold reg_add in Hin. apply sm_put_in in Hin. destruct Hin as [E|Hin].
  - inversion E; subst. exact Hk.
  - eapply Hr. exact Hin.
Qed.

Section Query.
  Variable q : reg_query.
  Hypothesis Hq : forall a, rq_other q a <> ShHidden.

  Lemma reg_query_posting_shown r t p r' p' :
    reg_shown r -> reg_query_posting q r t p = ROk (r', p') -> p' = p /\ reg_shown r'.
  Proof.
    intros Hr H. unfold reg_query_posting in H. destruct (rq_where q p); [|inversion H; subst; auto].
    destruct (rq_other q (p_other p)) as [a| |] eqn:E; try discriminate.
    - inversion H; subst. split; [reflexivity|]. apply reg_add_shown; [discriminate|exact Hr].
    - exfalso. exact (Hq _ E).
  Qed.

  Lemma reg_query_day_shown r1 r2 d1 d2 :
    r1 = r2 /\ reg_shown r1 -> d1 = d2 ->
    req (fun a b => (fst a = fst b /\ reg_shown (fst a)) /\ True)
        (process_day (reg_query_proc q) r1 d1) (process_day (reg_query_proc q) r2 d2).
  Proof.
    intros [<- Hr] <-.
    unfold process_day. cbn [reg_query_proc pr_day_start pr_price pr_open pr_close pr_day_end rbind fst snd].
    destruct (fold_txns (reg_query_proc q) r1 (d_txns d1)) as [[r' ts']| |] eqn:E; cbn [rbind req]; try exact I.
    destruct (fold_txns_out (reg_query_proc q) (reg_query_posting q) reg_shown (fun x => x) eq_refl eq_refl)
      with (ts := d_txns d1) (s := r1) (s' := r') (ts' := ts') as [_ Hr']; auto.
    { intros s t x s' x' Hs H. eapply reg_query_posting_shown; eassumption. }
    cbn [fst snd]. rewrite !fold_asserts_none by reflexivity. cbn [rbind req fst snd]. auto.
  Qed.

  Lemma reg_query_stage_shown l r' l' :
    process_days (reg_query_proc q) new_reg_report l = ROk (r', l') -> reg_shown r'.
  Proof.
    intros E.
    pose proof (process_days_rel (reg_query_proc q) (fun a b => a = b /\ reg_shown a) eq (fun _ _ => True)
                  reg_query_day_shown l l) as H.
    assert (HF : Forall2 eq l l) by (clear; induction l; constructor; auto).
    specialize (H HF new_reg_report new_reg_report).
    assert (H0 : new_reg_report = new_reg_report /\ reg_shown new_reg_report) by (split; [reflexivity|intros k x []]).
    specialize (H H0). rewrite E in H. cbn [req fst] in H. apply H.
  Qed.
End Query.

Lemma reg_query_proc_safe q : (forall a, rq_other q a <> ShPanic) -> proc_safe (reg_query_proc q).
Proof.
  intros Hq.
  unfold proc_safe, reg_query_proc. cbn [pr_day_start pr_price pr_open pr_txn pr_posting pr_balance pr_close pr_day_end].
  repeat split; some_inv.
  intros s t x. unfold reg_query_posting.
  destruct (rq_where q x); [|apply np_ok].
  destruct (rq_other q (p_other x)) eqn:E; [apply np_ok|apply np_ok|].
  exfalso. exact (Hq _ E).
Qed.

Lemma register_flags_np cfg : cnp (register_flags cfg).
Proof.
  unfold register_flags. destruct (mapping_flag_ok (rg_mapping cfg)); cbn [negb]; [|apply cnp_err].
  destruct (rg_valuation cfg) as [v|]; [destruct (valid_commodity v); [apply cnp_ok|apply cnp_err]|apply cnp_ok].
Qed.

Lemma rg_partition_np cfg b : cnp (rg_partition cfg b).
Proof. apply cfg_partition_safe_np. Qed.

Lemma register_days_of_np cfg b : cnp (register_days_of cfg b).
Proof.
  unfold register_days_of.
  apply cbind_np; [apply rg_partition_np|]. intros part.
  apply cbind_np; [apply run_stage_np, sort_proc_safe|]. intros r0.
  apply cbind_np.
  { destruct (rg_valuation cfg) as [v|]; [|apply cnp_ok].
    apply cbind_np; [apply compute_prices_stage_np|]. intros r1. apply cnp_ok. }
  intros days. apply cbind_np; [apply run_stage_np, check_proc_current_safe|]. intros r2.
  apply cbind_np.
  { destruct (rg_valuation cfg) as [v|]; [|apply cnp_ok].
    apply cbind_np; [apply run_stage_np, valuate_proc_safe|]. intros r3. apply cnp_ok. }
  intros days2. apply cbind_np; [apply run_stage_np, filter_proc_safe|]. intros r4. apply cnp_ok.
Qed.

(* up to the report the command never panics, whatever the mapping (flags are checked first) *)
Lemma register_report_of_np cfg b : mapping_flag_ok (rg_mapping cfg) = true -> cnp (register_report_of cfg b).
Proof.
  intros Emf. unfold register_report_of.
  apply cbind_np; [apply register_days_of_np|]. intros dp.
  apply cbind_np; [|intros r5; apply cnp_ok].
  apply run_stage_np, reg_query_proc_safe. intros a. cbn [register_query rq_other].
  apply shorten_np. rewrite <- mapping_flag_ok_eq. exact Emf.
Qed.

Theorem register_report_np cfg ds : cnp (register_report cfg ds).
Proof.
  unfold register_report, register_with, register_flags.
  destruct (mapping_flag_ok (rg_mapping cfg)) eqn:Emf; cbn [negb]; [|cbn [cbind]; apply cnp_err].
  apply cbind_np.
  { destruct (rg_valuation cfg) as [v|]; [destruct (valid_commodity v); [apply cnp_ok|apply cnp_err]|apply cnp_ok]. }
  intros _. apply cbind_np; [apply load_safe_np|]. intros b. apply register_report_of_np. exact Emf.
Qed.

(* the report of a command without a level-0 rule has a Dest account in every key *)
Lemma register_report_of_shown cfg b r :
  mapping_shows (rg_mapping cfg) = true -> register_report_of cfg b = COk r -> reg_shown r.
Proof.
  intros Hm H. unfold register_report_of in H.
  destruct (register_days_of cfg b) as [dp| |]; cbn [cbind] in H; try discriminate.
  unfold run_stage in H.
  destruct (process_days (reg_query_proc (register_query cfg (snd dp))) new_reg_report (fst dp)) as [[r' l']| |] eqn:E;
    cbn [of_presult cbind fst] in H; try discriminate.
  inversion H; subst. eapply reg_query_stage_shown; [|exact E].
  intros a. cbn [register_query rq_other]. apply shorten_not_hidden. exact Hm.
Qed.

Lemma register_table_of_np cfg b :
  mapping_flag_ok (rg_mapping cfg) = true -> mapping_shows (rg_mapping cfg) = true -> cnp (register_table_of cfg b).
Proof.
  intros Emf Hm. unfold register_table_of.
  destruct (register_report_of cfg b) as [r| |] eqn:E; cbn [cbind].
  - unfold reg_render. rewrite (reg_shown_hidden r (register_report_of_shown cfg b r Hm E)). apply cnp_ok.
  - apply cnp_err.
  - exfalso. exact (register_report_of_np cfg b Emf _ E).
Qed.

Theorem register_total cfg tc ds :
  mapping_shows (rg_mapping cfg) = true ->
  cnp (register_table cfg ds) /\ cnp (register_text cfg tc ds).
Proof.
  intros Hm.
  assert (T : forall R (k : builder -> cresult R),
             (mapping_flag_ok (rg_mapping cfg) = true -> forall b, cnp (k b)) -> cnp (register_with cfg k ds)).
  { intros R k Hk. unfold register_with, register_flags.
    destruct (mapping_flag_ok (rg_mapping cfg)) eqn:Emf; cbn [negb]; [|cbn [cbind]; apply cnp_err].
    apply cbind_np.
    { destruct (rg_valuation cfg) as [v|]; [destruct (valid_commodity v); [apply cnp_ok|apply cnp_err]|apply cnp_ok]. }
    intros _. apply cbind_np; [apply load_safe_np|]. intros b. apply Hk. reflexivity. }
  split.
  - apply T. intros Emf b. apply register_table_of_np; assumption.
  - apply T. intros Emf b. unfold register_text_of.
    apply cbind_np; [apply register_table_of_np; assumption|]. intros t. apply cnp_ok.
Qed.

(* the only panic of the command is the nil Dest account *)
Theorem register_panic_is_nil_account cfg tc ds m :
  register_text cfg tc ds = CPanic m -> m = k_nil_account /\ mapping_shows (rg_mapping cfg) = false.
Proof.
  intros H. split.
  - unfold register_text, register_with in H.
    destruct (register_flags cfg) eqn:Ef; cbn [cbind] in H; try discriminate.
    2: { exfalso. exact (register_flags_np cfg _ Ef). }
    destruct (load_safe ds) as [b| |] eqn:El; cbn [cbind] in H; try discriminate.
    2: { exfalso. exact (load_safe_np ds _ El). }
    unfold register_text_of, register_table_of in H.
    assert (Emf : mapping_flag_ok (rg_mapping cfg) = true).
    { unfold register_flags in Ef. destruct (mapping_flag_ok (rg_mapping cfg)); [reflexivity|]. cbn in Ef. discriminate. }
    destruct (register_report_of cfg b) as [r| |] eqn:E; cbn [cbind] in H; try discriminate.
    + destruct (reg_render (rg_render_cfg cfg) r); cbn [cbind] in H; [discriminate|]. inversion H. reflexivity.
    + exfalso. exact (register_report_of_np cfg b Emf _ E).
  - destruct (mapping_shows (rg_mapping cfg)) eqn:Hm; [|reflexivity].
    exfalso. exact (proj2 (register_total cfg tc ds Hm) m H).
Qed.
