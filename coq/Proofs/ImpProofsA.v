(* C13, group A importers: proofs of the per-importer row theorems and of the shared back half. *)
From Coq Require Import ZArith QArith List Bool Lia.
From Knut Require Import Model.Str Model.Dec Model.Date Model.Account Model.Ledger Model.Journal
     Model.Pipeline Model.Table Model.Report Model.JPrinter Model.ImpCommonA
     Model.Imp.Swisscard2 Model.Imp.Viac Model.Imp.Cumulus Model.Imp.Postfinance Model.Imp.Swisscard
     Model.Imp.Supercard
     Spec.ImpSpecA Proofs.DecProofs Proofs.DecValue Proofs.PairProofs Proofs.StrProofs.
Import ListNotations.
Open Scope bool_scope.

(* ---------------------------------------------------------------- effect of one booking *)

Lemma acc_dec_refl (a : account) : exists e, acc_eq_dec a a = left e.
Proof. destruct (acc_eq_dec a a) as [e|n]; [eauto|contradiction]. Qed.

Lemma str_dec_refl (a : str) : exists e, str_eq_dec a a = left e.
Proof. destruct (str_eq_dec a a) as [e|n]; [eauto|contradiction]. Qed.

Lemma posting_effect_self a c o q v :
  posting_effect a c (mkPosting a o c q v) == dvalue q.
Proof.
  unfold posting_effect. cbn [p_acc p_com p_qty].
  destruct (acc_dec_refl a) as [e ->]. destruct (str_dec_refl c) as [e' ->]. reflexivity.
Qed.

Lemma posting_effect_other_acc a b c o q v : b <> a ->
  posting_effect a c (mkPosting b o c q v) == 0.
Proof.
  intros H. unfold posting_effect. cbn [p_acc]. destruct (acc_eq_dec b a); [contradiction|reflexivity].
Qed.

Lemma posting_effect_other_com a b c c' o q v : c' <> c ->
  posting_effect a c (mkPosting b o c' q v) == 0.
Proof.
  intros H. unfold posting_effect. cbn [p_acc p_com].
  destruct (acc_eq_dec b a); [|reflexivity]. destruct (str_eq_dec c' c); [contradiction|reflexivity].
Qed.

(* the account is credited: its balance changes by -q *)
Lemma effect_credit a counter c q d desc tg : a <> counter ->
  effect a c (mkTxn d desc (pair_build a counter c q dec_nil) tg) == - dvalue q.
Proof.
  intros H. unfold effect, pair_build. cbn [t_postings].
  destruct (is_neg q || is_zero q && is_neg dec_nil); cbn [fold_right].
  - rewrite posting_effect_other_acc by congruence. rewrite posting_effect_self.
    rewrite dvalue_neg. ring.
  - rewrite posting_effect_self. rewrite posting_effect_other_acc by congruence.
    rewrite dvalue_neg. ring.
Qed.

(* the account is debited: its balance changes by +q *)
Lemma effect_debit a counter c q d desc tg : a <> counter ->
  effect a c (mkTxn d desc (pair_build counter a c q dec_nil) tg) == dvalue q.
Proof.
  intros H. unfold effect, pair_build. cbn [t_postings].
  destruct (is_neg q || is_zero q && is_neg dec_nil); cbn [fold_right].
  - rewrite posting_effect_self. rewrite posting_effect_other_acc by congruence.
    rewrite !dvalue_neg. ring.
  - rewrite posting_effect_other_acc by congruence. rewrite posting_effect_self. ring.
Qed.

Lemma effect_other_com a x y c c' q d desc tg : c' <> c ->
  effect a c' (mkTxn d desc (pair_build x y c q dec_nil) tg) == 0.
Proof.
  intros H. unfold effect, pair_build. cbn [t_postings].
  destruct (is_neg q || is_zero q && is_neg dec_nil); cbn [fold_right];
    rewrite !posting_effect_other_com by congruence; ring.
Qed.

(* a transaction built as all six importers build it books the fact (date, -q, c) when the
   import account is the credit side ... *)
Lemma books_credit acct d desc c q f :
  acct <> tbd_account -> rf_date f = d -> rf_com f = c -> dvalue (rf_amount f) == - dvalue q ->
  books acct tbd_account f (mkTxn d desc (pair_build acct tbd_account c q dec_nil) None).
Proof.
  intros Hne Hd Hc Hq. unfold books. cbn [t_date t_targets]. rewrite Hc.
  repeat split; try congruence.
  - exists q. left. reflexivity.
  - rewrite effect_credit by assumption. symmetry. exact Hq.
  - intros c' Hc'. apply effect_other_com. congruence.
Qed.

(* ... and the fact (date, +q, c) when it is the debit side *)
Lemma books_debit acct d desc c q f :
  acct <> tbd_account -> rf_date f = d -> rf_com f = c -> dvalue (rf_amount f) == dvalue q ->
  books acct tbd_account f (mkTxn d desc (pair_build tbd_account acct c q dec_nil) None).
Proof.
  intros Hne Hd Hc Hq. unfold books. cbn [t_date t_targets]. rewrite Hc.
  repeat split; try congruence.
  - exists q. right. reflexivity.
  - rewrite effect_debit by assumption. symmetry. exact Hq.
  - intros c' Hc'. apply effect_other_com. congruence.
Qed.

Lemma mul_sign_neg_value q : dvalue (mul_sign true q) == - dvalue q.
Proof. unfold mul_sign. rewrite dvalue_mul, dvalue_neg. unfold dvalue, of_int. cbn. ring. Qed.

Lemma mul_sign_pos_value q : dvalue (mul_sign false q) == dvalue q.
Proof. unfold mul_sign. rewrite dvalue_mul. unfold dvalue at 2, of_int. cbn. ring. Qed.

(* record-level: multiplying by the sign is negation resp. the identity *)
Lemma mul_sign_neg q : mul_sign true q = neg q.
Proof. unfold mul_sign, mul, neg, of_int. cbn [coef ex]. f_equal; ring. Qed.
Lemma mul_sign_pos q : mul_sign false q = q.
Proof. unfold mul_sign, mul, of_int. cbn [coef ex]. destruct q as [c e]. cbn [coef ex]. f_equal; ring. Qed.

(* ---------------------------------------------------------------- list shapes *)
Ltac split_len r H :=
  repeat (destruct r as [|? r]; [cbn in H; try discriminate H|cbn in H]); try discriminate H.

Lemma andb4 a b c d : a && b && c && d = true -> a = true /\ b = true /\ c = true /\ d = true.
Proof. destruct a, b, c, d; cbn; intuition congruence. Qed.

Lemma is_some_inv {A} (o : option A) : is_some o = true -> exists x, o = Some x.
Proof. destruct o; [eauto|discriminate]. Qed.

(* ---------------------------------------------------------------- ch.swisscard2 *)

Lemma sc2_row acct r : acct <> tbd_account -> sc2_wf_row r = true ->
  exists t, sc2_booking acct r = MOk (DTxn t) /\
            books acct tbd_account (sc2_fact r) t /\ t_desc t = build_desc (sc2_text r).
Proof.
  intros Hne Hwf. unfold sc2_wf_row in Hwf. apply andb4 in Hwf. destruct Hwf as (Hl & Hd & Hc & Hq).
  unfold len_is in Hl.
  do 12 (destruct r as [|? r]; [discriminate Hl|]). destruct r; [|discriminate Hl].
  unfold field in *. cbn [nth] in *.
  apply is_some_inv in Hd. destruct Hd as [d Hd]. apply is_some_inv in Hq. destruct Hq as [q Hq].
  unfold sc2_booking, fld_p, fld, sc2_desc. cbn [nth_error].
  rewrite Hd, Hc, Hq. cbn [negb].
  eexists. split; [reflexivity|]. split.
  - unfold sc2_fact, field. cbn [nth]. rewrite Hd, Hq. cbn [date_or0 dec_or0].
    apply books_credit; try assumption; try reflexivity.
    cbn [rf_amount]. apply dvalue_neg.
  - reflexivity.
Qed.

Lemma sc2_rows_faithful acct rows : acct <> tbd_account -> forallb sc2_wf_row rows = true ->
  exists ts, sc2_rows acct (map CRec rows) = MOk (map DTxn ts) /\
    Forall2 (books acct tbd_account) (map sc2_fact rows) ts /\
    map t_desc ts = map build_desc (map sc2_text rows).
Proof.
  intros Hne. induction rows as [|r rows IH]; intros Hwf.
  - exists []. cbn. repeat split; constructor.
  - cbn [forallb] in Hwf. apply andb_prop in Hwf. destruct Hwf as [Hr Hrs].
    destruct (sc2_row acct r Hne Hr) as (t & Ht & Hb & Hdesc).
    destruct (IH Hrs) as (ts & Hts & Hbs & Hds).
    exists (t :: ts). cbn [map sc2_rows]. rewrite Ht. cbn [mbind]. rewrite Hts. cbn [mbind].
    repeat split; [constructor; assumption|]. cbn [map]. congruence.
Qed.

Theorem swisscard2_faithful acct header rows :
  acct <> tbd_account -> forallb sc2_wf_row rows = true ->
  exists ts, import_swisscard2 acct (CRec header :: map CRec rows) = MOk (map DTxn ts) /\
    Forall2 (books acct tbd_account) (map sc2_fact rows) ts /\
    map t_desc ts = map build_desc (map sc2_text rows).
Proof. intros Hne Hwf. cbn [import_swisscard2]. apply sc2_rows_faithful; assumption. Qed.

(* ---------------------------------------------------------------- ch.viac *)

Theorem viac_faithful com from l :
  forallb viac_wf_entry l = true ->
  import_viac com from (VValues l) = MOk (map (price_of com s_CHF) (viac_prices from l)).
Proof.
  cbn [import_viac]. induction l as [|[ds vs] l IH]; intros Hwf; [reflexivity|].
  cbn [forallb] in Hwf. apply andb_prop in Hwf. destruct Hwf as [He Hl].
  unfold viac_wf_entry in He. cbn [fst snd] in He. apply andb_prop in He. destruct He as [Hd Hv].
  apply is_some_inv in Hd. destruct Hd as [d Hd]. apply is_some_inv in Hv. destruct Hv as [v Hv].
  cbn [viac_values viac_prices flat_map fst snd]. rewrite Hd, Hv. cbn [date_or0 dec_or0].
  specialize (IH Hl). unfold viac_prices in IH.
  destruct (d <? from)%Z; cbn [orb]; [exact IH|].
  destruct (is_zero v); [exact IH|].
  rewrite IH. reflexivity.
Qed.

(* nothing before --from *)
Lemma viac_prices_dates from l :
  Forall (fun f => (from <= pf_date f)%Z) (viac_prices from l).
Proof.
  unfold viac_prices. induction l as [|e l IH]; [constructor|].
  cbn [flat_map]. destruct (Z.ltb_spec (date_or0 (parse_iso (fst e))) from); cbn [orb]; [exact IH|].
  destruct (is_zero _); [exact IH|]. constructor; [cbn; lia|exact IH].
Qed.

(* ---------------------------------------------------------------- ch.swisscard *)

Lemma andb3 a b c : a && b && c = true -> a = true /\ b = true /\ c = true.
Proof. destruct a, b, c; cbn; intuition congruence. Qed.

(* the replacer's single pass = delete every "CHF", then every "'" *)
Lemma sc_clean_fuel_spec f : forall s, (length s <= f)%nat ->
  sc_clean_fuel f s = remove_byte 39 (remove_all_fuel f s_CHF s).
Proof.
  induction f as [|f IH]; intros s Hl.
  - destruct s; [reflexivity|cbn in Hl; lia].
  - destruct s as [|c t]; [reflexivity|].
    cbn [sc_clean_fuel remove_all_fuel]. change (length s_CHF) with 3%nat.
    destruct (is_prefix s_CHF (c :: t)).
    + apply IH. rewrite skipn_length. cbn [length] in *. lia.
    + unfold remove_byte. cbn [filter]. fold (remove_byte 39 (remove_all_fuel f s_CHF t)).
      cbn [length] in Hl. rewrite <- IH by lia.
      destruct (c =? 39)%Z; reflexivity.
Qed.

Lemma sc_clean_spec s : sc_clean s = sc_amount_text s.
Proof. unfold sc_clean, sc_amount_text, remove_all. apply sc_clean_fuel_spec. lia. Qed.

Lemma sc_row_booking acct r : acct <> tbd_account -> sc_is_booking r = true -> sc_wf_row r = true ->
  exists t, sc_booking acct r = MOk (Some (DTxn t)) /\
            books acct tbd_account (sc_fact r) t /\ t_desc t = build_desc (sc_text r).
Proof.
  intros Hne Hb Hwf. unfold sc_wf_row in Hwf. rewrite Hb in Hwf.
  apply andb3 in Hwf. destruct Hwf as (Hl & Hd & Hq). unfold len_is in Hl.
  do 11 (destruct r as [|? r]; [discriminate Hl|]). destruct r; [|discriminate Hl].
  unfold field in *. cbn [nth] in *. cbn [sc_is_booking] in Hb. apply andb_prop in Hb. destruct Hb as [Hb0 Hb1].
  apply is_some_inv in Hd. destruct Hd as [d Hd]. apply is_some_inv in Hq. destruct Hq as [q Hq].
  unfold sc_booking, fld_p, fld, sc_words, len_is. cbn [nth_error length Nat.eqb].
  rewrite Hb0, Hb1. cbn [negb]. rewrite Hd. rewrite sc_clean_spec, Hq.
  eexists. split; [reflexivity|]. split.
  - unfold sc_fact, field. cbn [nth]. rewrite Hd, Hq. cbn [date_or0 dec_or0].
    apply books_credit; try assumption; try reflexivity. cbn [rf_amount]. apply dvalue_neg.
  - reflexivity.
Qed.

Lemma sc_row_ignored acct r : sc_is_booking r = false -> sc_wf_row r = true ->
  sc_booking acct r = MOk None.
Proof.
  intros Hb Hwf. unfold sc_wf_row in Hwf. rewrite Hb in Hwf.
  destruct r as [|f0 [|f1 r]]; [discriminate Hwf| |].
  - cbn [sc_ignored] in Hwf. unfold sc_booking, fld_p, fld. cbn [nth_error]. rewrite Hwf. reflexivity.
  - cbn [sc_ignored] in Hwf. unfold sc_booking, fld_p, fld. cbn [nth_error].
    destruct (date_rx f0); cbn [negb andb] in *; [|reflexivity]. rewrite Hwf. reflexivity.
Qed.

Theorem swisscard_faithful acct rows :
  acct <> tbd_account -> forallb sc_wf_row rows = true ->
  exists ts, import_swisscard acct (map CRec rows) = MOk (map DTxn ts) /\
    Forall2 (books acct tbd_account) (map sc_fact (filter sc_is_booking rows)) ts /\
    map t_desc ts = map build_desc (map sc_text (filter sc_is_booking rows)).
Proof.
  intros Hne. induction rows as [|r rows IH]; intros Hwf.
  - exists []. cbn. repeat split; constructor.
  - cbn [forallb] in Hwf. apply andb_prop in Hwf. destruct Hwf as [Hr Hrs].
    destruct (IH Hrs) as (ts & Hts & Hbs & Hds).
    cbn [map import_swisscard filter]. destruct (sc_is_booking r) eqn:Hb.
    + destruct (sc_row_booking acct r Hne Hb Hr) as (t & Ht & Hbk & Hdesc).
      exists (t :: ts). rewrite Ht. cbn [mbind]. rewrite Hts. cbn [mbind map].
      repeat split; [constructor; assumption|congruence].
    + rewrite (sc_row_ignored acct r Hb Hr). cbn [mbind]. rewrite Hts. cbn [mbind].
      exists ts. repeat split; assumption.
Qed.

(* ---------------------------------------------------------------- ch.supercard *)

Lemma sup_row_ignored acct r : sup_ignored r = true -> sup_line acct r = MOk None.
Proof.
  intros H. unfold sup_ignored in H. apply andb_prop in H. destruct H as [Hl H].
  destruct r as [|f0 [|f1 [|f2 [|f3 [|f4 r]]]]]; try discriminate Hl.
  unfold field in H. cbn [nth] in H.
  unfold sup_line, fld_p, fld. cbn [nth_error].
  change s_saldovortrag with s_saldo.
  destruct (str_eqb f4 s_saldo); [reflexivity|]. cbn [orb] in H. rewrite H. reflexivity.
Qed.

Lemma sup_row_booking acct r : acct <> tbd_account -> sup_ignored r = false -> sup_wf_row r = true ->
  exists t, sup_line acct r = MOk (Some (DTxn t)) /\
            books acct tbd_account (sup_fact r) t /\ t_desc t = build_desc (sup_text r).
Proof.
  intros Hne Hi Hwf. unfold sup_wf_row in Hwf. rewrite Hi in Hwf. cbn [orb] in Hwf.
  apply andb4 in Hwf. destruct Hwf as (Hl & Hd & Ha & Hc). unfold len_is in Hl.
  destruct r as [|f0 [|f1 [|f2 [|f3 [|f4 [|f5 [|f6 [|f7 [|f8 [|f9 [|f10 [|f11 [|f12 [|x r]]]]]]]]]]]]]];
    try discriminate Hl.
  unfold sup_ignored, len_is, field in Hi. cbn [nth length Nat.leb Nat.eqb andb orb] in Hi.
  apply orb_false_elim in Hi. destruct Hi as [Hi Hk]. apply orb_false_elim in Hi. destruct Hi as [Hs _].
  unfold field in *. cbn [nth] in *.
  apply is_some_inv in Hd. destruct Hd as [d Hd].
  unfold sup_line, fld_p, fld, len_is. cbn [nth_error length Nat.eqb].
  change s_saldovortrag with s_saldo. rewrite Hs, Hk. cbn [orb negb]. rewrite Hd.
  unfold sup_amount_ok in Ha. unfold field in Ha. cbn [nth] in Ha. unfold sup_amount, sup_fact, field. cbn [nth]. rewrite Hd. cbn [date_or0].
  destruct (is_empty f11) eqn:Hg; cbn [negb] in *.
  - apply andb_prop in Ha. destruct Ha as [Hb Hq]. apply is_some_inv in Hq. destruct Hq as [q Hq].
    destruct (is_empty f10); [discriminate Hb|]. cbn [negb]. rewrite Hq. cbn [mbind]. rewrite Hc.
    eexists. split; [reflexivity|]. split; [|reflexivity].
    cbn [dec_or0]. rewrite mul_sign_neg.
    apply books_debit; try assumption; reflexivity.
  - apply is_some_inv in Ha. destruct Ha as [q Hq]. rewrite Hq. cbn [mbind]. rewrite Hc.
    eexists. split; [reflexivity|]. split; [|reflexivity].
    cbn [dec_or0]. rewrite mul_sign_pos.
    apply books_debit; try assumption; reflexivity.
Qed.

Lemma sup_lines_faithful acct rows :
  acct <> tbd_account -> forallb sup_wf_row rows = true ->
  exists ts, sup_lines acct (map CRec rows) = MOk (map DTxn ts) /\
    Forall2 (books acct tbd_account) (map sup_fact (filter sup_is_booking rows)) ts /\
    map t_desc ts = map build_desc (map sup_text (filter sup_is_booking rows)).
Proof.
  intros Hne. induction rows as [|r rows IH]; intros Hwf.
  - exists []. cbn. repeat split; constructor.
  - cbn [forallb] in Hwf. apply andb_prop in Hwf. destruct Hwf as [Hr Hrs].
    destruct (IH Hrs) as (ts & Hts & Hbs & Hds).
    unfold sup_is_booking in *. cbn [map sup_lines filter]. destruct (sup_ignored r) eqn:Hi; cbn [negb].
    + rewrite (sup_row_ignored acct r Hi). cbn [mbind]. rewrite Hts. cbn [mbind].
      exists ts. repeat split; assumption.
    + destruct (sup_row_booking acct r Hne Hi Hr) as (t & Ht & Hbk & Hdesc).
      exists (t :: ts). rewrite Ht. cbn [mbind]. rewrite Hts. cbn [mbind map].
      repeat split; [constructor; assumption|congruence].
Qed.

Theorem supercard_faithful acct header rows :
  acct <> tbd_account -> forallb sup_wf_row rows = true ->
  exists ts, import_supercard acct (CRec sup_first :: CRec header :: map CRec rows) = MOk (map DTxn ts) /\
    Forall2 (books acct tbd_account) (map sup_fact (filter sup_is_booking rows)) ts /\
    map t_desc ts = map build_desc (map sup_text (filter sup_is_booking rows)).
Proof. intros Hne Hwf. cbn. apply sup_lines_faithful; assumption. Qed.

(* ---------------------------------------------------------------- ch.postfinance *)

Definition pf_pair (r : list str) : str * str := (field r 0, field r 1).
Definition pf_cur_of (kv : list (str * str)) : str :=
  match kv_get kv s_waehrung with Some s => trim_set [61; 34]%Z s | None => s_CHF end.

Lemma pf_kv_loop kvs : forall acc hdr rest,
  forallb pf_is_kv kvs = true -> pf_is_kv hdr = false ->
  pf_keyvalues acc (map CRec kvs ++ CRec hdr :: rest) = MOk (rev (map pf_pair kvs) ++ acc, rest).
Proof.
  induction kvs as [|r kvs IH]; intros acc hdr rest Hk Hh.
  - cbn. unfold pf_is_kv, len_is in Hh. destruct hdr as [|a [|b [|c hdr]]]; try reflexivity. discriminate Hh.
  - cbn [forallb] in Hk. apply andb_prop in Hk. destruct Hk as [Hr Hk].
    unfold pf_is_kv, len_is in Hr. destruct r as [|a [|b [|c r]]]; try discriminate Hr.
    cbn [map app pf_keyvalues]. rewrite (IH _ hdr rest Hk Hh).
    cbn [rev]. rewrite <- app_assoc. reflexivity.
Qed.

Lemma pf_cur_of_spec kvs : forall acc,
  pf_cur_of (rev (map pf_pair kvs) ++ acc) = pf_header_currency kvs (pf_cur_of acc).
Proof.
  induction kvs as [|r kvs IH]; intros acc; [reflexivity|].
  cbn [map rev pf_header_currency]. rewrite <- app_assoc. cbn [app]. rewrite IH. f_equal.
  unfold pf_cur_of at 1. cbn [kv_get pf_pair fst snd]. change s_waehrung with s_waehr.
  destruct (str_eqb s_waehr (field r 0)); reflexivity.
Qed.

Lemma pf_currency_ok kv : valid_name (pf_cur_of kv) = true -> pf_currency kv = MOk (pf_cur_of kv).
Proof.
  unfold pf_currency, pf_cur_of. destruct (kv_get kv s_waehrung); intros H; [rewrite H|]; reflexivity.
Qed.

Lemma xorb_cases a b : xorb a b = true -> (a = true /\ b = false) \/ (a = false /\ b = true).
Proof. destruct a, b; cbn; intuition congruence. Qed.

Lemma pf_amount_ok r q :
  xorb (is_empty (field r 2)) (is_empty (field r 3)) = true ->
  new_from_string (pf_amount_text r) = Some q ->
  pf_amount (field r 2) (field r 3) = MOk q.
Proof.
  intros Hx Hq. unfold pf_amount, pf_amount_text in *.
  destruct (xorb_cases _ _ Hx) as [[Ha Hb]|[Ha Hb]]; rewrite Ha, Hb in *; cbn [negb andb]; rewrite Hq; reflexivity.
Qed.

Lemma pf_row acct cur r : acct <> tbd_account -> pf_wf_row r = true ->
  exists f0 f1 f2 f3 f4 f5 tl d q,
    r = f0 :: f1 :: f2 :: f3 :: f4 :: f5 :: tl /\
    (Nat.ltb (length r) 7 || Nat.ltb 8 (length r)) = false /\
    parse_dmy f0 = Some d /\ pf_amount f2 f3 = MOk q /\
    books acct tbd_account (pf_fact cur r) (mkTxn d (build_desc (pf_desc f1 f5 f4)) (pair_build tbd_account acct cur q dec_nil) None) /\
    pf_desc f1 f5 f4 = pf_text r.
Proof.
  intros Hne Hwf. unfold pf_wf_row in Hwf. apply andb4 in Hwf. destruct Hwf as (Hl & Hd & Hx & Hq).
  unfold pf_is_row in Hl. apply andb_prop in Hl. destruct Hl as [Hl1 Hl2].
  destruct r as [|f0 [|f1 [|f2 [|f3 [|f4 [|f5 [|f6 r]]]]]]]; try discriminate Hl1.
  apply is_some_inv in Hd. destruct Hd as [d Hd]. apply is_some_inv in Hq. destruct Hq as [q Hq].
  pose proof (pf_amount_ok _ q Hx Hq) as Ha.
  unfold field in Hd, Ha. cbn [nth] in Hd, Ha.
  do 9 eexists. split; [reflexivity|]. split.
  - destruct r as [|? [|? r]]; [reflexivity|reflexivity|discriminate Hl2].
  - split; [exact Hd|]. split; [exact Ha|]. split; [|reflexivity].
    apply books_debit; try assumption; try reflexivity.
    + unfold pf_fact, field. cbn [nth rf_date]. rewrite Hd. reflexivity.
    + unfold pf_fact. cbn [rf_amount]. rewrite Hq. reflexivity.
Qed.

Lemma pf_bookings_faithful dbg acct cur rows : forall d1 rest,
  acct <> tbd_account -> forallb pf_wf_row rows = true -> pf_is_row d1 = false ->
  exists ts, pf_bookings dbg acct cur (map CRec rows ++ CRec d1 :: rest) = (MOk (map DTxn ts, rest), pf_debug_line dbg d1) /\
    Forall2 (books acct tbd_account) (map (pf_fact cur) rows) ts /\
    map t_desc ts = map build_desc (map pf_text rows).
Proof.
  intros d1 rest Hne. induction rows as [|r rows IH]; intros Hwf Hd1.
  - exists []. cbn [map app pf_bookings]. unfold pf_is_row in Hd1.
    replace (Nat.ltb (length d1) 7 || Nat.ltb 8 (length d1)) with true.
    + repeat split; constructor.
    + symmetry. unfold Nat.ltb. destruct (Nat.leb 7 (length d1)) eqn:H7; cbn [andb] in Hd1.
      * apply orb_true_iff. right. apply Nat.leb_le. apply Nat.leb_gt in Hd1. lia.
      * apply orb_true_iff. left. apply Nat.leb_le. apply Nat.leb_gt in H7. lia.
  - cbn [forallb] in Hwf. apply andb_prop in Hwf. destruct Hwf as [Hr Hrs].
    destruct (IH Hrs Hd1) as (ts & Hts & Hbs & Hds).
    destruct (pf_row acct cur r Hne Hr) as (f0 & f1 & f2 & f3 & f4 & f5 & tl & d & q & Hr' & Hlen & Hd & Ha & Hbk & Hdesc).
    exists (mkTxn d (build_desc (pf_desc f1 f5 f4)) (pair_build tbd_account acct cur q dec_nil) None :: ts).
    cbn [map app]. cbn [pf_bookings]. rewrite Hlen. rewrite Hr' at 1. rewrite Hd, Ha, Hts. cbn [mbind fst snd].
    repeat split; [constructor; assumption|]. cbn [map t_desc]. rewrite Hdesc, Hds. reflexivity.
Qed.

Lemma pf_disclaimer_ok ds : forallb (fun r => len_is r 1) ds = true -> pf_disclaimer (map CRec ds) = MOk tt.
Proof.
  induction ds as [|r ds IH]; intros H; [reflexivity|].
  cbn [forallb] in H. apply andb_prop in H. destruct H as [Hr Hds].
  unfold len_is in Hr. destruct r as [|a [|b r]]; try discriminate Hr. cbn. apply IH, Hds.
Qed.

(* the statement: key/value lines, column header, booking rows, the first line after them
   (anything that is not 7 or 8 fields wide), further disclaimer lines *)
Definition pf_statement (kvs : list (list str)) (header : list str) (rows : list (list str))
           (d1 : list str) (ds : list (list str)) : list citem :=
  map CRec kvs ++ CRec header :: (map CRec rows ++ CRec d1 :: map CRec ds).

Theorem postfinance_faithful dbg acct kvs header rows d1 ds :
  let cur := pf_header_currency kvs s_CHF in
  acct <> tbd_account ->
  forallb pf_is_kv kvs = true -> pf_is_kv header = false -> valid_name cur = true ->
  forallb pf_wf_row rows = true -> pf_is_row d1 = false -> forallb (fun r => len_is r 1) ds = true ->
  exists ts, import_postfinance dbg acct (pf_statement kvs header rows d1 ds) = (MOk (map DTxn ts), pf_debug_line dbg d1) /\
    Forall2 (books acct tbd_account) (map (pf_fact cur) rows) ts /\
    map t_desc ts = map build_desc (map pf_text rows).
Proof.
  intros cur Hne Hk Hh Hc Hrows Hd1 Hds.
  unfold import_postfinance, pf_statement. rewrite (pf_kv_loop kvs [] header _ Hk Hh).
  assert (Hcur : pf_cur_of (rev (map pf_pair kvs) ++ []) = cur).
  { rewrite pf_cur_of_spec. reflexivity. }
  rewrite pf_currency_ok by (rewrite Hcur; exact Hc). rewrite Hcur.
  destruct (pf_bookings_faithful dbg acct cur rows d1 (map CRec ds) Hne Hrows Hd1) as (ts & Hts & Hbs & Hdesc).
  exists ts. rewrite Hts. cbn [mbind fst snd]. rewrite (pf_disclaimer_ok ds Hds). cbn [mbind].
  repeat split; assumption.
Qed.

(* ---------------------------------------------------------------- ch.cumulus *)

Lemma cum_amount_spec gut bel : cum_amount_ok gut bel = true ->
  cum_amount bel gut = MOk (cum_signed gut bel).
Proof.
  unfold cum_amount_ok, cum_amount, cum_signed, cum_decimal. intros H. apply andb_prop in H. destruct H as [Hx Hq].
  apply is_some_inv in Hq. destruct Hq as [q Hq].
  destruct (xorb_cases _ _ Hx) as [[Ha Hb]|[Ha Hb]]; rewrite Ha, Hb in *; cbn [negb andb]; rewrite Hq; cbn [dec_or0].
  - rewrite mul_sign_neg. reflexivity.
  - rewrite mul_sign_pos. reflexivity.
Qed.

Lemma date_rx_nonempty s : date_rx s = true -> is_empty s = false.
Proof. destruct s; [discriminate|reflexivity]. Qed.

Lemma cum_fx_none r : cum_is_comment r = false -> cum_fxcomment r = None.
Proof.
  unfold cum_is_comment, cum_fxcomment.
  destruct r as [|f0 [|f1 [|f2 [|f3 [|f4 [|f5 r]]]]]]; try reflexivity.
  intros H. rewrite H. reflexivity.
Qed.

Lemma cum_line_ignored acc r : cum_wf_entry (CumIgnored r) = true -> cum_line acc r = MOk acc.
Proof.
  cbn [cum_wf_entry]. intros H. apply andb_prop in H. destruct H as [Hc H].
  apply negb_true_iff in Hc. unfold cum_line.
  destruct r as [|f0 [|f1 r]]; [discriminate H| |].
  - unfold cum_rounding, cum_booking, fld_p, fld. cbn [nth_error]. rewrite H. cbn [mbind].
    rewrite (cum_fx_none _ Hc). reflexivity.
  - unfold cum_rounding, cum_booking, fld_p, fld. cbn [nth_error]. change s_rundung with s_rund.
    destruct (date_rx f0); cbn [negb orb] in *.
    + apply andb_prop in H. destruct H as [H1 H2]. rewrite H1. cbn [mbind].
      rewrite (cum_fx_none _ Hc). rewrite H2. reflexivity.
    + cbn [mbind]. rewrite (cum_fx_none _ Hc). reflexivity.
Qed.

Definition cum_builder (e : cum_entry) : list cbuilder :=
  match e with
  | CumIgnored _ => []
  | CumBooking r cs =>
    [(date_or0 (parse_dmy (field r 0)), fold_left (fun d c => d ++ [32%Z] ++ c) cs (field r 2), cum_signed (field r 3) (field r 4))]
  | CumRounding r cs =>
    [(date_or0 (parse_dmy (field r 0)), fold_left (fun d c => d ++ [32%Z] ++ c) cs (field r 1), cum_signed (field r 2) (field r 3))]
  end.

Lemma andb7 a b c d e f g : a && b && c && d && e && f && g = true ->
  a = true /\ b = true /\ c = true /\ d = true /\ e = true /\ f = true /\ g = true.
Proof. destruct a, b, c, d, e, f, g; cbn; intuition congruence. Qed.
Lemma andb6 a b c d e f : a && b && c && d && e && f = true ->
  a = true /\ b = true /\ c = true /\ d = true /\ e = true /\ f = true.
Proof. destruct a, b, c, d, e, f; cbn; intuition congruence. Qed.

Lemma cum_line_booking acc r cs : cum_wf_entry (CumBooking r cs) = true ->
  cum_line acc r = MOk ((date_or0 (parse_dmy (field r 0)), field r 2, cum_signed (field r 3) (field r 4)) :: acc).
Proof.
  cbn [cum_wf_entry]. intros H. apply andb7 in H. destruct H as (Hl & H0 & H1 & Hn & Hd & Ha & _).
  unfold len_is in Hl. destruct r as [|f0 [|f1 [|f2 [|f3 [|f4 [|f5 r]]]]]]; try discriminate Hl.
  unfold field in *. cbn [nth] in *.
  apply is_some_inv in Hd. destruct Hd as [d Hd]. apply negb_true_iff in Hn.
  unfold cum_line, cum_rounding, cum_booking, fld_p, fld, len_is. cbn [nth_error length Nat.eqb].
  change s_rundung with s_rund. rewrite H0, H1, Hn. cbn [negb mbind].
  cbn [cum_fxcomment]. rewrite (date_rx_nonempty _ H0). cbn [andb].
  rewrite Hd. rewrite (cum_amount_spec _ _ Ha). cbn [mbind date_or0]. reflexivity.
Qed.

Lemma cum_line_rounding acc r cs : cum_wf_entry (CumRounding r cs) = true ->
  cum_line acc r = MOk ((date_or0 (parse_dmy (field r 0)), field r 1, cum_signed (field r 2) (field r 3)) :: acc).
Proof.
  cbn [cum_wf_entry]. intros H. apply andb6 in H. destruct H as (Hl & H0 & H1 & Hd & Ha & _).
  unfold len_is in Hl. destruct r as [|f0 [|f1 [|f2 [|f3 [|f4 r]]]]]; try discriminate Hl.
  unfold field in *. cbn [nth] in *.
  apply is_some_inv in Hd. destruct Hd as [d Hd].
  unfold cum_line, cum_rounding, fld_p, fld, len_is. cbn [nth_error length Nat.eqb].
  change s_rundung with s_rund. rewrite H0, H1. cbn [negb].
  rewrite Hd. rewrite (cum_amount_spec _ _ Ha). cbn [mbind date_or0]. reflexivity.
Qed.

Lemma cum_line_comment d desc q acc c : is_empty c = false ->
  cum_line ((d, desc, q) :: acc) (cum_comment_row c) = MOk ((d, desc ++ [32%Z] ++ c, q) :: acc).
Proof.
  intros Hc. unfold cum_line, cum_comment_row, cum_rounding, fld_p, fld. cbn [nth_error].
  change (date_rx []) with false. cbn [negb mbind cum_fxcomment is_empty andb]. rewrite Hc. reflexivity.
Qed.

Lemma cum_loop_comments cs : forall d desc q acc rest,
  forallb (fun c => negb (is_empty c)) cs = true ->
  cum_loop ((d, desc, q) :: acc) (map CRec (map cum_comment_row cs) ++ rest) =
  cum_loop ((d, fold_left (fun d c => d ++ [32%Z] ++ c) cs desc, q) :: acc) rest.
Proof.
  induction cs as [|c cs IH]; intros d desc q acc rest H; [reflexivity|].
  cbn [forallb] in H. apply andb_prop in H. destruct H as [Hc Hcs]. apply negb_true_iff in Hc.
  cbn [map app cum_loop]. rewrite (cum_line_comment d desc q acc c Hc). cbn [mbind].
  rewrite IH by assumption. reflexivity.
Qed.

Lemma cum_wf_comments_b r cs : cum_wf_entry (CumBooking r cs) = true -> forallb (fun c => negb (is_empty c)) cs = true.
Proof. cbn [cum_wf_entry]. intros H. apply andb7 in H. tauto. Qed.
Lemma cum_wf_comments_r r cs : cum_wf_entry (CumRounding r cs) = true -> forallb (fun c => negb (is_empty c)) cs = true.
Proof. cbn [cum_wf_entry]. intros H. apply andb6 in H. tauto. Qed.

Lemma cum_loop_entry e acc rest : cum_wf_entry e = true ->
  cum_loop acc (map CRec (cum_records e) ++ rest) = cum_loop (rev (cum_builder e) ++ acc) rest.
Proof.
  intros H. destruct e as [r|r cs|r cs]; cbn [cum_records map app cum_loop cum_builder rev].
  - rewrite (cum_line_ignored acc r H). reflexivity.
  - rewrite (cum_line_booking acc r cs H). cbn [mbind].
    rewrite cum_loop_comments by (eapply cum_wf_comments_b; eassumption). reflexivity.
  - rewrite (cum_line_rounding acc r cs H). cbn [mbind].
    rewrite cum_loop_comments by (eapply cum_wf_comments_r; eassumption). reflexivity.
Qed.

Lemma cum_loop_entries es : forall acc,
  forallb cum_wf_entry es = true ->
  cum_loop acc (map CRec (flat_map cum_records es)) = MOk (rev (flat_map cum_builder es) ++ acc).
Proof.
  induction es as [|e es IH]; intros acc H; [reflexivity|].
  cbn [forallb] in H. apply andb_prop in H. destruct H as [He Hes].
  cbn [flat_map]. rewrite map_app. rewrite (cum_loop_entry e acc _ He). rewrite IH by assumption.
  rewrite rev_app_distr, <- app_assoc. reflexivity.
Qed.

Lemma cum_builder_books acct e : acct <> tbd_account ->
  Forall2 (books acct tbd_account) (cum_facts e)
          (map (fun b => let '(d, desc, q) := b in mkTxn d (build_desc desc) (pair_build tbd_account acct s_CHF q dec_nil) None) (cum_builder e)) /\
  map (fun b : cbuilder => snd (fst b)) (cum_builder e) = cum_texts e.
Proof.
  intros Hne. destruct e as [r|r cs|r cs]; cbn [cum_facts cum_builder cum_texts map]; split; try reflexivity; try constructor; try constructor;
    apply books_debit; try assumption; reflexivity.
Qed.

Definition cum_txn_of (acct : account) (b : cbuilder) : txn :=
  let '(d, desc, q) := b in mkTxn d (build_desc desc) (pair_build tbd_account acct s_CHF q dec_nil) None.

Theorem cumulus_faithful acct entries :
  acct <> tbd_account -> forallb cum_wf_entry entries = true ->
  exists ts, import_cumulus acct (map CRec (flat_map cum_records entries)) = MOk (map DTxn ts) /\
    Forall2 (books acct tbd_account) (flat_map cum_facts entries) ts /\
    map t_desc ts = map build_desc (flat_map cum_texts entries).
Proof.
  intros Hne Hwf. exists (map (cum_txn_of acct) (flat_map cum_builder entries)).
  unfold import_cumulus. rewrite (cum_loop_entries entries [] Hwf). cbn [mbind].
  rewrite app_nil_r, rev_involutive. split.
  - rewrite map_map. f_equal. apply map_ext. intros [[d desc] q]. reflexivity.
  - clear Hwf. induction entries as [|e es IH]; [split; [constructor|reflexivity]|].
    destruct IH as [IH1 IH2]. destruct (cum_builder_books acct e Hne) as [H1 H2].
    cbn [flat_map]. rewrite !map_app. split.
    + apply Forall2_app; assumption.
    + rewrite IH2. f_equal. rewrite <- H2. rewrite !map_map. apply map_ext. intros [[d desc] q]. reflexivity.
Qed.

(* ---------------------------------------------------------------- shared back half *)

Lemma books_paired a c f t : books a c f t -> txn_ok t.
Proof.
  intros (_ & (q & [H|H]) & _). all: unfold txn_ok; rewrite H; apply pair_build_paired.
Qed.

Lemma books_all_paired a c fs ts : Forall2 (books a c) fs ts -> Forall directive_ok (map DTxn ts).
Proof.
  induction 1; cbn [map]; constructor; [|assumption].
  cbn [directive_ok]. eapply books_paired; eassumption.
Qed.

(* what the importers hand to journal.Print consists of posting pairs, day by day *)
Lemma imported_days_ok a c fs ts :
  Forall2 (books a c) fs ts -> Forall day_ok (b_days (builder_of (map DTxn ts))).
Proof. intros H. apply builder_of_ok. eapply books_all_paired; eassumption. Qed.

(* Printer.printTransaction writes the description verbatim between two double quotes *)
Lemma print_txn_header padding t : t_targets t = None ->
  print_txn padding t =
  format_date (t_date t) ++ [32; 34]%Z ++ t_desc t ++ [34; 10]%Z ++
  concat (map (fun p => print_posting padding p ++ [10%Z]) (odd_postings (t_postings t))).
Proof.
  intros H. unfold print_txn. rewrite H. cbn [app]. rewrite <- ?app_assoc. reflexivity.
Qed.

(* the successful end of a run: stdout is the printed journal of the imported directives *)
Lemma finish_run_ok pre ds : finish_run false pre (MOk ds) = mkRun (pre ++ print_directives ds) SOk.
Proof. reflexivity. Qed.

Lemma run_swisscard2_ok flag acct items ds : account_flag flag = AAcc acct ->
  import_swisscard2 acct items = MOk ds -> run_swisscard2 flag items = mkRun (print_directives ds) SOk.
Proof. intros Hf Hi. unfold run_swisscard2. rewrite Hf, Hi. reflexivity. Qed.
Lemma run_cumulus_ok flag acct items ds : account_flag flag = AAcc acct ->
  import_cumulus acct items = MOk ds -> run_cumulus flag items = mkRun (print_directives ds) SOk.
Proof. intros Hf Hi. unfold run_cumulus. rewrite Hf, Hi. reflexivity. Qed.
Lemma run_swisscard_ok flag acct items ds : account_flag flag = AAcc acct ->
  import_swisscard acct items = MOk ds -> run_swisscard flag items = mkRun (print_directives ds) SOk.
Proof. intros Hf Hi. unfold run_swisscard. rewrite Hf, Hi. reflexivity. Qed.
Lemma run_supercard_ok flag acct items ds : account_flag flag = AAcc acct ->
  import_supercard acct items = MOk ds -> run_supercard flag items = mkRun (print_directives ds) SOk.
Proof. intros Hf Hi. unfold run_supercard. rewrite Hf, Hi. reflexivity. Qed.
Lemma run_postfinance_ok dbg flag acct items ds out : account_flag flag = AAcc acct ->
  import_postfinance dbg acct items = (MOk ds, out) ->
  run_postfinance dbg flag items = mkRun (out ++ print_directives ds) SOk.
Proof. intros Hf Hi. unfold run_postfinance. rewrite Hf, Hi. reflexivity. Qed.
Lemma run_viac_ok flag items ds : valid_name flag = true ->
  import_viac flag 0 items = MOk ds -> run_viac flag None items = mkRun (print_directives ds) SOk.
Proof.
  intros Hf Hi. unfold run_viac. destruct flag; [discriminate Hf|]. cbn [is_empty]. rewrite Hf, Hi. reflexivity.
Qed.

(* F13: whatever the statement, the debug line of the postfinance importer is not empty *)
Lemma pf_debug_line_nonempty r : pf_debug_line true r <> [].
Proof.
  unfold pf_debug_line. intros H.
  apply (f_equal (@length Z)) in H. rewrite !app_length in H. cbn [length] in H. lia.
Qed.

(* ---------------------------------------------------------------- witnesses *)

Definition first_line (s : str) : str :=
  (fix go (s : str) : str := match s with [] => [] | c :: t => if (c =? 10)%Z then [] else c :: go t end) s.

(* 06.07.2024 *)
Definition w_date : str := [48;54;46;48;55;46;50;48;50;52]%Z.
Definition w_acct_flag : str := [65;115;115;101;116;115;58;65]%Z.            (* Assets:A *)
(* a swisscard2 row whose Beschreibung is a single double quote *)
Definition w_quote_row : list str :=
  [w_date; [34]; [97]; [97]; s_CHF; [49]; []; []; [97]; [97]; [97]; [97]]%Z.

(* since fix faa0268 (Builder.Build maps the double quote to a single quote) the header line of
   that row has exactly the two delimiting quotes *)
Lemma quote_witness :
  sc2_wf_row w_quote_row = true /\
  ir_status (run_swisscard2 w_acct_flag [CRec []; CRec w_quote_row]) = SOk /\
  count_quotes (first_line (ir_stdout (run_swisscard2 w_acct_flag [CRec []; CRec w_quote_row]))) = 2%nat.
Proof. vm_compute. repeat split. Qed.

(* Build as pinned (description verbatim): the same description printed by the same printer
   gives a header line with three double quotes (F14) *)
Lemma quote_witness_pinned :
  count_quotes (first_line (print_directives
     [simple_txn_pinned 738000 [34]%Z [s_Assets; [65]%Z] tbd_account s_CHF (of_int 1)])) = 3%nat.
Proof. vm_compute. reflexivity. Qed.

(* no description built by Builder.Build contains a double quote *)
Lemma build_desc_no_quote s : count_quotes (build_desc s) = 0%nat.
Proof.
  unfold count_quotes, build_desc. induction s as [|c s IH]; [reflexivity|].
  cbn [map filter]. destruct (c =? 34)%Z eqn:Hc.
  - cbn. exact IH.
  - rewrite Z.eqb_sym in Hc. rewrite Hc. exact IH.
Qed.

Lemma simple_txn_header date desc credit debit com q :
  exists rest,
    print_directives [simple_txn date desc credit debit com q] =
    format_date date ++ [32; 34]%Z ++ build_desc desc ++ [34; 10]%Z ++ rest.
Proof.
  unfold print_directives, simple_txn, builder_of.
  cbn [fold_left builder_add new_builder b_days upd_day t_date].
  unfold print_journal, sort_days, add_txn_day, empty_day.
  cbn [map d_txns app d_date d_prices d_opens d_asserts d_closes d_normalized].
  unfold set_txns, sort_by. cbn [rev app fold_right insert_sorted d_txns d_date d_prices d_opens d_asserts d_closes d_normalized].
  cbn [map concat]. unfold print_day.
  cbn [d_txns d_date d_prices d_opens d_asserts d_closes map concat app print_asserts].
  unfold print_txn at 1. cbn [t_targets t_date t_desc app].
  rewrite <- !app_assoc. cbn [app]. rewrite <- !app_assoc. cbn [app]. eexists. reflexivity.
Qed.

Lemma build_desc_length s : length (build_desc s) = length s.
Proof. apply map_length. Qed.

(* bytes other than the double quote are kept *)
Lemma build_desc_id s : count_quotes s = 0%nat -> build_desc s = s.
Proof.
  unfold count_quotes, build_desc. induction s as [|c s IH]; [reflexivity|].
  cbn [map filter]. rewrite (Z.eqb_sym 34 c). destruct (c =? 34)%Z eqn:Hc; cbn [length]; [discriminate|].
  intros H. rewrite IH by assumption. reflexivity.
Qed.

(* a postfinance statement without rows: the column header and one disclaimer line *)
Lemma pf_stdout_witness :
  let items := pf_statement [] [[97]%Z] [] [[68]%Z] [] in
  fst (import_postfinance true [s_Assets; [65]%Z] items) = MOk [] /\
  ir_status (run_postfinance true w_acct_flag items) = SOk /\
  ir_stdout (run_postfinance true w_acct_flag items) <> print_directives [].
Proof. vm_compute. repeat split. discriminate. Qed.

(* ---------------------------------------------------------------- end to end: flags to stdout *)

Theorem swisscard2_run flag acct header rows :
  account_flag flag = AAcc acct -> acct <> tbd_account -> forallb sc2_wf_row rows = true ->
  exists ts, run_swisscard2 flag (CRec header :: map CRec rows) = mkRun (print_directives (map DTxn ts)) SOk /\
    Forall2 (books acct tbd_account) (map sc2_fact rows) ts /\ map t_desc ts = map build_desc (map sc2_text rows).
Proof.
  intros Hf Hne Hwf. destruct (swisscard2_faithful acct header rows Hne Hwf) as (ts & Hi & Hb & Hd).
  exists ts. split; [eapply run_swisscard2_ok; eassumption|]. split; assumption.
Qed.

Theorem swisscard_run flag acct rows :
  account_flag flag = AAcc acct -> acct <> tbd_account -> forallb sc_wf_row rows = true ->
  exists ts, run_swisscard flag (map CRec rows) = mkRun (print_directives (map DTxn ts)) SOk /\
    Forall2 (books acct tbd_account) (map sc_fact (filter sc_is_booking rows)) ts /\
    map t_desc ts = map build_desc (map sc_text (filter sc_is_booking rows)).
Proof.
  intros Hf Hne Hwf. destruct (swisscard_faithful acct rows Hne Hwf) as (ts & Hi & Hb & Hd).
  exists ts. split; [eapply run_swisscard_ok; eassumption|]. split; assumption.
Qed.

Theorem supercard_run flag acct header rows :
  account_flag flag = AAcc acct -> acct <> tbd_account -> forallb sup_wf_row rows = true ->
  exists ts, run_supercard flag (CRec sup_first :: CRec header :: map CRec rows) = mkRun (print_directives (map DTxn ts)) SOk /\
    Forall2 (books acct tbd_account) (map sup_fact (filter sup_is_booking rows)) ts /\
    map t_desc ts = map build_desc (map sup_text (filter sup_is_booking rows)).
Proof.
  intros Hf Hne Hwf. destruct (supercard_faithful acct header rows Hne Hwf) as (ts & Hi & Hb & Hd).
  exists ts. split; [eapply run_supercard_ok; eassumption|]. split; assumption.
Qed.

Theorem cumulus_run flag acct entries :
  account_flag flag = AAcc acct -> acct <> tbd_account -> forallb cum_wf_entry entries = true ->
  exists ts, run_cumulus flag (map CRec (flat_map cum_records entries)) = mkRun (print_directives (map DTxn ts)) SOk /\
    Forall2 (books acct tbd_account) (flat_map cum_facts entries) ts /\
    map t_desc ts = map build_desc (flat_map cum_texts entries).
Proof.
  intros Hf Hne Hwf. destruct (cumulus_faithful acct entries Hne Hwf) as (ts & Hi & Hb & Hd).
  exists ts. split; [eapply run_cumulus_ok; eassumption|]. split; assumption.
Qed.

Theorem postfinance_run dbg flag acct kvs header rows d1 ds :
  let cur := pf_header_currency kvs s_CHF in
  account_flag flag = AAcc acct -> acct <> tbd_account ->
  forallb pf_is_kv kvs = true -> pf_is_kv header = false -> valid_name cur = true ->
  forallb pf_wf_row rows = true -> pf_is_row d1 = false -> forallb (fun r => len_is r 1) ds = true ->
  exists ts, run_postfinance dbg flag (pf_statement kvs header rows d1 ds) =
             mkRun (pf_debug_line dbg d1 ++ print_directives (map DTxn ts)) SOk /\
    Forall2 (books acct tbd_account) (map (pf_fact cur) rows) ts /\
    map t_desc ts = map build_desc (map pf_text rows).
Proof.
  intros cur Hf Hne Hk Hh Hc Hr Hd1 Hds.
  destruct (postfinance_faithful dbg acct kvs header rows d1 ds Hne Hk Hh Hc Hr Hd1 Hds) as (ts & Hi & Hb & Hd).
  exists ts. split; [eapply run_postfinance_ok; eassumption|]. split; assumption.
Qed.

Theorem viac_run flag l :
  valid_name flag = true -> forallb viac_wf_entry l = true ->
  run_viac flag None (VValues l) = mkRun (print_directives (map (price_of flag s_CHF) (viac_prices 0 l))) SOk.
Proof. intros Hf Hwf. apply run_viac_ok; [assumption|]. apply viac_faithful. assumption. Qed.
