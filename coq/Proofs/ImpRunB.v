(* C13, group B importers: from the command line to standard output.  With every account flag
   valid (hence naming an account: no nil account reaches the printer) the command succeeds on
   every well-formed statement and prints exactly the directives of the statement theorem. *)
From Coq Require Import ZArith QArith List Bool Lia.
From Knut Require Import Model.Str Model.Dec Model.Date Model.Account Model.Ledger Model.Journal
     Model.Table Model.ImpCommonA Model.ImpCommonB Model.Imp.Revolut2 Model.Imp.Revolut Model.Imp.Wise Model.Imp.Swissquote
     Model.Imp.Interactivebrokers Model.Imp.Viac
     Spec.ImpSpecA Spec.ImpSpecB Spec.ImpSpecIB
     Proofs.PairProofs Proofs.ImpProofsA Proofs.ImpProofsB Proofs.ImpProofsIB.
Import ListNotations.
Open Scope bool_scope.

(* ---------------------------------------------------------------- no nil account *)
Definition nil_posting (p : posting) : bool := is_nil_account (p_acc p) || is_nil_account (p_other p).
Definition leg_named (l : leg) : bool := negb (is_nil_account (l_credit l)) && negb (is_nil_account (l_debit l)).

Lemma account_flag_named f a : account_flag f = AAcc a -> is_nil_account a = false.
Proof.
  unfold account_flag. destruct (is_empty f); [discriminate|]. cbv zeta.
  destruct (acc_of_name f) as [|t tail]; [discriminate|].
  destruct (parse_atype t); [|discriminate]. destruct (forallb valid_name tail); [|discriminate].
  intros H. injection H as <-. reflexivity.
Qed.

Lemma pair_build_named cr db com q v : is_nil_account cr = false -> is_nil_account db = false ->
  existsb nil_posting (pair_build cr db com q v) = false.
Proof.
  intros H1 H2. unfold pair_build, nil_posting. destruct (is_neg q || is_zero q && is_neg v);
    cbn [existsb p_acc p_other]; rewrite H1, H2; reflexivity.
Qed.

Lemma legs_postings_named ls : forallb leg_named ls = true -> existsb nil_posting (legs_postings ls) = false.
Proof.
  unfold legs_postings. induction ls as [|l ls IH]; intros H; [reflexivity|].
  cbn [forallb] in H. apply andb_prop in H. destruct H as [Hl Hls]. cbn [flat_map]. rewrite existsb_app, (IH Hls), orb_false_r.
  unfold leg_named in Hl. apply andb_prop in Hl. destruct Hl as [Hc Hd].
  apply negb_true_iff in Hc. apply negb_true_iff in Hd. apply pair_build_named; assumption.
Qed.

Lemma uses_nil_app a b : uses_nil (a ++ b) = uses_nil a || uses_nil b.
Proof. apply existsb_app. Qed.

Lemma tbd_named : is_nil_account tbd_account = false.
Proof. reflexivity. Qed.

(* ---------------------------------------------------------------- us.interactivebrokers *)
Section IBRun.
  Variables acct dividend interest tax fee trading : account.
  Hypothesis Na : is_nil_account acct = false.
  Hypothesis Nd : is_nil_account dividend = false.
  Hypothesis Ni : is_nil_account interest = false.
  Hypothesis Nw : is_nil_account tax = false.
  Hypothesis Nf : is_nil_account fee = false.
  Hypothesis Nt : is_nil_account trading = false.

  Lemma ibs_row_named ctx r :
    uses_nil (map (item_dir acct) (ibs_row acct dividend interest tax fee trading ctx r)) = false.
  Proof.
    assert (Htxn : forall e, forallb leg_named (en_legs (fst e)) = true -> uses_nil [item_dir acct (IbTxn e)] = false).
    { intros e He. unfold uses_nil. cbn [existsb item_dir tentry_txn t_postings]. rewrite orb_false_r.
      apply (legs_postings_named _ He). }
    assert (Hbal : forall b, uses_nil [item_dir acct (IbBal b)] = false).
    { intros b. unfold uses_nil. cbn [existsb item_dir assertion_of bal_acc]. rewrite Na. reflexivity. }
    unfold ibs_row. destruct (ibs_kind r); cbn [map]; try reflexivity; try apply Hbal; apply Htxn.
    - unfold ibs_forex_trade. cbn [fst en_legs]. rewrite forallb_app. unfold leg_named; cbn [forallb l_credit l_debit].
      rewrite Na, Nt. destruct (is_zero _); unfold leg_named; cbn [forallb l_credit l_debit]; rewrite ?Na, ?Nf; reflexivity.
    - unfold ibs_stock_trade. unfold leg_named; cbn [fst en_legs forallb l_credit l_debit]. rewrite Na, Nt, Nf. reflexivity.
    - unfold ibs_deposit. unfold leg_named; cbn [fst en_legs forallb l_credit l_debit]. rewrite Na, tbd_named. reflexivity.
    - unfold ibs_income. unfold leg_named; cbn [fst en_legs forallb l_credit l_debit]. rewrite Na, Nd. reflexivity.
    - unfold ibs_income. unfold leg_named; cbn [fst en_legs forallb l_credit l_debit]. rewrite Na, Ni. reflexivity.
    - unfold ibs_income. unfold leg_named; cbn [fst en_legs forallb l_credit l_debit]. rewrite Na, Nw. reflexivity.
  Qed.

  Lemma ibs_items_named rows : forall ctx,
    uses_nil (map (item_dir acct) (ibs_items acct dividend interest tax fee trading ctx rows)) = false.
  Proof.
    induction rows as [|r rows IH]; intros ctx; [reflexivity|].
    cbn [ibs_items]. rewrite map_app, uses_nil_app, ibs_row_named, IH. reflexivity.
  Qed.
End IBRun.

Lemma item_dir_directive acct i : item_dir acct i = ibs_directive acct i.
Proof. destruct i; reflexivity. Qed.

Lemma run_interactivebrokers_ok aflag iflag dflag wflag fflag tflag acct dividend interest tax fee trading rows :
  account_flag aflag = AAcc acct -> account_flag iflag = AAcc interest -> account_flag dflag = AAcc dividend ->
  account_flag wflag = AAcc tax -> account_flag fflag = AAcc fee -> account_flag tflag = AAcc trading ->
  ibs_wf ibs_ctx0 rows = true ->
  run_interactivebrokers aflag iflag dflag wflag fflag tflag (map CRec rows) =
  mkRun (print_directives (map (item_dir acct) (ibs_items acct dividend interest tax fee trading ibs_ctx0 rows))) SOk.
Proof.
  intros Fa Fi Fd Fw Ff Ft Hwf.
  unfold run_interactivebrokers. cbn [resolve_flags]. rewrite Fa, Fi, Fd, Fw, Ff, Ft. cbn [flag_account].
  unfold import_interactivebrokers. change (mkIb None (of_civil 1 1 1)) with (st_of ibs_ctx0).
  rewrite (ib_rows_spec acct dividend interest tax fee trading rows ibs_ctx0 Hwf). cbn [finish_run_b].
  rewrite ibs_items_named; [reflexivity|eapply account_flag_named; eassumption..].
Qed.

Theorem interactivebrokers_run aflag iflag dflag wflag fflag tflag acct dividend interest tax fee trading rows :
  account_flag aflag = AAcc acct -> account_flag iflag = AAcc interest -> account_flag dflag = AAcc dividend ->
  account_flag wflag = AAcc tax -> account_flag fflag = AAcc fee -> account_flag tflag = AAcc trading ->
  acct <> tbd_account -> acct <> dividend -> acct <> interest -> acct <> tax -> acct <> fee -> acct <> trading ->
  ibs_wf ibs_ctx0 rows = true ->
  let items := ibs_items acct dividend interest tax fee trading ibs_ctx0 rows in
  exists ds,
    run_interactivebrokers aflag iflag dflag wflag fflag tflag (map CRec rows) = mkRun (print_directives ds) SOk /\
    Forall2 (ibs_emitted acct) items ds /\
    length (filter is_txn_dir ds) = length (filter ibs_is_booking rows) /\
    length (filter (fun d => negb (is_txn_dir d)) ds) = length (filter ibs_is_balance rows).
Proof.
  intros Fa Fi Fd Fw Ff Ft H1 H2 H3 H4 H5 H6 Hwf items.
  exists (map (item_dir acct) items). split; [|split].
  - eapply run_interactivebrokers_ok; eassumption.
  - apply ibs_items_emitted; assumption.
  - apply ibs_items_counts.
Qed.

(* the executable form the check evaluates on the binary's standard output *)
Theorem interactivebrokers_stdout aflag iflag dflag wflag fflag tflag acct dividend interest tax fee trading rows :
  account_flag aflag = AAcc acct -> account_flag iflag = AAcc interest -> account_flag dflag = AAcc dividend ->
  account_flag wflag = AAcc tax -> account_flag fflag = AAcc fee -> account_flag tflag = AAcc trading ->
  ibs_wf ibs_ctx0 rows = true ->
  exists out, ibs_statement_output acct dividend interest tax fee trading rows = Some out /\
    run_interactivebrokers aflag iflag dflag wflag fflag tflag (map CRec rows) = mkRun out SOk.
Proof.
  intros Fa Fi Fd Fw Ff Ft Hwf. unfold ibs_statement_output. rewrite Hwf. eexists. split; [reflexivity|].
  rewrite (run_interactivebrokers_ok _ _ _ _ _ _ _ _ _ _ _ _ _ Fa Fi Fd Fw Ff Ft Hwf).
  reflexivity.
Qed.

(* ---------------------------------------------------------------- revolut2, revolut, wise, swissquote *)
(* a transaction that books bookings between named accounts has no nil account *)
Lemma books_b_named acct f ls tg t : books_b acct f ls tg t -> forallb leg_named ls = true ->
  existsb nil_posting (t_postings t) = false.
Proof.
  intros (_ & Hc & _) Hn. unfold consists_of in Hc. rewrite Hc, <- legs_postings_spec. apply legs_postings_named. exact Hn.
Qed.

Lemma forall2_books_named {A} acct (fact : A -> row_effect) (legs : A -> list leg) (tg : A -> option (list commodity)) xs ts :
  Forall2 (fun x t => books_b acct (fact x) (legs x) (tg x) t) xs ts ->
  (forall x, In x xs -> forallb leg_named (legs x) = true) ->
  uses_nil (map DTxn ts) = false.
Proof.
  intros H. induction H as [|x t xs ts Hb _ IH]; intros Hn; [reflexivity|].
  cbn [map]. change (uses_nil (DTxn t :: map DTxn ts)) with (existsb nil_posting (t_postings t) || uses_nil (map DTxn ts)).
  rewrite (books_b_named _ _ _ _ _ Hb (Hn x (or_introl eq_refl))), IH; [reflexivity|].
  intros y Hy. apply Hn. right. exact Hy.
Qed.

Lemma assertions_named acct bals : is_nil_account acct = false -> uses_nil (map (assertion_of acct) bals) = false.
Proof.
  intros Na. induction bals as [|b bals IH]; [reflexivity|].
  cbn [map]. change (uses_nil (assertion_of acct b :: map (assertion_of acct) bals))
    with ((is_nil_account acct || false) || uses_nil (map (assertion_of acct) bals)).
  rewrite Na, IH. reflexivity.
Qed.

Ltac named_legs := unfold leg_named; cbn [forallb l_credit l_debit]; repeat match goal with H : is_nil_account _ = false |- _ => rewrite H end; try reflexivity.

(* revolut2 *)
Theorem revolut2_run aflag fflag acct feeacct rows :
  account_flag aflag = AAcc acct -> account_flag fflag = AAcc feeacct ->
  acct <> tbd_account -> acct <> feeacct -> forallb r2_wf_row rows = true ->
  exists ts bals,
    run_revolut2 aflag fflag (CRec r2_header :: map CRec rows) =
      mkRun (print_directives (map DTxn ts ++ map (assertion_of acct) bals)) SOk /\
    Forall2 (fun r t => books_b acct (r2_fact r) (r2_legs acct feeacct r) None t) (filter r2_is_booking rows) ts /\
    map t_desc ts = map build_desc (map r2_text (filter r2_is_booking rows)) /\
    NoDup (map (fun b => (bf_date b, bf_com b)) bals) /\
    (forall d c v, In (mkBalFact d c v) bals <-> r2_closing (d, c) rows = Some v).
Proof.
  intros Fa Ff H1 H2 Hwf. destruct (revolut2_faithful acct feeacct rows H1 H2 Hwf) as (ts & bals & Hi & Hb & Hrest).
  exists ts, bals. split; [|split; assumption].
  pose proof (account_flag_named _ _ Fa) as Na. pose proof (account_flag_named _ _ Ff) as Nf. pose proof tbd_named as Nt.
  unfold run_revolut2. cbn [resolve_flags]. rewrite Fa, Ff. cbn [flag_account]. rewrite Hi. cbn [finish_run_b].
  rewrite uses_nil_app, (assertions_named acct bals Na), orb_false_r.
  rewrite (forall2_books_named acct r2_fact (r2_legs acct feeacct) (fun _ => None) _ _ Hb); [reflexivity|].
  intros r _. unfold r2_legs. destruct (is_zero (r2_fee r)); named_legs.
Qed.

(* revolut: assertions woven between the transactions *)
Lemma rv_weave_named acct cur rows : forall prev ts, is_nil_account acct = false ->
  uses_nil (map DTxn ts) = false -> uses_nil (rv_weave acct cur prev rows ts) = false.
Proof.
  induction rows as [|r rows IH]; intros prev ts Na Hts; [reflexivity|].
  destruct ts as [|t ts]; [reflexivity|]. cbn [rv_weave].
  cbn [map] in Hts. change (uses_nil (DTxn t :: map DTxn ts)) with (existsb nil_posting (t_postings t) || uses_nil (map DTxn ts)) in Hts.
  apply orb_false_elim in Hts. destruct Hts as [Ht Hts].
  rewrite uses_nil_app.
  change (uses_nil (DTxn t :: rv_weave acct cur (rv_date r) rows ts))
    with (existsb nil_posting (t_postings t) || uses_nil (rv_weave acct cur (rv_date r) rows ts)).
  rewrite Ht, (IH _ _ Na Hts).
  destruct (Z.eqb (rv_date r) prev); [reflexivity|].
  change (uses_nil [assertion_of acct (mkBalFact (rv_date r) cur (rv_balance r))]) with ((is_nil_account acct || false) || false).
  rewrite Na. reflexivity.
Qed.

Theorem revolut_run aflag acct cur header rows :
  account_flag aflag = AAcc acct ->
  acct <> tbd_account -> acct <> valuation_account_for acct ->
  len_is header 9 = true -> field header 2 = s_paid_out ++ cur ++ [41%Z] ->
  forallb is_alpha cur = true -> cur <> [] ->
  forallb rv_wf_row rows = true ->
  exists ts,
    run_revolut aflag (CRec header :: map CRec rows) = mkRun (print_directives (rv_weave acct cur zero_date rows ts)) SOk /\
    Forall2 (fun r t => books_b acct (rv_fact cur r) (rv_legs acct cur r) None t) rows ts /\
    map t_desc ts = map build_desc (map rv_text rows).
Proof.
  intros Fa H1 H2 Hl Hh Hc Hne Hwf.
  destruct (revolut_faithful acct cur header rows H1 H2 Hl Hh Hc Hne Hwf) as (ts & Hi & Hb & Hd).
  exists ts. split; [|split; assumption].
  pose proof (account_flag_named _ _ Fa) as Na. pose proof tbd_named as Nt.
  assert (Nv : is_nil_account (valuation_account_for acct) = false) by reflexivity.
  unfold run_revolut. cbn [resolve_flags]. rewrite Fa. cbn [flag_account]. rewrite Hi. cbn [finish_run_b].
  rewrite rv_weave_named; [reflexivity|exact Na|].
  apply (forall2_books_named acct (rv_fact cur) (rv_legs acct cur) (fun _ => None) _ _ Hb).
  intros r _. unfold rv_legs. destruct (rv_exchange r) as [[c q]|]; named_legs.
Qed.

(* wise *)
Lemma fee_legs_named acct feeacct (fees : list (commodity * dec)) :
  is_nil_account acct = false -> is_nil_account feeacct = false ->
  forallb leg_named (map (fun f => mkLeg acct feeacct (fst f) (snd f)) fees) = true.
Proof.
  intros Na Nf. induction fees as [|f fs IH]; [reflexivity|]. cbn [map forallb]. rewrite IH. named_legs.
Qed.

Lemma ws_entries_named rep acct feeacct trading r e :
  is_nil_account acct = false -> is_nil_account feeacct = false -> is_nil_account trading = false ->
  In e (ws_entries rep acct feeacct trading r) -> forallb leg_named (en_legs e) = true.
Proof.
  intros Na Nf Nt Hin. pose proof tbd_named as Nb. unfold ws_entries in Hin.
  destruct (ws_cancelled r); [destruct Hin|].
  pose proof (fee_legs_named acct feeacct (ws_fees r) Na Nf) as Hfee.
  destruct (ws_converted r); destruct (ws_dir_of r); cbn [In] in Hin;
    repeat (destruct Hin as [Hin|Hin]; [subst e|]); try contradiction;
    try (destruct rep); cbn [en_legs]; rewrite ?forallb_app, ?Hfee; named_legs.
Qed.

Theorem wise_run rep aflag fflag tflag acct feeacct trading rows :
  account_flag aflag = AAcc acct -> account_flag fflag = AAcc feeacct -> account_flag tflag = AAcc trading ->
  acct <> tbd_account -> acct <> feeacct -> acct <> trading -> forallb ws_wf_row rows = true ->
  let entries := flat_map (ws_entries rep acct feeacct trading) rows in
  exists ts,
    run_wise rep aflag fflag tflag (CRec ws_header :: map CRec rows) = mkRun (print_directives (map DTxn ts)) SOk /\
    Forall2 (fun e t => books_b acct (en_fact e) (en_legs e) None t) entries ts /\
    map t_desc ts = map build_desc (map en_text entries).
Proof.
  intros Fa Ff Ft H1 H2 H3 Hwf entries.
  destruct (wise_faithful rep acct feeacct trading rows H1 H2 H3 Hwf) as (ts & Hi & Hb & Hd).
  exists ts. split; [|split; assumption].
  pose proof (account_flag_named _ _ Fa) as Na. pose proof (account_flag_named _ _ Ff) as Nf.
  pose proof (account_flag_named _ _ Ft) as Nt.
  unfold run_wise. cbn [resolve_flags]. rewrite Fa, Ff, Ft. cbn [flag_account]. rewrite Hi. cbn [finish_run_b].
  rewrite (forall2_books_named acct en_fact en_legs (fun _ => None) _ _ Hb); [reflexivity|].
  intros e He. apply in_flat_map in He. destruct He as (r & _ & He).
  exact (ws_entries_named rep acct feeacct trading r e Na Nf Nt He).
Qed.

(* swissquote *)
Section SQRun.
  Variables acct dividend interest tax fee trading : account.
  Hypothesis Na : is_nil_account acct = false.
  Hypothesis Nd : is_nil_account dividend = false.
  Hypothesis Ni : is_nil_account interest = false.
  Hypothesis Nw : is_nil_account tax = false.
  Hypothesis Nf : is_nil_account fee = false.
  Hypothesis Nt : is_nil_account trading = false.

  Lemma sqs_entries_named rows : forall pending e,
    In e (sqs_entries acct dividend interest tax fee trading pending rows) -> forallb leg_named (en_legs (fst e)) = true.
  Proof.
    pose proof tbd_named as Nb.
    assert (Hs : forall r, forallb leg_named (en_legs (fst (sqs_single acct dividend interest tax fee r))) = true).
    { intros r. unfold sqs_single. destruct (sqs_kind r); cbn [fst en_legs]; try destruct (is_zero (sqs_dec r 8)); named_legs. }
    induction rows as [|r rows IH]; intros pending e Hin; [destruct Hin|].
    cbn [sqs_entries] in Hin. destruct (sqs_kind r).
    2: destruct pending as [l|]; [|exact (IH _ _ Hin)].
    all: destruct Hin as [<-|Hin]; [|exact (IH _ _ Hin)]; try apply Hs.
    - unfold sqs_trade. cbn [fst en_legs]. named_legs.
    - unfold sqs_exchange. cbn [fst en_legs]. named_legs.
  Qed.
End SQRun.

Theorem swissquote_run aflag dflag iflag wflag fflag tflag acct dividend interest tax fee trading header rows :
  account_flag aflag = AAcc acct -> account_flag dflag = AAcc dividend -> account_flag iflag = AAcc interest ->
  account_flag wflag = AAcc tax -> account_flag fflag = AAcc fee -> account_flag tflag = AAcc trading ->
  acct <> tbd_account -> acct <> dividend -> acct <> interest -> acct <> tax -> acct <> fee -> acct <> trading ->
  sqs_wf false rows = true ->
  let entries := sqs_entries acct dividend interest tax fee trading None rows in
  exists ts,
    run_swissquote aflag dflag iflag wflag fflag tflag (CRec header :: map CRec rows) = mkRun (print_directives (map DTxn ts)) SOk /\
    Forall2 (fun e t => books_b acct (en_fact (fst e)) (en_legs (fst e)) (snd e) t) entries ts /\
    map t_desc ts = map build_desc (map (fun e => en_text (fst e)) entries).
Proof.
  intros Fa Fd Fi Fw Ff Ft H1 H2 H3 H4 H5 H6 Hwf entries.
  destruct (swissquote_faithful acct dividend interest tax fee trading header rows H1 H2 H3 H4 H5 H6 Hwf) as (ts & Hi & Hb & Hd).
  exists ts. split; [|split; assumption].
  unfold run_swissquote. cbn [resolve_flags]. rewrite Fa, Fd, Fi, Fw, Ff, Ft. cbn [flag_account]. rewrite Hi. cbn [finish_run_b].
  rewrite (forall2_books_named acct (fun e : tentry => en_fact (fst e)) (fun e : tentry => en_legs (fst e)) (fun e : tentry => snd e) _ _ Hb);
    [reflexivity|].
  intros e He. eapply sqs_entries_named; [..|exact He]; eapply account_flag_named; eassumption.
Qed.

(* ---------------------------------------------------------------- ch.viac with --from *)
Theorem viac_run_from flag from l fr :
  valid_name flag = true ->
  match from with None => Some 0%Z | Some f => parse_iso f end = Some fr ->
  forallb viac_wf_entry l = true ->
  run_viac flag from (VValues l) = mkRun (print_directives (map (price_of flag s_CHF) (viac_prices fr l))) SOk.
Proof.
  intros Hf Hfr Hwf. unfold run_viac. rewrite Hfr. destruct flag as [|c flag]; [discriminate Hf|]. cbn [is_empty]. rewrite Hf. cbn [negb].
  rewrite (viac_faithful (c :: flag) fr l Hwf). reflexivity.
Qed.

(* ---------------------------------------------------------------- shared back half for group B *)
(* a transaction that consists of bookings is a sequence of posting pairs; so is, day by day, the
   journal handed to the printer *)
Lemma legs_paired ls : paired (concat (map booking_postings ls)).
Proof.
  induction ls as [|l ls IH]; [constructor|]. cbn [map concat]. apply paired_app; [apply pair_build_paired|exact IH].
Qed.

Lemma books_b_paired acct f ls tg t : books_b acct f ls tg t -> txn_ok t.
Proof. intros (_ & Hc & _). unfold txn_ok. rewrite Hc. apply legs_paired. Qed.

Definition booked_directive (d : directive) : Prop :=
  match d with DTxn t => exists acct f ls tg, books_b acct f ls tg t | _ => True end.

Theorem booked_days_ok ds : Forall booked_directive ds -> Forall day_ok (b_days (builder_of ds)).
Proof.
  intros H. apply builder_of_ok. induction H as [|d ds Hd _ IH]; constructor; [|exact IH].
  destruct d; cbn [directive_ok]; try exact I. destruct Hd as (acct & f & ls & tg & Hb). eapply books_b_paired; exact Hb.
Qed.

Lemma ibs_emitted_booked acct items ds : Forall2 (ibs_emitted acct) items ds -> Forall booked_directive ds.
Proof.
  induction 1 as [|i d items ds Hd _ IH]; constructor; [|exact IH].
  destruct i as [e|b]; cbn [ibs_emitted] in Hd.
  - destruct Hd as (t & -> & Hb & _). cbn [booked_directive]. eauto.
  - subst d. exact I.
Qed.

Theorem interactivebrokers_days_ok acct items ds :
  Forall2 (ibs_emitted acct) items ds -> Forall day_ok (b_days (builder_of ds)).
Proof. intros H. apply booked_days_ok. eapply ibs_emitted_booked; exact H. Qed.
