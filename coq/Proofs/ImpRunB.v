(* C13, group B importers: from the command line to standard output.  With every account flag
   valid (hence naming an account: no nil account reaches the printer) the command succeeds on
   every well-formed statement and prints exactly the directives of the statement theorem. *)
From Coq Require Import ZArith QArith List Bool Lia.
From Knut Require Import Model.Str Model.Dec Model.Date Model.Account Model.Ledger Model.Journal
     Model.Table Model.ImpCommonA Model.ImpCommonB Model.Imp.Interactivebrokers
     Spec.ImpSpecA Spec.ImpSpecB Spec.ImpSpecIB
     Proofs.ImpProofsA Proofs.ImpProofsB Proofs.ImpProofsIB.
Import ListNotations.
Open Scope bool_scope.

(* ---------------------------------------------------------------- no nil account *)
Definition nil_posting (p : posting) : bool := is_nil_account (p_acc p) || is_nil_account (p_other p).
Definition leg_named (l : leg) : bool := negb (is_nil_account (l_credit l)) && negb (is_nil_account (l_debit l)).

Lemma account_flag_named f a : account_flag f = AAcc a -> is_nil_account a = false.
Proof.
  unfold account_flag. destruct (is_empty f); [discriminate|]. cbv zeta.
  destruct (acc_of_name f) as [|t tail]; [discriminate|].
  destruct (parse_atype t); [|discriminate]. destruct (forallb valid_name tail); [|discriminate].
  intros H. injection H as <-. reflexivity.
Qed.

Lemma pair_build_named cr db com q v : is_nil_account cr = false -> is_nil_account db = false ->
  existsb nil_posting (pair_build cr db com q v) = false.
Proof.
  intros H1 H2. unfold pair_build, nil_posting. destruct (is_neg q || is_zero q && is_neg v);
    cbn [existsb p_acc p_other]; rewrite H1, H2; reflexivity.
Qed.

Lemma legs_postings_named ls : forallb leg_named ls = true -> existsb nil_posting (legs_postings ls) = false.
Proof.
  unfold legs_postings. induction ls as [|l ls IH]; intros H; [reflexivity|].
  cbn [forallb] in H. apply andb_prop in H. destruct H as [Hl Hls]. cbn [flat_map]. rewrite existsb_app, (IH Hls), orb_false_r.
  unfold leg_named in Hl. apply andb_prop in Hl. destruct Hl as [Hc Hd].
  apply negb_true_iff in Hc. apply negb_true_iff in Hd. apply pair_build_named; assumption.
Qed.

Lemma uses_nil_app a b : uses_nil (a ++ b) = uses_nil a || uses_nil b.
Proof. apply existsb_app. Qed.

Lemma tbd_named : is_nil_account tbd_account = false.
Proof. reflexivity. Qed.

(* ---------------------------------------------------------------- us.interactivebrokers *)
Section IBRun.
  Variables acct dividend interest tax fee trading : account.
  Hypothesis Na : is_nil_account acct = false.
  Hypothesis Nd : is_nil_account dividend = false.
  Hypothesis Ni : is_nil_account interest = false.
  Hypothesis Nw : is_nil_account tax = false.
  Hypothesis Nf : is_nil_account fee = false.
  Hypothesis Nt : is_nil_account trading = false.

  Lemma ibs_row_named ctx r :
    uses_nil (map (item_dir acct) (ibs_row acct dividend interest tax fee trading ctx r)) = false.
  Proof.
    assert (Htxn : forall e, forallb leg_named (en_legs (fst e)) = true -> uses_nil [item_dir acct (IbTxn e)] = false).
    { intros e He. unfold uses_nil. cbn [existsb item_dir tentry_txn t_postings]. rewrite orb_false_r.
      apply (legs_postings_named _ He). }
    assert (Hbal : forall b, uses_nil [item_dir acct (IbBal b)] = false).
    { intros b. unfold uses_nil. cbn [existsb item_dir assertion_of bal_acc]. rewrite Na. reflexivity. }
    unfold ibs_row. destruct (ibs_kind r); cbn [map]; try reflexivity; try apply Hbal; apply Htxn.
    - unfold ibs_forex_trade. cbn [fst en_legs]. rewrite forallb_app. unfold leg_named; cbn [forallb l_credit l_debit].
      rewrite Na, Nt. destruct (is_zero _); unfold leg_named; cbn [forallb l_credit l_debit]; rewrite ?Na, ?Nf; reflexivity.
    - unfold ibs_stock_trade. unfold leg_named; cbn [fst en_legs forallb l_credit l_debit]. rewrite Na, Nt, Nf. reflexivity.
    - unfold ibs_deposit. unfold leg_named; cbn [fst en_legs forallb l_credit l_debit]. rewrite Na, tbd_named. reflexivity.
    - unfold ibs_income. unfold leg_named; cbn [fst en_legs forallb l_credit l_debit]. rewrite Na, Nd. reflexivity.
    - unfold ibs_income. unfold leg_named; cbn [fst en_legs forallb l_credit l_debit]. rewrite Na, Ni. reflexivity.
    - unfold ibs_income. unfold leg_named; cbn [fst en_legs forallb l_credit l_debit]. rewrite Na, Nw. reflexivity.
  Qed.

  Lemma ibs_items_named rows : forall ctx,
    uses_nil (map (item_dir acct) (ibs_items acct dividend interest tax fee trading ctx rows)) = false.
  Proof.
    induction rows as [|r rows IH]; intros ctx; [reflexivity|].
    cbn [ibs_items]. rewrite map_app, uses_nil_app, ibs_row_named, IH. reflexivity.
  Qed.
End IBRun.

Lemma item_dir_directive acct i : item_dir acct i = ibs_directive acct i.
Proof. destruct i; reflexivity. Qed.

Lemma run_interactivebrokers_ok aflag iflag dflag wflag fflag tflag acct dividend interest tax fee trading rows :
  account_flag aflag = AAcc acct -> account_flag iflag = AAcc interest -> account_flag dflag = AAcc dividend ->
  account_flag wflag = AAcc tax -> account_flag fflag = AAcc fee -> account_flag tflag = AAcc trading ->
  ibs_wf ibs_ctx0 rows = true ->
  run_interactivebrokers aflag iflag dflag wflag fflag tflag (map CRec rows) =
  mkRun (print_directives (map (item_dir acct) (ibs_items acct dividend interest tax fee trading ibs_ctx0 rows))) SOk.
Proof.
  intros Fa Fi Fd Fw Ff Ft Hwf.
  unfold run_interactivebrokers. cbn [resolve_flags]. rewrite Fa, Fi, Fd, Fw, Ff, Ft. cbn [flag_account].
  unfold import_interactivebrokers. change (mkIb None (of_civil 1 1 1)) with (st_of ibs_ctx0).
  rewrite (ib_rows_spec acct dividend interest tax fee trading rows ibs_ctx0 Hwf). cbn [finish_run_b].
  rewrite ibs_items_named; [reflexivity|eapply account_flag_named; eassumption..].
Qed.

Theorem interactivebrokers_run aflag iflag dflag wflag fflag tflag acct dividend interest tax fee trading rows :
  account_flag aflag = AAcc acct -> account_flag iflag = AAcc interest -> account_flag dflag = AAcc dividend ->
  account_flag wflag = AAcc tax -> account_flag fflag = AAcc fee -> account_flag tflag = AAcc trading ->
  acct <> tbd_account -> acct <> dividend -> acct <> interest -> acct <> tax -> acct <> fee -> acct <> trading ->
  ibs_wf ibs_ctx0 rows = true ->
  let items := ibs_items acct dividend interest tax fee trading ibs_ctx0 rows in
  exists ds,
    run_interactivebrokers aflag iflag dflag wflag fflag tflag (map CRec rows) = mkRun (print_directives ds) SOk /\
    Forall2 (ibs_emitted acct) items ds /\
    length (filter is_txn_dir ds) = length (filter ibs_is_booking rows) /\
    length (filter (fun d => negb (is_txn_dir d)) ds) = length (filter ibs_is_balance rows).
Proof.
  intros Fa Fi Fd Fw Ff Ft H1 H2 H3 H4 H5 H6 Hwf items.
  exists (map (item_dir acct) items). split; [|split].
  - eapply run_interactivebrokers_ok; eassumption.
  - apply ibs_items_emitted; assumption.
  - apply ibs_items_counts.
Qed.

(* the executable form the check evaluates on the binary's standard output *)
Theorem interactivebrokers_stdout aflag iflag dflag wflag fflag tflag acct dividend interest tax fee trading rows :
  account_flag aflag = AAcc acct -> account_flag iflag = AAcc interest -> account_flag dflag = AAcc dividend ->
  account_flag wflag = AAcc tax -> account_flag fflag = AAcc fee -> account_flag tflag = AAcc trading ->
  ibs_wf ibs_ctx0 rows = true ->
  exists out, ibs_statement_output acct dividend interest tax fee trading rows = Some out /\
    run_interactivebrokers aflag iflag dflag wflag fflag tflag (map CRec rows) = mkRun out SOk.
Proof.
  intros Fa Fi Fd Fw Ff Ft Hwf. unfold ibs_statement_output. rewrite Hwf. eexists. split; [reflexivity|].
  rewrite (run_interactivebrokers_ok _ _ _ _ _ _ _ _ _ _ _ _ _ Fa Fi Fd Fw Ff Ft Hwf).
  reflexivity.
Qed.
