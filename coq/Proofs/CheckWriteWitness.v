(* Witnesses for Properties/C04w.v, by vm_compute. *)
From Coq Require Import ZArith List Bool Permutation.
From Knut Require Import Model.Str Model.Dec Model.Account Model.Ledger Model.Journal Model.Check Model.Cli
     Model.CheckWrite Model.ToModel Spec.WellformedSpec Spec.CheckWriteSpec
     Proofs.CheckMain Proofs.OrderCmd Proofs.PrintSem Proofs.PrintLex Proofs.PrintLexInput.
Import ListNotations.
Open Scope Z_scope.

Definition x_usd : commodity := [85; 83; 68].
Definition x_five : dec := mkDec 500 (-2).

(* 2020-01-02 open Assets:A, Assets:B, Income:I
   2020-01-03 "" Income:I Assets:A 5.00 CHF / Income:I Assets:A 2 USD
   2020-01-04 price USD 1.1 CHF
   2020-01-05 "" Assets:A Assets:B 5.00 CHF
   2020-01-06 "" Assets:B Assets:A 5.00 CHF ; close Assets:B *)
Definition x_sds : list sdirective :=
  [ SOpen (w_d 0) w_assets_a; SOpen (w_d 0) w_assets_b; SOpen (w_d 0) w_income_i;
    STxn (mkStxn (w_d 1) [] [mkBooking w_income_i w_assets_a x_five w_chf;
                             mkBooking w_income_i w_assets_a (mkDec 2 0) x_usd] None None);
    SPrice (w_d 2) x_usd (mkDec 11 (-1)) w_chf;
    STxn (mkStxn (w_d 3) [] [mkBooking w_assets_a w_assets_b x_five w_chf] None None);
    STxn (mkStxn (w_d 4) [] [mkBooking w_assets_b w_assets_a x_five w_chf] None None);
    SClose (w_d 4) w_assets_b ].

Definition x_sds_permuted : list sdirective := rev x_sds.

(* "2020-01-03 balance\nAssets:A 5 CHF\nAssets:A 2 USD\n\n2020-01-04 balance\nAssets:A 5 CHF\nAssets:A 2 USD\n\n
    2020-01-05 balance\nAssets:A 0 CHF\nAssets:A 2 USD\nAssets:B 5 CHF\n\n2020-01-06 balance\nAssets:A 5 CHF\nAssets:A 2 USD\n\n" *)
Definition x_text : str :=
  [50; 48; 50; 48; 45; 48; 49; 45; 48; 51; 32; 98; 97; 108; 97; 110;
   99; 101; 10; 65; 115; 115; 101; 116; 115; 58; 65; 32; 53; 32; 67;
   72; 70; 10; 65; 115; 115; 101; 116; 115; 58; 65; 32; 50; 32; 85;
   83; 68; 10; 10; 50; 48; 50; 48; 45; 48; 49; 45; 48; 52; 32; 98; 97;
   108; 97; 110; 99; 101; 10; 65; 115; 115; 101; 116; 115; 58; 65; 32;
   53; 32; 67; 72; 70; 10; 65; 115; 115; 101; 116; 115; 58; 65; 32;
   50; 32; 85; 83; 68; 10; 10; 50; 48; 50; 48; 45; 48; 49; 45; 48; 53;
   32; 98; 97; 108; 97; 110; 99; 101; 10; 65; 115; 115; 101; 116; 115;
   58; 65; 32; 48; 32; 67; 72; 70; 10; 65; 115; 115; 101; 116; 115;
   58; 65; 32; 50; 32; 85; 83; 68; 10; 65; 115; 115; 101; 116; 115;
   58; 66; 32; 53; 32; 67; 72; 70; 10; 10; 50; 48; 50; 48; 45; 48; 49;
   45; 48; 54; 32; 98; 97; 108; 97; 110; 99; 101; 10; 65; 115; 115;
   101; 116; 115; 58; 65; 32; 53; 32; 67; 72; 70; 10; 65; 115; 115;
   101; 116; 115; 58; 65; 32; 50; 32; 85; 83; 68; 10; 10].

(* Assets:B is closed while it holds 5.00 CHF *)
Definition x_bad : list sdirective :=
  [ SOpen (w_d 0) w_assets_a; SOpen (w_d 0) w_assets_b;
    STxn (mkStxn (w_d 1) [] [mkBooking w_assets_a w_assets_b x_five w_chf] None None);
    SClose (w_d 2) w_assets_b ].

Definition sd_syntactic_b (sds : list sdirective) : bool :=
  match parse_directives sds with MOk ds => syntactic_b ds | _ => true end.

Lemma sd_syntactic_b_spec sds : sd_syntactic_b sds = true -> sd_syntactic sds.
Proof.
  unfold sd_syntactic_b, sd_syntactic. intros H ds E. rewrite E in H. apply syntactic_b_spec. exact H.
Qed.

Lemma write_example :
  sd_syntactic x_sds /\ check_cmd_fixed x_sds = COk tt /\
  check_write_cmd x_sds = COk x_text /\
  (exists W ds, check_write_assertions x_sds = COk W /\ parse_directives x_sds = MOk ds /\
                length W = 4%nat /\ write_spec_b ds W = true /\
                check_cmd_fixed (x_sds ++ map assertion_sdirective W) = COk tt) /\
  (exists ss W', ToModelM.reparse x_text = MOk ss /\ assertions_only ss = Some W' /\
                 check_cmd_fixed (x_sds ++ ss) = COk tt).
Proof.
  split; [apply sd_syntactic_b_spec; vm_compute; reflexivity|].
  split; [vm_compute; reflexivity|]. split; [vm_compute; reflexivity|]. split.
  - eexists. eexists. split; [vm_compute; reflexivity|]. split; [vm_compute; reflexivity|].
    split; [vm_compute; reflexivity|]. split; vm_compute; reflexivity.
  - eexists. eexists. split; [vm_compute; reflexivity|]. split; vm_compute; reflexivity.
Qed.

Lemma write_example_permuted :
  Permutation x_sds x_sds_permuted /\ x_sds <> x_sds_permuted /\ check_write_cmd x_sds_permuted = COk x_text.
Proof.
  split; [apply Permutation_rev|]. split; [intros E; vm_compute in E; discriminate E|vm_compute; reflexivity].
Qed.

Lemma write_example_rejected :
  check_cmd_fixed x_bad = CErr k_nonzero (acc_name w_assets_b) /\
  check_write_cmd x_bad = CErr k_nonzero (acc_name w_assets_b).
Proof. split; vm_compute; reflexivity. Qed.

(* the example journal is what the parser delivers (C09's hypothesis, for C04_write_text_accepted) *)
Lemma x_sds_input_lex : input_lex x_sds.
Proof.
  unfold input_lex, x_sds, w_assets_a, w_assets_b, w_income_i, w_chf, x_usd, s_Assets, s_Income.
  repeat (apply Forall_cons); try apply Forall_nil;
    cbn [sdir_lex st_date st_desc st_bookings st_targets st_accrual].
  - split; [date_tac|acc0_tac].
  - split; [date_tac|acc0_tac].
  - split; [date_tac|acc0_tac].
  - split; [date_tac|]. split; [ascii_cls|]. split; [discriminate|].
    split; [forall_tac booking_tac|]. split; exact I.
  - split; [date_tac|]. split; seg_tac.
  - split; [date_tac|]. split; [ascii_cls|]. split; [discriminate|].
    split; [forall_tac booking_tac|]. split; exact I.
  - split; [date_tac|]. split; [ascii_cls|]. split; [discriminate|].
    split; [forall_tac booking_tac|]. split; exact I.
  - split; [date_tac|acc0_tac].
Qed.
