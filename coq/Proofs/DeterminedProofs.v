(* C07, summary: the four executable statements about a tree -- cover_b (gaps), wf_leaves_b
   (leaves), wf_keywords_b (keyword windows), wf_separators_b (separators) -- together with
   wf_tree_b account for EVERY byte of the text: the pieces of the tree ([pieces], Spec/SepSpec.v)
   follow each other without a hole from 0 to |t|, each slice is in the class of its piece
   ([determined_b]), and the text is the concatenation of the slices of the pieces.

   This file is about the specification only (no parser): [determined_of_specs] derives
   determined_b from the five booleans for ANY tree, in particular for the tree the Go parser
   returns; Properties/C07.v combines it with the theorems about the parser.               *)
From Coq Require Import ZArith List Bool Lia.
From Knut Require Import Model.Bytes Model.Utf8 Model.Scanner Model.Parser Spec.SyntaxSpec Spec.FormatSpec
  Spec.LeafSpec Spec.SepSpec Proofs.ScannerProofs Proofs.ParserProofs.
Import ListNotations.
Open Scope bool_scope.
Open Scope Z_scope.

Ltac bsplit := repeat match goal with
  | H : _ && _ = true |- _ => apply andb_true_iff in H; destruct H
  | H : (_ =? _) = true |- _ => apply Z.eqb_eq in H
  | H : (_ <=? _) = true |- _ => apply Z.leb_le in H
  | H : (_ <? _) = true |- _ => apply Z.ltb_lt in H
  end.

Ltac clear_bools := repeat match goal with H : _ = true |- _ => clear H | H : _ = false |- _ => clear H end.

Ltac bgoal := repeat (apply andb_true_iff; split);
  try (apply Z.eqb_eq; clear_bools; lia); try (apply Z.leb_le; clear_bools; lia); try assumption.

Section Det.
Variable dec : str -> Z * Z.
Variables letter digit : Z -> bool.
Variable t : str.

Notation chain := (chain_b dec letter digit t).
Notation ok := (piece_ok_b dec letter digit t).

Lemma chain_app ps1 : forall a b ps2 c,
  chain a ps1 b = true -> chain b ps2 c = true -> chain a (ps1 ++ ps2) c = true.
Proof.
  induction ps1 as [|p ps1 IH]; intros a b ps2 c H1 H2; cbn [chain_b app] in *.
  - apply Z.eqb_eq in H1. now subst.
  - bsplit. bgoal. eapply IH; eauto.
Qed.

Lemma chain_le ps : forall a b, chain a ps b = true -> a <= b.
Proof.
  induction ps as [|p ps IH]; intros a b H; cbn [chain_b] in H; bsplit; [lia|].
  match goal with H : chain _ ps _ = true |- _ => apply IH in H end. lia.
Qed.

Lemma chain_tail a b c cls : a <= b -> ok (sepp a b cls) = true -> b = c -> chain a [sepp a b cls] c = true.
Proof.
  intros Hle Hok ->. cbn [chain_b]. rewrite Hok. cbn [sepp fst r_start r_end]. rewrite !Z.eqb_refl.
  apply Z.leb_le in Hle. rewrite Hle. reflexivity.
Qed.

Lemma chain_cons a b cls ps c : a <= b -> ok (sepp a b cls) = true -> chain b ps c = true ->
  chain a (sepp a b cls :: ps) c = true.
Proof.
  intros Hle Hok Hc. cbn [chain_b]. rewrite Hok. cbn [sepp fst r_start r_end]. rewrite Hc, Z.eqb_refl.
  apply Z.leb_le in Hle. rewrite Hle. reflexivity.
Qed.

Lemma chain_concat ps : forall a b, 0 <= a -> chain a ps b = true ->
  concat (map (fun p => cut t (fst p)) ps) = slice t a b.
Proof.
  induction ps as [|p ps IH]; intros a b H0 H; cbn [chain_b] in H; cbn [map concat].
  - apply Z.eqb_eq in H. subst. symmetry. apply slice_nil.
  - bsplit. assert (Hr : 0 <= r_end (fst p)) by lia.
    match goal with H : chain _ ps _ = true |- _ => pose proof (chain_le _ _ _ H); rewrite (IH _ _ Hr H) end.
    unfold cut. rewrite (slice_app t a (r_end (fst p)) b) by lia. congruence.
Qed.

Lemma range_eqb_refl r : range_eqb r r = true.
Proof. unfold range_eqb. now rewrite !Z.eqb_refl. Qed.

Lemma ok_account a : leaf_account dec letter digit t a = true -> ok (pc_account a) = true.
Proof. intros H. unfold piece_ok_b, pc_account. cbn [fst snd]. now rewrite range_eqb_refl. Qed.

Lemma ok_quoted q : leaf_quoted dec t q = true -> ok (qs_range q, PQuoted q) = true.
Proof. intros H. unfold piece_ok_b. cbn [fst snd]. now rewrite range_eqb_refl. Qed.

(* explicit chains: unfold to atoms *)
Ltac chain_atoms :=
  cbn [chain_b app];
  repeat match goal with |- _ && _ = true => apply andb_true_iff; split end;
  match goal with
  | |- (_ =? _) = true => apply Z.eqb_eq; cbn [fst snd sepp pc_account r_start r_end]; clear_bools; lia
  | |- (_ <=? _) = true => apply Z.leb_le; cbn [fst snd sepp pc_account r_start r_end]; clear_bools; lia
  | |- piece_ok_b _ _ _ _ (pc_account _) = true => apply ok_account; assumption
  | |- piece_ok_b _ _ _ _ (_, PQuoted _) = true => apply ok_quoted; assumption
  | |- piece_ok_b _ _ _ _ _ = true => unfold piece_ok_b, cut, sepp; cbn [fst snd r_start r_end]; try assumption
  | |- chain_b _ _ _ _ _ _ _ = true => cbn [fst snd sepp pc_account r_start r_end]; try eassumption
  | |- _ => idtac
  end.

Lemma chain_booking lo hi b :
  wf_booking lo hi b = true -> leaves_booking dec letter digit t b = true -> sep_booking t b = true ->
  chain (r_start (bk_range b)) (pc_booking b) (r_end (bk_range b)) = true.
Proof.
  unfold wf_booking, leaves_booking, sep_booking, rng_in, pc_booking. cbn [ordered_in]. intros H1 H2 H3. bsplit.
  chain_atoms.
Qed.

Lemma chain_balance lo hi b :
  wf_balance lo hi b = true -> leaves_balance dec letter digit t b = true -> sep_balance t b = true ->
  chain (r_start (bl_range b)) (pc_balance b) (r_end (bl_range b)) = true.
Proof.
  unfold wf_balance, leaves_balance, sep_balance, rng_in, pc_balance. cbn [ordered_in]. intros H1 H2 H3. bsplit.
  chain_atoms.
Qed.

(* ---- lines ---- *)

Fixpoint lines_ok (lastp : Z -> bool) (rs : list range) : bool :=
  match rs with
  | [] => false
  | r :: rs' =>
    match rs' with
    | [] => lastp (r_end r)
    | r' :: _ => restline_b (slice t (r_end r) (r_start r')) && lines_ok lastp rs'
    end
  end.

Lemma sep_lines_ok eofok hi rs :
  sep_lines t eofok rs hi = lines_ok (fun e => restline_end_b eofok (slice t e hi)) rs.
Proof. induction rs as [|r rs IH]; [reflexivity|]. cbn [sep_lines lines_ok]. destruct rs; [reflexivity|]. now rewrite IH. Qed.

Lemma lines_ok_impl (p q : Z -> bool) rs :
  (forall e, p e = true -> q e = true) -> lines_ok p rs = true -> lines_ok q rs = true.
Proof.
  intros Hpq. induction rs as [|r rs IH]; [auto|]. cbn [lines_ok]. destruct rs; [apply Hpq|].
  intros H. apply andb_true_iff in H. destruct H as (H1 & H2). rewrite H1. cbn [andb]. now apply IH.
Qed.

Lemma chain_lines {A} (pc : A -> list piece) (rg : A -> range) lastc (lastp : Z -> bool) hi :
  (forall e, e <= hi -> lastp e = true -> ok (sepp e hi lastc) = true) ->
  forall xs lo, Forall (fun x => chain (r_start (rg x)) (pc x) (r_end (rg x)) = true) xs ->
  ordered_in lo hi (map rg xs) = true -> lines_ok lastp (map rg xs) = true ->
  match xs with x :: _ => chain (r_start (rg x)) (pc_lines pc rg lastc xs hi) hi = true | [] => True end.
Proof.
  intros Hlast. induction xs as [|x xs IH]; intros lo HF Ho Hl; [exact I|].
  inversion HF as [|? ? Hx HF']; subst. destruct xs as [|x' xs'].
  - cbn [map ordered_in lines_ok pc_lines] in *. bsplit. eapply chain_app; [exact Hx|].
    apply chain_tail; [lia| |reflexivity]. apply Hlast; [lia|assumption].
  - change (pc_lines pc rg lastc (x :: x' :: xs') hi) with
      (pc x ++ sepp (r_end (rg x)) (r_start (rg x')) PRest :: pc_lines pc rg lastc (x' :: xs') hi).
    change (map rg (x :: x' :: xs')) with (rg x :: map rg (x' :: xs')) in Ho, Hl.
    cbn [ordered_in] in Ho. change (lines_ok lastp (rg x :: map rg (x' :: xs'))) with
      (restline_b (slice t (r_end (rg x)) (r_start (rg x'))) && lines_ok lastp (map rg (x' :: xs'))) in Hl.
    apply andb_true_iff in Ho. destruct Ho as (Ho1 & Ho2). apply andb_true_iff in Hl. destruct Hl as (Hl1 & Hl2).
    specialize (IH (r_end (rg x)) HF' Ho2 Hl2). cbn beta iota in IH.
    eapply chain_app; [exact Hx|]. cbn [chain_b]. unfold piece_ok_b, cut, sepp. cbn [fst snd r_start r_end]. rewrite IH.
    cbn [map ordered_in] in Ho2. bsplit. rewrite Hl1, Z.eqb_refl.
    match goal with |- true && (?a <=? ?b) && true && true = true => assert (Hab : (a <=? b) = true) by (apply Z.leb_le; lia); rewrite Hab end.
    reflexivity.
Qed.

(* ---- @performance, @accrue, addons ---- *)

Lemma chain_targets : forall cs first pos hi lo0 hi0,
  sep_targets t first pos cs hi = true -> ordered_in lo0 hi0 cs = true ->
  forallb (leaf_commodity dec letter digit t) cs = true ->
  chain pos (pc_targets first pos cs hi) hi = true.
Proof.
  induction cs as [|c cs IH]; intros first pos hi lo0 hi0 Hs Ho Hl; cbn [sep_targets pc_targets ordered_in forallb] in *.
  - bsplit. apply chain_tail; [lia|assumption|reflexivity].
  - bsplit. match goal with H : sep_targets _ _ _ _ _ = true |- _ => specialize (IH _ _ _ _ _ H ltac:(eassumption) ltac:(assumption)) end.
    chain_atoms. destruct first; assumption.
Qed.

Lemma restline_end_false w : restline_end_b false w = restline_b w.
Proof. unfold restline_end_b. cbn [andb]. apply orb_false_r. Qed.

Lemma chain_perf lo hi p : is_zero_perf p = false -> wf_perf lo hi p = true -> kw_perf t p = true ->
  sep_perf t p = true -> forallb (leaf_commodity dec letter digit t) (pf_targets p) = true ->
  chain (r_start (pf_range p)) (pc_perf p) (r_end (pf_range p)) = true.
Proof.
  unfold wf_perf, kw_perf, sep_perf, pc_perf, rng_in. intros Hz H1 H2 H3 H4. rewrite Hz in *. cbn [orb] in *.
  change (zlen kw_paren) with 13 in *. bsplit.
  pose proof (chain_targets _ _ _ _ _ _ H3 ltac:(eassumption) H4) as Ht.
  cbn [chain_b]. apply andb_true_iff. split.
  - chain_atoms.
  - eapply chain_app; [exact Ht|]. apply chain_tail; [lia| |reflexivity].
    unfold piece_ok_b, cut, sepp. cbn [fst snd r_start r_end]. assumption.
Qed.

Lemma chain_accrual lo hi a : is_zero_accrual a = false -> wf_accrual lo hi a = true ->
  leaves_accrual dec letter digit t a = true -> kw_accrual t a = true -> sep_accrual t a = true ->
  chain (r_start (ac_range a)) (pc_accrual a) (r_end (ac_range a)) = true.
Proof.
  unfold wf_accrual, leaves_accrual, kw_accrual, sep_accrual, pc_accrual, rng_in. intros Hz H1 H2 H3 H4.
  rewrite Hz in *. cbn [orb ordered_in] in *. bsplit. chain_atoms.
Qed.

Lemma ok_rest a b : restline_b (slice t a b) = true -> ok (sepp a b PRest) = true.
Proof. intros H. unfold piece_ok_b, cut, sepp. cbn [fst snd r_start r_end]. exact H. Qed.

Lemma chain_addons lo hi a : is_zero_addons a = false -> wf_addons lo hi a = true ->
  leaves_addons dec letter digit t a = true -> kw_addons t a = true -> sep_addons t a = true ->
  chain (r_start (ad_range a)) (pc_addons a) (r_end (ad_range a)) = true.
Proof.
  unfold wf_addons, leaves_addons, kw_addons, sep_addons, pc_addons, tile_ad_b, rng_in, disjoint_b.
  intros Hz H1 H2 H3 H4. rewrite Hz in *. cbn [orb] in *.
  destruct (is_zero_perf (ad_perf a)) eqn:Hzp, (is_zero_accrual (ad_accrual a)) eqn:Hza; cbn [orb] in *; bsplit.
  - clear_bools. lia.
  - rewrite restline_end_false in *.
    match goal with H : r_start (ac_range _) = r_start (ad_range a) |- _ => rewrite <- H end.
    eapply chain_app; [eapply chain_accrual; eassumption|].
    apply chain_tail; [|apply ok_rest; assumption|reflexivity]. unfold wf_accrual, rng_in in *. bsplit. clear_bools. lia.
  - rewrite restline_end_false in *.
    match goal with H : r_start (pf_range _) = r_start (ad_range a) |- _ => rewrite <- H end.
    eapply chain_app; [eapply chain_perf; eassumption|].
    apply chain_tail; [|apply ok_rest; assumption|reflexivity]. unfold wf_perf, rng_in in *. bsplit. clear_bools. lia.
  - assert (Hpe : r_end (pf_range (ad_perf a)) <= r_end (ad_range a)) by (unfold wf_perf, rng_in in *; bsplit; clear_bools; lia).
    assert (Hce : r_end (ac_range (ad_accrual a)) <= r_end (ad_range a)) by (unfold wf_accrual, rng_in in *; bsplit; clear_bools; lia).
    match goal with H : _ || _ = true |- _ => apply orb_true_iff in H; rename H into Hdis end.
    destruct (Z.ltb_spec (r_start (pf_range (ad_perf a))) (r_start (ac_range (ad_accrual a)))); bsplit; rewrite restline_end_false in *.
    + match goal with H : r_start (pf_range _) = r_start (ad_range a) |- _ => rewrite <- H end.
      eapply chain_app; [eapply chain_perf; eassumption|].
      apply chain_cons; [destruct Hdis as [Hd|Hd]; bsplit; clear_bools; lia|apply ok_rest; assumption|].
      eapply chain_app; [eapply chain_accrual; eassumption|].
      apply chain_tail; [clear_bools; lia|apply ok_rest; assumption|reflexivity].
    + match goal with H : r_start (ac_range _) = r_start (ad_range a) |- _ => rewrite <- H end.
      eapply chain_app; [eapply chain_accrual; eassumption|].
      apply chain_cons; [destruct Hdis as [Hd|Hd]; bsplit; clear_bools; lia|apply ok_rest; assumption|].
      eapply chain_app; [eapply chain_perf; eassumption|].
      apply chain_tail; [clear_bools; lia|apply ok_rest; assumption|reflexivity].
Qed.

(* ---- directives ---- *)

Lemma Forall_booking lo hi bs :
  forallb (wf_booking lo hi) bs = true -> forallb (leaves_booking dec letter digit t) bs = true ->
  forallb (sep_booking t) bs = true ->
  Forall (fun b => chain (r_start (bk_range b)) (pc_booking b) (r_end (bk_range b)) = true) bs.
Proof.
  intros H1 H2 H3. apply Forall_forall. intros b Hin.
  rewrite forallb_forall in H1, H2, H3. eapply chain_booking; eauto.
Qed.

Lemma Forall_balance lo hi bs :
  forallb (wf_balance lo hi) bs = true -> forallb (leaves_balance dec letter digit t) bs = true ->
  forallb (sep_balance t) bs = true ->
  Forall (fun b => chain (r_start (bl_range b)) (pc_balance b) (r_end (bl_range b)) = true) bs.
Proof.
  intros H1 H2 H3. apply Forall_forall. intros b Hin.
  rewrite forallb_forall in H1, H2, H3. eapply chain_balance; eauto.
Qed.

Lemma ok_restend eofok hi e : e <= hi -> restline_end_b eofok (slice t e hi) = true -> ok (sepp e hi (PRestEnd eofok)) = true.
Proof. intros _ H. unfold piece_ok_b, cut, sepp. cbn [fst snd r_start r_end]. exact H. Qed.

Lemma ok_restopt eofok hi e : e <= hi -> (e =? hi) || restline_end_b eofok (slice t e hi) = true ->
  ok (sepp e hi (PRestOpt eofok)) = true.
Proof.
  intros _ H. unfold piece_ok_b, cut, sepp. cbn [fst snd r_start r_end]. apply orb_true_iff in H.
  destruct H as [H|H]; [|rewrite H; apply orb_true_r]. apply Z.eqb_eq in H. subst. now rewrite slice_nil.
Qed.

Lemma chain_trx d x : wf_body d (BTrx x) = true -> leaves_body dec letter digit t (BTrx x) = true ->
  kw_body t (BTrx x) = true -> sep_body t d (BTrx x) = true ->
  chain (r_start d) (pc_body t d (BTrx x)) (r_end d) = true.
Proof.
  cbn [wf_body leaves_body kw_body sep_body pc_body]. unfold wf_transaction, wf_quoted, rng_in, range_eqb, addons_ranges.
  intros H1 H2 H3 H4. destruct (tx_bookings x) as [|b1 bs] eqn:Hbs; bsplit; try discriminate.
  repeat match goal with H : r_start (tx_range x) = r_start d |- _ => rewrite <- H | H : r_end (tx_range x) = r_end d |- _ => rewrite <- H end.
  set (hi := r_end (tx_range x)) in *.
  assert (Hlines : chain (r_start (bk_range b1))
            (pc_lines pc_booking bk_range (PRestEnd (hi =? zlen t)) (b1 :: bs) hi) hi = true).
  { match goal with H : sep_lines _ _ _ _ = true |- _ => rewrite sep_lines_ok in H; rename H into Hl end.
    refine (chain_lines pc_booking bk_range _ _ hi (ok_restend _ hi) (b1 :: bs) (r_end (qs_range (tx_desc x))) _ _ Hl).
    - eapply Forall_booking; eassumption.
    - destruct (is_zero_addons (tx_addons x)); cbn [app ordered_in] in *; bsplit; assumption. }
  destruct (is_zero_addons (tx_addons x)) eqn:Hz.
  - unfold pc_addons. rewrite Hz. cbn [app map ordered_in] in *. bsplit. chain_atoms.
  - cbn [orb app map ordered_in] in *. bsplit.
    match goal with H : r_start (ad_range _) = r_start (tx_range x) |- _ => rewrite <- H end.
    eapply chain_app; [eapply chain_addons; eassumption|]. chain_atoms.
Qed.

Lemma chain_assertion d a : wf_body d (BAssertion a) = true -> leaves_body dec letter digit t (BAssertion a) = true ->
  kw_body t (BAssertion a) = true -> sep_body t d (BAssertion a) = true ->
  chain (r_start d) (pc_body t d (BAssertion a)) (r_end d) = true.
Proof.
  cbn [wf_body leaves_body kw_body sep_body pc_body]. unfold wf_assertion, rng_in, range_eqb, sep_dropped.
  intros H1 H2 H3 H4. destruct (as_balances a) as [|b1 bs] eqn:Hbs; bsplit; try discriminate.
  repeat match goal with H : r_start (as_range a) = r_start d |- _ => rewrite <- H | H : r_end (as_range a) = r_end d |- _ => rewrite <- H end.
  set (hi := r_end (as_range a)) in *. cbn [map ordered_in] in *. bsplit.
  assert (Hlines : chain (r_start (bl_range b1))
            (pc_lines pc_balance bl_range (PRestOpt (hi =? zlen t)) (b1 :: bs) hi) hi = true).
  { refine (chain_lines pc_balance bl_range _ (fun e => (e =? hi) || restline_end_b (hi =? zlen t) (slice t e hi)) hi
              (ok_restopt _ hi) (b1 :: bs) (r_end (as_date a)) _ _ _).
    - eapply Forall_balance; eassumption.
    - cbn [map ordered_in]. bgoal.
    - match goal with H : _ || _ = true |- _ => apply orb_true_iff in H; destruct H as [Hone|Hmany] end.
      + destruct bs; [|discriminate]. cbn [map lines_ok]. now rewrite Hone.
      + rewrite sep_lines_ok in Hmany. eapply lines_ok_impl; [|exact Hmany]. intros e He. cbv beta. rewrite He. apply orb_true_r. }
  chain_atoms.
Qed.

Lemma chain_body d b : wf_body d b = true -> leaves_body dec letter digit t b = true ->
  kw_body t b = true -> sep_body t d b = true ->
  chain (r_start d) (pc_body t d b) (r_end d) = true.
Proof.
  destruct b as [x|o|c|a|p|i|]; try (intros; discriminate).
  - apply chain_trx.
  - cbn [wf_body leaves_body kw_body sep_body pc_body]. unfold wf_open, rng_in, range_eqb, sep_dropped. cbn [ordered_in].
    intros H1 H2 H3 H4. bsplit.
    repeat match goal with H : r_start _ = r_start d |- _ => rewrite <- H | H : r_end _ = r_end d |- _ => rewrite <- H end.
    chain_atoms.
  - cbn [wf_body leaves_body kw_body sep_body pc_body]. unfold wf_close, rng_in, range_eqb, sep_dropped. cbn [ordered_in].
    intros H1 H2 H3 H4. bsplit.
    repeat match goal with H : r_start _ = r_start d |- _ => rewrite <- H | H : r_end _ = r_end d |- _ => rewrite <- H end.
    chain_atoms.
  - apply chain_assertion.
  - cbn [wf_body leaves_body kw_body sep_body pc_body]. unfold wf_price, rng_in, range_eqb, sep_dropped. cbn [ordered_in].
    intros H1 H2 H3 H4. bsplit.
    repeat match goal with H : r_start _ = r_start d |- _ => rewrite <- H | H : r_end _ = r_end d |- _ => rewrite <- H end.
    chain_atoms.
  - cbn [wf_body leaves_body kw_body sep_body pc_body]. unfold wf_include, wf_quoted, rng_in, sep_dropped.
    intros H1 H2 H3 H4. bsplit.
    match goal with H : r_end (in_range i) = r_end d |- _ => rewrite <- H end.
    chain_atoms.
Qed.

(* ---- the file ---- *)

Lemma slice_nonnil a b : 0 <= a -> a < b -> b <= zlen t -> nonnil (slice t a b) = true.
Proof.
  intros H0 Hlt Hle. unfold slice.
  destruct (firstn (Z.to_nat (b - a)) (skipn (Z.to_nat a) t)) eqn:He; [|reflexivity]. exfalso.
  assert (Hl : length (firstn (Z.to_nat (b - a)) (skipn (Z.to_nat a) t)) = O) by now rewrite He.
  rewrite firstn_length, skipn_length in Hl. unfold zlen in Hle. lia.
Qed.

Lemma chain_file n : n = zlen t -> forall ds pos after, 0 <= pos ->
  gaps_b t pos after ds = true -> ordered_in pos n (map d_range ds) = true ->
  forallb (wf_directive 0 n) ds = true ->
  forallb (leaves_directive dec letter digit t) ds = true ->
  forallb (fun d => kw_body t (d_body d)) ds = true ->
  forallb (fun d => sep_body t (d_range d) (d_body d)) ds = true ->
  chain pos (pc_file t pos after ds) n = true.
Proof.
  intros Hn. induction ds as [|d ds IH]; intros pos after H0 Hg Ho Hw Hl Hk Hs;
    cbn [gaps_b map ordered_in forallb pc_file] in *; subst n.
  - bsplit. apply chain_tail; [clear_bools; lia| |reflexivity].
    unfold piece_ok_b, cut, sepp. cbn [fst snd r_start r_end]. rewrite Hg. cbn [andb]. rewrite orb_true_r. reflexivity.
  - unfold wf_directive, leaves_directive, rng_in in *. bsplit.
    apply chain_cons; [clear IH; clear_bools; lia| |].
    + unfold piece_ok_b, cut, sepp. cbn [fst snd r_start r_end].
      match goal with H : gap_ok_b _ _ _ = true |- _ => rewrite H end. cbn [andb orb].
      destruct after; [|reflexivity]. cbn [negb orb] in *.
      match goal with H : (_ <? _) = true |- _ => apply Z.ltb_lt in H end. apply slice_nonnil; clear IH; clear_bools; lia.
    + eapply chain_app; [eapply chain_body; eassumption|]. apply IH; try assumption. clear IH; clear_bools; lia.
Qed.

Theorem determined_of_specs f :
  wf_tree_b t f = true -> cover_b t f = true -> wf_leaves_gen dec letter digit t f = true ->
  wf_keywords_b t f = true -> wf_separators_b t f = true ->
  determined_gen dec letter digit t f = true.
Proof.
  unfold wf_tree_b, cover_b, wf_leaves_gen, wf_keywords_b, wf_separators_b, determined_gen, pieces_gen.
  intros H1 H2 H3 H4 H5. bsplit. apply (chain_file (zlen t) eq_refl); try assumption. clear; lia.
Qed.

Theorem pieces_concat f : determined_gen dec letter digit t f = true ->
  concat (map (fun p => cut t (fst p)) (pieces_gen t f)) = t.
Proof.
  unfold determined_gen. intros H. rewrite (chain_concat _ _ _ (Z.le_refl 0) H). apply slice_full.
Qed.

Theorem pieces_ok f : determined_gen dec letter digit t f = true ->
  forallb ok (pieces_gen t f) = true.
Proof.
  unfold determined_gen. generalize (pieces_gen t f) 0 (zlen t). induction l as [|p ps IH]; intros a b H; [reflexivity|].
  cbn [chain_b forallb] in *. bsplit. match goal with H : ok p = true |- _ => rewrite H end. eapply IH; eauto.
Qed.

End Det.

(* ================================================================== with the parser *)

From Knut Require Import Proofs.RoundTripLeaf Proofs.LeafProofs Proofs.KeywordProofs Proofs.SepProofs.

(* the five executable statements, evaluated on ANY tree (in particular the Go parser's), imply
   that its pieces account for every byte *)
Theorem determined_of_specs_b letter digit t f :
  wf_tree_b t f = true -> cover_b t f = true -> wf_leaves_b letter digit t f = true ->
  wf_keywords_b t f = true -> wf_separators_b t f = true ->
  determined_b letter digit t f = true /\
  forallb (piece_ok_b Utf8M.decode letter digit t) (pieces t f) = true /\
  concat (map (fun p => cut t (fst p)) (pieces t f)) = t.
Proof.
  intros H1 H2 H3 H4 H5.
  pose proof (determined_of_specs Utf8M.decode letter digit t f H1 H2 H3 H4 H5) as Hd.
  split; [exact Hd|]. split; [now apply pieces_ok|now apply (pieces_concat Utf8M.decode letter digit)].
Qed.

Theorem parse_text_determined letter digit t f : class_ok letter digit ->
  parse_text letter digit t = ParseOk f ->
  determined_b letter digit t f = true /\
  forallb (piece_ok_b Utf8M.decode letter digit t) (pieces t f) = true /\
  concat (map (fun p => cut t (fst p)) (pieces t f)) = t.
Proof.
  intros Hc Hp. apply determined_of_specs_b.
  - exact (parse_text_wf letter digit t f Hp).
  - exact (proj1 (parse_text_cover letter digit t f Hp)).
  - now apply parse_text_leaves.
  - exact (parse_text_keywords letter digit t f Hc Hp).
  - exact (parse_text_separators letter digit t f Hc Hp).
Qed.

(* two parsed texts whose pieces have the same slices are the same text *)
Corollary parse_text_determined_eq letter digit t f t' f' : class_ok letter digit ->
  parse_text letter digit t = ParseOk f -> parse_text letter digit t' = ParseOk f' ->
  map (fun p => cut t (fst p)) (pieces t f) = map (fun p => cut t' (fst p)) (pieces t' f') -> t = t'.
Proof.
  intros Hc Hp Hp' He.
  destruct (parse_text_determined letter digit t f Hc Hp) as (_ & _ & H1).
  destruct (parse_text_determined letter digit t' f' Hc Hp') as (_ & _ & H2).
  rewrite <- H1, <- H2. now rewrite He.
Qed.
