(* Proofs for C16: what beancount.Transcode emits, in terms of the days the pipeline hands to it.
   Part 1: the emitted transactions are exactly the days' transactions (sorted per day), and a
            transaction made of posting pairs sums to zero under exact decimal addition.
   Part 2: how a pipeline stage relates the days it reads to the days it writes (dates, opens
            and closes untouched; transactions rewritten posting by posting, permuted, extended).
   Part 3: the builder keeps the days strictly ascending and loses no transaction.
   Part 4: the four stages of `knut transcode`.
   Part 5: chronological order of the emitted entries.
   Part 6: the checker's open-set invariant carried to the emitted entries. *)
From Coq Require Import ZArith List Bool Lia Permutation Sorted.
From Knut Require Import Model.Str Model.Dec Model.Date Model.Account Model.Ledger Model.Price
     Model.Journal Model.Check Model.Pipeline Model.Cli Model.Beancount Model.CliTranscode
     Proofs.DecProofs Proofs.StrProofs Proofs.PairProofs Spec.BeancountSpec Spec.BeancountErase.
Import ListNotations.
Open Scope bool_scope.
Open Scope Z_scope.

(* ================================================================ Part 1 *)

Definition entry_txns (es : list bentry) : list txn :=
  flat_map (fun e => match e with BTxn t => [t] | _ => [] end) es.

Definition is_bopen (e : bentry) : Prop := match e with BOpen _ _ => True | _ => False end.

Lemma entry_txns_app a b : entry_txns (a ++ b) = entry_txns a ++ entry_txns b.
Proof. unfold entry_txns. apply flat_map_app. Qed.

Lemma entry_txns_opens es : Forall is_bopen es -> entry_txns es = [].
Proof.
  induction 1 as [|e es He _ IH]; [reflexivity|]. destruct e; try contradiction. exact IH.
Qed.

Lemma entry_txns_map_open d l : entry_txns (map (BOpen d) l) = [].
Proof. induction l; [reflexivity|assumption]. Qed.

Lemma entry_txns_map_close d l : entry_txns (map (BClose d) l) = [].
Proof. induction l; [reflexivity|assumption]. Qed.

Lemma entry_txns_map_txn l : entry_txns (map BTxn l) = l.
Proof. induction l as [|t l IH]; [reflexivity|]. cbn. f_equal. exact IH. Qed.

Lemma val_opens_postings_opens date ps seen : Forall is_bopen (fst (val_opens_postings date ps seen)).
Proof.
  revert seen. induction ps as [|p ps IH]; intros seen; cbn [val_opens_postings]; [constructor|].
  destruct (is_prefix s_equity_valuation (acc_name (p_acc p)) && negb (existsb (acc_eqb (p_acc p)) seen)).
  - specialize (IH (p_acc p :: seen)). destruct (val_opens_postings date ps (p_acc p :: seen)) as [es s'].
    cbn [fst] in *. constructor; [exact I|exact IH].
  - apply IH.
Qed.

Lemma val_opens_txns_opens ts seen : Forall is_bopen (fst (val_opens_txns ts seen)).
Proof.
  revert seen. induction ts as [|t ts IH]; intros seen; cbn [val_opens_txns]; [constructor|].
  pose proof (val_opens_postings_opens (t_date t) (t_postings t) seen) as H1.
  destruct (val_opens_postings (t_date t) (t_postings t) seen) as [e1 s1].
  specialize (IH s1). destruct (val_opens_txns ts s1) as [e2 s2]. cbn [fst] in *.
  apply Forall_app. split; assumption.
Qed.

Lemma transcode_day_txns d seen : entry_txns (fst (transcode_day d seen)) = sort_by txn_ltb (d_txns d).
Proof.
  unfold transcode_day.
  pose proof (val_opens_txns_opens (sort_by txn_ltb (d_txns d)) seen) as H.
  destruct (val_opens_txns (sort_by txn_ltb (d_txns d)) seen) as [vo s']. cbn [fst] in *.
  rewrite !entry_txns_app, entry_txns_map_open, (entry_txns_opens vo H), entry_txns_map_txn, entry_txns_map_close.
  cbn [app]. apply app_nil_r.
Qed.

Lemma transcode_entries_txns days seen :
  entry_txns (transcode_entries days seen) = concat (map (fun d => sort_by txn_ltb (d_txns d)) days).
Proof.
  revert seen. induction days as [|d days IH]; intros seen; cbn [transcode_entries map concat]; [reflexivity|].
  pose proof (transcode_day_txns d seen) as H.
  destruct (transcode_day d seen) as [es s']. cbn [fst] in H.
  rewrite entry_txns_app, H, IH. reflexivity.
Qed.

Definition all_txns (days : list day) : list txn := concat (map d_txns days).

(* nothing lost, nothing duplicated by Transcode itself *)
Lemma transcode_entries_perm days seen : Permutation (entry_txns (transcode_entries days seen)) (all_txns days).
Proof.
  rewrite transcode_entries_txns. unfold all_txns.
  induction days as [|d days IH]; cbn [map concat]; [constructor|].
  apply Permutation_app; [apply sort_by_perm|exact IH].
Qed.

Lemma in_all_txns t days : In t (all_txns days) -> exists d, In d days /\ In t (d_txns d).
Proof.
  unfold all_txns. intros H. apply in_concat in H. destruct H as (l & Hl & Ht).
  apply in_map_iff in Hl. destruct Hl as (d & <- & Hd). eauto.
Qed.

(* ---- a list of posting pairs sums to zero, exactly *)

Lemma is_zero_add_r a b : is_zero b = true -> is_zero (add a b) = is_zero a.
Proof. intros H. rewrite add_comm. apply is_zero_add_l. exact H. Qed.

Lemma paired_sum_zero ps : paired ps ->
  forall a, is_zero (fold_left (fun acc p => add acc (p_val p)) ps a) = is_zero a.
Proof.
  induction 1 as [|p p' rest Hpp _ IH]; intros a; cbn [fold_left]; [reflexivity|].
  rewrite IH. destruct Hpp as (_ & _ & Hv). rewrite Hv, add_assoc.
  apply is_zero_add_r. rewrite add_comm. apply add_neg_zero.
Qed.

Lemma sum_amounts_erase v ps a :
  fold_left (fun acc x => add acc (amount_of x)) (map (erase_posting v) ps) a
  = fold_left (fun acc p => add acc (p_val p)) ps a.
Proof. revert a. induction ps as [|p ps IH]; intros a; cbn [map fold_left]; [reflexivity|apply IH]. Qed.

Lemma txn_ok_balanced v t : txn_ok t -> txn_balanced_b (map (erase_posting v) (t_postings t)) = true.
Proof.
  intros H. unfold txn_balanced_b, sum_amounts. rewrite sum_amounts_erase, (paired_sum_zero _ H). reflexivity.
Qed.

Lemma entries_balanced v days seen :
  Forall day_ok days -> Forall entry_balanced (erase_entries v (transcode_entries days seen)).
Proof.
  intros Hd. unfold erase_entries. apply Forall_forall. intros e He.
  apply in_map_iff in He. destruct He as (b & <- & Hb).
  destruct b as [dt a|dt a|t]; cbn [erase_entry entry_balanced]; try exact I.
  apply txn_ok_balanced.
  assert (Ht : In t (entry_txns (transcode_entries days seen))).
  { unfold entry_txns. apply in_flat_map. exists (BTxn t). split; [exact Hb|left; reflexivity]. }
  apply (Permutation_in _ (transcode_entries_perm days seen)) in Ht.
  apply in_all_txns in Ht. destruct Ht as (d & Hd1 & Hd2).
  rewrite Forall_forall in Hd. specialize (Hd d Hd1). unfold day_ok in Hd. rewrite Forall_forall in Hd. auto.
Qed.

(* ================================================================ Part 2 *)

(* a posting callback may rewrite the value only *)
Definition posting_sim (p p' : posting) : Prop :=
  p_acc p' = p_acc p /\ p_other p' = p_other p /\ p_com p' = p_com p /\ p_qty p' = p_qty p.

Definition txn_sim (t t' : txn) : Prop :=
  t_date t' = t_date t /\ t_desc t' = t_desc t /\ t_targets t' = t_targets t /\
  Forall2 posting_sim (t_postings t) (t_postings t').

Lemma posting_sim_refl p : posting_sim p p.
Proof. repeat split. Qed.

Lemma posting_sim_trans a b c : posting_sim a b -> posting_sim b c -> posting_sim a c.
Proof. unfold posting_sim. intros (H1 & H2 & H3 & H4) (H5 & H6 & H7 & H8). repeat split; congruence. Qed.

Lemma Forall2_refl {A} (R : A -> A -> Prop) : (forall x, R x x) -> forall l, Forall2 R l l.
Proof. intros H l. induction l; constructor; auto. Qed.

Lemma Forall2_trans {A} (R : A -> A -> Prop) : (forall x y z, R x y -> R y z -> R x z) ->
  forall l1 l2 l3, Forall2 R l1 l2 -> Forall2 R l2 l3 -> Forall2 R l1 l3.
Proof.
  intros Ht l1 l2 l3 H12. revert l3. induction H12 as [|x y l1 l2 Hxy _ IH]; intros l3 H23; inversion H23; subst; constructor; eauto.
Qed.

Lemma txn_sim_refl t : txn_sim t t.
Proof. repeat split. apply Forall2_refl. exact posting_sim_refl. Qed.

Lemma txn_sim_trans a b c : txn_sim a b -> txn_sim b c -> txn_sim a c.
Proof.
  unfold txn_sim. intros (H1 & H2 & H3 & H4) (H5 & H6 & H7 & H8). repeat split; try congruence.
  eapply Forall2_trans; [exact posting_sim_trans|exact H4|exact H8].
Qed.

(* what a stage does to a day: date, opens, closes are kept; the transactions are those of the
   input day plus [extra] ones (each satisfying Q at the day's date), rewritten posting by
   posting, in some order *)
Definition day_step (Q : Z -> txn -> Prop) (d d' : day) : Prop :=
  d_date d' = d_date d /\ d_opens d' = d_opens d /\ d_closes d' = d_closes d /\
  exists extra mid, Forall (Q (d_date d)) extra /\ Forall2 txn_sim (d_txns d ++ extra) mid /\
                    Permutation mid (d_txns d').

Lemma day_step_mono (Q Q' : Z -> txn -> Prop) d d' :
  (forall dt t, Q dt t -> Q' dt t) -> day_step Q d d' -> day_step Q' d d'.
Proof.
  intros HQ (H1 & H2 & H3 & extra & mid & He & Hs & Hp). repeat split; try assumption.
  exists extra, mid. repeat split; try assumption. eapply Forall_impl; [|exact He]. intros; apply HQ; assumption.
Qed.

Lemma day_step_trans (Q : Z -> txn -> Prop) a b c :
  day_step Q a b -> day_step Q b c -> day_step Q a c.
Proof.
  intros (A1 & A2 & A3 & e1 & m1 & He1 & Hs1 & Hp1) (B1 & B2 & B3 & e2 & m2 & He2 & Hs2 & Hp2).
  repeat split; try congruence.
  (* b's transactions are a permutation of m1: move the second simulation along it *)
  assert (Hp : Permutation (d_txns b ++ e2) (m1 ++ e2)) by (apply Permutation_app_tail; symmetry; exact Hp1).
  destruct (Permutation_Forall2 Hp Hs2) as (m2' & Hp2' & Hs2').
  apply Forall2_app_inv_l in Hs2'. destruct Hs2' as (u & w & Hu & Hw & ->).
  exists (e1 ++ e2), (u ++ w). repeat split.
  - apply Forall_app. split; [exact He1|]. rewrite <- A1. exact He2.
  - rewrite app_assoc. apply Forall2_app; [|exact Hw].
    eapply Forall2_trans; [exact txn_sim_trans|exact Hs1|exact Hu].
  - rewrite <- Hp2'. exact Hp2.
Qed.

Lemma days_step_trans (Q : Z -> txn -> Prop) l1 l2 : Forall2 (day_step Q) l1 l2 ->
  forall l3, Forall2 (day_step Q) l2 l3 -> Forall2 (day_step Q) l1 l3.
Proof.
  induction 1 as [|a b l1 l2 Hab _ IH]; intros l3 H23; inversion H23; subst; constructor.
  - eapply day_step_trans; eauto.
  - apply IH. assumption.
Qed.

Section StageRel.
  Context {S : Type} (p : processor S) (Q : Z -> txn -> Prop).
  Hypothesis day_start_rel : forall f s d s' d', pr_day_start p = Some f -> f s d = ROk (s', d') ->
      d_date d' = d_date d /\ d_opens d' = d_opens d /\ d_closes d' = d_closes d /\
      exists extra, d_txns d' = d_txns d ++ extra /\ Forall (Q (d_date d)) extra.
  Hypothesis day_end_rel : forall f s d s' d', pr_day_end p = Some f -> f s d = ROk (s', d') ->
      d_date d' = d_date d /\ d_opens d' = d_opens d /\ d_closes d' = d_closes d /\
      Permutation (d_txns d) (d_txns d').
  Hypothesis posting_rel : forall f s t x s' x', pr_posting p = Some f -> f s t x = ROk (s', x') -> posting_sim x x'.

  Lemma fold_postings_sim f t : pr_posting p = Some f ->
    forall ps s s' ps', fold_postings f t s ps = ROk (s', ps') -> Forall2 posting_sim ps ps'.
  Proof.
    intros Hf. induction ps as [|x ps IH]; intros s s' ps' H; cbn [fold_postings] in H.
    - inversion H; subst. constructor.
    - destruct (f s t x) as [[s1 x']| |] eqn:E1; try discriminate. cbn [rbind fst snd] in H.
      destruct (fold_postings f t s1 ps) as [[s2 r']| |] eqn:E2; try discriminate. cbn [rbind fst snd] in H.
      inversion H; subst. constructor; [eapply posting_rel; eauto|eapply IH; eauto].
  Qed.

  Lemma fold_txns_sim ts : forall s s' ts', fold_txns p s ts = ROk (s', ts') -> Forall2 txn_sim ts ts'.
  Proof.
    induction ts as [|t ts IH]; intros s s' ts' H; cbn [fold_txns] in H.
    - inversion H; subst. constructor.
    - destruct (match pr_txn p with Some f => f s t | None => ROk s end) as [s1| |]; try discriminate.
      cbn [rbind] in H.
      case_opt (pr_posting p) f Ef; rewrite Ef in H.
      + destruct (fold_postings f t s1 (t_postings t)) as [[s2 ps']| |] eqn:E2; try discriminate.
        cbn [rbind fst snd] in H.
        destruct (fold_txns p s2 ts) as [[s3 r']| |] eqn:E3; try discriminate. cbn [rbind fst snd] in H.
        inversion H; subst. constructor; [|eapply IH; eauto].
        repeat split. cbn [t_postings]. eapply fold_postings_sim; eauto.
      + cbn [rbind fst snd] in H.
        destruct (fold_txns p s1 ts) as [[s3 r']| |] eqn:E3; try discriminate. cbn [rbind fst snd] in H.
        inversion H; subst. constructor; [apply txn_sim_refl|eapply IH; eauto].
  Qed.

  Lemma process_day_step s d s' d' : process_day p s d = ROk (s', d') -> day_step Q d d'.
  Proof.
    intros H. unfold process_day in H.
    destruct (match pr_day_start p with Some f => f s d | None => ROk (s, d) end) as [[s1 d1]| |] eqn:E1; try discriminate.
    cbn [rbind fst snd] in H.
    assert (H1 : d_date d1 = d_date d /\ d_opens d1 = d_opens d /\ d_closes d1 = d_closes d /\
                 exists extra, d_txns d1 = d_txns d ++ extra /\ Forall (Q (d_date d)) extra).
    { case_opt (pr_day_start p) f Ef; rewrite Ef in E1; [eapply day_start_rel; eauto|].
      inversion E1; subst. repeat split. exists []. rewrite app_nil_r. split; [reflexivity|constructor]. }
    destruct H1 as (D1 & D2 & D3 & extra & D4 & D5).
    destruct (match pr_price p with Some f => fold_res f s1 (d_prices d1) | None => ROk s1 end) as [s2| |]; try discriminate.
    cbn [rbind] in H.
    destruct (match pr_open p with Some f => fold_res f s2 (d_opens d1) | None => ROk s2 end) as [s3| |]; try discriminate.
    cbn [rbind] in H.
    destruct (fold_txns p s3 (d_txns d1)) as [[s4 ts']| |] eqn:E4; try discriminate. cbn [rbind fst snd] in H.
    pose proof (fold_txns_sim _ _ _ _ E4) as Hsim.
    cbn [d_asserts d_closes] in H.
    destruct (fold_asserts p s4 (d_asserts d1)) as [s5| |]; try discriminate. cbn [rbind] in H.
    destruct (match pr_close p with Some f => fold_res f s5 (d_closes d1) | None => ROk s5 end) as [s6| |]; try discriminate.
    cbn [rbind] in H.
    set (d2 := mkDay (d_date d1) (d_prices d1) (d_opens d1) ts' (d_asserts d1) (d_closes d1) (d_normalized d1)) in *.
    assert (H2 : d_date d' = d_date d2 /\ d_opens d' = d_opens d2 /\ d_closes d' = d_closes d2 /\
                 Permutation (d_txns d2) (d_txns d')).
    { case_opt (pr_day_end p) f Ef; rewrite Ef in H; [eapply day_end_rel; eauto|].
      inversion H; subst. repeat split. apply Permutation_refl. }
    destruct H2 as (F1 & F2 & F3 & F4). cbn [d2 d_date d_opens d_closes d_txns] in *.
    repeat split; try congruence.
    exists extra, ts'. repeat split; [exact D5| |exact F4]. rewrite <- D4. exact Hsim.
  Qed.

  Lemma process_days_step ds : forall s s' ds', process_days p s ds = ROk (s', ds') -> Forall2 (day_step Q) ds ds'.
  Proof.
    induction ds as [|d ds IH]; intros s s' ds' H; cbn [process_days] in H.
    - inversion H; subst. constructor.
    - destruct (process_day p s d) as [[s1 d1]| |] eqn:E1; try discriminate. cbn [rbind fst snd] in H.
      destruct (process_days p s1 ds) as [[s2 r]| |] eqn:E2; try discriminate. cbn [rbind fst snd] in H.
      inversion H; subst. constructor; [eapply process_day_step; eauto|eapply IH; eauto].
  Qed.
End StageRel.

(* ================================================================ Part 3 *)

Definition dates (days : list day) : list Z := map d_date days.

(* Builder.Day keeps the list of days strictly ascending by date *)
Lemma upd_day_sorted days d f :
  (forall x, d_date (f x) = d_date x) ->
  Sorted Z.lt (dates days) ->
  Sorted Z.lt (dates (upd_day days d f)) /\
  (forall lo, HdRel Z.lt lo (dates days) -> lo < d -> HdRel Z.lt lo (dates (upd_day days d f))).
Proof.
  intros Hf. induction days as [|x rest IH]; intros Hs; cbn [upd_day].
  - unfold dates. cbn [map]. rewrite Hf. cbn [empty_day d_date].
    split; [repeat constructor|intros; constructor; assumption].
  - inversion Hs as [|? ? Hs' Hhd]; subst.
    destruct (d =? d_date x) eqn:E1.
    + unfold dates in *. cbn [map]. rewrite Hf.
      split; [constructor; assumption|intros lo Hlo _; inversion Hlo; constructor; assumption].
    + apply Z.eqb_neq in E1. destruct (d <? d_date x) eqn:E2.
      * apply Z.ltb_lt in E2. unfold dates in *. cbn [map]. rewrite Hf. cbn [empty_day d_date]. split.
        -- constructor; [exact Hs|constructor; exact E2].
        -- intros; constructor; assumption.
      * apply Z.ltb_ge in E2. destruct (IH Hs') as [I1 I2]. unfold dates in *. cbn [map]. split.
        -- constructor; [exact I1|apply I2; [exact Hhd|lia]].
        -- intros lo Hlo _. inversion Hlo; constructor; assumption.
Qed.

Lemma builder_add_sorted b d : Sorted Z.lt (dates (b_days b)) -> Sorted Z.lt (dates (b_days (builder_add b d))).
Proof.
  intros H. destruct d; cbn [builder_add b_days]; apply upd_day_sorted; try exact H; intros x; reflexivity.
Qed.

Lemma builder_of_sorted ds : Sorted Z.lt (dates (b_days (builder_of ds))).
Proof.
  unfold builder_of. assert (H0 : Sorted Z.lt (dates (b_days new_builder))) by constructor.
  revert H0. generalize new_builder. induction ds as [|d ds IH]; intros b Hb; cbn [fold_left]; [exact Hb|].
  apply IH. apply builder_add_sorted. exact Hb.
Qed.

(* a property of days that holds of a fresh day and is kept by the update *)
Lemma upd_day_Forall (P : day -> Prop) days d f :
  Forall P days -> (forall x, P x \/ x = empty_day d -> d_date x = d -> P (f x)) -> Forall P (upd_day days d f).
Proof.
  intros Hd Hf. induction Hd as [|x rest Hx Hrest IH]; cbn [upd_day].
  - constructor; [apply Hf; [right; reflexivity|reflexivity]|constructor].
  - destruct (d =? d_date x) eqn:E1.
    + apply Z.eqb_eq in E1. constructor; [apply Hf; [left; exact Hx|symmetry; exact E1]|exact Hrest].
    + destruct (d <? d_date x); constructor; auto;
        try (apply Hf; [right; reflexivity|reflexivity]).
Qed.

(* every transaction of a day carries the day's date *)
Definition day_dates_ok (d : day) : Prop := Forall (fun t => t_date t = d_date d) (d_txns d).

Lemma builder_add_dates_ok b d : Forall day_dates_ok (b_days b) -> Forall day_dates_ok (b_days (builder_add b d)).
Proof.
  intros H.
  assert (Hgen : forall dt f,
    (forall x, d_date (f x) = d_date x /\
               (d_txns (f x) = d_txns x \/ exists t, t_date t = dt /\ d_txns (f x) = d_txns x ++ [t])) ->
    Forall day_dates_ok (upd_day (b_days b) dt f)).
  { intros dt f Hf. apply upd_day_Forall; [exact H|]. intros x Hx Hdt. destruct (Hf x) as [F1 F2].
    assert (Hx' : day_dates_ok x) by (destruct Hx as [Hx| ->]; [exact Hx|constructor]).
    unfold day_dates_ok in *. rewrite F1. destruct F2 as [F2|(t & Ht & F2)]; rewrite F2; [exact Hx'|].
    apply Forall_app. split; [exact Hx'|]. constructor; [congruence|constructor]. }
  destruct d; cbn [builder_add b_days]; apply Hgen; intros x; cbn [d_date d_txns add_txn_day]; split;
    try reflexivity; try (left; reflexivity).
  right. exists t. split; reflexivity.
Qed.

Lemma builder_of_dates_ok ds : Forall day_dates_ok (b_days (builder_of ds)).
Proof.
  unfold builder_of. assert (H0 : Forall day_dates_ok (b_days new_builder)) by constructor.
  revert H0. generalize new_builder. induction ds as [|d ds IH]; intros b Hb; cbn [fold_left]; [exact Hb|].
  apply IH. apply builder_add_dates_ok. exact Hb.
Qed.

(* the builder loses and duplicates no transaction *)
Definition directive_txns (ds : list directive) : list txn :=
  flat_map (fun d => match d with DTxn t => [t] | _ => [] end) ds.

Lemma upd_day_txns days d f extra :
  (forall x, d_txns (f x) = d_txns x ++ extra) ->
  Permutation (all_txns (upd_day days d f)) (all_txns days ++ extra).
Proof.
  intros Hf. unfold all_txns. induction days as [|x rest IH]; cbn [upd_day map concat].
  - rewrite Hf. cbn [empty_day d_txns app]. rewrite app_nil_r. apply Permutation_refl.
  - destruct (d =? d_date x).
    + cbn [map concat]. rewrite Hf, <- !app_assoc. apply Permutation_app_head. apply Permutation_app_comm.
    + destruct (d <? d_date x).
      * cbn [map concat]. rewrite Hf. cbn [empty_day d_txns app]. apply Permutation_app_comm.
      * cbn [map concat]. rewrite <- app_assoc. apply Permutation_app_head. exact IH.
Qed.

Lemma builder_add_txns b d :
  Permutation (all_txns (b_days (builder_add b d))) (all_txns (b_days b) ++ directive_txns [d]).
Proof.
  assert (Hsame : forall dt f, (forall x, d_txns (f x) = d_txns x) ->
            Permutation (all_txns (upd_day (b_days b) dt f)) (all_txns (b_days b) ++ [])).
  { intros dt f Hf. apply upd_day_txns. intros x. rewrite app_nil_r. apply Hf. }
  destruct d; cbn [builder_add b_days directive_txns flat_map app];
    try (apply Hsame; intros x; reflexivity).
  apply upd_day_txns. intros x. reflexivity.
Qed.

Lemma directive_txns_app a b : directive_txns (a ++ b) = directive_txns a ++ directive_txns b.
Proof. unfold directive_txns. apply flat_map_app. Qed.

Lemma builder_of_txns ds : Permutation (all_txns (b_days (builder_of ds))) (directive_txns ds).
Proof.
  unfold builder_of.
  assert (H : forall b, Permutation (all_txns (b_days (fold_left builder_add ds b))) (all_txns (b_days b) ++ directive_txns ds)).
  { induction ds as [|d ds IH]; intros b; cbn [fold_left].
    - cbn. rewrite app_nil_r. apply Permutation_refl.
    - rewrite IH. change (d :: ds) with ([d] ++ ds). rewrite directive_txns_app, app_assoc.
      apply Permutation_app_tail. apply builder_add_txns. }
  apply (H new_builder).
Qed.

(* ---- how a stage step moves per-day facts *)

Lemma Forall2_Forall_r {A B} (R : A -> B -> Prop) (P : A -> Prop) (P' : B -> Prop) l m :
  (forall x y, R x y -> P x -> P' y) -> Forall2 R l m -> Forall P l -> Forall P' m.
Proof.
  intros HR H. induction H as [|x y l m Hxy _ IH]; intros Hl; [constructor|].
  inversion Hl; subst. constructor; eauto.
Qed.

Lemma day_step_dates_ok (Q : Z -> txn -> Prop) d d' :
  (forall dt t, Q dt t -> t_date t = dt) -> day_step Q d d' -> day_dates_ok d -> day_dates_ok d'.
Proof.
  intros HQ (H1 & _ & _ & extra & mid & He & Hs & Hp) Hd. unfold day_dates_ok in *.
  rewrite H1. eapply Permutation_Forall; [exact Hp|].
  eapply Forall2_Forall_r; [|exact Hs|].
  - intros x y (Hxy & _) Hx. cbn beta in Hx. rewrite Hxy. exact Hx.
  - apply Forall_app. split; [exact Hd|]. eapply Forall_impl; [|exact He]. intros t Ht. apply HQ. exact Ht.
Qed.

Lemma days_step_dates (Q : Z -> txn -> Prop) l l' : Forall2 (day_step Q) l l' -> dates l' = dates l.
Proof.
  induction 1 as [|d d' l l' (H1 & _) _ IH]; [reflexivity|]. unfold dates in *. cbn [map]. rewrite H1, IH. reflexivity.
Qed.

Lemma days_step_dates_ok (Q : Z -> txn -> Prop) l l' :
  (forall dt t, Q dt t -> t_date t = dt) -> Forall2 (day_step Q) l l' -> Forall day_dates_ok l -> Forall day_dates_ok l'.
Proof.
  intros HQ H. induction H as [|d d' l l' Hdd _ IH]; intros Hl; [constructor|].
  inversion Hl; subst. constructor; [eapply day_step_dates_ok; eauto|auto].
Qed.

(* ================================================================ Part 4 *)

Definition no_extra : Z -> txn -> Prop := fun _ _ => False.

(* a value adjustment as Valuate creates it (up to the values, which txn_sim does not track):
   dated dt, described "Adjust value of C in account A" for an asset or liability account A,
   posting to A and to A's valuation account *)
Definition adjustment (dt : Z) (t : txn) : Prop :=
  exists c a gain, is_AL a = true /\ t_date t = dt /\ t_desc t = s_adjust c a /\
    Forall2 posting_sim (pair_build (valuation_account_for a) a c dec_nil gain) (t_postings t).

Lemma adjustment_sim dt t t' : txn_sim t t' -> adjustment dt t -> adjustment dt t'.
Proof.
  intros (H1 & H2 & _ & H4) (c & a & gain & Ha & Hd & Hs & Hp). exists c, a, gain.
  repeat split; try congruence. eapply Forall2_trans; [exact posting_sim_trans|exact Hp|exact H4].
Qed.

Lemma adjustment_date dt t : adjustment dt t -> t_date t = dt.
Proof. intros (c & a & gain & _ & Hd & _). exact Hd. Qed.

Lemma sort_stage_step s ds s' ds' :
  process_days sort_proc s ds = ROk (s', ds') -> Forall2 (day_step no_extra) ds ds'.
Proof.
  refine (process_days_step sort_proc no_extra _ _ _ ds s s' ds');
    cbn [sort_proc pr_day_start pr_day_end pr_posting]; try discriminate.
  intros f s0 d s1 d1 Hf H. injection Hf as <-. inversion H; subst. cbn [set_txns d_date d_opens d_closes d_txns].
  repeat split. symmetry. apply sort_by_perm.
Qed.

Lemma prices_stage_step v s ds s' ds' :
  process_days (compute_prices_proc v) s ds = ROk (s', ds') -> Forall2 (day_step no_extra) ds ds'.
Proof.
  refine (process_days_step (compute_prices_proc v) no_extra _ _ _ ds s s' ds');
    cbn [compute_prices_proc pr_day_start pr_day_end pr_posting]; try discriminate.
  intros f s0 d s1 d1 Hf H. injection Hf as <-. unfold cp_day_end in H.
  destruct (d_prices d).
  - inversion H; subst. cbn [set_normalized d_date d_opens d_closes d_txns]. repeat split. apply Permutation_refl.
  - destruct (normalize (cp_prices s0) v); try discriminate.
    inversion H; subst. cbn [set_normalized d_date d_opens d_closes d_txns]. repeat split. apply Permutation_refl.
Qed.

Lemma check_stage_step l s ds s' ds' :
  process_days (check_proc l) s ds = ROk (s', ds') -> Forall2 (day_step no_extra) ds ds'.
Proof.
  refine (process_days_step (check_proc l) no_extra _ _ _ ds s s' ds');
    cbn [check_proc pr_day_start pr_day_end pr_posting]; try discriminate.
  intros f s0 t x s1 x' Hf H. injection Hf as <-. unfold ck_posting_cb in H.
  destruct (negb (is_open s0 (p_acc x))); try discriminate.
  destruct (is_AL (p_acc x)); inversion H; subst; apply posting_sim_refl.
Qed.

Lemma val_adjustments_adjust v date prev cur pos ts :
  val_adjustments v date prev cur pos = ROk ts -> Forall (adjustment date) ts.
Proof.
  revert ts. induction pos as [|[k [[a c] q]] rest IH]; intros ts H; cbn [val_adjustments] in H.
  - inversion H. constructor.
  - destruct (str_eqb c v || negb (is_AL a) || is_zero q) eqn:E; [apply IH; exact H|].
    destruct (np_price_opt prev c); try discriminate.
    destruct (np_price_opt cur c); try discriminate.
    destruct (is_zero (sub d0 d)); [apply IH; exact H|].
    destruct (val_adjustments v date prev cur rest) as [ts'| |]; try discriminate. cbn [rbind] in H.
    inversion H. constructor; [|apply IH; reflexivity].
    exists c, a, (multiply (sub d0 d) q). cbn [t_date t_desc t_postings]. repeat split.
    + apply orb_false_elim in E. destruct E as [E _]. apply orb_false_elim in E. destruct E as [_ E].
      apply negb_false_iff in E. exact E.
    + apply Forall2_refl. exact posting_sim_refl.
Qed.

Lemma val_posting_sim v s t p s' p' : val_posting v s t p = ROk (s', p') -> posting_sim p p'.
Proof.
  unfold val_posting. intros H.
  destruct (is_zero (p_qty p)); [inversion H; subst; apply posting_sim_refl|].
  destruct (str_eqb v (p_com p)); [inversion H; subst; repeat split|].
  destruct (v_cur s); try discriminate.
  destruct (np_valuate n (p_com p) (p_qty p)); try discriminate.
  inversion H; subst; repeat split.
Qed.

Lemma valuate_stage_step v s ds s' ds' :
  process_days (valuate_proc v) s ds = ROk (s', ds') -> Forall2 (day_step adjustment) ds ds'.
Proof.
  refine (process_days_step (valuate_proc v) adjustment _ _ _ ds s s' ds');
    cbn [valuate_proc pr_day_start pr_day_end pr_posting].
  - intros f s0 d s1 d1 Hf H. injection Hf as <-. unfold val_day_start in H.
    destruct (val_adjustments v (d_date d) (v_prev s0) (d_normalized d) (v_qty s0)) as [ts| |] eqn:E; try discriminate.
    cbn [rbind] in H. inversion H; subst. cbn [set_txns d_date d_opens d_closes d_txns]. repeat split.
    exists ts. split; [reflexivity|]. eapply val_adjustments_adjust; eauto.
  - intros f s0 d s1 d1 Hf H. injection Hf as <-. unfold val_day_end in H. inversion H; subst.
    repeat split. apply Permutation_refl.
  - intros f s0 t x s1 x' Hf H. injection Hf as <-. eapply val_posting_sim; eauto.
Qed.

Lemma no_extra_adjustment dt t : no_extra dt t -> adjustment dt t.
Proof. intros []. Qed.

Lemma days_step_mono (Q Q' : Z -> txn -> Prop) l l' :
  (forall dt t, Q dt t -> Q' dt t) -> Forall2 (day_step Q) l l' -> Forall2 (day_step Q') l l'.
Proof. intros HQ H. induction H; constructor; [eapply day_step_mono; eauto|assumption]. Qed.

(* the run of `knut transcode -v V`, stage by stage *)
Lemma transcode_days_inv l v sds days :
  transcode_days l v sds = COk days ->
  exists ds d1 d2 d3 s1 s2 s3 s4,
    parse_directives sds = MOk ds /\
    process_days sort_proc tt (b_days (builder_of ds)) = ROk (s1, d1) /\
    process_days (compute_prices_proc v) (mkCp [] None) d1 = ROk (s2, d2) /\
    process_days (check_proc l) check_init d2 = ROk (s3, d3) /\
    process_days (valuate_proc v) (mkVal None None []) d3 = ROk (s4, days).
Proof.
  unfold transcode_days, load, transcode_stages, run_stage. intros H.
  destruct (parse_directives sds) as [ds| |] eqn:E0; try discriminate. cbn [of_mresult cbind] in H.
  destruct (process_days sort_proc tt (b_days (builder_of ds))) as [[s1 d1]| |] eqn:E1; try discriminate.
  cbn [of_presult cbind snd] in H.
  destruct (process_days (compute_prices_proc v) (mkCp [] None) d1) as [[s2 d2]| |] eqn:E2; try discriminate.
  cbn [of_presult cbind snd] in H.
  destruct (process_days (check_proc l) check_init d2) as [[s3 d3]| |] eqn:E3; try discriminate.
  cbn [of_presult cbind snd] in H.
  destruct (process_days (valuate_proc v) (mkVal None None []) d3) as [[s4 d4]| |] eqn:E4; try discriminate.
  cbn [of_presult cbind snd] in H. inversion H; subst.
  exists ds, d1, d2, d3, s1, s2, s3, s4. repeat split; assumption.
Qed.


(* the posting-pair invariant reaches the days handed to Transcode *)
Lemma sort_stage_ok s ds s' ds' :
  Forall day_ok ds -> process_days sort_proc s ds = ROk (s', ds') -> Forall day_ok ds'.
Proof.
  intros Hds H.
  refine (proj2 (process_days_ok sort_proc (fun _ => True) _ _ _ _ _ _ _ _ ds s s' ds' I Hds H));
    cbn [sort_proc pr_day_start pr_price pr_open pr_txn pr_posting pr_balance pr_close pr_day_end];
    try discriminate; try (intros; exact I).
  intros f s0 d s1 d1 Hf _ Hd Hok. injection Hf as <-. split; [exact I|].
  inversion Hd; subst. unfold day_ok in *. cbn [set_txns d_txns].
  eapply Permutation_Forall; [symmetry; apply sort_by_perm|exact Hok].
Qed.

Lemma transcode_days_ok l v sds days : transcode_days l v sds = COk days -> Forall day_ok days.
Proof.
  intros H. apply transcode_days_inv in H.
  destruct H as (ds & d1 & d2 & d3 & s1 & s2 & s3 & s4 & E0 & E1 & E2 & E3 & E4).
  eapply valuate_stage_ok; [|exact E4]. eapply check_stage_ok; [|exact E3].
  eapply prices_stage_ok; [|exact E2]. eapply sort_stage_ok; [|exact E1].
  apply builder_of_ok. eapply parse_directives_ok. exact E0.
Qed.

(* from the builder's days to the days handed to Transcode *)
Lemma transcode_days_step l v sds days :
  transcode_days l v sds = COk days ->
  exists ds, parse_directives sds = MOk ds /\ Forall2 (day_step adjustment) (b_days (builder_of ds)) days.
Proof.
  intros H. apply transcode_days_inv in H.
  destruct H as (ds & d1 & d2 & d3 & s1 & s2 & s3 & s4 & E0 & E1 & E2 & E3 & E4).
  exists ds. split; [exact E0|].
  apply sort_stage_step in E1. apply prices_stage_step in E2. apply check_stage_step in E3.
  apply valuate_stage_step in E4.
  pose proof (days_step_mono _ _ _ _ no_extra_adjustment E1) as F1.
  pose proof (days_step_mono _ _ _ _ no_extra_adjustment E2) as F2.
  pose proof (days_step_mono _ _ _ _ no_extra_adjustment E3) as F3.
  eapply days_step_trans; [exact F1|]. eapply days_step_trans; [exact F2|].
  eapply days_step_trans; [exact F3|exact E4].
Qed.

(* ================================================================ Part 5 *)

(* ---- completeness: the transactions handed to Transcode are the journal's transactions
   (rewritten posting by posting: values filled in) plus value adjustments *)

Lemma all_txns_cons d l : all_txns (d :: l) = d_txns d ++ all_txns l.
Proof. reflexivity. Qed.

Lemma days_step_complete (Q : Z -> txn -> Prop) l l' :
  (forall dt t t', txn_sim t t' -> Q dt t -> Q dt t') ->
  Forall2 (day_step Q) l l' ->
  exists users adjs, Permutation (all_txns l') (users ++ adjs) /\ Forall2 txn_sim (all_txns l) users /\
                     Forall (fun t => exists dt, Q dt t) adjs.
Proof.
  intros HQ H. induction H as [|d d' l l' Hdd _ IH].
  - exists [], []. repeat split; constructor.
  - destruct IH as (U & A & IH1 & IH2 & IH3).
    destruct Hdd as (_ & _ & _ & extra & mid & He & Hs & Hp).
    apply Forall2_app_inv_l in Hs. destruct Hs as (mu & me & Hmu & Hme & ->).
    exists (mu ++ U), (me ++ A). repeat split.
    + rewrite !all_txns_cons, <- Hp, IH1, <- !app_assoc. apply Permutation_app_head.
      rewrite !app_assoc. apply Permutation_app_tail. apply Permutation_app_comm.
    + rewrite all_txns_cons. apply Forall2_app; assumption.
    + apply Forall_app. split; [|exact IH3].
      eapply Forall2_Forall_r; [|exact Hme|exact He].
      intros x y Hxy Hx. exists (d_date d). eapply HQ; eauto.
Qed.

Lemma transcode_complete l v sds days :
  transcode_days l v sds = COk days ->
  exists ds users adjs,
    parse_directives sds = MOk ds /\
    Permutation (entry_txns (transcode_entries days [])) (users ++ adjs) /\
    (exists orig, Permutation orig (directive_txns ds) /\ Forall2 txn_sim orig users) /\
    Forall (fun t => adjustment (t_date t) t) adjs.
Proof.
  intros H. destruct (transcode_days_step _ _ _ _ H) as (ds & E0 & Hstep).
  destruct (days_step_complete adjustment _ _ (fun dt t t' => adjustment_sim dt t t') Hstep) as (U & A & P1 & P2 & P3).
  exists ds, U, A. repeat split.
  - exact E0.
  - rewrite (transcode_entries_perm days []). exact P1.
  - exists (all_txns (b_days (builder_of ds))). split; [apply builder_of_txns|exact P2].
  - eapply Forall_impl; [|exact P3]. intros t (dt & Ht). rewrite (adjustment_date _ _ Ht). exact Ht.
Qed.

(* ---- chronological order *)

Definition bentry_date (e : bentry) : Z :=
  match e with BOpen d _ => d | BClose d _ => d | BTxn t => t_date t end.

Lemma erase_entries_dates v es : map entry_date (erase_entries v es) = map bentry_date es.
Proof.
  unfold erase_entries. rewrite map_map. apply map_ext. intros [d a|d a|t]; reflexivity.
Qed.

Lemma val_opens_postings_dates date ps seen :
  Forall (fun e => bentry_date e = date) (fst (val_opens_postings date ps seen)).
Proof.
  revert seen. induction ps as [|p ps IH]; intros seen; cbn [val_opens_postings]; [constructor|].
  destruct (is_prefix s_equity_valuation (acc_name (p_acc p)) && negb (existsb (acc_eqb (p_acc p)) seen)).
  - specialize (IH (p_acc p :: seen)). destruct (val_opens_postings date ps (p_acc p :: seen)) as [es s'].
    cbn [fst] in *. constructor; [reflexivity|exact IH].
  - apply IH.
Qed.

Lemma val_opens_txns_dates dt ts seen :
  Forall (fun t => t_date t = dt) ts -> Forall (fun e => bentry_date e = dt) (fst (val_opens_txns ts seen)).
Proof.
  intros H. revert seen. induction H as [|t ts Ht _ IH]; intros seen; cbn [val_opens_txns]; [constructor|].
  pose proof (val_opens_postings_dates (t_date t) (t_postings t) seen) as H1.
  destruct (val_opens_postings (t_date t) (t_postings t) seen) as [e1 s1].
  specialize (IH s1). destruct (val_opens_txns ts s1) as [e2 s2]. cbn [fst] in *.
  apply Forall_app. split; [rewrite <- Ht; exact H1|exact IH].
Qed.

Lemma transcode_day_dates d seen :
  day_dates_ok d -> Forall (fun e => bentry_date e = d_date d) (fst (transcode_day d seen)).
Proof.
  intros Hd. unfold transcode_day.
  assert (Hs : Forall (fun t => t_date t = d_date d) (sort_by txn_ltb (d_txns d))).
  { eapply Permutation_Forall; [symmetry; apply sort_by_perm|exact Hd]. }
  pose proof (val_opens_txns_dates (d_date d) _ seen Hs) as Hv.
  destruct (val_opens_txns (sort_by txn_ltb (d_txns d)) seen) as [vo s']. cbn [fst] in *.
  repeat (apply Forall_app; split); try exact Hv.
  - apply Forall_forall. intros e He. apply in_map_iff in He. destruct He as (a & <- & _). reflexivity.
  - apply Forall_forall. intros e He. apply in_map_iff in He. destruct He as (t & <- & Ht).
    rewrite Forall_forall in Hs. apply Hs. exact Ht.
  - apply Forall_forall. intros e He. apply in_map_iff in He. destruct He as (a & <- & _). reflexivity.
Qed.

Lemma transcode_entries_dates_in days seen :
  Forall day_dates_ok days ->
  Forall (fun e => In (bentry_date e) (dates days)) (transcode_entries days seen).
Proof.
  intros H. revert seen. induction H as [|d days Hd _ IH]; intros seen; cbn [transcode_entries]; [constructor|].
  pose proof (transcode_day_dates d seen Hd) as H1.
  destruct (transcode_day d seen) as [es s']. cbn [fst] in H1.
  apply Forall_app. split.
  - eapply Forall_impl; [|exact H1]. intros e He. left. symmetry. exact He.
  - eapply Forall_impl; [|apply IH]. intros e He. right. exact He.
Qed.

Lemma StronglySorted_app {A} (R : A -> A -> Prop) l1 l2 :
  StronglySorted R l1 -> StronglySorted R l2 -> (forall x y, In x l1 -> In y l2 -> R x y) ->
  StronglySorted R (l1 ++ l2).
Proof.
  intros H1 H2 H. induction H1 as [|x l1 Hl1 IH Hx]; cbn [app]; [exact H2|].
  constructor.
  - apply IH. intros a b Ha Hb. apply H; [right; exact Ha|exact Hb].
  - apply Forall_app. split; [exact Hx|]. apply Forall_forall. intros y Hy. apply H; [left; reflexivity|exact Hy].
Qed.

Lemma constant_sorted c l : Forall (fun x => x = c) l -> StronglySorted Z.le l.
Proof.
  induction 1 as [|x l Hx Hl IH]; constructor; [exact IH|].
  subst. eapply Forall_impl; [|exact Hl]. intros y ->. apply Z.le_refl.
Qed.

Lemma transcode_entries_sorted days seen :
  Sorted Z.lt (dates days) -> Forall day_dates_ok days ->
  StronglySorted Z.le (map bentry_date (transcode_entries days seen)).
Proof.
  intros Hs Hd. revert seen. induction Hd as [|d days Hd Hrest IH]; intros seen; cbn [transcode_entries]; [constructor|].
  pose proof (transcode_day_dates d seen Hd) as H1.
  pose proof (transcode_entries_dates_in days) as H2.
  destruct (transcode_day d seen) as [es s']. cbn [fst] in H1.
  rewrite map_app.
  assert (Hss : StronglySorted Z.lt (dates (d :: days))).
  { apply Sorted_StronglySorted; [|exact Hs]. intros a b c. apply Z.lt_trans. }
  unfold dates in Hss. cbn [map] in Hss. inversion Hss as [|? ? Hss' Hlt]; subst.
  apply StronglySorted_app.
  - apply (constant_sorted (d_date d)). apply Forall_forall. intros x Hx.
    apply in_map_iff in Hx. destruct Hx as (e & <- & He). rewrite Forall_forall in H1. apply H1. exact He.
  - apply IH. unfold dates in Hs. cbn [map] in Hs. inversion Hs; assumption.
  - intros x y Hx Hy.
    apply in_map_iff in Hx. destruct Hx as (e & <- & He). rewrite Forall_forall in H1. rewrite (H1 e He).
    apply in_map_iff in Hy. destruct Hy as (e' & <- & He').
    specialize (H2 s' Hrest). rewrite Forall_forall in H2. specialize (H2 e' He').
    rewrite Forall_forall in Hlt. apply Z.lt_le_incl. apply Hlt. exact H2.
Qed.

Lemma transcode_days_dates l v sds days :
  transcode_days l v sds = COk days -> Sorted Z.lt (dates days) /\ Forall day_dates_ok days.
Proof.
  intros H. destruct (transcode_days_step _ _ _ _ H) as (ds & _ & Hstep). split.
  - rewrite (days_step_dates _ _ _ Hstep). apply builder_of_sorted.
  - eapply days_step_dates_ok; [exact adjustment_date|exact Hstep|apply builder_of_dates_ok].
Qed.

Lemma transcode_chronological l v sds days :
  transcode_days l v sds = COk days ->
  StronglySorted Z.le (map entry_date (erase_entries v (transcode_entries days []))).
Proof.
  intros H. destruct (transcode_days_dates _ _ _ _ H) as [H1 H2].
  rewrite erase_entries_dates. apply transcode_entries_sorted; assumption.
Qed.

(* ================================================================ Part 6 *)

(* ---- the checker's open set, replayed over the days *)

Definition is_open_in (o : list account) (a : account) : bool := existsb (acc_eqb a) o.

Definition opens_after (o : list account) (d : day) : list account :=
  fold_left (fun o a => a :: o) (d_opens d) o.
Definition closes_after (o : list account) (d : day) : list account :=
  fold_left (fun o a => filter (fun x => negb (acc_eqb a x)) o) (d_closes d) o.

Definition txn_open (o : list account) (t : txn) : Prop :=
  Forall (fun p => is_open_in o (p_acc p) = true) (t_postings t).

(* every transaction of every day posts to accounts that are open after the day's openings
   (and before its closings) -- except the transactions satisfying Q *)
Fixpoint days_checked (Q : Z -> txn -> Prop) (o : list account) (days : list day) : Prop :=
  match days with
  | [] => True
  | d :: rest => Forall (fun t => Q (d_date d) t \/ txn_open (opens_after o d) t) (d_txns d) /\
                 days_checked Q (closes_after (opens_after o d) d) rest
  end.

Lemma ck_opens_fold l : forall s s', fold_res ck_open_cb s l = ROk s' ->
  ck_open s' = fold_left (fun o a => a :: o) l (ck_open s).
Proof.
  induction l as [|a l IH]; intros s s' H; cbn [fold_res fold_left] in *.
  - inversion H; reflexivity.
  - destruct (ck_open_cb s a) as [s1| |] eqn:E; try discriminate. cbn [rbind] in H.
    rewrite (IH _ _ H). unfold ck_open_cb in E. destruct (is_open s a); try discriminate.
    inversion E; subst. reflexivity.
Qed.

Lemma ck_closes_fold l : forall s s', fold_res ck_close_cb s l = ROk s' ->
  ck_open s' = fold_left (fun o a => filter (fun x => negb (acc_eqb a x)) o) l (ck_open s).
Proof.
  induction l as [|a l IH]; intros s s' H; cbn [fold_res fold_left] in *.
  - inversion H; reflexivity.
  - destruct (ck_close_cb s a) as [s1| |] eqn:E; try discriminate. cbn [rbind] in H.
    rewrite (IH _ _ H). unfold ck_close_cb in E. destruct (close_positions (ck_qty s) a); try discriminate.
    destruct (negb (is_open s a)); try discriminate. inversion E; subst. reflexivity.
Qed.

Lemma ck_postings_open t ps : forall s s' ps', fold_postings ck_posting_cb t s ps = ROk (s', ps') ->
  ck_open s' = ck_open s /\ Forall (fun p => is_open_in (ck_open s) (p_acc p) = true) ps.
Proof.
  induction ps as [|x ps IH]; intros s s' ps' H; cbn [fold_postings] in H.
  - inversion H; subst. split; [reflexivity|constructor].
  - destruct (ck_posting_cb s t x) as [[s1 x']| |] eqn:E1; try discriminate. cbn [rbind fst snd] in H.
    destruct (fold_postings ck_posting_cb t s1 ps) as [[s2 r']| |] eqn:E2; try discriminate. cbn [rbind fst snd] in H.
    inversion H; subst. destruct (IH _ _ _ E2) as [I1 I2].
    unfold ck_posting_cb in E1. destruct (is_open s (p_acc x)) eqn:Eo; cbn [negb] in E1; try discriminate.
    assert (Hs1 : ck_open s1 = ck_open s) by (destruct (is_AL (p_acc x)); inversion E1; subst; reflexivity).
    rewrite Hs1 in *. split; [exact I1|]. constructor; [exact Eo|exact I2].
Qed.

Lemma ck_txns_open l ts : forall s s' ts', fold_txns (check_proc l) s ts = ROk (s', ts') ->
  ck_open s' = ck_open s /\ Forall (txn_open (ck_open s)) ts.
Proof.
  induction ts as [|t ts IH]; intros s s' ts' H; cbn [fold_txns check_proc pr_txn pr_posting] in H.
  - inversion H; subst. split; [reflexivity|constructor].
  - cbn [rbind] in H.
    destruct (fold_postings ck_posting_cb t s (t_postings t)) as [[s2 ps']| |] eqn:E2; try discriminate.
    cbn [rbind fst snd] in H.
    destruct (fold_txns (check_proc l) s2 ts) as [[s3 r']| |] eqn:E3; try discriminate. cbn [rbind fst snd] in H.
    inversion H; subst. destruct (ck_postings_open _ _ _ _ _ E2) as [P1 P2]. destruct (IH _ _ _ E3) as [I1 I2].
    rewrite P1 in *. split; [exact I1|]. constructor; [exact P2|exact I2].
Qed.

Lemma ck_balances_open l a bs : forall s s', fold_res (fun s b => ck_balance_cb l s a b) s bs = ROk s' -> s' = s.
Proof.
  induction bs as [|b bs IH]; intros s s' H; cbn [fold_res] in H.
  - inversion H; reflexivity.
  - destruct (ck_balance_cb l s a b) as [s1| |] eqn:E; try discriminate. cbn [rbind] in H.
    assert (s1 = s).
    { unfold ck_balance_cb in E. destruct (negb (is_open s (bal_acc b))); try discriminate.
      destruct (pos_get (ck_qty s) (bal_acc b) (bal_com b)).
      - destruct (dec_equal d (bal_qty b)); inversion E; reflexivity.
      - destruct (l && dec_equal dec_nil (bal_qty b)); inversion E; reflexivity. }
    subst. apply IH. exact H.
Qed.

Lemma ck_asserts_open l asserts : forall s s', fold_asserts (check_proc l) s asserts = ROk s' -> s' = s.
Proof.
  induction asserts as [|a rest IH]; intros s s' H; cbn [fold_asserts check_proc pr_balance] in H.
  - inversion H; reflexivity.
  - destruct (fold_res (fun s b => ck_balance_cb l s a b) s a) as [s1| |] eqn:E; try discriminate.
    cbn [rbind] in H. apply ck_balances_open in E. subst. apply IH. exact H.
Qed.

Lemma check_day_checked l s d s' d' : process_day (check_proc l) s d = ROk (s', d') ->
  Forall (txn_open (opens_after (ck_open s) d)) (d_txns d) /\
  ck_open s' = closes_after (opens_after (ck_open s) d) d.
Proof.
  unfold process_day. cbn [check_proc pr_day_start pr_price pr_open pr_close pr_day_end rbind fst snd].
  intros H.
  destruct (fold_res ck_open_cb s (d_opens d)) as [s3| |] eqn:E3; try discriminate. cbn [rbind] in H.
  destruct (fold_txns (check_proc l) s3 (d_txns d)) as [[s4 ts']| |] eqn:E4; try discriminate.
  cbn [rbind fst snd d_asserts d_closes] in H.
  destruct (fold_asserts (check_proc l) s4 (d_asserts d)) as [s5| |] eqn:E5; try discriminate. cbn [rbind] in H.
  destruct (fold_res ck_close_cb s5 (d_closes d)) as [s6| |] eqn:E6; try discriminate. cbn [rbind] in H.
  inversion H; subst.
  apply ck_opens_fold in E3. destruct (ck_txns_open _ _ _ _ _ E4) as [T1 T2]. apply ck_asserts_open in E5. subst s5.
  apply ck_closes_fold in E6. unfold opens_after, closes_after. rewrite <- E3. split; [exact T2|].
  rewrite E6, T1. reflexivity.
Qed.

Lemma check_days_checked l ds : forall s s' ds', process_days (check_proc l) s ds = ROk (s', ds') ->
  days_checked no_extra (ck_open s) ds.
Proof.
  induction ds as [|d ds IH]; intros s s' ds' H; cbn [process_days days_checked] in *; [exact I|].
  destruct (process_day (check_proc l) s d) as [[s1 d1]| |] eqn:E1; try discriminate. cbn [rbind fst snd] in H.
  destruct (process_days (check_proc l) s1 ds) as [[s2 r]| |] eqn:E2; try discriminate.
  destruct (check_day_checked _ _ _ _ _ E1) as [C1 C2]. split.
  - eapply Forall_impl; [|exact C1]. intros t Ht. right. exact Ht.
  - rewrite <- C2. eapply IH. exact E2.
Qed.

(* ---- the later stages keep it *)

Lemma txn_open_sim o t t' : txn_sim t t' -> txn_open o t -> txn_open o t'.
Proof.
  intros (_ & _ & _ & H) Ht. unfold txn_open in *.
  eapply Forall2_Forall_r; [|exact H|exact Ht]. intros x y (Hxy & _) Hx. cbn beta in *. rewrite Hxy. exact Hx.
Qed.

Lemma days_checked_mono (Q Q' : Z -> txn -> Prop) : (forall dt t, Q dt t -> Q' dt t) ->
  forall days o, days_checked Q o days -> days_checked Q' o days.
Proof.
  intros HQ. induction days as [|d days IH]; intros o H; cbn [days_checked] in *; [exact I|].
  destruct H as [H1 H2]. split; [|apply IH; exact H2].
  eapply Forall_impl; [|exact H1]. intros t [Ht|Ht]; [left; apply HQ; exact Ht|right; exact Ht].
Qed.

Lemma days_checked_step (Q : Z -> txn -> Prop) l l' :
  (forall dt t t', txn_sim t t' -> Q dt t -> Q dt t') ->
  Forall2 (day_step Q) l l' -> forall o, days_checked Q o l -> days_checked Q o l'.
Proof.
  intros HQ H. induction H as [|d d' l l' Hdd _ IH]; intros o Hc; cbn [days_checked] in *; [exact I|].
  destruct Hc as [C1 C2]. destruct Hdd as (D1 & D2 & D3 & extra & mid & He & Hs & Hp).
  assert (Ho : opens_after o d' = opens_after o d) by (unfold opens_after; rewrite D2; reflexivity).
  assert (Hcl : closes_after (opens_after o d') d' = closes_after (opens_after o d) d)
    by (rewrite Ho; unfold closes_after; rewrite D3; reflexivity).
  rewrite Hcl, Ho, D1. split; [|apply IH; exact C2].
  eapply Permutation_Forall; [exact Hp|].
  refine (Forall2_Forall_r txn_sim (fun t => Q (d_date d) t \/ txn_open (opens_after o d) t) _ _ _ _ Hs _).
  - intros x y Hxy Hx. cbn beta in Hx. destruct Hx as [Hx|Hx]; [left; eapply HQ; eauto|right; eapply txn_open_sim; eauto].
  - apply Forall_app. split; [exact C1|]. eapply Forall_impl; [|exact He]. intros t Ht. left. exact Ht.
Qed.

Lemma transcode_days_checked l v sds days :
  transcode_days l v sds = COk days -> days_checked adjustment [] days.
Proof.
  intros H. apply transcode_days_inv in H.
  destruct H as (ds & d1 & d2 & d3 & s1 & s2 & s3 & s4 & E0 & E1 & E2 & E3 & E4).
  pose proof (check_days_checked _ _ _ _ _ E3) as Hc. cbn [check_init ck_open] in Hc.
  apply (days_checked_mono _ _ no_extra_adjustment) in Hc.
  apply check_stage_step in E3. apply valuate_stage_step in E4.
  pose proof (days_step_mono _ _ _ _ no_extra_adjustment E3) as F3.
  eapply days_checked_step; [exact adjustment_sim| |exact Hc].
  eapply days_step_trans; [exact F3|exact E4].
Qed.

(* ---- from the days to the emitted entries and the specification's state *)

(* every account of the checker's open set has an open directive in force in the reader's state *)
Definition covers (o : list account) (so : list (str * Z)) : Prop :=
  forall a, is_open_in o a = true -> mem (acc_name a) (map fst so) = true.

Lemma mem_in a l : mem a l = true <-> In a l.
Proof.
  unfold mem. rewrite existsb_exists. split.
  - intros (x & Hx & E). apply str_eqb_eq in E. subst. exact Hx.
  - intros H. exists a. split; [exact H|apply str_eqb_refl].
Qed.

Lemma covers_open o so a d : covers o so -> covers (a :: o) ((acc_name a, d) :: so).
Proof.
  intros H x Hx. unfold is_open_in in Hx. cbn [existsb] in Hx. apply orb_true_iff in Hx.
  apply mem_in. cbn [map fst]. destruct Hx as [Hx|Hx].
  - left. unfold acc_eqb in Hx. apply str_eqb_eq in Hx. symmetry. exact Hx.
  - right. apply mem_in. apply H. exact Hx.
Qed.

Lemma covers_more o so x : covers o so -> covers o (x :: so).
Proof. intros H a Ha. apply mem_in. right. apply mem_in. apply H. exact Ha. Qed.

Lemma covers_close o so a : covers o so ->
  covers (filter (fun x => negb (acc_eqb a x)) o) (filter (fun x => negb (str_eqb (acc_name a) (fst x))) so).
Proof.
  intros H x Hx. unfold is_open_in in Hx. apply existsb_exists in Hx. destruct Hx as (y & Hy & Exy).
  apply filter_In in Hy. destruct Hy as [Hy Hay].
  assert (Hxo : is_open_in o x = true) by (unfold is_open_in; apply existsb_exists; exists y; split; assumption).
  apply H in Hxo. apply mem_in in Hxo. apply in_map_iff in Hxo. destruct Hxo as ([n dn] & Hn & Hin). cbn [fst] in Hn. subst n.
  apply mem_in. apply in_map_iff. exists (acc_name x, dn). split; [reflexivity|].
  apply filter_In. split; [exact Hin|]. cbn [fst].
  unfold acc_eqb in *. apply str_eqb_eq in Exy. rewrite Exy. exact Hay.
Qed.

Definition bfold (v : commodity) (st : bstate) (es : list bentry) : bstate :=
  fold_left next_state (erase_entries v es) st.

(* each emitted item paired with the reader's state just before it *)
Fixpoint bscan (v : commodity) (st : bstate) (es : list bentry) : list (bstate * bentry) :=
  match es with
  | [] => []
  | e :: r => (st, e) :: bscan v (next_state st (erase_entry v e)) r
  end.

Lemma bfold_app v st a b : bfold v st (a ++ b) = bfold v (bfold v st a) b.
Proof. unfold bfold, erase_entries. rewrite map_app. apply fold_left_app. Qed.

Lemma bscan_app v a : forall st b, bscan v st (a ++ b) = bscan v st a ++ bscan v (bfold v st a) b.
Proof.
  induction a as [|e a IH]; intros st b; cbn [app bscan]; [reflexivity|].
  rewrite IH. reflexivity.
Qed.

Lemma bscan_split v pre e post : forall st, In (bfold v st pre, e) (bscan v st (pre ++ e :: post)).
Proof.
  induction pre as [|x pre IH]; intros st; cbn [app bscan].
  - left. reflexivity.
  - right. apply IH.
Qed.

Definition entry_open_ok (Q : Z -> txn -> Prop) (x : bstate * bentry) : Prop :=
  match snd x with
  | BTxn t => (exists dt, Q dt t) \/
              Forall (fun p => mem (acc_name (p_acc p)) (map fst (st_open (fst x))) = true) (t_postings t)
  | _ => True
  end.

(* the day's openings *)
Lemma scan_opens Q v d l : forall o st, covers o (st_open st) ->
  Forall (entry_open_ok Q) (bscan v st (map (BOpen d) l)) /\
  covers (fold_left (fun o a => a :: o) l o) (st_open (bfold v st (map (BOpen d) l))).
Proof.
  induction l as [|a l IH]; intros o st Hc; cbn [map bscan fold_left].
  - split; [constructor|exact Hc].
  - destruct (IH (a :: o) (next_state st (erase_entry v (BOpen d a)))) as [I1 I2].
    { cbn [erase_entry next_state st_open]. apply covers_open. exact Hc. }
    split; [constructor; [exact I|exact I1]|exact I2].
Qed.

(* openings emitted by Transcode itself only add *)
Lemma scan_more_opens Q v es : Forall is_bopen es -> forall o st, covers o (st_open st) ->
  Forall (entry_open_ok Q) (bscan v st es) /\ covers o (st_open (bfold v st es)).
Proof.
  induction 1 as [|e es He _ IH]; intros o st Hc; cbn [bscan].
  - split; [constructor|exact Hc].
  - destruct e as [d a|d a|t]; try contradiction.
    destruct (IH o (next_state st (erase_entry v (BOpen d a)))) as [I1 I2].
    { cbn [erase_entry next_state st_open]. apply covers_more. exact Hc. }
    split; [constructor; [exact I|exact I1]|exact I2].
Qed.

(* the day's transactions: the state's open set is not touched *)
Lemma scan_txns (Q : Z -> txn -> Prop) v dt o ts : forall st, covers o (st_open st) ->
  Forall (fun t => Q dt t \/ txn_open o t) ts ->
  Forall (entry_open_ok Q) (bscan v st (map BTxn ts)) /\ st_open (bfold v st (map BTxn ts)) = st_open st.
Proof.
  induction ts as [|t ts IH]; intros st Hc Hts; cbn [map bscan].
  - split; [constructor|reflexivity].
  - inversion Hts as [|? ? Ht Hrest]; subst.
    destruct (IH (next_state st (erase_entry v (BTxn t)))) as [I1 I2]; [exact Hc|exact Hrest|].
    split; [|exact I2]. constructor; [|exact I1].
    unfold entry_open_ok. cbn [snd fst]. destruct Ht as [Ht|Ht]; [left; exists dt; exact Ht|right].
    unfold txn_open in Ht. eapply Forall_impl; [|exact Ht]. intros p Hp. apply Hc. exact Hp.
Qed.

(* the day's closings *)
Lemma scan_closes Q v d l : forall o st, covers o (st_open st) ->
  Forall (entry_open_ok Q) (bscan v st (map (BClose d) l)) /\
  covers (fold_left (fun o a => filter (fun x => negb (acc_eqb a x)) o) l o) (st_open (bfold v st (map (BClose d) l))).
Proof.
  induction l as [|a l IH]; intros o st Hc; cbn [map bscan fold_left].
  - split; [constructor|exact Hc].
  - destruct (IH (filter (fun x => negb (acc_eqb a x)) o) (next_state st (erase_entry v (BClose d a)))) as [I1 I2].
    { cbn [erase_entry next_state st_open]. apply covers_close. exact Hc. }
    split; [constructor; [exact I|exact I1]|exact I2].
Qed.

Lemma scan_entries (Q : Z -> txn -> Prop) v days : forall seen o st,
  days_checked Q o days -> covers o (st_open st) ->
  Forall (entry_open_ok Q) (bscan v st (transcode_entries days seen)).
Proof.
  induction days as [|d days IH]; intros seen o st Hd Hc; cbn [transcode_entries]; [constructor|].
  cbn [days_checked] in Hd. destruct Hd as [Hd1 Hd2].
  unfold transcode_day.
  pose proof (val_opens_txns_opens (sort_by txn_ltb (d_txns d)) seen) as Hvo.
  destruct (val_opens_txns (sort_by txn_ltb (d_txns d)) seen) as [vo seen'].
  cbn [fst] in Hvo.
  set (E1 := map (BOpen (d_date d)) (d_opens d)).
  set (E3 := map BTxn (sort_by txn_ltb (d_txns d))).
  set (E4 := map (BClose (d_date d)) (d_closes d)).
  destruct (scan_opens Q v (d_date d) (d_opens d) o st Hc) as [A1 A2]. fold E1 in A1, A2.
  destruct (scan_more_opens Q v vo Hvo _ _ A2) as [B1 B2].
  assert (Hts : Forall (fun t => Q (d_date d) t \/ txn_open (opens_after o d) t) (sort_by txn_ltb (d_txns d))).
  { eapply Permutation_Forall; [symmetry; apply sort_by_perm|exact Hd1]. }
  destruct (scan_txns Q v (d_date d) _ _ _ B2 Hts) as [C1 C2]. fold E3 in C1, C2.
  assert (C3 : covers (opens_after o d) (st_open (bfold v (bfold v (bfold v st E1) vo) E3))) by (rewrite C2; exact B2).
  destruct (scan_closes Q v (d_date d) (d_closes d) _ _ C3) as [D1 D2]. fold E4 in D1, D2.
  rewrite <- !app_assoc. rewrite !bscan_app.
  repeat (apply Forall_app; split); try assumption.
  eapply IH; [exact Hd2|].
  exact D2.
Qed.

Lemma transcode_open_before_use l v sds days pre t post :
  transcode_days l v sds = COk days ->
  transcode_entries days [] = pre ++ BTxn t :: post ->
  adjustment (t_date t) t \/
  Forall (fun p => mem (acc_name (p_acc p)) (map fst (st_open (state_after (erase_entries v pre)))) = true)
         (t_postings t).
Proof.
  intros H Hsplit. pose proof (transcode_days_checked _ _ _ _ H) as Hc.
  assert (Hcov : covers [] (st_open bst_init)) by (intros a Ha; discriminate).
  pose proof (scan_entries adjustment v days [] [] bst_init Hc Hcov) as Hs.
  rewrite Hsplit in Hs. rewrite Forall_forall in Hs.
  specialize (Hs _ (bscan_split v pre (BTxn t) post bst_init)).
  unfold entry_open_ok in Hs. cbn [snd fst] in Hs. destruct Hs as [(dt & Hs)|Hs].
  - left. rewrite (adjustment_date _ _ Hs). exact Hs.
  - right. exact Hs.
Qed.
