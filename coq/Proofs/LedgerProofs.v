(* C02: refinement of the stateful balance pipeline (unvalued) to the closed-form ledger
   computation of Spec/LedgerSpec.v.  Part 1: cell sums of the report trees. *)
From Coq Require Import ZArith QArith List Bool Lia Permutation.
From Knut Require Import Model.Str Model.Dec Model.Date Model.Account Model.Ledger Model.Price
     Model.Journal Model.Check Model.Pipeline Model.Table Model.Report Model.Cli
     Spec.LedgerSpec
     Proofs.DecProofs Proofs.DecValue Proofs.StrProofs Proofs.PairProofs Proofs.ReportSum Proofs.Conservation.
Import ListNotations.
Open Scope Q_scope.

(* ------------------------------------------------------------ sums per row *)

(* total value stored under key k in the nodes whose path is (name-)equal to row *)
Fixpoint psum (row : account) (k : rkey) (n : node) : Q :=
  match n with
  | Node _ p _ a ch =>
    (if acc_eqb p row then esum idk k a else 0) + fold_right (fun c acc => psum row k c + acc) 0 ch
  end.

Definition pcsum (row : account) (k : rkey) (ch : list node) : Q :=
  fold_right (fun c acc => psum row k c + acc) 0 ch.

Lemma psum_unfold row k s p hv a ch :
  psum row k (Node s p hv a ch) = (if acc_eqb p row then esum idk k a else 0) + pcsum row k ch.
Proof. reflexivity. Qed.

(* every child's stored path is its parent's path extended by the child's segment *)
Fixpoint wf_node (n : node) : Prop :=
  match n with
  | Node _ p _ _ ch =>
    (fix go (l : list node) : Prop :=
       match l with
       | [] => True
       | c :: l' => n_path c = p ++ [n_seg c] /\ wf_node c /\ go l'
       end) ch
  end.

Definition wf_children (p : account) (l : list node) : Prop :=
  Forall (fun c => n_path c = p ++ [n_seg c] /\ wf_node c) l.

Lemma wf_node_children s p hv a ch : wf_node (Node s p hv a ch) <-> wf_children p ch.
Proof.
  unfold wf_children. cbn [wf_node]. induction ch as [|c ch IH]; [split; [constructor|trivial]|].
  split.
  - intros (H1 & H2 & H3). constructor; [split; assumption|]. apply IH. exact H3.
  - intros H. inversion H as [|? ? [H1 H2] H3]; subst. repeat split; try assumption. apply IH. exact H3.
Qed.

Definition delta_at (row : account) (k : rkey) (a : account) (k0 : rkey) (v : dec) : Q :=
  if acc_eqb a row then contrib idk k k0 v else 0.

Lemma pcsum_children_insert row k rec h p (delta : Q) l :
  wf_children p l ->
  (forall c, n_path c = p ++ [h] -> wf_node c ->
             psum row k (rec c) == psum row k c + delta /\ wf_node (rec c) /\ n_path (rec c) = p ++ [h] /\ n_seg (rec c) = n_seg c) ->
  pcsum row k (children_insert rec h (p ++ [h]) l) == pcsum row k l + delta
  /\ wf_children p (children_insert rec h (p ++ [h]) l).
Proof.
  intros Hwf Hrec.
  assert (Hnew : n_path (Node h (p ++ [h]) false [] []) = p ++ [h] /\ wf_node (Node h (p ++ [h]) false [] [])) by (split; [reflexivity|exact I]).
  destruct Hnew as [Hn1 Hn2].
  destruct (Hrec _ Hn1 Hn2) as (Hs & Hw & Hp & Hsg).
  induction Hwf as [|c l [Hc1 Hc2] Hl IH]; cbn [children_insert].
  - split.
    + unfold pcsum. cbn [fold_right]. rewrite Hs. cbn [psum fold_right esum].
      destruct (acc_eqb (p ++ [h]) row); ring.
    + constructor; [|constructor]. split; [|exact Hw]. rewrite Hp, Hsg. reflexivity.
  - destruct (str_cmp h (n_seg c)) eqn:E.
    + apply str_cmp_eq in E. subst h.
      destruct (Hrec c Hc1 Hc2) as (Hs' & Hw' & Hp' & Hsg').
      split.
      * unfold pcsum. cbn [fold_right]. rewrite Hs'. ring.
      * constructor; [|exact Hl]. split; [|exact Hw']. rewrite Hp', Hsg'. reflexivity.
    + split.
      * unfold pcsum. cbn [fold_right]. rewrite Hs. cbn [psum fold_right esum].
        destruct (acc_eqb (p ++ [h]) row); ring.
      * constructor; [|constructor; [split; assumption|exact Hl]].
        split; [|exact Hw]. rewrite Hp, Hsg. reflexivity.
    + destruct IH as [IH1 IH2]. split.
      * unfold pcsum in *. cbn [fold_right]. rewrite IH1. ring.
      * constructor; [split; assumption|exact IH2].
Qed.

Lemma psum_node_insert row k k0 v : forall fuel prefix rest n,
  (length rest <= fuel)%nat -> n_path n = prefix -> wf_node n ->
  psum row k (node_insert fuel prefix rest k0 v n) == psum row k n + delta_at row k (prefix ++ rest) k0 v
  /\ wf_node (node_insert fuel prefix rest k0 v n)
  /\ n_path (node_insert fuel prefix rest k0 v n) = prefix
  /\ n_seg (node_insert fuel prefix rest k0 v n) = n_seg n.
Proof.
  induction fuel as [|fu IH]; intros prefix rest [s p hv a ch] Hlen Hp Hwf; cbn [n_path] in Hp; subst p.
  - destruct rest; [|cbn in Hlen; lia]. cbn [node_insert]. rewrite app_nil_r.
    split; [|split; [exact Hwf|split; reflexivity]].
    rewrite !psum_unfold. unfold delta_at. destruct (acc_eqb prefix row); [rewrite esum_ra_add|]; ring.
  - destruct rest as [|h tail].
    + cbn [node_insert]. rewrite app_nil_r.
      split; [|split; [exact Hwf|split; reflexivity]].
      rewrite !psum_unfold. unfold delta_at. destruct (acc_eqb prefix row); [rewrite esum_ra_add|]; ring.
    + cbn [node_insert].
      apply wf_node_children in Hwf.
      destruct (pcsum_children_insert row k (node_insert fu (prefix ++ [h]) tail k0 v) h prefix
                  (delta_at row k (prefix ++ h :: tail) k0 v) ch Hwf) as [H1 H2].
      * intros c Hc Hwc.
        destruct (IH (prefix ++ [h]) tail c ltac:(cbn in Hlen; lia) Hc Hwc) as (A & B & C & D).
        rewrite <- app_assoc in A. cbn [app] in A. repeat split; assumption.
      * split; [|split; [apply wf_node_children; exact H2|split; reflexivity]].
        rewrite !psum_unfold, H1. ring.
Qed.

Definition rcell (row : account) (k : rkey) (r : report) : Q := psum row k (r_al r) + psum row k (r_eie r).
Definition wf_report (r : report) : Prop :=
  wf_node (r_al r) /\ wf_node (r_eie r) /\ n_path (r_al r) = [] /\ n_path (r_eie r) = [].

Lemma rcell_insert row k r date a c v :
  wf_report r ->
  rcell row k (report_insert r date a c v) == rcell row k r + delta_at row k a (date, Some c) v
  /\ wf_report (report_insert r date a c v).
Proof.
  intros (W1 & W2 & P1 & P2). unfold report_insert, rcell, wf_report.
  destruct (is_AL a); cbn [r_al r_eie].
  - destruct (psum_node_insert row k (date, Some c) v (S (length a)) [] a (r_al r) ltac:(lia) P1 W1) as (A & B & C & D).
    cbn [app] in A. split; [rewrite A; ring|repeat split; assumption].
  - destruct (psum_node_insert row k (date, Some c) v (S (length a)) [] a (r_eie r) ltac:(lia) P2 W2) as (A & B & C & D).
    cbn [app] in A. split; [rewrite A; ring|repeat split; assumption].
Qed.

Lemma wf_new_report : wf_report new_report.
Proof. unfold wf_report, new_report, empty_root. cbn. tauto. Qed.

Lemma rcell_new row k : rcell row k new_report == 0.
Proof. unfold rcell, new_report, empty_root. cbn. destruct (acc_eqb [] row); ring. Qed.

(* ------------------------------------------------------------ Part 2: the query stage as a fold over postings *)

(* the dated postings of a list of days, in processing order *)
Definition day_postings (d : day) : list (Z * posting) :=
  concat (map (fun t => map (fun p => (t_date t, p)) (t_postings t)) (d_txns d)).
Definition days_postings (ds : list day) : list (Z * posting) := concat (map day_postings ds).

(* what the query inserts for one dated posting *)
Definition q_contrib (q : query) (row : account) (k : rkey) (dp : Z * posting) : Q :=
  let '(d, p) := dp in
  if q_where q (p_acc p) (p_com p) then
    match q_account q (p_acc p) with
    | ShAcc a => delta_at row k a (q_date q d, Some (p_com p)) (if q_valued q then p_val p else p_qty p)
    | _ => 0
    end
  else 0.

Definition q_total (q : query) (row : account) (k : rkey) (l : list (Z * posting)) : Q :=
  fold_right (fun dp acc => q_contrib q row k dp + acc) 0 l.

Lemma q_total_app q row k l1 l2 : q_total q row k (l1 ++ l2) == q_total q row k l1 + q_total q row k l2.
Proof. unfold q_total. induction l1 as [|x l1 IH]; cbn [app fold_right]; [ring|]. rewrite IH. ring. Qed.

Lemma txn_rebuild t : mkTxn (t_date t) (t_desc t) (t_postings t) (t_targets t) = t.
Proof. destruct t; reflexivity. Qed.

Lemma day_rebuild d : mkDay (d_date d) (d_prices d) (d_opens d) (d_txns d) (d_asserts d) (d_closes d) (d_normalized d) = d.
Proof. destruct d; reflexivity. Qed.

Section QueryFold.
  Variable q : query.
  Variable row : account.
  Variable k : rkey.

  Lemma query_postings t : forall ps r r' ps',
    wf_report r ->
    fold_postings (query_posting q report_insert) t r ps = ROk (r', ps') ->
    ps' = ps /\ wf_report r' /\
    rcell row k r' == rcell row k r + q_total q row k (map (fun p => (t_date t, p)) ps).
  Proof.
    induction ps as [|p ps IH]; intros r r' ps' Hwf H; cbn [fold_postings] in H.
    - inversion H; subst. split; [reflexivity|split; [assumption|]]. cbn. ring.
    - destruct (query_posting q report_insert r t p) as [[r1 p1]| |] eqn:E1; try discriminate.
      cbn [rbind fst snd] in H.
      destruct (fold_postings (query_posting q report_insert) t r1 ps) as [[r2 ps2]| |] eqn:E2; try discriminate.
      cbn [rbind fst snd] in H. inversion H; subst r' ps'. clear H.
      assert (Hstep : p1 = p /\ wf_report r1 /\ rcell row k r1 == rcell row k r + q_contrib q row k (t_date t, p)).
      { unfold query_posting in E1. unfold q_contrib.
        destruct (q_where q (p_acc p) (p_com p)).
        - destruct (q_account q (p_acc p)) as [a| |]; try discriminate.
          + injection E1 as Hr Hp. subst r1 p1.
            destruct (rcell_insert row k r (q_date q (t_date t)) a (p_com p) (if q_valued q then p_val p else p_qty p) Hwf) as [A B].
            split; [reflexivity|split; assumption].
          + injection E1 as Hr Hp. subst r1 p1. split; [reflexivity|split; [assumption|ring]].
        - injection E1 as Hr Hp. subst r1 p1. split; [reflexivity|split; [assumption|ring]]. }
      destruct Hstep as (-> & Hwf1 & Hc1).
      destruct (IH _ _ _ Hwf1 E2) as (-> & Hwf2 & Hc2).
      split; [reflexivity|split; [assumption|]].
      unfold q_total in *. cbn [map fold_right]. rewrite Hc2, Hc1. ring.
  Qed.

  Lemma query_txns : forall ts r r' ts',
    wf_report r ->
    fold_txns (query_proc q report_insert) r ts = ROk (r', ts') ->
    ts' = ts /\ wf_report r' /\
    rcell row k r' == rcell row k r +
      q_total q row k (concat (map (fun t => map (fun p => (t_date t, p)) (t_postings t)) ts)).
  Proof.
    induction ts as [|t ts IH]; intros r r' ts' Hwf H; cbn [fold_txns] in H.
    - inversion H; subst. split; [reflexivity|split; [assumption|]]. cbn. ring.
    - cbn [query_proc pr_txn pr_posting rbind] in H.
      destruct (fold_postings (query_posting q report_insert) t r (t_postings t)) as [[r1 ps1]| |] eqn:E1; try discriminate.
      cbn [rbind fst snd] in H.
      destruct (query_postings t _ _ _ _ Hwf E1) as (-> & Hwf1 & Hc1).
      destruct (fold_txns (query_proc q report_insert) r1 ts) as [[r2 ts2]| |] eqn:E2; try discriminate.
      cbn [rbind fst snd] in H. inversion H; subst r' ts'. clear H.
      destruct (IH _ _ _ Hwf1 E2) as (-> & Hwf2 & Hc2).
      split; [rewrite txn_rebuild; reflexivity|split; [assumption|]].
      cbn [map concat]. rewrite q_total_app, Hc2, Hc1. ring.
  Qed.

  Lemma query_day r d r' d' :
    wf_report r ->
    process_day (query_proc q report_insert) r d = ROk (r', d') ->
    d' = d /\ wf_report r' /\ rcell row k r' == rcell row k r + q_total q row k (day_postings d).
  Proof.
    intros Hwf H. unfold process_day in H.
    cbn [query_proc pr_day_start pr_price pr_open pr_balance pr_close pr_day_end rbind fst snd] in H.
    destruct (fold_txns (query_proc q report_insert) r (d_txns d)) as [[r1 ts1]| |] eqn:E1; try discriminate.
    cbn [rbind fst snd] in H.
    destruct (query_txns _ _ _ _ Hwf E1) as (-> & Hwf1 & Hc1).
    cbn [d_asserts d_closes] in H.
    assert (Ha : forall l s, fold_asserts (query_proc q report_insert) s l = ROk s).
    { induction l as [|a l IHl]; intros s; cbn [fold_asserts query_proc pr_balance rbind]; [reflexivity|apply IHl]. }
    rewrite Ha in H. cbn [rbind] in H. inversion H; subst r' d'.
    split; [apply day_rebuild|split; [assumption|exact Hc1]].
  Qed.

  Lemma query_days : forall ds r r' ds',
    wf_report r ->
    process_days (query_proc q report_insert) r ds = ROk (r', ds') ->
    ds' = ds /\ wf_report r' /\ rcell row k r' == rcell row k r + q_total q row k (days_postings ds).
  Proof.
    induction ds as [|d ds IH]; intros r r' ds' Hwf H; cbn [process_days] in H.
    - inversion H; subst. split; [reflexivity|split; [assumption|]]. cbn. ring.
    - destruct (process_day (query_proc q report_insert) r d) as [[r1 d1]| |] eqn:E1; try discriminate.
      cbn [rbind fst snd] in H.
      destruct (query_day _ _ _ _ Hwf E1) as (-> & Hwf1 & Hc1).
      destruct (process_days (query_proc q report_insert) r1 ds) as [[r2 ds2]| |] eqn:E2; try discriminate.
      cbn [rbind fst snd] in H. inversion H; subst r' ds'. clear H.
      destruct (IH _ _ _ Hwf1 E2) as (-> & Hwf2 & Hc2).
      split; [reflexivity|split; [assumption|]].
      unfold days_postings. cbn [map concat]. rewrite q_total_app.
      unfold days_postings in Hc2. rewrite Hc2, Hc1. ring.
  Qed.
End QueryFold.

(* ------------------------------------------------------------ Part 3: stages that leave the days alone *)

Section IdStage.
  Context {S : Type} (p : processor S).
  Hypothesis no_start : pr_day_start p = None.
  Hypothesis no_end : pr_day_end p = None.
  Hypothesis posting_id : forall f s t x s' x', pr_posting p = Some f -> f s t x = ROk (s', x') -> x' = x.

  Lemma fold_postings_id f t : pr_posting p = Some f -> forall ps s s' ps',
    fold_postings f t s ps = ROk (s', ps') -> ps' = ps.
  Proof.
    intros Hf. induction ps as [|x ps IH]; intros s s' ps' H; cbn [fold_postings] in H.
    - inversion H; reflexivity.
    - destruct (f s t x) as [[s1 x1]| |] eqn:E1; try discriminate. cbn [rbind fst snd] in H.
      destruct (fold_postings f t s1 ps) as [[s2 ps2]| |] eqn:E2; try discriminate. cbn [rbind fst snd] in H.
      inversion H; subst. rewrite (posting_id f s t x s1 x1 Hf E1), (IH _ _ _ E2). reflexivity.
  Qed.

  Lemma fold_txns_id : forall ts s s' ts', fold_txns p s ts = ROk (s', ts') -> ts' = ts.
  Proof.
    induction ts as [|t ts IH]; intros s s' ts' H; cbn [fold_txns] in H.
    - inversion H; reflexivity.
    - destruct (match pr_txn p with Some f => f s t | None => ROk s end) as [s1| |]; try discriminate.
      cbn [rbind] in H.
      case_opt (pr_posting p) f Ef; rewrite Ef in H.
      + destruct (fold_postings f t s1 (t_postings t)) as [[s2 ps2]| |] eqn:E2; try discriminate.
        cbn [rbind fst snd] in H.
        destruct (fold_txns p s2 ts) as [[s3 ts3]| |] eqn:E3; try discriminate. cbn [rbind fst snd] in H.
        inversion H; subst. rewrite (fold_postings_id f t Ef _ _ _ _ E2), txn_rebuild, (IH _ _ _ E3). reflexivity.
      + cbn [rbind fst snd] in H.
        destruct (fold_txns p s1 ts) as [[s3 ts3]| |] eqn:E3; try discriminate. cbn [rbind fst snd] in H.
        inversion H; subst. rewrite (IH _ _ _ E3). reflexivity.
  Qed.

  Lemma process_day_id s d s' d' : process_day p s d = ROk (s', d') -> d' = d.
  Proof.
    intros H. unfold process_day in H. rewrite no_start, no_end in H. cbn [rbind fst snd] in H.
    destruct (match pr_price p with Some f => fold_res f s (d_prices d) | None => ROk s end) as [s2| |]; try discriminate.
    cbn [rbind] in H.
    destruct (match pr_open p with Some f => fold_res f s2 (d_opens d) | None => ROk s2 end) as [s3| |]; try discriminate.
    cbn [rbind] in H.
    destruct (fold_txns p s3 (d_txns d)) as [[s4 ts']| |] eqn:E4; try discriminate. cbn [rbind fst snd] in H.
    rewrite (fold_txns_id _ _ _ _ E4) in H. cbn [d_asserts d_closes] in H.
    destruct (fold_asserts p s4 (d_asserts d)) as [s5| |]; try discriminate. cbn [rbind] in H.
    destruct (match pr_close p with Some f => fold_res f s5 (d_closes d) | None => ROk s5 end) as [s6| |]; try discriminate.
    cbn [rbind] in H. inversion H. apply day_rebuild.
  Qed.

  Lemma process_days_id : forall ds s s' ds', process_days p s ds = ROk (s', ds') -> ds' = ds.
  Proof.
    induction ds as [|d ds IH]; intros s s' ds' H; cbn [process_days] in H.
    - inversion H; reflexivity.
    - destruct (process_day p s d) as [[s1 d1]| |] eqn:E1; try discriminate. cbn [rbind fst snd] in H.
      destruct (process_days p s1 ds) as [[s2 ds2]| |] eqn:E2; try discriminate. cbn [rbind fst snd] in H.
      inversion H; subst. rewrite (process_day_id _ _ _ _ E1), (IH _ _ _ E2). reflexivity.
  Qed.
End IdStage.

Lemma check_stage_id lenient s ds s' ds' :
  process_days (check_proc lenient) s ds = ROk (s', ds') -> ds' = ds.
Proof.
  apply process_days_id; try reflexivity.
  intros f s0 t x s1 x1 Hf H. cbn [check_proc pr_posting] in Hf. injection Hf as <-.
  unfold ck_posting_cb in H. destruct (negb (is_open s0 (p_acc x))); try discriminate.
  destruct (is_AL (p_acc x)); inversion H; reflexivity.
Qed.

Lemma check_current_stage_id b s ds s' ds' :
  process_days (check_proc_current b) s ds = ROk (s', ds') -> ds' = ds.
Proof.
  unfold check_proc_current. destruct b; [|apply check_stage_id].
  apply process_days_id; try reflexivity.
  intros f s0 t x s1 x1 Hf H. cbn [check_proc_fixed pr_posting] in Hf. injection Hf as <-.
  unfold ck_posting_cb in H. destruct (negb (is_open s0 (p_acc x))); try discriminate.
  destruct (is_AL (p_acc x)); inversion H; reflexivity.
Qed.

(* the filter stage keeps the days inside the span and empties the others *)
Lemma filter_stage_spec sp : forall ds s s' ds',
  process_days (filter_proc sp) s ds = ROk (s', ds') ->
  ds' = map (fun d => if period_contains sp (d_date d) then d else set_txns d []) ds.
Proof.
  induction ds as [|d ds IH]; intros s s' ds' H; cbn [process_days] in H.
  - inversion H; reflexivity.
  - destruct (process_day (filter_proc sp) s d) as [[s1 d1]| |] eqn:E1; try discriminate. cbn [rbind fst snd] in H.
    destruct (process_days (filter_proc sp) s1 ds) as [[s2 ds2]| |] eqn:E2; try discriminate. cbn [rbind fst snd] in H.
    inversion H; subst. cbn [map]. rewrite (IH _ _ _ E2). f_equal.
    unfold process_day in E1. cbn [filter_proc pr_day_start pr_price pr_open pr_close pr_day_end rbind fst snd] in E1.
    assert (Ht : forall ts s0, fold_txns (filter_proc sp) s0 ts = ROk (s0, ts)).
    { induction ts as [|t ts IHt]; intros s0; cbn [fold_txns filter_proc pr_txn pr_posting rbind fst snd]; [reflexivity|].
      rewrite IHt. cbn [rbind fst snd]. reflexivity. }
    rewrite Ht in E1. cbn [rbind fst snd d_asserts d_closes] in E1.
    assert (Ha : forall l s0, fold_asserts (filter_proc sp) s0 l = ROk s0).
    { induction l as [|a l IHl]; intros s0; cbn [fold_asserts filter_proc pr_balance rbind]; [reflexivity|apply IHl]. }
    rewrite Ha in E1. cbn [rbind d_date] in E1. rewrite day_rebuild in E1. inversion E1. reflexivity.
Qed.

(* ------------------------------------------------------------ Part 4: builder, sums over lists *)

Definition qsum {A} (f : A -> Q) (l : list A) : Q := fold_right (fun x acc => f x + acc) 0 l.

Lemma qsum_app {A} (f : A -> Q) l1 l2 : qsum f (l1 ++ l2) == qsum f l1 + qsum f l2.
Proof. unfold qsum. induction l1 as [|x l1 IH]; cbn [app fold_right]; [ring|]. rewrite IH. ring. Qed.

Lemma qsum_ext {A} (f g : A -> Q) l : (forall x, In x l -> f x == g x) -> qsum f l == qsum g l.
Proof.
  unfold qsum. induction l as [|x l IH]; intros H; cbn [fold_right]; [reflexivity|].
  rewrite (H x (or_introl eq_refl)), IH; [reflexivity|]. intros y Hy. apply H. right. exact Hy.
Qed.

Lemma qsum_perm {A} (f : A -> Q) l1 l2 : Permutation l1 l2 -> qsum f l1 == qsum f l2.
Proof.
  unfold qsum. induction 1; cbn [fold_right]; try reflexivity.
  - rewrite IHPermutation. reflexivity.
  - ring.
  - rewrite IHPermutation1. exact IHPermutation2.
Qed.

Lemma qsum_concat_map {A B} (f : B -> Q) (g : A -> list B) l :
  qsum f (concat (map g l)) == qsum (fun x => qsum f (g x)) l.
Proof.
  induction l as [|x l IH]; cbn [map concat]; [reflexivity|].
  rewrite qsum_app, IH. unfold qsum at 3. cbn [fold_right]. reflexivity.
Qed.

Lemma qsum_zero {A} (f : A -> Q) l : (forall x, In x l -> f x == 0) -> qsum f l == 0.
Proof.
  intros H. rewrite (qsum_ext f (fun _ => 0) l H). clear H. unfold qsum.
  induction l as [|x l IH]; cbn [fold_right]; [reflexivity|]. rewrite IH. ring.
Qed.

Lemma dvalue_dsum l : dvalue (dsum l) == qsum dvalue l.
Proof.
  unfold dsum.
  assert (H : forall acc, dvalue (fold_left add l acc) == dvalue acc + qsum dvalue l).
  { induction l as [|x l IH]; intros acc; cbn [fold_left]; [unfold qsum; cbn; ring|].
    rewrite IH, dvalue_add. unfold qsum. cbn [fold_right]. ring. }
  rewrite H, dvalue_nil. ring.
Qed.

Lemma q_total_qsum q row k l : q_total q row k l = qsum (q_contrib q row k) l.
Proof. reflexivity. Qed.

(* -- the builder keeps every posting exactly once, each in the day of its date -- *)

Definition days_dated (ds : list day) : Prop :=
  Forall (fun d => Forall (fun t => t_date t = d_date d) (d_txns d)) ds.

Lemma upd_day_perm days dt f extra :
  (forall x, d_date x = dt -> Permutation (day_postings (f x)) (day_postings x ++ extra)) ->
  Permutation (days_postings (upd_day days dt f)) (days_postings days ++ extra).
Proof.
  intros Hf. assert (He : Permutation (day_postings (f (empty_day dt))) extra) by (apply (Hf (empty_day dt)); reflexivity).
  induction days as [|x days IH]; cbn [upd_day].
  - unfold days_postings. cbn [map concat]. rewrite app_nil_r. exact He.
  - destruct (dt =? d_date x)%Z eqn:E.
    + apply Z.eqb_eq in E. unfold days_postings. cbn [map concat].
      rewrite (Hf x (eq_sym E)). rewrite <- !app_assoc. apply Permutation_app_head. apply Permutation_app_comm.
    + destruct (dt <? d_date x)%Z.
      * unfold days_postings. cbn [map concat]. rewrite He.
        change (concat (map day_postings days)) with (days_postings days).
        rewrite Permutation_app_comm. rewrite <- app_assoc. reflexivity.
      * unfold days_postings in *. cbn [map concat]. rewrite IH. rewrite app_assoc. reflexivity.
Qed.

Lemma upd_day_dated days dt f :
  days_dated days ->
  (forall x, d_date x = dt -> Forall (fun t => t_date t = dt) (d_txns x) ->
             d_date (f x) = dt /\ Forall (fun t => t_date t = dt) (d_txns (f x))) ->
  days_dated (upd_day days dt f).
Proof.
  intros Hd Hf. unfold days_dated in *.
  assert (He : Forall (fun t => t_date t = d_date (f (empty_day dt))) (d_txns (f (empty_day dt)))).
  { destruct (Hf (empty_day dt) eq_refl ltac:(constructor)) as [A B]. rewrite A. exact B. }
  induction Hd as [|x days Hx Hrest IH]; cbn [upd_day].
  - constructor; [exact He|constructor].
  - destruct (dt =? d_date x)%Z eqn:E.
    + apply Z.eqb_eq in E. constructor; [|exact Hrest].
      destruct (Hf x (eq_sym E) ltac:(rewrite E; exact Hx)) as [A B]. rewrite A. exact B.
    + destruct (dt <? d_date x)%Z.
      * constructor; [exact He|constructor; assumption].
      * constructor; assumption.
Qed.

Definition directive_postings (d : directive) : list (Z * posting) :=
  match d with DTxn t => map (fun p => (t_date t, p)) (t_postings t) | _ => [] end.

Lemma flat_postings_cons d ds : flat_postings (d :: ds) = directive_postings d ++ flat_postings ds.
Proof. destruct d; reflexivity. Qed.

Lemma builder_add_perm b d :
  Permutation (days_postings (b_days (builder_add b d))) (days_postings (b_days b) ++ directive_postings d).
Proof.
  destruct d; cbn [builder_add b_days directive_postings]; apply upd_day_perm; intros x _;
    unfold day_postings; cbn [d_txns]; try (rewrite app_nil_r; reflexivity).
  unfold add_txn_day. cbn [d_txns]. rewrite map_app, concat_app. cbn [map concat]. rewrite app_nil_r. reflexivity.
Qed.

Lemma builder_add_dated b d : days_dated (b_days b) -> days_dated (b_days (builder_add b d)).
Proof.
  intros H. destruct d; cbn [builder_add b_days]; apply upd_day_dated; try exact H;
    intros x Hx Hall; cbn [d_date d_txns]; try (split; assumption).
  unfold add_txn_day. cbn [d_date d_txns]. split; [assumption|]. apply Forall_app. split; [exact Hall|repeat constructor].
Qed.

Lemma builder_of_perm dl : Permutation (days_postings (b_days (builder_of dl))) (flat_postings dl).
Proof.
  unfold builder_of.
  assert (H : forall b, Permutation (days_postings (b_days (fold_left builder_add dl b))) (days_postings (b_days b) ++ flat_postings dl)).
  { induction dl as [|d dl IH]; intros b; cbn [fold_left].
    - unfold flat_postings. cbn. rewrite app_nil_r. reflexivity.
    - rewrite IH, builder_add_perm, flat_postings_cons, app_assoc. reflexivity. }
  rewrite H. reflexivity.
Qed.

Lemma builder_of_dated dl : days_dated (b_days (builder_of dl)).
Proof.
  unfold builder_of. assert (H0 : days_dated (b_days new_builder)) by constructor.
  revert H0. generalize new_builder. induction dl as [|d dl IH]; intros b Hb; cbn [fold_left]; [exact Hb|].
  apply IH. apply builder_add_dated. exact Hb.
Qed.

Lemma builder_touch_perm b dates : Permutation (days_postings (b_days (builder_touch b dates))) (days_postings (b_days b)).
Proof.
  unfold builder_touch. cbn [b_days]. generalize (b_days b). induction dates as [|d ds IH]; intros days; cbn [fold_left]; [reflexivity|].
  rewrite IH. rewrite (upd_day_perm days d (fun x => x) []); [rewrite app_nil_r; reflexivity|].
  intros x _. rewrite app_nil_r. reflexivity.
Qed.

Lemma builder_touch_dated b dates : days_dated (b_days b) -> days_dated (b_days (builder_touch b dates)).
Proof.
  unfold builder_touch. cbn [b_days]. generalize (b_days b). induction dates as [|d ds IH]; intros days H; cbn [fold_left]; [exact H|].
  apply IH. apply upd_day_dated; [exact H|]. intros x Hx Hall. split; assumption.
Qed.

Lemma builder_period_spec dl : builder_period (builder_of dl) = journal_period dl.
Proof.
  unfold builder_of, journal_period, builder_period.
  assert (H : forall b, mkPeriod (b_min (fold_left builder_add dl b)) (b_max (fold_left builder_add dl b)) =
     fold_left (fun p d => match d with
       | DTxn t => mkPeriod (Z.min (p_start p) (t_date t)) (Z.max (p_end p) (t_date t))
       | DPrice dt _ _ _ => mkPeriod (p_start p) (Z.max (p_end p) dt)
       | _ => p end) dl (mkPeriod (b_min b) (b_max b))).
  { induction dl as [|d dl IH]; intros b; cbn [fold_left]; [reflexivity|].
    rewrite IH. f_equal. destruct d; cbn [builder_add b_min b_max p_start p_end]; try reflexivity.
    - f_equal. destruct (b_max b <? date)%Z eqn:E; lia.
    - f_equal; [destruct (t_date t <? b_min b)%Z eqn:E; lia|destruct (b_max b <? t_date t)%Z eqn:E; lia]. }
  rewrite H. reflexivity.
Qed.

(* ------------------------------------------------------------ Part 5: the closed form without --close *)

Lemma align_list_column_for ps d : align_list ps d = column_for ps d.
Proof.
  induction ps as [|p ps IH]; cbn [align_list column_for]; [reflexivity|].
  destruct (p_end p <? d)%Z eqn:E1, (d <=? p_end p)%Z eqn:E2; cbn [negb]; try lia; [exact IH|reflexivity].
Qed.

Lemma acc_eqb_sym a b : acc_eqb a b = acc_eqb b a.
Proof.
  unfold acc_eqb. destruct (str_eqb (acc_name a) (acc_name b)) eqn:E1, (str_eqb (acc_name b) (acc_name a)) eqn:E2; try reflexivity.
  - apply str_eqb_eq in E1. rewrite E1, str_eqb_refl in E2. discriminate.
  - apply str_eqb_eq in E2. rewrite E2, str_eqb_refl in E1. discriminate.
Qed.

Definition in_span (sp : period) (d : Z) : bool := (p_start sp <=? d)%Z && (d <=? p_end sp)%Z.

Lemma period_contains_in_span sp d : period_contains sp d = in_span sp d.
Proof.
  unfold period_contains, in_span.
  destruct (d <? p_start sp)%Z eqn:E1, (p_end sp <? d)%Z eqn:E2, (p_start sp <=? d)%Z eqn:E3, (d <=? p_end sp)%Z eqn:E4; cbn; try reflexivity; lia.
Qed.

(* the contribution of one dated posting to cell (row, c, col), in the words of the spec *)
Definition s_contrib (cfg : balance_cfg) (sp : period) (ps : list period) (row : account) (c : commodity) (col : Z)
           (dp : Z * posting) : Q :=
  let '(d, p) := dp in
  if in_span sp d then
    match column_for ps d with
    | Some e =>
      if cfg_where cfg (p_acc p) (p_com p) then
        match shorten (bc_mapping cfg) (remap (bc_remap cfg) (p_acc p)) with
        | ShAcc a' => if (e =? col)%Z && acc_eqb row a' && str_eqb (p_com p) c then dvalue (p_qty p) else 0
        | _ => 0
        end
      else 0
    | None => 0
    end
  else 0.

Lemma period_amount_user cfg sp ps posts row c col :
  dvalue (period_amount (mapped_entries cfg (user_entries sp ps posts)) (acc_eqb row) c col)
  == qsum (s_contrib cfg sp ps row c col) posts.
Proof.
  unfold period_amount. rewrite dvalue_dsum, qsum_concat_map.
  unfold mapped_entries. rewrite qsum_concat_map.
  unfold user_entries. rewrite qsum_concat_map.
  apply qsum_ext. intros [d p] _. unfold s_contrib, in_span.
  destruct ((p_start sp <=? d)%Z && (d <=? p_end sp)%Z); [|reflexivity].
  destruct (column_for ps d) as [e|]; [|reflexivity].
  unfold qsum at 1. cbn [fold_right].
  destruct (cfg_where cfg (p_acc p) (p_com p)); [|cbn; ring].
  destruct (shorten (bc_mapping cfg) (remap (bc_remap cfg) (p_acc p))) as [a'| |]; try (cbn; ring).
  unfold qsum. cbn [fold_right].
  destruct ((e =? col)%Z && acc_eqb row a' && str_eqb (p_com p) c); cbn [fold_right]; ring.
Qed.

Lemma q_contrib_balance cfg part row c col d p :
  bc_valuation cfg = None ->
  q_contrib (balance_query cfg part) row (Some col, Some c) (d, p)
  == (if cfg_where cfg (p_acc p) (p_com p) then
        match shorten (bc_mapping cfg) (remap (bc_remap cfg) (p_acc p)) with
        | ShAcc a' => match column_for (periods part) d with
                      | Some e => if (e =? col)%Z && acc_eqb row a' && str_eqb (p_com p) c then dvalue (p_qty p) else 0
                      | None => 0
                      end
        | _ => 0
        end
      else 0).
Proof.
  intros Hv. unfold q_contrib, balance_query. cbn [q_where q_account q_date q_valued]. rewrite Hv.
  change ((match bc_accounts cfg with [] => true | _ :: _ => rxs_match (bc_accounts cfg) (acc_name (p_acc p)) end
           && match bc_commodities cfg with [] => true | _ :: _ => rxs_match (bc_commodities cfg) (p_com p) end))
    with (cfg_where cfg (p_acc p) (p_com p)).
  assert (Hw : (match bc_accounts cfg with [] => true | rs => rxs_match rs (acc_name (p_acc p)) end
                && match bc_commodities cfg with [] => true | rs => rxs_match rs (p_com p) end) = cfg_where cfg (p_acc p) (p_com p)) by reflexivity.
  rewrite Hw. destruct (cfg_where cfg (p_acc p) (p_com p)); [|reflexivity].
  destruct (shorten (bc_mapping cfg) (remap (bc_remap cfg) (p_acc p))) as [a'| |]; try reflexivity.
  unfold delta_at, contrib, idk, Date.align. rewrite align_list_column_for.
  rewrite (acc_eqb_sym a' row).
  destruct (column_for (periods part) d) as [e|].
  - unfold rkey_eqb. cbn [fst snd oz_eqb ocom_eqb].
    destruct (acc_eqb row a'); [|rewrite andb_false_r; reflexivity].
    destruct (e =? col)%Z; cbn [andb]; [|reflexivity].
    destruct (str_eqb (p_com p) c); reflexivity.
  - unfold rkey_eqb. cbn [fst snd oz_eqb andb]. destruct (acc_eqb row a'); reflexivity.
Qed.

(* filtering the days by the span = filtering the dated postings *)
Lemma filtered_days_total q row k sp days :
  days_dated days ->
  q_total q row k (days_postings (map (fun d => if period_contains sp (d_date d) then d else set_txns d []) days))
  == qsum (fun dp => if in_span sp (fst dp) then q_contrib q row k dp else 0) (days_postings days).
Proof.
  intros Hd. rewrite q_total_qsum. unfold days_postings.
  induction Hd as [|d days Hx _ IH]; cbn [map concat]; [reflexivity|].
  rewrite !qsum_app, IH. apply Qplus_comp; [|reflexivity].
  rewrite period_contains_in_span.
  destruct (in_span sp (d_date d)) eqn:E.
  - apply qsum_ext. intros [dt p] Hin. cbn [fst].
    assert (dt = d_date d).
    { unfold day_postings in Hin. apply in_concat in Hin. destruct Hin as (l & Hl & Hin).
      apply in_map_iff in Hl. destruct Hl as (t & <- & Ht). apply in_map_iff in Hin. destruct Hin as (p0 & Hp0 & _).
      inversion Hp0; subst. rewrite Forall_forall in Hx. apply Hx. exact Ht. }
    subst dt. rewrite E. reflexivity.
  - unfold day_postings at 1. cbn [set_txns d_txns map concat]. unfold qsum at 1. cbn [fold_right].
    symmetry. apply qsum_zero. intros [dt p] Hin. cbn [fst].
    assert (dt = d_date d).
    { unfold day_postings in Hin. apply in_concat in Hin. destruct Hin as (l & Hl & Hin).
      apply in_map_iff in Hl. destruct Hl as (t & <- & Ht). apply in_map_iff in Hin. destruct Hin as (p0 & Hp0 & _).
      inversion Hp0; subst. rewrite Forall_forall in Hx. apply Hx. exact Ht. }
    subst dt. rewrite E. reflexivity.
Qed.

Theorem report_cells_noclose cfg ds r part :
  bc_valuation cfg = None -> bc_close cfg = false ->
  balance_report cfg ds = COk (r, part) ->
  exists dl,
    parse_directives ds = MOk dl /\
    new_partition (clip (mkPeriod (bc_from cfg) (bc_to cfg)) (journal_period dl)) (bc_interval cfg) (bc_last cfg) = POk part /\
    forall row c col,
      rcell row (Some col, Some c) r ==
      dvalue (period_amount (mapped_entries cfg (user_entries (span part) (periods part) (flat_postings dl))) (acc_eqb row) c col).
Proof.
  intros Hv Hc H. unfold balance_report in H. rewrite Hv, Hc in H. cbn [cbind] in H.
  unfold load in H. destruct (parse_directives ds) as [dl| |] eqn:Ep; try discriminate. cbn [cbind of_mresult] in H.
  exists dl. split; [reflexivity|].
  unfold cfg_partition in H. rewrite builder_period_spec in H.
  destruct (new_partition (clip (mkPeriod (bc_from cfg) (bc_to cfg)) (journal_period dl)) (bc_interval cfg) (bc_last cfg)) as [part0| |] eqn:Epart; try discriminate.
  cbn [cbind] in H. unfold run_stage in H.
  destruct (process_days (check_proc_current (bc_lenient cfg)) check_init (b_days (builder_of dl))) as [[s1 d1]| |] eqn:E1; try discriminate.
  cbn [cbind of_presult fst snd] in H.
  pose proof (check_current_stage_id _ _ _ _ _ E1) as ->.
  destruct (process_days (filter_proc (span part0)) tt (b_days (builder_of dl))) as [[s4 d4]| |] eqn:E4; try discriminate.
  cbn [cbind of_presult fst snd] in H.
  pose proof (filter_stage_spec _ _ _ _ _ E4) as ->.
  destruct (process_days (query_proc (balance_query cfg part0) report_insert) new_report _) as [[r6 d6]| |] eqn:E6; try discriminate.
  cbn [cbind of_presult fst snd] in H. inversion H; subst r6 part0. clear H.
  split; [reflexivity|]. intros row c col.
  destruct (query_days (balance_query cfg part) row (Some col, Some c) _ _ _ _ wf_new_report E6) as (_ & _ & Hcell).
  rewrite Hcell, rcell_new, Qplus_0_l.
  rewrite (filtered_days_total _ _ _ _ _ (builder_of_dated dl)).
  rewrite (qsum_perm _ _ _ (builder_of_perm dl)).
  rewrite period_amount_user. apply qsum_ext. intros [d p] _. cbn [fst]. unfold s_contrib.
  destruct (in_span (span part) d); [|reflexivity].
  rewrite (q_contrib_balance cfg part row c col d p Hv).
  destruct (cfg_where cfg (p_acc p) (p_com p)).
  - destruct (column_for (periods part) d); destruct (shorten (bc_mapping cfg) (remap (bc_remap cfg) (p_acc p))); reflexivity.
  - destruct (column_for (periods part) d); reflexivity.
Qed.

(* ------------------------------------------------------------ presentation of one row *)

Fixpoint row_values (diff neg_ : bool) (vals : ramounts) (c : option commodity) (dates : list Z) (total : Q) : list Q :=
  match dates with
  | [] => []
  | d :: rest =>
    let v := dvalue (ra_get0 vals (Some d, c)) in
    let total' := total + v in
    (if neg_ then - (if diff then v else total') else (if diff then v else total')) :: row_values diff neg_ vals c rest total'
  end.

Definition cell_is (cl : cell) (q : Q) : Prop := match cl with CNum n => dvalue n == q | _ => False end.

Lemma row_numbers_values diff neg_ vals c dates : forall total qt,
  dvalue total == qt ->
  Forall2 cell_is (row_numbers diff neg_ vals c dates total) (row_values diff neg_ vals c dates qt).
Proof.
  induction dates as [|d rest IH]; intros total qt Ht; cbn [row_numbers row_values]; constructor.
  - cbn [cell_is]. destruct neg_, diff; rewrite ?dvalue_neg, ?dvalue_add, ?Ht; reflexivity.
  - apply IH. rewrite dvalue_add, Ht. reflexivity.
Qed.
