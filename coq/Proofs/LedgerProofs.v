(* C02: refinement of the stateful balance pipeline (unvalued) to the closed-form ledger
   computation of Spec/LedgerSpec.v.  Part 1: cell sums of the report trees. *)
From Coq Require Import ZArith QArith List Bool Lia Permutation.
From Knut Require Import Model.Str Model.Dec Model.Date Model.Account Model.Ledger Model.Price
     Model.Journal Model.Check Model.Pipeline Model.Table Model.Report Model.Cli
     Spec.LedgerSpec
     Proofs.DecProofs Proofs.DecValue Proofs.StrProofs Proofs.PairProofs Proofs.ReportSum Proofs.Conservation.
Import ListNotations.
Open Scope Q_scope.

(* ------------------------------------------------------------ sums per row *)

(* total value stored under key k in the nodes whose path is (name-)equal to row *)
Fixpoint psum (row : account) (k : rkey) (n : node) : Q :=
  match n with
  | Node _ p _ a ch =>
    (if acc_eqb p row then esum idk k a else 0) + fold_right (fun c acc => psum row k c + acc) 0 ch
  end.

Definition pcsum (row : account) (k : rkey) (ch : list node) : Q :=
  fold_right (fun c acc => psum row k c + acc) 0 ch.

Lemma psum_unfold row k s p hv a ch :
  psum row k (Node s p hv a ch) = (if acc_eqb p row then esum idk k a else 0) + pcsum row k ch.
Proof. reflexivity. Qed.

(* every child's stored path is its parent's path extended by the child's segment *)
Fixpoint wf_node (n : node) : Prop :=
  match n with
  | Node _ p _ _ ch =>
    (fix go (l : list node) : Prop :=
       match l with
       | [] => True
       | c :: l' => n_path c = p ++ [n_seg c] /\ wf_node c /\ go l'
       end) ch
  end.

Definition wf_children (p : account) (l : list node) : Prop :=
  Forall (fun c => n_path c = p ++ [n_seg c] /\ wf_node c) l.

Lemma wf_node_children s p hv a ch : wf_node (Node s p hv a ch) <-> wf_children p ch.
Proof.
  unfold wf_children. cbn [wf_node]. induction ch as [|c ch IH]; [split; [constructor|trivial]|].
  split.
  - intros (H1 & H2 & H3). constructor; [split; assumption|]. apply IH. exact H3.
  - intros H. inversion H as [|? ? [H1 H2] H3]; subst. repeat split; try assumption. apply IH. exact H3.
Qed.

Definition delta_at (row : account) (k : rkey) (a : account) (k0 : rkey) (v : dec) : Q :=
  if acc_eqb a row then contrib idk k k0 v else 0.

Lemma pcsum_children_insert row k rec h p (delta : Q) l :
  wf_children p l ->
  (forall c, n_path c = p ++ [h] -> wf_node c ->
             psum row k (rec c) == psum row k c + delta /\ wf_node (rec c) /\ n_path (rec c) = p ++ [h] /\ n_seg (rec c) = n_seg c) ->
  pcsum row k (children_insert rec h (p ++ [h]) l) == pcsum row k l + delta
  /\ wf_children p (children_insert rec h (p ++ [h]) l).
Proof.
  intros Hwf Hrec.
  assert (Hnew : n_path (Node h (p ++ [h]) false [] []) = p ++ [h] /\ wf_node (Node h (p ++ [h]) false [] [])) by (split; [reflexivity|exact I]).
  destruct Hnew as [Hn1 Hn2].
  destruct (Hrec _ Hn1 Hn2) as (Hs & Hw & Hp & Hsg).
  induction Hwf as [|c l [Hc1 Hc2] Hl IH]; cbn [children_insert].
  - split.
    + unfold pcsum. cbn [fold_right]. rewrite Hs. cbn [psum fold_right esum].
      destruct (acc_eqb (p ++ [h]) row); ring.
    + constructor; [|constructor]. split; [|exact Hw]. rewrite Hp, Hsg. reflexivity.
  - destruct (str_cmp h (n_seg c)) eqn:E.
    + apply str_cmp_eq in E. subst h.
      destruct (Hrec c Hc1 Hc2) as (Hs' & Hw' & Hp' & Hsg').
      split.
      * unfold pcsum. cbn [fold_right]. rewrite Hs'. ring.
      * constructor; [|exact Hl]. split; [|exact Hw']. rewrite Hp', Hsg'. reflexivity.
    + split.
      * unfold pcsum. cbn [fold_right]. rewrite Hs. cbn [psum fold_right esum].
        destruct (acc_eqb (p ++ [h]) row); ring.
      * constructor; [|constructor; [split; assumption|exact Hl]].
        split; [|exact Hw]. rewrite Hp, Hsg. reflexivity.
    + destruct IH as [IH1 IH2]. split.
      * unfold pcsum in *. cbn [fold_right]. rewrite IH1. ring.
      * constructor; [split; assumption|exact IH2].
Qed.

Lemma psum_node_insert row k k0 v : forall fuel prefix rest n,
  (length rest <= fuel)%nat -> n_path n = prefix -> wf_node n ->
  psum row k (node_insert fuel prefix rest k0 v n) == psum row k n + delta_at row k (prefix ++ rest) k0 v
  /\ wf_node (node_insert fuel prefix rest k0 v n)
  /\ n_path (node_insert fuel prefix rest k0 v n) = prefix
  /\ n_seg (node_insert fuel prefix rest k0 v n) = n_seg n.
Proof.
  induction fuel as [|fu IH]; intros prefix rest [s p hv a ch] Hlen Hp Hwf; cbn [n_path] in Hp; subst p.
  - destruct rest; [|cbn in Hlen; lia]. cbn [node_insert]. rewrite app_nil_r.
    split; [|split; [exact Hwf|split; reflexivity]].
    rewrite !psum_unfold. unfold delta_at. destruct (acc_eqb prefix row); [rewrite esum_ra_add|]; ring.
  - destruct rest as [|h tail].
    + cbn [node_insert]. rewrite app_nil_r.
      split; [|split; [exact Hwf|split; reflexivity]].
      rewrite !psum_unfold. unfold delta_at. destruct (acc_eqb prefix row); [rewrite esum_ra_add|]; ring.
    + cbn [node_insert].
      apply wf_node_children in Hwf.
      destruct (pcsum_children_insert row k (node_insert fu (prefix ++ [h]) tail k0 v) h prefix
                  (delta_at row k (prefix ++ h :: tail) k0 v) ch Hwf) as [H1 H2].
      * intros c Hc Hwc.
        destruct (IH (prefix ++ [h]) tail c ltac:(cbn in Hlen; lia) Hc Hwc) as (A & B & C & D).
        rewrite <- app_assoc in A. cbn [app] in A. repeat split; assumption.
      * split; [|split; [apply wf_node_children; exact H2|split; reflexivity]].
        rewrite !psum_unfold, H1. ring.
Qed.

Definition rcell (row : account) (k : rkey) (r : report) : Q := psum row k (r_al r) + psum row k (r_eie r).
Definition wf_report (r : report) : Prop :=
  wf_node (r_al r) /\ wf_node (r_eie r) /\ n_path (r_al r) = [] /\ n_path (r_eie r) = [].

Lemma rcell_insert row k r date a c v :
  wf_report r ->
  rcell row k (report_insert r date a c v) == rcell row k r + delta_at row k a (date, Some c) v
  /\ wf_report (report_insert r date a c v).
Proof.
  intros (W1 & W2 & P1 & P2). unfold report_insert, rcell, wf_report.
  destruct (is_AL a); cbn [r_al r_eie].
  - destruct (psum_node_insert row k (date, Some c) v (S (length a)) [] a (r_al r) ltac:(lia) P1 W1) as (A & B & C & D).
    cbn [app] in A. split; [rewrite A; ring|repeat split; assumption].
  - destruct (psum_node_insert row k (date, Some c) v (S (length a)) [] a (r_eie r) ltac:(lia) P2 W2) as (A & B & C & D).
    cbn [app] in A. split; [rewrite A; ring|repeat split; assumption].
Qed.

Lemma wf_new_report : wf_report new_report.
Proof. unfold wf_report, new_report, empty_root. cbn. tauto. Qed.

Lemma rcell_new row k : rcell row k new_report == 0.
Proof. unfold rcell, new_report, empty_root. cbn. destruct (acc_eqb [] row); ring. Qed.
