(* C16, open before use for the asset/liability account of a value adjustment: the coupling of
   Check's and Valuate's quantities.

   Valuate books an adjustment only for a position (a, c) whose quantity is not zero at the start
   of the day; Check refuses to close an account that has a position with a non-zero quantity and
   refuses a posting to an account that is not open; both stages add the same quantities to the
   same positions.  Hence the account of every adjustment is in the checker's open set on that day.

   Part A  Check alone: a position that is not zero belongs to an open account; the quantity of a
           position after a stage = before + the bookings (closing deletes zero entries only)
   Part B  Check and Valuate over the same days: every posting on an asset/liability account,
           adjustments included, goes to an account of the checker's open set
   Part C  carried to the emitted ledger and the reader's state *)
From Coq Require Import ZArith QArith Qabs List Bool Lia Permutation Sorting.Sorted.
From Knut Require Import Model.Str Model.Dec Model.Date Model.Account Model.Ledger Model.Price
     Model.Journal Model.Check Model.Pipeline Model.Cli Model.Beancount Model.CliTranscode
     Spec.WellformedSpec Spec.LedgerSpec Spec.LedgerSyntax Spec.MarkToMarketSpec Spec.BeancountSpec Spec.BeancountErase
     Proofs.StrProofs Proofs.DecProofs Proofs.DecValue Proofs.CheckLemmas Proofs.CheckProofs Proofs.PairProofs
     Proofs.BeancountProofs Proofs.LedgerProofs Proofs.ValuationProofs
     Proofs.MarkToMarket Proofs.MarkToMarketReport Proofs.TranscodeMtmCell.
Import ListNotations.
Open Scope Q_scope.

(* ------------------------------------------------------------ Part A: Check alone *)

Definition ck_good (s : check_state) : Prop :=
  entries_ok (ck_qty s) /\
  forall a c, account_ok a = true -> is_AL a = true -> ~ posq a c (ck_qty s) == 0 -> is_open s a = true.

Lemma is_open_name s a b : acc_eqb b a = true -> is_open s a = is_open s b.
Proof.
  intros H. apply acc_eqb_name in H. unfold is_open. f_equal.
  unfold acc_eqb. rewrite H. reflexivity.
Qed.

Lemma ck_good_init : ck_good check_init.
Proof.
  split; [exact entries_ok_nil|]. intros a c _ _ H. exfalso. apply H. cbn [check_init ck_qty]. apply posq_nil.
Qed.

Lemma ck_posting_good s t p s' p' :
  ck_posting_cb s t p = ROk (s', p') -> account_ok (p_acc p) = true -> ck_good s ->
  ck_good s' /\ ck_open s' = ck_open s /\
  (forall a c, account_ok a = true -> is_AL a = true ->
     posq a c (ck_qty s') == posq a c (ck_qty s) + (if cellb a c p then dvalue (p_qty p) else 0)).
Proof.
  intros H Hok [He Ho]. unfold ck_posting_cb in H.
  destruct (is_open s (p_acc p)) eqn:Eo; cbn [negb] in H; [|discriminate].
  destruct (is_AL (p_acc p)) eqn:EAL.
  - injection H as <- _. cbn [ck_open ck_qty].
    assert (Hd : forall a c, account_ok a = true -> is_AL a = true ->
               posq a c (pos_add (ck_qty s) (p_acc p) (p_com p) (p_qty p))
               == posq a c (ck_qty s) + (if cellb a c p then dvalue (p_qty p) else 0)).
    { intros a c Ha _. exact (posq_add a c Ha (ck_qty s) (p_acc p) (p_com p) (p_qty p) Hok). }
    split; [|split; [reflexivity|exact Hd]]. split.
    + apply (entries_ok_good (p_acc p) (p_com p)).
      apply (good_add (p_acc p) (p_com p) PT I (fun _ _ _ _ => I)); [|exact Hok|exact EAL|intros _; exact I].
      apply entries_ok_good. exact He.
    + intros a c Ha HAL Hnz. unfold is_open. cbn [ck_open]. fold (is_open s a).
      destruct (cellb a c p) eqn:Ec.
      * unfold cellb in Ec. apply andb_true_iff in Ec. destruct Ec as [Ec _].
        rewrite (is_open_name s a (p_acc p) Ec). exact Eo.
      * apply (Ho a c Ha HAL). intros Hz. apply Hnz. rewrite (Hd a c Ha HAL), Ec, Hz. ring.
  - injection H as <- _. split; [split; assumption|]. split; [reflexivity|].
    intros a c Ha HAL. rewrite (cell_not_AL a c Ha HAL p Hok EAL). ring.
Qed.

Definition acc_ok_posting (p : posting) : Prop := account_ok (p_acc p) = true.

Lemma ck_postings_good t ps : forall s s' ps',
  fold_postings ck_posting_cb t s ps = ROk (s', ps') -> Forall acc_ok_posting ps -> ck_good s ->
  ck_good s' /\ ck_open s' = ck_open s /\
  (forall a c, account_ok a = true -> is_AL a = true -> posq a c (ck_qty s') == posq a c (ck_qty s) + cell_qty a c ps).
Proof.
  induction ps as [|p ps IH]; intros s s' ps' H Hok Hg; cbn [fold_postings] in H.
  - injection H as <- _. split; [exact Hg|]. split; [reflexivity|]. intros a c _ _. cbn. ring.
  - inversion Hok as [|? ? Hp Hrest]; subst.
    destruct (ck_posting_cb s t p) as [[s1 p1]| |] eqn:E1; cbn [rbind fst snd] in H; try discriminate.
    destruct (fold_postings ck_posting_cb t s1 ps) as [[s2 ps2]| |] eqn:E2; cbn [rbind fst snd] in H; try discriminate.
    injection H as <- _. destruct (ck_posting_good _ _ _ _ _ E1 Hp Hg) as (G1 & O1 & D1).
    destruct (IH _ _ _ E2 Hrest G1) as (G2 & O2 & D2).
    split; [exact G2|]. split; [congruence|]. intros a c Ha HAL.
    rewrite (D2 a c Ha HAL), (D1 a c Ha HAL), cell_qty_cons. ring.
Qed.

Lemma ck_txns_good l ts : forall s s' ts',
  fold_txns (check_proc l) s ts = ROk (s', ts') -> Forall acc_ok_posting (MarkToMarket.txns_postings ts) -> ck_good s ->
  ck_good s' /\ ck_open s' = ck_open s /\
  (forall a c, account_ok a = true -> is_AL a = true ->
     posq a c (ck_qty s') == posq a c (ck_qty s) + cell_qty a c (MarkToMarket.txns_postings ts)).
Proof.
  induction ts as [|t ts IH]; intros s s' ts' H Hok Hg; cbn [fold_txns check_proc pr_txn pr_posting] in H.
  - injection H as <- _. split; [exact Hg|]. split; [reflexivity|]. intros a c _ _. cbn. ring.
  - cbn [rbind] in H. unfold MarkToMarket.txns_postings in Hok. cbn [map concat] in Hok.
    apply Forall_app in Hok. destruct Hok as [Ht Hrest].
    destruct (fold_postings ck_posting_cb t s (t_postings t)) as [[s1 ps1]| |] eqn:E1; cbn [rbind fst snd] in H; try discriminate.
    destruct (fold_txns (check_proc l) s1 ts) as [[s2 ts2]| |] eqn:E2; cbn [rbind fst snd] in H; try discriminate.
    injection H as <- _. destruct (ck_postings_good _ _ _ _ _ E1 Ht Hg) as (G1 & O1 & D1).
    destruct (IH _ _ _ E2 Hrest G1) as (G2 & O2 & D2).
    split; [exact G2|]. split; [congruence|]. intros a c Ha HAL.
    unfold MarkToMarket.txns_postings in *. cbn [map concat]. rewrite (D2 a c Ha HAL), (D1 a c Ha HAL), cell_qty_app. ring.
Qed.

Lemma ck_opens_good l : forall s s', fold_res ck_open_cb s l = ROk s' -> ck_good s -> ck_good s' /\ ck_qty s' = ck_qty s.
Proof.
  induction l as [|a l IH]; intros s s' H Hg; cbn [fold_res] in H.
  - injection H as <-. split; [exact Hg|reflexivity].
  - destruct (ck_open_cb s a) as [s1| |] eqn:E; cbn [rbind] in H; try discriminate.
    unfold ck_open_cb in E. destruct (is_open s a); [discriminate|]. injection E as <-.
    assert (G1 : ck_good (mkCheck (a :: ck_open s) (ck_qty s))).
    { destruct Hg as [He Ho]. split; [exact He|]. intros x c Hx HAL Hnz. cbn [ck_qty] in Hnz.
      rewrite is_open_cons. destruct s as [o m]. cbn [ck_open ck_qty] in *. rewrite (Ho x c Hx HAL Hnz). apply orb_true_r. }
    destruct (IH _ _ H G1) as [G2 Q2]. split; [exact G2|exact Q2].
Qed.

(* closing: the positions of the account are zero and are deleted; nothing else changes *)
Lemma ck_close_good s a' s' :
  ck_close_cb s a' = ROk s' -> ck_good s ->
  ck_good s' /\ (forall a c, account_ok a = true -> is_AL a = true -> posq a c (ck_qty s') == posq a c (ck_qty s)).
Proof.
  intros H [[Hs He] Ho]. unfold ck_close_cb in H.
  destruct (close_positions (ck_qty s) a') as [m'|] eqn:C; [|discriminate].
  destruct (negb (is_open s a')); [discriminate|]. injection H as <-. cbn [ck_qty ck_open].
  apply close_positions_some in C. destruct C as [-> Hz].
  set (f := fun x : str * (account * commodity * dec) => negb (acc_eqb a' (entry_acc x))).
  set (m := ck_qty s) in *.
  pose proof (keys_sorted_filter f m Hs) as Hs'.
  assert (He' : forall x, In x (filter f m) -> CheckProofs.entry_ok x).
  { intros x Hx. apply filter_In in Hx. apply He. tauto. }
  assert (Hv : forall a c, account_ok a = true ->
             posq a c (filter f m) == posq a c m /\ (acc_eqb a' a = true -> posq a c (filter f m) == 0)).
  { intros a c Ha. unfold posq, getd, pos_get.
    destruct (sm_get m (pos_key a c)) as [[[a2 c2] q]|] eqn:G.
    - pose proof (sm_get_some_in _ _ _ G) as Gin.
      pose proof (He _ Gin) as (K & Oa & _). cbn [fst snd] in K, Oa.
      apply pos_key_inj in K; [|assumption|assumption]. destruct K as [<- <-].
      destruct (acc_eqb a' a) eqn:Ea.
      + assert (Zq : is_zero q = true) by (apply (Hz _ Gin); unfold entry_acc; cbn [fst snd]; exact Ea).
        assert (N : sm_get (filter f m) (pos_key a c) = None).
        { destruct (sm_get (filter f m) (pos_key a c)) as [x|] eqn:G'; [|reflexivity]. exfalso.
          apply sm_get_some_in in G'. apply filter_In in G'. destruct G' as [G1 G2].
          rewrite (sm_get_in_sorted _ _ _ Hs G1) in G. injection G as ->.
          unfold f, entry_acc in G2. cbn [fst snd] in G2. rewrite Ea in G2. discriminate. }
        rewrite N. apply is_zero_value in Zq. rewrite Zq, dvalue_nil. split; [reflexivity|intros _; reflexivity].
      + assert (Gf : In (pos_key a c, (a, c, q)) (filter f m)).
        { apply filter_In. split; [exact Gin|]. unfold f, entry_acc. cbn [fst snd]. rewrite Ea. reflexivity. }
        rewrite (sm_get_in_sorted _ _ _ Hs' Gf). split; [reflexivity|discriminate].
    - assert (N : sm_get (filter f m) (pos_key a c) = None).
      { destruct (sm_get (filter f m) (pos_key a c)) as [x|] eqn:G'; [|reflexivity]. exfalso.
        apply sm_get_some_in in G'. apply filter_In in G'. destruct G' as [G1 _].
        rewrite (sm_get_in_sorted _ _ _ Hs G1) in G. discriminate. }
      rewrite N. split; [reflexivity|intros _; apply dvalue_nil]. }
  split; [|intros a c Ha _; exact (proj1 (Hv a c Ha))].
  split; [split; assumption|]. intros a c Ha HAL Hnz.
  destruct (Hv a c Ha) as [V1 V2]. unfold is_open. cbn [ck_open]. rewrite existsb_filter_acc.
  destruct (acc_eqb a' a) eqn:Ea; [exfalso; apply Hnz; apply V2; reflexivity|]. cbn [negb andb].
  apply (Ho a c Ha HAL). rewrite <- V1. exact Hnz.
Qed.

Lemma ck_closes_good l : forall s s', fold_res ck_close_cb s l = ROk s' -> ck_good s ->
  ck_good s' /\ (forall a c, account_ok a = true -> is_AL a = true -> posq a c (ck_qty s') == posq a c (ck_qty s)).
Proof.
  induction l as [|a l IH]; intros s s' H Hg; cbn [fold_res] in H.
  - injection H as <-. split; [exact Hg|]. intros; reflexivity.
  - destruct (ck_close_cb s a) as [s1| |] eqn:E; cbn [rbind] in H; try discriminate.
    destruct (ck_close_good _ _ _ E Hg) as [G1 D1]. destruct (IH _ _ H G1) as [G2 D2].
    split; [exact G2|]. intros x c Hx HAL. rewrite (D2 x c Hx HAL). exact (D1 x c Hx HAL).
Qed.

Lemma check_day_good l s d s' d' :
  process_day (check_proc l) s d = ROk (s', d') -> Forall acc_ok_posting (vday d) -> ck_good s ->
  ck_good s' /\
  (forall a c, account_ok a = true -> is_AL a = true -> posq a c (ck_qty s') == posq a c (ck_qty s) + cell_qty a c (vday d)).
Proof.
  unfold process_day. cbn [check_proc pr_day_start pr_price pr_open pr_close pr_day_end rbind fst snd].
  intros H Hok Hg.
  destruct (fold_res ck_open_cb s (d_opens d)) as [s3| |] eqn:E3; try discriminate. cbn [rbind] in H.
  destruct (fold_txns (check_proc l) s3 (d_txns d)) as [[s4 ts']| |] eqn:E4; try discriminate.
  cbn [rbind fst snd d_asserts d_closes] in H.
  destruct (fold_asserts (check_proc l) s4 (d_asserts d)) as [s5| |] eqn:E5; try discriminate. cbn [rbind] in H.
  destruct (fold_res ck_close_cb s5 (d_closes d)) as [s6| |] eqn:E6; try discriminate. cbn [rbind] in H.
  injection H as <- _.
  destruct (ck_opens_good _ _ _ E3 Hg) as [G3 Q3].
  destruct (ck_txns_good _ _ _ _ _ E4 Hok G3) as (G4 & _ & D4).
  apply ck_asserts_open in E5. subst s5.
  destruct (ck_closes_good _ _ _ E6 G4) as [G6 D6].
  split; [exact G6|]. intros a c Ha HAL. rewrite (D6 a c Ha HAL), (D4 a c Ha HAL), Q3. reflexivity.
Qed.

(* ------------------------------------------------------------ Part B: Check and Valuate together *)

Definition txn_AL_open (o : list account) (t : txn) : Prop :=
  Forall (fun p => is_AL (p_acc p) = true -> is_open_in o (p_acc p) = true) (t_postings t).

Fixpoint days_AL_checked (o : list account) (days : list day) : Prop :=
  match days with
  | [] => True
  | d :: rest => Forall (txn_AL_open (opens_after o d)) (d_txns d) /\
                 days_AL_checked (closes_after (opens_after o d) d) rest
  end.

Lemma opens_after_mono o d a : is_open_in o a = true -> is_open_in (opens_after o d) a = true.
Proof.
  unfold opens_after. generalize (d_opens d). intros l. revert o. induction l as [|x l IH]; intros o H; cbn [fold_left]; [exact H|].
  apply IH. unfold is_open_in in *. cbn [existsb]. rewrite H. apply orb_true_r.
Qed.

Lemma txn_AL_open_sim o t t' : txn_sim t t' -> txn_AL_open o t -> txn_AL_open o t'.
Proof.
  intros (_ & _ & _ & H) Ht. unfold txn_AL_open in *.
  eapply Forall2_Forall_r; [|exact H|exact Ht]. intros x y (Hxy & _) Hx. cbn beta in *. rewrite Hxy. exact Hx.
Qed.

Lemma txn_open_AL o t : txn_open o t -> txn_AL_open o t.
Proof. unfold txn_open, txn_AL_open. apply Forall_impl. intros p H _. exact H. Qed.

Lemma in_ok_acc l : Forall posting_in_ok l -> Forall acc_ok_posting l.
Proof. apply Forall_impl. intros p [H _]. exact H. Qed.

(* the adjustments of a day go to accounts the checker holds open *)
Lemma adjustments_AL_open v date prev cur sC pos ts :
  val_adjustments v date prev cur pos = ROk ts ->
  entries_ok pos -> ck_good sC ->
  (forall a c, account_ok a = true -> is_AL a = true -> c <> v -> posq a c (ck_qty sC) == posq a c pos) ->
  Forall (txn_AL_open (ck_open sC)) ts.
Proof.
  intros H [Hs He] [_ Ho] Hq. pose proof (val_adjustments_only_AL _ _ _ _ _ _ H) as F.
  eapply Forall_impl; [|exact F]. intros t (k & a & c & q & gain & Hin & HAL & Hcv & Hz & Hps).
  pose proof (He _ Hin) as (K & Ha & _). cbn [fst snd] in K, Ha. subst k.
  assert (Hc : c <> v) by (intros ->; rewrite str_eqb_refl in Hcv; discriminate).
  assert (Hopen : is_open sC a = true).
  { apply (Ho a c Ha HAL). rewrite (Hq a c Ha HAL Hc). unfold posq. rewrite (getd_in pos a c q Hs Hin).
    intros Hv. apply is_zero_value in Hv. congruence. }
  unfold txn_AL_open. rewrite Hps. unfold pair_build.
  destruct (is_neg dec_nil || is_zero dec_nil && is_neg gain); cbv beta iota zeta;
    repeat constructor; cbn [p_acc]; intros E; try exact Hopen;
    exfalso; clear - E; unfold valuation_account_for, is_AL, acc_type in E; cbn in E; discriminate.
Qed.

Lemma joint_days l v : forall ds sC sC' dsC sV sV' out,
  process_days (check_proc l) sC ds = ROk (sC', dsC) ->
  process_days (valuate_proc v) sV ds = ROk (sV', out) ->
  Forall posting_in_ok (vposts ds) ->
  ck_good sC -> entries_ok (v_qty sV) ->
  (forall a c, account_ok a = true -> is_AL a = true -> c <> v -> posq a c (ck_qty sC) == posq a c (v_qty sV)) ->
  days_AL_checked (ck_open sC) out.
Proof.
  induction ds as [|d ds IH]; intros sC sC' dsC sV sV' out HC HV Hin Hg Hs Hq; cbn [process_days] in HC, HV.
  - injection HV as _ <-. exact I.
  - destruct (process_day (check_proc l) sC d) as [[sC1 dC1]| |] eqn:EC1; cbn [rbind fst snd] in HC; try discriminate.
    destruct (process_days (check_proc l) sC1 ds) as [[sC2 rC]| |] eqn:EC2; cbn [rbind fst snd] in HC; try discriminate.
    destruct (process_day (valuate_proc v) sV d) as [[sV1 d1]| |] eqn:EV1; cbn [rbind fst snd] in HV; try discriminate.
    destruct (process_days (valuate_proc v) sV1 ds) as [[sV2 rV]| |] eqn:EV2; cbn [rbind fst snd] in HV; try discriminate.
    injection HV as _ <-.
    unfold MarkToMarketSpec.days_postings in Hin. cbn [map concat] in Hin. apply Forall_app in Hin. destruct Hin as [Hd Hr].
    destruct (check_day_checked _ _ _ _ _ EC1) as [C1 C2].
    destruct (check_day_good _ _ _ _ _ EC1 (in_ok_acc _ Hd) Hg) as [G1 D1].
    assert (EV1' : process_days (valuate_proc v) sV [d] = ROk (sV1, [d1])) by (cbn [process_days]; rewrite EV1; reflexivity).
    assert (Hd' : Forall posting_in_ok (vposts [d])).
    { unfold MarkToMarketSpec.days_postings. cbn [map concat]. rewrite app_nil_r. exact Hd. }
    pose proof (days_entries_ok v [d] sV sV1 [d1] Hd' Hs EV1') as Hs1.
    pose proof (valuate_stage_step _ _ _ _ _ EV1') as St. inversion St as [|? ? ? ? (_ & So & Sc & _) _]; subst.
    assert (Ho : opens_after (ck_open sC) d1 = opens_after (ck_open sC) d) by (unfold opens_after; rewrite So; reflexivity).
    assert (Hcl : closes_after (opens_after (ck_open sC) d1) d1 = closes_after (opens_after (ck_open sC) d) d)
      by (rewrite Ho; unfold closes_after; rewrite Sc; reflexivity).
    cbn [days_AL_checked]. rewrite Hcl, Ho. split.
    + destruct (valuate_day_inv _ _ _ _ _ EV1) as (ts & s2 & txns' & Eadj & Efold & _ & Etx & _).
      rewrite Etx.
      assert (Prel : forall f s0 t x s1 x', pr_posting (valuate_proc v) = Some f -> f s0 t x = ROk (s1, x') -> posting_sim x x').
      { intros f s0 t x s1 x' Hf Hx. cbn [valuate_proc pr_posting] in Hf. injection Hf as <-. eapply val_posting_sim; eauto. }
      pose proof (fold_txns_sim (valuate_proc v) Prel _ _ _ _ Efold) as Sim.
      refine (Forall2_Forall_r txn_sim (txn_AL_open (opens_after (ck_open sC) d)) _ _ _ _ Sim _).
      * intros x y Hxy Hx. eapply txn_AL_open_sim; eauto.
      * apply Forall_app. split.
        -- eapply Forall_impl; [|exact C1]. intros t. apply txn_open_AL.
        -- pose proof (adjustments_AL_open _ _ _ _ sC _ _ Eadj Hs Hg Hq) as A.
           eapply Forall_impl; [|exact A]. intros t. unfold txn_AL_open. apply Forall_impl.
           intros p Hp HAL. apply opens_after_mono. exact (Hp HAL).
    + rewrite <- C2. apply (IH _ _ _ _ _ _ EC2 EV2 Hr G1 Hs1).
      intros a c Ha HAL Hcv. rewrite (D1 a c Ha HAL), (Hq a c Ha HAL Hcv).
      destruct (mtm_delta v a c [d] sV sV1 [d1] Ha HAL Hcv Hd' (proj1 (entries_ok_good a c _) Hs) EV1') as (_ & _ & B3 & _).
      rewrite B3. unfold MarkToMarketSpec.days_postings. cbn [map concat]. rewrite app_nil_r. reflexivity.
Qed.

Lemma transcode_days_AL_checked l v sds dl days :
  parse_directives sds = MOk dl -> postings_syntactic dl ->
  transcode_days l v sds = COk days -> days_AL_checked [] days.
Proof.
  intros Hl Hsyn H.
  destruct (transcode_days_inv _ _ _ _ H) as (dl' & d1 & d2 & d3 & s1 & s2 & s3 & s4 & E0 & E1 & E2 & E3 & E4).
  assert (dl' = dl) by congruence. subst dl'.
  apply sort_stage_spec in E1. subst d1. pose proof (check_stage_id _ _ _ _ _ E3) as Eid. subst d3.
  pose proof (sorted_in_ok sds dl Hl Hsyn) as Hin. rewrite <- (cp_days_postings _ _ _ _ _ E2) in Hin.
  apply (joint_days l v d2 check_init s3 d2 (mkVal None None []) s4 days E3 E4 Hin ck_good_init entries_ok_nil).
  intros a c _ _ _. cbn [check_init ck_qty v_qty]. reflexivity.
Qed.

(* ------------------------------------------------------------ Part C: the emitted ledger *)

Definition entry_AL_ok (x : bstate * bentry) : Prop :=
  match snd x with
  | BTxn t => Forall (fun p => is_AL (p_acc p) = true ->
                               mem (acc_name (p_acc p)) (map fst (st_open (fst x))) = true) (t_postings t)
  | _ => True
  end.

Definition not_btxn (e : bentry) : Prop := match e with BTxn _ => False | _ => True end.

Lemma scan_not_txn v es : Forall not_btxn es -> forall st, Forall entry_AL_ok (bscan v st es).
Proof.
  induction 1 as [|e es He _ IH]; intros st; cbn [bscan]; constructor; [|apply IH].
  unfold entry_AL_ok. cbn [snd]. destruct e; [exact I|exact I|contradiction].
Qed.

Lemma scan_txns_AL v o ts : forall st, covers o (st_open st) ->
  Forall (txn_AL_open o) ts ->
  Forall entry_AL_ok (bscan v st (map BTxn ts)).
Proof.
  induction ts as [|t ts IH]; intros st Hc Hts; cbn [map bscan]; [constructor|].
  inversion Hts as [|? ? Ht Hrest]; subst. constructor.
  - unfold entry_AL_ok. cbn [snd fst]. unfold txn_AL_open in Ht. eapply Forall_impl; [|exact Ht].
    intros p Hp HAL. apply Hc. exact (Hp HAL).
  - apply IH; [|exact Hrest]. cbn [erase_entry next_state]. exact Hc.
Qed.

Lemma scan_entries_AL v days : forall seen o st,
  days_AL_checked o days -> covers o (st_open st) ->
  Forall entry_AL_ok (bscan v st (transcode_entries days seen)).
Proof.
  induction days as [|d days IH]; intros seen o st Hd Hc; cbn [transcode_entries]; [constructor|].
  cbn [days_AL_checked] in Hd. destruct Hd as [Hd1 Hd2].
  unfold transcode_day.
  pose proof (val_opens_txns_opens (sort_by txn_ltb (d_txns d)) seen) as Hvo.
  destruct (val_opens_txns (sort_by txn_ltb (d_txns d)) seen) as [vo seen'].
  cbn [fst] in Hvo.
  set (E1 := map (BOpen (d_date d)) (d_opens d)).
  set (E3 := map BTxn (sort_by txn_ltb (d_txns d))).
  set (E4 := map (BClose (d_date d)) (d_closes d)).
  destruct (scan_opens no_extra v (d_date d) (d_opens d) o st Hc) as [_ A2]. fold E1 in A2.
  destruct (scan_more_opens no_extra v vo Hvo _ _ A2) as [_ B2].
  assert (Hts : Forall (txn_AL_open (opens_after o d)) (sort_by txn_ltb (d_txns d))).
  { eapply Permutation_Forall; [symmetry; apply sort_by_perm|exact Hd1]. }
  pose proof (scan_txns_AL v _ _ _ B2 Hts) as C1. fold E3 in C1.
  assert (C2 : st_open (bfold v (bfold v (bfold v st E1) vo) E3) = st_open (bfold v (bfold v st E1) vo)).
  { unfold E3. generalize (bfold v (bfold v st E1) vo). generalize (sort_by txn_ltb (d_txns d)).
    induction l as [|t ts IHt]; intros st0; [reflexivity|]. cbn [map]. unfold bfold in *. cbn [erase_entries map fold_left].
    rewrite IHt. reflexivity. }
  assert (C3 : covers (opens_after o d) (st_open (bfold v (bfold v (bfold v st E1) vo) E3))) by (rewrite C2; exact B2).
  destruct (scan_closes no_extra v (d_date d) (d_closes d) _ _ C3) as [_ D2]. fold E4 in D2.
  rewrite <- !app_assoc. rewrite !bscan_app.
  repeat (apply Forall_app; split).
  - apply scan_not_txn. unfold E1. apply Forall_forall. intros e He. apply in_map_iff in He. destruct He as (x & <- & _). exact I.
  - apply scan_not_txn. eapply Forall_impl; [|exact Hvo]. intros e He. destruct e; [exact I|contradiction|contradiction].
  - exact C1.
  - apply scan_not_txn. unfold E4. apply Forall_forall. intros e He. apply in_map_iff in He. destruct He as (x & <- & _). exact I.
  - eapply IH; [exact Hd2|exact D2].
Qed.

(* every posting on an asset/liability account -- of a user transaction or of a value adjustment --
   goes to an account with an open directive in force at that point of the ledger *)
Theorem transcode_AL_open_before_use l v sds dl days pre t post :
  parse_directives sds = MOk dl -> postings_syntactic dl ->
  transcode_days l v sds = COk days ->
  transcode_entries days [] = pre ++ BTxn t :: post ->
  Forall (fun p => is_AL (p_acc p) = true ->
                   mem (acc_name (p_acc p)) (map fst (st_open (state_after (erase_entries v pre)))) = true)
         (t_postings t).
Proof.
  intros Hl Hsyn H Hsplit. pose proof (transcode_days_AL_checked _ _ _ _ _ Hl Hsyn H) as Hc.
  assert (Hcov : covers [] (st_open bst_init)) by (intros a Ha; discriminate).
  pose proof (scan_entries_AL v days [] [] bst_init Hc Hcov) as Hs.
  rewrite Hsplit in Hs. rewrite Forall_forall in Hs.
  exact (Hs _ (bscan_split v pre (BTxn t) post bst_init)).
Qed.
