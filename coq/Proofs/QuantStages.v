(* C09 (b), reports: the pipeline stages Filter, CloseAccounts and Query.Into, and the balance
   command without valuation, under value-equal quantities (QuantSim.day_v).
   [balance_unvalued_v]: two journals that load to builders with the same period and [day_v]-related
   days give the same CSV bytes (or both commands fail) for every configuration without --val. *)
From Coq Require Import ZArith List Bool Lia.
From Knut Require Import Model.Str Model.Dec Model.Date Model.Account Model.Ledger Model.Price Model.Journal
     Model.Check Model.Pipeline Model.Table Model.Report Model.Cli.
From Knut Require Import Proofs.DecProofs Proofs.DecEqProofs Proofs.OrderProofs Proofs.OrderCmd Proofs.CheckQuant
     Proofs.PrintRequant Proofs.QuantSim Proofs.QuantReport.
Import ListNotations.
Open Scope bool_scope.
Open Scope Z_scope.

(* ------------------------------------------------------------------ posting pairs *)

Lemma pair_build_v a b c q q' v v' : deqv q q' -> deqv v v' ->
  Forall2 posting_v (pair_build a b c q v) (pair_build a b c q' v').
Proof.
  intros Hq Hv. unfold pair_build.
  rewrite (deqv_is_neg _ _ Hq), (deqv_is_zero _ _ Hq), (deqv_is_neg _ _ Hv).
  destruct (is_neg q' || is_zero q' && is_neg v'); repeat constructor; cbn [p_acc p_other p_com p_qty p_val];
    try reflexivity; try assumption; repeat apply deqv_neg; assumption.
Qed.

(* ------------------------------------------------------------------ Filter *)

Theorem filter_stage_v span D D' : Forall2 day_v D D' ->
  req (RSDs eq) (process_days (filter_proc span) tt D) (process_days (filter_proc span) tt D').
Proof.
  intros H. apply process_days_v; [| | | | | | | |exact H|reflexivity];
    cbn [filter_proc pr_day_start pr_price pr_open pr_txn pr_posting pr_balance pr_close pr_day_end]; try exact I.
  intros s s' d d' <- Hd. cbn [req]. split; cbn [fst snd]; [reflexivity|].
  pose proof Hd as (E0 & E1 & E2 & E3 & E4 & E5 & E6). rewrite <- E0.
  destruct (period_contains span (d_date d)); [exact Hd|].
  repeat split; cbn [set_txns d_date d_prices d_opens d_txns d_asserts d_closes d_normalized]; try assumption. constructor.
Qed.

(* ------------------------------------------------------------------ CloseAccounts *)

Definition Rc (s s' : close_state) : Prop :=
  Forall2 ent_q (c_qty s) (c_qty s') /\ Forall2 ent_q (c_val s) (c_val s').

Lemma closing_txns_v date qs qs' vs vs' : Forall2 ent_q qs qs' -> Forall2 ent_q vs vs' ->
  Forall2 txn_v (closing_txns date qs vs) (closing_txns date qs' vs').
Proof.
  intros Hq Hv. induction Hq as [|[k [[a c] q]] [k' [[a' c'] q']] qs qs' (Hk & Ha & Hc & Hqq) Hqs IH]; cbn [closing_txns]; [constructor|].
  cbn [fst snd] in *. subst k' a' c'.
  pose proof (pos_get_q vs vs' a c Hv) as Hg.
  assert (Hvv : deqv (match pos_get vs a c with Some x => x | None => dec_nil end)
                     (match pos_get vs' a c with Some x => x | None => dec_nil end)).
  { destruct (pos_get vs a c), (pos_get vs' a c); try contradiction; [exact Hg|apply deqv_refl]. }
  rewrite (deqv_is_zero _ _ Hqq), (deqv_is_zero _ _ Hvv).
  destruct (is_zero q' && is_zero _); [exact IH|]. constructor; [|exact IH].
  repeat split; cbn [t_date t_desc t_targets t_postings]. now apply pair_build_v.
Qed.

Theorem close_stage_v closing D D' : Forall2 day_v D D' ->
  req (RSDs Rc) (process_days (close_proc closing) (mkClose [] []) D) (process_days (close_proc closing) (mkClose [] []) D').
Proof.
  intros H. apply process_days_v; [| | | | | | | |exact H|split; constructor];
    cbn [close_proc pr_day_start pr_price pr_open pr_txn pr_posting pr_balance pr_close pr_day_end]; try exact I.
  - intros s s' d d' (Hq & Hv) Hd. unfold close_day_start.
    pose proof Hd as (E0 & E1 & E2 & E3 & E4 & E5 & E6). rewrite <- E0.
    destruct (existsb (Z.eqb (d_date d)) closing); cbn [req]; (split; cbn [fst snd]; [split; assumption|]); [|exact Hd].
    repeat split; cbn [set_txns d_date d_prices d_opens d_txns d_asserts d_closes d_normalized]; try assumption.
    apply Forall2_app; [exact E3|]. now apply closing_txns_v.
  - intros s s' t t' x x' (Hq & Hv) _ Hx. unfold close_posting.
    pose proof Hx as (Ha & Ho & Hc & Hqq & Hvv). rewrite <- Ha, <- Hc.
    destruct (is_AL (p_acc x) || acc_eqb (p_acc x) equity_account); cbn [req]; (split; cbn [fst snd]; [|exact Hx]).
    + split; assumption.
    + split; cbn [c_qty c_val]; now apply pos_add_q.
Qed.

(* ------------------------------------------------------------------ Query.Into *)

Theorem query_stage_v q D D' r r' : Forall2 day_v D D' -> report_v r r' ->
  req (RSDs report_v) (process_days (query_proc q report_insert) r D) (process_days (query_proc q report_insert) r' D').
Proof.
  intros H Hr. apply process_days_v; [| | | | | | | |exact H|exact Hr];
    cbn [query_proc pr_day_start pr_price pr_open pr_txn pr_posting pr_balance pr_close pr_day_end]; try exact I.
  intros s s' t t' x x' Hs Ht Hx. unfold query_posting.
  pose proof Hx as (Ha & Ho & Hc & Hqq & Hvv). destruct Ht as (Td & _). rewrite <- Ha, <- Hc, <- Td.
  destruct (q_where q (p_acc x) (p_com x)); cbn [req]; [|split; assumption].
  destruct (q_account q (p_acc x)); cbn [req]; try exact I; (split; cbn [fst snd]; [|exact Hx]); [|exact Hs].
  apply report_insert_v; [exact Hs|]. destruct (q_valued q); assumption.
Qed.

(* ------------------------------------------------------------------ Builder.Days *)

Lemma upd_day_id_v dt l l' : Forall2 day_v l l' ->
  Forall2 day_v (upd_day l dt (fun x => x)) (upd_day l' dt (fun x => x)).
Proof.
  induction 1 as [|x y l l' Hx Hl IH]; cbn [upd_day]; [constructor; [apply day_v_refl|constructor]|].
  rewrite <- (proj1 Hx). destruct (dt =? d_date x); [constructor; assumption|].
  destruct (dt <? d_date x); constructor; try assumption; try apply day_v_refl. constructor; assumption.
Qed.

Lemma builder_touch_v b b' dates : Forall2 day_v (b_days b) (b_days b') ->
  Forall2 day_v (b_days (builder_touch b dates)) (b_days (builder_touch b' dates)).
Proof.
  unfold builder_touch. cbn [b_days]. generalize (b_days b) (b_days b').
  induction dates as [|d dates IH]; intros l l' H; cbn [fold_left]; [exact H|]. apply IH. now apply upd_day_id_v.
Qed.

(* ------------------------------------------------------------------ knut balance without --val *)

Lemma ceq_run {S} (R : S * list day -> S * list day -> Prop) (p : processor S) s s' D D' :
  req R (process_days p s D) (process_days p s' D') -> ceq R (run_stage p s D) (run_stage p s' D').
Proof. intros H. unfold run_stage. now apply ceq_of_presult. Qed.

Theorem balance_report_unvalued_v cfg X X' b b' :
  bc_valuation cfg = None ->
  load X = COk b -> load X' = COk b' ->
  Forall2 day_v (b_days b) (b_days b') -> b_min b = b_min b' -> b_max b = b_max b' ->
  ceq (fun a a' => report_v (fst a) (fst a') /\ snd a = snd a') (balance_report cfg X) (balance_report cfg X').
Proof.
  intros Hval HX HX' Hd Hmin Hmax. unfold balance_report. rewrite HX, HX'.
  destruct (bc_valuation cfg) as [v|]; [discriminate|]. cbn [cbind].
  rewrite (cfg_partition_equiv cfg b b' Hmin Hmax).
  destruct (cfg_partition cfg b') as [part| |]; cbn [cbind ceq]; try exact I. cbv zeta.
  set (c := if bc_close cfg then builder_touch b (start_dates part) else b).
  set (c' := if bc_close cfg then builder_touch b' (start_dates part) else b').
  assert (Hc : Forall2 day_v (b_days c) (b_days c')).
  { unfold c, c'. destruct (bc_close cfg); [now apply builder_touch_v|exact Hd]. }
  eapply ceq_bind; [apply ceq_run, (check_stage_v (bc_lenient cfg)); exact Hc|].
  intros [s1 d1] [s1' d1'] (_ & H1). cbn [fst snd cbind] in *.
  eapply ceq_bind; [apply ceq_run, (filter_stage_v (span part)); exact H1|].
  intros [s4 d4] [s4' d4'] (_ & H4). cbn [fst snd] in *.
  eapply (ceq_bind (fun l l' => Forall2 day_v l l')).
  { destruct (bc_close cfg); [|exact H4].
    eapply ceq_bind; [apply ceq_run, (close_stage_v (start_dates part)); exact H4|].
    intros [s5 d5] [s5' d5'] (_ & H5). exact H5. }
  intros d6 d6' H6.
  eapply ceq_bind; [apply ceq_run, (query_stage_v _ _ _ _ _ H6 (report_v_refl new_report))|].
  intros [r7 d7] [r7' d7'] (H7 & _). cbn [fst snd cbind ceq] in *. split; [exact H7|reflexivity].
Qed.

Theorem balance_table_unvalued_v cfg X X' b b' :
  bc_valuation cfg = None ->
  load X = COk b -> load X' = COk b' ->
  Forall2 day_v (b_days b) (b_days b') -> b_min b = b_min b' -> b_max b = b_max b' ->
  ceq table_v (balance_table cfg X) (balance_table cfg X').
Proof.
  intros Hval HX HX' Hd Hmin Hmax. unfold balance_table.
  eapply ceq_bind; [apply (balance_report_unvalued_v cfg X X' b b'); assumption|].
  intros [r p] [r' p'] (Hr & Hp). cbn [fst snd ceq] in *. subst p'. now apply render_report_v.
Qed.

Theorem balance_csv_unvalued_v cfg X X' b b' :
  bc_valuation cfg = None ->
  load X = COk b -> load X' = COk b' ->
  Forall2 day_v (b_days b) (b_days b') -> b_min b = b_min b' -> b_max b = b_max b' ->
  ceq eq (balance_csv cfg X) (balance_csv cfg X').
Proof.
  intros Hval HX HX' Hd Hmin Hmax. unfold balance_csv.
  eapply ceq_bind; [apply (balance_table_unvalued_v cfg X X' b b'); assumption|].
  intros t t' Ht. cbn [ceq]. now apply render_csv_v.
Qed.
