(* Lemmas under the C04 refinement proof: the byte-string order, sorted association lists
   (Model/Price.v smap), account names and position keys of syntactically valid accounts. *)
From Coq Require Import ZArith List Bool Lia Sorting.Sorted.
From Knut Require Import Model.Str Model.Dec Model.Account Model.Ledger Model.Price Model.Journal Model.Check
     Spec.WellformedSpec.
Import ListNotations.
Open Scope bool_scope.
Open Scope Z_scope.

(* ------------------------------------------------------------------ str_cmp is a strict total order *)

Lemma str_cmp_refl a : str_cmp a a = Eq.
Proof. induction a as [|x a IH]; cbn; [reflexivity|]. rewrite Z.compare_refl. exact IH. Qed.

Lemma str_cmp_eq a b : str_cmp a b = Eq -> a = b.
Proof.
  revert b. induction a as [|x a IH]; intros [|y b]; cbn; intros H; try reflexivity; try discriminate.
  destruct (Z.compare_spec x y) as [E|E|E]; try discriminate.
  subst y. f_equal. apply IH. exact H.
Qed.

Lemma str_eqb_eq a b : str_eqb a b = true <-> a = b.
Proof.
  unfold str_eqb. split.
  - intros H. apply str_cmp_eq. destruct (str_cmp a b); [reflexivity|discriminate|discriminate].
  - intros ->. rewrite str_cmp_refl. reflexivity.
Qed.

Lemma str_eqb_refl a : str_eqb a a = true.
Proof. apply str_eqb_eq. reflexivity. Qed.

Lemma str_eqb_neq a b : a <> b -> str_eqb a b = false.
Proof. intros H. destruct (str_eqb a b) eqn:E; [|reflexivity]. apply str_eqb_eq in E. contradiction. Qed.

Lemma str_cmp_antisym a b : str_cmp b a = CompOpp (str_cmp a b).
Proof.
  revert b. induction a as [|x a IH]; intros [|y b]; cbn; try reflexivity.
  rewrite (Z.compare_antisym x y).
  destruct (x ?= y); cbn; [apply IH|reflexivity|reflexivity].
Qed.

Lemma str_cmp_lt_trans a b c : str_cmp a b = Lt -> str_cmp b c = Lt -> str_cmp a c = Lt.
Proof.
  revert b c. induction a as [|x a IH]; intros [|y b] [|z c]; cbn; intros H1 H2;
    try reflexivity; try discriminate.
  destruct (Z.compare_spec x y) as [E1|E1|E1]; try discriminate;
    destruct (Z.compare_spec y z) as [E2|E2|E2]; try discriminate;
    destruct (Z.compare_spec x z) as [E3|E3|E3]; try reflexivity; try lia.
  eapply IH; eassumption.
Qed.

Lemma str_cmp_lt_irrefl a : str_cmp a a <> Lt.
Proof. rewrite str_cmp_refl. discriminate. Qed.

(* ------------------------------------------------------------------ sorted association lists *)

Section SMapLemmas.
  Context {V : Type}.

  Definition key_lt (x y : str * V) : Prop := str_cmp (fst x) (fst y) = Lt.
  Definition keys_sorted (m : smap V) : Prop := StronglySorted key_lt m.

  Lemma sm_get_put_same (m : smap V) k v : sm_get (sm_put m k v) k = Some v.
  Proof.
    induction m as [|[k' v'] rest IH]; cbn.
    - rewrite str_eqb_refl. reflexivity.
    - destruct (str_cmp k k') eqn:E; cbn.
      + rewrite str_eqb_refl. reflexivity.
      + rewrite str_eqb_refl. reflexivity.
      + unfold str_eqb. rewrite E. exact IH.
  Qed.

  Lemma sm_get_put_other (m : smap V) k v k2 : k2 <> k -> sm_get (sm_put m k v) k2 = sm_get m k2.
  Proof.
    intros Hne. induction m as [|[k' v'] rest IH]; cbn.
    - rewrite (str_eqb_neq k2 k Hne). reflexivity.
    - destruct (str_cmp k k') eqn:E; cbn.
      + apply str_cmp_eq in E. subst k'. rewrite (str_eqb_neq k2 k Hne). reflexivity.
      + rewrite (str_eqb_neq k2 k Hne). reflexivity.
      + rewrite IH. reflexivity.
  Qed.

  Lemma sm_put_in (m : smap V) k v x : In x (sm_put m k v) -> x = (k, v) \/ In x m.
  Proof.
    induction m as [|[k' v'] rest IH]; cbn.
    - intros [H|[]]. left. symmetry. exact H.
    - destruct (str_cmp k k') eqn:E; cbn.
      + intros [H|H]; [left; symmetry; exact H|right; right; exact H].
      + intros [H|[H|H]]; [left; symmetry; exact H|right; left; exact H|right; right; exact H].
      + intros [H|H]; [right; left; exact H|].
        destruct (IH H) as [H1|H1]; [left; exact H1|right; right; exact H1].
  Qed.

  Lemma sm_put_sorted (m : smap V) k v : keys_sorted m -> keys_sorted (sm_put m k v).
  Proof.
    unfold keys_sorted. induction m as [|[k' v'] rest IH]; cbn; intros Hs.
    - constructor; constructor.
    - inversion Hs as [|x l Hs' Hall]; subst.
      destruct (str_cmp k k') eqn:E.
      + apply str_cmp_eq in E. subst k'. constructor; [exact Hs'|exact Hall].
      + constructor; [exact Hs|].
        constructor; [exact E|].
        rewrite Forall_forall in *. intros y Hy. unfold key_lt in *. cbn [fst] in *.
        eapply str_cmp_lt_trans; [exact E|]. apply Hall. exact Hy.
      + constructor; [apply IH; exact Hs'|].
        rewrite Forall_forall in *. intros y Hy.
        destruct (sm_put_in _ _ _ _ Hy) as [H1|H1].
        * subst y. unfold key_lt. cbn [fst]. rewrite str_cmp_antisym, E. reflexivity.
        * apply Hall. exact H1.
  Qed.

  Lemma sm_get_in_sorted (m : smap V) k v : keys_sorted m -> In (k, v) m -> sm_get m k = Some v.
  Proof.
    unfold keys_sorted. induction m as [|[k' v'] rest IH]; cbn; intros Hs Hin; [contradiction|].
    inversion Hs as [|x l Hs' Hall]; subst.
    destruct Hin as [H|H].
    - inversion H; subst. rewrite str_eqb_refl. reflexivity.
    - rewrite Forall_forall in Hall. pose proof (Hall _ H) as Hlt. unfold key_lt in Hlt. cbn [fst] in Hlt.
      destruct (str_eqb k k') eqn:E.
      + apply str_eqb_eq in E. subst k'. exfalso. exact (str_cmp_lt_irrefl _ Hlt).
      + apply IH; assumption.
  Qed.

  Lemma sm_get_some_in (m : smap V) k v : sm_get m k = Some v -> In (k, v) m.
  Proof.
    induction m as [|[k' v'] rest IH]; cbn; [discriminate|].
    destruct (str_eqb k k') eqn:E.
    - apply str_eqb_eq in E. subst k'. intros H. inversion H. left. reflexivity.
    - intros H. right. apply IH. exact H.
  Qed.
End SMapLemmas.

(* ------------------------------------------------------------------ separators *)

(* two strings free of the byte z, each followed by z and a rest: equal wholes have equal parts *)
Lemma split_at_sep (z : Z) (x y u v : str) :
  ~ In z x -> ~ In z y -> x ++ z :: u = y ++ z :: v -> x = y /\ u = v.
Proof.
  revert y. induction x as [|c x IH]; intros [|d y] Hx Hy H; cbn in *.
  - inversion H. split; reflexivity.
  - inversion H. subst d. exfalso. apply Hy. left. reflexivity.
  - inversion H. subst c. exfalso. apply Hx. left. reflexivity.
  - inversion H. subst d.
    destruct (IH y) as [E1 E2]; [tauto|tauto|assumption|]. subst. split; reflexivity.
Qed.

Lemma seg_ok_spec s : seg_ok s = true -> ~ In 0 s /\ ~ In colon s.
Proof.
  unfold seg_ok. rewrite forallb_forall. intros H. split; intros Hin; apply H in Hin.
  - cbn in Hin. discriminate.
  - rewrite Z.eqb_refl in Hin. rewrite andb_false_r in Hin. discriminate.
Qed.

Lemma join_colon_inj (a b : list str) :
  a <> [] -> b <> [] -> (forall s, In s a -> ~ In colon s) -> (forall s, In s b -> ~ In colon s) ->
  join [colon] a = join [colon] b -> a = b.
Proof.
  revert b. induction a as [|x ra IH]; intros [|y rb] Ha Hb Fa Fb H; try congruence.
  destruct ra as [|x2 ra], rb as [|y2 rb].
  - cbn in H. subst. reflexivity.
  - exfalso. change (join [colon] (y :: y2 :: rb)) with (y ++ [colon] ++ join [colon] (y2 :: rb)) in H.
    change (join [colon] [x]) with x in H.
    apply (Fa x); [left; reflexivity|]. rewrite H. apply in_or_app. right. left. reflexivity.
  - exfalso. change (join [colon] (x :: x2 :: ra)) with (x ++ [colon] ++ join [colon] (x2 :: ra)) in H.
    change (join [colon] [y]) with y in H.
    apply (Fb y); [left; reflexivity|]. rewrite <- H. apply in_or_app. right. left. reflexivity.
  - change (join [colon] (x :: x2 :: ra)) with (x ++ colon :: join [colon] (x2 :: ra)) in H.
    change (join [colon] (y :: y2 :: rb)) with (y ++ colon :: join [colon] (y2 :: rb)) in H.
    apply split_at_sep in H; [|apply Fa; left; reflexivity|apply Fb; left; reflexivity].
    destruct H as [E1 E2]. subst y. f_equal.
    apply IH; try discriminate; try assumption.
    + intros s Hs. apply Fa. right. exact Hs.
    + intros s Hs. apply Fb. right. exact Hs.
Qed.

Lemma join_colon_nul_free (a : list str) : (forall s, In s a -> ~ In 0 s) -> ~ In 0 (join [colon] a).
Proof.
  induction a as [|x ra IH]; intros F; [intros []|].
  destruct ra as [|x2 ra].
  - cbn. apply F. left. reflexivity.
  - change (join [colon] (x :: x2 :: ra)) with (x ++ colon :: join [colon] (x2 :: ra)).
    intros Hin. apply in_app_or in Hin. destruct Hin as [Hin|[Hin|Hin]].
    + apply (F x); [left; reflexivity|exact Hin].
    + unfold colon in Hin. discriminate.
    + apply IH; [intros s Hs; apply F; right; exact Hs|exact Hin].
Qed.

(* ------------------------------------------------------------------ accounts *)

Lemma account_ok_segs a : account_ok a = true ->
  a <> [] /\ (forall s, In s a -> ~ In 0 s) /\ (forall s, In s a -> ~ In colon s).
Proof.
  unfold account_ok. intros H. apply andb_true_iff in H. destruct H as [Hv Hs].
  split; [destruct a; [discriminate|discriminate]|].
  rewrite forallb_forall in Hs.
  split; intros s Hin; apply Hs in Hin; apply seg_ok_spec in Hin; tauto.
Qed.

Lemma acc_name_inj a b : account_ok a = true -> account_ok b = true -> acc_name a = acc_name b -> a = b.
Proof.
  intros Ha Hb H. apply account_ok_segs in Ha. apply account_ok_segs in Hb.
  apply join_colon_inj; tauto.
Qed.

Lemma acc_name_nul_free a : account_ok a = true -> ~ In 0 (acc_name a).
Proof. intros Ha. apply account_ok_segs in Ha. apply join_colon_nul_free. tauto. Qed.

Lemma acc_eqb_refl a : acc_eqb a a = true.
Proof. unfold acc_eqb. apply str_eqb_refl. Qed.

Lemma acc_eqb_name a b : acc_eqb a b = true <-> acc_name a = acc_name b.
Proof. unfold acc_eqb. apply str_eqb_eq. Qed.

Lemma acc_eqb_ok a b : account_ok a = true -> account_ok b = true -> acc_eqb a b = same_acc a b.
Proof.
  intros Ha Hb. unfold same_acc. destruct (acc_eq_dec a b) as [E|E].
  - subst. apply acc_eqb_refl.
  - destruct (acc_eqb a b) eqn:Eq; [|reflexivity].
    apply acc_eqb_name in Eq. exfalso. apply E. apply acc_name_inj; assumption.
Qed.

Lemma same_acc_refl a : same_acc a a = true.
Proof. unfold same_acc. destruct (acc_eq_dec a a); [reflexivity|contradiction]. Qed.

Lemma same_acc_eq a b : same_acc a b = true <-> a = b.
Proof. unfold same_acc. destruct (acc_eq_dec a b); split; intros; try assumption; try reflexivity; try discriminate; contradiction. Qed.

Lemma same_acc_sym a b : same_acc a b = same_acc b a.
Proof. unfold same_acc. destruct (acc_eq_dec a b), (acc_eq_dec b a); try reflexivity; subst; contradiction. Qed.

Lemma same_com_refl c : same_com c c = true.
Proof. unfold same_com. destruct (str_eq_dec c c); [reflexivity|contradiction]. Qed.

Lemma same_com_eq a b : same_com a b = true <-> a = b.
Proof. unfold same_com. destruct (str_eq_dec a b); split; intros; try assumption; try reflexivity; try discriminate; contradiction. Qed.

Lemma pos_key_inj a c b c' :
  account_ok a = true -> account_ok b = true -> pos_key a c = pos_key b c' -> a = b /\ c = c'.
Proof.
  intros Ha Hb H. unfold pos_key in H. cbn [app] in H.
  apply split_at_sep in H; [|apply acc_name_nul_free; assumption|apply acc_name_nul_free; assumption].
  destruct H as [E1 E2]. split; [apply acc_name_inj; assumption|exact E2].
Qed.
